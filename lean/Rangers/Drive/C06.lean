import Rangers.Basic.Hex
import Rangers.Basic.Line
import Rangers.Model.Ledger
/-
Line-protocol driver for C06 (ledger conservation).

  reset
  cfg <height> <p002> <p015> <p017> <p018> <p026> <p027> [<p014>] <label>   fork flags (as the code reports them) and base height
  univ <addr>*                         addresses whose balances every `exec` answer lists
  set <addr> <dec>                     AccountDB.SetBalance
  init <id> <script>                   creation-code behaviour, referenced by `cr:<val>:<id>` and `tx ct`
  code <addr> <script>                 install a contract
  tx op <src> <dataOk> <k> (<tgt> <amountHex>)*k
  tx ct <eth> <nonceOk> <jsonOk> <src> <tgt|-> <gasLimitHex> <valueHex> <nz> <z> <initId|-> <gasUsed>
  tx apply <src> <id> <typ> <stake> <account> <keysOk>     MinerApply (type 2)
  tx add <src> <id> <delta>                                MinerAdd (type 5)
  tx refund <src> <id> <amountHex> <signed>                MinerRefund (type 3)
  tx node <src> <newAccount> <mainOk>                      OperatorNode (type 7)
  tx chacc <src> <id> <newAccount>                         MinerChangeAccount (type 6)
  exec                                 run the queued transactions as one block
  refund <k> (<addr> <dec>)*k          RefundManager.CheckAndMove over that escrow list
  after <h> <k> (<h_i> <addr> <dec>)*k VMExecutor.after at height h: escrow += entries, then CheckAndMove(h)
  amt <amountHex>                      utility.StrToBigInt alone
  ft add|sub <slot> <int> | ft get <slot> | ft set <int>      AccountDB.AddFT/SubFT/GetFT/SetFT on one raw slot
  stk <n>                              Float64ToBigInt(float64(n)), Uint64ToBigInt(n), ParseUint(BigIntToStrWithoutDot(..))
  ig <create> <hex|->                  executor.IntrinsicGas(data, create) under the current flags
  sarg <int>                           ParseUint(BigIntToStrWithoutDot(money))

script := "-" | action ("," action)*
action := c:<addr>:<val> | cc:<addr>:<val> | dc:<addr> | sc:<addr> | cr:<val>:<id> | cr2:<val>:<id> | sd:<addr>
        | ac:<addr>:<val> | stk:<val> | ustk:<val> | usa | rv | iv | st
-/
namespace Rangers.Drive.C06
open Rangers Rangers.Ledger

structure DS where
  w : World
  univ : List Addr
  inits : List (Nat × Script)
  queue : List Tx          -- reversed
  height : Nat := 100

def emptyWorld : World :=
  { st := { bal := [], dead := [], fresh := 0, burned := 0 }, code := [], ctx := { gasUsed := none } }

def initDS : DS := { w := emptyWorld, univ := [], inits := [], queue := [] }

def addr? (s : String) : Option Addr :=
  if s.length != 40 then none else (ofHex? s).map beToNat

def nat? (s : String) : Option Nat :=
  let cs := s.toList
  if cs.isEmpty || !cs.all isDigit then none else some (digitsVal cs)

def bool? (s : String) : Option Bool :=
  if s = "1" then some true else if s = "0" then some false else none

def str? (s : String) : Option String :=
  (ofHex? s).map (fun bs => String.ofList (bs.map (fun b => Char.ofNat b.toNat)))

def lookupInit (inits : List (Nat × Script)) (id : Nat) : Option Script :=
  match inits with
  | [] => none
  | (k, s) :: r => if k = id then some s else lookupInit r id

def action? (inits : List (Nat × Script)) (tok : String) : Option Action :=
  match tok.splitOn ":" with
  | ["c", a, v] => do let a ← addr? a; let v ← nat? v; pure (.call a v)
  | ["cc", a, v] => do let a ← addr? a; let v ← nat? v; pure (.callcode a v)
  | ["dc", a] => do let a ← addr? a; pure (.delegatecall a)
  | ["sc", a] => do let a ← addr? a; pure (.staticcall a)
  | ["cr", v, id] => do let v ← nat? v; let id ← nat? id; let s ← lookupInit inits id; pure (.create v s)
  | ["cr2", v, id] => do let v ← nat? v; let id ← nat? id; let s ← lookupInit inits id; pure (.create v s)
  | ["sd", a] => do let a ← addr? a; pure (.suicide a)
  | ["ac", a, v] => do let a ← addr? a; let v ← nat? v; pure (.authcall a v)
  | ["stk", v] => do let v ← nat? v; pure (.stake v)
  | ["ustk", v] => do let v ← nat? v; pure (.unstake v)
  | ["usa"] => some .unstakeAll
  | ["rv"] => some .revert
  | ["iv"] => some .invalid
  | ["st"] => some .stop
  | _ => none

def script? (inits : List (Nat × Script)) (s : String) : Option Script :=
  if s = "-" then some [] else (s.splitOn ",").mapM (action? inits)

def pairs? {α β : Type} (fa : String → Option α) (fb : String → Option β) : List String → Option (List (α × β))
  | [] => some []
  | [_] => none
  | a :: b :: r => do
    let x ← fa a
    let y ← fb b
    let t ← pairs? fa fb r
    pure ((x, y) :: t)

def triples? : List String → Option Escrow
  | [] => some []
  | h :: a :: v :: r => do
    let h ← nat? h
    let a ← addr? a
    let v ← nat? v
    let t ← triples? r
    pure ((h, a, v) :: t)
  | _ => none

def amount? (s : String) : Option Amount := (str? s).map strToBigInt

def showAmount : Amount → String
  | .err => "err"
  | .val v => toString v

def statusChar : Status → Char
  | .success => 's'
  | .failed => 'f'
  | .evicted => 'e'

/-- A transaction that leaves the modelled amount domain makes the whole block `unmodelled`. -/
def txOutside : Tx → Bool
  | .operator _ _ _ => false
  | .contract t => t.nz + t.z ≥ 2 ^ 20
  | .apply _ _ _ _ _ _ => false
  | .addStake _ _ _ => false
  | .refund _ _ _ _ => false
  | .node _ _ _ => false
  | .changeAccount _ _ _ => false

instance : BEq Amount := ⟨fun a b => decide (a = b)⟩

def parseTx (ds : DS) : List String → Option Tx
  | "op" :: src :: dok :: k :: rest => do
    let src ← addr? src
    let dok ← bool? dok
    let k ← nat? k
    let ps ← pairs? addr? amount? rest
    if ps.length != k then none else pure (.operator src dok ps)
  | ["ct", eth, nok, jok, src, tgt, gl, val, nz, z, iid, gu] => do
    let eth ← bool? eth
    let nok ← bool? nok
    let jok ← bool? jok
    let src ← addr? src
    let tgt ← if tgt = "-" then some none else (addr? tgt).map some
    let gl ← str? gl
    let val ← str? val
    let nz ← nat? nz
    let z ← nat? z
    let ini ← if iid = "-" then some [] else (nat? iid).bind (lookupInit ds.inits)
    let gu ← nat? gu
    pure (.contract { src := src, target := tgt, eth := eth, nonceOk := nok, jsonOk := jok, gasLimit := gl,
                      value := val, nz := nz, z := z, init := ini, gasUsed := gu })
  | ["apply", src, id, typ, stake, acct, ok] => do
    let src ← addr? src
    let id ← nat? id
    let typ ← nat? typ
    let stake ← nat? stake
    let acct ← addr? acct
    let ok ← bool? ok
    if stake ≥ 2 ^ 53 then none else pure (.apply src id typ stake acct ok)
  | ["add", src, id, delta] => do
    let src ← addr? src
    let id ← nat? id
    let delta ← nat? delta
    if delta ≥ 2 ^ 53 then none else pure (.addStake src id delta)
  | ["refund", src, id, amt, signed] => do
    let src ← addr? src
    let id ← nat? id
    let amt ← str? amt
    let signed ← bool? signed
    -- strconv.ParseUint(amount, 10, 64)
    let a : Option Nat :=
      let cs := amt.toList
      if cs.isEmpty || !cs.all isDigit then none
      else if digitsVal cs ≤ uint64Max then some (digitsVal cs) else none
    pure (.refund src id a signed)
  | ["chacc", src, id, acct] => do
    let src ← addr? src
    let id ← nat? id
    let acct ← addr? acct
    pure (.changeAccount src id acct)
  | ["node", src, acct, ok] => do
    let src ← addr? src
    let acct ← addr? acct
    let ok ← bool? ok
    pure (.node src acct ok)
  | _ => none

def regStake : Reg → Nat
  | [] => 0
  | m :: r => m.stake + regStake r

/-- T = sum of all balances, E = escrow total, S = whole tokens staked in the registry, then the universe -/
def showState (ds : DS) : String :=
  let bs := ds.univ.map (fun a => toString (get ds.w.st.bal a))
  "T=" ++ toString (total ds.w.st.bal) ++ " E=" ++ toString (escrowTotal ds.w.st.escrow)
    ++ " S=" ++ toString (regStake ds.w.st.reg) ++ " " ++ " ".intercalate bs

/-! ### the `conv` stream: the real conversions (C18's exact model of them) next to the ledger primitives.
Every answer ends in `=` when the exact primitive of `Model/Ledger.lean` gives the same result and in `!` when the
string / float round trip of the code changes it (only beyond 2^509, resp. 2^53 whole tokens:
`Props/C06Real.lean`). -/

def int? (s : String) : Option Int :=
  match s.toList with
  | '-' :: r => (nat? (String.ofList r)).map (fun n => -(n : Int))
  | _ => (nat? s).map (fun n => (n : Int))

def flag (b : Bool) : String := if b then "=" else "!"

def showRes : Rangers.Decimal.Res → String
  | .ok v => toString v
  | .err => "err"
  | .panic => "panic"

def resIs (r : Rangers.Decimal.Res) (v : Int) : Bool :=
  match r with
  | .ok x => x == v
  | _ => false

def convFt : List String → String
  | ["add", b, n] =>
    match nat? b, int? n with
    | some b, some n =>
      match Rangers.Decimal.ftAdd 18 b n with
      | none => "nil"
      | some v => s!"{v} {flag (v == get (addBal [(0, b)] 0 n) 0)}"
    | _, _ => "bad-op"
  | ["sub", b, n] =>
    match nat? b, int? n with
    | some b, some n =>
      match Rangers.Decimal.ftSub 18 b n with
      | none => "nil"
      | some (ok, slot, ret) =>
        let m := subBal [(0, b)] 0 n
        let exact := ok == m.2 && slot == get m.1 0 && resIs ret (if ok then (b : Int) - n else (b : Int))
        s!"{if ok then "ok" else "refused"} {slot} {showRes ret} {flag exact}"
    | _, _ => "bad-op"
  | ["get", b] =>
    match nat? b with
    | some b => let r := Rangers.Decimal.ftGet 18 b; s!"{showRes r} {flag (resIs r (b : Int))}"
    | none => "bad-op"
  | ["set", n] =>
    match int? n with
    | some n =>
      match Rangers.Decimal.ftSet 18 n with
      | none => "nil"
      | some v => s!"{v} {flag (v == n.natAbs)}"
    | none => "bad-op"
  | _ => "bad-op"

/-- `stk n`: the debit of AddStake/AddMiner, the refund of GetRefundStake, and what the stake opcodes read back. -/
def convStk (n : Nat) : String :=
  let d := Rangers.Decimal.stakeToBigInt n
  let r := Rangers.Decimal.uint64ToBigInt n
  let back := match Rangers.Decimal.stakeArg r with
    | some k => toString k
    | none => "none"
  s!"{showRes d} {r} {back} {flag (resIs d ((toWei n : Nat) : Int) && r == ((toWei n : Nat) : Int))}"

def convSarg (m : Int) : String :=
  let model : Option Nat := if m < 0 then none else if m.natAbs / wei > uint64Max then none else some (m.natAbs / wei)
  match Rangers.Decimal.stakeArg m with
  | some k => s!"{k} {flag (model == some k)}"
  | none => s!"none {flag (model == none)}"

def step (ds : DS) (line : String) : DS × String :=
  match splitWords line with
  | ["reset"] => (initDS, "ok")
  | ["cfg", h, a, b, c, d, e, f, g, _] =>
    match nat? h, bool? a, bool? b, bool? c, bool? d, bool? e, bool? f, bool? g with
    | some h, some a, some b, some c, some d, some e, some f, some g =>
      ({ ds with height := h,
                 w := { ds.w with fl := { p002 := a, p015 := b, p017 := c, p018 := d, p026 := e, p027 := f, p014 := g } } }, "ok")
    | _, _, _, _, _, _, _, _ => (ds, "bad-op")
  | ["cfg", h, a, b, c, d, e, f, _] =>
    match nat? h, bool? a, bool? b, bool? c, bool? d, bool? e, bool? f with
    | some h, some a, some b, some c, some d, some e, some f =>
      ({ ds with height := h,
                 w := { ds.w with fl := { p002 := a, p015 := b, p017 := c, p018 := d, p026 := e, p027 := f } } }, "ok")
    | _, _, _, _, _, _, _ => (ds, "bad-op")
  | "univ" :: as =>
    match as.mapM addr? with
    | some l => ({ ds with univ := l }, "ok")
    | none => (ds, "bad-op")
  | ["set", a, v] =>
    match addr? a, nat? v with
    | some a, some v =>
      ({ ds with w := { ds.w with st := { ds.w.st with bal := put ds.w.st.bal a v } } }, "ok")
    | _, _ => (ds, "bad-op")
  | ["init", id, sc] =>
    match nat? id, script? ds.inits sc with
    | some id, some s => ({ ds with inits := (id, s) :: ds.inits }, "ok")
    | _, _ => (ds, "bad-op")
  | ["code", a, sc] =>
    match addr? a, script? ds.inits sc with
    | some a, some s => ({ ds with w := { ds.w with code := (a, s) :: ds.w.code } }, "ok")
    | _, _ => (ds, "bad-op")
  | "tx" :: rest =>
    match parseTx ds rest with
    | some t => ({ ds with queue := t :: ds.queue }, "q")
    | none => (ds, "bad-op")
  | ["exec"] =>
    let txs := ds.queue.reverse
    if txs.any txOutside then ({ ds with queue := [] }, "unmodelled") else
    let r := execBlock defaultFuel ds.w (ds.height + 1) txs []
    let ds' := { ds with w := r.1, queue := [], height := ds.height + 1 }
    let sts := if r.2.isEmpty then "-" else String.ofList (r.2.map statusChar)
    (ds', sts ++ " " ++ showState ds')
  | "refund" :: k :: rest =>
    match nat? k, pairs? addr? nat? rest with
    | some k, some ps =>
      if ps.length != k then (ds, "bad-op") else
      let ds' := { ds with w := { ds.w with st := { ds.w.st with bal := refundMove ds.w.st.bal ps } } }
      (ds', showState ds')
    | _, _ => (ds, "bad-op")
  | "after" :: h :: k :: rest =>
    match nat? h, nat? k, triples? rest with
    | some h, some k, some ts =>
      if ts.length != k then (ds, "bad-op") else
      let r := execBlock defaultFuel ds.w h [] ts
      let ds' := { ds with w := r.1, height := h }
      (ds', showState ds')
    | _, _, _ => (ds, "bad-op")
  | ["amt", h] =>
    match amount? h with
    | some a => (ds, showAmount a)
    | none => (ds, "bad-op")
  | "ft" :: rest => (ds, convFt rest)
  | ["stk", n] =>
    match nat? n with
    | some n => (ds, convStk n)
    | none => (ds, "bad-op")
  | ["ig", c, d] =>
    match bool? c, (if d = "-" then some [] else ofHex? d) with
    | some c, some bs =>
      let data := bs.map (fun b => b.toNat)
      let nz := (data.filter (fun b => b != 0)).length
      match intrinsicGasOf ds.w.fl c data with
      | none => (ds, "overflow")
      | some g => (ds, s!"{g} {flag (g == intrinsicGas ds.w.fl c nz (data.length - nz))}")
    | _, _ => (ds, "bad-op")
  | ["sarg", m] =>
    match int? m with
    | some m => (ds, convSarg m)
    | none => (ds, "bad-op")
  | _ => (ds, "bad-op")

def run : IO Unit := runLines initDS step
end Rangers.Drive.C06
