import Rangers.Basic.Hex
import Rangers.Basic.Line
import Rangers.Model.ChainStore
/-
Line-protocol driver for property C05: executes `Model/ChainStore.lean` on the
op lines the Go harness produced from the real chain (harness/cmd/c05).

  genesis <hash>                                   fresh store holding the genesis block (label b0)
  cfg p008 <0|1>                                   fork configuration: Proposal008 (executed-tx check) off/on
  tx <label>                                       declare a transaction
  blk <label> <hash> <parent> <height> <totalQN> <pv> <txs|-> ok|badroot|badreq <fixedReqId> <txReqIds|->
  pv <pvA> <hashA> <pvB> <hashB> / rid <last> <reqs|->   direct streams of two pure functions
  pool <tx>                                        TxPool.AddTransaction
  add <label> | addnil                             BlockChain.AddBlockOnChain
  addc <label> <k> <s>                             … with a process death before write token k (s=1: inside the state commit)
  restart | restartc <k> <s>                       initBlockChain on what is on disk
  view                                             canonical dump of indexes, caches, pool
-/
namespace Rangers.Drive.C05
open Rangers Rangers.Model.ChainStore

structure D where
  st : St
  blocks : List (String × Block)     -- declaration order
  txs : List (String × Nat)
  maxH : Nat
  live : Bool                         -- a genesis op was seen

def D.block? (d : D) (l : String) : Option Block := (d.blocks.find? (fun p => p.1 == l)).map (·.2)
def D.label (d : D) (h : Nat) : String :=
  match d.blocks.find? (fun p => p.2.hash == h) with
  | some p => p.1
  | none => "?"
def D.tx? (d : D) (l : String) : Option Nat := (d.txs.find? (fun p => p.1 == l)).map (·.2)
def D.txLabel (d : D) (t : Nat) : String :=
  match d.txs.find? (fun p => p.2 == t) with
  | some p => p.1
  | none => "?"

def tok (d : D) : Write → String
  | .putAddMark _ => "am"
  | .delAddMark => "-am"
  | .putRemoveMark _ => "rm"
  | .delRemoveMark => "-rm"
  | .putBlock b => "bh:" ++ d.label b.hash
  | .delBlock h => "-bh:" ++ d.label h
  | .putHeight h _ => "hh:" ++ toString h
  | .delHeight h => "-hh:" ++ toString h
  | .putVerify h => "vh:" ++ toString h
  | .delVerify h => "-vh:" ++ toString h
  | .putCurrent _ => "cur"
  | .commitState _ => "st"
  | .putExecuted txs _ => "tx:" ++ toString txs.length
  | .delExecuted _ => "-tx"

def joinOrDash (xs : List String) : String :=
  if xs.isEmpty then "-" else String.intercalate "," xs

def wstr (d : D) (s : St) (sub : Nat) : String :=
  let toks := s.log.reverse.map (tok d)
  let toks := match s.refused with
    | some (.commitState _) => if sub = 1 then toks ++ ["st"] else toks
    | _ => toks
  "W=" ++ joinOrDash toks

def view (d : D) : String :=
  let s := d.st
  let hs := List.range (d.maxH + 2)
  let head := d.label s.mem.latest.hash ++ "@" ++ toString s.mem.latest.height
  let cur := match s.disk.current with
    | some c => d.label c.hash
    | none => "nil"
  let marks := (if s.disk.addMark.isSome then "A" else "-") ++ (if s.disk.removeMark.isSome then "R" else "-")
  let H := hs.filterMap (fun h => (s.disk.heights h).map (fun b => toString h ++ ":" ++ d.label b.hash))
  let Q := hs.filterMap (fun h => (s.lookupHeight h).map (fun b =>
    toString h ++ ":" ++ d.label b.hash ++ (if (s.disk.blocks b.hash).isSome then "" else "!")))
  let VH := hs.filterMap (fun h => if s.disk.verify h then some (toString h) else none)
  let TC := hs.filterMap (fun h => (s.mem.top h).map (fun b => toString h ++ ":" ++ d.label b.hash))
  let B := d.blocks.filterMap (fun p => if (s.disk.blocks p.2.hash).isSome then some p.1 else none)
  let V := d.blocks.filterMap (fun p => if s.mem.verified.contains p.2.hash then some p.1 else none)
  let F := d.blocks.filterMap (fun p => (s.mem.future p.2.hash).map (fun f => p.1 ++ ">" ++ d.label f.hash))
  let T := d.txs.filterMap (fun p =>
    let pend := s.mem.pending.contains p.2
    match s.disk.executed p.2 with
    | some bh => some (p.1 ++ ":" ++ (if pend then "p" else "") ++ "e@" ++ d.label bh)
    | none => if pend then some (p.1 ++ ":p") else none)
  "head=" ++ head ++ " cur=" ++ cur ++ " marks=" ++ marks ++ " H=" ++ joinOrDash H ++ " Q=" ++ joinOrDash Q ++
    " VH=" ++ joinOrDash VH ++ " TC=" ++ (if d.maxH ≥ 90 then "~" else joinOrDash TC) ++ " B=" ++ joinOrDash B ++ " V=" ++ joinOrDash V ++
    " F=" ++ joinOrDash F ++ " T=" ++ joinOrDash T

def parseTxs (d : D) (w : String) : Option (List Nat) :=
  if w == "-" then some [] else (w.splitOn ",").mapM d.tx?

def parseNats (w : String) : Option (List Nat) :=
  if w == "-" then some [] else (w.splitOn ",").mapM String.toNat?

def fuelNote (s : St) : String := if s.fuelOut then " FUEL-OUT" else ""

def doAdd (d : D) (b : Block) (budget : Option Nat) (sub : Nat) : D × String :=
  let s0 := d.st.arm budget
  let (s1, r) := addBlock defaultFuel s0 b
  let d1 := { d with st := s1 }
  if s1.crashed then (d1, "crash " ++ wstr d s1 sub ++ fuelNote s1)
  else (d1, r.name ++ " " ++ wstr d s1 0 ++ fuelNote s1)

def doRestart (d : D) (budget : Option Nat) (sub : Nat) : D × String :=
  let s0 := d.st.arm budget
  let (s1, r) := restart s0
  let d1 := { d with st := s1 }
  if s1.crashed then (d1, "crash " ++ wstr d s1 sub)
  else match r with
    | .ok => (d1, "ok " ++ wstr d s1 0)
    | .panic => (d1, "PANIC state-root-missing")
    | .fresh => (d1, "fresh")

def step (d : D) (line : String) : D × String :=
  match splitWords line with
  | ["genesis", h] =>
    match ofHex? h with
    | some bs =>
      let g : Block := { hash := beToNat bs, pre := 0, height := 0, totalQN := 0, pv := 0, txs := [], valid := true }
      ({ st := genesisState g, blocks := [("b0", g)], txs := [], maxH := 0, live := true }, "ok")
    | none => (d, "bad-op")
  | ["cfg", "p008", v] =>
    if !d.live || (v != "0" && v != "1") then (d, "bad-op")
    else ({ d with st := { d.st with p008 := v == "1" } }, "ok")
  | ["tx", l] =>
    if !d.live || (d.tx? l).isSome then (d, "bad-op")
    else ({ d with txs := d.txs ++ [(l, d.txs.length)] }, "ok")
  | ["blk", l, h, par, height, qn, pv, txs, flag, req, treqs] =>
    if !d.live || (d.block? l).isSome then (d, "bad-op") else
    match ofHex? h, d.block? par, height.toNat?, qn.toNat?, pv.toNat?, parseTxs d txs, req.toNat?, parseNats treqs with
    | some bs, some p, some hh, some q, some v, some ts, some rq, some trq =>
      if flag != "ok" && flag != "badroot" && flag != "badreq" then (d, "bad-op") else
      let b : Block := { hash := beToNat bs, pre := p.hash, height := hh, totalQN := q, pv := v, txs := ts,
                         valid := flag != "badroot", reqId := rq, txReqs := trq }
      ({ d with blocks := d.blocks ++ [(l, b)], maxH := max d.maxH hh }, "ok")
    | _, _, _, _, _, _, _, _ => (d, "bad-op")
  | ["pv", pa, ha, pb, hb] =>
    -- direct stream: chainPvGreatThanRemote(local, remote)
    match pa.toNat?, ofHex? ha, pb.toNat?, ofHex? hb with
    | some pa, some ha, some pb, some hb =>
      let a : Block := { hash := beToNat ha, pre := 0, height := 0, totalQN := 0, pv := pa, txs := [], valid := true }
      let b : Block := { hash := beToNat hb, pre := 0, height := 0, totalQN := 0, pv := pb, txs := [], valid := true }
      (d, if pvGreater a b then "true" else "false")
    | _, _, _, _ => (d, "bad-op")
  | ["rid", last, reqs] =>
    -- direct stream: getRequestIdFromTransactions(txs, last)["fixed"]
    match last.toNat?, parseNats reqs with
    | some l, some rs => (d, toString (requestIdFrom rs l))
    | _, _ => (d, "bad-op")
  | ["pool", l] =>
    if !d.live || d.st.crashed then (d, "bad-op") else
    match d.tx? l with
    | some t =>
      let (s1, ok) := poolAdd d.st t
      ({ d with st := s1 }, if ok then "ok" else "exist")
    | none => (d, "bad-op")
  | ["addnil"] =>
    if !d.live || d.st.crashed then (d, "bad-op") else (d, "failed W=-")
  | ["add", l] =>
    if !d.live || d.st.crashed then (d, "bad-op") else
    match d.block? l with
    | some b => doAdd d b none 0
    | none => (d, "bad-op")
  | ["addc", l, k, sub] =>
    if !d.live || d.st.crashed then (d, "bad-op") else
    match d.block? l, k.toNat?, sub.toNat? with
    | some b, some k, some sub => if sub > 1 then (d, "bad-op") else doAdd d b (some k) sub
    | _, _, _ => (d, "bad-op")
  | ["restart"] =>
    if !d.live then (d, "bad-op") else doRestart d none 0
  | ["restartc", k, sub] =>
    if !d.live then (d, "bad-op") else
    match k.toNat?, sub.toNat? with
    | some k, some sub => if sub > 1 then (d, "bad-op") else doRestart d (some k) sub
    | _, _ => (d, "bad-op")
  | ["view"] =>
    if !d.live || d.st.crashed then (d, "bad-op") else (d, view d)
  | _ => (d, "bad-op")

def init : D :=
  { st := genesisState default, blocks := [], txs := [], maxH := 0, live := false }

def run : IO Unit := runLines init step
end Rangers.Drive.C05
