import Rangers.Basic.Hex
import Rangers.Basic.Line
import Rangers.Model.Decimal
import Rangers.Model.DecimalTx
/-
Line-protocol driver for C18 (decimal amount strings <-> 18-decimal integers).

  parse <hex-string> <d>   strToBigInt(s, d)              -> ok <int> | err | PANIC
  pf <hex-string>          big.ParseFloat(s,10,512,Away)  -> zero <0|1> | inf <0|1> | fin <0|1> <odd mantissa> <exp> | err
  fmt <int> <p>            bigIntToStr(n, p)              -> s <string>
  tostr <int>              BigIntToStr(n)                 -> s <string>
  nodot <int>              BigIntToStrWithoutDot(n)       -> s <string>
  erc20 <int> <d>          FormatDecimalForERC20(n, d)    -> ok <int> | nil
  rocket <int> <d>         FormatDecimalForRocket(n, d)   -> ok <int> | nil
  evmval <int>             ConvertTx -> decodeContractData -> ok <int> | err
  ft <d> <step>...         fresh AccountDB, token bound with d decimals; steps s<int> (SetFT),
                           a<int> (AddFT), u<int> (SubFT), g (GetFT); one answer token per step:
                           s | a | u:<0|1>:<int|nil> | g:<int|nil>   (NILPANIC if Go would deref nil)

  cfg <0|1> <0|1> <0|1>    switch Proposal 002 / 005 / 017 off or on for the following ops -> cfg
  xfer <int> <hex-string>  service.ChangeAssets, source holding <int>, one target, amount string
                           -> xfer <ok|fail> <src after> <dst after> <response, blanks as _>
  stake <u64>              Float64ToBigInt(float64(n))    -> ok <int> | PANIC
  f64 <bits>               Float64ToBigInt(Float64frombits(bits)) -> ok <int> | nan-panic
  u64 <u64>                Uint64ToBigInt(n)              -> ok <int>
  stakearg <int>           ParseUint(BigIntToStrWithoutDot(n),10,0) -> ok <n> | err
  basen <nat> <base>       BigIntBase10toN(n, base)       -> s <string>   (2 <= base <= 16)
  calldata <nat>           common.GenerateCallDataBigInt(n) -> s <string> arg-after=<n afterwards> (the Go loop zeroes its argument)
  size <hex-string> <d>    bit length of |strToBigInt(s, d)| -> bits <n> | err

  decode <p005> <p017> <gasLimit-hex> <transferValue-hex> <abiData-hex>
                           decodeContractData on {gasLimit, transferValue, abiData} -> ok <gas> <value> <input-hex> | err
  convert <value> <gasPrice> <gas> <payload-hex>
                           ConvertTx -> cd <gasPrice-hex> <gasLimit-hex> <transferValue-hex> <abiData-hex>
  world <step>...          token layer of AccountDB on a fresh db: b<t>:<d> bind, s<t>:<a>:<int> SetFT, a.. AddFT,
                           u.. SubFT, g<t>:<a> GetFT (tokens/accounts numbered) -> one answer token per step
  u64b <u64> / b2u64 <hex> UInt64ToByte / ByteToUInt64      -> h <hex> / n <nat>
  bbstr <hex>              BigIntBytesToStr                 -> s <string>
  rawbal <int>             SetBalance(n); GetRawBalance     -> s <string>

Strings travel as hex of their bytes (a byte b is the character with code b; the
model only ever inspects ASCII). `parse` of a finite amount whose binary exponent
exceeds `bigLimit` is answered `unmodelled` unless the product with `10^d` must
overflow to Inf (the harness answers `skipped-huge` by the same rule: Go would
allocate and print an integer of hundreds of megabytes).
-/
namespace Rangers.Drive.C18
open Rangers Rangers.Decimal

def bigLimit : Int := 150000

def strOfBytes (bs : Bytes) : Str := bs.map (fun b => Char.ofNat b.toNat)

def showStr (s : Str) : String := "s " ++ String.ofList s

/-- strip trailing zero bits: canonical (odd mantissa, exponent) of `m·2^e`, `m > 0`. -/
def oddNorm : Nat → Nat → Int → Nat × Int
  | 0, m, e => (m, e)
  | fuel + 1, m, e => if m % 2 = 0 && m != 0 then oddNorm fuel (m / 2) (e + 1) else (m, e)

def b01 (b : Bool) : String := if b then "1" else "0"

def showBF : BF → String
  | .zero n => "zero " ++ b01 n
  | .inf n => "inf " ++ b01 n
  | .nan => "PANIC"
  | .fin n m e =>
    let (m', e') := oddNorm (bitLen m + 1) m e
    "fin " ++ b01 n ++ " " ++ toString m' ++ " " ++ toString e'

/-- finite, binary exponent above `bigLimit`, and the product with `10^d` not certain
    to overflow to ±Inf (an overflowing product is answered 0 cheaply by Go). -/
def tooBig (d : Int) : BF → Bool
  | .fin _ m e =>
    (bitLen m : Int) + e > bigLimit &&
      (bitLen m : Int) + e + (bitLen (10 ^ d.toNat) : Int) - 1 ≤ maxExp
  | _ => false

/-- the `size` op evaluates larger results than `parse` (no decimal printing): up to
    `sizeLimit` bits. -/
def sizeLimit : Int := 40000000

def sizeTooBig (d : Int) : BF → Bool
  | .fin _ m e =>
    (bitLen m : Int) + e > sizeLimit &&
      (bitLen m : Int) + e + (bitLen (10 ^ d.toNat) : Int) - 1 ≤ maxExp
  | _ => false

def showRes (nilWord : String) : Res → String
  | .ok v => "ok " ++ toString v
  | .err => nilWord
  | .panic => "PANIC"

/-- `strToBigInt` with the size guard of the driver. -/
def parseGuarded (s : Str) (d : Int) : String :=
  if s = [] then showRes "err" (strToBigInt s d)
  else match parseFloat s with
    | none => "err"
    | some t =>
      if tooBig d t then "unmodelled"
      else showRes "err" (strToBigInt s d)

def okDec (d : Int) : Bool := -1000 ≤ d && d ≤ 5000

def showResTok : Res → String
  | .ok v => toString v
  | .err => "nil"
  | .panic => "PANIC"

/-- run the steps of an `ft` op on the slot content `bal`; `none` = malformed step. -/
def ftSteps (d : Int) : List String → Nat → List String → Option (List String)
  | [], _, acc => some acc.reverse
  | st :: rest, bal, acc =>
    match st.toList with
    | ['g'] => ftSteps d rest bal (("g:" ++ showResTok (ftGet d bal)) :: acc)
    | 's' :: num =>
      match (String.ofList num).toInt? with
      | none => none
      | some n => match ftSet d n with
        | some b => ftSteps d rest b ("s" :: acc)
        | none => some (("NILPANIC" :: acc).reverse)
    | 'a' :: num =>
      match (String.ofList num).toInt? with
      | none => none
      | some n => match ftAdd d bal n with
        | some b => ftSteps d rest b ("a" :: acc)
        | none => some (("NILPANIC" :: acc).reverse)
    | 'u' :: num =>
      match (String.ofList num).toInt? with
      | none => none
      | some n => match ftSub d bal n with
        | some (ok, b, r) => ftSteps d rest b (("u:" ++ b01 ok ++ ":" ++ showResTok r) :: acc)
        | none => some (("NILPANIC" :: acc).reverse)
    | _ => none

def natsOfBytes (bs : Bytes) : List Nat := bs.map (·.toNat)
def bytesOfNats (ns : List Nat) : Bytes := ns.map UInt8.ofNat
def hexOfStr (s : Str) : String := toHex (s.map (fun c => UInt8.ofNat c.toNat))

def splitColon (s : String) : List String := s.splitOn ":"

/-- run the steps of a `world` op -/
def worldSteps : List String → World → List String → Option (List String)
  | [], _, acc => some acc.reverse
  | st :: rest, w, acc =>
    match st.toList with
    | c :: body =>
      match c, (splitColon (String.ofList body)) with
      | 'b', [t, d] =>
        match t.toNat?, d.toNat? with
        | some t, some d => let (w', ok) := wBind w t d; worldSteps rest w' (("b" ++ b01 ok) :: acc)
        | _, _ => none
      | 'g', [t, a] =>
        match t.toNat?, a.toNat? with
        | some t, some a => worldSteps rest w (("g:" ++ showResTok (wGet w t a)) :: acc)
        | _, _ => none
      | 's', [t, a, n] =>
        match t.toNat?, a.toNat?, n.toInt? with
        | some t, some a, some n => match wSet w t a n with
          | some w' => worldSteps rest w' ("s" :: acc)
          | none => some (("NILPANIC" :: acc).reverse)
        | _, _, _ => none
      | 'a', [t, a, n] =>
        match t.toNat?, a.toNat?, n.toInt? with
        | some t, some a, some n => match wAdd w t a n with
          | some w' => worldSteps rest w' ("a" :: acc)
          | none => some (("NILPANIC" :: acc).reverse)
        | _, _, _ => none
      | 'u', [t, a, n] =>
        match t.toNat?, a.toNat?, n.toInt? with
        | some t, some a, some n => match wSub w t a n with
          | some (w', ok, r) => worldSteps rest w' (("u:" ++ b01 ok ++ ":" ++ showResTok r) :: acc)
          | none => some (("NILPANIC" :: acc).reverse)
        | _, _, _ => none
      | _, _ => none
    | [] => none

def step (_ : Unit) (line : String) : Unit × String :=
  match splitWords line with
  | ["parse", h, d] =>
    match ofHex? h, d.toInt? with
    | some b, some d => if okDec d then ((), parseGuarded (strOfBytes b) d) else ((), "unmodelled")
    | _, _ => ((), "bad-op")
  | ["pf", h] =>
    match ofHex? h with
    | some b => match parseFloat (strOfBytes b) with
      | none => ((), "err")
      | some t => ((), showBF t)
    | none => ((), "bad-op")
  | ["fmt", n, p] =>
    match n.toInt?, p.toInt? with
    | some n, some p => if okDec p then ((), showStr (bigIntToStr n p)) else ((), "unmodelled")
    | _, _ => ((), "bad-op")
  | ["tostr", n] =>
    match n.toInt? with
    | some n => ((), showStr (BigIntToStr n))
    | none => ((), "bad-op")
  | ["nodot", n] =>
    match n.toInt? with
    | some n => ((), showStr (BigIntToStrWithoutDot n))
    | none => ((), "bad-op")
  | ["erc20", n, d] =>
    match n.toInt?, d.toInt? with
    | some n, some d => if okDec d then ((), showRes "nil" (formatERC20 n d)) else ((), "unmodelled")
    | _, _ => ((), "bad-op")
  | ["rocket", n, d] =>
    match n.toInt?, d.toInt? with
    | some n, some d => if okDec d then ((), showRes "nil" (formatRocket n d)) else ((), "unmodelled")
    | _, _ => ((), "bad-op")
  | ["evmval", n] =>
    match n.toInt? with
    | some n => ((), showRes "err" (evmValue n))
    | none => ((), "bad-op")
  | ["decode", p5, p17, gl, tv, abi] =>
    match ofHex? gl, ofHex? tv, ofHex? abi with
    | some gl, some tv, some abi =>
      if (p5 == "0" || p5 == "1") && (p17 == "0" || p17 == "1") then
        let tvs := strOfBytes tv
        let huge : Bool := match parseFloat tvs with
          | some (.fin _ m e) => (bitLen m : Int) + e > bigLimit
          | _ => false
        if huge then ((), "unmodelled")
        else match decodeContractData (p5 == "1") (p17 == "1") ⟨[], strOfBytes gl, tvs, strOfBytes abi⟩ with
          | some (g, v, inp) => ((), "ok " ++ toString g ++ " " ++ toString v ++ " " ++ toHex (bytesOfNats inp))
          | none => ((), "err")
      else ((), "bad-op")
    | _, _, _ => ((), "bad-op")
  | ["convert", v, gp, g, pl] =>
    match v.toNat?, gp.toNat?, g.toNat?, ofHex? pl with
    | some v, some gp, some g, some pl =>
      let cd := convertTxData v gp g (natsOfBytes pl)
      ((), "cd " ++ hexOfStr cd.gasPrice ++ " " ++ hexOfStr cd.gasLimit ++ " " ++ hexOfStr cd.transferValue ++ " " ++ hexOfStr cd.abiData)
    | _, _, _, _ => ((), "bad-op")
  | "world" :: steps =>
    match worldSteps steps World.empty [] with
    | some out => ((), String.intercalate " " ("world" :: out))
    | none => ((), "bad-op")
  | ["u64b", n] =>
    match n.toNat? with
    | some n => if n < 2 ^ 64 then ((), "h " ++ toHex (bytesOfNats (uint64ToByte n))) else ((), "bad-op")
    | none => ((), "bad-op")
  | ["b2u64", h] =>
    match ofHex? h with
    | some b => ((), "n " ++ toString (byteToUInt64 (natsOfBytes b)))
    | none => ((), "bad-op")
  | ["bbstr", h] =>
    match ofHex? h with
    | some b => ((), showStr (bigIntBytesToStr (natsOfBytes b)))
    | none => ((), "bad-op")
  | ["rawbal", n] =>
    match n.toInt? with
    | some n => match ftSet 18 n with
      | some b => ((), showStr (rawBalanceStr b))
      | none => ((), "NILPANIC")
    | none => ((), "bad-op")
  | ["cfg", a, b, c] =>
    -- fork flags (Proposal 002 / 005 / 017): the model is flag-free (Props/C18Gen.gen_fork_flag_reads)
    if (a == "0" || a == "1") && (b == "0" || b == "1") && (c == "0" || c == "1") then ((), "cfg") else ((), "bad-op")
  | ["xfer", n, h] =>
    match n.toInt?, ofHex? h with
    | some n, some b =>
      let s := strOfBytes b
      let huge : Bool := match parseFloat s with
        | some t => (match t with
          | .fin _ m e => (bitLen m : Int) + e > bigLimit
          | _ => false)
        | none => false
      if huge then ((), "unmodelled")
      else match gameTransfer n s with
        | none => ((), "NILPANIC")
        | some (ok, a, b, r) =>
          ((), "xfer " ++ (if ok then "ok" else "fail") ++ " " ++ showResTok a ++ " " ++ showResTok b ++ " " ++
            String.ofList (r.map (fun c => if c = ' ' then '_' else c)))
    | _, _ => ((), "bad-op")
  | ["stake", n] =>
    match n.toNat? with
    | some n => if n < 2 ^ 64 then ((), showRes "err" (stakeToBigInt n)) else ((), "bad-op")
    | none => ((), "bad-op")
  | ["f64", b] =>
    match b.toNat? with
    | some b => if b < 2 ^ 64 then ((), match float64ToBigInt b with
        | .ok v => "ok " ++ toString v
        | _ => "nan-panic") else ((), "bad-op")
    | none => ((), "bad-op")
  | ["u64", n] =>
    match n.toNat? with
    | some n => if n < 2 ^ 64 then ((), "ok " ++ toString (uint64ToBigInt n)) else ((), "bad-op")
    | none => ((), "bad-op")
  | ["stakearg", n] =>
    match n.toInt? with
    | some n => ((), match stakeArg n with
        | some v => "ok " ++ toString v
        | none => "err")
    | none => ((), "bad-op")
  | ["basen", n, b] =>
    match n.toNat?, b.toNat? with
    | some n, some b => if 2 ≤ b && b ≤ 16 then ((), showStr (bigIntBase10toN n b)) else ((), "unmodelled")
    | _, _ => ((), "bad-op")
  | ["calldata", n] =>
    match n.toNat? with
    | some n => ((), showStr (callDataBigInt n) ++ " arg-after=0")
    | none => ((), "bad-op")
  | ["size", h, d] =>
    match ofHex? h, d.toInt? with
    | some b, some d =>
      if okDec d then
        let s := strOfBytes b
        if s = [] then ((), "bits 0")
        else match parseFloat s with
          | none => ((), "err")
          | some t =>
            if sizeTooBig d t then ((), "unmodelled")
            else match strToBigInt s d with
              | .ok v => ((), "bits " ++ toString (bitLen v.natAbs))
              | _ => ((), "err")
      else ((), "unmodelled")
    | _, _ => ((), "bad-op")
  | "ft" :: d :: steps =>
    match d.toInt? with
    | some d =>
      if 0 ≤ d && d ≤ 5000 then
        match ftSteps d steps 0 [] with
        | some out => ((), String.intercalate " " ("ft" :: out))
        | none => ((), "bad-op")
      else ((), "unmodelled")
    | none => ((), "bad-op")
  | _ => ((), "bad-op")

def run : IO Unit := runLines () step
end Rangers.Drive.C18
