import Rangers.Basic.Hex
import Rangers.Basic.Line
import Rangers.Model.WireConv
import Rangers.Model.WireEnvelope
/-!
Line-protocol driver for C09. Ops (see harness/cmd/c09/main.go for the Go side):

  hm <header>            MarshalBlockHeader        -> nil | <hex> <genhash>
  hu <hex>               UnMarshalBlockHeader      -> err | nil | panic | ok <header> <genhash>
  tm <tx>                MarshalTransaction        -> <hex> <genhash>
  tu|tuc <hex>           UnMarshalTransaction      -> err | panic | ok <tx> <genhash>
  sm <n> <tx>*           MarshalTransactions       -> <hex>
  su|suc <hex>           UnMarshalTransactions     -> err | panic | ok <n> <tx>*
  bm <header|nilhdr> <n> <tx>*   MarshalBlock      -> err | panic | <hex>
  bu|buc <hex>           UnMarshalBlock            -> err | panic | ok <header|nilhdr> <n> <tx>*
  gm <group>             MarshalGroup              -> <hex> <genhash of header>
  gu <hex>               UnMarshalGroup            -> err | panic | ok <group> <genhash of header>
  Gu <hex>               proto.Unmarshal(GroupSlice); PbToGroups -> err | panic | ok <n> <group>*
  mm <id> <pubkey>       MarshalMember             -> err | <hex>
  mu <hex>               UnMarshalMember           -> err | ok <id> <pubkey>
  jt <time>              json.Marshal(time)        -> err | <hex>
  rm <hashes> <current> <height> <pv>  core marshalTransactionRequestMessage -> panic | <hex>
  ru <hex>               core unMarshalTransactionRequestMessage -> err | ok <hashes> <current> <height> <pv>
  em <code> <body>       network marshalMessage    -> <hex>
  eu <hex>               network unMarshalMessage  -> err | panic | ok <code> <body>
  fl <method> <target> <nonce> <body>  baseConn.loadMsg   -> <hex>
  fu <hex>               baseConn.unloadMsg        -> <method> <source> <target> <nonce> <body>
  ret <hex>              retention: the value returned earlier (bytes of a Marshal, or the token rendering of a
                         parsed object) as it reads now, after later calls -> <hex> (a value does not change)
  jr <hex>               RequestIds JSON decode    -> <reqids>
  jq <hex>               json.Marshal(string)      -> <hex>
  ju <hex>               json.Unmarshal into a string (input starts with a quote) -> err | ok <hex>

`tuc`/`suc`/`buc`: the bytes were produced by the implementation's own Marshal, so the
SubTransactions JSON is canonical; on `tu`/`su`/`bu` a non-trivial SubTransactions field is
`unmodelled` (encoding/json's decoder is not modelled).
-/
namespace Rangers.Drive.C09
open Rangers Rangers.Wire Rangers.Json

/-! ### token parsing -/

def pNat (s : String) : Option Nat := s.toNat?
def pInt (s : String) : Option Int := s.toInt?
def pU64 (s : String) : Option Nat := do
  let n ← s.toNat?
  if n < 18446744073709551616 then some n else none
def pU32 (s : String) : Option Nat := do
  let n ← s.toNat?
  if n < 4294967296 then some n else none
def pHash (s : String) : Option Bytes := do
  let b ← ofHex? s
  if b.length = 32 then some b else none
def pOptBytes (s : String) : Option (Option Bytes) :=
  if s == "n" then some none else (ofHex? s).map some
def pSign (s : String) : Option (Option Bytes) :=
  if s == "n" then some none else do
    let b ← ofHex? s
    if b.length = 65 then some (some b) else none

def pTime (s : String) : Option GoTime :=
  match s.splitOn ":" with
  | [a, b, c] => do
    let sec ← pInt a
    let ns ← pNat b
    if sec < -9223372036854775808 ∨ sec > 9223372036854775807 ∨ ns ≥ 1073741824 then none
    else if c == "u" then some ⟨sec, ns, none⟩
    else do
      let z ← pInt c
      some ⟨sec, ns, some z⟩
  | _ => none

def pList {α : Type} (f : String → Option α) (s : String) : Option (List α) :=
  if s == "e" then some [] else (s.splitOn ",").mapM f

def pOptList {α : Type} (f : String → Option α) (s : String) : Option (Option (List α)) :=
  if s == "n" then some none else (pList f s).map some

def pPair (s : String) : Option (Bytes × Bytes) :=
  match s.splitOn "." with
  | [a, b] => do
    let x ← pHash a
    let y ← pHash b
    some (x, y)
  | _ => none

def pKV (s : String) : Option (Bytes × Nat) :=
  match s.splitOn "=" with
  | [a, b] => do
    let k ← ofHex? a
    let v ← pU64 b
    some (k, v)
  | _ => none

def pReqIds (s : String) : Option ReqIds :=
  if s == "n" then some .nil
  else do
    let kvs ← pList pKV s
    let m := kvs.foldl (fun acc kv => insertKV kv.1 kv.2 acc) []
    if m.all (fun kv => kv.1.all safeKeyByte) then some (.map m) else some (.mapEsc m)

def pHeader : List String → Option (Header × List String)
  | hash :: height :: preHash :: preTime :: pv :: qn :: curTime :: castor :: gid :: sig :: nonce :: rids ::
    txs :: txTree :: rcTree :: stTree :: extra :: random :: evicted :: rest => do
    let h : Header := {
      hash := ← pHash hash, height := ← pU64 height, preHash := ← pHash preHash, preTime := ← pTime preTime,
      proveValue := ← (if pv == "n" then some none else (pInt pv).map some),
      totalQN := ← pU64 qn, curTime := ← pTime curTime, castor := ← pOptBytes castor,
      groupId := ← pOptBytes gid, signature := ← pOptBytes sig, nonce := ← pU64 nonce,
      requestIds := ← pReqIds rids, transactions := ← pOptList pPair txs, txTree := ← pHash txTree,
      receiptTree := ← pHash rcTree, stateTree := ← pHash stTree, extraData := ← pOptBytes extra,
      random := ← pOptBytes random, evictedTxs := ← pOptList pHash evicted }
    some (h, rest)
  | _ => none

def pTx : List String → Option (Tx × List String)
  | source :: target :: type :: time :: data :: extra :: edt :: subTx :: subHash :: hash :: sign :: nonce ::
    rid :: sock :: chain :: rest => do
    let t : Tx := {
      source := ← ofHex? source, target := ← ofHex? target, type := ← pU32 type, time := ← ofHex? time,
      data := ← ofHex? data, extraData := ← ofHex? extra, extraDataType := ← pU32 edt,
      subTx := ← ofHex? subTx, subHash := ← pHash subHash, hash := ← pHash hash, sign := ← pSign sign,
      nonce := ← pU64 nonce, requestId := ← pU64 rid, socketRequestId := ← ofHex? sock,
      chainId := ← ofHex? chain }
    some (t, rest)
  | _ => none

def pTxs : Nat → List String → Option (List Tx × List String)
  | 0, rest => some ([], rest)
  | n + 1, ws => do
    let (t, r) ← pTx ws
    let (ts, r2) ← pTxs n r
    some (t :: ts, r2)

def pGroup : List String → Option (Group × List String)
  | hash :: parent :: pre :: cbh :: bt :: mroot :: ch :: rh :: wh :: dh :: ext :: id :: pk :: sig :: mems ::
    gh :: rest => do
    let hd : GroupHeader := {
      hash := ← pHash hash, parent := ← pOptBytes parent, preGroup := ← pOptBytes pre,
      createBlockHash := ← pOptBytes cbh, beginTime := ← pTime bt, memberRoot := ← pHash mroot,
      createHeight := ← pU64 ch, readyHeight := ← pU64 rh, workHeight := ← pU64 wh,
      dismissHeight := ← pU64 dh, extends_ := ← ofHex? ext }
    let g : Group := {
      header := hd, id := ← pOptBytes id, pubKey := ← pOptBytes pk, signature := ← pOptBytes sig,
      members := ← pList ofHex? mems, groupHeight := ← pU64 gh }
    some (g, rest)
  | _ => none

/-! ### token printing -/

def sOptBytes : Option Bytes → String
  | none => "n"
  | some b => toHex b

def sTime (t : GoTime) : String :=
  toString t.sec ++ ":" ++ toString t.nsec ++ ":" ++ (match t.zone with | none => "u" | some z => toString z)

def sList {α : Type} (f : α → String) : List α → String
  | [] => "e"
  | l => ",".intercalate (l.map f)

def sOptList {α : Type} (f : α → String) : Option (List α) → String
  | none => "n"
  | some l => sList f l

def sReqIds : ReqIds → String
  | .nil => "n"
  | .map kvs => sList (fun kv => toHex kv.1 ++ "=" ++ toString kv.2) kvs
  | .mapEsc kvs => sList (fun kv => toHex kv.1 ++ "=" ++ toString kv.2) kvs
  | .opaque _ => "o"

def sHeader (h : Header) : String :=
  " ".intercalate [toHex h.hash, toString h.height, toHex h.preHash, sTime h.preTime,
    (match h.proveValue with | none => "n" | some v => toString v), toString h.totalQN, sTime h.curTime,
    sOptBytes h.castor, sOptBytes h.groupId, sOptBytes h.signature, toString h.nonce, sReqIds h.requestIds,
    sOptList (fun p => toHex p.1 ++ "." ++ toHex p.2) h.transactions, toHex h.txTree, toHex h.receiptTree,
    toHex h.stateTree, sOptBytes h.extraData, sOptBytes h.random, sOptList toHex h.evictedTxs]

def sTx (t : Tx) : String :=
  " ".intercalate [toHex t.source, toHex t.target, toString t.type, toHex t.time, toHex t.data,
    toHex t.extraData, toString t.extraDataType, toHex t.subTx, toHex t.subHash, toHex t.hash,
    sOptBytes t.sign, toString t.nonce, toString t.requestId, toHex t.socketRequestId, toHex t.chainId]

def sTxs (ts : List Tx) : String :=
  match ts with
  | [] => "0"
  | _ => toString ts.length ++ " " ++ " ".intercalate (ts.map sTx)

def sGroup (g : Group) : String :=
  let h := g.header
  " ".intercalate [toHex h.hash, sOptBytes h.parent, sOptBytes h.preGroup, sOptBytes h.createBlockHash,
    sTime h.beginTime, toHex h.memberRoot, toString h.createHeight, toString h.readyHeight,
    toString h.workHeight, toString h.dismissHeight, toHex h.extends_, sOptBytes g.id, sOptBytes g.pubKey,
    sOptBytes g.signature, sList toHex g.members, toString g.groupHeight]

/-! ### modelled-class checks -/

def keysSafe : ReqIds → Bool
  | .nil => true
  | .map kvs => kvs.all (fun kv => kv.1.all safeKeyByte)
  | .mapEsc _ => true
  | .opaque _ => false

def headerModelled (h : Header) : Bool := keysSafe h.requestIds

def subTxTrivial (p : PbTx) : Bool :=
  match p.subTransactions with
  | none => true
  | some raw => raw = [] || raw = jsonNull || (parseSubTx raw).isSome

def showOutcome {α : Type} (f : α → String) : Outcome α → String
  | .ok a => "ok " ++ f a
  | .err => "err"
  | .nilObj => "nil"
  | .panic _ => "panic"

def step (_ : Unit) (line : String) : Unit × String :=
  let ans : String :=
    match splitWords line with
    | "hm" :: ws =>
      (match pHeader ws with
       | some (h, []) =>
         if !headerModelled h then "unmodelled"
         else match marshalHeader h with
           | none => "nil"
           | some b => toHex b ++ " " ++ toHex (headerGenHash h)
       | _ => "bad-op")
    | ["hu", x] =>
      (match ofHex? x with
       | none => "bad-op"
       | some bs =>
         match unmarshalHeader bs with
         | .ok h => if headerModelled h then "ok " ++ sHeader h ++ " " ++ toHex (headerGenHash h) else "unmodelled"
         | o => showOutcome sHeader o)
    | "tm" :: ws =>
      (match pTx ws with
       | some (t, []) => toHex (marshalTx t) ++ " " ++ toHex (txGenHash t)
       | _ => "bad-op")
    | "sm" :: n :: ws =>
      (match pNat n with
       | none => "bad-op"
       | some k => match pTxs k ws with
         | some (ts, []) => toHex (marshalTxs ts)
         | _ => "bad-op")
    | "bm" :: ws =>
      (match (match ws with
              | "nilhdr" :: rest => some (none, rest)
              | _ => (pHeader ws).map (fun (h, r) => (some h, r))) with
       | none => "bad-op"
       | some (oh, n :: rest) =>
         (match pNat n with
          | none => "bad-op"
          | some k => match pTxs k rest with
            | some (ts, []) =>
              if !(match oh with | some h => headerModelled h | none => true) then "unmodelled"
              else (match marshalBlock ⟨oh, ts⟩ with
                | .ok b => toHex b
                | .err => "err"
                | .nilObj => "nil"
                | .panic _ => "panic")
            | _ => "bad-op")
       | _ => "bad-op")
    | ["rm", hs, cur, h, pv] =>
      (match pList pPair hs, pHash cur, pU64 h, (if pv == "n" then some none else (pInt pv).map some) with
       | some hashes, some current, some height, some pvv =>
         (match marshalTxReq ⟨hashes, current, height, pvv⟩ with
          | .ok b => toHex b
          | .err => "err"
          | .nilObj => "nil"
          | .panic _ => "panic")
       | _, _, _, _ => "bad-op")
    | ["em", c, b] =>
      (match pU32 c, pOptBytes b with
       | some code, some body => toHex (marshalEnvelope ⟨code, body⟩)
       | _, _ => "bad-op")
    | ["fl", m, t, n, b] =>
      (match ofHex? m, pU64 t, pU64 n, ofHex? b with
       | some method, some tgt, some nonce, some body => toHex (loadMsg method tgt nonce body)
       | _, _, _, _ => "bad-op")
    | ["mm", a, b] =>
      (match pOptBytes a, pOptBytes b with
       | some i, some k =>
         (match marshalMember ⟨i, k⟩ with
          | .ok bs => toHex bs
          | .err => "err"
          | .nilObj => "nil"
          | .panic _ => "panic")
       | _, _ => "bad-op")
    | "gm" :: ws =>
      (match pGroup ws with
       | some (g, []) => toHex (marshalGroup g) ++ " " ++ toHex (groupHeaderGenHash g.header)
       | _ => "bad-op")
    | ["jt", x] =>
      (match pTime x with
       | none => "bad-op"
       | some t => match timeRFC3339 t with
         | none => "err"
         | some b => toHex b)
    | [op, x] =>
      (match ofHex? x with
       | none => "bad-op"
       | some bs =>
         if op == "tu" || op == "tuc" then
           (match decTx bs with
            | none => "err"
            | some p =>
              if !subTxTrivial p then "unmodelled"
              else showOutcome (fun t => sTx t ++ " " ++ toHex (txGenHash t)) (pbToTx p))
         else if op == "su" || op == "suc" then
           (match decTxSlice bs with
            | none => "err"
            | some ps =>
              if !ps.all subTxTrivial then "unmodelled"
              else showOutcome sTxs (pbToTxs ps))
         else if op == "bu" || op == "buc" then
           (match decBlock bs with
            | none => "err"
            | some p =>
              if !p.transactions.all subTxTrivial then "unmodelled"
              else match unmarshalBlock bs with
                | .ok b =>
                  (match b.header with
                   | none => "ok nilhdr " ++ sTxs b.txs
                   | some h => if headerModelled h then "ok " ++ sHeader h ++ " " ++ sTxs b.txs else "unmodelled")
                | o => showOutcome (fun _ => "") o)
         else if op == "mu" then
           showOutcome (fun m => sOptBytes m.id ++ " " ++ sOptBytes m.pubKey) (unmarshalMember bs)
         else if op == "Gu" then
           showOutcome (fun gs => match gs with
             | [] => "0"
             | _ => toString gs.length ++ " " ++ " ".intercalate (gs.map sGroup)) (unmarshalGroups bs)
         else if op == "gu" then
           showOutcome (fun g => sGroup g ++ " " ++ toHex (groupHeaderGenHash g.header)) (unmarshalGroup bs)
         else if op == "ru" then
           showOutcome (fun m => sList (fun p => toHex p.1 ++ "." ++ toHex p.2) m.hashes ++ " " ++ toHex m.current ++ " " ++
             toString m.height ++ " " ++ (match m.pv with | none => "n" | some v => toString v)) (unmarshalTxReq bs)
         else if op == "eu" then
           showOutcome (fun m => toString m.code ++ " " ++ sOptBytes m.body) (unmarshalEnvelope bs)
         else if op == "fu" then
           (let (h, b) := unloadMsg bs
            sOptBytes h.method ++ " " ++ toString h.sourceId ++ " " ++ toString h.targetId ++ " " ++ toString h.nonce ++
              " " ++ sOptBytes b)
         else if op == "ret" then toHex bs
         else if op == "jr" then sReqIds (decReqIds bs)
         else if op == "jq" then toHex (jsonQuote bs)
         else if op == "ju" then
           (match bs with
            | 34 :: r => (match unquoteStr (r.length + 1) r with
              | some (s, []) => "ok " ++ toHex s
              | _ => "err")
            | _ => "err")
         else "bad-op")
    | _ => "bad-op"
  ((), ans)

def run : IO Unit := runLines () step
end Rangers.Drive.C09
