import Rangers.Basic.Hex
import Rangers.Basic.Line
import Rangers.Model.BlockExec
import Rangers.Model.ContractPre
/-!
Line-protocol driver for C01.  Stateful: a ledger (`St`), the watched addresses and the
watched escrow slots.  Every op that involves a map-range site is evaluated under three
iteration orders (identity, reverse, rotate) and the three observations must coincide,
otherwise the answer is `rho-diff …` (which can never equal the implementation's line).

ops
  reset
  acct <addr> <bal> <nonce>
  miner <idhex> <typ> <stake> <account> <hasAccount 0|1> <status> <applyHeight>
  esc <height> <id> <amount>
  watch <addr>*            watchesc (<height> <id>)*
  q
  diff <castorIdHex> <count> <workingMiners>
  block <height> <p004> <flags6> <fee> <feeacct> S <p010 0|1> <p019 0|1> <p025Block|x> <castorIdHex> <reward|x> <ntx> tx*
      tx = <hash> <req> <nonce> <typ> <srcStrHex> <src> <feeAddr> <srcNumHex> body
      body = e | j <datahex> | t <n> (<keyhex> <addr> <amt|x>)* | r <amount|x> <minerIdHex> | a <minerIdHex> <delta> | p <minerIdHex> <typ> <stake> <hasPk> <hasVrf> <account|-> | c <minerIdHex> <account|->
             | o <ok> <evicted> <msghex> <k> (<addr> <bal> <nonce>)*      (observed effect of an EVM transaction)
      reward = x | <nextHeight> <castor> <share> <np> pairs <nv> pairs | F <totalBits> <rewardBlocks> <castorIdHex> <x | n ids>
  ca <src> <n> (<keyhex> <addr> <amt|x>)*
  radd <n> (<height> <k> (<id> <val>)*)*
  cmove <height>
  reward x | reward <nextHeight> <castor> <share> <np> (<acct> <share>)* <nv> (<acct> <share>)*
  igas <datahex> <creation 0|1> <p026 0|1>      dcd <gasLimitFieldHex> <p017 0|1>
  sort <flags6> <n> (<hash> <req> <nonce> <srcStrHex> <srcNumHex>)*
-/
namespace Rangers.Drive.C01
open Rangers Rangers.Model.BlockExec

structure DS where
  st : St
  watch : List Addr
  wesc : List (Nat × Addr)

def DS.init : DS := ⟨St.empty, [], []⟩

def nat? (s : String) : Option Nat := if s.isEmpty then none else s.toNat?
def addr? (s : String) : Option Nat := do
  let b ← ofHex? s
  if b.length = 20 then some (beToNat b) else none
def hexNat? (s : String) : Option Nat := (ofHex? s).map beToNat

def hex32 (n : Nat) : String := toHex (padLeft 32 (natToBE n))
def hex20 (n : Nat) : String := toHex (padLeft 20 (natToBE n))

def dump (d : DS) (s : St) : String :=
  let a := d.watch.map (fun x => hex20 x ++ ":" ++ toString (s.bal x) ++ ":" ++ toString (s.nonce x))
  let e := d.wesc.map (fun (h, i) => toString h ++ ":" ++ hex20 i ++ ":" ++ toString (s.escrow h i))
  -- registry in a canonical order (id, type); entries created and removed again inside the block leave nothing behind
  let recs := (s.miners.filter (fun r => r.inParent || r.alive)).mergeSort (fun a b => a.id < b.id || (a.id == b.id && a.typ ≤ b.typ))
  let m := recs.map (fun r => toString r.id ++ ":" ++ toString r.typ ++ ":" ++ toString r.stake ++ ":"
    ++ (if r.hasAccount then hex20 r.account else "-") ++ ":" ++ toString r.status ++ ":" ++ (if r.alive then "1" else "0"))
  "st=" ++ ",".intercalate a ++ " esc=" ++ ",".intercalate e ++ " mi=" ++ ",".intercalate m

def amt? (s : String) : Option Amt := if s == "x" then some .bad else (nat? s).map .val

/-- parse `n` targets from the token stream -/
def targets? : Nat → List String → Option (List Target × List String)
  | 0, r => some ([], r)
  | n + 1, k :: a :: v :: r => do
    let kb ← ofHex? k
    let ad ← addr? a
    let am ← amt? v
    let (ts, r') ← targets? n r
    pure (⟨kb, ad, am⟩ :: ts, r')
  | _, _ => none

def triples? : Nat → List String → Option (List (Addr × Nat × Nat) × List String)
  | 0, r => some ([], r)
  | n + 1, a :: b :: c :: r => do
    let a ← addr? a
    let b ← nat? b
    let c ← nat? c
    let (l, r') ← triples? n r
    pure ((a, b, c) :: l, r')
  | _, _ => none

def ids? : Nat → List String → Option (List Nat × List String)
  | 0, r => some ([], r)
  | n + 1, i :: r => do
    let i ← hexNat? i
    let (l, r') ← ids? n r
    pure (i :: l, r')
  | _, _ => none

def body? : List String → Option (Body × List String)
  | "e" :: r => some (.empty, r)
  | "j" :: d :: r => do let b ← ofHex? d; pure (.badJson b, r)
  | "t" :: n :: r => do
    let k ← nat? n
    let (ts, r') ← targets? k r
    pure (.transfer ts, r')
  | "r" :: a :: i :: r => do
    let amt ← (if a == "x" then some none else (nat? a).map some)
    let id ← hexNat? i
    pure (.refund amt id, r)
  | "p" :: i :: t :: st :: pk :: vrf :: ac :: r => do
    let id ← hexNat? i
    let t ← nat? t
    let st ← nat? st
    let pk ← (if pk == "1" then some true else if pk == "0" then some false else none)
    let vrf ← (if vrf == "1" then some true else if vrf == "0" then some false else none)
    let ac ← (if ac == "-" then some none else (addr? ac).map some)
    pure (.apply id t st pk vrf ac, r)
  | "c" :: i :: ac :: r => do
    let id ← hexNat? i
    let ac ← (if ac == "-" then some none else (addr? ac).map some)
    pure (.changeAccount id ac, r)
  | "a" :: i :: dl :: r => do
    let id ← hexNat? i
    let dl ← nat? dl
    pure (.addStake id dl, r)
  | "o" :: ok :: ev :: m :: n :: r => do
    let ok ← (if ok == "1" then some true else if ok == "0" then some false else none)
    let ev ← (if ev == "1" then some true else if ev == "0" then some false else none)
    let m ← ofHex? m
    let k ← nat? n
    let (sets, r') ← triples? k r
    pure (.observed ok ev m sets, r')
  | _ => none

def txs? : Nat → List String → Option (List Tx × List String)
  | 0, r => some ([], r)
  | n + 1, h :: rq :: no :: ty :: ss :: sa :: fa :: sn :: r => do
    let h ← hexNat? h
    let rq ← nat? rq
    let no ← nat? no
    let ty ← nat? ty
    let ss ← ofHex? ss
    let sa ← addr? sa
    let fa ← addr? fa
    let sn ← hexNat? sn
    let (b, r1) ← body? r
    let (ts, r2) ← txs? n r1
    pure (⟨h, rq, no, ty, ss, sa, fa, sn, b⟩ :: ts, r2)
  | _, _ => none

def flags? (s : String) : Option Flags :=
  match s.toList with
  | [a, b, c, d, e, f] =>
    if [a, b, c, d, e, f].all (fun x => x == '0' || x == '1') then
      some ⟨a == '1', b == '1', c == '1', d == '1', e == '1', f == '1'⟩
    else none
  | _ => none

def pairs? : Nat → List String → Option (List (Addr × Nat) × List String)
  | 0, r => some ([], r)
  | n + 1, a :: v :: r => do
    let a ← addr? a
    let v ← nat? v
    let (l, r') ← pairs? n r
    pure ((a, v) :: l, r')
  | _, _ => none

def heights? : Nat → List String → Option (List (Nat × List (Addr × Nat)) × List String)
  | 0, r => some ([], r)
  | n + 1, h :: k :: r => do
    let h ← nat? h
    let k ← nat? k
    let (l, r1) ← pairs? k r
    let (hs, r2) ← heights? n r1
    pure ((h, l) :: hs, r2)
  | _, _ => none

def wesc? : List String → Option (List (Nat × Addr))
  | [] => some []
  | h :: i :: r => do
    let h ← nat? h
    let i ← addr? i
    let l ← wesc? r
    pure ((h, i) :: l)
  | _ => none

def sortItems? : Nat → List String → Option (List Tx × List String)
  | 0, r => some ([], r)
  | n + 1, h :: rq :: no :: ss :: sn :: r => do
    let h ← hexNat? h
    let rq ← nat? rq
    let no ← nat? no
    let ss ← ofHex? ss
    let sn ← hexNat? sn
    let (ts, r') ← sortItems? n r
    pure (⟨h, rq, no, 100, ss, 0, 0, sn, .empty⟩ :: ts, r')
  | _, _ => none

/-- `F <totalBits> <rewardBlocks> <castorIdHex> <x | n ids…>`: reward computed by the model from its registry -/
def rewardCfg? : List String → Option (RewardCfg × List String)
  | tb :: rb :: ca :: "x" :: r => do
    let tb ← nat? tb
    let rb ← nat? rb
    let ca ← hexNat? ca
    pure (⟨tb, rb, ca, none⟩, r)
  | tb :: rb :: ca :: n :: r => do
    let tb ← nat? tb
    let rb ← nat? rb
    let ca ← hexNat? ca
    let n ← nat? n
    let (l, r') ← ids? n r
    pure (⟨tb, rb, ca, some l⟩, r')
  | _ => none

def rewardIn? : List String → Option (Option RewardIn × List String)
  | "x" :: r => some (none, r)
  | nh :: ca :: cs :: np :: r => do
    let nh ← nat? nh
    let ca ← addr? ca
    let cs ← nat? cs
    let np ← nat? np
    let (ps, r1) ← pairs? np r
    match r1 with
    | nv :: r2 => do
      let nv ← nat? nv
      let (vs, r3) ← pairs? nv r2
      pure (some ⟨(ca, cs), ps, some vs, nh⟩, r3)
    | [] => none
  | _ => none

def rhos : List Orders := [Orders.id, Orders.rev, Orders.rot]

/-- evaluate under the three orders; all observations must agree -/
def underRhos (f : Orders → String × St) : Option (String × St) :=
  match rhos.map f with
  | [a, b, c] => if a.1 == b.1 && a.1 == c.1 then some a else none
  | _ => none

/-- the uninterpreted executors in a correspondence run: replay what the implementation was
    observed to do at this point of the block (only the composition is under test) -/
def noOther : Tx → Nat → St → OpaqueOut := fun tx _ s =>
  match tx.body with
  | .observed ok ev msg sets =>
    ⟨sets.foldl (fun s e => { s with bal := upd s.bal e.1 e.2.1, nonce := upd s.nonce e.1 e.2.2 }) s, ok, msg, 0, [], ev⟩
  | _ => ⟨s, false, [], 0, [], false⟩

def observedOk (txs : List Tx) : Bool :=
  txs.all (fun t => if isOpaqueTyp t.typ then
      (t.typ == 200 || t.typ == 188) && (match t.body with | .observed .. => true | _ => false)
    else true)

def showReceipts (rs : List Receipt) : String :=
  ",".intercalate (rs.map (fun r => hex32 r.hash ++ ":" ++ (if r.failed then "0" else "1") ++ ":" ++ toHex r.msg))

def step (d : DS) (line : String) : DS × String :=
  match splitWords line with
  | ["reset"] => (DS.init, "ok")
  | ["acct", a, b, n] =>
    match addr? a, nat? b, nat? n with
    | some a, some b, some n =>
      ({ d with st := { d.st with bal := upd d.st.bal a b, nonce := upd d.st.nonce a n } }, "ok")
    | _, _, _ => (d, "bad-op")
  | ["esc", h, i, v] =>
    match nat? h, addr? i, nat? v with
    | some h, some i, some v => ({ d with st := addEscrow (clearEscrow d.st h i) h i v }, "ok")
    | _, _, _ => (d, "bad-op")
  | ["miner", i, t, st, ac, ha, su, ah] =>
    match hexNat? i, nat? t, nat? st, addr? ac, nat? ha, nat? su, nat? ah with
    | some i, some t, some st, some ac, some ha, some su, some ah =>
      ({ d with st := { d.st with miners := d.st.miners ++ [⟨i, t, st, ac, ha == 1, su, su, ah, true, true⟩] } }, "ok")
    | _, _, _, _, _, _, _ => (d, "bad-op")
  | "watch" :: as =>
    match as.mapM addr? with
    | some l => ({ d with watch := l }, "ok")
    | none => (d, "bad-op")
  | "watchesc" :: r =>
    match wesc? r with
    | some l => ({ d with wesc := l }, "ok")
    | none => (d, "bad-op")
  | ["q"] => (d, dump d d.st)
  | "block" :: h :: p4 :: fl :: fee :: fa :: "S" :: b10 :: b19 :: b25 :: ca :: r0 =>
    let rwf? : Option ((Nat → St → Option RewardIn) × List String) :=
      match r0 with
      | "F" :: r1 => (rewardCfg? r1).map (fun (c, r) => (fun hh s => some (rewardInOf c hh s), r))
      | _ => (rewardIn? r0).map (fun (rw, r) => (fun _ _ => rw, r))
    let far : Nat := 0xFFFFFFFFFFFFFFFF
    let hdr? : Option Header := do
      let h ← nat? h
      let p4 ← nat? p4
      let b10 ← nat? b10
      let b19 ← nat? b19
      let p25 ← (if b25 == "x" then some far else nat? b25)
      let ca ← hexNat? ca
      pure { height := h, p004Block := p4, p010Block := if b10 == 1 then h else far,
             p019Block := if b19 == 1 then h else far, p025Block := p25, castor := ca }
    match nat? h, nat? p4, flags? fl, nat? fee, addr? fa, rwf?, hdr? with
    | some h, some _, some fl, some fee, some fa, some (rwf, n :: r), some hdr =>
      match (nat? n).bind (fun n => txs? n r) with
      | some (txs, []) =>
        if !observedOk txs then (d, "unmodelled")
        else if hdr.p025Block + 36000 ≤ h then (d, "unmodelled")   -- second part of calcDifficulty
        else if hasEqualHashPair fl txs then (d, "unmodelled")
        else if (sortTxsAny fl txs).isNone then (d, "unmodelled")
        else
          let env : Env := ⟨fa, fee, noOther⟩
          let ids := fun (hh : Nat) => (d.wesc.filter (fun e => e.1 == hh)).map (·.2)
          let run := fun (ρ : Orders) =>
            let res := execBlock ρ env fl hdr (rwf h) (ids h ++ ids 0).eraseDups d.st txs
            ("ev=" ++ ",".intercalate (res.evicted.map hex32) ++ " rc=" ++ showReceipts res.receipts
              ++ " " ++ dump d res.st ++ " df=" ++ toString (res.st.diff hdr.castor) ++ ":" ++ toString res.st.working
              ++ " rr=" ++ (if res.receipts.all (fun r => r.extra == 0) && !txs.any (fun t => isOpaqueTyp t.typ)
                            then toHex (receiptsRoot h res.receipts) else "-"), res.st)
          match underRhos run with
          | some (o, s) => ({ d with st := s }, o)
          | none => (d, "rho-diff")
      | _ => (d, "bad-op")
    | _, _, _, _, _, _, _ => (d, "bad-op")
  | ["diff", ca, v, w] =>
    match hexNat? ca, nat? v, nat? w with
    | some ca, some v, some w => ({ d with st := { d.st with diff := upd d.st.diff ca v, working := w } }, "ok")
    | _, _, _ => (d, "bad-op")
  | "ca" :: src :: n :: r =>
    match addr? src, nat? n with
    | some src, some n =>
      match targets? n r with
      | some (ts, []) =>
        let res := changeAssets ts d.st src
        let (ok, msg) := caMsg res
        let s' := match res with | none => d.st | some (s', _) => s'
        ({ d with st := s' }, (if ok then "1 " else "0 ") ++ toHex msg ++ " " ++ dump d s')
      | _ => (d, "bad-op")
    | _, _ => (d, "bad-op")
  | "radd" :: n :: r =>
    match nat? n with
    | some n =>
      match heights? n r with
      | some (hs, []) =>
        match underRhos (fun ρ => let s := refundAddIn (ρ.refund hs) d.st; (dump d s, s)) with
        | some (o, s) => ({ d with st := s }, o)
        | none => (d, "rho-diff")
      | _ => (d, "bad-op")
    | none => (d, "bad-op")
  | ["cmove", h] =>
    match nat? h with
    | some h =>
      let ids := (d.wesc.filter (fun e => e.1 == h)).map (·.2)
      match underRhos (fun ρ => let s := checkAndMoveIn h (ρ.checkMove (refundList d.st h ids)) d.st; (dump d s, s)) with
      | some (o, s) => ({ d with st := s }, o)
      | none => (d, "rho-diff")
    | none => (d, "bad-op")
  | "reward" :: r =>
    match rewardIn? r with
    | some (none, []) => (d, dump d d.st)
    | some (some rin, []) =>
      match rin.validators with
      | none => (d, dump d d.st)
      | some vs =>
        match underRhos (fun ρ =>
            let m := rewardMap rin (ρ.proposers rin.proposers) (ρ.validators vs)
            let s := rewardAddIn rin.nextHeight m (ρ.total m.keys) d.st
            (dump d s, s)) with
        | some (o, s) => ({ d with st := s }, o)
        | none => (d, "rho-diff")
    | _ => (d, "bad-op")
  | ["igas", dh, cr, p26] =>
    match ofHex? dh, nat? cr, nat? p26 with
    | some data, some cr, some p26 =>
      (d, match Rangers.Model.ContractPre.intrinsicGas data (cr == 1) (p26 == 1) with
          | some g => toString g
          | none => "overflow")
    | _, _, _ => (d, "bad-op")
  | ["dcd", fh, p17] =>
    match ofHex? fh, nat? p17 with
    | some f, some p17 =>
      (d, match Rangers.Model.ContractPre.rawGasLimit f (p17 == 1) with
          | some g => toString g
          | none => "err")
    | _, _ => (d, "bad-op")
  | "sort" :: fl :: n :: r =>
    match flags? fl, nat? n with
    | some fl, some n =>
      match sortItems? n r with
      | some (txs, []) =>
        if hasEqualHashPair fl txs then (d, "unmodelled")
        else match sortTxsAny fl txs with
          | none => (d, "unmodelled")
          | some out => (d, ",".intercalate (out.map (fun t => hex32 t.hash)))
      | _ => (d, "bad-op")
    | _, _ => (d, "bad-op")
  | _ => (d, "bad-op")

def run : IO Unit := runLines DS.init step
end Rangers.Drive.C01
