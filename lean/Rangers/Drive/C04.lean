import Rangers.Basic.Hex
import Rangers.Basic.Line
import Rangers.Model.Journal
/-!
Line-protocol driver for C04: executes `Rangers.Model.Journal` on the op lines the Go harness
produced from the real `account.AccountDB`.  Mutators go through `Journal.step` (the function
the theorems are about); readers call the same reader functions `step` uses and print the answer.
-/
namespace Rangers.Drive.C04
open Rangers Rangers.Model.Journal

structure St where
  tok : Addr := []
  ripemd : Addr := []
  p002 : Bool := true
  keys : List (Addr × Key) := []
  db : ADB := ADB.empty
  started : Bool := false

def St.cfg (st : St) : Cfg :=
  { tok := st.tok, ripemd := st.ripemd, p002 := st.p002, balKey := fun a => (mget st.keys a).getD [] }

/-! ### printing -/

def bytesLt : Bytes → Bytes → Bool
  | [], [] => false
  | [], _ :: _ => true
  | _ :: _, [] => false
  | a :: as, b :: bs => if a < b then true else if b < a then false else bytesLt as bs

def insertSorted {α : Type} (p : Bytes × α) : List (Bytes × α) → List (Bytes × α)
  | [] => [p]
  | q :: t => if bytesLt p.1 q.1 then p :: q :: t else q :: insertSorted p t

def sortKV {α : Type} (m : List (Bytes × α)) : List (Bytes × α) := m.foldl (fun acc p => insertSorted p acc) []

def b2s (b : Bool) : String := if b then "true" else "false"
def bit (b : Bool) : String := if b then "1" else "0"

def kvStr (m : List (Key × Val)) : String :=
  String.intercalate "," ((sortKV m).map (fun p => toHex p.1 ++ "=" ++ toHex p.2))

def contentStr (t : List (Addr × Leaf)) : String :=
  if t.isEmpty then "empty" else
  String.intercalate ";" ((sortKV t).map (fun p =>
    toHex p.1 ++ ":" ++ toString p.2.nonce ++ ":" ++ toHex p.2.codeHash ++ ":" ++ kvStr p.2.storage))

def logStr (l : LogRec) : String :=
  String.intercalate "|" [toHex l.addr, toHex l.topics, toHex l.data, toHex l.thash, toHex l.bhash,
    toString l.txIndex, toString l.index]

def logsStr (ls : List LogRec) : String :=
  if ls.isEmpty then "-" else String.intercalate "," (ls.map logStr)

def objStr (p : Addr × Obj) : String :=
  let o := p.2
  toHex p.1 ++ ":" ++ bit o.suicided ++ bit o.touched ++ bit o.deleted ++ bit o.armed ++ bit o.dirtyCode ++ bit o.code.isSome
    ++ ":n" ++ toString o.nonce ++ ":C[" ++ kvStr o.cached ++ "]:Y[" ++ kvStr o.dirty ++ "]"

def internalsStr (s : ADB) : String :=
  "J" ++ toString s.journal.length
    ++ " R" ++ String.intercalate "," (s.revisions.map (fun r => toString r.1 ++ "@" ++ toString r.2))
    ++ " N" ++ toString s.nextRev
    ++ " L" ++ toString s.logSize
    ++ " D[" ++ String.intercalate "," ((sortKV (s.dirtySet.map (fun a => (a, ())))).map (fun p => toHex p.1)) ++ "]"
    ++ " O{" ++ String.intercalate ";" ((sortKV s.objs).map objStr) ++ "}"

/-! ### parsing -/

def nat? (w : String) : Option Nat := w.toNat?
def bool? (w : String) : Option Bool := if w == "1" then some true else if w == "0" then some false else none

def addr? (w : String) : Option Addr := do
  let b ← ofHex? w
  if b.length = 20 then some b else none
def hash? (w : String) : Option Hash := do
  let b ← ofHex? w
  if b.length = 32 then some b else none
def u64? (w : String) : Option Nat := do
  let n ← nat? w
  if n < U64 then some n else none
/-- key of a fungible token without binding: `f:<name>`, name ≠ BLANCE_NAME -/
def ftkey? (w : String) : Option Key := do
  let b ← ofHex? w
  if b.take 2 = [0x66, 0x3a] ∧ b ≠ "f:SYSTEM-RPG".toUTF8.toList then some b else none
def code? (w : String) : Option Bytes := do
  let b ← ofHex? w
  if b.isEmpty then none else some b
def topics? (w : String) : Option Bytes := do
  let b ← ofHex? w
  if b.length % 32 = 0 then some b else none

/-- `k1 v1 k2 v2 …`, all 32-byte words -/
def pairs? : List String → Option (List (Key × Val))
  | [] => some []
  | [_] => none
  | k :: v :: rest => do
    let k ← hash? k
    let v ← hash? v
    let r ← pairs? rest
    pure ((k, v) :: r)

def parseOp (ws : List String) : Option Op :=
  match ws with
  | ["setnonce", a, n] => do some (.setNonce (← addr? a) (← u64? n))
  | ["incnonce", a] => do some (.incNonce (← addr? a))
  | ["setdata", a, k, v] => do some (.setData (← addr? a) (← ofHex? k) (← ofHex? v))
  | ["setstate", a, k, v] => do some (.setData (← addr? a) (← hash? k) (← hash? v))
  | ["create", a] => do some (.create (← addr? a))
  | ["setcode", a, c, h] => do some (.setCode (← addr? a) (← code? c) (← ofHex? h))
  | ["suicide", a] => do some (.suicide (← addr? a))
  | ["addbal", a, n] => do some (.addBal (← addr? a) (← nat? n))
  | ["subbal", a, n] => do some (.subBal (← addr? a) (← nat? n))
  | ["setbal", a, n] => do some (.setBal (← addr? a) (← nat? n))
  | ["transfer", a, b, n] => do some (.transfer (← addr? a) (← addr? b) (← nat? n))
  | ["addft", a, k, n] => do some (.addFT (← addr? a) (← ftkey? k) (← nat? n))
  | ["subft", a, k, n] => do some (.subFT (← addr? a) (← ftkey? k) (← nat? n))
  | ["setft", a, k, n] => do some (.setFT (← addr? a) (← ftkey? k) (← nat? n))
  | ["addrefund", g] => do some (.addRefund (← u64? g))
  | ["subrefund", g] => do some (.subRefund (← u64? g))
  | ["addlog", a, t, d] => do some (.addLog (← addr? a) (← topics? t) (← ofHex? d))
  | ["aladdr", a] => do some (.alAddr (← addr? a))
  | ["alslot", a, sl] => do some (.alSlot (← addr? a) (← hash? sl))
  | ["tset", a, k, v] => do some (.tset (← addr? a) (← hash? k) (← hash? v))
  | ["snapshot"] => some .snapshot
  | ["revert", id] => do some (.revert (← u64? id))
  | ["exist", a] => do some (.qExist (← addr? a))
  | ["empty", a] => do some (.qEmpty (← addr? a))
  | ["bal", a] => do some (.qBal (← addr? a))
  | ["nonce", a] => do some (.qNonce (← addr? a))
  | ["getdata", a, k] => do some (.qData (← addr? a) (← ofHex? k))
  | ["getstate", a, k] => do some (.qData (← addr? a) (← hash? k))
  | ["committed", a, k] => do some (.qCommitted (← addr? a) (← hash? k))
  | ["suicided", a] => do some (.qSuicided (← addr? a))
  | ["code", a] => do some (.qCode (← addr? a))
  | ["codesize", a] => do some (.qCodeSize (← addr? a))
  | ["codehash", a] => do some (.qCodeHash (← addr? a))
  | ["getft", a, k] => do some (.qFT (← addr? a) (← ftkey? k))
  | ["allrefund", a] => do some (.qAllRefund (← addr? a))
  | ["addbinding", name, b, ct, p, d] => do
    let nm ← ofHex? name
    if nm.take 4 ≠ "bind".toUTF8.toList then none else
    some (.addBinding (← addr? b) (← addr? ct) (← u64? p) (← u64? d))
  | "setstorage" :: a :: rest => do
    let kvs ← pairs? rest
    if (kvs.map (·.1)).Nodup then some (.setStorage (← addr? a) kvs) else none
  | _ => none

/-- addresses whose balance slot key an op needs -/
def balAddrs : Op → List Addr
  | .suicide a => [a]
  | .addBal a _ => [a]
  | .subBal a _ => [a]
  | .setBal a _ => [a]
  | .transfer a b _ => [a, b]
  | .qBal a => [a]
  | _ => []

/-- the answer the implementation gives to the op (computed with the functions `step` uses) -/
def answer (c : Cfg) (s : ADB) (ws : List String) : Op → String
  | .incNonce a => toString (increaseNonce s a).2
  | .suicide a => b2s (suicide c s a).2
  | .subBal a n => let r := subBalance c s a n; toString r.2.1 ++ " " ++ b2s r.2.2
  | .subFT a k n => let r := subFT s a k n; (if r.2.2 then toString r.2.1 else "nil") ++ " " ++ b2s r.2.2
  | .addFT _ _ _ => "true"
  | .snapshot => toString (snapshot s).2
  | .qExist a => b2s (exist s a).2
  | .qEmpty a => b2s (isEmptyQ s a).2
  | .qBal a => toString (getBalance c s a).2
  | .qNonce a => toString (getNonce s a).2
  | .qData a k =>
    let v := (getData s a k).2
    if ws.head? == some "getstate" then toHex (getState s a k).2 else toHex v
  | .qCommitted a k => toHex (toHash (getCommitted s a k).2)
  | .qSuicided a => b2s (hasSuicided s a).2
  | .qCode a => toHex (getCode s a).2
  | .qCodeSize a => toString (getCodeSize s a).2
  | .qCodeHash a => toHex (getCodeHash s a).2
  | .qFT a k => toString (getFT s a k).2
  | .qAllRefund a =>
    let r := (getAllRefund s a).2
    if r.isEmpty then "-" else String.intercalate "," ((sortKV r).map (fun p => toHex p.1 ++ "=" ++ toString p.2))
  | .addBinding b ct p d => b2s (addERC20Binding s b ct p d).2
  | _ => "ok"

def finish (st : St) (s' : ADB) (ans : String) : St × String :=
  if s'.crashed then ({ st with db := s' }, "PANIC") else ({ st with db := s' }, ans)

def stepLine (st : St) (line : String) : St × String :=
  let ws := splitWords line
  match ws with
  | ["new", tok, rip, p] =>
    match addr? tok, addr? rip, bool? p with
    | some t, some r, some b => ({ tok := t, ripemd := r, p002 := b, keys := [], db := ADB.empty, started := true }, "ok")
    | _, _, _ => (st, "bad-op")
  | ["balkey", a, k] =>
    match addr? a, ofHex? k with
    | some a, some k => ({ st with keys := mset st.keys a k }, "ok")
    | _, _ => (st, "bad-op")
  | ["const", "emptycodehash"] => (st, toHex emptyCodeHash)
  | _ =>
  if !st.started then (st, "bad-op") else
  let s := st.db
  let c := st.cfg
  if s.crashed then (st, "crashed") else
  match ws with
  | ["reopen"] => ({ st with db := reopen s }, "ok")
  | ["reset"] => finish st (reset s) "ok"
  | ["clean"] =>
    -- `Clean()` while `adb.trie` holds un-committed leaves loses their storage tries (node
    -- database behaviour outside this model): only modelled right after a `Commit`.
    if s.trie = s.committed then finish st (clean s) "ok" else (st, "unmodelled")
  | ["prepare", th, bh, ti] =>
    match hash? th, hash? bh, u64? ti with
    | some th, some bh, some ti => finish st (prepare s th bh ti) "ok"
    | _, _, _ => (st, "bad-op")
  | ["finalise", d] =>
    match bool? d with
    | some d => finish st (finalise d s) "ok"
    | none => (st, "bad-op")
  | ["root", d] =>
    match bool? d with
    | some d => let s' := finalise d s; finish st s' (contentStr s'.trie)
    | none => (st, "bad-op")
  | ["commit", d] =>
    match bool? d with
    | some d => let s' := commit d s; finish st s' (contentStr s'.trie)
    | none => (st, "bad-op")
  | ["internals"] => (st, internalsStr s)
  | ["refund"] => (st, toString s.refund)
  | ["logs", th] =>
    match hash? th with
    | some th => (st, logsStr (getLogs s th))
    | none => (st, "bad-op")
  | ["inal", a] =>
    match addr? a with
    | some a => (st, b2s (s.al.containsAddr a))
    | none => (st, "bad-op")
  | ["inalslot", a, sl] =>
    match addr? a, hash? sl with
    | some a, some sl =>
      match s.al.contains a sl with
      | some (x, y) => (st, b2s x ++ " " ++ b2s y)
      | none => finish st (crash s) "PANIC"
    | _, _ => (st, "bad-op")
  | ["tget", a, k] =>
    match addr? a, hash? k with
    | some a, some k => (st, toHex (tget s.transient a k))
    | _, _ => (st, "bad-op")
  | ["cantransfer", a, n] =>
    match addr? a, nat? n with
    | some a, some n =>
      if (mget st.keys a).isNone then (st, "bad-op") else
      let r := canTransfer c s a n
      finish st r.1 (b2s r.2)
    | _, _ => (st, "bad-op")
  | ["iscontract", a] =>
    match addr? a with
    | some a => let r := isContract s a; finish st r.1 (b2s r.2)
    | none => (st, "bad-op")
  | _ =>
    match parseOp ws with
    | none => (st, "bad-op")
    | some op =>
      if (balAddrs op).any (fun a => (mget st.keys a).isNone) then (st, "bad-op") else
      finish st (step c s op) (answer c s ws op)

def run : IO Unit := runLines ({} : St) stepLine
end Rangers.Drive.C04
