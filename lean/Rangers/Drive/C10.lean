import Rangers.Basic.Hex
import Rangers.Basic.Line
import Rangers.Model.Evm10Interp
import Rangers.Model.Evm10Call
import Rangers.Model.Evm10Cache
import Rangers.Model.Evm10Keccak
import Rangers.Generated.Evm10JumpTable
/-
C10 driver.  Ops:
  run <cfg 0..7> <gas> <code hex> <input hex>   → ok <gasLeft> <ret> | revert <gasLeft> <ret> | err <kind> | unmodelled
  bitmap <code hex>                              → hex of codeBitmap(code)
  valid <code hex> <dest word hex>               → true|false   (validJumpdest)
  idcall <mem hex> <inOff> <inSize> <retOff> <retSize> → ok <memory after> <return data>   (STATICCALL to precompile 0x04)
  memsize <cfg> <opcode> <stack words, top first> → <size> <overflow> | undefined   (operation.memorySize)
-/
namespace Rangers.Drive.C10
open Rangers Rangers.Model.Evm10

def parseNat? (s : String) : Option Nat := s.toNat?

def showOutcome : Outcome → String
  | .ok ret gas => s!"ok {gas} {toHex ret}"
  | .revert ret gas => s!"revert {gas} {toHex ret}"
  | .fail e => s!"err {e.name}"
  | .unmodelled _ => "unmodelled"
  | .outOfFuel => "out-of-fuel"

/-- one `jd` session: tokens `c<id>:<code>:<hash label, - = zero hash>` create a frame sharing the
map, `v<id>:<dest>` asks validJumpdest; answer per query `t|f` followed by the size of the shared map -/
def jdSession (toks : List String) : Option String :=
  let rec go (toks : List String) (cs : List (Nat × JContract)) (jd : JMap) (acc : List String) :
      Option String :=
    match toks with
    | [] => some (if acc.isEmpty then "-" else " ".intercalate acc.reverse)
    | t :: rest =>
      match t.splitOn ":" with
      | [a, b, c] =>
        if a.startsWith "c" then
          match (a.drop 1).toNat?, ofHex? b, ofHex? c with
          | some id, some code, some h =>
            let jc : JContract := { code := code, codeHash := if h.isEmpty then none else some h, analysis := none }
            go rest ((id, jc) :: cs.filter (fun x => x.1 != id)) jd acc
          | _, _, _ => none
        else none
      | [a, b] =>
        if a.startsWith "v" then
          match (a.drop 1).toNat?, ofHex? b with
          | some id, some d =>
            match cs.find? (fun x => x.1 == id) with
            | some (_, jc) =>
              if d.length > 32 then none
              else
                let r := validJumpdestJ jc jd (U256.setBytes d)
                go rest ((id, r.2.1) :: cs.filter (fun x => x.1 != id)) r.2.2
                  ((if r.1 then s!"t{r.2.2.length}" else s!"f{r.2.2.length}") :: acc)
            | none => none
          | _, _ => none
        else none
      | _ => none
  go toks [] [] []

def step (_ : Unit) (line : String) : Unit × String :=
  match splitWords line with
  | ["run", cfg, gas, code, input] =>
    match parseNat? cfg, parseNat? gas, ofHex? code, ofHex? input with
    | some cfg, some gas, some code, some input =>
      if cfg ≥ 8 ∨ gas ≥ 2 ^ 64 then ((), "bad-op")
      else
        let t := Rangers.Generated.Evm10.table cfg
        let p := Rangers.Generated.Evm10.gasParams (cfg / 4 % 2 == 1)
        ((), showOutcome (call Keccak.keccak256 t p (gas + 2) code input gas))
    | _, _, _, _ => ((), "bad-op")
  | "memsize" :: cfg :: op :: ws =>
    match parseNat? cfg, parseNat? op, ws.mapM ofHex? with
    | some cfg, some op, some ws =>
      if cfg ≥ 8 ∨ op ≥ 256 ∨ ws.any (fun w => w.length > 32) then ((), "bad-op")
      else
        match (Rangers.Generated.Evm10.table cfg).get op with
        | none => ((), "undefined")
        | some info =>
          match memorySizeOf info.memSize (ws.map U256.setBytes) with
          | .noFn => ((), "undefined")
          | .size sz ov => ((), s!"{sz} {ov}")
          | .panic => ((), "PANIC")
          | .unmodelled _ => ((), "unmodelled")
    | _, _, _ => ((), "bad-op")
  | ["idcall", mem, io, isz, ro, rs] =>
    match ofHex? mem, parseNat? io, parseNat? isz, parseNat? ro, parseNat? rs with
    | some mem, some io, some isz, some ro, some rs =>
      if io ≥ 2 ^ 32 ∨ isz ≥ 2 ^ 32 ∨ ro ≥ 2 ^ 32 ∨ rs ≥ 2 ^ 32 then ((), "bad-op")
      else
        -- CALLDATACOPY(0, 0, len) first: memory = the bytes, zero-extended to whole words
        let m0 := if mem.length = 0 then [] else Mem.resize mem (toWordSize mem.length * 32)
        match staticCallMemory m0 (U256.ofNat io) (U256.ofNat isz) (U256.ofNat ro) (U256.ofNat rs) with
        | none => ((), "unmodelled")
        | some m =>
          match identityCall m io isz ro rs with
          | some (m', rd) => ((), s!"ok {toHex m'} {toHex rd}")
          | none => ((), "PANIC")
    | _, _, _, _, _ => ((), "bad-op")
  | "jd" :: toks =>
    match jdSession toks with
    | some r => ((), r)
    | none => ((), "bad-op")
  | ["bitmap", code] =>
    match ofHex? code with
    | some code => ((), toHex (Bitvec.codeBitmap code))
    | none => ((), "bad-op")
  | ["valid", code, dest] =>
    match ofHex? code, ofHex? dest with
    | some code, some dest =>
      if dest.length > 32 then ((), "bad-op")
      else ((), toString (validJumpdest (Frame.init code [] 0) (U256.setBytes dest)))
    | _, _ => ((), "bad-op")
  | _ => ((), "bad-op")

def run : IO Unit := runLines () step
end Rangers.Drive.C10
