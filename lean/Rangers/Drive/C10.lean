import Rangers.Basic.Hex
import Rangers.Basic.Line
import Rangers.Model.Evm10Interp
import Rangers.Model.Evm10Call
import Rangers.Model.Evm10Keccak
import Rangers.Generated.Evm10JumpTable
/-
C10 driver.  Ops:
  run <cfg 0..7> <gas> <code hex> <input hex>   → ok <gasLeft> <ret> | revert <gasLeft> <ret> | err <kind> | unmodelled
  bitmap <code hex>                              → hex of codeBitmap(code)
  valid <code hex> <dest word hex>               → true|false   (validJumpdest)
  idcall <mem hex> <inOff> <inSize> <retOff> <retSize> → ok <memory after> <return data>   (STATICCALL to precompile 0x04)
  memsize <cfg> <opcode> <stack words, top first> → <size> <overflow> | undefined   (operation.memorySize)
-/
namespace Rangers.Drive.C10
open Rangers Rangers.Model.Evm10

def parseNat? (s : String) : Option Nat := s.toNat?

def showOutcome : Outcome → String
  | .ok ret gas => s!"ok {gas} {toHex ret}"
  | .revert ret gas => s!"revert {gas} {toHex ret}"
  | .fail e => s!"err {e.name}"
  | .unmodelled _ => "unmodelled"
  | .outOfFuel => "out-of-fuel"

def step (_ : Unit) (line : String) : Unit × String :=
  match splitWords line with
  | ["run", cfg, gas, code, input] =>
    match parseNat? cfg, parseNat? gas, ofHex? code, ofHex? input with
    | some cfg, some gas, some code, some input =>
      if cfg ≥ 8 ∨ gas ≥ 2 ^ 64 then ((), "bad-op")
      else
        let t := Rangers.Generated.Evm10.table cfg
        let p := Rangers.Generated.Evm10.gasParams (cfg / 4 % 2 == 1)
        ((), showOutcome (call Keccak.keccak256 t p (gas + 2) code input gas))
    | _, _, _, _ => ((), "bad-op")
  | "memsize" :: cfg :: op :: ws =>
    match parseNat? cfg, parseNat? op, ws.mapM ofHex? with
    | some cfg, some op, some ws =>
      if cfg ≥ 8 ∨ op ≥ 256 ∨ ws.any (fun w => w.length > 32) then ((), "bad-op")
      else
        match (Rangers.Generated.Evm10.table cfg).get op with
        | none => ((), "undefined")
        | some info =>
          match memorySizeOf info.memSize (ws.map U256.setBytes) with
          | .noFn => ((), "undefined")
          | .size sz ov => ((), s!"{sz} {ov}")
          | .panic => ((), "PANIC")
          | .unmodelled _ => ((), "unmodelled")
    | _, _, _ => ((), "bad-op")
  | ["idcall", mem, io, isz, ro, rs] =>
    match ofHex? mem, parseNat? io, parseNat? isz, parseNat? ro, parseNat? rs with
    | some mem, some io, some isz, some ro, some rs =>
      if io ≥ 2 ^ 32 ∨ isz ≥ 2 ^ 32 ∨ ro ≥ 2 ^ 32 ∨ rs ≥ 2 ^ 32 then ((), "bad-op")
      else
        -- CALLDATACOPY(0, 0, len) first: memory = the bytes, zero-extended to whole words
        let m0 := if mem.length = 0 then [] else Mem.resize mem (toWordSize mem.length * 32)
        match staticCallMemory m0 (U256.ofNat io) (U256.ofNat isz) (U256.ofNat ro) (U256.ofNat rs) with
        | none => ((), "unmodelled")
        | some m =>
          match identityCall m io isz ro rs with
          | some (m', rd) => ((), s!"ok {toHex m'} {toHex rd}")
          | none => ((), "PANIC")
    | _, _, _, _, _ => ((), "bad-op")
  | ["bitmap", code] =>
    match ofHex? code with
    | some code => ((), toHex (Bitvec.codeBitmap code))
    | none => ((), "bad-op")
  | ["valid", code, dest] =>
    match ofHex? code, ofHex? dest with
    | some code, some dest =>
      if dest.length > 32 then ((), "bad-op")
      else ((), toString (validJumpdest (Frame.init code [] 0) (U256.setBytes dest)))
    | _, _ => ((), "bad-op")
  | _ => ((), "bad-op")

def run : IO Unit := runLines () step
end Rangers.Drive.C10
