import Rangers.Basic.Hex
import Rangers.Basic.Line
import Rangers.Model.Evm10Interp
import Rangers.Model.Evm10Keccak
import Rangers.Generated.Evm10JumpTable
/-
C10 driver.  Ops:
  run <cfg 0..7> <gas> <code hex> <input hex>   → ok <gasLeft> <ret> | revert <gasLeft> <ret> | err <kind> | unmodelled
  bitmap <code hex>                              → hex of codeBitmap(code)
  valid <code hex> <dest word hex>               → true|false   (validJumpdest)
-/
namespace Rangers.Drive.C10
open Rangers Rangers.Model.Evm10

def parseNat? (s : String) : Option Nat := s.toNat?

def showOutcome : Outcome → String
  | .ok ret gas => s!"ok {gas} {toHex ret}"
  | .revert ret gas => s!"revert {gas} {toHex ret}"
  | .fail e => s!"err {e.name}"
  | .unmodelled _ => "unmodelled"
  | .outOfFuel => "out-of-fuel"

def step (_ : Unit) (line : String) : Unit × String :=
  match splitWords line with
  | ["run", cfg, gas, code, input] =>
    match parseNat? cfg, parseNat? gas, ofHex? code, ofHex? input with
    | some cfg, some gas, some code, some input =>
      if cfg ≥ 8 ∨ gas ≥ 2 ^ 64 then ((), "bad-op")
      else
        let t := Rangers.Generated.Evm10.table cfg
        let p := Rangers.Generated.Evm10.gasParams (cfg / 4 % 2 == 1)
        ((), showOutcome (call Keccak.keccak256 t p (gas + 2) code input gas))
    | _, _, _, _ => ((), "bad-op")
  | ["bitmap", code] =>
    match ofHex? code with
    | some code => ((), toHex (Bitvec.codeBitmap code))
    | none => ((), "bad-op")
  | ["valid", code, dest] =>
    match ofHex? code, ofHex? dest with
    | some code, some dest =>
      if dest.length > 32 then ((), "bad-op")
      else ((), toString (validJumpdest (Frame.init code [] 0) (U256.setBytes dest)))
    | _, _ => ((), "bad-op")
  | _ => ((), "bad-op")

def run : IO Unit := runLines () step
end Rangers.Drive.C10
