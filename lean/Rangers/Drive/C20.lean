import Rangers.Basic.Hex
import Rangers.Basic.Line
import Rangers.Model.Miner
import Rangers.Model.MinerReal
import Rangers.Model.MinerRefundHeight
/-! Line-protocol driver for C20: runs `Rangers.Miner` with `realCfg` on the op lines the Go harness
    produced and prints the same observation lines. Unparseable lines answer `bad-op`. -/
namespace Rangers.Drive.C20
open Rangers Rangers.Miner

structure D where
  st : State
  live : Bool
  ids : List Bytes
  accts : List Bytes
  addrs : List Bytes
  heights : List Nat
  mainnet : Bool := false
  committed : State := State.empty 0   -- account state as of the last block end (what `rewind` falls back to)

def D.init : D := { st := State.empty 0, live := false, ids := [], accts := [], addrs := [], heights := [] }

def csv? (s : String) : Option (List Bytes) :=
  if s == "." then some [] else (s.splitOn ",").mapM ofHex?

def minerStr (m : Miner) : String :=
  toHex m.id ++ "/" ++ toString m.typ ++ "/" ++ toString m.stake ++ "/" ++ toString m.status ++ "/"
    ++ toString m.applyHeight ++ "/" ++ toHex m.account

def iterStr (st : State) (d : DbId) : String :=
  ",".intercalate ((iter realCfg st d).map (fun m => minerStr m ++ "/" ++ (if m.status = statusAbort then "a" else "n")))

def sortStrs (l : List String) : List String := l.mergeSort (fun a b => decide (a ≤ b))

def hexNo (b : Bytes) : String := String.join (b.map hexOfByte)

def totalsStr (st : State) (h : Nat) : String :=
  let t := proposerTotals realCfg st h
  let ds := sortStrs (t.2.map (fun e => hexNo e.1 ++ ":" ++ toString e.2))
  let pl := sortStrs ((idAndAccount realCfg st .prop h).map (fun e => hexNo e.1 ++ ":" ++ toHex e.2))
  let vl := sortStrs ((idAndAccount realCfg st .val h).map (fun e => hexNo e.1 ++ ":" ++ toHex e.2))
  toString t.1 ++ "/" ++ toString t.2.length ++ "/" ++ ",".intercalate ds ++ "/" ++ ",".intercalate pl ++ "/" ++ ",".intercalate vl

def dedupNat : List Nat → List Nat → List Nat
  | [], _ => []
  | a :: l, seen => if seen.contains a then dedupNat l seen else a :: dedupNat l (a :: seen)

def insertByHeight (e : Nat × List (Bytes × Nat)) : List (Nat × List (Bytes × Nat)) → List (Nat × List (Bytes × Nat))
  | [] => [e]
  | a :: l => if e.1 ≤ a.1 then e :: a :: l else a :: insertByHeight e l

def dump (d : D) : String :=
  let st := d.st
  let g := d.ids.map (fun id => match getMiner realCfg st id with | none => "nil" | some m => minerStr m)
  let a := d.accts.map (fun ac => match byAccount realCfg st ac with | none => "nil" | some id => toHex id)
  let b := (d.addrs ++ [feeAccount]).map (fun ad => toString (st.balOf ad))
  let ehs := dedupNat (d.heights.map (· + refundDelay)) []
  let e := ehs.flatMap (fun eh => d.accts.filterMap (fun ac =>
    let v := st.escOf eh ac
    if v = 0 then none else some (toString eh ++ ":" ++ toHex ac ++ "=" ++ toString v)))
  let ps := st.pending.foldr insertByHeight []
  let r := ps.flatMap (fun p => p.2.map (fun it => toString p.1 ++ ":" ++ toHex it.1 ++ "=" ++ toString it.2))
  "P=" ++ iterStr st .prop ++ " V=" ++ iterStr st .val ++ " G=" ++ ",".intercalate g ++ " A=" ++ ",".intercalate a
    ++ " T=" ++ totalsStr st st.height ++ " T=" ++ totalsStr st (st.height + heightAfterStake)
    ++ " B=" ++ ",".intercalate b ++ " E=" ++ ",".intercalate e ++ " R=" ++ ",".intercalate r
    ++ " S=" ++ (let vs := validatorsStake realCfg st d.ids
                 toString vs.1 ++ "/" ++ ",".intercalate (sortStrs (vs.2.map (fun e => toHex e.1 ++ ":" ++ toString e.2))))
    ++ " K=" ++ ",".intercalate (d.ids.map (fun id => match st.pkOf id with | none => "nil" | some k => toHex k))

def readerStr (d : D) : String :=
  let c := d.committed
  let h := d.st.height
  if candidatesPanic realCfg c then "PANIC" else
  let cs := sortStrs ((candidates realCfg c h).map (fun m => toString m.stake ++ "/" ++ toString m.applyHeight ++ "/" ++ toString m.typ))
  let ps := d.ids.map (fun id => match proposeMiner realCfg c id with
    | none => "nil"
    | some m => toString m.stake ++ "/" ++ toString m.applyHeight ++ "/" ++ toString m.typ)
  ",".intercalate cs ++ "|" ++ ",".intercalate ps ++ "|" ++ toString (proposerCount realCfg c h)

/-- dev chain `common.MainNodeContract()`; the harness deploys there a contract that emits 4 logs, the 4th carrying
    `ORIGIN xor nodeMask` as a 32-byte word (so `generateContractAddress` yields that address). -/
def mainNodeAddr : Bytes :=
  [0x27, 0xB0, 0x1A, 0x9E, 0x69, 0x9F, 0x17, 0x76, 0x34, 0xf4, 0x80, 0xCc, 0x21, 0x50, 0x42, 0x50, 0x09, 0xEd, 0xc5, 0xfD]
def nodeMask : Bytes := List.replicate 20 0x5a
def xorBytes (a b : Bytes) : Bytes := List.zipWith (· ^^^ ·) a b

def create2Of (st : State) (src : Bytes) : Option Bytes :=
  if st.isContract mainNodeAddr then some (xorBytes (toAddr src) nodeMask) else none

def badKind? : String → Option BadKind
  | "apply-json" => some .applyJson
  | "add-json" => some .addJson
  | "chacc-json" => some .chaccJson
  | "refund-json" => some .refundJson
  | "refund-amount" => some .refundAmount
  | _ => none

def doTx (d : D) (t : Tx) : D × String :=
  let r := pkAfter t (runTx realCfg d.st t)
  ({ d with st := r.2 }, r.1)

def stepOpt (d : D) (ws : List String) : Option (D × String) :=
  match ws with
  | ["reset", h] => do
    let h ← h.toNat?
    -- the public-key cache is a process-wide LevelDB: it survives the reset of the account state
    let d0 : D := { D.init with st := { State.empty h with pk := d.st.pk }, live := true, heights := [h] }
    pure ({ d0 with committed := State.empty h, mainnet := d.mainnet }, "ok")
  | ["config", c] =>
    -- fork schedule: every flag on the miner path has the modelled value beyond the network's last proposal;
    -- the one network-dependent branch is `IsMainnet() && type == proposer` in minerApplyExecutor
    if c == "dev" ∨ c == "robin" then some ({ d with mainnet := false }, "ok")
    else if c == "mainnet" then some ({ d with mainnet := true }, "ok")
    else none
  | _ =>
    if !d.live then none else
    match ws with
    | ["uni", i, a, ad] => do
      let i ← csv? i; let a ← csv? a; let ad ← csv? ad
      pure ({ d with ids := i, accts := a, addrs := ad.map toAddr }, "ok")
    | ["bal", a, v] => do
      let a ← ofHex? a; let v ← v.toNat?
      pure ({ d with st := d.st.setBal (toAddr a) v }, "ok")
    | ["code", a] => do
      let a ← ofHex? a
      pure ({ d with st := { d.st with code := toAddr a :: d.st.code } }, "ok")
    | ["genesis", t, id, ac, s, ah, stt] => do
      let t ← t.toNat?; let id ← ofHex? id; let ac ← ofHex? ac; let s ← s.toNat?; let ah ← ah.toNat?; let stt ← stt.toNat?
      if t > 255 ∨ stt > 255 ∨ s > maxU64 then none
      let r := insertMiner realCfg d.st { id := id, pk := [1], vrf := [1], applyHeight := ah, typ := t } s stt ac
      pure ({ d with st := r.2 }, toString r.1)
    | ["apply", src, id, t, s, ac, pk, vrf] => do
      let src ← ofHex? src; let id ← ofHex? id; let t ← t.toNat?; let s ← s.toNat?
      let ac ← ofHex? ac; let pk ← ofHex? pk; let vrf ← ofHex? vrf
      if s > maxU64 then none
      if d.mainnet ∧ t = typeProposer then
        -- "mainnet not support Proposer": rejected right after the JSON parse, i.e. a rejected transaction
        let r := doTx d (.bad .applyJson src)
        pure (r.1, if r.2 = "fail:json" then "fail:mainnet" else r.2)
      else pure (doTx d (.apply src id t s ac pk vrf))
    | ["add", src, id, dl] => do
      let src ← ofHex? src; let id ← ofHex? id; let dl ← dl.toNat?
      if dl > maxU64 then none
      pure (doTx d (.add src id dl))
    | ["refund", src, id, am] => do
      let src ← ofHex? src; let id ← ofHex? id; let am ← am.toNat?
      if am > maxU64 then none
      pure (doTx d (.refund src id am))
    | ["chacc", src, id, na] => do
      let src ← ofHex? src; let id ← ofHex? id; let na ← ofHex? na
      pure (doTx d (.chacc src id na))
    | ["bad", k, src, _n] => do
      let k ← badKind? k; let src ← ofHex? src
      pure (doTx d (.bad k src))
    | ["vmstake", _o, k, v] => do
      let k ← ofHex? k; let v ← v.toNat?
      let st := { d.st with code := toAddr k :: d.st.code }
      pure ({ d with st := vmStake realCfg st (toAddr k) v }, "ok")
    | ["vmunstake", o, k, v] => do
      let o ← ofHex? o; let k ← ofHex? k; let v ← v.toNat?
      let st := { d.st with code := toAddr k :: d.st.code }
      pure ({ d with st := vmUnstake realCfg st (toAddr o) (toAddr k) v }, "ok")
    | ["vmunstakeall", _o, k] => do
      let k ← ofHex? k
      let st := { d.st with code := toAddr k :: d.st.code }
      let r := vmUnstakeAll realCfg st (toAddr k)
      pure ({ d with st := r.2 }, if r.1 then "ok" else "err")
    | ["endblock", n] => do
      let n ← n.toNat?
      pure ({ d with st := endBlock d.st n, committed := endBlock d.st n, heights := d.heights ++ [n] }, "ok")
    | ["rheight", a, b, c, _fork, now, left, typ, ds] => do
      let now ← now.toNat?; let left ← left.toNat?; let typ ← typ.toNat?
      let ds ← if ds == "." then some [] else (ds.splitOn ",").mapM String.toNat?
      if now > maxU64 ∨ left > maxU64 ∨ typ > 255 ∨ ds.any (· > maxU64) then none
      let fl : RefundFlags := { p012 := a == "1", p004 := b == "1", p011Now := c == "1" }
      pure (d, toString (refundHeightOf fl now left typ ds))
    | ["nodecode"] =>
      pure ({ d with st := { d.st with code := mainNodeAddr :: d.st.code } }, "ok")
    | ["node", src] => do
      let src ← ofHex? src
      let r := runNode realCfg d.st src (create2Of d.st src)
      pure ({ d with st := r.2 }, r.1)
    | ["purge", w] => do
      let w ← csv? w
      pure ({ d with st := removeUnusedValidator realCfg d.st w }, "ok")
    | ["rewind"] =>
      -- the block being executed is discarded: the account state falls back to the last block end; the public-key
      -- cache is not part of it and keeps what the discarded block put there
      pure ({ d with st := rewind d.committed d.st }, "ok")
    | ["dump"] => pure (d, dump d ++ " X=" ++ readerStr d)
    | _ => none

def step (d : D) (line : String) : D × String :=
  match stepOpt d (splitWords line) with
  | some r => r
  | none => (d, "bad-op")

def run : IO Unit := runLines D.init step
end Rangers.Drive.C20
