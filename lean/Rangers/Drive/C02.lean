import Rangers.Basic.Hex
import Rangers.Basic.Line
import Rangers.Basic.Keccak
import Rangers.Model.Trie
import Rangers.Model.TrieStore
import Rangers.Model.TrieLive
/-
C02 line-protocol driver.  State = the live trie model (`Trie.LTrie`: nodes with cache flags,
hash nodes, cache generation / limit, node database).
  new | upd k v | del k | get k | hash | commit | reopen | dbcommit | cachelimit n | iter start | shape | keccak x
`Props/C02Live` proves that this machine observes exactly what the flag-free, fully loaded
model `Trie.Node` (`Props/C02`) observes.
-/
namespace Rangers.Drive.C02
open Rangers Rangers.Trie

def H := Keccak.keccak256

def showIter (l : List (Bytes × Bytes)) : String :=
  "n=" ++ toString l.length ++ String.join (l.map (fun e => " " ++ toHex e.1 ++ ":" ++ toHex e.2))

/-- `Commit` + `NewTrie(root, db)`; the harness re-applies the cache limit to the new trie -/
def reopen (t : LTrie) : LTrie × String :=
  let r := t.commit H
  match LTrie.open r.2.db r.1 with
  | some t' => ({ t' with limit := t.limit }, toHex r.1)
  | none => (r.2, "err-missing-node")

def step (t : LTrie) (line : String) : LTrie × String :=
  match splitWords line with
  | ["new"] => (LTrie.empty, "ok")
  | ["upd", k, v] =>
    match ofHex? k, ofHex? v with
    | some k, some v =>
      match t.update k v with
      | some t' => (t', "ok")
      | none => (t, "model-error")
    | _, _ => (t, "bad-op")
  | ["del", k] =>
    match ofHex? k with
    | some k =>
      match t.remove k with
      | some t' => (t', "ok")
      | none => (t, "model-error")
    | none => (t, "bad-op")
  | ["get", k] =>
    match ofHex? k with
    | some k =>
      match t.get k with
      | some (some v, t') => (t', "v=" ++ toHex v)
      | some (none, t') => (t', "absent")
      | none => (t, "model-error")
    | none => (t, "bad-op")
  | ["hash"] => let r := t.hash H; (r.2, toHex r.1)
  | ["commit"] => let r := t.commit H; (r.2, toHex r.1)
  | ["reopen"] => reopen t
  | ["dbcommit"] => reopen t
  | ["cachelimit", n] =>
    match n.toNat? with
    | some n => if n < 65536 then ({ t with limit := n }, "ok") else (t, "bad-op")
    | none => (t, "bad-op")
  | ["iter", s] =>
    match ofHex? s with
    | some s =>
      -- `newNodeIterator` calls `trie.Hash()` (which caches hashes in the root), then walks,
      -- resolving hash nodes without touching the trie
      let t' := (t.hash H).2
      match expandFull t'.db 4096 t'.root with
      | some n => (t', showIter (iterFrom n s))
      | none => (t', "err-missing-node")
    | none => (t, "bad-op")
  | ["shape"] => (t, shapeL t.root ++ " g" ++ toString t.gen)
  | ["keccak", x] =>
    match ofHex? x with
    | some x => (t, toHex (H x))
    | none => (t, "bad-op")
  | _ => (t, "bad-op")

def run : IO Unit := runLines LTrie.empty step
end Rangers.Drive.C02
