import Rangers.Basic.Hex
import Rangers.Basic.Line
import Rangers.Basic.Keccak
import Rangers.Model.TrieMachine
import Rangers.Model.TrieIter
/-
C02 line-protocol driver.  State = the live trie model (`Trie.LTrie`: nodes with cache flags,
hash nodes, cache generation / limit, node database); every trie operation goes through
`Trie.lstep`, the machine `Props/C02Live` proves observationally equal to the fully loaded,
flag-free model of `Props/C02`.
  new | upd k v | del k | get k | hash | commit | reopen | dbcommit | cachelimit n | iter start | shape | keccak x
-/
namespace Rangers.Drive.C02
open Rangers Rangers.Trie

def H := Keccak.keccak256

/-- fuel for full iteration: enough for keys of up to 2047 bytes (`Props.C02Live.lrun_observes`) -/
def iterFuel : Nat := 8200

def showObs : Obs → String
  | .ok => "ok"
  | .value (some v) => "v=" ++ toHex v
  | .value none => "absent"
  | .root h => toHex h
  | .pairs l => "n=" ++ toString l.length ++ String.join (l.map (fun e => " " ++ toHex e.1 ++ ":" ++ toHex e.2))
  | .err => "model-error"

def parseOp (line : String) : Option Op :=
  match splitWords line with
  | ["upd", k, v] => do let k ← ofHex? k; let v ← ofHex? v; pure (.upd k v)
  | ["del", k] => (ofHex? k).map .del
  | ["get", k] => (ofHex? k).map .get
  | ["hash"] => some .hash
  | ["commit"] => some .commit
  | ["reopen"] => some .reopen
  | ["dbcommit"] => some .dbcommit
  | ["cachelimit", n] => n.toNat?.bind (fun n => if n < 65536 then some (.cachelimit n) else none)
  | ["iter", s] => (ofHex? s).map .iter
  | _ => none

def step (t : LTrie) (line : String) : LTrie × String :=
  match splitWords line with
  | ["new"] => (LTrie.empty, "ok")
  | ["shape"] => (t, shapeL t.root ++ " g" ++ toString t.gen)
  | ["keccak", x] =>
    match ofHex? x with
    | some x => (t, toHex (H x))
    | none => (t, "bad-op")
  | _ =>
    match parseOp line with
    | some (.iter start) =>
      -- `lstep` answers with `iterFrom` (the specification of the order); the iterator stack machine
      -- (`Model/TrieIter`) is run next to it on the same expanded trie and must agree
      let r := lstep H iterFuel t (.iter start)
      let t' := (t.hash H).2
      match expandFull t'.db iterFuel t'.root with
      | some n =>
        if Obs.pairs (iterMachine n start) == r.2 then (r.1, showObs r.2)
        else (r.1, "model-iterator-machine-differs " ++ showObs (.pairs (iterMachine n start)))
      | none => (r.1, showObs r.2)
    | some op => let r := lstep H iterFuel t op; (r.1, showObs r.2)
    | none => (t, "bad-op")

def run : IO Unit := runLines LTrie.empty step
end Rangers.Drive.C02
