import Rangers.Basic.Hex
import Rangers.Basic.Line
import Rangers.Basic.Keccak
import Rangers.Model.Trie
import Rangers.Model.TrieStore
/-
C02 line-protocol driver.  State = the model trie (`Trie.Node`).
  new | upd k v | del k | get k | hash | commit | reopen | dbcommit | cachelimit n | iter start | keccak x
`commit` and `cachelimit` do not touch the model state; `reopen`/`dbcommit` run the model's
commit-and-reload (`Trie.reload`).  That all four are no-ops on content in the implementation
is what the correspondence run checks.
-/
namespace Rangers.Drive.C02
open Rangers Rangers.Trie

def H := Keccak.keccak256

def showRoot (t : Node) : String := toHex (rootHash H t)

def showIter (l : List (Bytes × Bytes)) : String :=
  "n=" ++ toString l.length ++ String.join (l.map (fun e => " " ++ toHex e.1 ++ ":" ++ toHex e.2))

/-- `Commit` + `NewTrie(root, db)`: the model collapses the trie into store entries and expands
    the root hash again (`Trie.reload`); by `Props.C02.expand_collapse` this is the identity. -/
def reopen (t : Node) : Node × String :=
  match reload H t with
  | some t' => (t', showRoot t')
  | none => (t, "model-reload-failed")

def step (t : Node) (line : String) : Node × String :=
  match splitWords line with
  | ["new"] => (.nil, "ok")
  | ["upd", k, v] =>
    match ofHex? k, ofHex? v with
    | some k, some v => (update t k v, "ok")
    | _, _ => (t, "bad-op")
  | ["del", k] =>
    match ofHex? k with
    | some k => (remove t k, "ok")
    | none => (t, "bad-op")
  | ["get", k] =>
    match ofHex? k with
    | some k => (t, match lookup t k with | some v => "v=" ++ toHex v | none => "absent")
    | none => (t, "bad-op")
  | ["hash"] => (t, showRoot t)
  | ["commit"] => (t, showRoot t)
  | ["reopen"] => reopen t
  | ["dbcommit"] => reopen t
  | ["cachelimit", n] =>
    match n.toNat? with
    | some n => if n < 65536 then (t, "ok") else (t, "bad-op")
    | none => (t, "bad-op")
  | ["iter", s] =>
    match ofHex? s with
    | some s => (t, showIter (iterFrom t s))
    | none => (t, "bad-op")
  | ["keccak", x] =>
    match ofHex? x with
    | some x => (t, toHex (H x))
    | none => (t, "bad-op")
  | _ => (t, "bad-op")

def run : IO Unit := runLines Node.nil step
end Rangers.Drive.C02
