import Rangers.Basic.Hex
import Rangers.Basic.Line
import Rangers.Basic.Keccak
import Rangers.Model.TrieMachine
import Rangers.Model.TrieIter
import Rangers.Model.TrieNdb
/-
C02 line-protocol driver.  State = the live trie model (`Trie.LTrie`: nodes with cache flags,
hash nodes, cache generation / limit, node database); every trie operation goes through
`Trie.lstep`, the machine `Props/C02Live` proves observationally equal to the fully loaded,
flag-free model of `Props/C02`.
  new | upd k v | del k | get k | hash | commit | reopen | dbcommit | cachelimit n | iter start | shape | keccak x
  snap | sget i k | shash i | sshape i | badopen h      (retained trie objects; rejected opens)
-/
namespace Rangers.Drive.C02
open Rangers Rangers.Trie

def H := Keccak.keccak256

/-- fuel for full iteration: enough for keys of up to 2047 bytes (`Props.C02Live.lrun_observes`) -/
def iterFuel : Nat := 8200

def showObs : Obs → String
  | .ok => "ok"
  | .value (some v) => "v=" ++ toHex v
  | .value none => "absent"
  | .root h => toHex h
  | .pairs l => "n=" ++ toString l.length ++ String.join (l.map (fun e => " " ++ toHex e.1 ++ ":" ++ toHex e.2))
  | .err => "model-error"

def parseOp (line : String) : Option Op :=
  match splitWords line with
  | ["upd", k, v] => do let k ← ofHex? k; let v ← ofHex? v; pure (.upd k v)
  | ["del", k] => (ofHex? k).map .del
  | ["get", k] => (ofHex? k).map .get
  | ["hash"] => some .hash
  | ["commit"] => some .commit
  | ["reopen"] => some .reopen
  | ["dbcommit"] => some .dbcommit
  | ["cachelimit", n] => n.toNat?.bind (fun n => if n < 65536 then some (.cachelimit n) else none)
  | ["iter", s] => (ofHex? s).map .iter
  | _ => none

/-- driver state: the working trie and the retained trie objects (`snap`) -/
structure DState where
  cur : LTrie
  snaps : List LTrie
  ndb : NDb := NDb.empty      -- the two-layer NodeDatabase (`Model/TrieNdb`), fed by every `Trie.Commit`

def showGet : Option (Option Bytes × LTrie) → String
  | some (some v, _) => "v=" ++ toHex v
  | some (none, _) => "absent"
  | none => "model-error"

def step1 (t : LTrie) (line : String) : LTrie × String :=
  match splitWords line with
  | ["shape"] => (t, shapeL t.root ++ " g" ++ toString t.gen)
  | ["keccak", x] =>
    match ofHex? x with
    | some x => (t, toHex (H x))
    | none => (t, "bad-op")
  | _ =>
    match parseOp line with
    | some (.iter start) =>
      -- `lstep` answers with `iterFrom` (the specification of the order); the iterator stack machine
      -- (`Model/TrieIter`) is run next to it on the same expanded trie and must agree
      let r := lstep H iterFuel t (.iter start)
      let t' := (t.hash H).2
      match expandFull t'.db iterFuel t'.root with
      | some n =>
        if Obs.pairs (iterMachine n start) == r.2 then (r.1, showObs r.2)
        else (r.1, "model-iterator-machine-differs " ++ showObs (.pairs (iterMachine n start)))
      | none => (r.1, showObs r.2)
    | some op => let r := lstep H iterFuel t op; (r.1, showObs r.2)
    | none => (t, "bad-op")

def step (s : DState) (line : String) : DState × String :=
  match splitWords line with
  | ["new"] => ({ cur := LTrie.empty, snaps := [], ndb := NDb.empty }, "ok")
  | ["rlpstr", x] =>
    match ofHex? x with
    | some x => (s, toHex (rlpString x))
    | none => (s, "bad-op")
  | "rlplist" :: xs =>
    match xs.mapM ofHex? with
    | some items => (s, toHex (rlpList (items.flatMap rlpString)))
    | none => (s, "bad-op")
  | ["rlpsplit", x] =>
    match ofHex? x with
    | some x =>
      match rlpSplit x with
      | some r =>
        let kind := match r.1 with | .byte => "byte" | .string => "string" | .list => "list"
        let cnt := match countValues x.length x with | some n => toString n | none => "count-error"
        (s, kind ++ " " ++ toHex r.2.1 ++ " " ++ toHex r.2.2 ++ " " ++ cnt)
      | none => (s, "split-error")
    | none => (s, "bad-op")
  | ["opendisk", x] =>
    match ofHex? x with
    | some x =>
      match decodeNode 0 (20 * x.length + 20) (some (H x)) x with
      | some n => (s, shapeL n ++ " g0")
      | none => (s, "decode-panic")
    | none => (s, "bad-op")
  | ["dbstate"] =>
    (s, "mem=" ++ keyDigest (s.ndb.mem.map (·.1)) ++ " disk=" ++ keyDigest (s.ndb.disk.map (·.1)))
  | ["node", h] =>
    match ofHex? h with
    | some h => (s, match s.ndb.blob h with | some b => "blob=" ++ toHex b | none => "absent")
    | none => (s, "bad-op")
  | ["blob", x] =>
    match ofHex? x with
    | some x => ({ s with ndb := s.ndb.insert (H x) (.raw x) }, toHex (H x))
    | none => (s, "bad-op")
  | ["commitref"] =>
    -- `Trie.Commit(onleaf)`: insert, then the leaf callback references 32-byte leaf values
    let att := commitAttempts H s.cur
    let r := s.cur.commit H
    match (s.ndb.insertAll att).onleafAll att with
    | some ndb => ({ s with cur := r.2, ndb := ndb }, toHex r.1)
    | none => (s, "model-error")
  | ["commit"] =>
    let r := s.cur.commit H
    ({ s with cur := r.2, ndb := s.ndb.insertAll (commitAttempts H s.cur) }, toHex r.1)
  | ["reopen"] =>
    let r := s.cur.reopen H
    ({ s with cur := r.1, ndb := s.ndb.insertAll (commitAttempts H s.cur) }, showObs r.2)
  | ["dbcommit"] =>
    -- `Trie.Commit` + `NodeDatabase.Commit(root)` + `NewTrie(root)` (root decoded from its disk blob)
    let r := s.cur.reopenDisk H
    let root := (s.cur.commit H).1
    ({ s with cur := r.1, ndb := ((s.ndb.insertAll (commitAttempts H s.cur)).commit iterFuel root) }, showObs r.2)
  | ["snap"] =>
    -- keep the current trie value, continue on a reopened one (`Commit` + `NewTrie(root, db)`)
    let r := s.cur.reopen H
    match r.2 with
    | .root h =>
      let snaps' := s.snaps ++ [(s.cur.commit H).2]
      let ndb' := s.ndb.insertAll (commitAttempts H s.cur)
      ({ s with cur := r.1, snaps := snaps', ndb := ndb' }, toHex h)
    | _ => (s, "model-error")
  | ["fork"] => ({ s with snaps := s.snaps ++ [s.cur] }, "ok")     -- a value copy of the trie object
  | ["sget", i, k] =>
    match i.toNat?, ofHex? k with
    | some i, some k =>
      match s.snaps[i]? with
      | some st =>
        let r := st.get k
        ({ s with snaps := s.snaps.set i (match r with | some x => x.2 | none => st) }, showGet r)
      | none => (s, "bad-op")
    | _, _ => (s, "bad-op")
  | ["shash", i] =>
    match i.toNat?.bind (fun i => s.snaps[i]?.map (fun st => (i, st))) with
    | some (i, st) => let r := st.hash H; ({ s with snaps := s.snaps.set i r.2 }, toHex r.1)
    | none => (s, "bad-op")
  | ["sshape", i] =>
    match i.toNat?.bind (fun i => s.snaps[i]?) with
    | some st => (s, shapeL st.root ++ " g" ++ toString st.gen)
    | none => (s, "bad-op")
  | ["badopen", h] =>
    match ofHex? h with
    | some h =>
      if h.length = 32 then
        match LTrie.open s.cur.db h with
        | some _ => (s, "opened")
        | none => (s, "err-missing-node")
      else (s, "bad-op")
    | none => (s, "bad-op")
  | _ => let r := step1 s.cur line; ({ s with cur := r.1 }, r.2)

def run : IO Unit := runLines { cur := LTrie.empty, snaps := [], ndb := NDb.empty } step
end Rangers.Drive.C02
