import Rangers.Basic.Hex
import Rangers.Basic.Line
import Rangers.Model.Evm11Interp
import Rangers.Generated.Evm11Tables
/-!
Line-protocol driver for C11 (see design/C11.md for the grammar).

  call   <cfg> <gas> <valueHex> <addr> <inputHex> <ctx> <tape>
  scall  <cfg> <gas> <addr> <inputHex> <ctx> <tape>          (top-level evm.StaticCall)
  create <cfg> <gas> <valueHex> <initHex> <ctx> <tape>
  gas    <cfg> <op> <memLen> <lastGasCost> <contractGas> <w0,w1,…>   (w0 = top of stack, hex)
  pgas   <addr> <inputHex>

cfg = bit mask: 1 table014, 2 table022, 4 table026, 8 IsProposal015, 16 IsProposal026, 32 create bumps nonce.
-/
namespace Rangers.Drive.C11
open Rangers Rangers.Evm11

def bit (n k : Nat) : Bool := (n >>> k) % 2 == 1

def faultName : Fault → String
  | .outOfGas => "oog" | .invalidOpCode => "invalid-op" | .stackUnderflow => "stack-underflow"
  | .stackOverflow => "stack-overflow" | .writeProtection => "write-protect"
  | .gasUintOverflow => "gas-overflow" | .invalidJump => "bad-jump"
  | .returnDataOutOfBounds => "rd-oob" | .customOpError => "custom-err" | .depth => "depth"
  | .insufficientBalance => "insufficient-balance" | .addressCollision => "collision"
  | .maxCodeSizeExceeded => "max-code-size" | .codeStoreOutOfGas => "code-store-oog"
  | .precompileError => "precompile-err" | .reverted => "revert"
  | .desync k => "desync:" ++ k | .unmodelled => "unmodelled" | .outOfFuel => "out-of-fuel"
  | .stackBug => "stack-bug"

def hexOrDash (b : BA) : String := if b.size = 0 then "-" else hexBA b

def parseHexTok (s : String) : Option BA := if s == "-" then some #[] else unhex? s

def parseTape (s : String) : List (String × String) :=
  if s == "-" then [] else
  (s.splitOn ",").map (fun e =>
    match e.splitOn "=" with
    | [k] => (k, "")
    | k :: rest => (k, String.intercalate "=" rest)
    | [] => ("", ""))

def parseCtx (cfg : Nat) (s : String) : Option Ctx :=
  match s.splitOn ":" with
  | [origin, gasPrice, coinbase, gasLimit, number, time, difficulty, chainId] => do
    let o ← hexToNat? origin
    let gp ← gasPrice.toNat?
    let cb ← hexToNat? coinbase
    let gl ← gasLimit.toNat?
    let nb ← number.toNat?
    let tm ← time.toNat?
    let df ← difficulty.toNat?
    let ci ← chainId.toNat?
    pure { table := Gen.tableOf (bit cfg 0) (bit cfg 1) (bit cfg 2),
           gc := ⟨bit cfg 3, bit cfg 4⟩, bumpNonce := bit cfg 5,
           origin := o, gasPrice := gp, coinbase := cb, gasLimit := gl, number := nb, time := tm,
           difficulty := df, chainId := ci }
  | _ => none

/-- longest code the run can meet: top-level code, codes answered by the state
    oracle; init code taken from memory is bounded through the gas (`Props.C11`). -/
def maxCodeLen (top : Nat) (tape : List (String × String)) : Nat :=
  tape.foldl (fun m (k, a) => if k.startsWith "gc:" then max m (a.length / 2) else m) top

def fuelFor (gas : Nat) (top : Nat) (tape : List (String × String)) : Nat :=
  2 * gas + 2

def showRes (r : CallRes) (isCreate : Bool) : String :=
  match r.err with
  | some .unmodelled => "unmodelled"
  | _ =>
    let st := match r.err with | none => "ok" | some e => faultName e
    st ++ " " ++ toString r.gas ++ " " ++ hexOrDash r.ret ++
      (if isCreate then " " ++ hexAddr r.addr else "") ++ " " ++ toString r.g.used ++
      " s=" ++ toString r.g.steps ++ " h=" ++ toString r.g.hwStack ++ " d=" ++ toString r.g.hwDepth

def parseStack (s : String) : Option (List Word) :=
  if s == "-" then some [] else
  (s.splitOn ",").mapM hexToNat?

def step (_ : Unit) (line : String) : Unit × String :=
  let out : String :=
    match splitWords line with
    | ["call", cfg, gas, value, addr, input, ctx, tape] =>
      (do
        let cfg ← cfg.toNat?
        let gas ← gas.toNat?
        let value ← hexToNat? (if value == "-" then "" else value)
        let addr ← hexToNat? addr
        let input ← parseHexTok input
        let cx ← parseCtx cfg ctx
        let tp := parseTape tape
        let r := topCall cx (fuelFor gas 0 tp) addr value input gas (Global.start tp)
        pure (showRes r false)).getD "bad-op"
    | ["scall", cfg, gas, addr, input, ctx, tape] =>
      (do
        let cfg ← cfg.toNat?
        let gas ← gas.toNat?
        let addr ← hexToNat? addr
        let input ← parseHexTok input
        let cx ← parseCtx cfg ctx
        let tp := parseTape tape
        let r := topStaticCall cx (fuelFor gas 0 tp) addr input gas (Global.start tp)
        pure (showRes r false)).getD "bad-op"
    | ["create", cfg, gas, value, init, ctx, tape] =>
      (do
        let cfg ← cfg.toNat?
        let gas ← gas.toNat?
        let value ← hexToNat? (if value == "-" then "" else value)
        let init ← parseHexTok init
        let cx ← parseCtx cfg ctx
        let tp := parseTape tape
        let r := topCreate cx (fuelFor gas init.size tp) value init gas (Global.start tp)
        pure (showRes r true)).getD "bad-op"
    | ["gas", cfg, op, memLen, last, cgas, stack] =>
      (do
        let cfg ← cfg.toNat?
        let op ← op.toNat?
        let memLen ← memLen.toNat?
        let last ← last.toNat?
        let cgas ← cgas.toNat?
        let st ← parseStack stack
        let table := Gen.tableOf (bit cfg 0) (bit cfg 1) (bit cfg 2)
        match table.getD op none with
        | none => pure "undefined"
        | some info =>
          let ms : Option Nat :=
            match memSizeFn info.mem st with
            | none => some 0
            | some (sz, ov) =>
              if ov then none else
              let r := safeMul (toWordSize sz) 32
              if r.2 then none else some r.1
          match ms with
          | none => pure "overflow"
          | some memorySize =>
            let m : Mem := ⟨Array.replicate memLen 0, last⟩
            match dynGas ⟨bit cfg 3, bit cfg 4⟩ info.dyn st m memorySize cgas 0 (Global.start []) with
            | .ok cost _ _ _ => pure ("ok " ++ toString cost ++ " " ++ toString memorySize)
            | .err _ => pure "err"
            | .desync _ => pure "unmodelled").getD "bad-op"
    | ["igas", p26, creation, data] =>
      (do
        let data ← parseHexTok data
        match intrinsicGas (p26 == "1") data (creation == "1") with
        | some g => pure ("ok " ++ toString g)
        | none => pure "overflow").getD "bad-op"
    | ["prun", addr, input] =>
      (do
        let addr ← addr.toNat?
        let input ← parseHexTok input
        if precompileGas addr input > 3000000 then pure "unmodelled" else   -- the harness does not run it either
        match precompileRunModel addr input with
        | none => pure "unmodelled"
        | some none => pure "err"
        | some (some out) => pure ("ok " ++ hexOrDash out)).getD "bad-op"
    | ["pgas", addr, input] =>
      (do
        let addr ← addr.toNat?
        let input ← parseHexTok input
        let gas := precompileGas addr input
        -- the harness runs `Run` only when it is cheap; then it reports whether the length gate let it through
        pure (toString gas ++ " " ++
          (if gas > 3000000 then "skip" else if precompileLenOk addr input.size then "run" else "lenerr"))).getD "bad-op"
    | _ => "bad-op"
  ((), out)

def run : IO Unit := runLines () step
end Rangers.Drive.C11
