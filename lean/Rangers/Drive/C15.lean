import Rangers.Basic.Line
import Rangers.Basic.Hex
import Rangers.Model.Round
import Rangers.Model.RoundLife
import Rangers.Model.RoundWire
import Rangers.Generated.C15Facts
/-
Driver for C15. Ops (one per line):
  new <hash> <prand> <n> <exists> <members,> <pkknown,>      -> ok k=<k>
  early <wire> <mid> <filed> <signer> <idshape> <nonzero> <datahash> <sig> <rand>   -> ok
  enter                                                        -> state line
  msg   <same 9 fields as early>                               -> state line
  chain <0|1>                                                  -> ok
sig/rand: nil | junk0 | junk1 | s.<signer>.<data>
-/
namespace Rangers.Drive.C15
open Rangers Rangers.Model.Round

structure St where
  env : Env
  members : List Id
  k : Nat
  early : List (VMsg Sym)
  proc : Option (Proc Sym)
  life : Option (Life Sym) := none

def nat? (s : String) : Option Nat := s.toNat?

def bool? (s : String) : Option Bool :=
  if s == "1" then some true else if s == "0" then some false else none

def csv? (s : String) : Option (List Nat) :=
  if s == "-" then some [] else (s.splitOn ",").mapM nat?

def sym? (s : String) : Option Sym :=
  if s == "nil" then some .nil
  else if s == "junk0" then some (.junk false)
  else if s == "junk1" then some (.junk true)
  else match s.splitOn "." with
    | ["s", a, b] => do
      let x ← nat? a
      let y ← nat? b
      pure (.share x y)
    | _ => none

def wire? : List String → Option (Wire Sym)
  | [w, mid, filed, signer, shape, nz, dh, sg, rd] => do
    let mid ← nat? mid
    let filed ← nat? filed
    let signer ← nat? signer
    let shape ← (if shape == "ok" then some IdShape.ok else if shape == "over" then some IdShape.oversize else none)
    let nz ← bool? nz
    let dh ← nat? dh
    let sg ← sym? sg
    let rd ← sym? rd
    let m : VMsg Sym := { mid := mid, blockHash := filed, signer := signer, idShape := shape,
                          signerNonZero := nz, dataHash := dh, sig := sg, rand := rd }
    if w == "ok" then some (.ok m)
    else if w == "proto" then some .protoBad
    else if w == "nosign" then some .noSign
    else if w == "emptysig" then some .emptyDataSign
    else none
  | _ => none

def b01 (b : Bool) : String := if b then "1" else "0"

def insertSorted (e : Nat × Bool) : List (Nat × Bool) → List (Nat × Bool)
  | [] => [e]
  | x :: xs => if e.1 ≤ x.1 then e :: x :: xs else x :: insertSorted e xs

def showEntries (c : Crypto Sym) (d : Data) (l : List (Id × Sym)) : String :=
  let es := (l.map (fun e => (e.1, c.verify e.1 d e.2))).foldr insertSorted []
  if es.isEmpty then "-" else ",".intercalate (es.map (fun e => toString e.1 ++ ":" ++ b01 e.2))

def showState (c : Crypto Sym) (env : Env) (pr : Proc Sym) (strayKey : Data) : String :=
  let rs := pr.party.rs
  let ph := match pr.party.phase with | .r1 => "r1" | .r2 => "r2" | .ended => "end"
  let fin := match pr.ending with | none => "-" | some true => "done" | some false => "err"
  let gen := match rs.generated with
    | none => "-"
    | some (a, b) => b01 (sigOk c env.hash a) ++ b01 (sigOk c env.prevRandom b)
  s!"ph={ph} n={rs.number} cp={b01 rs.canProcessed} k={rs.gSign.threshold} g={showEntries c env.hash rs.gSign.witness} r={showEntries c env.prevRandom rs.rSign.witness} grec={b01 (rs.gSign.recovered c)} rrec={b01 (rs.rSign.recovered c)} mgr={b01 pr.inManager} done={b01 pr.done} end={fin} gen={gen} proc={rs.processed.length} fut={rs.future.length} stray={strayCount pr.stray strayKey}"

def verdict? (s : String) : Option Verdict :=
  if s == "reject" then some .reject else if s == "wait" then some .wait
  else if s == "accept" then some .accept else none

def showLife (c : Crypto Sym) (env : Env) (l : Life Sym) (strayKey : Data) : String :=
  let stg := match l.stage with
    | .noParty => "none" | .r0 => "r0" | .r0ready => "r0ready" | .signing => "signing" | .gone => "gone"
  let proc := if l.stage = .signing then showState c env l.proc strayKey else "-"
  s!"st={stg} stored={l.stored.length} pf={(l.pfuture env).length} keys={(if l.stage = .signing then l.proc.stray.items.length else l.parked.items.length)} k0={b01 l.key0Done} to={b01 l.timedOut} rej={b01 l.rejected} | {proc}"

def filedOf : Wire Sym → Data → Data
  | .ok m, _ => m.blockHash
  | _, d => d

def step (s : Option St) (line : String) : Option St × String :=
  match splitWords line with
  | ["new", h, pr, n, ex, mem, pk] =>
    match nat? h, nat? pr, nat? n, bool? ex, csv? mem, csv? pk with
    | some h, some pr, some n, some ex, some mem, some pk =>
      let env : Env := { hash := h, prevRandom := pr, groupSize := n, pkKnown := pk, blockExists := ex,
                         bindsHash := Rangers.Generated.C15Facts.bindsHash,
                         startRecovers := Rangers.Generated.C15Facts.startRecovers }
      let k := groupK n
      (some { env := env, members := mem, k := k, early := [], proc := none }, s!"ok k={k}")
    | _, _, _, _, _, _ => (s, "bad-op")
  | ["life", h, pr, n, ex, mem, pk, k0] =>
    match nat? h, nat? pr, nat? n, bool? ex, csv? mem, csv? pk, nat? k0 with
    | some h, some pr, some n, some ex, some mem, some pk, some k0 =>
      let env : Env := { hash := h, prevRandom := pr, groupSize := n, pkKnown := pk, blockExists := ex,
                         bindsHash := Rangers.Generated.C15Facts.bindsHash,
                         startRecovers := Rangers.Generated.C15Facts.startRecovers }
      let k := groupK n
      (some { env := env, members := mem, k := k, early := [], proc := none, life := some (Life.new k0) }, s!"ok k={k}")
    | _, _, _, _, _, _, _ => (s, "bad-op")
  | ["cast", mid, v] =>
    match s, nat? mid, verdict? v with
    | some st, some mid, some v =>
      match st.life with
      | some l =>
        let c := symCrypto st.k st.members
        let l' := l.step c st.env id (.cast mid v)
        (some { st with life := some l' }, showLife c st.env l' st.env.hash)
      | none => (s, "bad-op")
    | _, _, _ => (s, "bad-op")
  | ["notify", v] =>
    match s, verdict? v with
    | some st, some v =>
      match st.life with
      | some l =>
        let c := symCrypto st.k st.members
        let l' := l.step c st.env id (.notify v)
        (some { st with life := some l' }, showLife c st.env l' st.env.hash)
      | none => (s, "bad-op")
    | _, _ => (s, "bad-op")
  | "pkt" :: rest =>
    match s, wire? rest with
    | some st, some w =>
      match st.life with
      | some l =>
        let c := symCrypto st.k st.members
        let l' := l.step c st.env id (.packet st.env.blockExists w)
        (some { st with life := some l' }, showLife c st.env l' (filedOf w st.env.hash))
      | none => (s, "bad-op")
    | _, _ => (s, "bad-op")
  | ["timeout"] =>
    match s with
    | some st =>
      match st.life with
      | some l =>
        let c := symCrypto st.k st.members
        let l' := l.step c st.env id .timeout
        (some { st with life := some l' }, showLife c st.env l' st.env.hash)
      | none => (s, "bad-op")
    | none => (s, "bad-op")
  | "early" :: rest =>
    match s, wire? rest with
    | some st, some (.ok m) =>
      if st.proc.isSome then (s, "bad-op")
      else if st.early.any (fun f => f.mid == m.mid) then (s, "ok")
      else (some { st with early := st.early ++ [m] }, "ok")
    | _, _ => (s, "bad-op")
  | ["enter"] =>
    match s with
    | some st =>
      if st.proc.isSome then (s, "bad-op")
      else
        let c := symCrypto st.k st.members
        let pr := Proc.init c st.env st.early
        (some { st with proc := some pr }, showState c st.env pr st.env.hash)
    | none => (s, "bad-op")
  | "msg" :: rest =>
    match s, wire? rest with
    | some st, some w =>
      match st.proc with
      | some pr =>
        let c := symCrypto st.k st.members
        let r := pr.deliver c st.env w
        (some { st with proc := some r.1 }, showState c st.env r.1 (filedOf w st.env.hash))
      | none => (s, "bad-op")
    | _, _ => (s, "bad-op")
  | ["wire", bh, rs, dh, ds, sm] =>
    match ofHex? bh, ofHex? rs, ofHex? dh, ofHex? ds, ofHex? sm with
    | some bh, some rs, some dh, some ds, some sm =>
      match decodeFields { blockHash := bh, randomSign := rs, dataHash := dh, dataSign := ds, signMember := sm } with
      | none => (s, "dropped")
      | some d =>
        (s, s!"bh={toHex d.blockHash} dh={toHex d.dataHash} id={d.signer} over={b01 d.oversize} nz={b01 d.signerNonZero} sn={b01 d.sigNil} rn={b01 d.randNil}")
    | _, _, _, _, _ => (s, "bad-op")
  | ["groupk", n] =>
    match nat? n with
    | some n => (s, s!"k={groupK n}")
    | none => (s, "bad-op")
  | ["chain", b] =>
    match s, bool? b with
    | some st, some b => (some { st with env := { st.env with blockExists := b } }, "ok")
    | _, _ => (s, "bad-op")
  | _ => (s, "bad-op")

def run : IO Unit := runLines (none : Option St) step
end Rangers.Drive.C15
