import Rangers.Basic.Hex
import Rangers.Basic.Line
import Rangers.Model.TrieDB
import Rangers.Model.StateCommit
/-!
Line-protocol driver for C03 (see harness/cmd/c03).  Ops:

  reset
  ins  <h> <kind> <size> <tag> <inner|-> <need|->                 hasher.store / InsertBlob
  insl <h> <kind> <size> <tag> <inner|-> <need|-> <root> <code>   … of an account-leaf holder (leaf callback runs)
  ref <child> <parent>                                            NodeDatabase.Reference
  commit <root> <observed batches>                                NodeDatabase.Commit, all writes succeed
  fail <root> <k> <observed batches> <puts of the refused batch>  … the (k+1)-th physical write is refused
  die                                                             process death (caches dropped)
  prefix <j> <roots>      which roots resolve from the disk as it is after j writes of the last commit
  get <h> | view <h> | dview <h>

The observed write sequence on `commit`/`fail` is used only to find the
iteration order Go's map gave the external children at every visit (`pickOrder`
ignores anything that is not a re-ordering); the answer printed is what the
model's `commitV` computes with those orders.
-/
namespace Rangers.Drive.C03
open Rangers Rangers.Model.TrieDB Rangers.Generated

structure DS where
  st : St
  prevDisk : Disk
  lastCache : Cache
  lastBatches : List (List Hash)
  /-- `insl?` candidates: account-leaf nodes that were already cached when a later
      `state.Commit` produced them again; the leaf callback ran again iff the hasher
      stored the node again, which the exported API does not show -/
  pending : List (Hash × CNode × Hash × Hash)

def DS.init : DS := ⟨St.empty, [], [], [], []⟩

def hashOf? (s : String) : Option Hash := (ofHex? s).map beToNat

def hashList? (s : String) : Option (List Hash) :=
  if s == "-" then some [] else (s.splitOn ",").mapM hashOf?

def showHash (h : Hash) : String := toHex (padLeft 7 (natToBE h))

def showBatch (b : List Hash) : String :=
  if b.isEmpty then "-" else ",".intercalate (b.map showHash)

def showBatches (bs : List (List Hash)) : String :=
  if bs.isEmpty then "none" else ";".intercalate (bs.map showBatch)

def batches? (s : String) : Option (List (List Hash)) :=
  if s == "none" then some [] else (s.splitOn ";").mapM hashList?

def emptyH : Hash := TrieDbFacts.emptyDataPrefix7

def perms {α : Type} : List α → List (List α)
  | [] => [[]]
  | x :: xs => (perms xs).flatMap fun p => (List.range (p.length + 1)).map fun i => p.take i ++ [x] ++ p.drop i

structure MS where
  rest : List Hash
  trunc : Bool
  ord : List (Hash × List Hash)

/-- find an iteration order of the external children under which the walk
    reproduces the observed Put sequence (driver-side search, not part of the model). -/
partial def matchWalk (c : Cache) (h : Hash) (ms : MS) : Option MS :=
  match c.lookup h with
  | none => some ms
  | some n =>
    if ms.rest.isEmpty && ms.trunc then some ms else
    let cachedExt := n.ext.filter fun x => (c.lookup x).isSome
    let other := n.ext.filter fun x => (c.lookup x).isNone
    let cands := if cachedExt.length ≤ 1 || cachedExt.length > 4 then [cachedExt] else perms cachedExt
    cands.findSome? fun p =>
      -- the order of this visit is recorded when the visit starts: `ord` ends up (reversed) in visit order
      match (p ++ n.inner).foldlM (fun m x => matchWalk c x m) { ms with ord := (h, p ++ other) :: ms.ord } with
      | none => none
      | some m1 =>
        match m1.rest with
        | [] => if m1.trunc then some m1 else none
        | x :: rest => if x == h then some { m1 with rest := rest } else none

def applyOrd (s : St) (ord : List (Hash × List Hash)) : St :=
  ord.foldl (fun s ho => (Rangers.Model.TrieDB.step emptyH emptyH s (.reorder ho.1 ho.2)).getD s) s

def resFlag (d : Disk) (h : Hash) : String :=
  match resolve (diskGet d) (d.length + 1) h with
  | .ok => "r"
  | .fuel => "F"
  | .missing => if (d.lookup h).isSome then "p" else "x"

def doIns (ds : DS) (h : Hash) (n : CNode) (leaf : Option (Hash × Hash)) : DS × String :=
  let was := (ds.st.cache.lookup h).isSome
  match Rangers.Model.TrieDB.step emptyH emptyH ds.st (.store h n leaf) with
  | none => (ds, "PANIC")
  | some s' =>
    if was then ({ ds with st := s' }, "dup") else
    let pre := storeCheck ds.st.disk s'.cache h n
    ({ ds with st := s' }, if pre then "ok" else "ok!pre")

/-- the orders Go's runtime picked, one per visit of a cached node in visit order, found by
    matching the observed Put sequence; the answer is what the model's `commitV` computes with them. -/
def doCommit (ds : DS) (root : Hash) (failAt : Option Nat) (observed : List Hash) (trunc : Bool) : DS × String :=
  let ords : Ords := match matchWalk ds.st.cache root ⟨observed, trunc, []⟩ with
    | some ms => ms.ord.reverse
    | none => []
  match commitV ds.st root failAt (ds.st.cache.length + 1) ords,
        Rangers.Model.TrieDB.step emptyH emptyH ds.st (.commitV root failAt ords) with
  | some out, some s' =>
    ({ ds with st := s', prevDisk := ds.st.disk, lastCache := ds.st.cache, lastBatches := out.written },
     (if out.ok then "ok " else "err ") ++ showBatches out.written)
  | _, _ => (ds, "diverges")

/-- `commit?` / `fail?`: used by the harness while the memory cache holds nodes
    left over from a failed commit of an earlier block.  Whether the leaf
    callback ran again for such a node is not observable through the exported
    API, so the model's external references may lag behind.  If the model's
    batches equal the observed ones they are printed as usual; otherwise the
    observed writes are applied to the model state and the op is `unmodelled`. -/
def doCommitLoose (ds : DS) (root : Hash) (failAt : Option Nat) (obs : List (List Hash)) (refused : List Hash) : DS × String :=
  let (ds1, ans) := doCommit ds root failAt (obs.flatten ++ refused) failAt.isSome
  let want := (if failAt.isSome then "err " else "ok ") ++ showBatches obs
  if ans == want then (ds1, ans) else
  let disk' := applyBatches ds.st.cache ds.st.disk obs
  let cache' := if failAt.isSome then ds.st.cache else uncache ds.st.cache obs.flatten
  ({ ds with st := ⟨cache', disk'⟩, prevDisk := ds.st.disk, lastCache := ds.st.cache, lastBatches := obs }, "unmodelled")

def doCommitStrict (ds : DS) (root : Hash) (failAt : Option Nat) (obs : List (List Hash)) (refused : List Hash) : DS × String :=
  doCommit ds root failAt (obs.flatten ++ refused) failAt.isSome

def subsetsOf {α : Type} : List α → List (List α)
  | [] => [[]]
  | x :: xs => let r := subsetsOf xs; r ++ r.map (x :: ·)

/-- Resolve the `insl?` candidates against the observed writes: each candidate
    is either a real `store` step (the hasher stored the node again, so the leaf
    callback ran again) or no step at all; both are behaviours of the code, the
    observed Put sequence tells which one happened.  Every state change still
    goes through `step`. -/
def withPending (ds : DS) (want : String) (keep : Bool) (run : DS → DS × String) : DS × String :=
  if ds.pending.isEmpty then run ds else
  -- a refused commit shows only a prefix of the Put sequence, which may not reach the place
  -- where a candidate would matter: the candidates stay undecided until a commit completes
  -- (re-applying one is idempotent: the insert is a no-op, the reference exists already)
  let fin := fun (r : DS × String) => if keep then ({ r.1 with pending := ds.pending }, r.2) else r
  fin <|
  let base := { ds with pending := [] }
  let cands := if ds.pending.length ≤ 8 then subsetsOf ds.pending else [[], ds.pending]
  let tryOne := fun (sub : List (Hash × CNode × Hash × Hash)) =>
    let st' := sub.foldl (fun st c =>
      (Rangers.Model.TrieDB.step emptyH emptyH st (.store c.1 c.2.1 (some (c.2.2.1, c.2.2.2)))).getD st) base.st
    let r := run { base with st := st' }
    if r.2 == want then some r else none
  match cands.findSome? tryOne with
  | some r => r
  | none => run base

def lineStep (ds : DS) (line : String) : DS × String :=
  match splitWords line with
  | ["reset"] => (DS.init, "ok")
  | ["die"] => ({ ds with pending := [], st := (Rangers.Model.TrieDB.step emptyH emptyH ds.st .die).getD ds.st }, "ok")
  | ["ins", h, _, size, tag, inner, need] =>
    match hashOf? h, size.toNat?, tag.toNat?, hashList? inner, hashList? need with
    | some h, some sz, some tg, some inn, some nd => doIns ds h ⟨sz, tg, inn, [], nd⟩ none
    | _, _, _, _, _ => (ds, "bad-op")
  | ["insl", h, _, size, tag, inner, need, root, code] =>
    match hashOf? h, size.toNat?, tag.toNat?, hashList? inner, hashList? need, hashOf? root, hashOf? code with
    | some h, some sz, some tg, some inn, some nd, some r, some cd => doIns ds h ⟨sz, tg, inn, [], nd⟩ (some (r, cd))
    | _, _, _, _, _, _, _ => (ds, "bad-op")
  | ["insl?", h, _, size, tag, inner, need, root, code] =>
    match hashOf? h, size.toNat?, tag.toNat?, hashList? inner, hashList? need, hashOf? root, hashOf? code with
    | some h, some sz, some tg, some inn, some nd, some r, some cd =>
      ({ ds with pending := ds.pending ++ [(h, ⟨sz, tg, inn, [], nd⟩, r, cd)] }, "ok")
    | _, _, _, _, _, _, _ => (ds, "bad-op")
  | ["ref", child, parent] =>
    match hashOf? child, hashOf? parent with
    | some ch, some p =>
      match Rangers.Model.TrieDB.step emptyH emptyH ds.st (.ref ch p) with
      | none => (ds, "PANIC")
      | some s' => ({ ds with st := s' }, "ok")
    | _, _ => (ds, "bad-op")
  | ["commit", root, obs] =>
    match hashOf? root, batches? obs with
    | some r, some bs => withPending ds ("ok " ++ showBatches bs) false fun d => doCommitStrict d r none bs []
    | _, _ => (ds, "bad-op")
  | ["fail", root, k, obs, refused] =>
    match hashOf? root, k.toNat?, batches? obs, hashList? refused with
    | some r, some k, some bs, some rf => withPending ds ("err " ++ showBatches bs) true fun d => doCommitStrict d r (some k) bs rf
    | _, _, _, _ => (ds, "bad-op")
  | ["commit?", root, obs] =>
    match hashOf? root, batches? obs with
    | some r, some bs => withPending ds ("ok " ++ showBatches bs) false fun d => doCommitLoose d r none bs []
    | _, _ => (ds, "bad-op")
  | ["fail?", root, k, obs, refused] =>
    match hashOf? root, k.toNat?, batches? obs, hashList? refused with
    | some r, some k, some bs, some rf => withPending ds ("err " ++ showBatches bs) true fun d => doCommitLoose d r (some k) bs rf
    | _, _, _, _ => (ds, "bad-op")
  | ["obj", sui, dirty, empty, del] =>
    -- the per-object step of AccountDB.Commit (Model/StateCommit.lean) on the flags observed before the commit
    match sui.toNat?, dirty.toNat?, empty.toNat?, del.toNat? with
    | some s, some d, some e, some dl =>
      match Rangers.Model.StateCommit.commitAction (dl != 0) ⟨s != 0, d != 0, e != 0⟩ with
      | .delete => (ds, "gone")
      | .none => (ds, "kept-same")
      | .update => (ds, "kept")
    | _, _, _, _ => (ds, "bad-op")
  | ["prefix", j, roots] =>
    match j.toNat?, hashList? roots with
    | some j, some rs =>
      let d := applyBatches ds.lastCache ds.prevDisk (ds.lastBatches.take j)
      (ds, ",".intercalate (rs.map (resFlag d)))
    | _, _ => (ds, "bad-op")
  | ["get", h] =>
    match hashOf? h with
    | some h => match liveLookup ds.st h with
      | some n => (ds, toString n.size ++ " " ++ toString n.tag)
      | none => (ds, "none")
    | none => (ds, "bad-op")
  | ["view", h] =>
    match hashOf? h with
    | some h => match view (liveLookup ds.st) (ds.st.cache.length + ds.st.disk.length + 1) h with
      | some v => (ds, "n=" ++ toString v.1 ++ " s=" ++ toString v.2)
      | none => (ds, "missing")
    | none => (ds, "bad-op")
  | ["dview", h] =>
    match hashOf? h with
    | some h => match view (diskGet ds.st.disk) (ds.st.disk.length + 1) h with
      | some v => (ds, "n=" ++ toString v.1 ++ " s=" ++ toString v.2)
      | none => (ds, "missing")
    | none => (ds, "bad-op")
  | _ => (ds, "bad-op")

def run : IO Unit := runLines DS.init lineStep
end Rangers.Drive.C03
