import Rangers.Basic.Hex
import Rangers.Basic.Line
import Rangers.Model.Pool
import Rangers.Model.PoolChain
/-!
Line-protocol driver for the transaction pool model (C17).

```
cfg <p016> <p018> <p021> <p023> <limit>   new script: empty pool (limit 0 = rcvTxPoolSize), no txs, no nonces
tx <id> <hash> <src> <nonce> <req> <gate> declare transaction object <id>
nonce <src> <n>                           stateDB.SetNonce(HexToAddress(src), n)
add <id> | addnil                         AddTransaction
pack                                      PackForCast                      -> "<n> tag,tag,…"
mark <rids> <tids> <eids>                 MarkExecuted(receipts of rids, txs tids, evicted hashes of eids)
unmark <tids> <eids>                      UnMarkExecuted(block{txs, evicted})
get|has|exec <id>                         GetTransaction / IsExisted / GetExecuted != nil (by hash of <id>)
expire                                    simpleContainer.growRing
stat                                      "<TxNum> <IsFull> <GetGateNonce> <received tags>"
less <a> <b>                              Transactions{a,b}.Less(0,1)
sort <ids>                                sort.Sort(Transactions(ids))
```
-/
namespace Rangers.Drive.C17
open Rangers Rangers.Pool

structure St where
  cfg : Cfg := ⟨true, true, true, true⟩
  pool : Pool := Pool.empty rcvTxPoolSize
  sigma : List (Nat × Nat) := []
  table : List (Nat × Tx) := []
  chain : List Chain.CBlock := []     -- `mode=chain`: the canonical chain as the model sees it
  future : List Nat := []

def sigmaFn (l : List (Nat × Nat)) (a : Nat) : Nat :=
  match l with
  | [] => 0
  | (k, v) :: r => if k = a then v else sigmaFn r a

def lookupTx (tb : List (Nat × Tx)) (id : Nat) : Option Tx :=
  match tb with
  | [] => none
  | (k, v) :: r => if k = id then some v else lookupTx r id

def parseBool (s : String) : Option Bool :=
  if s == "1" then some true else if s == "0" then some false else none

def parseIds (s : String) : Option (List Nat) :=
  if s == "-" then some [] else (s.splitOn ",").mapM (fun w => w.toNat?)

def idsToTxs (tb : List (Nat × Tx)) (ids : List Nat) : Option (List Tx) := ids.mapM (lookupTx tb)

def showTags (l : List Tx) : String :=
  if l.isEmpty then "-" else ",".intercalate (l.map (fun t => toString t.tag))

def showBool (b : Bool) : String := if b then "true" else "false"

def step (st : St) (line : String) : St × String :=
  match splitWords line with
  | ["cfg", a, b, c, d, lim] =>
    match parseBool a, parseBool b, parseBool c, parseBool d, lim.toNat? with
    | some a, some b, some c, some d, some lim =>
      -- the hook empties the live pool; which store `executed` and `batch` are bound to survives it
      ({ cfg := ⟨a, b, c, d⟩,
         pool := { Pool.empty (if lim = 0 then rcvTxPoolSize else lim) with detached := st.pool.detached, shared := st.pool.shared },
         sigma := [], table := [] }, "ok")
    | _, _, _, _, _ => (st, "bad-op")
  | ["tx", id, h, s, n, r, g] =>
    match id.toNat?, ofHex? h, ofHex? s, n.toNat?, r.toNat?, g.toNat? with
    | some id, some h, some s, some n, some r, some g =>
      if h.length ≠ 32 ∨ n ≥ u64 ∨ r ≥ u64 ∨ g ≥ u64 then (st, "bad-op")
      else ({ st with table := (id, ⟨id, beToNat h, s, n, r, g⟩) :: st.table }, "ok")
    | _, _, _, _, _, _ => (st, "bad-op")
  | ["nonce", s, n] =>
    match ofHex? s, n.toNat? with
    | some s, some n => if n ≥ u64 then (st, "bad-op") else ({ st with sigma := (addrOf s, n) :: st.sigma }, "ok")
    | _, _ => (st, "bad-op")
  | ["add", id] =>
    match id.toNat? >>= lookupTx st.table with
    | some t =>
      match st.pool.addTransaction t with
      | (p, .ok) => ({ st with pool := p }, "ok")
      | (p, .exist) => ({ st with pool := p }, "exist")
    | none => (st, "bad-op")
  | ["addnil"] => (st, "nil")
  | ["pack"] =>
    if st.cfg.p018 then
      match goSort st.cfg st.pool.txs with
      | none => (st, "PANIC")
      | some sorted =>
        if sortDetermined st.cfg st.pool.txs sorted then
          match st.pool.pack st.cfg (sigmaFn st.sigma) with
          | some l => (st, toString l.length ++ " " ++ showTags l)
          | none => (st, "PANIC")
        else (st, "unmodelled")
    else
      match st.pool.pack st.cfg (sigmaFn st.sigma) with
      | some l => (st, toString l.length ++ " " ++ showTags l)
      | none => (st, "PANIC")
  | ["mark", r, t, e] =>
    match parseIds r >>= idsToTxs st.table, parseIds t >>= idsToTxs st.table, parseIds e >>= idsToTxs st.table with
    | some r, some t, some e =>
      match st.pool.markExecuted (r.map (·.hash)) t (e.map (·.hash)) with
      | (p, false) => ({ st with pool := p }, "ok")
      | (p, true) => ({ st with pool := p }, "PANIC")
    | _, _, _ => (st, "bad-op")
  | ["unmark", t, e] =>
    match parseIds t >>= idsToTxs st.table, parseIds e >>= idsToTxs st.table with
    | some t, some e => ({ st with pool := st.pool.unmarkE t (e.map (·.hash)) }, "ok")
    | _, _ => (st, "bad-op")
  | ["markz", k, r, t, e, z] =>
    -- MarkExecuted with record sizes; k = 0: no crash, k > 0: process death before the k-th physical write
    match k.toNat?, parseIds r >>= idsToTxs st.table, parseIds t >>= idsToTxs st.table, parseIds e >>= idsToTxs st.table, parseIds z with
    | some k, some r, some t, some e, some z =>
      if z.length ≠ r.length then (st, "bad-op")
      else
        match st.pool.markExecutedZ ((r.map (·.hash)).zip z) t (e.map (·.hash)) (if k = 0 then none else some k) with
        | (p, ws, res) =>
          let w := if ws.isEmpty then "-" else ",".intercalate (ws.map toString)
          ({ st with pool := p }, (match res with | .ok => "ok " | .panic => "PANIC " | .crash => "crash ") ++ w)
    | _, _, _, _, _ => (st, "bad-op")
  | ["evq", id] =>
    match id.toNat? >>= lookupTx st.table with
    | some t => (st, showBool (st.pool.evicted.contains t.hash))
    | none => (st, "bad-op")
  | ["genesis", id] =>
    match ofHex? id with
    | some h => ({ st with chain := [⟨beToNat h, 0, 0, 0, 0, [], [], []⟩], future := [] }, "ok")
    | none => (st, "bad-op")
  | ["deliver", id, pre, h, qn, pv, t, sk, e] =>
    -- AddBlockOnChain(block): the model decides the fork choice and makes the pool calls itself
    match ofHex? id, ofHex? pre, h.toNat?, qn.toNat?, pv.toNat?, parseIds t >>= idsToTxs st.table,
        parseIds sk >>= idsToTxs st.table, parseIds e >>= idsToTxs st.table with
    | some id, some pre, some h, some qn, some pv, some t, some sk, some e =>
      let b : Chain.CBlock := ⟨beToNat id, beToNat pre, h, qn, pv, t, sk.map (·.hash), e.map (·.hash)⟩
      match Chain.addBlock ⟨st.pool, st.chain, st.future⟩ b with
      | (c, r) =>
        if r == .succ && st.future.contains b.id then (st, "unmodelled")
        else ({ st with pool := c.pool, chain := c.chain, future := c.future }, toString r.code)
    | _, _, _, _, _, _, _, _ => (st, "bad-op")
  | ["clear"] => ({ st with pool := st.pool.clear }, "ok")
  | ["restart"] => ({ st with pool := st.pool.restart }, "ok")
  | ["get", id] =>
    match id.toNat? >>= lookupTx st.table with
    | some t =>
      match st.pool.get t.hash with
      | .pending u => (st, "pending " ++ toString u.tag)
      | .executed (some u) => (st, "executed " ++ toHex u.src ++ " " ++ toString u.nonce ++ " " ++ toString u.req)
      | .executed none => (st, "executed - 0 0")
      | .nil => (st, "nil")
    | none => (st, "bad-op")
  | ["has", id] =>
    match id.toNat? >>= lookupTx st.table with
    | some t => (st, showBool (st.pool.existed t.hash))
    | none => (st, "bad-op")
  | ["exec", id] =>
    match id.toNat? >>= lookupTx st.table with
    | some t => (st, showBool (st.pool.isExecuted t.hash))
    | none => (st, "bad-op")
  | ["expire"] => ({ st with pool := st.pool.expire }, "ok")
  | ["stat"] =>
    (st, toString st.pool.pending.length ++ " " ++ showBool (decide (st.pool.pending.length ≥ st.pool.limit)) ++ " "
      ++ toString st.pool.gate ++ " " ++ showTags st.pool.txs)
  | ["less", a, b] =>
    match a.toNat? >>= lookupTx st.table, b.toNat? >>= lookupTx st.table with
    | some a, some b =>
      match lessRes st.cfg a b with
      | .lt => (st, "true")
      | .ge => (st, "false")
      | .panic => (st, "PANIC")
    | _, _ => (st, "bad-op")
  | ["sort", ids] =>
    match parseIds ids >>= idsToTxs st.table with
    | some l =>
      match goSort st.cfg l with
      | none => (st, "PANIC")
      | some sorted => if sortDetermined st.cfg l sorted then (st, showTags sorted) else (st, "unmodelled")
    | none => (st, "bad-op")
  | _ => (st, "bad-op")

def run : IO Unit := runLines ({} : St) step
end Rangers.Drive.C17
