import Rangers.Basic.Hex
import Rangers.Basic.Line
import Rangers.Model.VrfSha512
import Rangers.Model.VrfCurve
import Rangers.Model.Vrf
import Rangers.Model.Qn
import Rangers.Model.VrfMsg
import Rangers.Model.VrfFlow
import Rangers.Generated.C16Facts
/- Line-protocol driver for property C16 (see design/C16.md for the op list). -/
namespace Rangers.Drive.C16
open Rangers Rangers.Model

def params : Qn.Params :=
  { maxQN := Generated.C16Facts.maxQN
    potentialProposal := Generated.C16Facts.potentialProposal
    potentialProposalMax := Generated.C16Facts.potentialProposalMax
    potentialProposalIndex := Generated.C16Facts.potentialProposalIndex }

def showQn : Qn.QnOut → String
  | .panic => "PANIC"
  | .undefined => "unmodelled"
  | .val q => toString q

def showFrac (f : Qn.Frac) : String :=
  let g := Nat.gcd f.num.natAbs f.den
  let g := if g = 0 then 1 else g
  let n := f.num / (g : Int)
  let d := f.den / g
  if d = 1 then toString n else toString n ++ "/" ++ toString d

def hexs (xs : List String) : Option (List Bytes) := xs.mapM ofHex?

def onCurve (pk : Bytes) : Bool := (VrfCurve.fromBytes (VrfCurve.fit 32 pk)).2

def showVerify (pk : Bytes) (r : Except Vrf.Err Bool) : String :=
  match r with
  | .error _ => "err-decode"
  | .ok b => if b then "true" else "false"

def step (_ : Unit) (line : String) : Unit × String :=
  let ans : String :=
    match splitWords line with
    | ["sha512", m] => match ofHex? m with
      | some m => toHex (VrfSha512.sha512 m)
      | none => "bad-op"
    | ["sha3", m] => match ofHex? m with
      | some m => toHex (VrfMsg.sha3_256 m)
      | none => "bad-op"
    | ["cdelta", ns] => match ns.toInt? with
      | some ns => match VrfMsg.calDelta ns with
        | some d => toString d
        | none => "unmodelled"
      | none => "bad-op"
    | ["vmsg", r, d] => match ofHex? r, d.toInt? with
      | some r, some d => if d > 300 then "bad-op" else toHex (VrfMsg.genVrfMsg r d)
      | _, _ => "bad-op"
    | ["vbp", thr, pk, pv, rnd, ns, _preTime, h, w, t, tq, ptq] =>
      -- the header's own PreTime field is not an input of the model: the message is built from the parent's
      -- random and (CurTime − parent.CurTime) only
      match thr.toNat?, hexs [pk, pv, rnd], ns.toInt?, h.toNat?, w.toNat?, t.toNat?, tq.toNat?, ptq.toNat? with
      | some thr, some [pk, pv, rnd], some ns, some h, some w, some t, some tq, some ptq =>
        if h < Qn.two64 ∧ w < Qn.two64 ∧ t < Qn.two64 ∧ tq < Qn.two64 ∧ ptq < Qn.two64 then
          match VrfMsg.blockMsg rnd ns with
          | none => "unmodelled"
          | some msg =>
            match Qn.verifyBlockVRF params thr pk (beToNat pv) msg h w t tq ptq with
            | .verifyErr _ => "err-decode"
            | .verifyFalse => "false"
            | .notSatisfy => "not-satisfy"
            | .qnError => "qn-error"
            | .panic => "PANIC"
            | .undefined => "unmodelled"
            | .ok => "ok"
        else "bad-op"
      | _, _, _, _, _, _, _, _ => "bad-op"
    | ["vbt", thr, pk, pv, rnd, ns, h, w, t, tq, ptq] =>
      match thr.toNat?, hexs [pk, pv, rnd], ns.toInt?, h.toNat?, w.toNat?, t.toNat?, tq.toNat?, ptq.toNat? with
      | some thr, some [pk, pv, rnd], some ns, some h, some w, some t, some tq, some ptq =>
        if h < Qn.two64 ∧ w < Qn.two64 ∧ t < Qn.two64 ∧ tq < Qn.two64 ∧ ptq < Qn.two64 then
          match VrfMsg.blockMsg rnd ns with
          | none => "unmodelled"
          | some msg =>
            match Qn.verifyBlockVRF params thr pk (beToNat pv) msg h w t tq ptq with
            | .verifyErr _ => "err-decode"
            | .verifyFalse => "false"
            | .notSatisfy => "not-satisfy"
            | .qnError => "qn-error"
            | .panic => "PANIC"
            | .undefined => "unmodelled"
            | .ok => "ok"
        else "bad-op"
      | _, _, _, _, _, _, _, _ => "bad-op"
    | ["genkey", seed] => match ofHex? seed with
      | some seed => if seed.length ≠ 32 then "bad-op" else
        let r := VrfFlow.genKey seed
        toHex r.1 ++ " " ++ toHex r.2
      | none => "bad-op"
    | ["thr", p025] => match p025.toNat? with
      | some p => if p < Qn.two64 then toString (VrfFlow.threshold p) else "bad-op"
      | none => "bad-op"
    | ["gp", thr, sk, rnd, ns, bh, w, t] =>
      match thr.toNat?, hexs [sk, rnd], ns.toInt?, bh.toNat?, w.toNat?, t.toNat? with
      | some thr, some [sk, rnd], some ns, some bh, some w, some t =>
        if bh < Qn.two64 ∧ w < Qn.two64 ∧ t < Qn.two64 then
          match VrfFlow.genProve params thr sk rnd ns bh w t with
          | .proveErr => "err-sk"
          | .proofFail => "proof-fail"
          | .panic => "PANIC"
          | .unmodelled => "unmodelled"
          | .ok pi qn => "ok " ++ toHex pi ++ " " ++ toString qn
        else "bad-op"
      | _, _, _, _, _, _ => "bad-op"
    | ["pad", h] => match ofHex? h with
      | some b => toHex (Vrf.tryZeroPadding b) ++ " " ++ toHex (Vrf.tryZeroPadding b)
      | none => "bad-op"
    | ["transport", h] => match ofHex? h with
      | some b =>
        let t := Vrf.ofBig (Vrf.toBig b)
        toHex t ++ " " ++ toHex (Vrf.tryZeroPadding t)
      | none => "bad-op"
    | ["canon", h] => match ofHex? h with
      | some b => if b.length = 32 then toString (VrfCurve.isCanonical b).toNat else "bad-op"
      | none => "bad-op"
    | ["s2p", h] => match ofHex? h with
      | some b => if b.length ≠ 32 then "bad-op" else
        match VrfCurve.stringToPoint b with
        | some pt => "ok " ++ toHex (VrfCurve.encode pt)
        | none => "fail"
      | none => "bad-op"
    | ["funi", h] => match ofHex? h with
      | some b => if b.length = 32 then toHex (VrfCurve.fromUniform b) else "bad-op"
      | none => "bad-op"
    | ["h2c", m, pk] => match hexs [m, pk] with
      | some [m, pk] => toHex (VrfCurve.hashToCurve m pk)
      | _ => "bad-op"
    | ["expand", sk] => match ofHex? sk with
      | some sk => if sk.length ≠ 64 then "bad-op" else
        let r := VrfCurve.expandSecret sk
        toHex (VrfCurve.natToLE 32 r.1) ++ " " ++ toHex r.2
      | none => "bad-op"
    | ["nonce", t, h] => match hexs [t, h] with
      | some [t, h] => if t.length = 32 ∧ h.length = 32 then toHex (VrfCurve.natToLE 32 (VrfCurve.nonce t h)) else "bad-op"
      | _ => "bad-op"
    | ["hpts", a, b, c, d] => match hexs [a, b, c, d] with
      | some [a, b, c, d] =>
        if a.length = 32 ∧ b.length = 32 ∧ c.length = 32 ∧ d.length = 32 then
          let f := fun x => (VrfCurve.fromBytes x).1
          toHex (VrfCurve.hashPoints (f a) (f b) (f c) (f d))
        else "bad-op"
      | _ => "bad-op"
    | ["smul", k, a] => match hexs [k, a] with
      | some [k, a] =>
        if k.length = 32 ∧ a.length = 32 then
          toHex (VrfCurve.encode (VrfCurve.smul (VrfCurve.leToNat k) (VrfCurve.fromBytes a).1))
        else "bad-op"
      | _ => "bad-op"
    | ["slide", k] => match ofHex? k with
      | some k => if k.length = 32 then
          String.intercalate "," ((VrfCurve.slide (VrfCurve.leToNat k)).map toString) else "bad-op"
      | none => "bad-op"
    | ["smulb", k] => match ofHex? k with
      | some k => if k.length = 32 then toHex (VrfCurve.encode (VrfCurve.smulBase (VrfCurve.leToNat k))) else "bad-op"
      | none => "bad-op"
    | ["prove", sk, m] => match hexs [sk, m] with
      | some [sk, m] => match Vrf.prove sk m with
        | .ok pi => "ok " ++ toHex pi
        | .error _ => "err-sk"
      | _ => "bad-op"
    | ["verify", pk, pi, m] => match hexs [pk, pi, m] with
      | some [pk, pi, m] => showVerify pk (Vrf.verify pk pi m)
      | _ => "bad-op"
    | ["p2h", pi] => match ofHex? pi with
      | some pi => match Vrf.proof2Hash pi with
        | some h => toHex h
        | none => "PANIC"
      | none => "bad-op"
    | ["p2v", pv] => match ofHex? pv with
      | some pv => match Vrf.prove2Value (beToNat pv) with
        | some v => toString v
        | none => "PANIC"
      | none => "bad-op"
    | ["pp", t] => match t.toNat? with
      | some t => if t < Qn.two64 then toString (Qn.calcPotentialProposal params t) else "bad-op"
      | none => "bad-op"
    | ["sr", d, t] => match d.toNat?, t.toNat? with
      | some d, some t => if d < Qn.two64 ∧ t < Qn.two64 then
          match Qn.calcStakeRatio params d t with
          | some f => showFrac f
          | none => "PANIC"
        else "bad-op"
      | _, _ => "bad-op"
    | ["qnr", vn, vd, sn, sd] => match vn.toNat?, vd.toNat?, sn.toInt?, sd.toNat? with
      | some vn, some vd, some sn, some sd =>
        if vd = 0 ∨ sd = 0 then "bad-op" else showQn (Qn.calQn params ⟨vn, vd⟩ ⟨sn, sd⟩)
      | _, _, _, _ => "bad-op"
    | ["qn", thr, pr, h, w, t] => match thr.toNat?, ofHex? pr, h.toNat?, w.toNat?, t.toNat? with
      | some thr, some pr, some h, some w, some t =>
        if h < Qn.two64 ∧ w < Qn.two64 ∧ t < Qn.two64 then
          match Qn.validateProve params thr pr h w t with
          | .noStake => "false 0"
          | .panic => "PANIC"
          | .res _ .undefined => "unmodelled"
          | .res ok q => toString ok ++ " " ++ showQn q
        else "bad-op"
      | _, _, _, _, _ => "bad-op"
    | ["vbv", thr, pk, pv, msg, h, w, t, tq, ptq] =>
      match thr.toNat?, hexs [pk, pv, msg], h.toNat?, w.toNat?, t.toNat?, tq.toNat?, ptq.toNat? with
      | some thr, some [pk, pv, msg], some h, some w, some t, some tq, some ptq =>
        if h < Qn.two64 ∧ w < Qn.two64 ∧ t < Qn.two64 ∧ tq < Qn.two64 ∧ ptq < Qn.two64 then
          match Qn.verifyBlockVRF params thr pk (beToNat pv) msg h w t tq ptq with
          | .verifyErr _ => "err-decode"
          | .verifyFalse => "false"
          | .notSatisfy => "not-satisfy"
          | .qnError => "qn-error"
          | .panic => "PANIC"
          | .undefined => "unmodelled"
          | .ok => "ok"
        else "bad-op"
      | _, _, _, _, _, _, _ => "bad-op"
    | _ => "bad-op"
  ((), ans)

def run : IO Unit := runLines () step
end Rangers.Drive.C16
