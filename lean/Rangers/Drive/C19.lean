import Rangers.Basic.Hex
import Rangers.Basic.Line
import Rangers.Model.GroupChain
/-!
Line-protocol driver for C19 (group chain). One op per line:

  boot <id,pre,parent,create> …      wipe store + mirror, run start-up with these genesis groups
  add <id> <pre> <parent> <create>   AddGroup
  rmlast                             remove(LastGroup())
  rmto <h>                           removeFromCommonAncestor(GroupHeight = h)
  restart                            drop memory, run start-up on the store
  crash <k> add …|rmlast|rmto <h>    the op with only k physical writes let through, then restart
  fault <j> add …|rmlast|rmto <h>    the op with its j-th physical write (from 0) failing with an error
  sqlfault ins|del <id> <mutator>    the op while the sqlite insert / delete for group <id> fails, then restart
  forkput <key>                      Put(key, 0x01) on the store with prefix "groupFork" (shared key space)
  cadd <id> <pre> <parent> <create>  AddGroup that ran concurrently with another one (answer: result only)
  count | last | byheight <i> | byid <x> | iter | sync <x> | syncat <h> <n> | dump | mirror
  below <x> (getFirstGroupBelowHeight) | top (height()) | avail <h> | availm <h> <miner>
  switch <h> <id,pre,parent,create[,members]> …   groupChainFork.triggerOnChain from the ancestor at height h
  addnil | rmnil | addrej <id> <pre> <parent> <create>   AddGroup(nil), remove(nil), AddGroup of a group CheckGroup refuses
  config duration <n>                  common.GetGroupWorkDuration() of the node (AddGroup's header rewrite)

Answers: see `harness/cmd/c19/main.go` (same formats, produced from the real code).
-/
namespace Rangers.Drive.C19
open Rangers Rangers.Model.GroupChain

structure DState where
  /-- `none`: nothing booted yet, or the model does not interpret the state (→ `unmodelled`). -/
  boot : Option Boot := none
  genesis : List Group := []
  /-- `common.GetGroupWorkDuration()` of the node under test (line `config duration <n>`) -/
  dur : Nat := 0

def gstr (g : Group) : String :=
  toHex g.id ++ ":" ++ toHex g.pre ++ ":" ++ toHex g.parent ++ ":" ++ toString g.height ++ ":" ++ toString g.create

def ogstr : Option Group → String
  | some g => gstr g
  | none => "nil"

def status (c : Chain) : String := toString c.count ++ " " ++ toHex c.last.id

def bytesLt : Bytes → Bytes → Bool
  | [], [] => false
  | [], _ :: _ => true
  | _ :: _, [] => false
  | a :: as, b :: bs => if a < b then true else if b < a then false else bytesLt as bs

def insertSorted {α : Type} (key : α → Bytes) (x : α) : List α → List α
  | [] => [x]
  | y :: ys => if bytesLt (key x) (key y) then x :: y :: ys else y :: insertSorted key x ys

def sortBy {α : Type} (key : α → Bytes) (l : List α) : List α := l.foldl (fun acc x => insertSorted key x acc) []

def valStr : Val → String
  | .grp g => "g:" ++ gstr g
  | .ref id => "r:" ++ toHex id
  | .cnt n => "c:" ++ toString n

def dumpStr (d : Store) : String :=
  let es := sortBy (fun (e : Bytes × Val) => e.1) d
  if es.isEmpty then "empty" else " ".intercalate (es.map (fun e => toHex e.1 ++ "=" ++ valStr e.2))

def mirrorStr (m : List Bytes) : String :=
  toString m.length ++ (String.join ((sortBy id m).map (fun x => " " ++ toHex x)))

def listStr (l : List String) : String := if l.isEmpty then "none" else " ".intercalate l

def parseNat? (s : String) : Option Nat := if s.isEmpty then none else s.toNat?

def parseGroup4 (a b c d : String) : Option Group := do
  let id ← ofHex? a
  let pre ← ofHex? b
  let parent ← ofHex? c
  let create ← parseNat? d
  pure { id := id, pre := pre, parent := parent, height := 0, create := create }

def parseMembers (s : String) : Option (List Bytes) :=
  if s == "-" then some [] else (s.splitOn "+").mapM ofHex?

/-- Genesis groups are saved as given: the harness builds them with `DismissHeight = MaxUint64`
    unless the token carries a fifth field (dismiss) and a sixth (members, `+`-separated). -/
def parseGenesis (tok : String) : Option Group :=
  match tok.splitOn "," with
  | [a, b, c, d] => (parseGroup4 a b c d).map (fun g => { g with dismiss := 18446744073709551615 })
  | [a, b, c, d, e] => do
    let g ← parseGroup4 a b c d
    let dm ← parseNat? e
    pure { g with dismiss := dm }
  | [a, b, c, d, e, m] => do
    let g ← parseGroup4 a b c d
    let dm ← parseNat? e
    let ms ← parseMembers m
    pure { g with dismiss := dm, members := ms }
  | _ => none

/-- A group handed to `AddGroup`: its header is rewritten (`prepare`) when it is accepted. -/
def parseAdd (dur : Nat) (a b c d : String) : Option Group := (parseGroup4 a b c d).map (prepare dur)

/-- A fork group `id,pre,parent,create[,members]`. -/
def parseForkGroup (tok : String) : Option Group :=
  match tok.splitOn "," with
  | [a, b, c, d] => parseGroup4 a b c d
  | [a, b, c, d, m] => do
    let g ← parseGroup4 a b c d
    let ms ← parseMembers m
    pure { g with members := ms }
  | _ => none

def parseAll {α : Type} (f : String → Option α) : List String → Option (List α)
  | [] => some []
  | t :: ts => do
    let x ← f t
    let xs ← parseAll f ts
    pure (x :: xs)

def bootStr : Option Boot → String
  | some (.alive c) => "ok " ++ status c
  | some .dead => "dead"
  | none => "unmodelled"

def addResStr : AddRes → String
  | .ok => "ok" | .exists_ => "exists" | .noParent => "no-parent" | .preMismatch => "pre-mismatch"
  | .writeErr => "write-error"
  | .checkFail => "check-fail"

/-- Following `pre` from the group that `gcurrent` names never ends. The real start-up then
    never returns (`refreshCache` has no cycle guard); only reachable after a crash in the middle
    of `remove`. The harness does not restart such a store; both sides answer `unmodelled`. -/
def preCycle (d : Store) : Bool :=
  match sget d curKey with
  | some (.ref id) =>
    match getGroupById d id with
    | some g => (iterWalk d (d.length + 1) g).length > d.length
    | none => false
  | _ => false

/-- After a crashed op: restart on what reached the disk. -/
def afterRun (s : DState) (pre : String) : Run → DState × String
  | .done c _ =>
    if preCycle c.disk then ({ s with boot := none }, "unmodelled") else
    let b := restart c.disk c.mirror s.genesis
    ({ s with boot := b }, pre ++ " / " ++ bootStr b)
  | .crashed d m =>
    if preCycle d then ({ s with boot := none }, "unmodelled") else
    let b := restart d m s.genesis
    ({ s with boot := b }, "crashed / " ++ bootStr b)

def mutate (s : DState) (c : Chain) (ws : List String) (budget : Option Nat) : Option (DState × String) :=
  match ws, budget with
  | ["add", a, b, p, cr], none => do
    let g ← parseAdd s.dur a b p cr
    -- sqlite rejects a uint64 GroupHeight with the high bit set: `mysql.InsertGroup` fails and
    -- `save` panics after its four writes. Only reachable after `count` has underflowed
    -- (remove at count = 0, itself only reachable from a crash-desynchronised store): not modelled.
    if addCheck c g = .ok ∧ c.count ≥ 9223372036854775808 then
      pure ({ s with boot := none }, "unmodelled")
    else
    let (r, c') := addGroup c g
    pure ({ s with boot := some (.alive c') }, addResStr r ++ " " ++ status c')
  | ["add", a, b, p, cr, m], none => do
    let g0 ← parseAdd s.dur a b p cr
    let ms ← parseMembers m
    let g : Group := { g0 with members := ms }
    if addCheck c g = .ok ∧ c.count ≥ 9223372036854775808 then
      pure ({ s with boot := none }, "unmodelled")
    else
    let (r, c') := addGroup c g
    pure ({ s with boot := some (.alive c') }, addResStr r ++ " " ++ status c')
  | ["add", a, b, p, cr], some k => do
    let g ← parseAdd s.dur a b p cr
    if addCheck c g = .ok ∧ c.count ≥ 9223372036854775808 then
      pure ({ s with boot := none }, "unmodelled")
    else
    let (r, run) := addB c g k
    pure (afterRun s (addResStr r) run)
  | ["cadd", a, b, p, cr], none => do
    -- one of two concurrent AddGroup calls, reported by the harness in the sequential order that
    -- explains their results: replayed here one after the other (answer = result only)
    let g ← parseAdd s.dur a b p cr
    if addCheck c g = .ok ∧ c.count ≥ 9223372036854775808 then
      pure ({ s with boot := none }, "unmodelled")
    else
    let (r, c') := addGroup c g
    pure ({ s with boot := some (.alive c') }, if r = .ok then "ok" else "rejected")
  | ["rmlast"], none =>
    let (r, c') := remove c c.last
    some ({ s with boot := some (.alive c') }, toString r ++ " " ++ status c')
  | ["rmlast"], some k =>
    let (r, run) := removeB c c.last k
    some (afterRun s (toString r) run)
  | ["rmto", h], none => do
    let h ← parseNat? h
    -- after a count underflow (crash-desynchronised store only) the loop would run ~2^64 times
    if c.count ≥ 4294967296 then pure (s, "unmodelled") else
    let c' := rmTo c h
    pure ({ s with boot := some (.alive c') }, "done " ++ status c')
  | ["rmto", h], some k => do
    let h ← parseNat? h
    if c.count ≥ 4294967296 then pure (s, "unmodelled") else
    pure (afterRun s "done" (rmToB c h k))
  | _, _ => none

def query (c : Chain) : List String → Option String
  | ["count"] => some (toString c.count)
  | ["last"] => some (gstr c.last)
  | ["byheight", i] => do
    let i ← parseNat? i
    pure (ogstr (getGroupByHeight c.disk i))
  | ["byid", x] => do
    let x ← ofHex? x
    pure (ogstr (getGroupById c.disk x))
  | ["iter"] =>
    let l := iterList c
    some (if l.length > c.disk.length then "LOOP" else listStr (l.map (fun g => toHex g.id)))
  | ["sync", x] => do
    let x ← ofHex? x
    pure (listStr ((syncById c.disk x).map ogstr))
  | ["syncat", h, n] => do
    let h ← parseNat? h
    let n ← parseNat? n
    pure (listStr ((syncFrom c.disk h n).map ogstr))
  | ["below", x] => do
    let x ← parseNat? x
    pure (if (iterList c).length > c.disk.length then "LOOP" else ogstr (firstBelow c x))
  | ["top"] => some (toString (topHeight c))
  | ["avail", h] => do
    let h ← parseNat? h
    pure (if (iterList c).length > c.disk.length then "LOOP"
          else listStr ((availableAt c h).map (fun og => match og with | some g => toHex g.id | none => "nil")))
  | ["availm", h, m] => do
    let h ← parseNat? h
    let m ← ofHex? m
    pure (if (iterList c).length > c.disk.length then "LOOP" else
          match availableByMiner c h m with
          | some l => listStr (l.map (fun g => toHex g.id))
          | none => "PANIC")
  | ["dump"] => some (dumpStr c.disk)
  | ["mirror"] => some (mirrorStr c.mirror)
  | _ => none

/-- `bootcrash <k1> <k2|-> <genesis…>`: wipe; first start-up cut after `k1` writes; if the store
    then still has no last-group pointer and `k2` is given, the next start-up (genesis branch
    again) is cut after `k2` writes; finally a start-up that runs to the end. -/
def bootCrash (s : DState) (gs : List Group) (k1 : Nat) (k2 : Option Nat) : DState × String :=
  let s0 : DState := { s with boot := none, genesis := gs }
  match firstBootB [] [] gs k1 with
  | none => (s0, "unmodelled")
  | some (.done c _) => afterRun s0 "done" (.done c 0)
  | some (.crashed d1 m1) =>
    match k2, firstBootB d1 m1 gs (k2.getD 0) with
    | some _, some (.done c _) => afterRun s0 "crashed done" (.done c 0)
    | some _, some (.crashed d2 m2) =>
      let (s', r) := afterRun s0 "" (.crashed d2 m2)
      (s', if r == "unmodelled" then r else "crashed " ++ r)
    | _, _ => afterRun s0 "" (.crashed d1 m1)

def isMutator : List String → Bool
  | "add" :: _ => true
  | "cadd" :: _ => true
  | "rmlast" :: _ => true
  | "rmto" :: _ => true
  | _ => false

def step (s : DState) (line : String) : DState × String :=
  match splitWords line with
  | "boot" :: toks =>
    match parseAll parseGenesis toks with
    | none => (s, "bad-op")
    | some gs =>
      let b := restart [] [] gs
      ({ s with boot := b, genesis := gs }, bootStr b)
  | ["config", "duration", n] =>
    match parseNat? n with
    | some n => ({ s with dur := n }, "ok")
    | none => (s, "bad-op")
  | "bootcrash" :: k1 :: k2 :: toks =>
    match parseNat? k1, (if k2 == "-" then some none else (parseNat? k2).map some), parseAll parseGenesis toks with
    | some k1, some k2, some (g :: gs) => bootCrash s (g :: gs) k1 k2
    | _, _, _ => (s, "bad-op")
  | ws =>
    match s.boot with
    | none => (s, if ws.isEmpty then "bad-op" else "unmodelled")
    | some .dead =>
      match ws with
      | ["restart"] => (s, "dead")
      | _ => (s, "dead")
    | some (.alive c) =>
      match ws with
      | ["restart"] =>
        if preCycle c.disk then ({ s with boot := none }, "unmodelled") else
        let b := restart c.disk c.mirror s.genesis
        ({ s with boot := b }, bootStr b)
      | ["addnil"] => (s, "nil-group " ++ status c)
      | ["rmnil"] => (s, "true " ++ status c)
      | ["addrej", a, b, p, cr] =>
        match parseAdd s.dur a b p cr with
        | none => (s, "bad-op")
        | some g => let r := addGroupRefused c g; (s, addResStr r.1 ++ " " ++ status r.2)
      | "switch" :: h :: toks =>
        -- the fork switch: removeFromCommonAncestor(group at height h), then AddGroup of the fork's groups
        match parseNat? h, parseAll parseForkGroup toks with
        | some h, some gs =>
          if c.count ≥ 4294967296 ∨ (getGroupByHeight c.disk h).isNone ∨ h ≥ c.count
              ∨ (getGroupByHeight c.disk h).map (·.height) ≠ some h then (s, "unmodelled") else
          let r := forkSwitch s.dur c h gs
          if r.1.count ≥ 9223372036854775808 then ({ s with boot := none }, "unmodelled") else
          ({ s with boot := some (.alive r.1) }, toString r.2 ++ " " ++ status r.1)
        | _, _ => (s, "bad-op")
      | ["forkput", k] =>
        -- a write of the group FORK database (store prefix "groupFork") seen from the chain's store
        -- (prefix "group"): the raw key "Fork" ++ k
        match ofHex? k with
        | none => (s, "bad-op")
        | some kb =>
          let c' := { c with disk := sput c.disk ([0x46, 0x6f, 0x72, 0x6b] ++ kb) (.ref [1]) }
          ({ s with boot := some (.alive c') }, "ok")
      | "sqlfault" :: kind :: idh :: rest =>
        -- the sqlite statement for group <id> (insert / delete) fails while the op runs; the real code
        -- panics there (process death), so a start-up follows
        match (if kind == "ins" then some SqlKind.ins else if kind == "del" then some SqlKind.del else none), ofHex? idh with
        | some k, some fid =>
          let f : SqlFault := { kind := k, id := fid }
          let fin (pre : String) (c' : Chain) (panicked : Bool) : DState × String :=
            if preCycle c'.disk then ({ s with boot := none }, "unmodelled") else
            let b := restart c'.disk c'.mirror s.genesis
            ({ s with boot := b }, (if panicked then "panic" else pre) ++ " / " ++ bootStr b)
          match rest with
          | ["add", a, b, p, cr] =>
            match parseAdd s.dur a b p cr with
            | none => (s, "bad-op")
            | some g =>
              if addCheck c g = .ok ∧ c.count ≥ 9223372036854775808 then ({ s with boot := none }, "unmodelled") else
              let r := addGroupS c g f
              fin (addResStr r.1) r.2.1 r.2.2
          | ["rmlast"] =>
            let r := removeS c c.last f
            fin (toString r.1) r.2.1 r.2.2
          | ["rmto", h] =>
            match parseNat? h with
            | none => (s, "bad-op")
            | some h =>
              if c.count ≥ 4294967296 then (s, "unmodelled") else
              let r := rmToS c h f
              fin "done" r.1 r.2
          | _ => (s, "bad-op")
        | _, _ => (s, "bad-op")
      | "fault" :: j :: rest =>
        -- the j-th physical write (from 0) of the op returns an error and is not performed
        match parseNat? j, rest with
        | some j, ["add", a, b, p, cr] =>
          match parseAdd s.dur a b p cr with
          | none => (s, "bad-op")
          | some g =>
            if addCheck c g = .ok ∧ c.count ≥ 9223372036854775808 then ({ s with boot := none }, "unmodelled") else
            let (r, c') := addGroupF c g (some j)
            ({ s with boot := some (.alive c') }, addResStr r ++ " " ++ status c')
        | some j, ["rmlast"] =>
          let r := removeF c c.last (some j)
          ({ s with boot := some (.alive r.2.1) }, toString r.1 ++ " " ++ status r.2.1)
        | some j, ["rmto", h] =>
          match parseNat? h with
          | none => (s, "bad-op")
          | some h =>
            if c.count ≥ 4294967296 then (s, "unmodelled") else
            let c' := rmToF c h j
            ({ s with boot := some (.alive c') }, "done " ++ status c')
        | _, _ => (s, "bad-op")
      | "crash" :: k :: rest =>
        match parseNat? k with
        | none => (s, "bad-op")
        | some k =>
          match mutate s c rest (some k) with
          | some r => r
          | none => (s, "bad-op")
      | _ =>
        if isMutator ws then
          match mutate s c ws none with
          | some r => r
          | none => (s, "bad-op")
        else
          match query c ws with
          | some r => (s, r)
          | none => (s, "bad-op")

def run : IO Unit := runLines ({} : DState) step
end Rangers.Drive.C19
