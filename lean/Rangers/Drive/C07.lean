import Rangers.Basic.Hex
import Rangers.Basic.Line
import Rangers.Model.TxAuth
/-!
C07 driver.  Ops:

  vt <height> <cfgChainId> <cfgOrigChainId> <p001Block> <genesisChainId|~>
     <source> <target> <type> <time> <data> <extraData> <hash> <sign65|nil> <nonce> <chainId>
     <extraDataType> <requestId> <socketRequestId> <subHash> {oracle}*
        -> ok | chainid | hash | sign | illegal | oracle-miss …
  conv <chainIdNat> <payload> {oracle}*
        -> err-decode | err-sender | <source> <target> <nonce> <chainId> <data> <hash> <extraData>
  ser  (same tx fields as vt without cfg)            -> hex of the hashed byte string
  addr <pub65> {oracle}*                             -> hex of PublicKey.GetAddress().GetHexString()
  sigv <chainId> <sig> | fsigv <sig>                 -> "r s v" of Signer.SignatureValues, or panic
  nsig <raw65>                                       -> the native secp256k1.Sign wrapper's 65 bytes
  batch <entry> <height> <cfg×4> <n> <tx×n> {oracle}* -> flags: which positions reached the pool

oracle tokens:  sha=<pre>,<digest>   kec=<pre>,<digest>
                rec=<msg>,<r>,<s>,<recid 0..3>,<pub65|err>      curve-level recovery, 1 ≤ r,s < N
                ver=<pub>,<msg>,<r>,<s>,<0|1>                   curve-level ECDSA equation, 1 ≤ r,s < N
Strings are hex of their bytes ("-" empty).  Every crypto answer the model
needs must be on the line, otherwise the answer is `oracle-miss` (never a default).
-/
namespace Rangers.Drive.C07
open Rangers Rangers.Model.TxAuth

structure Tables where
  sha : List (Bytes × Bytes) := []
  kec : List (Bytes × Bytes) := []
  rcv : List ((Bytes × Nat × Nat × Nat) × Option Bytes) := []
  ver : List ((Bytes × Bytes × Nat × Nat) × Bool) := []

def lookup {α β : Type} [BEq α] (t : List (α × β)) (k : α) : Option β :=
  (t.find? (fun p => p.1 == k)).map (·.2)

def Tables.crypto (t : Tables) : Crypto :=
  { sha256 := fun m => (lookup t.sha m).getD []
    keccak := fun m => (lookup t.kec m).getD []
    recoverCore := fun m r s v => (lookup t.rcv (m, r, s, v)).getD none
    verifyCore := fun pk m r s => (lookup t.ver (pk, m, r, s)).getD false }

def Tables.has (t : Tables) : Query → Bool
  | .sha m => (lookup t.sha m).isSome
  | .kec m => (lookup t.kec m).isSome
  | .rcv m r s v => (lookup t.rcv (m, r, s, v)).isSome
  | .ver pk m r s => (lookup t.ver (pk, m, r, s)).isSome

def queryName : Query → String
  | .sha m => "sha " ++ toHex m
  | .kec m => "kec " ++ toHex m
  | .rcv m r s v => "rec " ++ toHex m ++ " " ++ toString r ++ " " ++ toString s ++ " " ++ toString v
  | .ver pk m r s => "ver " ++ toHex pk ++ " " ++ toHex m ++ " " ++ toString r ++ " " ++ toString s

def hexList? : List String → Option (List Bytes)
  | [] => some []
  | h :: t => do
    let b ← ofHex? h
    let r ← hexList? t
    pure (b :: r)

def addOracle (t : Tables) (tok : String) : Option Tables :=
  match tok.splitOn "=" with
  | [k, rest] =>
    let parts := rest.splitOn ","
    match k, parts with
    | "sha", [a, b] => do
      let a ← ofHex? a; let b ← ofHex? b
      pure { t with sha := t.sha ++ [(a, b)] }
    | "kec", [a, b] => do
      let a ← ofHex? a; let b ← ofHex? b
      pure { t with kec := t.kec ++ [(a, b)] }
    | "rec", [m, r, s, v, p] => do
      let m ← ofHex? m; let r ← ofHex? r; let s ← ofHex? s; let v ← v.toNat?
      let k := (m, beToNat r, beToNat s, v)
      if p == "err" then pure { t with rcv := t.rcv ++ [(k, none)] }
      else do
        let p ← ofHex? p
        pure { t with rcv := t.rcv ++ [(k, some p)] }
    | "ver", [p, m, r, s, res] => do
      let p ← ofHex? p; let m ← ofHex? m; let r ← ofHex? r; let s ← ofHex? s
      let k := (p, m, beToNat r, beToNat s)
      if res == "1" then pure { t with ver := t.ver ++ [(k, true)] }
      else if res == "0" then pure { t with ver := t.ver ++ [(k, false)] }
      else none
    | _, _ => none
  | _ => none

def parseOracles (toks : List String) : Option Tables :=
  toks.foldlM addOracle ({} : Tables)

def parseSign (s : String) : Option (Option Sign) :=
  if s == "nil" then some none
  else match ofHex? s with
    | some b => match bytesToSign b with
      | some sg => some (some sg)
      | none => none
    | none => none

def parseTx : List String → Option Tx
  | [source, target, type, time, data, extra, hash, sign, nonce, chainId, edt, reqId, sock, subHash] => do
    let source ← ofHex? source
    let target ← ofHex? target
    let type ← type.toInt?
    let time ← ofHex? time
    let data ← ofHex? data
    let extra ← ofHex? extra
    let hash ← ofHex? hash
    let sign ← parseSign sign
    let nonce ← nonce.toNat?
    let chainId ← ofHex? chainId
    let edt ← edt.toInt?
    let reqId ← reqId.toNat?
    let sock ← ofHex? sock
    let subHash ← ofHex? subHash
    if hash.length ≠ 32 then none else
    pure { source, target, type, time, data, extraData := extra, hash, sign, nonce, chainId,
           extraDataType := edt, requestId := reqId, socketRequestId := sock, subHash }
  | _ => none

def parseCfg : List String → Option ChainCfg
  | [cid, ocid, p001, g] => do
    let cid ← ofHex? cid
    let ocid ← ofHex? ocid
    let p001 ← p001.toNat?
    let g ← if g == "~" then some none else (ofHex? g).map some
    pure { chainId := cid, originalChainId := ocid, proposal001Block := p001, genesisChainId := g }
  | _ => none

def firstMissing (t : Tables) (qs : List Query) : Option Query := qs.find? (fun q => !t.has q)

def doVt (toks : List String) : String :=
  match toks with
  | height :: rest =>
    match height.toNat?, parseCfg (rest.take 4), parseTx ((rest.drop 4).take 14),
          parseOracles (rest.drop 18) with
    | some h, some cfg, some tx, some t =>
      let cr := t.crypto
      match firstMissing t (queries cr cfg h tx) with
      | some q => "oracle-miss " ++ queryName q
      | none => (verifyTx cr cfg h tx).toString
    | _, _, _, _ => "bad-op"
  | _ => "bad-op"

def doConv (toks : List String) : String :=
  match toks with
  | cid :: enc :: rest =>
    match cid.toNat?, ofHex? enc, parseOracles rest with
    | some c, some enc, some t =>
      let cr := t.crypto
      match decodeTx enc with
      | none => "err-decode"
      | some e =>
        match firstMissing t (ethSenderQueries cr c e) with
        | some q => "oracle-miss " ++ queryName q
        | none =>
          match ethSender cr c e with
          | none => "err-sender"
          | some snd =>
            if !t.has (.kec (encodeTx e)) then "oracle-miss " ++ queryName (.kec (encodeTx e))
            else
              let x := convertTx cr e snd enc
              String.intercalate " " [toHex x.source, toHex x.target, toString x.nonce,
                toHex x.chainId, toHex x.data, toHex x.hash, toHex x.extraData]
    | _, _, _ => "bad-op"
  | _ => "bad-op"

def doAddr (toks : List String) : String :=
  match toks with
  | pk :: rest =>
    match ofHex? pk, parseOracles rest with
    | some pk, some t =>
      if pk.length ≠ 65 then "bad-op"
      else if !t.has (.kec (getIDInput pk)) then "oracle-miss " ++ queryName (.kec (getIDInput pk))
      else toHex (nativeAddrStr t.crypto pk)
    | _, _ => "bad-op"
  | _ => "bad-op"

def fmtRSV : Option (Nat × Nat × Nat) → String
  | none => "panic"
  | some (r, s, v) => toString r ++ " " ++ toString s ++ " " ++ toString v

/-- `sigv <chainId> <sig>`: `EIP155Signer{chainId}.SignatureValues`; `fsigv <sig>`: Frontier/Homestead;
    `nsig <raw65>`: the native `secp256k1.Sign` wrapper's output for the library's raw signature. -/
def doSigv (toks : List String) : String :=
  match toks with
  | [c, sg] => match c.toNat?, ofHex? sg with
    | some c, some sg => fmtRSV (eip155SigValues c sg)
    | _, _ => "bad-op"
  | _ => "bad-op"

def doFsigv (toks : List String) : String :=
  match toks with
  | [sg] => match ofHex? sg with
    | some sg => fmtRSV (frontierSigValues sg)
    | none => "bad-op"
  | _ => "bad-op"

def doNsig (toks : List String) : String :=
  match toks with
  | [raw] => match ofHex? raw with
    | some raw => if raw.length = 65 then toHex (nativeSignBytes raw) else "bad-op"
    | none => "bad-op"
  | _ => "bad-op"

def parseTxs : Nat → List String → Option (List Tx × List String)
  | 0, rest => some ([], rest)
  | n + 1, toks =>
    match parseTx (toks.take 14) with
    | none => none
    | some tx =>
      match parseTxs n (toks.drop 14) with
      | none => none
      | some (txs, rest) => some (tx :: txs, rest)

/-- `batch <entry> <height> <cfg×4> <n> <tx×n> {oracle}*` → one flag per position: did the element
    reach the (initially empty) pool through the admission loop. -/
def doBatch (toks : List String) : String :=
  match toks with
  | _entry :: height :: rest =>
    match height.toNat?, parseCfg (rest.take 4), ((rest.drop 4).head?).bind String.toNat? with
    | some h, some cfg, some n =>
      if n > 64 then "bad-op" else
      match parseTxs n (rest.drop 5) with
      | none => "bad-op"
      | some (txs, orc) =>
        match parseOracles orc with
        | none => "bad-op"
        | some t =>
          let cr := t.crypto
          match firstMissing t (txs.flatMap (queries cr cfg h)) with
          | some q => "oracle-miss " ++ queryName q
          | none =>
            -- entry "worker+k" / "write+k" / "runwrite+k": the first k transactions are already in the
            -- pool (put there directly), the handler sees the rest
            let k := match (_entry.splitOn "+") with
              | [_, ks] => ks.toNat?.getD 0
              | _ => 0
            let pre := (txs.take k).map (·.hash)
            String.ofList ((admitFlags cr cfg h pre (txs.drop k)).map (fun b => if b then '1' else '0'))
    | _, _, _ => "bad-op"
  | _ => "bad-op"

def natList? : List String → Option (List Nat)
  | [] => some []
  | x :: xs => do
    let n ← x.toNat?
    let r ← natList? xs
    pure (n :: r)

/-- `scache <payload> <c1,c2,…> {oracle}*`: `eth_tx.Sender` called in sequence on ONE decoded
    transaction object with EIP-155 signers of the given chain ids. -/
def doScache (toks : List String) : String :=
  match toks with
  | enc :: cs :: rest =>
    match ofHex? enc, natList? (cs.splitOn ","), parseOracles rest with
    | some enc, some cs, some t =>
      let cr := t.crypto
      match decodeTx enc with
      | none => "err-decode"
      | some e =>
        match firstMissing t (cs.flatMap (fun c => ethSenderQueries cr c e)) with
        | some q => "oracle-miss " ++ queryName q
        | none =>
          String.intercalate " " ((senderRun cr e none cs).map (fun o => match o with
            | some a => toHex a
            | none => "err"))
    | _, _, _ => "bad-op"
  | _ => "bad-op"

def doSer (toks : List String) : String :=
  match parseTx toks with
  | some tx => toHex (ser tx)
  | none => "bad-op"

def step (_ : Unit) (line : String) : Unit × String :=
  match splitWords line with
  | "vt" :: rest => ((), doVt rest)
  | "conv" :: rest => ((), doConv rest)
  | "ser" :: rest => ((), doSer rest)
  | "addr" :: rest => ((), doAddr rest)
  | "sigv" :: rest => ((), doSigv rest)
  | "fsigv" :: rest => ((), doFsigv rest)
  | "nsig" :: rest => ((), doNsig rest)
  | "batch" :: rest => ((), doBatch rest)
  | "scache" :: rest => ((), doScache rest)
  | _ => ((), "bad-op")

def run : IO Unit := runLines () step
end Rangers.Drive.C07
