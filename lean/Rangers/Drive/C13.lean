import Rangers.Basic.Hex
import Rangers.Basic.Line
import Rangers.Generated.Bn256Consts
import Rangers.Model.Shamir
import Rangers.Model.G1
import Rangers.Model.G2
import Rangers.Model.IdKey
/-!
Line-protocol driver for C13. Scalars/ids are minimal big-endian hex (`-` = 0), points are
the 64-byte `Marshal` form, a nil signature (`Signature{}` with nil point) is `-`.

  share <id> <c0> <c1> …                 → ok <scalar> | PANIC
  agg <s1> …  | agg                      → ok <scalar> | nil
  groupk <n>                             → <k> | unmodelled
  lagrange <id1> …                       → <δ1·G>,<δ2·G>,… | dup-ids   (Go observes δᵢ as RecoverGroupSignature of
                                            the share vector (O,…,G,…,O), G = curveGen)
  perm <seed> <n> <k> <j0> …                  → i0,i1,…
  g1add <P> <Q> | g1mul <P> <k> | g1unm <bytes>
  recover <k> <js|-> <id> <sig> …        → ok <sig|-> | PANIC
  gen|lgen <k> <js|-> <id> <sig> …         → <add><gen>,… <groupSign|-> | PANIC   (GroupSignGenerator.AddWitnessSign per arrival)
  hashg1 <msg> <refH(m)>                 → <refH(m)>   (Go: the code's H(m); reference = crypto/sha256 + math/big in the harness)
  idkey <id> | idparse <string bytes>    → <0x…hex> ok <value> | ok <value> | arg-failed | unmodelled
  membercount <min> <max> <ratio> <avail> → <CreateGroupMemberCount> <IsGroupMemberCountLegal of it> | PANIC
  deliver <n> <id> <share> <pub> …      → <status,…> <signKey> <groupPubKey|nil>   (groupNodeInfo.handleSharePiece per delivery)
  g2add <P> <Q> | g2mul <P> <k>          → <G2 marshal> (`00` = infinity)
  aggpk <g2base> <k1> …                  → ok <AggregatePubkeys of kᵢ·g₂> | nil
  dkg <msg> <ghash> <hm> <g2base> <k> <n> <m> <js|-> seeds(n) ids(n) coeffs(n·k) arrival(m)   (msg, ghash, seeds: Go only)
                                         → <msk1>,…,<mskn> <gsk> <sigFirstK> <sigAll> <direct> <groupPubKey>
-/
namespace Rangers.Drive.C13
open Rangers Rangers.Model Rangers.Generated

def r : Nat := Bn256.order
def curve : G1.Curve := ⟨Bn256.fieldP, Bn256.curveB⟩
def ops : Shamir.Ops G1.Point := ⟨G1.add curve, G1.mul curve⟩

def fp : Nat := Bn256.fieldP

/-- A G2 value on the line: `00` (the one-byte encoding of infinity) or 128 bytes. -/
def g2? (s : String) : Option G2.Point :=
  match ofHex? s with
  | some [0] => some .inf
  | some b => G2.unmarshal fp b
  | none => none

def showG2 (q : G2.Point) : String := toHex (G2.marshal q)

def nat? (s : String) : Option Nat := (ofHex? s).map beToNat
def nats? (ws : List String) : Option (List Nat) := ws.mapM nat?
def dec? (s : String) : Option Nat := s.toNat?
def decs? (s : String) : Option (List Nat) :=
  if s == "-" then some [] else (s.splitOn ",").mapM dec?
def hexNat (n : Nat) : String := toHex (natToBE n)
def joinWith (sep : String) (l : List String) : String := sep.intercalate l

def sigOfBytes (b : Bytes) : Option G1.Point := G1.deserializeSign curve b

def sig? (s : String) : Option (Option G1.Point) := (ofHex? s).map sigOfBytes

def showSig (s : Option G1.Point) : String := toHex (G1.serializeSign s)

def showRes : Shamir.Res (Option G1.Point) → String
  | .panic => "PANIC"
  | .ok s => "ok " ++ showSig s

/-- entries `id sig id sig …` -/
def entries? : List String → Option (List (Nat × Option G1.Point))
  | [] => some []
  | [_] => none
  | i :: s :: rest => do
    let i' ← nat? i
    let s' ← sig? s
    let r' ← entries? rest
    pure ((i', s') :: r')

/-- `curveGen = (1, -2)`. -/
def gen : G1.Point := .aff 1 (Bn256.fieldP - 2)

def hasDup : List Nat → Bool
  | [] => false
  | a :: as => as.contains a || hasDup as

def recoverEntries (k : Nat) (js : List Nat) (es : List (Nat × Option G1.Point)) : Shamir.Res (Option G1.Point) :=
  Shamir.recoverGroupSignature ops r k es ⟨id, js, id⟩

def splitAtN {α} (n : Nat) (l : List α) : Option (List α × List α) :=
  if l.length < n then none else some (l.take n, l.drop n)

def chunks {α} (k : Nat) : Nat → List α → List (List α)
  | 0, _ => []
  | n + 1, l => l.take k :: chunks k n (l.drop k)

def step (_ : Unit) (line : String) : Unit × String :=
  let out : String :=
    -- `lgen` (the twin generator of package logical) has the semantics of `gen`
    match (match splitWords line with | "lgen" :: rest => "gen" :: rest | ws => ws) with
    | "share" :: i :: cs =>
      match nat? i, nats? cs with
      | some x, some cs' =>
        match Shamir.shareSeckey r cs' x with
        | some v => "ok " ++ hexNat v
        | none => "PANIC"
      | _, _ => "bad-op"
    | "agg" :: ss =>
      match nats? ss with
      | some ss' =>
        match Shamir.aggregateSeckeys r ss' with
        | some v => "ok " ++ hexNat v
        | none => "nil"
      | none => "bad-op"
    | ["groupk", n] =>
      match dec? n with
      | some n' =>
        match Shamir.getGroupK Bn256.ssssThreshold Bn256.groupKDivisor n' with
        | some k => toString k
        | none => "unmodelled"
      | none => "bad-op"
    | "lagrange" :: is =>
      match nats? is with
      | some xs =>
        if xs.any (fun x => x ≥ 2 ^ 256) then "bad-op"
        else if hasDup xs then "dup-ids"
        else joinWith "," ((Shamir.lagrangeCoeffs r xs).map (fun d => toHex (G1.marshal (G1.mul curve gen d))))
      | none => "bad-op"
    | "perm" :: seed :: n :: k :: js =>
      match ofHex? seed, dec? n, dec? k, js.mapM dec? with
      | some _, some n', some k', some js' =>
        if js'.length < k' ∨ n' < k' then "bad-op"
        else joinWith "," ((Shamir.randomPerm n' k' js').map toString)
      | _, _, _, _ => "bad-op"
    | ["g1add", a, b] =>
      match sig? a, sig? b with
      | some (some p), some (some q) => toHex (G1.marshal (G1.add curve p q))
      | _, _ => "bad-op"
    | ["g1mul", a, k] =>
      match sig? a, nat? k with
      | some (some p), some k' => toHex (G1.marshal (G1.mul curve p k'))
      | _, _ => "bad-op"
    | ["g1unm", b] =>
      match ofHex? b with
      | some bs =>
        match G1.unmarshal curve bs with
        | .ok p => "ok " ++ toHex (G1.marshal p)
        | .short => "short"
        | .malformed p => "malformed " ++ toHex (G1.marshal p)
      | none => "bad-op"
    | "recover" :: k :: js :: rest =>
      match dec? k, decs? js, entries? rest with
      | some k', some js', some es =>
        if es.any (fun e => e.1 ≥ 2 ^ 256) then "bad-op"
        else if hasDup (es.map Prod.fst) then "dup-ids" else showRes (recoverEntries k' js' es)
      | _, _, _ => "bad-op"
    | ["hashg1", msg, pt] =>
      -- hash-to-curve is not modelled: the line carries the harness's independent reference point
      match ofHex? msg, sig? pt with
      | some _, some (some p) =>
        if G1.isOnCurve curve p && p != .inf then toHex (G1.marshal p) else "bad-op"
      | _, _ => "bad-op"
    | ["idkey", x] =>
      -- idkey <id>: ID.GetHexString, and the value ID.SetHexString reads back from it
      match nat? x with
      | some x' =>
        match IdKey.idHexChars x' with
        | none => "PANIC"
        | some cs =>
          String.ofList cs ++ " " ++ (match IdKey.idSetHex cs with
            | .ok v => "ok " ++ hexNat v
            | .argFailed => "arg-failed"
            | .undefined => "unmodelled")
      | none => "bad-op"
    | ["idparse", sx] =>
      -- idparse <ascii bytes of the string, hex>: ID.SetHexString on an arbitrary string
      match ofHex? sx with
      | some bs =>
        match IdKey.idSetHex (bs.map (fun b => Char.ofNat b.toNat)) with
        | .ok v => "ok " ++ hexNat v
        | .argFailed => "arg-failed"
        | .undefined => "unmodelled"
      | none => "bad-op"
    | ["membercount", mn, mx, ratio, avail] =>
      match dec? mn, dec? mx, dec? ratio, dec? avail with
      | some a, some b, some c, some d =>
        if c = 0 then "PANIC" else
        match Shamir.createGroupMemberCount a b c d with
        | some v => toString v ++ " " ++ toString (Shamir.isGroupMemberCountLegal a b v)
        | none => "unmodelled"
      | _, _, _, _ => "bad-op"
    | "deliver" :: n :: rest =>
      -- deliver <n> <id> <share> <pub> … : a delivery history for one member's groupNodeInfo
      let rec pieces? : List String → Option (List (Shamir.Piece G2.Point))
        | [] => some []
        | i :: sh :: pb :: more => do
          let i' ← nat? i
          let sh' ← nat? sh
          let pb' ← g2? pb
          let r' ← pieces? more
          pure (⟨i', sh', pb'⟩ :: r')
        | _ => none
      match dec? n, pieces? rest with
      | some n', some ps =>
        if ps.any (fun e => e.id ≥ 2 ^ 256) then "bad-op" else
        let (st, codes) := Shamir.deliverAll r (G2.add fp) (Shamir.NodeInfo.new n') ps
        joinWith "," (codes.map toString) ++ " " ++ hexNat st.msk ++ " " ++
          (match st.gpk with | some q => showG2 q | none => "nil")
      | _, _ => "bad-op"
    | ["g2add", a, b] =>
      match g2? a, g2? b with
      | some p, some q => showG2 (G2.add fp p q)
      | _, _ => "bad-op"
    | ["g2mul", a, k] =>
      match g2? a, nat? k with
      | some p, some k' => showG2 (G2.mul fp p k')
      | _, _ => "bad-op"
    | "aggpk" :: base :: ks =>
      match g2? base, nats? ks with
      | some g, some ks' =>
        match Shamir.aggregatePoints (G2.add fp) (ks'.map (G2.mul fp g)) with
        | some q => "ok " ++ showG2 q
        | none => "nil"
      | _, _ => "bad-op"
    | "gen" :: k :: js :: rest =>
      match dec? k, decs? js, entries? rest with
      | some k', some js', some es =>
        if es.any (fun e => e.1 ≥ 2 ^ 256) then "bad-op" else
        let isValid : G1.Point → Bool := G1.isOnCurve curve
        let rec go (st : Shamir.SignGen G1.Point) (flags : List String) :
            List (Nat × Option G1.Point) → String
          | [] => joinWith "," flags.reverse ++ " " ++ showSig st.groupSign
          | (x, sg) :: more =>
            match Shamir.addWitnessSign ops r isValid st x sg ⟨id, js', id⟩ with
            | .panic => "PANIC"
            | .ok (st', a, g) => go st' (((if a then "1" else "0") ++ (if g then "1" else "0")) :: flags) more
        go (Shamir.SignGen.new k') [] es
      | _, _, _ => "bad-op"
    | "dkg" :: msg :: gh :: hm :: g2b :: k :: n :: m :: js :: rest =>
      match ofHex? msg, ofHex? gh, sig? hm, g2? g2b, dec? k, dec? n, dec? m, decs? js with
      | some _, some _, some (some h), some g2base, some k', some n', some m', some _ =>
        if k' = 0 ∨ n' = 0 ∨ rest.length ≠ n' + n' + n' * k' + m' then "bad-op" else
        let seedw := rest.take n'
        let idw := (rest.drop n').take n'
        let cw := (rest.drop (2 * n')).take (n' * k')
        let aw := rest.drop (2 * n' + n' * k')
        match seedw.mapM ofHex?, nats? idw, nats? cw, aw.mapM dec?, decs? js with
        | some _, some ids, some cs, some arr, some js' =>
          if ids.any (fun x => x ≥ 2 ^ 256) ∨ hasDup ids ∨ hasDup arr ∨ arr.any (fun a => a ≥ n') then "bad-op"
          else if Shamir.getGroupK Bn256.ssssThreshold Bn256.groupKDivisor n' ≠ some k' then
            match Shamir.getGroupK Bn256.ssssThreshold Bn256.groupKDivisor n' with
            | some kk => "k-mismatch " ++ toString kk
            | none => "unmodelled"
          else
          let polys := chunks k' n' cs
          let msk : List (Option Nat) := ids.map (Shamir.memberKey r polys)
          match msk.mapM id, Shamir.groupSecret r polys with
          | some msks, some gsk =>
            let es : List (Nat × Option G1.Point) := arr.map (fun a =>
              (ids.getD a 0, some (G1.mul curve h (msks.getD a 0))))
            let first := recoverEntries k' [] (es.take k')
            let all := recoverEntries k' js' es
            joinWith "," (msks.map hexNat) ++ " " ++ hexNat gsk ++ " " ++ showRes first ++ " "
              ++ showRes all ++ " " ++ toHex (G1.marshal (G1.mul curve h gsk)) ++ " "
              ++ (match Shamir.aggregatePoints (G2.add fp) (polys.map (fun cs => G2.mul fp g2base (cs.headD 0))) with
                  | some q => showG2 q
                  | none => "nil")
          | _, _ => "bad-op"
        | _, _, _, _, _ => "bad-op"
      | _, _, _, _, _, _, _, _ => "bad-op"
    | _ => "bad-op"
  ((), out)

def run : IO Unit := runLines () step
end Rangers.Drive.C13
