import Rangers.Basic.Hex
import Rangers.Basic.Line
import Rangers.Model.Bls14Verify
import Rangers.Model.Bls14Hash
import Rangers.Model.Bls14Jac
import Rangers.Model.Bls14G2
import Rangers.Model.Bls14Pairing
import Rangers.Model.Bls14Text
import Rangers.Model.Bls14Misc
import Rangers.Model.Bls14G2Jac
/-!
Line-protocol driver for C14. One op per line; see harness/cmd/c14/main.go for the
Go side. Anything that does not parse answers `bad-op` (never a default).
-/
namespace Rangers.Drive.C14
open Rangers Rangers.Model.Bls14

def b01 (b : Bool) : String := if b then "1" else "0"

def statusStr : UnmStatus → String
  | .ok rest => "ok " ++ toString rest.length
  | .short => "short"
  | .malformed => "malformed"

def triStr : Tri → String
  | .yes => "1"
  | .no => "0"
  | .nilDeref => "PANIC"

def verdictStr : Verdict → String
  | .accept => "accept"
  | .reject => "reject"
  | .panic => "PANIC"

/-- parse a 64-byte canonical point supplied by the harness (must decode cleanly) -/
def pt? (h : String) : Option Pt := do
  let b ← ofHex? h
  if b.length != 64 then none
  match g1Unmarshal .nil b with
  | (.pt q, .ok _) => some q
  | _ => none

/-- parse a G2 point supplied by the harness: 128 canonical bytes, or `00` for infinity -/
def pt2? (h : String) : Option Pt2 := do
  let b ← ofHex? h
  if b == [0] then some .inf
  else
    if b.length != 128 then none
    match g2Unmarshal .nil b with
    | (.pt q, .ok _) => some q
    | _ => none

def pt2List? : List String → Option (List Pt2)
  | [] => some []
  | h :: t => do
    let p ← pt2? h
    let ps ← pt2List? t
    pure (p :: ps)

/-- parse a GT element: 384 bytes, twelve coordinates reduced mod p (as `GT.Unmarshal` does) -/
def gt? (h : String) : Option F12 := do
  let b ← ofHex? h
  if b.length != 384 then none
  let c (i : Nat) : Nat := beToNat ((b.drop (32 * i)).take 32) % P
  let f2 (i : Nat) : F2 := ⟨c i, c (i + 1)⟩
  let f6 (i : Nat) : F6 := ⟨f2 i, f2 (i + 2), f2 (i + 4)⟩
  some ⟨f6 0, f6 6⟩

/-- a string token: hex of its ASCII bytes -/
def str? (h : String) : Option (List Char) := (ofHex? h).map (fun b => b.map (fun c => Char.ofNat c.toNat))

def setHexStr : SetHexRes → Nat → String
  | .argFailed, old => "argfail " ++ toString old
  | .ok v, _ => "ok " ++ toString v
  | .unmodelled, _ => "unmodelled"

def g1ValStr : G1Val → String
  | .nil => "nil"
  | .pt q => toHex (g1Marshal q)

def sigReport (s : Sig) : String :=
  "nil=" ++ b01 (Sig.isNil s) ++ " valid=" ++ triStr (Sig.isValid s) ++ " ser=" ++ toHex (Sig.serialize s)

def pubReport (p : Pub) : String :=
  "valid=" ++ b01 (Pub.isValid p) ++ " ser=" ++ toHex (Pub.serialize p)

/-- `H(m)` computed by the model itself (SHA-256 + try-and-increment) must equal the reference
    point carried on the line; `none` otherwise. -/
def hmChecked? (msgh hmh : String) : Option Pt := do
  let m ← ofHex? msgh
  let hm ← pt? hmh
  let own ← hashToG1 m
  if own == hm then some hm else none

def verdictWith (peq : String) (f : PairEq → Verdict) : String :=
  let a := f (fun _ _ _ _ => true)
  let b := f (fun _ _ _ _ => false)
  if a == b then verdictStr a
  else if peq == "1" then verdictStr a
  else if peq == "0" then verdictStr b
  else "bad-op"

def step (_ : Unit) (line : String) : Unit × String :=
  let r : String := match splitWords line with
  | ["g1u", h] => match ofHex? h with
    | some b =>
      let (v, st) := g1Unmarshal .nil b
      statusStr st ++ " " ++ g1ValStr v
    | none => "bad-op"
  | ["sigd", h] => match ofHex? h with
    | some b => sigReport (deserializeSign b)
    | none => "bad-op"
  | ["sigd2", h1, h2] => match ofHex? h1, ofHex? h2 with
    | some b1, some b2 =>
      let (s1, e1) := Sig.deserialize .nil b1
      let (s2, e2) := Sig.deserialize s1 b2
      "err=" ++ b01 e1 ++ b01 e2 ++ " " ++ sigReport s2
    | _, _ => "bad-op"
  | ["sigh2", h1, h2] => match ofHex? h1, ofHex? h2 with
    -- Signature.SetHexString twice on one object: Unmarshal of the hex bytes, error discarded
    | some b1, some b2 => sigReport (g1Unmarshal (g1Unmarshal .nil b1).1 b2).1
    | _, _ => "bad-op"
  | ["pkd2", h1, h2] => match ofHex? h1, ofHex? h2 with
    | some b1, some b2 =>
      let (p1, _) := Pub.deserialize .nil b1
      let (p2, st) := Pub.deserialize p1 b2
      statusStr st ++ " " ++ pubReport p2
    | _, _ => "bad-op"
  | ["pkh2", h1, h2] => match ofHex? h1, ofHex? h2 with
    | some b1, some b2 => pubReport (g2Unmarshal (g2Unmarshal .nil b1).1 b2).1
    | _, _ => "bad-op"
  | ["pkd", h] => match ofHex? h with
    | some b =>
      let (v, st) := Pub.deserialize .nil b
      statusStr st ++ " " ++ pubReport v
    | none => "bad-op"
  | ["pkb", h] => match ofHex? h with
    | some b => pubReport (byteToPublicKey b)
    | none => "bad-op"
  | ["verify", pkh, msg, sigh, hmh, peq] => match ofHex? pkh, ofHex? sigh, pt? hmh with
    | some pkb, some sigb, some _ => match hmChecked? msg hmh with
      | some hm => verdictWith peq (fun pe => verifyBytes pe hm pkb sigb)
      | none => "hm-mismatch"
    | _, _, _ => "bad-op"
  | ["verify-raw", pkh, msg, sigh, hmh, peq] => match ofHex? pkh, ofHex? sigh, pt? hmh with
    | some pkb, some sigb, some _ => match hmChecked? msg hmh with
      | some hm =>
        verdictWith peq (fun pe => verifySig pe hm (Pub.deserialize .nil pkb).1 (deserializeSign sigb))
      | none => "hm-mismatch"
    | _, _, _ => "bad-op"
  | ["vrep", pkh, msg, sigh, n, hmh, peq] => match ofHex? pkh, ofHex? sigh, n.toNat?, pt? hmh with
    -- the model is a pure function: n verifications of the same values give n times the same
    -- verdict and leave both values as they were
    | some pkb, some sigb, some n, some _ => match hmChecked? msg hmh with
      | some hm =>
        let v := verdictWith peq (fun pe => verifyBytes pe hm pkb sigb)
        if v == "bad-op" then v else
        String.intercalate "," (List.replicate n v) ++ " unchanged=1"
      | none => "hm-mismatch"
    | _, _, _, _ => "bad-op"
  | ["g1neg", a] => match pt? a with
    | some p => toHex (g1Marshal p.neg)
    | none => "bad-op"
  | ["g1dbl", a] => match pt? a with
    | some p => toHex (g1Marshal p.double)
    | none => "bad-op"
  | ["g1add", a, b] => match pt? a, pt? b with
    | some p, some q =>
      let r := g1Marshal (p.add q)
      if jMarshal (jAdd (Jac.ofPt p) (Jac.ofPt q)) == r then toHex r else "jacobian-affine-mismatch"
    | _, _ => "bad-op"
  | ["g1mul", a, k] => match pt? a, k.toNat? with
    | some p, some k =>
      let r := g1Marshal (p.mul k)
      if jMarshal (jMul (Jac.ofPt p) k) == r then toHex r else "jacobian-affine-mismatch"
    | _, _ => "bad-op"
  | ["sign", k, msg, hmh] => match k.toNat?, pt? hmh with
    | some k, some _ => match hmChecked? msg hmh with
      | some hm =>
        -- as executed (Jacobian) and as specified (affine); they are proved equal (Props/C14J)
        let sj := jMarshal (signJ k hm)
        if sj == Sig.serialize (sign k hm) then toHex sj else "jacobian-affine-mismatch"
      | none => "hm-mismatch"
    | _, _ => "bad-op"
  | ["h2p", msg, dg] => match ofHex? msg, ofHex? dg with
    | some m, some d =>
      if Sha.sha256 m != d then "sha-mismatch " ++ toHex (Sha.sha256 m) else
      match hashToG1 m with
      | some p => toHex (g1Marshal p)
      | none => "fuel"
    | _, _ => "bad-op"
  | ["jlin", a, k1, b, k2] => match pt? a, k1.toNat?, pt? b, k2.toNat? with
    -- Add(ScalarMult(a,k1), ScalarMult(b,k2)): both operands are non-normalised Jacobian values
    | some p, some k1, some q, some k2 =>
      toHex (jMarshal (jAdd (jMul (Jac.ofPt p) k1) (jMul (Jac.ofPt q) k2)))
    | _, _, _, _ => "bad-op"
  | ["jdbl", a, k] => match pt? a, k.toNat? with
    -- Add(X, X) and Neg(X) for X = ScalarMult(a,k): the doubling branch of Add with z ≠ 1
    | some p, some k =>
      let x := jMul (Jac.ofPt p) k
      toHex (jMarshal (jAdd x x)) ++ " " ++ toHex (jMarshal (jNeg x)) ++ " " ++ toHex (jMarshal (jAdd x (jNeg x)))
    | _, _ => "bad-op"
  | ["pair", a, b] => match pt? a, pt2? b with
    | some p, some q => toHex (pair p q).marshal
    | _, _ => "bad-op"
  | ["miller", a, b] => match pt? a, pt2? b with
    | some p, some q => match millerPt p q with
      | some v => toHex v.marshal
      | none => "bad-op"
    | _, _ => "bad-op"
  | ["gtmul", a, b] => match gt? a, gt? b with
    | some x, some y => toHex (x.mul y).marshal
    | _, _ => "bad-op"
  | ["gtexp", a, k] => match gt? a, k.toNat? with
    | some x, some k => toHex (x.exp k).marshal
    | _, _ => "bad-op"
  | ["gtconj", a] => match gt? a with
    | some x => toHex x.conj.marshal
    | none => "bad-op"
  | ["gtfin", a] => match gt? a with
    | some x => toHex (finalExponentiation x).marshal
    | none => "bad-op"
  | ["verifyp", pkh, msg, sigh, hmh] => match ofHex? pkh, ofHex? sigh, pt? hmh with
    -- nothing from an oracle: H(m) and both pairings are computed by the model
    | some pkb, some sigb, some _ => match hmChecked? msg hmh with
      | some hm => verdictStr (verifyBytesFull pkb sigb hm)
      | none => "hm-mismatch"
    | _, _, _ => "bad-op"
  | ["g2neg", a] => match pt2? a with
    | some p => toHex (g2Marshal p.neg)
    | none => "bad-op"
  | ["g2add", a, b] => match pt2? a, pt2? b with
    | some p, some q =>
      let r := g2Marshal (p.add q)
      if j2Marshal (j2Add (Jac2.ofPt p) (Jac2.ofPt q)) == r then toHex r else "jacobian-affine-mismatch"
    | _, _ => "bad-op"
  | ["g2mul", a, k] => match pt2? a, k.toNat? with
    | some p, some k =>
      let r := g2Marshal (p.mul k)
      if j2Marshal (j2Mul (Jac2.ofPt p) k) == r then toHex r else "jacobian-affine-mismatch"
    | _, _ => "bad-op"
  | ["pkgen", k] => match k.toNat? with
    | some k =>
      let pk := generatePubkey k
      -- serialise, and parse back the way every consumer does
      pubReport pk ++ " back=" ++ pubReport (byteToPublicKey (Pub.serialize pk))
    | none => "bad-op"
  | "pkagg" :: hs => match pt2List? hs with
    | some ps => match aggregatePubkeys ps with
      | some q => toHex (g2Marshal q)
      | none => "nil"
    | none => "bad-op"
  | ["j2lin", a, k1, b, k2] => match pt2? a, k1.toNat?, pt2? b, k2.toNat? with
    -- G2: Add(ScalarMult(a,k1), ScalarMult(b,k2)) and Neg of the first, on non-normalised operands
    | some p, some k1, some q, some k2 =>
      let x := j2Mul (Jac2.ofPt p) k1
      toHex (j2Marshal (j2Add x (j2Mul (Jac2.ofPt q) k2))) ++ " " ++ toHex (j2Marshal (j2Neg x))
        ++ " " ++ toHex (j2Marshal (j2Add x x))
    | _, _, _, _ => "bad-op"
  | ["sigeq", h1, h2] => match ofHex? h1, ofHex? h2 with
    | some b1, some b2 => b01 (sigIsEqual (deserializeSign b1) (deserializeSign b2))
    | _, _ => "bad-op"
  | ["pkeq", h1, h2] => match ofHex? h1, ofHex? h2 with
    | some b1, some b2 => b01 (pubIsEqual (byteToPublicKey b1) (byteToPublicKey b2))
    | _, _ => "bad-op"
  | ["scpred", a, b] => match a.toNat?, b.toNat? with
    | some a, some b => "valid=" ++ b01 (scalarIsValid a) ++ " eq=" ++ b01 (scalarIsEqual a b)
    | _, _ => "bad-op"
  | "skagg" :: ks => match ks.mapM String.toNat? with
    | some vs => match aggregateSeckeys vs with
      | some v => toString v
      | none => "nil"
    | none => "bad-op"
  | ["skrand", h] => match ofHex? h with
    | some b => if b.length != 32 then "bad-op" else toString (seckeyFromRand b)
    | none => "bad-op"
  | ["newid", h] => match ofHex? h with
    | some b =>
      let pk := byteToPublicKey b
      toString (newIDFromPubkey pk) ++ " addr=" ++ toHex (pubGetAddress pk)
    | none => "bad-op"
  | ["idaddr", k] => match k.toNat? with
    | some k => match idToAddress k with
      | some a => toHex a
      | none => "PANIC"
    | none => "bad-op"
  | ["shorts", what, h] => match ofHex? h with
    | some b =>
      if what == "sig" then String.ofList (shortHex12 (sigGetHexString (deserializeSign b)))
      else if what == "pk" then String.ofList (shortHex12 (pubGetHexString (byteToPublicKey b)))
      else "bad-op"
    | none => "bad-op"
  | ["skhex", k] => match k.toNat? with
    | some k => String.ofList (bnGetHexString k)
    | none => "bad-op"
  | ["skseth", old, sh] => match old.toNat?, str? sh with
    | some old, some s => setHexStr (bnSetHexString old s) old
    | _, _ => "bad-op"
  | ["idhex", k] => match k.toNat? with
    | some k => match idGetHexString k with
      | some s => String.ofList s
      | none => "PANIC"
    | none => "bad-op"
  | ["idseth", old, sh] => match old.toNat?, str? sh with
    | some old, some s => setHexStr (bnSetHexString old s) old
    | _, _ => "bad-op"
  | ["idjson", k] => match k.toNat? with
    | some k => match idGetHexString k with
      | some s => String.ofList (jsonQuote s)
      | none => "PANIC"
    | none => "bad-op"
  | ["idunjson", old, sh] => match old.toNat?, str? sh with
    | some old, some s => match jsonStrip s with
      | some inner => setHexStr (bnSetHexString old inner) old
      | none => "short " ++ toString old
    | _, _ => "bad-op"
  | ["sighex", h] => match ofHex? h with
    | some b => String.ofList (sigGetHexString (deserializeSign b))
    | none => "bad-op"
  | ["sigseth", h, sh] => match ofHex? h, str? sh with
    | some b, some s =>
      let (v, e) := sigSetHexString (deserializeSign b) s
      "err=" ++ b01 e ++ " " ++ sigReport v
    | _, _ => "bad-op"
  | ["pkhex", h] => match ofHex? h with
    | some b => String.ofList (pubGetHexString (byteToPublicKey b))
    | none => "bad-op"
  | ["pkseth", h, sh] => match ofHex? h, str? sh with
    | some b, some s =>
      let (v, e) := pubSetHexString (byteToPublicKey b) s
      "err=" ++ b01 e ++ " " ++ pubReport v
    | _, _ => "bad-op"
  | ["pkjson", h] => match ofHex? h with
    | some b => String.ofList (jsonQuote (pubGetHexString (byteToPublicKey b)))
    | none => "bad-op"
  | ["pkunjson", h, sh] => match ofHex? h, str? sh with
    | some b, some s => match jsonStrip s with
      | some inner =>
        let (v, e) := pubSetHexString (byteToPublicKey b) inner
        "err=" ++ b01 e ++ " " ++ pubReport v
      | none => "short " ++ pubReport (byteToPublicKey b)
    | _, _ => "bad-op"
  | ["skser", k] => match k.toNat? with
    | some k => toHex (scalarSerialize k)
    | none => "bad-op"
  | ["skdes", h] => match ofHex? h with
    | some b => toString (scalarDeserialize b)
    | none => "bad-op"
  | ["skmod", k] => match k.toNat? with
    | some k => toString (seckeyFromNat k)
    | none => "bad-op"
  | ["idser", k] => match k.toNat? with
    | some k => match idSerialize k with
      | some b => toHex b
      | none => "PANIC"
    | none => "bad-op"
  | ["iddes", h] => match ofHex? h with
    | some b => toString (scalarDeserialize b)
    | none => "bad-op"
  | _ => "bad-op"
  ((), r)

def run : IO Unit := runLines () step
end Rangers.Drive.C14
