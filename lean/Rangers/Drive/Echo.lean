import Rangers.Basic.Hex
import Rangers.Basic.Line
/- Self-test driver: `hex <h>` echoes canonical hex, `nat <h>` prints beToNat. -/
namespace Rangers.Drive.Echo
open Rangers

def step (_ : Unit) (line : String) : Unit × String :=
  match splitWords line with
  | ["hex", h] => match ofHex? h with
    | some b => ((), toHex b)
    | none => ((), "bad-op")
  | ["nat", h] => match ofHex? h with
    | some b => ((), toString (beToNat b) ++ " " ++ toHex (natToBE (beToNat b)))
    | none => ((), "bad-op")
  | _ => ((), "bad-op")

def run : IO Unit := runLines () step
end Rangers.Drive.Echo
