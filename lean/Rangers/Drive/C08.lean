import Rangers.Basic.Hex
import Rangers.Basic.Line
import Rangers.Model.RLP
import Rangers.Model.RLPStream
import Rangers.Model.RLPTyped
import Rangers.Model.RLPEncbuf
/-!
Line-protocol driver for C08 (RLP).  Ops (see harness/cmd/c08/main.go):

  split|splitstr|splitlist|count <hex>     raw.go functions, error-exact
  any <hex>                                DecodeBytes(b,&interface{}) through the Stream model, error-exact
  anyp <hex>                               the same through the pure recursive descent (`decodeBytes`), ok/err
  stream <auto|lim<k>|unl> <hex> <op,op,…> a script of Stream method calls, error-exact, + bytes consumed
  dec <type> <hex>                         typed DecodeBytes (pure model `decodeTy`), ok/err + value
  enc <type> <value>                       typed EncodeToBytes (`encT`)
  hist <order> <elem> <value> <hex> <hex>   plain/tail slice coders of fresh types in a given order (type-cache history)
  api <step;step;…>                        a session of API calls on shared library state (see `apiStep`)
  encbuf <value>                           EncodeToBytes of a []byte/[]interface{} tree through the encbuf model (`encodeViaBuf`)

Unparseable lines answer `bad-op` (never a default).
-/
namespace Rangers.Drive.C08
open Rangers Rangers.RLP

/-! value / type text -/

mutual
  def valToks : Val → List String
    | .num n => ["N" ++ toString n]
    | .bool b => [if b then "T" else "F"]
    | .bytes b => ["B" ++ toHex b]
    | .list vs => ("L" ++ toString vs.length) :: valsToks vs
    | .nil => ["Z"]
    | .some v => "P" :: valToks v
  def valsToks : List Val → List String
    | [] => []
    | v :: vs => valToks v ++ valsToks vs
end

def showVal (v : Val) : String := ",".intercalate (valToks v)

mutual
  def itemVal : Item → Val
    | .str b => .bytes b
    | .list xs => .list (itemsVal xs)
  def itemsVal : List Item → List Val
    | [] => []
    | x :: xs => itemVal x :: itemsVal xs
end

mutual
  /-- value text restricted to byte strings and lists, as an item -/
  def valItem? : Val → Option Item
    | .bytes b => some (.str b)
    | .list vs => (valsItems? vs).map Item.list
    | _ => none
  def valsItems? : List Val → Option (List Item)
    | [] => some []
    | v :: vs =>
      match valItem? v, valsItems? vs with
      | some x, some xs => some (x :: xs)
      | _, _ => none
end

def natOf? (s : String) : Option Nat := if s.isEmpty then none else s.toNat?

def dropS (s : String) (n : Nat) : String := String.ofList (s.toList.drop n)

mutual
  def parseVal : Nat → List String → Option (Val × List String)
    | 0, _ => none
    | _ + 1, [] => none
    | f + 1, t :: ts =>
      if t == "T" then some (.bool true, ts)
      else if t == "F" then some (.bool false, ts)
      else if t == "Z" then some (.nil, ts)
      else if t == "P" then
        match parseVal f ts with
        | some (v, ts) => some (.some v, ts)
        | none => none
      else if t.startsWith "N" then
        match natOf? (dropS t 1) with
        | some n => some (.num n, ts)
        | none => none
      else if t.startsWith "B" then
        match ofHex? (dropS t 1) with
        | some b => some (.bytes b, ts)
        | none => none
      else if t.startsWith "L" then
        match natOf? (dropS t 1) with
        | some n =>
          match parseVals f n ts with
          | some (vs, ts) => some (.list vs, ts)
          | none => none
        | none => none
      else none
  def parseVals : Nat → Nat → List String → Option (List Val × List String)
    | 0, _, _ => none
    | _ + 1, 0, ts => some ([], ts)
    | f + 1, n + 1, ts =>
      match parseVal f ts with
      | none => none
      | some (v, ts) =>
        match parseVals f n ts with
        | none => none
        | some (vs, ts) => some (v :: vs, ts)
end

mutual
  def parseTy : Nat → List String → Option (Ty × List String)
    | 0, _ => none
    | _ + 1, [] => none
    | f + 1, t :: ts =>
      if t == "u8" then some (.uint 8, ts)
      else if t == "u16" then some (.uint 16, ts)
      else if t == "u32" then some (.uint 32, ts)
      else if t == "u64" then some (.uint 64, ts)
      else if t == "big" then some (.big, ts)
      else if t == "bool" then some (.bool, ts)
      else if t == "str" then some (.str, ts)
      else if t == "bytes" then some (.bytes, ts)
      else if t == "raw" then some (.raw, ts)
      else if t == "any" then some (.any, ts)
      else if t.startsWith "TreeT" then (natOf? (dropS t 5)).map fun d => (treeTTy d, ts)
      else if t.startsWith "TreeP" then (natOf? (dropS t 5)).map fun d => (treePTy d, ts)
      else if t.startsWith "Tree" then (natOf? (dropS t 4)).map fun d => (treeTy d, ts)
      else if t.startsWith "Link" then (natOf? (dropS t 4)).map fun d => (linkTy d, ts)
      else if t.startsWith "MA" then (natOf? (dropS t 2)).map fun d => (maTy d, ts)
      else if t.startsWith "MB" then (natOf? (dropS t 2)).map fun d => (mbTy d, ts)
      else if t == "S" then
        match parseTy f ts with
        | some (e, ts) => some (.slice e, ts)
        | none => none
      else if t == "P" then
        match parseTy f ts with
        | some (e, ts) => some (.ptr e, ts)
        | none => none
      else if t.startsWith "a" then
        match natOf? (dropS t 1) with
        | some n => some (.barr n, ts)
        | none => none
      else if t.startsWith "A" then
        match natOf? (dropS t 1) with
        | some n =>
          match parseTy f ts with
          | some (e, ts) => some (.arr n e, ts)
          | none => none
        | none => none
      else if t.startsWith "R" then
        match natOf? (dropS t 1) with
        | some n =>
          match parseFields f n ts with
          | some (fs, ts) => some (.struct fs, ts)
          | none => none
        | none => none
      else none
  def parseFields : Nat → Nat → List String → Option (List (Tag × Ty) × List String)
    | 0, _, _ => none
    | _ + 1, 0, ts => some ([], ts)
    | f + 1, n + 1, ts =>
      let (tag, ts) := match ts with
        | "nil" :: r => (Tag.nilOK, r)
        | "tail" :: r => (Tag.tail, r)
        | r => (Tag.none, r)
      match parseTy f ts with
      | none => none
      | some (ty, ts) =>
        match parseFields f n ts with
        | none => none
        | some (fs, ts) => some ((tag, ty) :: fs, ts)
end

def tyOf? (s : String) : Option Ty :=
  let ts := s.splitOn ","
  match parseTy (2 * ts.length + 2) ts with
  | some (ty, []) => some ty
  | _ => none

def valOf? (s : String) : Option Val :=
  let ts := s.splitOn ","
  match parseVal (2 * ts.length + 2) ts with
  | some (v, []) => some v
  | _ => none

/-! stream scripts -/

def errS (e : Err) : String := "!" ++ e.name

def streamOp (s : Stream) (op : String) : Option (String × Stream) :=
  if op == "k" then
    match sKind s with
    | (.ok (k, n), s) => some ("K:" ++ k.name ++ ":" ++ toString n, s)
    | (.error e, s) => some (errS e, s)
  else if op == "b" then
    match sBytes s with
    | (.ok b, s) => some ("B:" ++ toHex b, s)
    | (.error e, s) => some (errS e, s)
  else if op == "r" then
    match sRaw s with
    | (.ok b, s) => some ("R:" ++ toHex b, s)
    | (.error e, s) => some (errS e, s)
  else if op == "u8" ∨ op == "u16" ∨ op == "u32" ∨ op == "u64" then
    let bits := if op == "u8" then 8 else if op == "u16" then 16 else if op == "u32" then 32 else 64
    match sUint s bits with
    | (.ok n, s) => some ("U:" ++ toString n, s)
    | (.error e, s) => some (errS e, s)
  else if op == "t" then
    match sBool s with
    | (.ok b, s) => some ("T:" ++ toString b, s)
    | (.error e, s) => some (errS e, s)
  else if op == "l" then
    match sList s with
    | (.ok n, s) => some ("L:" ++ toString n, s)
    | (.error e, s) => some (errS e, s)
  else if op == "e" then
    match sListEnd s with
    | (none, s) => some ("E", s)
    | (some e, s) => some (errS e, s)
  else if op == "a" then
    match sDecodeAny (anyFuel s) s with
    | (.ok it, s) => some ("A:" ++ showVal (itemVal it), s)
    | (.error e, s) => some (errS e, s)
  else none

def runScript : Stream → List String → List String → Option (List String × Stream)
  | s, [], acc => some (acc.reverse, s)
  | s, op :: ops, acc =>
    match streamOp s op with
    | none => none
    | some (r, s) => runScript s ops (r :: acc)

def mkStream (mode : String) (b : Bytes) : Option Stream :=
  if mode == "auto" then some (newStream b 0)
  else if mode == "unl" then some (newStreamUnlimited b)
  else if mode.startsWith "lim" then
    match natOf? (dropS mode 3) with
    | some k => some (newStream b k)
    | none => none
  else none

def resE (r : Except Err String) : String :=
  match r with
  | .ok s => "ok " ++ s
  | .error e => "err " ++ e.name

def resCoarse (r : Except Err String) : String :=
  match r with
  | .ok s => "ok " ++ s
  | .error _ => "err"

/-! ### `api` sessions: several API calls on shared library state (pools, caches, one reused Stream).
    The model is pure, so every step's answer depends on its own arguments only (and, for a reader,
    on what was already read from it) — whatever else happened in between. -/

structure Sess where
  readers : List (String × Bytes × Bool)   -- id, bytes not yet read, EOF seen
  kept : List String                        -- every byte result produced so far (for `chk`)

def encHex (ty : Ty) (v : Val) : Option String :=
  match encT ty v with
  | .ok b => some (toHex b)
  | .error _ => none

def setReader (rs : List (String × Bytes × Bool)) (id : String) (b : Bytes) (eof : Bool) : List (String × Bytes × Bool) :=
  (id, b, eof) :: rs.filter (fun r => r.1 != id)

def getReader (rs : List (String × Bytes × Bool)) (id : String) : Option (Bytes × Bool) :=
  match rs.find? (fun r => r.1 == id) with
  | some (_, b, e) => some (b, e)
  | none => none

/-- the nested-encoder fixture: `outer{Pre string; In inner{V []uint64}; Post uint64}`, `inner.EncodeRLP`
    writes the encoding of `V` obtained from a nested EncodeToBytes / EncodeToReader / Encode -/
def nestedTy : Ty := .struct [(.none, .str), (.none, .slice (.uint 64)), (.none, .uint 64)]

def apiStep (ss : Sess) (st : String) : Option (String × Sess) :=
  match st.splitOn ":" with
  | ["eb", t, v] | ["ew", t, v] =>
    match tyOf? t, valOf? v with
    | some ty, some val =>
      match encHex ty val with
      | some h => some (h, { ss with kept := ss.kept ++ [h] })
      | none => some ("!", ss)
    | _, _ => none
  | ["en", _, v] =>
    match valOf? v with
    | some val =>
      match encHex nestedTy val with
      | some h => some (h, { ss with kept := ss.kept ++ [h] })
      | none => some ("!", ss)
    | none => none
  | ["er", id, t, v] =>
    match tyOf? t, valOf? v with
    | some ty, some val =>
      match encT ty val with
      | .ok b => some (toString b.length, { ss with readers := setReader ss.readers id b false })
      | .error _ => some ("!", ss)
    | _, _ => none
  | ["rd", id, n] =>
    match getReader ss.readers id, natOf? n with
    | some (b, eof), some k =>
      if eof then some ("-$", ss)
      else
        let got := b.take k
        let rest := b.drop k
        let e := decide (k ≥ b.length)
        some (toHex got ++ (if e then "$" else ""), { ss with readers := setReader ss.readers id rest e })
    | _, _ => none
  | ["dr", id] =>
    match getReader ss.readers id with
    | some (b, _) =>
      let h := toHex b
      some (h, { ss with readers := setReader ss.readers id [] true, kept := ss.kept ++ [h] })
    | none => none
  | ["db", t, h] =>
    match tyOf? t, ofHex? h with
    | some ty, some b => some (resCoarse ((decodeTy ty b).map showVal), ss)
    | _, _ => none
  | ["dd", t, h] =>
    match tyOf? t, ofHex? h with
    | some ty, some b =>
      match decT (typedFuel ty b) ty b with
      | .ok (v, _) => some ("ok " ++ showVal v, ss)
      | .error _ => some ("err", ss)
    | _, _ => none
  | ["sr", h, ops] =>
    match ofHex? h with
    | some b =>
      match runScript (newStream b 0) (ops.splitOn ",") [] with
      | some (rs, s) => some ("|".intercalate rs ++ "|c=" ++ toString s.consumed, ss)
      | none => none
    | none => none
  | ["sl", n, h, ops] =>
    match ofHex? h, natOf? n with
    | some b, some k =>
      let s0 := newStream b k
      match runScript { s0 with kind := some .list, size := k } (ops.splitOn ",") [] with
      | some (rs, s) => some ("|".intercalate rs ++ "|c=" ++ toString s.consumed, ss)
      | none => none
    | _, _ => none
  | ["fx", k] =>
    if k == "neg" ∨ k == "int" ∨ k == "chan" then some ("!", ss) else none
  | ["wf", n, t, v] =>
    match natOf? n, tyOf? t, valOf? v with
    | some k, some ty, some val =>
      match encT ty val with
      | .ok b =>
        if b.length ≤ k then some (toHex b, { ss with kept := ss.kept ++ [toHex b] }) else some ("!p", ss)
      | .error _ => some ("!", ss)
    | _, _, _ => none
  | ["rf", n, t, h] =>
    match natOf? n, tyOf? t, ofHex? h with
    | some k, some ty, some b =>
      match decT (typedFuel ty b) ty b with
      | .ok (v, rest) => if b.length - rest.length ≤ k then some ("ok " ++ showVal v, ss) else some ("err", ss)
      | .error _ => some ("err", ss)
    | _, _, _ => none
  | ["chk"] => some (",".intercalate ss.kept, ss)
  | _ => none

def runApi : Sess → List String → List String → Option (List String)
  | _, [], acc => some acc.reverse
  | ss, st :: sts, acc =>
    match apiStep ss st with
    | none => none
    | some (r, ss) => runApi ss sts (r :: acc)

def step (_ : Unit) (line : String) : Unit × String :=
  let ans : String :=
    match splitWords line with
    | ["split", h] =>
      match ofHex? h with
      | some b => resE ((split b).map fun (k, c, r) => k.name ++ " " ++ toHex c ++ " " ++ toHex r)
      | none => "bad-op"
    | ["splitstr", h] =>
      match ofHex? h with
      | some b => resE ((splitString b).map fun (c, r) => toHex c ++ " " ++ toHex r)
      | none => "bad-op"
    | ["splitlist", h] =>
      match ofHex? h with
      | some b => resE ((splitList b).map fun (c, r) => toHex c ++ " " ++ toHex r)
      | none => "bad-op"
    | ["count", h] =>
      match ofHex? h with
      | some b => resE ((countValues b).map toString)
      | none => "bad-op"
    | ["any", h] =>
      match ofHex? h with
      | some b => resE ((sDecodeBytesAny b).map fun it => showVal (itemVal it))
      | none => "bad-op"
    | ["anyp", h] =>
      match ofHex? h with
      | some b => resCoarse ((decodeBytes b).map fun it => showVal (itemVal it))
      | none => "bad-op"
    | ["stream", mode, h, ops] =>
      match ofHex? h with
      | some b =>
        match mkStream mode b with
        | some s =>
          match runScript s (ops.splitOn ",") [] with
          | some (rs, s) => ";".intercalate rs ++ " c=" ++ toString s.consumed
          | none => "bad-op"
        | none => "bad-op"
      | none => "bad-op"
    | ["dec", t, h] =>
      match tyOf? t, ofHex? h with
      | some ty, some b => resCoarse ((decodeTy ty b).map showVal)
      | _, _ => "bad-op"
    | ["encbuf", v] =>
      match valOf? v with
      | some val =>
        match valItem? val with
        | some it => "ok " ++ toHex (encodeViaBuf it)
        | none => "bad-op"
      | none => "bad-op"
    | ["hist", order, t, v, ph, th] =>
      match tyOf? t, valOf? v, ofHex? ph, ofHex? th with
      | some e, some val, some pb, some tb =>
        if order.length != 4 then "bad-op" else
        let plainTy : Ty := .slice (.struct [(.none, e)])
        let tailTy : Ty := .struct [(.none, .uint 64), (.tail, plainTy)]
        resCoarse ((encT plainTy val).map toHex) ++ ";" ++
        resCoarse ((encT tailTy (.list [.num 7, val])).map toHex) ++ ";" ++
        resCoarse ((decodeTy plainTy pb).map showVal) ++ ";" ++
        resCoarse ((decodeTy tailTy tb).map showVal)
      | _, _, _, _ => "bad-op"
    | ["api", script] =>
      match runApi { readers := [], kept := [] } (script.splitOn ";") [] with
      | some rs => ";".intercalate rs
      | none => "bad-op"
    | ["enc", t, v] =>
      match tyOf? t, valOf? v with
      | some ty, some val => resCoarse ((encT ty val).map toHex)
      | _, _ => "bad-op"
    | _ => "bad-op"
  ((), ans)

def run : IO Unit := runLines () step
end Rangers.Drive.C08
