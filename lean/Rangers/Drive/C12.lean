import Rangers.Basic.Hex
import Rangers.Basic.Line
import Rangers.Model.Evm12Tx
import Rangers.Model.Evm12Dump
/-
Line-protocol driver for C12.

  reset <p013> <p007> <cbn> {<kind> <addr> <balance>}*     kind: e(oa) h(osted contract) m(iner contract) p(recompile)
  tx <hash> <origin> call <target> <value> <frame…>
  tx <hash> <origin> create <value> <frame…>
  frame <kind> <depth> <ro> <self> <target> <value> <frame…>     one frame entry point, no tx wrapper
  dump

Frame tokens (prefix form): E <ending> | S k v F | T k v F | L n tag F | D addr
  | C id kind target value F F | N id two salt value F F | A id auth nonce target value F F
  | K amount F | U amount F | V F | Q addr F   (STAKE / UNSTAKE amount in whole RPG, UNSTAKEALL, STAKENUM)
Anything unparsable answers `bad-op`.
-/
namespace Rangers.Drive.C12
open Rangers Rangers.Model.Evm12

structure St where
  cfg : Cfg := {}
  w : World := {}
  idx : Nat := 0
  pre : List Addr := []
  miners : List Addr := []
  /-- branch statistics: how often each outcome of a frame / transaction was produced by the model -/
  counts : List (String × Nat) := []

partial def parseAddrToks : List String → Option (Addr × List String)
  | "c" :: rest => do
    let (c, rest) ← parseAddrToks rest
    match rest with
    | n :: rest => do let n ← n.toNat?; pure (.created c n, rest)
    | [] => none
  | "d" :: rest => do
    let (c, rest) ← parseAddrToks rest
    match rest with
    | n :: rest => do let n ← n.toNat?; pure (.created2 c n, rest)
    | [] => none
  | t :: rest =>
    if t.startsWith "b" then do
      let n ← (t.drop 1).toNat?
      pure (.base n, rest)
    else none
  | [] => none

def parseAddr (s : String) : Option Addr :=
  match parseAddrToks (s.splitOn ".") with
  | some (a, []) => some a
  | _ => none

def parseEnding : List String → Option (Ending × List String)
  | "stop" :: r => some (.stop, r)
  | "revert" :: r => some (.revert, r)
  | "invalid" :: r => some (.invalid, r)
  | "oog" :: r => some (.oog, r)
  | "retbig" :: r => some (.retBig, r)
  | "retmax" :: r => some (.retBig, r)   -- RETURN of exactly MaxCodeSize bytes: allowed size, unaffordable deposit
  | "rethuge" :: r => some (.retHuge, r)
  | "retcode" :: t :: r => do let t ← t.toNat?; pure (.retCode t, r)
  | _ => none

def parseKind : String → Option CallKind
  | "call" => some .call
  | "callcode" => some .callcode
  | "delegatecall" => some .delegatecall
  | "staticcall" => some .staticcall
  | _ => none

partial def parseFrame : List String → Option (Frame × List String)
  | "E" :: r => do let (e, r) ← parseEnding r; pure (.done e, r)
  | "S" :: k :: v :: r => do
    let k ← k.toNat?; let v ← v.toNat?; let (f, r) ← parseFrame r; pure (.sstore k v f, r)
  | "T" :: k :: v :: r => do
    let k ← k.toNat?; let v ← v.toNat?; let (f, r) ← parseFrame r; pure (.tstore k v f, r)
  | "L" :: n :: t :: r => do
    let n ← n.toNat?; let t ← t.toNat?
    if h : n < 5 then
      let (f, r) ← parseFrame r; pure (.log ⟨n, h⟩ t f, r)
    else none
  | "D" :: a :: r => do let a ← parseAddr a; pure (.selfdestruct a, r)
  | "C" :: id :: kind :: tgt :: v :: r => do
    let id ← id.toNat?; let kind ← parseKind kind; let tgt ← parseAddr tgt; let v ← v.toNat?
    let (b, r) ← parseFrame r; let (f, r) ← parseFrame r
    pure (.call id kind tgt v b f, r)
  | "N" :: id :: two :: salt :: v :: r => do
    let id ← id.toNat?; let two ← two.toNat?; let salt ← salt.toNat?; let v ← v.toNat?
    if two > 1 then none else
    let (b, r) ← parseFrame r; let (f, r) ← parseFrame r
    pure (.create id (two == 1) salt v b f, r)
  | "A" :: id :: au :: n :: tgt :: v :: r => do
    let id ← id.toNat?; let n ← n.toNat?; let tgt ← parseAddr tgt; let v ← v.toNat?
    let au ← if au == "-" then some none else (parseAddr au).map some
    let (b, r) ← parseFrame r; let (f, r) ← parseFrame r
    pure (.authcall id au n tgt v b f, r)
  | "K" :: a :: r => do let a ← a.toNat?; let (f, r) ← parseFrame r; pure (.stake a f, r)
  | "U" :: a :: r => do let a ← a.toNat?; let (f, r) ← parseFrame r; pure (.unstake a f, r)
  | "V" :: r => do let (f, r) ← parseFrame r; pure (.unstakeall f, r)
  | "Q" :: a :: r => do let a ← parseAddr a; let (f, r) ← parseFrame r; pure (.stakenum a f, r)
  | _ => none

def parseBool : String → Option Bool
  | "0" => some false
  | "1" => some true
  | _ => none

partial def parseAccounts (st : St) : List String → Option St
  | [] => some st
  | kind :: a :: b :: r => do
    let a ← parseAddr a; let b ← b.toNat?
    let w := if b = 0 then st.w else st.w.addBalance a b
    match kind with
    | "e" => parseAccounts { st with w := w } r
    | "h" => parseAccounts { st with w := w.setCode a .hosted } r
    | "m" =>
      -- a contract registered as validator miner account: stake 400 (ValidatorStake), `b` is the balance left
      let w1 := w.setCode a .hosted
      parseAccounts { st with w := { w1 with stake := w1.stake.set a 400 }, miners := a :: st.miners } r
    | "p" => parseAccounts { st with w := w, pre := a :: st.pre } r
    | _ => none
  | _ => none

def errName : Option Err → String
  | none => "ok"
  | some e => e.name

def traceStr (tr : List Event) : String :=
  joinWith "," (tr.map (fun e => toString e.id ++ (if e.ok then "+" else "-") ++ e.world.digest))

def logsStr (ls : List Log) : String := joinWith ";" (ls.map Log.name)

/-- what a receipt of the real block loop shows: error class, the result JSON's log list (successful
    transactions only), `receipt.Logs` -/
def bump (cs : List (String × Nat)) (k : String) : List (String × Nat) :=
  match cs with
  | [] => [(k, 1)]
  | (k', n) :: rest => if k' == k then (k', n + 1) :: rest else (k', n) :: bump rest k

def countReceipt (cs : List (String × Nat)) (rc : Receipt) : List (String × Nat) :=
  let cs := bump cs ("tx:" ++ errName rc.err)
  rc.trace.foldl (fun acc e => bump acc ("frame:" ++ errName e.err)) cs

def receiptStr (rc : Receipt) : String :=
  errName rc.err ++ " R[" ++ (if rc.err.isNone then logsStr rc.returned else "?") ++ "] G[" ++ logsStr rc.logs ++ "]"

def finishCfg (st : St) : St :=
  let pre := st.pre
  let miners := st.miners
  { st with cfg := { st.cfg with isPrecompile := fun a => pre.contains a, isMiner := fun a => miners.contains a } }

def step (st : St) (line : String) : St × String :=
  match splitWords line with
  | "reset" :: p13 :: p7 :: cbn :: accts =>
    match parseBool p13, parseBool p7, parseBool cbn with
    | some p13, some p7, some cbn =>
      let st0 : St := { cfg := { p013 := p13, p007 := p7, createBumpsNonce := cbn }, counts := st.counts }
      match parseAccounts st0 accts with
      | some st1 => let st2 := finishCfg st1; (st2, st2.w.dump)
      | none => (st, "bad-op")
    | _, _, _ => (st, "bad-op")
  | "tx" :: h :: origin :: "call" :: tgt :: v :: toks =>
    match h.toNat?, parseAddr origin, parseAddr tgt, v.toNat?, parseFrame toks with
    | some h, some o, some t, some v, some (f, []) =>
      let (w, rc) := execTx st.cfg restore st.idx st.w { hash := h, origin := o, kind := .call t, value := v, body := f }
      ({ st with w := w, idx := st.idx + 1, counts := countReceipt st.counts rc },
        errName rc.err ++ " E[" ++ traceStr rc.trace ++ "] R[" ++ logsStr rc.returned ++ "] G[" ++ logsStr rc.logs ++ "] " ++ w.dump)
    | _, _, _, _, _ => (st, "bad-op")
  | "tx" :: h :: origin :: "create" :: v :: toks =>
    match h.toNat?, parseAddr origin, v.toNat?, parseFrame toks with
    | some h, some o, some v, some (f, []) =>
      let (w, rc) := execTx st.cfg restore st.idx st.w { hash := h, origin := o, kind := .create, value := v, body := f }
      ({ st with w := w, idx := st.idx + 1, counts := countReceipt st.counts rc },
        errName rc.err ++ " E[" ++ traceStr rc.trace ++ "] R[" ++ logsStr rc.returned ++ "] G[" ++ logsStr rc.logs ++ "] " ++ w.dump)
    | _, _, _, _ => (st, "bad-op")
  | "rtx" :: h :: origin :: "call" :: tgt :: v :: toks =>
    -- one transaction of a block run by the unmodified VMExecutor.Execute: same model step, the answer is the receipt
    match h.toNat?, parseAddr origin, parseAddr tgt, v.toNat?, parseFrame toks with
    | some h, some o, some t, some v, some (f, []) =>
      let (w, rc) := execTx st.cfg restore st.idx st.w { hash := h, origin := o, kind := .call t, value := v, body := f }
      ({ st with w := w, idx := st.idx + 1, counts := countReceipt st.counts rc }, receiptStr rc)
    | _, _, _, _, _ => (st, "bad-op")
  | "rtx" :: h :: origin :: "create" :: v :: toks =>
    match h.toNat?, parseAddr origin, v.toNat?, parseFrame toks with
    | some h, some o, some v, some (f, []) =>
      let (w, rc) := execTx st.cfg restore st.idx st.w { hash := h, origin := o, kind := .create, value := v, body := f }
      ({ st with w := w, idx := st.idx + 1, counts := countReceipt st.counts rc }, receiptStr rc)
    | _, _, _, _ => (st, "bad-op")
  | ["rend"] => (st, st.w.dumpScratch)
  | ["branchstats"] =>
    (st, "branches " ++ joinWith " " ((sortDedup (st.counts.map (fun (k, n) => k ++ "=" ++ toString n)))))
  | ["fork", sched, h] =>
    -- the fork schedule / height the implementation runs the next block under; the model takes the flags
    -- it needs from the reset line
    if (sched == "mainnet" || sched == "robin") && h.toNat?.isSome then (st, "ok") else (st, "bad-op")
  | ["dump"] => (st, st.w.dump)
  | _ => (st, "bad-op")

def run : IO Unit := runLines ({} : St) step
end Rangers.Drive.C12
