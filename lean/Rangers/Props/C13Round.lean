import Mathlib.Data.ZMod.Basic
import Rangers.Model.Shamir
/-!
# C13 — `round1.Update`: block signature and random beacon are produced together

Theorems about `Model.Shamir.round1Update` (tied to the source by the regenerated fact
`round1_update_tail_pinned` and, for the generators it calls, by the `gen`/`lgen` streams).
-/
namespace Rangers.Props.C13Round
open Rangers.Model.Shamir

variable {G : Type}

/-- A piece that fails a guard, or carries a nil beacon share, changes nothing. -/
theorem round1_unchecked_is_noop (ops : Ops G) (r : Nat) (isValid : G → Bool) (st : Round1 G) (id : Nat)
    (sig rsig : Option G) (checked : Bool) (cg cr : Choice (Nat × Option G))
    (h : checked = false ∨ rsig = none) :
    round1Update ops r isValid st id sig rsig checked cg cr = .ok st := by
  unfold round1Update
  rcases h with h | h <;> simp [h]

/-- **round1_update_structure** (all inputs): after a step that does not panic,
    * the block-signature generator is exactly what `AddWitnessSign` makes of it;
    * `canProcessed` never goes back;
    * if this step set `canProcessed`, the header fields are the two generators' group signatures of
      this very step, and both generators reported `generated`;
    * if the block-signature share was not added, the beacon generator and the header are untouched. -/
theorem round1_update_structure (ops : Ops G) (r : Nat) (isValid : G → Bool) (st st' : Round1 G) (id : Nat)
    (sig : Option G) (rs : G) (cg cr : Choice (Nat × Option G))
    (h : round1Update ops r isValid st id sig (some rs) true cg cr = .ok st') :
    (∃ add gen, addWitnessSign ops r isValid st.g id sig cg = .ok (st'.g, add, gen) ∧
      (add = false → st'.r = st.r ∧ st'.blockSig = st.blockSig ∧ st'.blockRandom = st.blockRandom ∧
        st'.canProcessed = st.canProcessed) ∧
      (add = true → ∃ radd rgen, addWitnessSign ops r isValid st.r id (some rs) cr = .ok (st'.r, radd, rgen) ∧
        ((radd && gen && rgen) = true →
          st'.canProcessed = true ∧ st'.blockSig = st'.g.groupSign ∧ st'.blockRandom = st'.r.groupSign) ∧
        ((radd && gen && rgen) = false →
          st'.canProcessed = st.canProcessed ∧ st'.blockSig = st.blockSig ∧ st'.blockRandom = st.blockRandom))) ∧
    (st.canProcessed = true → st'.canProcessed = true) := by
  unfold round1Update at h
  simp only [Bool.not_true, Option.isNone_some, Bool.or_self, Bool.false_eq_true, if_false] at h
  cases hg : addWitnessSign ops r isValid st.g id sig cg with
  | panic => rw [hg] at h; cases h
  | ok res =>
    obtain ⟨g', add, gen⟩ := res
    rw [hg] at h
    simp only at h
    cases add with
    | false =>
      simp only [Bool.not_false, if_true] at h
      injection h with h; subst h
      refine ⟨⟨false, gen, rfl, ?_, ?_⟩, fun h => h⟩
      · intro _; exact ⟨rfl, rfl, rfl, rfl⟩
      · intro h; cases h
    | true =>
      simp only [Bool.not_true, Bool.false_eq_true, if_false] at h
      cases hr : addWitnessSign ops r isValid st.r id (some rs) cr with
      | panic => rw [hr] at h; cases h
      | ok res2 =>
        obtain ⟨r', radd, rgen⟩ := res2
        rw [hr] at h
        simp only at h
        by_cases hc : (radd && gen && rgen) = true
        · rw [if_pos hc] at h
          injection h with h; subst h
          refine ⟨⟨true, gen, rfl, ?_, ?_⟩, fun _ => rfl⟩
          · intro h; cases h
          · intro _
            refine ⟨radd, rgen, rfl, ?_, ?_⟩
            · intro _; exact ⟨rfl, rfl, rfl⟩
            · intro h; rw [hc] at h; cases h
        · rw [if_neg hc] at h
          injection h with h; subst h
          have hc' : (radd && gen && rgen) = false := by simpa using hc
          refine ⟨⟨true, gen, rfl, ?_, ?_⟩, fun h => h⟩
          · intro h; cases h
          · intro _
            refine ⟨radd, rgen, rfl, ?_, ?_⟩
            · intro h; rw [hc'] at h; cases h
            · intro _; exact ⟨rfl, rfl, rfl⟩

/-- Feed a list of checked arrivals `(id, blockShare, beaconShare)` with identity choices. -/
def feedRound (ops : Ops G) (r : Nat) (isValid : G → Bool) : Round1 G → List (Nat × G × G) → Res (Round1 G)
  | st, [] => .ok st
  | st, (x, s, rs) :: rest =>
    match round1Update ops r isValid st x (some s) (some rs) true ⟨id, [], id⟩ ⟨id, [], id⟩ with
    | .panic => .panic
    | .ok st' => feedRound ops r isValid st' rest

/-- What the header shows after a run (`none` = panic). -/
def header : Res (Round1 G) → Option (Option G × Option G × Bool)
  | .ok st => some (st.blockSig, st.blockRandom, st.canProcessed)
  | .panic => none

/-- `ZMod 13` as its own module (the concrete instance for the examples). -/
def zops13 : Ops (ZMod 13) := ⟨(· + ·), fun g k => (k : ZMod 13) * g⟩

/-- non-vacuity / order independence on a concrete group (`r = 13`, threshold 2, member keys
    `f(1) = 10`, `f(15) = f(2) = 3`, `f(3) = 9` of `f = 4 + 6X`; block point 2, beacon point 5): whichever
    two members answer first, in whichever order, with a repeated sender in between, the header gets
    block signature `4·2 = 8` and beacon `4·5 = 7`, exactly when the second distinct member arrives. -/
example :
    feedRound zops13 13 (fun _ => true) (Round1.start 2) [(1, 10 * 2, 10 * 5)] =
      .ok ⟨⟨2, [(1, some 7)], none⟩, ⟨2, [(1, some 11)], none⟩, none, none, false⟩ ∧
    header (feedRound zops13 13 (fun _ => true) (Round1.start 2)
      [(1, 10 * 2, 10 * 5), (1, 10 * 2, 10 * 5), (15, 3 * 2, 3 * 5), (3, 9 * 2, 9 * 5)]) = some (some 8, some 7, true) ∧
    header (feedRound zops13 13 (fun _ => true) (Round1.start 2)
      [(3, 9 * 2, 9 * 5), (15, 3 * 2, 3 * 5)]) = some (some 8, some 7, true) := by
  decide

end Rangers.Props.C13Round
