import Rangers.Model.Pool
import Rangers.Generated.PoolFacts
/-!
# C17, part B — the tie to the source by generated facts (T-gen)

`Rangers.Generated.PoolFacts` is rewritten from the go-rangers working tree on every run by
`gen/cmd/c17facts`. The tables below record what `Model/Pool.lean` was transcribed from. Each
theorem compares a finite generated table with its recorded value (that is what `decide`/`rfl`
are used for here, nothing is sampled): a changed constant, a new or removed call that touches
pool state, a re-ordered state-relevant statement, a new caller of the pool's mutating
interface, or a new function reaching into the pool's fields makes an obligation fail, and the
model has to be re-read against the source.
-/
namespace Rangers.Props.C17B
open Rangers Rangers.Pool Rangers.Generated

/-- What `Model/Pool.lean` was transcribed from: per function the state-relevant calls in source order. -/
def expectedCalls : List (String × List String) := [
  ("Transactions.Less", ["common.IsProposal023", "bytes.Compare", "panic", "Cmp", "common.FromHex", "common.FromHex", "Cmp", "common.IsProposal021", "common.FromHex", "common.FromHex", "Cmp", "common.IsProposal016", "Cmp"]),
  ("TxPool.AddTransaction", ["lock.Lock", "lock.Unlock", "add", "refreshGateNonce"]),
  ("TxPool.Clear", ["db.NewDatabase", "batch.Reset", "newSimpleContainer"]),
  ("TxPool.Close", ["executed.Close", "received.Close"]),
  ("TxPool.GetExecuted", ["executed.Get", "json.Unmarshal"]),
  ("TxPool.GetGateNonce", ["executed.Get"]),
  ("TxPool.GetReceived", ["received.asSlice"]),
  ("TxPool.GetTransaction", ["received.get", "GetExecuted", "types.UnMarshalTransaction"]),
  ("TxPool.GetTransactionStatus", ["GetExecuted"]),
  ("TxPool.IsExisted", ["isTransactionExisted"]),
  ("TxPool.IsFull", ["received.isFull"]),
  ("TxPool.MarkExecuted", ["lock.Lock", "lock.Unlock", "findTxInList", "types.MarshalTransaction", "json.Marshal", "batch.Put", "batch.ValueSize", "batch.Write", "batch.Reset", "refreshGateNonce", "batch.ValueSize", "batch.Write", "batch.Reset", "evictedTxs.Add", "remove"]),
  ("TxPool.PackForCast", ["received.asSlice", "common.IsProposal018", "checkNonce"]),
  ("TxPool.TxNum", ["received.Len"]),
  ("TxPool.UnMarkExecuted", ["return", "lock.Lock", "lock.Unlock", "evictedTxs.Remove", "executed.Delete", "add"]),
  ("TxPool.add", ["isTransactionExisted", "received.push", "received.Len"]),
  ("TxPool.checkNonce", ["sort.Sort", "GetNonce", "common.HexToAddress"]),
  ("TxPool.isTransactionExisted", ["received.contains", "executed.Has"]),
  ("TxPool.refreshGateNonce", ["batch.Put"]),
  ("TxPool.remove", ["received.remove", "received.Len"]),
  ("findTxInList", []),
  ("newSimpleContainer", ["db.NewDatabase", "go", "loop"]),
  ("newTransactionPool", ["newSimpleContainer", "lru.New", "db.NewLDBDatabase", "executed.NewBatch"]),
  ("simpleContainer.Close", []),
  ("simpleContainer.Len", ["data.Size"]),
  ("simpleContainer.asSlice", ["data.Values"]),
  ("simpleContainer.contains", ["data.Contains"]),
  ("simpleContainer.get", ["data.Get"]),
  ("simpleContainer.growRing", ["txAnnualRingMap.Range", "txAnnualRingMap.Store", "remove"]),
  ("simpleContainer.isFull", ["data.Size"]),
  ("simpleContainer.loop", ["go", "growRing"]),
  ("simpleContainer.push", ["data.Size", "data.Set", "txAnnualRingMap.Store"]),
  ("simpleContainer.remove", ["data.Removes", "txAnnualRingMap.Delete"])
]

/-- call sites of the pool's mutating interface methods in src/ (file:function:method) -/
def expectedInterfaceCallers : List String := [
  "src/core/blockchain.go:blockChain.CastBlock:PackForCast",
  "src/core/blockchain.go:blockChain.remove:UnMarkExecuted",
  "src/core/blockchain_add.go:blockChain.updateTxPool:MarkExecuted",
  "src/core/game_executor.go:GameExecutor.sendTransaction:AddTransaction",
  "src/network/worker_conn.go:WorkerConn.handleMessage:AddTransaction"
]

/-- functions of package service that touch the pool's fields (file:function:field) -/
def expectedFieldUsers : List String := [
  "src/service/simple_container.go:simpleContainer.growRing:txAnnualRingMap",
  "src/service/simple_container.go:simpleContainer.push:txAnnualRingMap",
  "src/service/simple_container.go:simpleContainer.remove:txAnnualRingMap",
  "src/service/transaction_pool.go:TxPool.Clear:batch",
  "src/service/transaction_pool.go:TxPool.Clear:executed",
  "src/service/transaction_pool.go:TxPool.Clear:received",
  "src/service/transaction_pool.go:TxPool.Close:executed",
  "src/service/transaction_pool.go:TxPool.Close:received",
  "src/service/transaction_pool.go:TxPool.GetExecuted:executed",
  "src/service/transaction_pool.go:TxPool.GetGateNonce:executed",
  "src/service/transaction_pool.go:TxPool.GetReceived:received",
  "src/service/transaction_pool.go:TxPool.GetTransaction:received",
  "src/service/transaction_pool.go:TxPool.IsFull:received",
  "src/service/transaction_pool.go:TxPool.MarkExecuted:batch",
  "src/service/transaction_pool.go:TxPool.MarkExecuted:evictedTxs",
  "src/service/transaction_pool.go:TxPool.PackForCast:received",
  "src/service/transaction_pool.go:TxPool.TxNum:received",
  "src/service/transaction_pool.go:TxPool.UnMarkExecuted:evictedTxs",
  "src/service/transaction_pool.go:TxPool.UnMarkExecuted:executed",
  "src/service/transaction_pool.go:TxPool.add:received",
  "src/service/transaction_pool.go:TxPool.isTransactionExisted:executed",
  "src/service/transaction_pool.go:TxPool.isTransactionExisted:received",
  "src/service/transaction_pool.go:TxPool.refreshGateNonce:batch",
  "src/service/transaction_pool.go:TxPool.remove:received",
  "src/service/transaction_pool.go:newTransactionPool:batch",
  "src/service/transaction_pool.go:newTransactionPool:evictedTxs",
  "src/service/transaction_pool.go:newTransactionPool:executed",
  "src/service/transaction_pool.go:newTransactionPool:received"
]

/-- The model's block limit, pending limit and expiry ring are the source's constants. -/
theorem consts_as_modelled :
    PoolFacts.txCountPerBlock = Pool.txCountPerBlock ∧ PoolFacts.rcvTxPoolSize = Pool.rcvTxPoolSize ∧
    PoolFacts.expiredRing = Pool.expiredRing := by decide

/-- Every state-relevant call of the pool, the container and `Transactions.Less`, in source order,
is the one the model transcribes. -/
theorem calls_as_modelled : PoolFacts.calls = expectedCalls := by decide

/-- The pool's mutating interface is called from exactly the call sites the history model
(`Props/C17.lean`, `Op`) accounts for: `CastBlock` packs, `updateTxPool` marks, `remove` unmarks,
the network worker and the game executor submit. -/
theorem interface_callers_as_modelled : PoolFacts.interfaceCallers = expectedInterfaceCallers := by decide

/-- No other function of package `service` reaches into the pool's fields. -/
theorem field_users_as_modelled : PoolFacts.fieldUsers = expectedFieldUsers := by decide

/-- The fork schedules the correspondence run replays (heights on both sides of every proposal the pool's path
reads) are the source's mainnet and robin schedules. -/
theorem schedules_as_replayed :
    PoolFacts.mainNetSchedule = [54038500, 55959500, 61202000, 63100000] ∧
    PoolFacts.robinSchedule = [62320000, 65795000, 74312000, 77826000] := by decide

/-- No function of the pool, the container or `Transactions.Less` writes package-level state, except the
singleton set once at start-up: results cannot depend on hidden process-local history. -/
theorem no_package_state_written :
    PoolFacts.packageWrites = ["src/service/transaction_pool.go:initTransactionPool:txpoolInstance"] := by decide

/-- Which store errors the pool drops, as modelled: `MarkExecuted` has no error result and ignores what
`batch.Write` returns (a failed write loses the block's records silently — `Props/C17D.write_error_loses_records`),
`UnMarkExecuted` ignores `executed.Delete`. A change here (e.g. error handling added) must be re-read. -/
theorem dropped_errors_as_modelled :
    PoolFacts.droppedErrors = ["TxPool.refreshGateNonce:batch.Put", "TxPool.MarkExecuted:batch.Put",
      "TxPool.MarkExecuted:batch.Write", "TxPool.MarkExecuted:batch.Write", "TxPool.UnMarkExecuted:executed.Delete"] := by decide

/-- What `Model/PoolChain.lean` was transcribed from. -/
def expectedChainCalls : List (String × List String × List String) := [
  ("blockChain.AddBlockOnChain", ["consensusVerify", "addBlockOnChain"], []),
  ("blockChain.CastBlock", ["transactionPool.PackForCast", "sort.Sort", "common.IsProposal020", "runTransactions", "runTransactions"], ["height <= Height"]),
  ("blockChain.addBlockOnChain", ["HasBlockByHash", "verifyBlock", "insertBlock", "queryBlockHeaderByHash", "removeFromCommonAncestor", "addBlockOnChain", "QueryBlockHeaderByHeight", "chainPvGreatThanRemote", "removeFromCommonAncestor", "addBlockOnChain"], ["Hash == Hash", "PreHash == Hash", "TotalQN < TotalQN", "TotalQN > TotalQN"]),
  ("blockChain.consensusVerify", ["hasPreBlock", "futureBlocks.Add", "queryBlockHeaderByHash"], []),
  ("blockChain.insertBlock", ["markAddBlock", "saveBlockByHash", "saveBlockByHeight", "saveStates", "updateTxPool", "updateLastBlock", "successOnChainCallBack"], []),
  ("blockChain.remove", ["markRemoveBlock", "hashDB.Delete", "heightDB.Delete", "queryBlockByHash", "transactionPool.UnMarkExecuted"], []),
  ("blockChain.removeFromCommonAncestor", ["QueryBlockHeaderByHeight", "queryBlockByHash", "remove"], ["height > Height"]),
  ("blockChain.runTransactions", ["Execute", "common.IsProposal020", "common.IsProposal023", "verifiedBlocks.Add"], []),
  ("blockChain.successOnChainCallBack", ["futureBlocks.Get", "addBlockOnChain"], []),
  ("blockChain.updateTxPool", ["transactionPool.MarkExecuted"], []),
  ("blockChain.verifyBlock", ["verifiedBlocks.Contains", "queryBlockHeaderByHash", "futureBlocks.Add", "common.IsProposal008", "transactionPool.GetExecuted", "missTransaction", "common.IsProposal020", "checkStates"], []),
  ("chainPvGreatThanRemote", ["Cmp"], ["compareValue > 0", "compareValue < 0", "hashBigCompareValue > 0"])
]

/-- `VMExecutor.Execute` as read for `CBlock.receipts`: `continue` (Type 0), `break` (casting time-out), evicted + `continue`
(not addable, proposal 018), evicted (failed, before 018), then transaction and receipt appended together. -/
def expectedExecuteShape : List String := [
  "continue",
  "break",
  "append:evictedTxs",
  "continue",
  "append:evictedTxs",
  "append:transactions",
  "append:receipts"
]

/-- The chain's side as modelled: the order of the calls that reach the pool or decide the fork choice in
`AddBlockOnChain`, `consensusVerify`, `addBlockOnChain`, `verifyBlock` (proposal-008 test before execution),
`insertBlock` (`updateTxPool` before the head moves), `remove`, `removeFromCommonAncestor`, `CastBlock`,
`runTransactions`, `successOnChainCallBack`, and the comparison operators of the fork choice. -/
theorem chain_calls_as_modelled : PoolFacts.chainCalls = expectedChainCalls := by decide

/-- A receipt is appended exactly where its transaction is: `receipts_covered` (Props/C17F) rests on this shape. -/
theorem execute_shape_as_modelled : PoolFacts.executeShape = expectedExecuteShape := by decide

end Rangers.Props.C17B
