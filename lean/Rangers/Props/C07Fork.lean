import Rangers.Props.C07
import Rangers.Generated.C07Facts
/-!
# C07 — chain id by height on the built-in configurations

`chainIdStr` / `ethChainId` take the configuration as input; here they are instantiated with
the values the translator reads from `src/common/version.go` (pinned by
`Props.C07Facts.chain_configs`), so the fork-dependent clause of the property is stated for
the schedules the node really runs.
-/
namespace Rangers.Props.C07
open Rangers Rangers.Model.TxAuth

/-- main net: chain id "8888" before height 894116, "2025" from it on -/
def mainnetCfg : ChainCfg :=
  { chainId := [50, 48, 50, 53], originalChainId := [56, 56, 56, 56], proposal001Block := 894116, genesisChainId := none }

theorem mainnet_chain_id_by_height (h : Nat) :
    chainIdStr mainnetCfg h = (if h ≥ 894116 then [50, 48, 50, 53] else [56, 56, 56, 56]) ∧
    ethChainId mainnetCfg h = (if h ≥ 894116 then 2025 else 8888) := by
  unfold ethChainId chainIdStr mainnetCfg
  by_cases hh : h ≥ 894116 <;> simp [hh] <;> decide

/-- A native transaction admitted on main net before the Proposal001 fork is rejected from the
    fork height on, and vice versa (same signed bytes, other side of the fork). -/
theorem mainnet_fork_separates_native (cr : Crypto) (tx : Tx) (h h' : Nat)
    (hacc : verifyNative cr mainnetCfg h tx = .ok) (hside : (h ≥ 894116) ≠ (h' ≥ 894116)) :
    verifyNative cr mainnetCfg h' tx = .chainId := by
  apply other_height_rejected cr mainnetCfg h h' tx hacc
  rw [(mainnet_chain_id_by_height h).1, (mainnet_chain_id_by_height h').1]
  by_cases a : h ≥ 894116 <;> by_cases b : h' ≥ 894116 <;> simp [a, b] at hside ⊢

/-- The same for wrapped Ethereum transactions: the EIP-155 chain id an accepted payload is
    signed for is 8888 before the fork and 2025 from it on, so no protected payload is admitted on
    both sides (only the unprotected v = 27/28 ones are — the known finding). -/
theorem mainnet_fork_separates_eth (cr : Crypto) (tx : Tx) (h h' : Nat)
    (hacc : verifyEth cr mainnetCfg h tx = .ok) (hacc' : verifyEth cr mainnetCfg h' tx = .ok)
    (hside : (h ≥ 894116) ≠ (h' ≥ 894116)) : tx.chainId = [48] := by
  obtain ⟨e, hd, hc⟩ := eth_chain_bound_partial cr mainnetCfg h tx hacc
  obtain ⟨e', hd', hc'⟩ := eth_chain_bound_partial cr mainnetCfg h' tx hacc'
  rw [hd] at hd'; cases hd'
  rcases hc with ⟨_, hder, _⟩ | ⟨_, _, hz⟩
  · rcases hc' with ⟨_, hder', _⟩ | ⟨_, _, hz'⟩
    · exfalso
      rw [(mainnet_chain_id_by_height h).2] at hder
      rw [(mainnet_chain_id_by_height h').2] at hder'
      by_cases a : h ≥ 894116 <;> by_cases b : h' ≥ 894116 <;> simp [a, b] at hside hder hder' <;> omega
    · exact hz'
  · exact hz

example : (894115 ≥ 894116) ≠ (894116 ≥ 894116) := by decide

end Rangers.Props.C07
