import Rangers.Model.Evm12Frames
/-! C12, T-gen obligations: facts the translator `gen/cmd/c12facts` re-extracts from the go-rangers
working tree on every run (`Rangers/Generated/C12Facts.lean`), compared with what the model
transcribes. A changed `writes` flag, a new unflagged state-writing opcode, a re-ordered statement
in `evm.go`, a changed revert condition, a changed field list of `AccountDB.Prepare`, a moved
`Prepare`/`GetLogs` call of the block loop or a changed constant makes one of these fail; the model
itself reads `operation.writes` from the generated table (`opWrites`), so the frame theorems of
`Props/C12.lean` are re-checked against the flags the code has now. -/
namespace Rangers.Props.C12Facts
open Rangers.Model.Evm12 Rangers.Generated.C12

/-- every state-relevant opcode of the model is an entry of the live jump table -/
theorem ops_present :
    ∀ o ∈ [Op.sstore, .tstore, .log 0, .log 1, .log 2, .log 3, .log 4, .selfdestruct, .call, .callcode,
           .delegatecall, .staticcall, .create, .create2, .authcall, .stake, .unstake, .unstakeall, .stakenum],
      (findFact o.name opFacts).isSome = true := by decide

/-- the `writes` flags the frame theorems rely on -/
theorem model_write_flags :
    opWrites .sstore = true ∧ (∀ n : Fin 5, opWrites (.log n) = true) ∧ opWrites .selfdestruct = true
    ∧ opWrites .create = true ∧ opWrites .create2 = true
    ∧ opWrites .tstore = false ∧ opWrites .call = false ∧ opWrites .callcode = false
    ∧ opWrites .delegatecall = false ∧ opWrites .staticcall = false ∧ opWrites .authcall = false
    ∧ opWrites .stake = false ∧ opWrites .unstake = false ∧ opWrites .unstakeall = false
    ∧ opWrites .stakenum = false := by decide

/-- `opTstore` is not flagged but tests `interpreter.readOnly` itself (the model's `tstore` case does too) -/
theorem tstore_checks_readonly :
    (findFact "TSTORE" opFacts).map (fun f => (f.exec, f.checksReadOnly)) = some ("opTstore", true) := by decide

/-- opcodes that can modify state: their execute function reaches a state mutator, or enters
    `Create`/`Create2`/`AuthCall` (which write before their snapshot) -/
def writesState (f : OpFact) : Bool :=
  !f.mutators.isEmpty || f.frames.contains "Create" || f.frames.contains "Create2" || f.frames.contains "AuthCall"

/-- what the property needs of the jump table: every state-writing opcode is refused in a
    read-only frame, by flag or by its own test -/
def FullStatementWritersFlagged : Prop :=
  opFacts.all (fun f => !writesState f || f.writes || f.checksReadOnly) = true

/-- the state-writing opcodes of the unchanged tree that are neither flagged nor self-checking -/
def knownUnflagged : List String := ["AUTHCALL", "STAKE", "UNSTAKE", "UNSTAKEALL"]

theorem writers_flagged_partial :
    opFacts.all (fun f => !writesState f || knownUnflagged.contains f.name || f.writes || f.checksReadOnly) = true := by
  decide

theorem writers_flagged_counterexample : ¬ FullStatementWritersFlagged := by
  unfold FullStatementWritersFlagged
  decide

/-- the four unflagged writers are exactly these (a fifth one breaks `writers_flagged_partial`,
    flagging one of them breaks this) -/
theorem unflagged_writers_exact :
    (opFacts.filter (fun f => writesState f && !(f.writes || f.checksReadOnly))).map (·.name) = knownUnflagged := by
  decide

/-- statement order of the six frame entry points of evm.go as the model transcribes it:
    pre-checks, then `Snapshot`, then account creation / transfer, `run`, `RevertToSnapshot` under
    the recorded condition; `create` and `AuthCall` bump a nonce before their snapshot -/
theorem frame_order_as_modelled : frameSeq = [
  ("Call", ["if(evm.depth > int(CallCreateDepth))", "if(value.Sign() != 0 && !evm.Context.CanTransfer(evm.StateDB, caller.Address(), value))", "Snapshot", "Exist", "CreateAccount", "Transfer", "RunPrecompiledContract", "GetCode", "GetCodeHash", "run(readOnly=false)", "RevertToSnapshot[err != nil]"]),
  ("CallCode", ["if(evm.depth > int(CallCreateDepth))", "if(!evm.Context.CanTransfer(evm.StateDB, caller.Address(), value))", "Snapshot", "RunPrecompiledContract", "GetCodeHash", "GetCode", "run(readOnly=false)", "RevertToSnapshot[err != nil]"]),
  ("DelegateCall", ["if(evm.depth > int(CallCreateDepth))", "Snapshot", "RunPrecompiledContract", "GetCodeHash", "GetCode", "run(readOnly=false)", "RevertToSnapshot[err != nil]"]),
  ("StaticCall", ["if(evm.depth > int(CallCreateDepth))", "Snapshot", "AddBalance(addr,big0)", "RunPrecompiledContract", "GetCodeHash", "GetCode", "run(readOnly=true)", "RevertToSnapshot[err != nil]"]),
  ("create", ["GetData", "if(evm.depth > int(CallCreateDepth))", "if(!evm.CanTransfer(evm.StateDB, caller.Address(), value))", "GetNonce", "SetNonce(caller.Address(),nonce + 1)[!common.IsProposal006() || common.IsProposal007()]", "AddAddressToAccessList", "GetCodeHash", "GetNonce", "Snapshot", "CreateAccount", "SetNonce(address,1)", "Transfer", "run(readOnly=false)", "UseGas", "SetCode", "RevertToSnapshot[maxCodeSizeExceeded || (err != nil && err != ErrCodeStoreOutOfGas)]", "UseGas"]),
  ("AuthCall", ["if(evm.depth > int(CallCreateDepth))", "if(value.Sign() != 0 && !evm.Context.CanTransfer(evm.StateDB, sponsor, value))", "GetNonce", "SetNonce(caller.Address(),nonce + 1)", "Snapshot", "Exist", "CreateAccount", "Transfer", "RunPrecompiledContract", "GetCode", "GetCodeHash", "run(readOnly=false)", "RevertToSnapshot[err != nil]"])
] := by decide

/-- every way out of an entry point after its `Snapshot()`: the final `return` behind the revert
    block, plus -- in `Call` and `AuthCall` only -- the early return for a zero-value call to a
    non-existent non-precompile account, which has touched nothing (the model's `Entry.skip`).
    A new early return (e.g. a precompile or empty-code branch returning on its own) skips
    `RevertToSnapshot` and breaks this. -/
theorem return_paths_as_modelled : returnPaths = [
  ("Call", ["before-revert-block: return nil, gas, nil, nil [!evm.StateDB.Exist(addr) && !isPrecompile && value.Sign() == 0]", "after-revert-block: return ret, gas, logs, err []"]),
  ("CallCode", ["after-revert-block: return ret, gas, nil, err []"]),
  ("DelegateCall", ["after-revert-block: return ret, gas, logs, err []"]),
  ("StaticCall", ["after-revert-block: return ret, gas, logs, err []"]),
  ("create", ["after-revert-block: return ret, address, contract.Gas, logs, err []"]),
  ("AuthCall", ["before-revert-block: return nil, gas, nil, nil [!evm.StateDB.Exist(addr) && !isPrecompile && value.Sign() == 0]", "after-revert-block: return ret, gas, logs, err []"])
] := by decide

theorem create_revert_condition : createRevertCond = "maxCodeSizeExceeded || (err != nil && err != ErrCodeStoreOutOfGas)" := by decide

/-- the max-code-size test is strict: exactly `MaxCodeSize` bytes are allowed (`retmax` in the trees),
    one more is `ErrMaxCodeSizeExceeded` (`rethuge`) -/
theorem create_size_test_as_modelled : createSizeTest = "maxCodeSizeExceeded := len(ret) > MaxCodeSize" := by decide

theorem read_only_guard_as_modelled : readOnlyGuard = "in.readOnly && (operation.writes || (op == CALL && stack.Back(2).Sign() != 0)) -> ErrWriteProtection" := by decide

/-- `Run` only ever SETS `in.readOnly` (and resets it on leaving the frame that set it): the flag is
    sticky for everything nested below a STATICCALL, which is what `run`'s `ro` parameter models -/
theorem read_only_sticky_as_modelled :
    readOnlySticky = "if readOnly && !in.readOnly { in.readOnly = true; defer func() { in.readOnly = false }() }" := by
  decide

/-- `AccountDB.Prepare` assigns exactly these fields (transient storage is not among them) -/
theorem prepare_assigns_as_modelled : prepareAssigns = ["accessList", "bhash", "thash", "txIndex"] := by decide

theorem block_loop_as_modelled : vmexecFacts = ["accountdb.Prepare(transaction.Hash,common.Hash{},i)[common.IsProposal013()]", "accountdb.Snapshot", "txExecutor.Execute", "accountdb.RevertToSnapshot[!success]", "receipt.Logs=this.accountdb.GetLogs(transaction.Hash)", "accountdb.GetLogs(transaction.Hash)[common.IsProposal013()]", "receipt.Logs=logs.([]*types.Log)", "exec:vmInstance.Create", "exec:accountdb.SetNonce[!(transaction.Target == \"\") && common.IsProposal007()]", "exec:vmInstance.Call", "exec:context[logs]=logs"] := by decide

/-- `addLogChange.undo`: the per-hash list shrinks (or disappears) and the block-wide counter `logSize` goes
    back UNCONDITIONALLY, last statement, outside the branch -- so `Log.Index` of later logs does not count logs of
    failed frames (model: `restore` gives `logSize` back; theorem `log_indices_consecutive`) -/
theorem add_log_undo_as_modelled :
    addLogUndo = "logs := s.logs[ch.txhash] ; if len(logs) == 1 { delete(s.logs, ch.txhash) } else { s.logs[ch.txhash] = logs[:len(logs)-1] } ; s.logSize--" := by
  set_option maxRecDepth 4000 in decide

/-- Which function on the C12 path consults which fork flag. The model takes `IsProposal013`,
    `IsProposal007`, `!IsProposal006 || IsProposal007` as inputs (`Cfg`), the harness derives the opcode
    availability (`Proposal014Block`, `Proposal022Block`) and the gas regime (`Proposal026`, `015`) from the
    schedule in force, and `IsProposal002` (balance journaling in `AddFT`/`SubFT`) is C04's `p002`
    hypothesis. A new flag read on the path breaks this. -/
theorem flag_reads_as_modelled : flagReads = ["account.AccountDB.AddFT:IsProposal002", "account.AccountDB.SubFT:IsProposal002", "core.VMExecutor.Execute:IsProposal006", "core.VMExecutor.Execute:IsProposal007", "core.VMExecutor.Execute:IsProposal013", "core.VMExecutor.Execute:IsProposal015", "core.VMExecutor.Execute:IsProposal018", "core.VMExecutor.Execute:IsProposal027", "core.VMExecutor.Execute:Proposal010Block", "core.VMExecutor.Execute:Proposal019Block", "executor.contractExecutor.Execute:IsProposal007", "executor.contractExecutor.Execute:IsProposal015", "executor.contractExecutor.Execute:IsProposal017", "executor.contractExecutor.Execute:IsProposal026", "executor.contractExecutor.decodeContractData:IsProposal005", "executor.contractExecutor.decodeContractData:IsProposal017", "vm.EVM.create:IsProposal006", "vm.EVM.create:IsProposal007", "vm.EVM.create:IsProposal026", "vm.NewEVMInterpreter:Proposal014Block", "vm.NewEVMInterpreter:Proposal022Block", "vm.NewEVMInterpreter:Proposal026Block", "vm.gasCreate2:IsProposal026", "vm.gasExpEIP158:IsProposal026", "vm.gasExpFrontier:IsProposal026", "vm.gasSStore:IsProposal015", "vm.gasSStore:IsProposal026", "vm.gasSStoreEIP2200:IsProposal015", "vm.gasSStoreEIP2200:IsProposal026", "vm.gasSha3:IsProposal026", "vm.makeGasLog:IsProposal026", "vm.memoryCopierGas:IsProposal026", "vm.memoryGasCost:IsProposal026"] := by decide

/-- Functions of package vm / storage/account that assign package-level variables: only logger
    set-up, the precompile address list (package init) and the ERC-20 ledger address cache. No frame
    entry point, opcode or journal method keeps state in a package-level variable. -/
theorem global_writes_as_modelled : globalWrites = ["account.AccountDB.loadContractCache:rpgContractAddress", "account.Init:accountLog", "vm.InitVM:logger", "vm.init:PrecompiledAddresses"] := by decide

theorem vm_constants_as_modelled : vmConstants = ["CallCreateDepth=1024", "CreateDataGas=200", "MaxCodeSize=245760"] := by decide

end Rangers.Props.C12Facts
