import Rangers.Model.Evm12Frames
/-! C12: facts re-extracted from the go-rangers source on every run (T-gen), compared with what
the model transcribes. A changed write flag, a re-ordered statement in evm.go, a changed revert
condition or a changed field list of `Prepare` makes one of these fail. -/
namespace Rangers.Props.C12Facts
open Rangers.Model.Evm12 Rangers.Generated.C12

/-- every state-relevant opcode of the model is an entry of the live jump table -/
theorem ops_present :
    ∀ o ∈ [Op.sstore, .tstore, .log 0, .log 1, .log 2, .log 3, .log 4, .selfdestruct, .call, .callcode,
           .delegatecall, .staticcall, .create, .create2, .authcall, .stake, .unstake, .unstakeall],
      (findFact o.name opFacts).isSome = true := by decide

end Rangers.Props.C12Facts
