import Mathlib.Data.ZMod.Basic
import Rangers.Model.Bls14G2
import Rangers.Proofs.Bls14Field
import Rangers.Proofs.Bls14Model
import Rangers.Props.C14E
/-!
# C14, part 7 — G2 (public keys): twist arithmetic and the round trip over it

`Model/Bls14G2.lean` is tied to `bn256.G2.Add/Neg/ScalarMult`, `GeneratePubkey`,
`AggregatePubkeys` by the correspondence run. Proved here: every result of the model's twist
arithmetic is reduced (so the byte-level round trip applies to it), negation stays on the twist,
`P + (−P) = ∞` in every case, and therefore keys produced by `GeneratePubkey` /
`AggregatePubkeys` survive `Serialize` / `ByteToPublicKey` exactly when they are not the identity.
Closure of `Pt2.add` on the twist (GF(p²) field algebra) is NOT proved: "on the twist" stays a
hypothesis of the round-trip statements (checked on every generated key by the correspondence).
-/
namespace Rangers.Props.C14
open Rangers Rangers.Model.Bls14 Rangers.Proofs.Bls14

theorem f2_sub_reduced (a b : F2) : (F2.sub a b).isReduced = true := by
  simp [F2.sub, F2.isReduced, fsub_lt]

/-- Every coordinate `Pt2.double` / `Pt2.add` produce is reduced. -/
theorem g2_double_reduced (p : Pt2) (hp : p.reduced = true) : (Pt2.double p).reduced = true := by
  cases p with
  | inf => rfl
  | aff x y =>
    simp only [Pt2.double]
    split
    · rfl
    · simp [Pt2.reduced, f2_sub_reduced]

theorem g2_add_reduced (p q : Pt2) (hp : p.reduced = true) (hq : q.reduced = true) :
    (Pt2.add p q).reduced = true := by
  cases p with
  | inf => cases q <;> simpa [Pt2.add] using hq
  | aff x1 y1 =>
    cases q with
    | inf => simpa [Pt2.add] using hp
    | aff x2 y2 =>
      simp only [Pt2.add]
      split
      · split
        · exact g2_double_reduced _ hp
        · rfl
      · simp [Pt2.reduced, f2_sub_reduced]

/-- …hence also every multiple (`GeneratePubkey`) and every aggregate. -/
theorem g2_mul_reduced (p : Pt2) (hp : p.reduced = true) (k : Nat) : (Pt2.mul p k).reduced = true := by
  unfold Pt2.mul
  generalize (bitsLE 512 k).reverse = bs
  have : ∀ (bs : List Bool) (s : Pt2), s.reduced = true →
      (bs.foldl (fun s b => if b then Pt2.add (Pt2.double s) p else Pt2.double s) s).reduced = true := by
    intro bs
    induction bs with
    | nil => intro s hs; exact hs
    | cons b bs ih =>
      intro s hs
      rw [List.foldl_cons]
      apply ih
      cases b
      · simpa using g2_double_reduced s hs
      · simpa using g2_add_reduced _ _ (g2_double_reduced s hs) hp
  exact this bs .inf rfl

theorem g2_aggregate_reduced (p : Pt2) (ps : List Pt2) (hp : p.reduced = true)
    (hps : ∀ q ∈ ps, q.reduced = true) (r : Pt2) (h : aggregatePubkeys (p :: ps) = some r) :
    r.reduced = true := by
  simp only [aggregatePubkeys, Option.some.injEq] at h
  subst h
  induction ps generalizing p with
  | nil => exact hp
  | cons q qs ih =>
    rw [List.foldl_cons]
    exact ih _ (g2_add_reduced p q hp (hps q (by simp))) (fun q' hq' => hps q' (by simp [hq']))

example : g2Gen.reduced = true := by decide

/-- `(−a)(−b) = ab` in GF(p) on the model's representatives (no primality needed). -/
theorem fmul_fneg_fneg (a b : Nat) : fmul (fneg a) (fneg b) = fmul a b := by
  unfold fmul
  rw [← ZMod.natCast_eq_natCast_iff']
  have ha : a % P ≤ P := Nat.le_of_lt (Nat.mod_lt _ P_pos)
  have hb : b % P ≤ P := Nat.le_of_lt (Nat.mod_lt _ P_pos)
  simp only [fneg, Nat.cast_mul, ZMod.natCast_mod, Nat.cast_sub ha, Nat.cast_sub hb,
    ZMod.natCast_self, zero_sub]
  exact neg_mul_neg _ _

/-- `−Q` is on the twist when `Q` is (the `−pk` of the quantifier is a well-formed key). -/
theorem g2_neg_onTwist (x y : F2) (hc : onTwistXY x y = true) : (Pt2.neg (.aff x y)).onCurve = true := by
  simp only [Pt2.neg, Pt2.onCurve, onTwistXY, F2.sq, F2.mul, F2.neg, fmul_fneg_fneg] at hc ⊢
  exact hc

example : (Pt2.neg g2Gen).onCurve = true ∧ Pt2.neg g2Gen ≠ g2Gen := by decide

/-- `P + (−P) = ∞`, whatever `P` (on the twist or not): the aggregate of a key and its negation
    is the identity. -/
theorem g2_add_neg_self (p : Pt2) : Pt2.add p p.neg = .inf := by
  cases p with
  | inf => rfl
  | aff x y =>
    simp only [Pt2.neg, Pt2.add, beq_self_eq_true, if_true]
    split
    · next h =>
      -- y ≡ −y componentwise, p odd ⇒ y ≡ 0 ⇒ the tangent exit of `double`
      have hy : (F2.reduce y).isZero = true := by
        simp only [F2.reduce, F2.neg, beq_iff_eq, F2.mk.injEq] at h
        have hodd := P_odd
        have hpos := P_pos
        have h1 := Nat.mod_lt y.x hpos
        have h2 := Nat.mod_lt y.y hpos
        simp only [F2.isZero, F2.reduce, Bool.and_eq_true, beq_iff_eq]
        unfold fneg at h
        obtain ⟨hx, hy'⟩ := h
        constructor
        · by_contra h0
          rw [Nat.mod_eq_of_lt (by omega : P - y.x % P < P), Nat.mod_eq_of_lt (by omega : P - y.x % P < P)] at hx
          omega
        · by_contra h0
          rw [Nat.mod_eq_of_lt (by omega : P - y.y % P < P), Nat.mod_eq_of_lt (by omega : P - y.y % P < P)] at hy'
          omega
      simp [Pt2.double, hy]
    · rfl

/-- Consequence for key aggregation: two opposite keys aggregate to the identity, whose
    serialisation (`00`) no consumer can parse back (`ByteToPublicKey` gives the nil key, which
    `VerifySig` rejects). Recorded behaviour; the identity is not a valid public key. -/
theorem aggregate_of_opposite_keys (p : Pt2) :
    aggregatePubkeys [p, p.neg] = some .inf ∧
    byteToPublicKey (Pub.serialize (.pt .inf)) = .nil := by
  refine ⟨?_, identity_pubkey_not_roundtrip⟩
  simp [aggregatePubkeys, g2_add_neg_self]

/-- Round trip over the arithmetic: a key produced by `GeneratePubkey` that is a (non-identity)
    point of the twist survives `Serialize` / `ByteToPublicKey` unchanged. -/
theorem generated_pubkey_roundtrip (sk : Nat) (x y : F2)
    (h : generatePubkey sk = .pt (.aff x y)) (hc : onTwistXY x y = true) :
    byteToPublicKey (Pub.serialize (generatePubkey sk)) = generatePubkey sk := by
  have hr : (Pt2.mul g2Gen sk).reduced = true := g2_mul_reduced g2Gen (by decide) sk
  simp only [generatePubkey, G2Val.pt.injEq] at h
  rw [h] at hr
  simp only [Pt2.reduced, F2.isReduced, Bool.and_eq_true, decide_eq_true_eq] at hr
  rw [generatePubkey, h]
  exact pubkey_roundtrip x y ⟨hr.1.1, hr.1.2, hr.2.1, hr.2.2⟩ hc

example : generatePubkey 1 = .pt g2Gen ∧ g2Gen.onCurve = true := ⟨by decide +kernel, by decide⟩

/-- The same for aggregates. -/
theorem aggregated_pubkey_roundtrip (p : Pt2) (ps : List Pt2) (hp : p.reduced = true)
    (hps : ∀ q ∈ ps, q.reduced = true) (x y : F2)
    (h : aggregatePubkeys (p :: ps) = some (.aff x y)) (hc : onTwistXY x y = true) :
    byteToPublicKey (Pub.serialize (.pt (.aff x y))) = .pt (.aff x y) := by
  have hr := g2_aggregate_reduced p ps hp hps _ h
  simp only [Pt2.reduced, F2.isReduced, Bool.and_eq_true, decide_eq_true_eq] at hr
  exact pubkey_roundtrip x y ⟨hr.1.1, hr.1.2, hr.2.1, hr.2.2⟩ hc

end Rangers.Props.C14
