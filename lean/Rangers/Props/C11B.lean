import Rangers.Model.Evm11Interp
import Rangers.Generated.Evm11Tables
import Rangers.Props.C11
/-!
# C11 — EVM execution is total and resource-bounded: arithmetic of the gas functions

All statements are about the definitions of `Model/Evm11Gas.lean` that the driver
executes.  `uint64` wrap-around is explicit in the model (`wadd/wsub/wmul`); the
theorems here show where it cannot happen and what the exact values are.
The interpreter-level theorems are in `Props/C11C.lean`.
-/
namespace Rangers.Props.C11B
open Rangers.Evm11

/-! ## helpers -/

theorem sq_le {a b : Nat} (h : a ≤ b) : a * a ≤ b * b := Nat.mul_le_mul h h

/-- `UseGas` never increases the gas and fails exactly when the cost exceeds it -/
theorem useGas_spec {gas cost g' : Nat} (h : useGas gas cost = some g') : g' + cost = gas := by
  unfold useGas at h
  split at h
  · cases h
  · cases h; omega

theorem useGas_none {gas cost : Nat} : useGas gas cost = none ↔ gas < cost := by
  unfold useGas; split <;> simp [*]

/-- `toWordSize` is ⌈size/32⌉ below the memory guard (its special case is for sizes > 2^64−32) -/
theorem toWordSize_spec (s : Nat) (h : s ≤ 0x1FFFFFFFE0) : toWordSize s = (s + 31) / 32 := by
  unfold toWordSize maxU64
  split <;> omega

/-- in general `toWordSize` never under-counts the words -/
theorem toWordSize_ge (s : Nat) (h : s < 2 ^ 64) : s ≤ 32 * toWordSize s := by
  unfold toWordSize maxU64
  split <;> omega

/-! ## memory-size functions never wrap silently (`memsize_no_wrap`) -/

/-- number of bytes an access `[off, off+len)` needs, in exact arithmetic; a zero-length
    access needs none whatever the offset (calcMemSize64WithUint) -/
def extent (off len : Nat) : Nat := if len = 0 then 0 else off + len

/-- exact memory requirement of each transcribed `memorySize` function -/
def memExtent (f : MemFn) (s : List Word) : Nat :=
  match f with
  | .two o l => extent (back s o) (back s l)
  | .fixed o n => extent (back s o) n
  | .mcopy => extent (if back s 1 > back s 0 then back s 1 else back s 0) (back s 2)
  | .max2 a b c d => max (extent (back s a) (back s b)) (extent (back s c) (back s d))
  | .none | .unknown => 0

theorem calcMemSizeU_spec (off len : Nat) (hl : len < 2 ^ 64) :
    ((calcMemSizeU off len).2 = false → (calcMemSizeU off len).1 = extent off len ∧ extent off len < 2 ^ 64) ∧
    ((calcMemSizeU off len).2 = true → extent off len ≥ 2 ^ 64) := by
  unfold calcMemSizeU extent wadd
  by_cases h0 : len = 0
  · simp [h0]
  · by_cases h1 : off < 2 ^ 64
    · simp only [h0, if_false, h1, not_true, decide_eq_false_iff_not, decide_eq_true_eq]
      constructor <;> intro h <;> omega
    · simp only [h0, if_false, h1, not_false_eq_true, if_true]
      constructor
      · intro h; cases h
      · intro _; omega

theorem calcMemSize_spec (off len : Nat) :
    ((calcMemSize off len).2 = false → (calcMemSize off len).1 = extent off len ∧ extent off len < 2 ^ 64) ∧
    ((calcMemSize off len).2 = true → extent off len ≥ 2 ^ 64) := by
  unfold calcMemSize
  by_cases hl : len < 2 ^ 64
  · simp only [hl, not_true, if_false]
    exact calcMemSizeU_spec off len hl
  · simp only [hl, not_false_eq_true, if_true]
    constructor
    · intro h; cases h
    · intro _; unfold extent; split <;> omega

/-- fixed lengths in the tables are 1 and 32; any length below 2^64 will do -/
def fixedOk : MemFn → Prop
  | .fixed _ n => n < 2 ^ 64
  | _ => True

/-- **memsize_no_wrap.** Whenever a `memorySize` function reports a size without the
    overflow flag, the size is the exact requirement `offset + length` (no uint64
    wrap went unnoticed) and fits in 64 bits; whenever the exact requirement does not
    fit in 64 bits, the overflow flag is raised. -/
theorem memsize_no_wrap (f : MemFn) (s : List Word) (hf : fixedOk f) (sz : Nat) (ov : Bool)
    (h : memSizeFn f s = some (sz, ov)) :
    (ov = false → sz = memExtent f s ∧ memExtent f s < 2 ^ 64) ∧ (memExtent f s ≥ 2 ^ 64 → ov = true) := by
  cases f with
  | none => simp [memSizeFn] at h
  | unknown => simp [memSizeFn] at h
  | two o l =>
    simp only [memSizeFn, Option.some.injEq] at h
    have := calcMemSize_spec (back s o) (back s l)
    rw [h] at this
    simp only [memExtent]
    constructor
    · exact this.1
    · intro hge; cases ov with
      | true => rfl
      | false => have := this.1 rfl; omega
  | fixed o n =>
    simp only [memSizeFn, Option.some.injEq] at h
    have := calcMemSizeU_spec (back s o) n hf
    rw [h] at this
    simp only [memExtent]
    constructor
    · exact this.1
    · intro hge; cases ov with
      | true => rfl
      | false => have := this.1 rfl; omega
  | mcopy =>
    simp only [memSizeFn, Option.some.injEq] at h
    have := calcMemSize_spec (if back s 1 > back s 0 then back s 1 else back s 0) (back s 2)
    rw [h] at this
    simp only [memExtent]
    constructor
    · exact this.1
    · intro hge; cases ov with
      | true => rfl
      | false => have := this.1 rfl; omega
  | max2 a b c d =>
    have hx := calcMemSize_spec (back s a) (back s b)
    have hy := calcMemSize_spec (back s c) (back s d)
    simp only [memSizeFn] at h
    simp only [memExtent]
    cases hxo : (calcMemSize (back s a) (back s b)).2 with
    | true =>
      simp only [hxo, if_true, Option.some.injEq, Prod.mk.injEq] at h
      have := hx.2 hxo
      obtain ⟨_, rfl⟩ := h
      constructor
      · intro h; cases h
      · intro _; rfl
    | false =>
      simp only [hxo, Bool.false_eq_true, if_false] at h
      have hx1 := hx.1 hxo
      cases hyo : (calcMemSize (back s c) (back s d)).2 with
      | true =>
        simp only [hyo, if_true, Option.some.injEq, Prod.mk.injEq] at h
        obtain ⟨_, rfl⟩ := h
        constructor
        · intro h; cases h
        · intro _; rfl
      | false =>
        simp only [hyo, Bool.false_eq_true, if_false, Option.some.injEq, Prod.mk.injEq] at h
        have hy1 := hy.1 hyo
        obtain ⟨h1, rfl⟩ := h
        constructor
        · intro _
          rw [← h1, hx1.1, hy1.1]
          constructor
          · split <;> omega
          · omega
        · intro hge; omega

/-- non-vacuity: a CALL whose input window ends at 2^64 is reported as overflow, one
    that ends at 2^64−1 is sized exactly -/
example : memSizeFn (.max2 5 6 3 4) [0, 0, 0, 0, 0, 2 ^ 64 - 32, 32] = some (0, true) := by decide
example : memSizeFn (.max2 5 6 3 4) [0, 0, 0, 7, 9, 2 ^ 64 - 33, 32] = some (2 ^ 64 - 1, false) := by decide

/-! ## the quadratic memory fee never overflows (`memoryGasCost_no_overflow`) -/

/-- what holds of an EVM memory between two interpreter steps -/
structure MemInv (m : Mem) : Prop where
  aligned : m.size % 32 = 0
  bounded : m.size ≤ 0x1FFFFFFFE0
  paid : m.lastGasCost = cmem (m.size / 32)

theorem memInv_empty : MemInv Mem.empty := by
  constructor <;> simp [Mem.empty, Mem.size, cmem]

/-- **memoryGasCost_no_overflow.** Under the memory invariant and below the
    `0x1FFFFFFFE0` guard, `memoryGasCost` returns the exact value
    `(Cmem(w) − Cmem(old words)) × magnification`: none of the uint64 products, the
    sum, the subtraction of `lastGasCost`, or the ×30 of Proposal026 wraps. -/
theorem memoryGasCost_no_overflow (p26 : Bool) (m : Mem) (n : Nat) (hm : MemInv m)
    (hn : n ≤ 0x1FFFFFFFE0) (hn0 : n ≠ 0) :
    memoryGasCost p26 m n =
      if 32 * ((n + 31) / 32) > m.size then
        some ((cmem ((n + 31) / 32) - cmem (m.size / 32)) * (if p26 then 30 else 1),
          { m with lastGasCost := cmem ((n + 31) / 32) })
      else some (0, m) := by
  unfold memoryGasCost
  rw [if_neg hn0, if_neg (by omega), toWordSize_spec n hn]
  have hw : (n + 31) / 32 ≤ 4294967295 := by omega
  generalize (n + 31) / 32 = w at *
  have hsq : w * w ≤ 4294967295 * 4294967295 := sq_le hw
  have hk : m.size / 32 ≤ 4294967295 := by have := hm.bounded; omega
  have hksq : (m.size / 32) * (m.size / 32) ≤ 4294967295 * 4294967295 := sq_le hk
  have e32 : wmul w 32 = 32 * w := by unfold wmul; omega
  simp only [e32]
  by_cases hgt : 32 * w > m.size
  · rw [if_pos hgt, if_pos hgt]
    have hkw : m.size / 32 ≤ w := by have := hm.aligned; omega
    have hmono : (m.size / 32) * (m.size / 32) ≤ w * w := sq_le hkw
    have e1 : wmul w w = w * w := by unfold wmul; omega
    have e2 : wmul w 3 = 3 * w := by unfold wmul; omega
    have e3 : wadd (3 * w) (w * w / 512) = cmem w := by unfold wadd cmem; omega
    rw [e1, e2, e3, hm.paid]
    have hle : cmem (m.size / 32) ≤ cmem w := by unfold cmem; omega
    have hlt : cmem w < 2 ^ 64 := by unfold cmem; omega
    have e4 : wsub (cmem w) (cmem (m.size / 32)) = cmem w - cmem (m.size / 32) := by
      unfold wsub; omega
    rw [e4]
    cases p26
    · simp
    · have hb : cmem w ≤ 36028809887088637 := by unfold cmem; omega
      have e5 : wmul (cmem w - cmem (m.size / 32)) gasMagnification = (cmem w - cmem (m.size / 32)) * 30 := by
        unfold wmul gasMagnification; omega
      simp [e5]
  · rw [if_neg hgt, if_neg hgt]

/-- non-vacuity: the largest size the guard lets through, on an empty memory, Proposal026 on -/
example : memoryGasCost true Mem.empty 0x1FFFFFFFE0 =
    some ((cmem 0xFFFFFFFF) * 30, { Mem.empty with lastGasCost := cmem 0xFFFFFFFF }) := by
  rw [memoryGasCost_no_overflow true Mem.empty _ memInv_empty (by decide) (by decide)]
  simp [Mem.empty, Mem.size, cmem]

/-- above the guard the function refuses -/
theorem memoryGasCost_guard (p26 : Bool) (m : Mem) (n : Nat) (hn : n > 0x1FFFFFFFE0) :
    memoryGasCost p26 m n = none := by
  unfold memoryGasCost
  rw [if_neg (by omega), if_pos hn]

/-- the fee and what it does to the memory, whatever the outcome: `lastGasCost`
    only ever becomes the fee of the size being paid for, the bytes are untouched -/
theorem memoryGasCost_data (p26 : Bool) (m m' : Mem) (n fee : Nat)
    (h : memoryGasCost p26 m n = some (fee, m')) : m'.data = m.data := by
  unfold memoryGasCost at h
  simp only at h
  split at h
  · cases h; rfl
  · split at h
    · cases h
    · split at h
      · split at h <;> (cases h; rfl)
      · cases h; rfl

/-! ## the Proposal026 magnification is overflow checked (after the `fix:` commit) -/

/-- **magnify_exact.** a magnified dynamic cost is exactly 30× the cost or the step fails -/
theorem magnify_exact (p26 : Bool) (gas r : Nat) (hg : gas < 2 ^ 64) (h : magnify p26 gas = some r) :
    r = gas * (if p26 then 30 else 1) ∧ r < 2 ^ 64 := by
  unfold magnify safeMul wmul gasMagnification at h
  cases p26 with
  | false => simp at h; subst h; simp; exact hg
  | true =>
    simp only [if_true] at h
    split at h
    · cases h
    · rename_i hov
      simp only [ge_iff_le, decide_eq_true_eq, Nat.not_le] at hov
      cases h
      simp only [if_true]
      omega

/-- the input that used to wrap: (30·Cmem(w₀) + 3)·30 ≥ 2^64 for w₀ = 3239466432 words
    (CALLDATACOPY of one byte to offset 0x1822cab7ff); the model — like the fixed code —
    refuses it, the unfixed product was 289 911 674 -/
example : wordCopyGas true Mem.empty 103662925824 1 3 = none := by decide
example : ((30 * cmem 3239466432 + 3) * 30) % 2 ^ 64 = 289911674 := by decide

/-! ## the 63/64 rule (`callGas_le`) -/

theorem wsub_exact (a b : Nat) (ha : a < 2 ^ 64) (h : b ≤ a) : wsub a b = a - b := by
  unfold wsub; omega

theorem wsub_lt (a b : Nat) : wsub a b < 2 ^ 64 := by unfold wsub; omega

/-- **callGas_le.** When the base cost is covered (`base ≤ available`) the gas
    forwarded to a callee is at most all-but-one-64th of what is left after the base
    cost, and never more than was requested. -/
theorem callGas_le (avail base : Nat) (cc : Word) (ha : avail < 2 ^ 64) (hb : base ≤ avail) :
    callGas avail base cc ≤ (avail - base) - (avail - base) / 64 ∧
    (cc < 2 ^ 64 → callGas avail base cc ≤ cc) := by
  unfold callGas
  simp only
  rw [wsub_exact avail base ha hb]
  have hx : avail - base < 2 ^ 64 := by omega
  generalize avail - base = x at *
  rw [wsub_exact x (x / 64) hx (by omega)]
  constructor
  · split <;> omega
  · intro hcc
    split
    · rename_i h; cases h with
      | inl h => exact absurd hcc h
      | inr h => omega
    · omega

/-- **callGas_underflow_harmless** (DESIGN lead: `availableGas − base` is computed before
    anyone checked `base ≤ availableGas`).  If the base cost exceeds the gas left, the
    subtraction wraps, but the total dynamic cost `base + forwarded` that `finishCall`
    returns is then either a reported overflow or still larger than the gas left — the
    interpreter's `UseGas` fails and the step is an ordinary out-of-gas. -/
theorem callGas_underflow_harmless (avail base : Nat) (cc : Word) (m : Mem) (g : Global)
    (_hb : base < 2 ^ 64) (hlt : avail < base) :
    (∃ g', finishCall avail base cc m g = .err g') ∨
    (∃ cost m' g' cgt, finishCall avail base cc m g = .ok cost m' g' cgt ∧ useGas avail cost = none) := by
  unfold finishCall safeAdd wadd
  simp only
  by_cases hov : base + callGas avail base cc ≥ 2 ^ 64
  · left; exact ⟨g, by simp [hov]⟩
  · right
    refine ⟨_, _, _, _, by simp [hov]; exact ⟨rfl, rfl, rfl, rfl⟩, ?_⟩
    rw [useGas_none]
    omega

/-- non-vacuity: 5 gas left, 9000 base cost (value transfer), all gas requested -/
example := callGas_underflow_harmless 5 9000 (2 ^ 64 - 1) Mem.empty (Global.start []) (by decide) (by decide)

/-- When the step is affordable, what the call family charges is `base + forwarded`,
    the forwarded part obeys the 63/64 rule, and nothing wrapped. -/
theorem finishCall_ok (avail base : Nat) (cc : Word) (m m' : Mem) (g g' : Global) (cost cgt gas2 : Nat)
    (ha : avail < 2 ^ 64) (hb : base < 2 ^ 64)
    (h : finishCall avail base cc m g = .ok cost m' g' cgt) (hu : useGas avail cost = some gas2) :
    cost = base + cgt ∧ base ≤ avail ∧ cgt ≤ (avail - base) - (avail - base) / 64 ∧ m' = m ∧ g' = g := by
  have hle : base ≤ avail := by
    by_cases hle : base ≤ avail
    · exact hle
    · rcases callGas_underflow_harmless avail base cc m g hb (by omega) with ⟨g', hg'⟩ | ⟨c, m1, g1, t1, h1, h2⟩
      · rw [h] at hg'; cases hg'
      · rw [h] at h1; cases h1; rw [h2] at hu; cases hu
  have hcg := (callGas_le avail base cc ha hle).1
  unfold finishCall safeAdd wadd at h
  simp only at h
  split at h
  · cases h
  · rename_i hov
    simp only [ge_iff_le, decide_eq_true_eq, Nat.not_le] at hov
    cases h
    refine ⟨?_, hle, hcg, rfl, rfl⟩
    omega

example : finishCall 10000 700 (2 ^ 200) Mem.empty (Global.start []) = .ok (700 + 9155) Mem.empty (Global.start []) 9155 := by
  rfl

end Rangers.Props.C11B
