import Rangers.Model.Evm11Interp
import Rangers.Generated.Evm11Tables
import Rangers.Props.C11
/-!
# C11 — behavioural theorems about the interpreter model (see the header of each theorem)
-/
namespace Rangers.Props.C11B
open Rangers.Evm11

/-- `UseGas` never increases the gas and fails exactly when the cost exceeds it -/
theorem useGas_le {gas cost g' : Nat} (h : useGas gas cost = some g') : g' + cost = gas := by
  unfold useGas at h
  split at h
  · cases h
  · cases h; omega

end Rangers.Props.C11B
