import Rangers.Props.C07
/-!
# C07 — no wrapped transaction without a valid inner signature

The sender recovery of the model is an `Option`: a failed recovery is `none`, never a
defaulted (zero) address.  So "recovery failed" and "recovered the zero address" are
different results, and a failing recovery rejects the transaction for *every* declared
`Source` — the zero address, the empty string and all-ff included.  (Seeded regression C07-f
makes the code continue with the zero `Address` that Go returns next to the error.)
-/
namespace Rangers.Props.C07
open Rangers Rangers.Model.TxAuth

/-- When the sender recovery fails the wrapped transaction is rejected, whatever it declares. -/
theorem eth_sender_failure_rejects (cr : Crypto) (cfg : ChainCfg) (h : Nat) (tx : Tx) (e : EthTx)
    (hd : decodeTx (fromHex tx.extraData) = some e)
    (hfail : ethSender cr (ethChainId cfg h) e = none) : verifyEth cr cfg h tx ≠ .ok := by
  intro hacc
  obtain ⟨e', s, hd', _, hs, _⟩ := (eth_accept_iff cr cfg h tx).1 hacc
  rw [hd] at hd'; cases hd'
  rw [hfail] at hs; cases hs

/-- what a successful `recoverPlain` means -/
theorem recoverPlain_some_spec (cr : Crypto) (sh : Bytes) (r s : Nat) (vb : Int) (a : Bytes)
    (h : recoverPlain cr sh r s vb = some a) :
    ∃ (v : Nat) (pub : Bytes), (v = 0 ∨ v = 1) ∧ (1 ≤ r ∧ r < secpN) ∧ (1 ≤ s ∧ s ≤ secpHalfN) ∧
      recoverPubkeyEth cr sh (padLeft 32 (natToBE r) ++ padLeft 32 (natToBE s) ++ [UInt8.ofNat v]) = some pub ∧
      pub.head? = some 4 ∧
      a = ((cr.keccak (pub.drop 1)).drop 12).take 20 ++
            List.replicate (20 - min 20 ((cr.keccak (pub.drop 1)).drop 12).length) 0 := by
  by_cases c1 : vb.natAbs ≥ 256
  · exact absurd h (by simp [recoverPlain, c1])
  · by_cases c2 : r < 1 ∨ s < 1
    · exact absurd h (by simp only [recoverPlain, c1, c2, ↓reduceIte]; simp)
    · by_cases c3 : s > secpHalfN
      · exact absurd h (by simp only [recoverPlain, c1, c2, c3, ↓reduceIte]; simp)
      · by_cases c4 : r < secpN ∧ s < secpN ∧ ((vb.natAbs % 2 ^ 64 + 2 ^ 64 - 27) % 256 = 0 ∨ (vb.natAbs % 2 ^ 64 + 2 ^ 64 - 27) % 256 = 1)
        · simp only [recoverPlain, c1, c2, c3, c4, ↓reduceIte] at h
          cases hr : recoverPubkeyEth cr sh
              (padLeft 32 (natToBE r) ++ padLeft 32 (natToBE s) ++ [UInt8.ofNat ((vb.natAbs % 2 ^ 64 + 2 ^ 64 - 27) % 256)]) with
          | none => rw [hr] at h; cases h
          | some pub =>
            rw [hr] at h
            simp only at h
            by_cases hp : pub.head? = some 4
            · have hne : ¬ (pub.head? ≠ some 4) := by simp [hp]
              rw [if_neg (by simp), if_neg hne] at h
              injection h with h
              exact ⟨_, pub, c4.2.2, ⟨by omega, c4.1⟩, ⟨by omega, by omega⟩, hr, hp, h.symm⟩
            · simp [hp] at h
        · exact absurd h (by simp only [recoverPlain, c1, c2, c3, c4, ↓reduceIte, not_false_eq_true]; simp)

/-- **Accepted ⇒ validly signed by the declared sender.** An admitted wrapped transaction
    carries r, s in range with low s and a recovery bit for which the library recovers an
    uncompressed key from a signing hash of the payload (the EIP-155 hash of this chain, or the
    Homestead hash for v = 27/28), and the declared `Source` is that key's address. -/
theorem eth_accept_has_valid_signature (cr : Crypto) (cfg : ChainCfg) (h : Nat) (tx : Tx)
    (hacc : verifyEth cr cfg h tx = .ok) :
    ∃ (e : EthTx) (sh : Bytes) (v : Nat) (pub : Bytes),
      decodeTx (fromHex tx.extraData) = some e ∧
      (sh = cr.keccak (sigPreimage155 (ethChainId cfg h) e) ∨ sh = cr.keccak (sigPreimageHomestead e)) ∧
      (v = 0 ∨ v = 1) ∧ (1 ≤ e.r ∧ e.r < secpN) ∧ (1 ≤ e.s ∧ e.s ≤ secpHalfN) ∧
      recoverPubkeyEth cr sh (padLeft 32 (natToBE e.r) ++ padLeft 32 (natToBE e.s) ++ [UInt8.ofNat v]) = some pub ∧
      pub.head? = some 4 ∧
      tx.source = toHex0x (((cr.keccak (pub.drop 1)).drop 12).take 20 ++
            List.replicate (20 - min 20 ((cr.keccak (pub.drop 1)).drop 12).length) 0) := by
  obtain ⟨e, sender, hd, _, hs, hsrc, _⟩ := (eth_accept_iff cr cfg h tx).1 hacc
  unfold ethSender at hs
  by_cases hp : isProtectedV e.v = true
  · simp only [hp, not_true_eq_false, ↓reduceIte] at hs
    by_cases hc : deriveChainId e.v = ethChainId cfg h
    · simp only [hc, ne_eq, not_true_eq_false, ↓reduceIte] at hs
      obtain ⟨v, pub, hv, hr, hss, hrec, h4, ha⟩ := recoverPlain_some_spec cr _ _ _ _ _ hs
      exact ⟨e, _, v, pub, hd, Or.inl rfl, hv, hr, hss, hrec, h4, by rw [hsrc, ha]⟩
    · simp [hc] at hs
  · simp only [hp] at hs
    obtain ⟨v, pub, hv, hr, hss, hrec, h4, ha⟩ := recoverPlain_some_spec cr _ _ _ _ _ hs
    exact ⟨e, _, v, pub, hd, Or.inr rfl, hv, hr, hss, hrec, h4, by rw [hsrc, ha]⟩

/-- primitives whose recovery always fails / whose Keccak is all zero -/
def noRecoverCrypto : Crypto := { toyCrypto with recoverCore := fun _ _ _ _ => none }
def zeroKeccakCrypto : Crypto := { toyCrypto with keccak := fun _ => List.replicate 32 0 }

/-- the honest-looking payload of `toyEth155` declared for the zero address -/
def zeroSourceTx (cr : Crypto) : Tx := convertTx cr toyEth155 (List.replicate 20 0) (encodeTx toyEth155)

/-- The model tells "recovery failed" from "recovered the zero address": the same declared
    zero `Source` is rejected when nothing recovers and admitted when the recovered key's
    address really is zero. -/
theorem failed_recovery_is_not_the_zero_address :
    verifyEth noRecoverCrypto toyCfg 0 (zeroSourceTx noRecoverCrypto) = .illegal ∧
    verifyEth zeroKeccakCrypto toyCfg 0 (zeroSourceTx zeroKeccakCrypto) = .ok := by decide

end Rangers.Props.C07
