import Rangers.Proofs.C09Envelope
import Rangers.Props.C09B
/-!
# C09, part 7 — the p2p envelope (`network/message.go`) and the frame header (`network/conn.go`)

Every message a peer sends reaches the codecs of parts 1–6 inside `Message{Code, Body}`, read by
golang/protobuf (protobuf-go), inside a 28-byte frame. These theorems are about `Model/WireEnvelope.lean`,
which the driver executes for the ops `em`/`eu`/`fl`/`fu`.
-/
namespace Rangers.Props.C09
open Rangers Rangers.Wire Rangers.Json

/-- wire_roundtrip for the protobuf-go reader: what was framed with legal field numbers reads back. -/
theorem wire_roundtrip_raw_v2 (rs : List Raw) (h : RawsWF2 rs) : parseRawV2 (encRaws rs) = some rs :=
  parseRawV2_encRaws rs h

example : RawsWF2 [.vint 1 4294967295, .len 536870911 [7]] := by
  intro r hr
  simp at hr
  rcases hr with rfl | rfl <;> simp [RawWF2]

/-- The two readers differ exactly where protobuf-go is stricter: a field number above 2^29−1 is skipped
    as unknown by gogo and is an error for protobuf-go. -/
example : parseRaw [0x80, 0x80, 0x80, 0x80, 0x10, 0x00] = some [.vint 536870912 0] ∧
    parseRawV2 [0x80, 0x80, 0x80, 0x80, 0x10, 0x00] = none := by decide

/-- A group whose end marker carries another field number: gogo skips it, protobuf-go rejects it. -/
example : (parseRaw [0x0b, 0x14]).isSome = true ∧ parseRawV2 [0x0b, 0x14] = none := by decide

def EnvelopeFits (m : Envelope) : Prop := m.code < 2 ^ 32 ∧ ∀ b, m.body = some b → b.length < 2 ^ 64

theorem envelope_wf (m : Envelope) (h : EnvelopeFits m) : RawsWF2 (rawsOfEnvelope ⟨some m.code, m.body⟩) := by
  intro r hr
  simp only [rawsOfEnvelope, optVintR, List.cons_append, List.nil_append, List.mem_cons] at hr
  rcases hr with rfl | hr
  · exact ⟨by decide, by decide, by have := h.1; omega⟩
  · cases hb : m.body with
    | none => simp [hb, optLenR] at hr
    | some b =>
      simp only [hb, optLenR, List.mem_singleton] at hr
      subst hr
      exact ⟨by decide, by decide, h.2 b hb⟩

/-- The envelope is lossless: `unMarshalMessage (marshalMessage m) = m` (code and body, nil vs empty kept),
    whatever the source says about the `Code` dereference (the sender always writes the field). -/
theorem envelope_roundtrip (m : Envelope) (h : EnvelopeFits m) :
    unmarshalEnvelope (marshalEnvelope m) = .ok m := by
  unfold unmarshalEnvelope marshalEnvelope decEnvelope encEnvelope
  rw [parseRawV2_encRaws _ (envelope_wf m h)]
  have hc : m.code % 4294967296 = m.code := Nat.mod_eq_of_lt (by have := h.1; omega)
  cases m with
  | mk code body =>
  simp only at hc
  cases body <;> simp [rawsOfEnvelope, lastVint_append, lastLen_append, hc]

example : EnvelopeFits ⟨12, some [1, 2, 3]⟩ := ⟨by decide, fun b hb => by cases hb; decide⟩

/-- Full statement: `unMarshalMessage` yields an object or an error for every byte string. -/
def FullStatement_envelope_total : Prop := ∀ bs : Bytes, IsObjOrErr (unmarshalEnvelope bs)

/-- … proved whenever the source reads `Code` nil-safely (`message.GetCode()` or a dominating nil test) —
    the generated fact `envelopeCodeGuarded`. -/
theorem envelope_total_partial (hg : Generated.C09.envelopeCodeGuarded = true) : FullStatement_envelope_total := by
  intro bs
  unfold unmarshalEnvelope
  split
  · exact True.intro
  · split
    · exact True.intro
    · split
      · exact True.intro
      · rename_i h
        exact absurd hg h

/-- … and false, with the empty body as witness, whenever the source dereferences `*message.Code`
    unconditionally (replayed on the implementation: `network.unMarshalMessage([]byte{})` panics). -/
theorem envelope_total_counterexample (hg : Generated.C09.envelopeCodeGuarded = false) :
    ¬ FullStatement_envelope_total := by
  intro H
  have h := H []
  have e : unmarshalEnvelope [] = .panic 501 := by
    have d : decEnvelope [] = some ⟨none, none⟩ := by decide
    unfold unmarshalEnvelope
    rw [d]
    simp only []
    split
    · rename_i h
      rw [hg] at h
      cases h
    · rfl
  rw [e] at h
  exact h

/-- Either way the model and the source agree on which of the two holds. -/
theorem envelope_total_decided :
    FullStatement_envelope_total ∨ ¬ FullStatement_envelope_total := by
  cases hg : Generated.C09.envelopeCodeGuarded with
  | true => exact Or.inl (envelope_total_partial hg)
  | false => exact Or.inr (envelope_total_counterexample hg)

/-- An envelope whose `Code` is absent but whose body is present: same two outcomes. -/
example : decEnvelope [0x12, 0x00] = some ⟨none, some []⟩ := by decide

/-! ## frame header -/

/-- `unloadMsg (loadMsg h body)` returns the body and the header with the method cut/padded to 4 bytes
    and source id 0 (the sender never writes it; the gateway does). -/
theorem frame_roundtrip (method body : Bytes) (t n : Nat) (ht : t < 2 ^ 64) (hn : n < 2 ^ 64) :
    unloadMsg (loadMsg method t n body) = (⟨some (method4 method), 0, t, n⟩, some body) := by
  have l4 := method4_length method
  have l8 : (List.replicate 8 (0 : UInt8)).length = 8 := by simp
  have lt : (beFixed 8 t).length = 8 := beFixed_length _ _
  have ln : (beFixed 8 n).length = 8 := beFixed_length _ _
  have hlen : ¬ ((loadMsg method t n body).length < 28) := by
    simp only [loadMsg, List.length_append, l4, lt, ln, List.length_replicate]; omega
  have e256 : (256 : Nat) ^ 8 = 2 ^ 64 := by decide
  unfold unloadMsg
  simp only [hlen, if_false]
  simp only [loadMsg, List.append_assoc]
  rw [take_app _ _ 4 l4, drop_app _ _ 4 l4, take_app _ _ 8 l8,
    drop_app2 _ _ _ 12 (by rw [l4, l8]), take_app _ _ 8 lt,
    drop_app3 _ _ _ _ 20 (by rw [l4, l8, lt]), take_app _ _ 8 ln]
  have d28 : (method4 method ++ (List.replicate 8 0 ++ (beFixed 8 t ++ (beFixed 8 n ++ body)))).drop 28 = body := by
    rw [← List.append_assoc, ← List.append_assoc, ← List.append_assoc]
    exact List.drop_left' (by simp [l4, lt, ln])
  rw [d28, beToNat_beFixed, beToNat_beFixed, e256, Nat.mod_eq_of_lt ht, Nat.mod_eq_of_lt hn]
  have z : beToNat (List.replicate 8 (0 : UInt8)) = 0 := by decide
  rw [z]

/-- `unloadMsg` is total: a frame shorter than the header yields the zero header and a nil body
    (so `doRcv` sees a nil method and drops it), anything else a 4-byte method and a non-nil body. -/
theorem frame_total (m : Bytes) :
    (m.length < 28 → unloadMsg m = (⟨none, 0, 0, 0⟩, none)) ∧
    (28 ≤ m.length → ∃ h, unloadMsg m = (h, some (m.drop 28)) ∧ h.method = some (m.take 4)) := by
  constructor
  · intro h; simp [unloadMsg, h]
  · intro h
    have : ¬ (m.length < 28) := by omega
    exact ⟨_, by simp only [unloadMsg, this, if_false]; rfl, rfl⟩

example : unloadMsg (loadMsg [0x80, 0, 0, 1] 7 9 [0xaa]) = (⟨some [0x80, 0, 0, 1], 0, 7, 9⟩, some [0xaa]) := by decide

/-! ## transaction request (`core/msg_handler.go` / `core/msg_sender.go`) -/

/-- `unMarshalTransactionRequestMessage` yields an object or an error for every byte string: its only
    dereference (`*m.BlockHeight`) is of a required field, checked by the reader before the converter runs. -/
theorem parse_total_txreq (bs : Bytes) : IsObjOrErr (unmarshalTxReq bs) := by
  unfold unmarshalTxReq
  split
  · exact True.intro
  · split
    · exact True.intro
    · split <;> exact True.intro

/-- What the request carries: 32-byte hashes, a uint64 height, a non-negative prove value. -/
def TxReqValid (m : TxReq) : Prop :=
  (∀ p ∈ m.hashes, p.1.length = 32 ∧ p.2.length = 32) ∧ m.current.length = 32 ∧ m.height < 2 ^ 64 ∧
  ∃ v : Nat, m.pv = some (v : Int) ∧ (natToBE v).length < 2 ^ 64

theorem decTxHashV2_enc (a b : Bytes) (ha : a.length = 32) (hb : b.length = 32) :
    decTxHashV2 (encRaws (rawsOfTxHash ⟨some a, some b⟩)) = some ⟨some a, some b⟩ := by
  have hwf : RawsWF2 (rawsOfTxHash ⟨some a, some b⟩) := by
    intro r hr
    simp only [rawsOfTxHash, optLenR, List.cons_append, List.nil_append, List.mem_cons, List.not_mem_nil, or_false] at hr
    rcases hr with rfl | rfl
    · exact ⟨by decide, by decide, by rw [ha]; decide⟩
    · exact ⟨by decide, by decide, by rw [hb]; decide⟩
  simp only [decTxHashV2, parseRawV2_encRaws _ hwf, txHashOfRaws_raws]

theorem encTxHash_length (a b : Bytes) (ha : a.length = 32) (hb : b.length = 32) :
    (encRaws (rawsOfTxHash ⟨some a, some b⟩)).length < 2 ^ 64 := by
  have e34 : encVarint 10 = [10] ∧ encVarint 18 = [18] ∧ encVarint 32 = [32] := by decide
  simp only [rawsOfTxHash, optLenR, List.cons_append, List.nil_append, encRaws, encRaw, ha, hb, e34.1, e34.2.1, e34.2.2,
    List.length_append, List.length_cons, List.length_nil, List.append_nil]
  decide

/-- The transaction request is lossless across the two protobuf runtimes (written by gogo, read by protobuf-go). -/
theorem txreq_roundtrip (m : TxReq) (h : TxReqValid m) :
    ∃ bs, marshalTxReq m = .ok bs ∧ unmarshalTxReq bs = .ok m := by
  obtain ⟨hh, hc, hht, v, hpv, hvl⟩ := h
  cases m with
  | mk hashes current height pv =>
  simp only at hh hc hht hpv
  subst hpv
  refine ⟨_, rfl, ?_⟩
  have hchunks : ∀ c ∈ hashes.map (fun p => encRaws (rawsOfTxHash ⟨some p.1, some p.2⟩)), c.length < 2 ^ 64 := by
    intro c hcm
    simp only [List.mem_map] at hcm
    obtain ⟨p, hp, rfl⟩ := hcm
    exact encTxHash_length p.1 p.2 (hh p hp).1 (hh p hp).2
  have hwf : RawsWF2 (rawsOfTxReq ⟨hashes, current, height, some (v : Int)⟩ (v : Int)) := by
    intro r hr
    simp only [rawsOfTxReq, List.mem_append, List.mem_cons, List.not_mem_nil, or_false] at hr
    rcases hr with hr | rfl | rfl | rfl
    · exact RawsWF2_repLenR 1 _ (by decide) (by decide) hchunks r hr
    · exact ⟨by decide, by decide, by rw [hc]; decide⟩
    · exact ⟨by decide, by decide, hht⟩
    · exact ⟨by decide, by decide, by simpa using hvl⟩
  have e1 : allLen 1 (rawsOfTxReq ⟨hashes, current, height, some (v : Int)⟩ (v : Int)) =
      hashes.map (fun p => encRaws (rawsOfTxHash ⟨some p.1, some p.2⟩)) := by
    simp [rawsOfTxReq, allLen_append, allLen]
  have em : mapM' decTxHashV2 (hashes.map (fun p => encRaws (rawsOfTxHash ⟨some p.1, some p.2⟩))) =
      some (hashes.map (fun p => (⟨some p.1, some p.2⟩ : PbTxHash))) := by
    have := mapM'_map decTxHashV2 (fun t : PbTxHash => encRaws (rawsOfTxHash t))
      (hashes.map (fun p => (⟨some p.1, some p.2⟩ : PbTxHash)))
      (fun t ht => by
        simp only [List.mem_map] at ht
        obtain ⟨p, hp, rfl⟩ := ht
        exact decTxHashV2_enc p.1 p.2 (hh p hp).1 (hh p hp).2)
    simpa [List.map_map, Function.comp_def] using this
  have e := fun n (hn : n ≠ 1) => lastLen_repLenR_ne n 1
    (hashes.map (fun p => encRaws (rawsOfTxHash ⟨some p.1, some p.2⟩))) (fun h => hn h.symm)
  have l2 : lastLen 2 (rawsOfTxReq ⟨hashes, current, height, some (v : Int)⟩ (v : Int)) = some current := by
    simp [rawsOfTxReq, lastLen_append, lastLen, e 2 (by decide)]
  have l4 : lastLen 4 (rawsOfTxReq ⟨hashes, current, height, some (v : Int)⟩ (v : Int)) = some (natToBE v) := by
    simp [rawsOfTxReq, lastLen_append, lastLen, e 4 (by decide)]
  have l3 : lastVint 3 (rawsOfTxReq ⟨hashes, current, height, some (v : Int)⟩ (v : Int)) = some height := by
    simp [rawsOfTxReq, lastVint_append, lastVint]
  have hmapfix : (hashes.map (fun p => (⟨some p.1, some p.2⟩ : PbTxHash))).map
      (fun t => (optHash t.hash, optHash t.subHash)) = hashes := by
    rw [List.map_map]
    exact map_fix _ hashes (fun p hp => by
      simp [optHash, bytesToHash_id _ (hh p hp).1, bytesToHash_id _ (hh p hp).2])
  simp only [unmarshalTxReq, parseRawV2_encRaws _ hwf, e1, em, txReqRequired, hasLen, hasVint, l2, l3, l4,
    Option.isSome_some, Bool.and_self, if_true, Option.getD_some, optHash, bytesToHash_id _ hc,
    beToNat_natToBE]
  simp only [optHash] at hmapfix
  rw [hmapfix]

example : TxReqValid ⟨[(List.replicate 32 1, List.replicate 32 2)], List.replicate 32 3, 7, some 5⟩ := by
  refine ⟨fun p hp => ?_, by decide, by decide, 5, rfl, by decide⟩
  simp only [List.mem_singleton] at hp
  subst hp
  exact ⟨by decide, by decide⟩

/-- A nil `BlockPv` makes the *sender* fault (`m.BlockPv.Bytes()` on a nil `*big.Int`): in-memory values only,
    no byte string reaches this. -/
example : marshalTxReq ⟨[], List.replicate 32 0, 0, none⟩ = .panic 601 := rfl

end Rangers.Props.C09
