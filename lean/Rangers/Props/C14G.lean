import Rangers.Generated.Bls14Consts
import Rangers.Generated.Bls14Shape
import Rangers.Model.Bls14Verify
/-!
# C14, part 4 — translator facts (T-gen)

`gen/cmd/c14facts` re-reads `src/consensus/groupsig` on every run and regenerates
`Generated/Bls14Consts.lean` (numbers the whole model is parametrised by) and
`Generated/Bls14Shape.lean` (normalised bodies of `VerifySig` and of every wrapper the model
transcribes). Each theorem below pins one generated shape to the shape the model was written
against: a new / removed / re-ordered-with-effect guard, another callee, another argument or
another constant makes the corresponding obligation fail. Renaming a local or re-ordering
independent statements does not (the translator normalises those away).
(File produced by gen/cmd/c14facts/accept_shapes.py; see there before editing.)
-/
namespace Rangers.Props.C14
open Rangers Rangers.Model.Bls14
open Rangers.Generated.Bls14

/-- sig.go: VerifySig is what `Model/Bls14Verify.lean` / `Bls14G1.lean` transcribes. -/
theorem shape_verifySig : Shape.verifySig = [
  "guard[!$0.IsValid()] -> return false",
  "guard[$2.IsNil() || !$2.IsValid()] -> return false",
  "guard[$2.value.IsNil()] -> return false",
  "return bn_curve.PairIsEuqal(bn_curve.Pair(&$2.value, bn_curve.GetG2Base()), bn_curve.Pair(hashToG1(string($1)), &$0.value))"
] := rfl

/-- sig.go: Signature.IsValid is what `Model/Bls14Verify.lean` / `Bls14G1.lean` transcribes. -/
theorem shape_sigIsValid : Shape.sigIsValid = [
  "guard[len($r.Serialize()) == 0] -> return false",
  "return $r.value.IsValid()"
] := rfl

/-- sig.go: Signature.IsNil is what `Model/Bls14Verify.lean` / `Bls14G1.lean` transcribes. -/
theorem shape_sigIsNil : Shape.sigIsNil = [
  "return $r.value.IsNil()"
] := rfl

/-- sig.go: Signature.Serialize is what `Model/Bls14Verify.lean` / `Bls14G1.lean` transcribes. -/
theorem shape_sigSerialize : Shape.sigSerialize = [
  "guard[$r.IsNil()] -> return []byte{}",
  "return $r.value.Marshal()"
] := rfl

/-- sig.go: Signature.Deserialize is what `Model/Bls14Verify.lean` / `Bls14G1.lean` transcribes. -/
theorem shape_sigDeserialize : Shape.sigDeserialize = [
  "guard[len($0) == 0] -> return fmt.Errorf(\"signature Deserialized failed.\")",
  "do $r.value.Unmarshal($0)",
  "return nil"
] := rfl

/-- sig.go: DeserializeSign is what `Model/Bls14Verify.lean` / `Bls14G1.lean` transcribes. -/
theorem shape_deserializeSign : Shape.deserializeSign = [
  "do &Signature{}.Deserialize($0)",
  "return &Signature{}"
] := rfl

/-- sig.go: Sign is what `Model/Bls14Verify.lean` / `Bls14G1.lean` transcribes. -/
theorem shape_sign : Shape.sign = [
  "do $out:sig.value.ScalarMult(hashToG1(string($1)), $0.GetBigInt())",
  "return $out:sig"
] := rfl

/-- pubkey.go: Pubkey.IsValid is what `Model/Bls14Verify.lean` / `Bls14G1.lean` transcribes. -/
theorem shape_pubIsValid : Shape.pubIsValid = [
  "return !$r.IsEmpty()"
] := rfl

/-- pubkey.go: Pubkey.IsEmpty is what `Model/Bls14Verify.lean` / `Bls14G1.lean` transcribes. -/
theorem shape_pubIsEmpty : Shape.pubIsEmpty = [
  "return $r.value.IsEmpty()"
] := rfl

/-- pubkey.go: Pubkey.Serialize is what `Model/Bls14Verify.lean` / `Bls14G1.lean` transcribes. -/
theorem shape_pubSerialize : Shape.pubSerialize = [
  "return $r.value.Marshal()"
] := rfl

/-- pubkey.go: Pubkey.Deserialize is what `Model/Bls14Verify.lean` / `Bls14G1.lean` transcribes. -/
theorem shape_pubDeserialize : Shape.pubDeserialize = [
  "do _, error := $r.value.Unmarshal($0)",
  "return error"
] := rfl

/-- pubkey.go: ByteToPublicKey is what `Model/Bls14Verify.lean` / `Bls14G1.lean` transcribes. -/
theorem shape_byteToPublicKey : Shape.byteToPublicKey = [
  "if $e := $L0:Pubkey.Deserialize($0); $e != nil -> return Pubkey{}",
  "return $L0:Pubkey"
] := rfl

/-- id.go: ID.Serialize is what `Model/Bls14Verify.lean` / `Bls14G1.lean` transcribes. -/
theorem shape_idSerialize : Shape.idSerialize = [
  "guard[len($r.value.serialize()) == ID_LENGTH] -> return $r.value.serialize()",
  "guard[len($r.value.serialize()) > ID_LENGTH] -> panic",
  "do copy(make([]byte, ID_LENGTH)[ID_LENGTH - len($r.value.serialize()):ID_LENGTH], $r.value.serialize())",
  "return make([]byte, ID_LENGTH)"
] := rfl

/-- bn256.go: G1.IsValid is what `Model/Bls14Verify.lean` / `Bls14G1.lean` transcribes. -/
theorem shape_g1IsValid : Shape.g1IsValid = [
  "return $r.p.IsOnCurve()"
] := rfl

/-- bn256.go: G1.IsNil is what `Model/Bls14Verify.lean` / `Bls14G1.lean` transcribes. -/
theorem shape_g1IsNil : Shape.g1IsNil = [
  "return $r.p == nil"
] := rfl

/-- bn256.go: G2.IsEmpty is what `Model/Bls14Verify.lean` / `Bls14G1.lean` transcribes. -/
theorem shape_g2IsEmpty : Shape.g2IsEmpty = [
  "return $r.p == nil"
] := rfl

/-- bn256.go: PairIsEuqal is what `Model/Bls14Verify.lean` / `Bls14G1.lean` transcribes. -/
theorem shape_pairIsEqual : Shape.pairIsEqual = [
  "return bytes.Equal($0.Marshal(), $1.Marshal())"
] := rfl

/-- bn256.go: exits of G1.Unmarshal with their path conditions is what `Model/Bls14Verify.lean` / `Bls14G1.lean` transcribes. -/
theorem shape_g1UnmarshalExits : Shape.g1UnmarshalExits = [
  "[len($0) < 2 * numBytes] -> return nil, errors.New(\"bn256: not enough data\")",
  "[!($r.p.x == gfP{0} && $r.p.y == gfP{0})][!$r.p.IsOnCurve()] -> return nil, errors.New(\"bn256: malformed point\")",
  " -> return $0[2 * numBytes:], nil"
] := rfl

/-- bn256.go: exits of G2.Unmarshal with their path conditions is what `Model/Bls14Verify.lean` / `Bls14G1.lean` transcribes. -/
theorem shape_g2UnmarshalExits : Shape.g2UnmarshalExits = [
  "[len($0) < 4 * numBytes] -> return nil, errors.New(\"bn256: not enough data\")",
  "[!($r.p.x.IsZero() && $r.p.y.IsZero())][!$r.p.IsOnCurve()] -> return nil, errors.New(\"bn256: malformed point\")",
  " -> return $0[4 * numBytes:], nil"
] := rfl

/-- curve.go: curvePoint.IsOnCurve exits is what `Model/Bls14Verify.lean` / `Bls14G1.lean` transcribes. -/
theorem shape_curveIsOnCurve : Shape.curveIsOnCurve = [
  "[$r.IsInfinity()] -> return true",
  " -> return *y2 == *x3"
] := rfl

/-- bn_curve.go: hashToG1 is what `Model/Bls14Verify.lean` / `Bls14G1.lean` transcribes. -/
theorem shape_hashToG1 : Shape.hashToG1 = [
  "do &bn_curve.G1{}.HashToPoint([]byte($0))",
  "return &bn_curve.G1{}"
] := rfl

/-- bn_curve.go: package-level variables hashToG1 touches (must stay empty: no cache, no state) is what `Model/Bls14Verify.lean` / `Bls14G1.lean` transcribes. -/
theorem shape_hashToG1State : Shape.hashToG1State = [] := rfl

/-- bn_curve.go: callees of hashToG1 is what `Model/Bls14Verify.lean` / `Bls14G1.lean` transcribes. -/
theorem shape_hashToG1Calls : Shape.hashToG1Calls = [
  ".HashToPoint"
] := rfl

/-- bn256.go: package-level variables G1.HashToPoint touches is what `Model/Bls14Verify.lean` / `Bls14G1.lean` transcribes. -/
theorem shape_hashToPointState : Shape.hashToPointState = [] := rfl

/-- bn256.go: callees of G1.HashToPoint is what `Model/Bls14Verify.lean` / `Bls14G1.lean` transcribes. -/
theorem shape_hashToPointCalls : Shape.hashToPointCalls = [
  ".Bytes",
  ".IsValid",
  ".Set",
  ".Unmarshal",
  "copy",
  "errors.New",
  "hashToCurvePoint",
  "len",
  "make",
  "montEncode",
  "newGFp"
] := rfl

/-- bn256.go: package-level variables hashToCurvePoint touches (only the modulus) is what `Model/Bls14Verify.lean` / `Bls14G1.lean` transcribes. -/
theorem shape_hashToCurvePointState : Shape.hashToCurvePointState = [
  "P"
] := rfl

/-- bn256.go: callees of hashToCurvePoint is what `Model/Bls14Verify.lean` / `Bls14G1.lean` transcribes. -/
theorem shape_hashToCurvePointCalls : Shape.hashToCurvePointCalls = [
  ".Add",
  ".Mod",
  ".ModSqrt",
  ".Mul",
  ".SetBytes",
  ".SetInt64",
  "big.NewInt",
  "sha256.Sum256"
] := rfl

/-- bn256/*.go: every write-capable use of a package-level variable inside a function body (assign / incdec / &v / method call with v as receiver) is what `Model/Bls14Verify.lean` / `Bls14G1.lean` transcribes. -/
theorem shape_bn256PackageState : Shape.bn256PackageState = [] := rfl

/-- sig.go, pubkey.go: methods invoked on / addresses taken of the shared-pointer field `.value` of a receiver or parameter is what `Model/Bls14Verify.lean` / `Bls14G1.lean` transcribes. -/
theorem shape_groupsigValueUses : Shape.groupsigValueUses = [
  "GeneratePubkey: arg.value.getBigInt()",
  "Pubkey.Deserialize: arg.value.Unmarshal()",
  "Pubkey.GetHexString: arg.value.Marshal()",
  "Pubkey.IsEmpty: arg.value.IsEmpty()",
  "Pubkey.IsEqual: arg.value.Marshal()",
  "Pubkey.Serialize: arg.value.Marshal()",
  "Pubkey.SetHexString: arg.value.Unmarshal()",
  "Pubkey.add: &arg.value",
  "Pubkey.add: arg.value.Add()",
  "Signature.Deserialize: arg.value.Unmarshal()",
  "Signature.GetHexString: arg.value.Marshal()",
  "Signature.IsEqual: arg.value.Marshal()",
  "Signature.IsNil: arg.value.IsNil()",
  "Signature.IsValid: arg.value.IsValid()",
  "Signature.Serialize: arg.value.Marshal()",
  "Signature.SetHexString: arg.value.IsNil()",
  "Signature.SetHexString: arg.value.Unmarshal()",
  "Signature.add: &arg.value",
  "Signature.add: arg.value.Add()",
  "Signature.mul: &arg.value",
  "Signature.mul: arg.value.ScalarMult()",
  "VerifySig: &arg.value",
  "VerifySig: arg.value.IsNil()"
] := rfl

/-- bn_curve.go: BnInt.getHexString is what `Model/Bls14Verify.lean` / `Bls14G1.lean` transcribes. -/
theorem shape_bnIntGetHexString : Shape.bnIntGetHexString = [
  "return PREFIX + $r.v.Text(16)"
] := rfl

/-- bn_curve.go: BnInt.setHexString is what `Model/Bls14Verify.lean` / `Bls14G1.lean` transcribes. -/
theorem shape_bnIntSetHexString : Shape.bnIntSetHexString = [
  "guard[len($0) < len(PREFIX) || $0[:len(PREFIX)] != PREFIX] -> return fmt.Errorf(\"arg failed\")",
  "do $r.v.SetString($0[len(PREFIX):][:], 16)",
  "return nil"
] := rfl

/-- sig.go: Signature.GetHexString is what `Model/Bls14Verify.lean` / `Bls14G1.lean` transcribes. -/
theorem shape_sigGetHexString : Shape.sigGetHexString = [
  "return PREFIX + common.Bytes2Hex($r.value.Marshal())"
] := rfl

/-- sig.go: Signature.SetHexString is what `Model/Bls14Verify.lean` / `Bls14G1.lean` transcribes. -/
theorem shape_sigSetHexString : Shape.sigSetHexString = [
  "guard[len($0) < len(PREFIX) || $0[:len(PREFIX)] != PREFIX] -> return fmt.Errorf(\"arg failed\")",
  "unrecognised-if: if sig.value.IsNil() { sig.value = bn_curve.G1{} }",
  "do $r.value.Unmarshal(common.Hex2Bytes($0[len(PREFIX):]))",
  "return nil"
] := rfl

/-- pubkey.go: Pubkey.GetHexString is what `Model/Bls14Verify.lean` / `Bls14G1.lean` transcribes. -/
theorem shape_pubGetHexString : Shape.pubGetHexString = [
  "return PREFIX + common.Bytes2Hex($r.value.Marshal())"
] := rfl

/-- pubkey.go: Pubkey.SetHexString is what `Model/Bls14Verify.lean` / `Bls14G1.lean` transcribes. -/
theorem shape_pubSetHexString : Shape.pubSetHexString = [
  "guard[len($0) < len(PREFIX) || $0[:len(PREFIX)] != PREFIX] -> return fmt.Errorf(\"arg failed\")",
  "do $r.value.Unmarshal(common.Hex2Bytes($0[len(PREFIX):]))",
  "return nil"
] := rfl

/-- pubkey.go: Pubkey.UnmarshalJSON is what `Model/Bls14Verify.lean` / `Bls14G1.lean` transcribes. -/
theorem shape_pubUnmarshalJSON : Shape.pubUnmarshalJSON = [
  "guard[len(string($0[:])) < 2] -> return fmt.Errorf(\"data size less than min.\")",
  "do string($0[:]) = string($0[:])[1:len(string($0[:])) - 1]",
  "return $r.SetHexString(string($0[:]))"
] := rfl

/-- id.go: ID.GetHexString is what `Model/Bls14Verify.lean` / `Bls14G1.lean` transcribes. -/
theorem shape_idGetHexString : Shape.idGetHexString = [
  "return common.ToHex($r.Serialize())"
] := rfl

/-- id.go: ID.SetHexString is what `Model/Bls14Verify.lean` / `Bls14G1.lean` transcribes. -/
theorem shape_idSetHexString : Shape.idSetHexString = [
  "return $r.value.setHexString($0)"
] := rfl

/-- id.go: ID.UnmarshalJSON is what `Model/Bls14Verify.lean` / `Bls14G1.lean` transcribes. -/
theorem shape_idUnmarshalJSON : Shape.idUnmarshalJSON = [
  "guard[len(string($0[:])) < 2] -> return fmt.Errorf(\"data size less than min.\")",
  "do string($0[:]) = string($0[:])[1:len(string($0[:])) - 1]",
  "return $r.SetHexString(string($0[:]))"
] := rfl

/-- common/bytes.go: Hex2Bytes is what `Model/Bls14Verify.lean` / `Bls14G1.lean` transcribes. -/
theorem shape_commonHex2Bytes : Shape.commonHex2Bytes = [
  "do h, _ := hex.DecodeString($0)",
  "return h"
] := rfl

/-- common/bytes.go: Bytes2Hex is what `Model/Bls14Verify.lean` / `Bls14G1.lean` transcribes. -/
theorem shape_commonBytes2Hex : Shape.commonBytes2Hex = [
  "return hex.EncodeToString($0)"
] := rfl

/-- common/bytes.go: ToHex is what `Model/Bls14Verify.lean` / `Bls14G1.lean` transcribes. -/
theorem shape_commonToHex : Shape.commonToHex = [
  "unrecognised-if: if len(hex) == 0 { hex = \"0\" }",
  "return \"0x\" + Bytes2Hex($0)"
] := rfl

/-- groupsig/*.go: everything used from other go-rangers packages (no chain configuration, no fork flags, no block height) is what `Model/Bls14Verify.lean` / `Bls14G1.lean` transcribes. -/
theorem shape_groupsigExternalUses : Shape.groupsigExternalUses = [
  "src/common.Address",
  "src/common.Bytes2Hex",
  "src/common.BytesToAddress",
  "src/common.Hex2Bytes",
  "src/common.ShortHex12",
  "src/common.ToHex",
  "src/consensus/base.NewRand",
  "src/consensus/base.Rand"
] := rfl

/-- bn256/*.go: everything used from other go-rangers packages (nothing) is what `Model/Bls14Verify.lean` / `Bls14G1.lean` transcribes. -/
theorem shape_bn256ExternalUses : Shape.bn256ExternalUses = [] := rfl

/-- The constants are mutually consistent and are the ones the byte-level proofs rely on:
    `p2` spells `P`, `P ≡ 3 (mod 4)` (square roots by one exponentiation), `P` fits in
    `numBytes` bytes but `2P` does not (so `x + p` is the only alias), `Order < P`. -/
theorem consts_consistent :
    fieldPWords = fieldP ∧ fieldP % 4 = 3 ∧ groupOrder < fieldP ∧ numBytes = 32 ∧ idLength = 32 ∧
    fieldP < 256 ^ numBytes ∧ 256 ^ numBytes < 2 * fieldP ∧ curveB = 3 := by decide

/-- Both generators satisfy their curve equations, and `twistB · (i + 3) = 3`. -/
theorem generators_on_curve :
    g1Gen.onCurve = true ∧ g1Gen.reduced = true ∧ g2Gen.onCurve = true ∧
    F2.mul twistB ⟨1, 3⟩ = ⟨0, 3⟩ := by decide

end Rangers.Props.C14
