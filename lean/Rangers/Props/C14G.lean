import Rangers.Generated.Bls14Consts
import Rangers.Generated.Bls14Shape
import Rangers.Model.Bls14Verify
/-!
# C14, part 4 — translator facts (T-gen)

`gen/cmd/c14facts` re-reads `src/consensus/groupsig` on every run and regenerates
`Generated/Bls14Consts.lean` (numbers the whole model is parametrised by) and
`Generated/Bls14Shape.lean` (normalised bodies of `VerifySig` and of every wrapper the model
transcribes). Each theorem below pins one generated shape to the shape the model was written
against: a new / removed / re-ordered-with-effect guard, another callee, another argument or
another constant makes the corresponding obligation fail. Renaming a local or re-ordering
independent statements does not (the translator normalises those away).
(File produced by gen/cmd/c14facts/accept_shapes.py; see there before editing.)
-/
namespace Rangers.Props.C14
open Rangers Rangers.Model.Bls14
open Rangers.Generated.Bls14

/-- sig.go: VerifySig is what `Model/Bls14Verify.lean` / `Bls14G1.lean` transcribes. -/
theorem shape_verifySig : Shape.verifySig = [
  "guard[!$0.IsValid()] -> return false",
  "guard[$2.IsNil() || !$2.IsValid()] -> return false",
  "guard[$2.value.IsNil()] -> return false",
  "return bn_curve.PairIsEuqal(bn_curve.Pair(&$2.value, bn_curve.GetG2Base()), bn_curve.Pair(hashToG1(string($1)), &$0.value))"
] := rfl

/-- sig.go: Signature.IsValid is what `Model/Bls14Verify.lean` / `Bls14G1.lean` transcribes. -/
theorem shape_sigIsValid : Shape.sigIsValid = [
  "guard[len($r.Serialize()) == 0] -> return false",
  "return $r.value.IsValid()"
] := rfl

/-- sig.go: Signature.IsNil is what `Model/Bls14Verify.lean` / `Bls14G1.lean` transcribes. -/
theorem shape_sigIsNil : Shape.sigIsNil = [
  "return $r.value.IsNil()"
] := rfl

/-- sig.go: Signature.Serialize is what `Model/Bls14Verify.lean` / `Bls14G1.lean` transcribes. -/
theorem shape_sigSerialize : Shape.sigSerialize = [
  "guard[$r.IsNil()] -> return []byte{}",
  "return $r.value.Marshal()"
] := rfl

/-- sig.go: Signature.Deserialize is what `Model/Bls14Verify.lean` / `Bls14G1.lean` transcribes. -/
theorem shape_sigDeserialize : Shape.sigDeserialize = [
  "guard[len($0) == 0] -> return fmt.Errorf(\"signature Deserialized failed.\")",
  "do $r.value.Unmarshal($0)",
  "return nil"
] := rfl

/-- sig.go: DeserializeSign is what `Model/Bls14Verify.lean` / `Bls14G1.lean` transcribes. -/
theorem shape_deserializeSign : Shape.deserializeSign = [
  "do &Signature{}.Deserialize($0)",
  "return &Signature{}"
] := rfl

/-- sig.go: Sign is what `Model/Bls14Verify.lean` / `Bls14G1.lean` transcribes. -/
theorem shape_sign : Shape.sign = [
  "do $out:sig.value.ScalarMult(hashToG1(string($1)), $0.GetBigInt())",
  "return $out:sig"
] := rfl

/-- pubkey.go: Pubkey.IsValid is what `Model/Bls14Verify.lean` / `Bls14G1.lean` transcribes. -/
theorem shape_pubIsValid : Shape.pubIsValid = [
  "return !$r.IsEmpty()"
] := rfl

/-- pubkey.go: Pubkey.IsEmpty is what `Model/Bls14Verify.lean` / `Bls14G1.lean` transcribes. -/
theorem shape_pubIsEmpty : Shape.pubIsEmpty = [
  "return $r.value.IsEmpty()"
] := rfl

/-- pubkey.go: Pubkey.Serialize is what `Model/Bls14Verify.lean` / `Bls14G1.lean` transcribes. -/
theorem shape_pubSerialize : Shape.pubSerialize = [
  "return $r.value.Marshal()"
] := rfl

/-- pubkey.go: Pubkey.Deserialize is what `Model/Bls14Verify.lean` / `Bls14G1.lean` transcribes. -/
theorem shape_pubDeserialize : Shape.pubDeserialize = [
  "do _, error := $r.value.Unmarshal($0)",
  "return error"
] := rfl

/-- pubkey.go: ByteToPublicKey is what `Model/Bls14Verify.lean` / `Bls14G1.lean` transcribes. -/
theorem shape_byteToPublicKey : Shape.byteToPublicKey = [
  "if $e := $L0:Pubkey.Deserialize($0); $e != nil -> return Pubkey{}",
  "return $L0:Pubkey"
] := rfl

/-- id.go: ID.Serialize is what `Model/Bls14Verify.lean` / `Bls14G1.lean` transcribes. -/
theorem shape_idSerialize : Shape.idSerialize = [
  "guard[len($r.value.serialize()) == ID_LENGTH] -> return $r.value.serialize()",
  "guard[len($r.value.serialize()) > ID_LENGTH] -> panic",
  "do copy(make([]byte, ID_LENGTH)[ID_LENGTH - len($r.value.serialize()):ID_LENGTH], $r.value.serialize())",
  "return make([]byte, ID_LENGTH)"
] := rfl

/-- bn256.go: G1.IsValid is what `Model/Bls14Verify.lean` / `Bls14G1.lean` transcribes. -/
theorem shape_g1IsValid : Shape.g1IsValid = [
  "return $r.p.IsOnCurve()"
] := rfl

/-- bn256.go: G1.IsNil is what `Model/Bls14Verify.lean` / `Bls14G1.lean` transcribes. -/
theorem shape_g1IsNil : Shape.g1IsNil = [
  "return $r.p == nil"
] := rfl

/-- bn256.go: G2.IsEmpty is what `Model/Bls14Verify.lean` / `Bls14G1.lean` transcribes. -/
theorem shape_g2IsEmpty : Shape.g2IsEmpty = [
  "return $r.p == nil"
] := rfl

/-- bn256.go: PairIsEuqal is what `Model/Bls14Verify.lean` / `Bls14G1.lean` transcribes. -/
theorem shape_pairIsEqual : Shape.pairIsEqual = [
  "return bytes.Equal($0.Marshal(), $1.Marshal())"
] := rfl

/-- bn256.go: exits of G1.Unmarshal with their path conditions is what `Model/Bls14Verify.lean` / `Bls14G1.lean` transcribes. -/
theorem shape_g1UnmarshalExits : Shape.g1UnmarshalExits = [
  "[len($0) < 2 * numBytes] -> return nil, errors.New(\"bn256: not enough data\")",
  "[!($r.p.x == gfP{0} && $r.p.y == gfP{0})][!$r.p.IsOnCurve()] -> return nil, errors.New(\"bn256: malformed point\")",
  " -> return $0[2 * numBytes:], nil"
] := rfl

/-- bn256.go: exits of G2.Unmarshal with their path conditions is what `Model/Bls14Verify.lean` / `Bls14G1.lean` transcribes. -/
theorem shape_g2UnmarshalExits : Shape.g2UnmarshalExits = [
  "[len($0) < 4 * numBytes] -> return nil, errors.New(\"bn256: not enough data\")",
  "[!($r.p.x.IsZero() && $r.p.y.IsZero())][!$r.p.IsOnCurve()] -> return nil, errors.New(\"bn256: malformed point\")",
  " -> return $0[4 * numBytes:], nil"
] := rfl

/-- curve.go: curvePoint.IsOnCurve exits is what `Model/Bls14Verify.lean` / `Bls14G1.lean` transcribes. -/
theorem shape_curveIsOnCurve : Shape.curveIsOnCurve = [
  "[$r.IsInfinity()] -> return true",
  " -> return *y2 == *x3"
] := rfl

/-- bn_curve.go: hashToG1 is what `Model/Bls14Verify.lean` / `Bls14G1.lean` transcribes. -/
theorem shape_hashToG1 : Shape.hashToG1 = [
  "do &bn_curve.G1{}.HashToPoint([]byte($0))",
  "return &bn_curve.G1{}"
] := rfl

/-- bn256.go: the try-and-increment loop of hashToCurvePoint is unbounded and is left only by returning a point is what `Model/Bls14Verify.lean` / `Bls14G1.lean` transcribes. -/
theorem shape_hashToCurvePointLoop : Shape.hashToCurvePointLoop = [
  "for: init=- cond=- post=- returns-inside=1 statements-after=0"
] := rfl

/-- bn256.go: hashToCurvePoint is what `Model/Bls14Verify.lean` / `Bls14G1.lean` transcribes. -/
theorem shape_hashToCurvePoint : Shape.hashToCurvePoint = [
  "do new(big.Int).SetBytes(sha256.Sum256($0)[:]).Mod(new(big.Int).SetBytes(sha256.Sum256($0)[:]), P)",
  "stmt *ast.ForStmt: for { xxx := new(big.Int).Mul(x, x) xxx.Mul(xxx, x) t := new(big.Int).Add(xxx, bi_curveB) y := new(big.Int).ModSqrt(t, P) if y != nil { return x, y } x.Add(x, one) }"
] := rfl

/-- bn256.go: G1.HashToPoint is what `Model/Bls14Verify.lean` / `Bls14G1.lean` transcribes. -/
theorem shape_hashToPoint : Shape.hashToPoint = [
  "do x, y := hashToCurvePoint($0)",
  "do Px, Py := &gfP{}, &gfP{}",
  "unrecognised-if: if len(x_str) == 32 { Px.Unmarshal(x_str) } else { buf_x := make([]byte, 32) copy(buf_x[32-len(x_str):32], x_str) Px.Unmarshal(buf_x) }",
  "do montEncode(Px, Px)",
  "unrecognised-if: if len(y_str) == 32 { Py.Unmarshal(y_str) } else { buf_y := make([]byte, 32) copy(buf_y[32-len(y_str):32], y_str) Py.Unmarshal(buf_y) }",
  "do montEncode(Py, Py)",
  "unrecognised-if: if e.p == nil { e.p = &curvePoint{} }",
  "do $r.p.x.Set(Px)",
  "do $r.p.y.Set(Py)",
  "do $r.p.z.Set(newGFp(1))",
  "do $r.p.t.Set(newGFp(1))",
  "unrecognised-if: if e.IsValid() { return nil } else { return errors.New(\"hash to point failed.\") }"
] := rfl

/-- bn_curve.go: package-level variables hashToG1 touches (must stay empty: no cache, no state) is what `Model/Bls14Verify.lean` / `Bls14G1.lean` transcribes. -/
theorem shape_hashToG1State : Shape.hashToG1State = [] := rfl

/-- bn_curve.go: callees of hashToG1 is what `Model/Bls14Verify.lean` / `Bls14G1.lean` transcribes. -/
theorem shape_hashToG1Calls : Shape.hashToG1Calls = [
  ".HashToPoint"
] := rfl

/-- bn256.go: package-level variables G1.HashToPoint touches is what `Model/Bls14Verify.lean` / `Bls14G1.lean` transcribes. -/
theorem shape_hashToPointState : Shape.hashToPointState = [] := rfl

/-- bn256.go: callees of G1.HashToPoint is what `Model/Bls14Verify.lean` / `Bls14G1.lean` transcribes. -/
theorem shape_hashToPointCalls : Shape.hashToPointCalls = [
  ".Bytes",
  ".IsValid",
  ".Set",
  ".Unmarshal",
  "copy",
  "errors.New",
  "hashToCurvePoint",
  "len",
  "make",
  "montEncode",
  "newGFp"
] := rfl

/-- bn256.go: package-level variables hashToCurvePoint touches (only the modulus) is what `Model/Bls14Verify.lean` / `Bls14G1.lean` transcribes. -/
theorem shape_hashToCurvePointState : Shape.hashToCurvePointState = [
  "P"
] := rfl

/-- bn256.go: callees of hashToCurvePoint is what `Model/Bls14Verify.lean` / `Bls14G1.lean` transcribes. -/
theorem shape_hashToCurvePointCalls : Shape.hashToCurvePointCalls = [
  ".Add",
  ".Mod",
  ".ModSqrt",
  ".Mul",
  ".SetBytes",
  ".SetInt64",
  "big.NewInt",
  "sha256.Sum256"
] := rfl

/-- bn256/*.go: every write-capable use of a package-level variable inside a function body (assign / incdec / &v / method call with v as receiver) is what `Model/Bls14Verify.lean` / `Bls14G1.lean` transcribes. -/
theorem shape_bn256PackageState : Shape.bn256PackageState = [] := rfl

/-- sig.go, pubkey.go: methods invoked on / addresses taken of the shared-pointer field `.value` of a receiver or parameter is what `Model/Bls14Verify.lean` / `Bls14G1.lean` transcribes. -/
theorem shape_groupsigValueUses : Shape.groupsigValueUses = [
  "GeneratePubkey: arg.value.getBigInt()",
  "Pubkey.Deserialize: arg.value.Unmarshal()",
  "Pubkey.GetHexString: arg.value.Marshal()",
  "Pubkey.IsEmpty: arg.value.IsEmpty()",
  "Pubkey.IsEqual: arg.value.Marshal()",
  "Pubkey.Serialize: arg.value.Marshal()",
  "Pubkey.SetHexString: arg.value.Unmarshal()",
  "Pubkey.add: &arg.value",
  "Pubkey.add: arg.value.Add()",
  "Signature.Deserialize: arg.value.Unmarshal()",
  "Signature.GetHexString: arg.value.Marshal()",
  "Signature.IsEqual: arg.value.Marshal()",
  "Signature.IsNil: arg.value.IsNil()",
  "Signature.IsValid: arg.value.IsValid()",
  "Signature.Serialize: arg.value.Marshal()",
  "Signature.SetHexString: arg.value.IsNil()",
  "Signature.SetHexString: arg.value.Unmarshal()",
  "Signature.add: &arg.value",
  "Signature.add: arg.value.Add()",
  "Signature.mul: &arg.value",
  "Signature.mul: arg.value.ScalarMult()",
  "VerifySig: &arg.value",
  "VerifySig: arg.value.IsNil()"
] := rfl

/-- bn_curve.go: BnInt.getHexString is what `Model/Bls14Verify.lean` / `Bls14G1.lean` transcribes. -/
theorem shape_bnIntGetHexString : Shape.bnIntGetHexString = [
  "return PREFIX + $r.v.Text(16)"
] := rfl

/-- bn_curve.go: BnInt.setHexString is what `Model/Bls14Verify.lean` / `Bls14G1.lean` transcribes. -/
theorem shape_bnIntSetHexString : Shape.bnIntSetHexString = [
  "guard[len($0) < len(PREFIX) || $0[:len(PREFIX)] != PREFIX] -> return fmt.Errorf(\"arg failed\")",
  "do $r.v.SetString($0[len(PREFIX):][:], 16)",
  "return nil"
] := rfl

/-- sig.go: Signature.GetHexString is what `Model/Bls14Verify.lean` / `Bls14G1.lean` transcribes. -/
theorem shape_sigGetHexString : Shape.sigGetHexString = [
  "return PREFIX + common.Bytes2Hex($r.value.Marshal())"
] := rfl

/-- sig.go: Signature.SetHexString is what `Model/Bls14Verify.lean` / `Bls14G1.lean` transcribes. -/
theorem shape_sigSetHexString : Shape.sigSetHexString = [
  "guard[len($0) < len(PREFIX) || $0[:len(PREFIX)] != PREFIX] -> return fmt.Errorf(\"arg failed\")",
  "unrecognised-if: if sig.value.IsNil() { sig.value = bn_curve.G1{} }",
  "do $r.value.Unmarshal(common.Hex2Bytes($0[len(PREFIX):]))",
  "return nil"
] := rfl

/-- pubkey.go: Pubkey.GetHexString is what `Model/Bls14Verify.lean` / `Bls14G1.lean` transcribes. -/
theorem shape_pubGetHexString : Shape.pubGetHexString = [
  "return PREFIX + common.Bytes2Hex($r.value.Marshal())"
] := rfl

/-- pubkey.go: Pubkey.SetHexString is what `Model/Bls14Verify.lean` / `Bls14G1.lean` transcribes. -/
theorem shape_pubSetHexString : Shape.pubSetHexString = [
  "guard[len($0) < len(PREFIX) || $0[:len(PREFIX)] != PREFIX] -> return fmt.Errorf(\"arg failed\")",
  "do $r.value.Unmarshal(common.Hex2Bytes($0[len(PREFIX):]))",
  "return nil"
] := rfl

/-- pubkey.go: Pubkey.UnmarshalJSON is what `Model/Bls14Verify.lean` / `Bls14G1.lean` transcribes. -/
theorem shape_pubUnmarshalJSON : Shape.pubUnmarshalJSON = [
  "guard[len(string($0[:])) < 2] -> return fmt.Errorf(\"data size less than min.\")",
  "do string($0[:]) = string($0[:])[1:len(string($0[:])) - 1]",
  "return $r.SetHexString(string($0[:]))"
] := rfl

/-- id.go: ID.GetHexString is what `Model/Bls14Verify.lean` / `Bls14G1.lean` transcribes. -/
theorem shape_idGetHexString : Shape.idGetHexString = [
  "return common.ToHex($r.Serialize())"
] := rfl

/-- id.go: ID.SetHexString is what `Model/Bls14Verify.lean` / `Bls14G1.lean` transcribes. -/
theorem shape_idSetHexString : Shape.idSetHexString = [
  "return $r.value.setHexString($0)"
] := rfl

/-- id.go: ID.UnmarshalJSON is what `Model/Bls14Verify.lean` / `Bls14G1.lean` transcribes. -/
theorem shape_idUnmarshalJSON : Shape.idUnmarshalJSON = [
  "guard[len(string($0[:])) < 2] -> return fmt.Errorf(\"data size less than min.\")",
  "do string($0[:]) = string($0[:])[1:len(string($0[:])) - 1]",
  "return $r.SetHexString(string($0[:]))"
] := rfl

/-- common/bytes.go: Hex2Bytes is what `Model/Bls14Verify.lean` / `Bls14G1.lean` transcribes. -/
theorem shape_commonHex2Bytes : Shape.commonHex2Bytes = [
  "do h, _ := hex.DecodeString($0)",
  "return h"
] := rfl

/-- common/bytes.go: Bytes2Hex is what `Model/Bls14Verify.lean` / `Bls14G1.lean` transcribes. -/
theorem shape_commonBytes2Hex : Shape.commonBytes2Hex = [
  "return hex.EncodeToString($0)"
] := rfl

/-- common/bytes.go: ToHex is what `Model/Bls14Verify.lean` / `Bls14G1.lean` transcribes. -/
theorem shape_commonToHex : Shape.commonToHex = [
  "unrecognised-if: if len(hex) == 0 { hex = \"0\" }",
  "return \"0x\" + Bytes2Hex($0)"
] := rfl

/-- sig.go: Signature.IsEqual is what `Model/Bls14Verify.lean` / `Bls14G1.lean` transcribes. -/
theorem shape_sigIsEqual : Shape.sigIsEqual = [
  "return bytes.Equal($r.value.Marshal(), $0.value.Marshal())"
] := rfl

/-- pubkey.go: Pubkey.IsEqual is what `Model/Bls14Verify.lean` / `Bls14G1.lean` transcribes. -/
theorem shape_pubIsEqual : Shape.pubIsEqual = [
  "return bytes.Equal($r.value.Marshal(), $0.value.Marshal())"
] := rfl

/-- pubkey.go: Pubkey.GetAddress is what `Model/Bls14Verify.lean` / `Bls14G1.lean` transcribes. -/
theorem shape_pubGetAddress : Shape.pubGetAddress = [
  "return common.BytesToAddress(sha3.Sum256($r.Serialize())[:])"
] := rfl

/-- pubkey.go: AggregatePubkeys is what `Model/Bls14Verify.lean` / `Bls14G1.lean` transcribes. -/
theorem shape_aggregatePubkeys : Shape.aggregatePubkeys = [
  "unrecognised-if: if len(pubs) == 0 { log.Printf(\"AggregatePubkeys no pubs\") return nil }",
  "do new(Pubkey).value.Set(&$0[0].value)",
  "stmt *ast.ForStmt: for i := 1; i < len(pubs); i++ { pub.add(&pubs[i]) }",
  "return new(Pubkey)"
] := rfl

/-- pubkey.go: GeneratePubkey is what `Model/Bls14Verify.lean` / `Bls14G1.lean` transcribes. -/
theorem shape_generatePubkey : Shape.generatePubkey = [
  "do new(Pubkey).value.ScalarBaseMult($0.value.getBigInt())",
  "return new(Pubkey)"
] := rfl

/-- seckey.go: Seckey.IsValid is what `Model/Bls14Verify.lean` / `Bls14G1.lean` transcribes. -/
theorem shape_seckeyIsValid : Shape.seckeyIsValid = [
  "return $r.GetBigInt().Cmp(big.NewInt(0)) != 0"
] := rfl

/-- seckey.go: Seckey.IsEqual is what `Model/Bls14Verify.lean` / `Bls14G1.lean` transcribes. -/
theorem shape_seckeyIsEqual : Shape.seckeyIsEqual = [
  "return $r.value.isEqual(&$0.value)"
] := rfl

/-- seckey.go: AggregateSeckeys is what `Model/Bls14Verify.lean` / `Bls14G1.lean` transcribes. -/
theorem shape_aggregateSeckeys : Shape.aggregateSeckeys = [
  "unrecognised-if: if len(secs) == 0 { log.Printf(\"AggregateSeckeys no secs\") return nil }",
  "do new(Seckey).value.setBigInt($0[0].value.getBigInt())",
  "stmt *ast.ForStmt: for i := 1; i < len(secs); i++ { sec.value.add(&secs[i].value) }",
  "do new(big.Int).Set(new(Seckey).value.getBigInt())",
  "do new(Seckey).value.setBigInt(new(big.Int).Mod(new(big.Int), curveOrder))",
  "return new(Seckey)"
] := rfl

/-- seckey.go: newSeckeyFromByte is what `Model/Bls14Verify.lean` / `Bls14G1.lean` transcribes. -/
theorem shape_newSeckeyFromByte : Shape.newSeckeyFromByte = [
  "unrecognised-if: if err != nil { log.Printf(\"NewSeckeyFromByte %s\\n\", err) return nil }",
  "do new(Seckey).value.mod()",
  "return new(Seckey)"
] := rfl

/-- seckey.go: NewSeckeyFromRand is what `Model/Bls14Verify.lean` / `Bls14G1.lean` transcribes. -/
theorem shape_newSeckeyFromRand : Shape.newSeckeyFromRand = [
  "return newSeckeyFromByte($0.Bytes())"
] := rfl

/-- seckey.go: NewSeckeyFromBigInt is what `Model/Bls14Verify.lean` / `Bls14G1.lean` transcribes. -/
theorem shape_newSeckeyFromBigInt : Shape.newSeckeyFromBigInt = [
  "do &big.Int{}.Set($0)",
  "do $0.Mod(&big.Int{}, curveOrder)",
  "do new(Seckey).value.setBigInt($0)",
  "return new(Seckey)"
] := rfl

/-- id.go: ID.IsValid is what `Model/Bls14Verify.lean` / `Bls14G1.lean` transcribes. -/
theorem shape_idIsValid : Shape.idIsValid = [
  "return $r.GetBigInt().Cmp(big.NewInt(0)) != 0"
] := rfl

/-- id.go: ID.ToAddress is what `Model/Bls14Verify.lean` / `Bls14G1.lean` transcribes. -/
theorem shape_idToAddress : Shape.idToAddress = [
  "return common.BytesToAddress($r.Serialize())"
] := rfl

/-- id.go: NewIDFromPubkey is what `Model/Bls14Verify.lean` / `Bls14G1.lean` transcribes. -/
theorem shape_newIDFromPubkey : Shape.newIDFromPubkey = [
  "return newIDFromBigInt(new(big.Int).SetBytes(sha3.Sum256($0.Serialize())[:]))"
] := rfl

/-- common/types.go: Address.SetBytes is what `Model/Bls14Verify.lean` / `Bls14G1.lean` transcribes. -/
theorem shape_addressSetBytes : Shape.addressSetBytes = [
  "unrecognised-if: if len(b) > len(a) { b = b[len(b)-AddressLength:] }",
  "do copy($r[:], $0[:])"
] := rfl

/-- common/utils.go: ShortHex12 is what `Model/Bls14Verify.lean` / `Bls14G1.lean` transcribes. -/
theorem shape_shortHex12 : Shape.shortHex12 = [
  "guard[len($0) < 12] -> return $0",
  "return $0[0:6] + \"-\" + $0[len($0) - 6:]"
] := rfl

/-- bn_curve.go: BnInt.mod is what `Model/Bls14Verify.lean` / `Bls14G1.lean` transcribes. -/
theorem shape_bnIntMod : Shape.bnIntMod = [
  "do $r.v.Mod(&$r.v, bn_curve.Order)",
  "return nil"
] := rfl

/-- bn_curve.go: BnInt.add is what `Model/Bls14Verify.lean` / `Bls14G1.lean` transcribes. -/
theorem shape_bnIntAdd : Shape.bnIntAdd = [
  "do $r.v.Add(&$r.v, &$0.v)",
  "return nil"
] := rfl

/-- groupsig/*.go: everything used from other go-rangers packages (no chain configuration, no fork flags, no block height) is what `Model/Bls14Verify.lean` / `Bls14G1.lean` transcribes. -/
theorem shape_groupsigExternalUses : Shape.groupsigExternalUses = [
  "src/common.Address",
  "src/common.Bytes2Hex",
  "src/common.BytesToAddress",
  "src/common.Hex2Bytes",
  "src/common.ShortHex12",
  "src/common.ToHex",
  "src/consensus/base.NewRand",
  "src/consensus/base.Rand"
] := rfl

/-- bn256/*.go: everything used from other go-rangers packages (nothing) is what `Model/Bls14Verify.lean` / `Bls14G1.lean` transcribes. -/
theorem shape_bn256ExternalUses : Shape.bn256ExternalUses = [] := rfl

/-- The constants are mutually consistent and are the ones the byte-level proofs rely on:
    `p2` spells `P`, `P ≡ 3 (mod 4)` (square roots by one exponentiation), `P` fits in
    `numBytes` bytes but `2P` does not (so `x + p` is the only alias), `Order < P`. -/
theorem consts_consistent :
    fieldPWords = fieldP ∧ fieldP % 4 = 3 ∧ groupOrder < fieldP ∧ numBytes = 32 ∧ idLength = 32 ∧
    fieldP < 256 ^ numBytes ∧ 256 ^ numBytes < 2 * fieldP ∧ curveB = 3 := by decide

/-- Both generators satisfy their curve equations, and `twistB · (i + 3) = 3`. -/
theorem generators_on_curve :
    g1Gen.onCurve = true ∧ g1Gen.reduced = true ∧ g2Gen.onCurve = true ∧
    F2.mul twistB ⟨1, 3⟩ = ⟨0, 3⟩ := by decide

end Rangers.Props.C14
