import Rangers.Props.C07
import Rangers.Proofs.TxAuthOracle
/-!
# C07 — the finite oracle table is enough

The driver evaluates `verifyTx` on a `Crypto` built from the oracle tokens of one op line.
`verdict_depends_only_on_queries` says that this is the verdict the model gives for *any*
primitives that answer the listed queries the same way — in particular for the real
SHA-256 / Keccak-256 / secp256k1 functions the harness took the answers from.  Together
with the driver's refusal to run when a listed query is missing from the line
(`oracle-miss`), the correspondence run compares the implementation with the model *on the
real primitives*, not with a table-shaped approximation of it.
-/
namespace Rangers.Props.C07
open Rangers Rangers.Model.TxAuth

theorem verdict_depends_only_on_queries (cr cr' : Crypto) (cfg : ChainCfg) (h : Nat) (tx : Tx)
    (hq : ∀ q ∈ queries cr cfg h tx, cr.agreesOn cr' q) :
    verifyTx cr cfg h tx = verifyTx cr' cfg h tx := by
  unfold verifyTx
  unfold queries at hq
  by_cases ht : tx.type = typeETHTX
  · simp only [ht, ↓reduceIte] at hq ⊢
    exact verifyEth_congr cr cr' cfg h tx hq
  · simp only [ht, ↓reduceIte] at hq ⊢
    exact verifyNative_congr cr cr' cfg h tx hq

/-- the query list of an accepted toy transaction is not empty: the statement is about real queries -/
example : (queries toyCrypto toyCfg 0 toyNative).length = 4 := by decide

/-- two primitives that differ *outside* the queried points give the same verdict -/
example : verifyTx { toyCrypto with sha256 := fun m => if m = [1, 2, 3] then [] else List.replicate 32 7 } toyCfg 0 toyNative
    = verifyTx toyCrypto toyCfg 0 toyNative := by decide

end Rangers.Props.C07
