import Rangers.Props.C11C
/-!
# C11 — every byte of memory growth is paid for (`memory_paid`)
-/
namespace Rangers.Props.C11E
open Rangers.Evm11 Rangers.Props.C11 Rangers.Props.C11B Rangers.Props.C11C

/-- the gas functions that price a memory expansion -/
def usesMem : DynFn → Bool
  | .pureMem | .copier _ | .sha3 | .create2 | .log _ | .call | .callcode | .delegatecall | .staticcall | .authcall => true
  | _ => false

theorem wordCopyGas_mem {p26 : Bool} {m m' : Mem} {ms : Nat} {w : Word} {per r : Nat}
    (h : wordCopyGas p26 m ms w per = some (r, m')) :
    ∃ fee, memoryGasCost p26 m ms = some (fee, m') ∧ fee ≤ r := by
  unfold wordCopyGas at h
  split at h
  · cases h
  · rename_i gas m1 hmg
    split at h
    · cases h
    · simp only at h
      split at h
      · cases h
      · split at h
        · cases h
        · rename_i hov
          split at h
          · cases h
          · rename_i r' hr
            cases h
            have := safeAdd_ok (Bool.eq_false_iff.mpr hov)
            have := magnify_ge hr
            exact ⟨gas, hmg, by omega⟩

theorem logGas_mem {p26 : Bool} {n : Nat} {m m' : Mem} {ms : Nat} {req r : Nat}
    (h : logGas p26 n m ms req = some (r, m')) :
    ∃ fee, memoryGasCost p26 m ms = some (fee, m') ∧ fee ≤ r := by
  unfold logGas at h
  split at h
  · cases h
  · split at h
    · cases h
    · rename_i gas m1 hmg
      simp only at h
      split at h
      · cases h
      · rename_i h1
        split at h
        · cases h
        · rename_i h2
          split at h
          · cases h
          · split at h
            · cases h
            · rename_i h4
              split at h
              · cases h
              · rename_i r' hr
                cases h
                have e1 := safeAdd_ok (Bool.eq_false_iff.mpr h1)
                have e2 := safeAdd_ok (Bool.eq_false_iff.mpr h2)
                have e4 := safeAdd_ok (Bool.eq_false_iff.mpr h4)
                have := magnify_ge hr
                exact ⟨gas, hmg, by omega⟩

theorem finishCall_mem {avail base : Nat} {cc : Word} {m m' : Mem} {g g' : Global} {cost cgt : Nat}
    (h : finishCall avail base cc m g = .ok cost m' g' cgt) : m' = m ∧ base + cgt = cost := by
  unfold finishCall at h
  simp only at h
  split at h
  · cases h
  · rename_i hov
    cases h
    have := safeAdd_ok (Bool.eq_false_iff.mpr hov)
    exact ⟨rfl, by omega⟩

/-- the 2300 stipend a value-bearing CALL / CALLCODE adds to the forwarded gas -/
def stipendOf (f : DynFn) (s : List Word) : Nat :=
  match f with
  | .call | .callcode => if back s 2 ≠ 0 then 2300 else 0
  | _ => 0

set_option maxHeartbeats 1000000 in
/-- every gas function either leaves the memory record alone or charges at least what
    `memoryGasCost` asks for the requested size -/
theorem dynGas_mem (gc : GasCfg) (f : DynFn) (s : List Word) (m m' : Mem) (ms gas self : Nat) (g g' : Global)
    (cost cgt : Nat) (hfee : ∀ fee m1, memoryGasCost gc.p26 m ms = some (fee, m1) → fee < 2 ^ 63)
    (h : dynGas gc f s m ms gas self g = .ok cost m' g' cgt) :
    (usesMem f = false → m' = m) ∧
    (usesMem f = true → ∃ fee, memoryGasCost gc.p26 m ms = some (fee, m') ∧ fee + cgt + stipendOf f s ≤ cost) := by
  cases f with
  | none => simp only [dynGas] at h; cases h; simp [usesMem]
  | unknown => simp only [dynGas] at h; cases h
  | pureMem =>
    simp only [dynGas] at h
    split at h
    · cases h
    · rename_i fee m1 hmg; cases h; simp [usesMem, stipendOf]; exact ⟨_, hmg, Nat.le_refl _⟩
  | copier pos =>
    simp only [dynGas] at h
    split at h
    · cases h
    · rename_i r m1 hw; cases h; simp [usesMem, stipendOf]; exact wordCopyGas_mem hw
  | sha3 =>
    simp only [dynGas] at h
    split at h
    · cases h
    · rename_i r m1 hw; cases h; simp [usesMem, stipendOf]; exact wordCopyGas_mem hw
  | create2 =>
    simp only [dynGas] at h
    split at h
    · cases h
    · rename_i r m1 hw; cases h; simp [usesMem, stipendOf]; exact wordCopyGas_mem hw
  | sstore =>
    simp only [dynGas] at h
    repeat' split at h
    all_goals (cases h; simp [usesMem])
  | sstore2200 =>
    simp only [dynGas] at h
    repeat' split at h
    all_goals (cases h; simp [usesMem])
  | log n =>
    simp only [dynGas] at h
    split at h
    · cases h
    · rename_i r m1 hw; cases h; simp [usesMem, stipendOf]; exact logGas_mem hw
  | expFrontier =>
    simp only [dynGas] at h
    split at h <;> cases h
    simp [usesMem]
  | expEIP158 =>
    simp only [dynGas] at h
    split at h <;> cases h
    simp [usesMem]
  | call =>
    simp only [dynGas] at h
    split at h
    · cases h
    · rename_i gasv g1 hr
      split at h
      · cases h
      · rename_i memGas m1 hmg
        split at h
        · cases h
        · rename_i hov
          have := safeAdd_ok (Bool.eq_false_iff.mpr hov)
          obtain ⟨rfl, hb⟩ := finishCall_mem h
          have hst : stipendOf .call s ≤ gasv := by
            unfold stipendOf
            simp only
            split
            · rename_i hv
              rw [if_pos hv] at hr
              split at hr
              · simp only [Option.some.injEq, Prod.mk.injEq] at hr
                obtain ⟨h1, _⟩ := hr
                split at h1 <;> omega
              · cases hr
            · omega
          simp only [usesMem, Bool.true_eq_false, false_implies, true_and, forall_const]
          exact ⟨memGas, hmg, by omega⟩
  | callcode =>
    simp only [dynGas] at h
    split at h
    · cases h
    · rename_i memGas m1 hmg
      generalize hbv : (if back s 2 ≠ 0 then 9000 else 0) = bv at h
      split at h
      · cases h
      · rename_i hov
        have := safeAdd_ok (Bool.eq_false_iff.mpr hov)
        obtain ⟨rfl, hb⟩ := finishCall_mem h
        have hst : stipendOf .callcode s ≤ bv := by
          unfold stipendOf
          simp only
          split
          · rename_i hv; rw [if_pos hv] at hbv; omega
          · omega
        simp only [usesMem, Bool.true_eq_false, false_implies, true_and, forall_const]
        exact ⟨memGas, hmg, by omega⟩
  | delegatecall =>
    simp only [dynGas] at h
    split at h
    · cases h
    · rename_i memGas m1 hmg
      obtain ⟨rfl, hb⟩ := finishCall_mem h
      simp only [usesMem, stipendOf, Bool.true_eq_false, false_implies, true_and, forall_const]
      exact ⟨memGas, hmg, by omega⟩
  | staticcall =>
    simp only [dynGas] at h
    split at h
    · cases h
    · rename_i memGas m1 hmg
      obtain ⟨rfl, hb⟩ := finishCall_mem h
      simp only [usesMem, stipendOf, Bool.true_eq_false, false_implies, true_and, forall_const]
      exact ⟨memGas, hmg, by omega⟩
  | selfdestruct =>
    simp only [dynGas] at h
    repeat' split at h
    all_goals (first | (cases h; done) | (cases h; simp [usesMem]))
  | authcall =>
    simp only [dynGas] at h
    split at h
    · cases h
    · rename_i memGas m1 hmg
      have hb := hfee _ _ hmg
      split at h
      · cases h
      · rename_i inList g1 _
        split at h
        · cases h
        · rename_i d1 g2 hr1
          have hd1 : memGas ≤ d1 ∧ d1 ≤ memGas + 2500 := by
            split at hr1
            · simp only [Option.some.injEq, Prod.mk.injEq] at hr1
              obtain ⟨h1, _⟩ := hr1; omega
            · split at hr1
              · simp only [Option.some.injEq, Prod.mk.injEq] at hr1
                obtain ⟨h1, _⟩ := hr1
                unfold wadd at h1; omega
              · cases hr1
          split at h
          · cases h
          · rename_i d2 g3 hr2
            have hd2 : d1 ≤ d2 := by
              split at hr2
              · split at hr2
                · simp only [Option.some.injEq, Prod.mk.injEq] at hr2
                  obtain ⟨h1, _⟩ := hr2
                  unfold wadd at h1
                  split at h1 <;> omega
                · cases hr2
              · simp only [Option.some.injEq, Prod.mk.injEq] at hr2
                obtain ⟨h1, _⟩ := hr2; omega
            split at h
            · cases h
            · rename_i hov
              have := safeAdd_ok (Bool.eq_false_iff.mpr hov)
              simp only [DynRes.ok.injEq] at h
              obtain ⟨hc, hm, _, hcg⟩ := h
              subst hm
              simp only [usesMem, stipendOf, Bool.true_eq_false, false_implies, true_and, forall_const]
              exact ⟨memGas, hmg, by omega⟩

theorem resize_size (m : Mem) (n : Nat) : (m.resize n).size = max m.size n ∧ (m.resize n).lastGasCost = m.lastGasCost := by
  unfold Mem.resize Mem.size
  split
  · simp only [Array.size_append, Array.size_replicate]; constructor
    · omega
    · trivial
  · constructor
    · omega
    · trivial

/-- **memory_paid (step).** Under the memory invariant (size a multiple of 32 below the guard,
    `lastGasCost` = fee of the current size), a loop iteration that gets to `execute` has
    * re-established the invariant for the memory `execute` sees,
    * never shrunk the memory,
    * charged at least `constantGas + (Cmem(new words) − Cmem(old words)) × magnification`,
      the exact quadratic fee of every byte it grew — in exact arithmetic, no wrap.
    `execute` itself and the write-back of a callee's result never resize (`execOp_upd`,
    `memWrite_size`), so the invariant holds for the whole life of the frame. -/
theorem memory_paid_step (cx : Ctx) (ht : TableOk cx.table) (ro : Bool) (fr : Frame) (g : Global)
    (info : OpInfo) (fr1 : Frame) (args : List Word) (g1 : Global) (cgt : Nat)
    (hm : MemInv fr.mem) (hpre : stepPre cx ro fr g = .ok info fr1 args g1 cgt) :
    MemInv fr1.mem ∧ fr.mem.size ≤ fr1.mem.size ∧
    fr1.gas + info.constGas +
      (cmem (fr1.mem.size / 32) - cmem (fr.mem.size / 32)) * (if cx.gc.p26 then 30 else 1) +
      (if usesMem info.dyn then cgt + stipendOf info.dyn fr.stack else 0) ≤ fr.gas := by
  have hp := stepPre_ok _ _ _ _ _ _ _ _ _ hpre
  have ha := ht _ _ hp.entry
  obtain ⟨memorySize, cost, m', hdyn, hgas, hmem, hms⟩ := hp.dyn
  have hmp : entryMemPaid info = true := by
    unfold entryAll at ha
    simp only [Bool.and_eq_true] at ha
    exact ha.1.1.2
  -- a successful memoryGasCost asks for a size below the guard and yields a fee below 2^63
  have hfee : ∀ fee m1, memoryGasCost cx.gc.p26 fr.mem memorySize = some (fee, m1) → fee < 2 ^ 63 := by
    intro fee m1 hmg
    by_cases h0 : memorySize = 0
    · subst h0; unfold memoryGasCost at hmg; simp at hmg; omega
    · by_cases hgd : memorySize > 0x1FFFFFFFE0
      · rw [memoryGasCost_guard _ _ _ hgd] at hmg; cases hmg
      · rw [memoryGasCost_no_overflow _ _ _ hm (by omega) h0] at hmg
        have hw : (memorySize + 31) / 32 ≤ 4294967295 := by omega
        have hsq := sq_le hw
        split at hmg
        · cases hmg
          have : cmem ((memorySize + 31) / 32) ≤ 36028809887088637 := by unfold cmem; omega
          split <;> omega
        · cases hmg; omega
  have hdm := dynGas_mem cx.gc info.dyn fr.stack fr.mem m' memorySize _ fr.self g g1 cost cgt hfee hdyn
  -- either nothing is requested, or the gas function priced the request
  by_cases h0 : memorySize = 0
  · -- no expansion
    have hm' : m' = fr.mem := by
      cases hu : usesMem info.dyn with
      | false => exact hdm.1 hu
      | true =>
        obtain ⟨fee, hmg, _⟩ := hdm.2 hu
        rw [h0] at hmg; unfold memoryGasCost at hmg; simp at hmg; exact hmg.2.symm
    rw [hmem, h0, hm']
    simp only [Nat.lt_irrefl, if_false]
    refine ⟨hm, Nat.le_refl _, ?_⟩
    simp only [Nat.sub_self, Nat.zero_mul]
    cases hu : usesMem info.dyn with
    | false => simp only [Bool.false_eq_true, if_false]; omega
    | true =>
      obtain ⟨fee, hmg, hfc⟩ := hdm.2 hu
      simp only [if_true]; omega
  · -- a memory-size function exists, so the entry is priced by a memory-charging function
    have huses : usesMem info.dyn = true := by
      cases hmf : memSizeFn info.mem fr.stack with
      | none => rw [hmf] at hms; exact absurd hms h0
      | some p =>
        have hne : info.mem ≠ .none := by intro h; rw [h] at hmf; simp [memSizeFn] at hmf
        unfold entryMemPaid at hmp
        split at hmp
        · rename_i h; exact absurd h hne
        · split at hmp
          all_goals (first | (rename_i hd; rw [hd]; rfl) | cases hmp)
    obtain ⟨fee, hmg, hfc⟩ := hdm.2 huses
    have hgd : memorySize ≤ 0x1FFFFFFFE0 := by
      by_cases hgd : memorySize > 0x1FFFFFFFE0
      · rw [memoryGasCost_guard _ _ _ hgd] at hmg; cases hmg
      · omega
    -- memorySize is a multiple of 32
    have h32 : memorySize % 32 = 0 := by
      cases hmf : memSizeFn info.mem fr.stack with
      | none => rw [hmf] at hms; exact absurd hms h0
      | some p => obtain ⟨sz, ov⟩ := p; rw [hmf] at hms; simp only at hms; omega
    rw [memoryGasCost_no_overflow _ _ _ hm hgd h0] at hmg
    have hw : (memorySize + 31) / 32 = memorySize / 32 := by omega
    have hpos : memorySize > 0 := by omega
    rw [hmem, if_pos hpos]
    have hrs := resize_size m' memorySize
    split at hmg
    · rename_i hgt
      simp only [Option.some.injEq, Prod.mk.injEq] at hmg
      obtain ⟨hfee', hm'⟩ := hmg
      have hsz : m'.size = fr.mem.size := by rw [← hm']; rfl
      have hl : m'.lastGasCost = cmem ((memorySize + 31) / 32) := by rw [← hm']
      refine ⟨⟨?_, ?_, ?_⟩, ?_, ?_⟩
      · rw [hrs.1, hsz]; have := hm.aligned; omega
      · rw [hrs.1, hsz]; have := hm.bounded; omega
      · rw [hrs.2, hl, hrs.1, hsz, hw]; congr 1; omega
      · rw [hrs.1, hsz]; omega
      · rw [hrs.1, hsz]
        have e : max fr.mem.size memorySize = memorySize := by omega
        rw [e, ← hw, hfee', huses]; simp only [if_true]; omega
    · rename_i hle
      simp only [Option.some.injEq, Prod.mk.injEq] at hmg
      obtain ⟨_, hm'⟩ := hmg
      subst hm'
      have e : max fr.mem.size memorySize = fr.mem.size := by omega
      refine ⟨⟨?_, ?_, ?_⟩, ?_, ?_⟩
      · rw [hrs.1, e]; exact hm.aligned
      · rw [hrs.1, e]; exact hm.bounded
      · rw [hrs.2, hrs.1, e]; exact hm.paid
      · rw [hrs.1, e]; exact Nat.le_refl _
      · rw [hrs.1, e, huses]; simp only [Nat.sub_self, Nat.zero_mul, if_true]; omega

/-- the write-back of a callee's result and every `execute` keep the invariant -/
theorem memInv_of_size {m m' : Mem} (h : MemInv m) (hs : m'.size = m.size) (hl : m'.lastGasCost = m.lastGasCost) :
    MemInv m' := ⟨by rw [hs]; exact h.aligned, by rw [hs]; exact h.bounded, by rw [hl, hs]; exact h.paid⟩

theorem memory_inv_execute (cx : Ctx) (ro : Bool) (e : Exec) (fr : Frame) (args : List Word) (g : Global) (cgt : Nat)
    (u : Upd) (hargs : args.length = e.pops) (hm : MemInv fr.mem)
    (h : execOp cx ro e fr args g cgt = .upd u) : MemInv u.mem := by
  have := execOp_upd cx ro e fr args g cgt u hargs h
  exact memInv_of_size hm this.2.1 this.2.2

theorem memory_inv_resume (fr : Frame) (r : Req) (cr : CallRes) (hm : MemInv fr.mem) :
    MemInv (resume fr r cr).1.mem := by
  cases r with
  | call k a v i gas ro rs io =>
    simp only [resume]
    split
    · exact memInv_of_size hm (memWrite_size _ _ _ _) (memWrite_last _ _ _ _)
    · exact hm
  | create s v i gas => simpa [resume] using hm
  | authcall au a v i gas ro rs =>
    simp only [resume]
    split
    · exact memInv_of_size hm (memWrite_size _ _ _ _) (memWrite_last _ _ _ _)
    · exact hm

/-- non-vacuity: MSTORE at offset 0x1fffffffc0 on an empty memory is priced at the full
    Cmem(2^32−1) × 30 under Proposal026 (and then fails for lack of gas, as it must) -/
example : memoryGasCost true Mem.empty 0x1FFFFFFFE0 = some (cmem 4294967295 * 30, { Mem.empty with lastGasCost := cmem 4294967295 }) := by
  rw [memoryGasCost_no_overflow true Mem.empty _ memInv_empty (by decide) (by decide)]
  simp [Mem.empty, Mem.size, cmem]

end Rangers.Props.C11E
