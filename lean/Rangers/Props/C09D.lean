import Rangers.Proofs.C09Msgs2
import Rangers.Proofs.C09Fuel
import Rangers.Props.C09C
/-!
# C09, part 4 — groups and blocks: wire and converter round trips, fixed point, lossless, hash stability
-/
namespace Rangers.Props.C09
open Rangers Rangers.Wire Rangers.Json

theorem wire_roundtrip_group (p : PbGroup) (h : PbGroupWF p) : decGroup (encGroup p) = some p :=
  decGroup_encGroup p h

theorem wire_roundtrip_block (p : PbBlock) (h : PbBlockWF p) : decBlock (encBlock p) = some p :=
  decBlock_encBlock p h

/-! ## Groups -/

/-- One `MarshalBinary`/`UnmarshalBinary` pass on a time, errors ignored as `GroupToPbHeader` /
    `PbToGroupHeader` ignore them (zero time when the zone is not marshalable). -/
def normGroupTime (t : GoTime) : GoTime := (binToTime ((timeToBin t).getD [])).getD zeroTime

theorem normGroupTime_ok (t : GoTime) (h : TimeOK t) : normGroupTime t = t := by
  obtain ⟨b, hb, hb'⟩ := binToTime_timeToBin t h
  simp [normGroupTime, hb, hb']

/-- What one Marshal/UnMarshal pass makes of an arbitrary in-memory group: the three derived
    heights have no wire field. -/
def normGroup (g : Group) : Group :=
  { g with header := { g.header with hash := bytesToHash g.header.hash,
                                     beginTime := normGroupTime g.header.beginTime,
                                     memberRoot := bytesToHash g.header.memberRoot,
                                     readyHeight := 0, workHeight := 0, dismissHeight := 0 } }

/-- convert_roundtrip (groups), for every in-memory group. -/
theorem group_convert_roundtrip (g : Group) : pbToGroup (groupToPb g) = .ok (normGroup g) := by
  simp only [pbToGroup, groupToPb, pbToGroupHeader, groupHeaderToPb, derefNat_safe 3 7 (by decide),
    derefStr_safe 3 8 (by decide), derefNat_safe 4 6 (by decide), Option.getD_some, optHash, normGroup,
    normGroupTime]

theorem zeroTime_ok : TimeOK zeroTime := ⟨by decide, by decide, by decide, trivial⟩

/-- The fixed-point law for groups (the begin time must be one `MarshalBinary` carries, or not
    marshalable at all — then it is the zero time after the first pass). -/
theorem normGroup_idem (g : Group) (h : TimeOK g.header.beginTime ∨ timeToBin g.header.beginTime = none) :
    normGroup (normGroup g) = normGroup g := by
  have ht : normGroupTime (normGroupTime g.header.beginTime) = normGroupTime g.header.beginTime := by
    rcases h with h | h
    · rw [normGroupTime_ok _ h, normGroupTime_ok _ h]
    · have : normGroupTime g.header.beginTime = zeroTime := by
        simp only [normGroupTime, h, Option.getD_none]; decide
      rw [this, normGroupTime_ok _ zeroTime_ok]
  cases g with
  | mk header id pubKey signature members groupHeight =>
  cases header
  simp only [normGroup, bytesToHash_id _ (bytesToHash_length _)] at ht ⊢
  simp only [ht]

def GroupFits (g : Group) : Prop := PbGroupWF (groupToPb g)

theorem group_roundtrip (g : Group) (fits : GroupFits g) :
    unmarshalGroup (marshalGroup g) = .ok (normGroup g) := by
  unfold unmarshalGroup marshalGroup
  simp only [decGroup_encGroup _ fits, group_convert_roundtrip]

/-- hash_stable (groups): `GroupHeader.GenHash` reads Parent, PreGroup, CreateBlockHash, MemberRoot,
    CreateHeight, Extends — the pass changes none of them (MemberRoot is a 32-byte hash in memory). -/
theorem group_hash_stable (g : Group) (hm : g.header.memberRoot.length = 32) :
    groupHeaderHashInput (normGroup g).header = groupHeaderHashInput g.header := by
  simp only [groupHeaderHashInput, normGroup, bytesToHash_id _ hm]

def GroupValid (g : Group) : Prop :=
  g.header.hash.length = 32 ∧ g.header.memberRoot.length = 32 ∧ TimeOK g.header.beginTime

def FullStatement_group_lossless : Prop :=
  ∀ g : Group, GroupFits g → GroupValid g → unmarshalGroup (marshalGroup g) = .ok g

/-- Proved restriction: … when the derived heights are zero (they are recomputed by
    `groupChain.AddGroup`, never carried). -/
theorem group_lossless_partial (g : Group) (fits : GroupFits g) (hv : GroupValid g)
    (hz : g.header.readyHeight = 0 ∧ g.header.workHeight = 0 ∧ g.header.dismissHeight = 0) :
    unmarshalGroup (marshalGroup g) = .ok g := by
  rw [group_roundtrip g fits]
  obtain ⟨h1, h2, h3⟩ := hv
  obtain ⟨z1, z2, z3⟩ := hz
  cases g with
  | mk header id pubKey signature members groupHeight =>
  cases header
  simp only at h1 h2 h3 z1 z2 z3
  simp only [normGroup, bytesToHash_id _ h1, bytesToHash_id _ h2, normGroupTime_ok _ h3, z1, z2, z3]

def witnessGroup : Group :=
  { header := { hash := List.replicate 32 0, parent := none, preGroup := none, createBlockHash := none,
                beginTime := zeroTime, memberRoot := List.replicate 32 7, createHeight := 128, readyHeight := 0,
                workHeight := 4294967295, dismissHeight := 0, extends_ := [] },
    id := some [1], pubKey := none, signature := some [], members := [[1, 2], []], groupHeight := 3 }

instance (p : PbGroup) : Decidable (PbGroupWF p) :=
  match hp : p.header with
  | none => isFalse (fun ⟨_, g, hg, _⟩ => by rw [hp] at hg; cases hg)
  | some g =>
    if h : RawsWF (rawsOfGroup p) ∧ RawsWF (rawsOfGroupHeader g) ∧ g.memberRoot.isSome ∧ g.createHeight.isSome
    then isTrue ⟨h.1, g, hp, h.2⟩
    else isFalse (fun ⟨a, g', hg, b⟩ => by
      rw [hp] at hg
      cases hg
      exact h ⟨a, b⟩)

theorem witnessGroup_fits : GroupFits witnessGroup := by unfold GroupFits; decide
theorem witnessGroup_valid : GroupValid witnessGroup := ⟨rfl, rfl, zeroTime_ok⟩

/-- Known finding `group-roundtrip-derived-heights-dropped` as a theorem about the model. -/
theorem group_lossless_counterexample : ¬ FullStatement_group_lossless := by
  intro H
  have h := H witnessGroup witnessGroup_fits witnessGroup_valid
  revert h
  decide

/-! ## Blocks -/

def normBlock (b : Block) : Block := ⟨b.header.map normHeader, b.txs.map normTx⟩

theorem pbToTxs_map (ts : List Tx) : pbToTxs (ts.map txToPb) = .ok (ts.map normTx) := by
  induction ts with
  | nil => rfl
  | cons t ts ih => simp only [List.map_cons, pbToTxs, tx_convert_roundtrip, ih]

theorem normBlock_idem (b : Block) (hs : ∀ t ∈ b.txs, SubTxStable t.subTx) :
    normBlock (normBlock b) = normBlock b := by
  cases b with
  | mk header txs =>
  simp only at hs
  simp only [normBlock, Option.map_map, List.map_map]
  congr 1
  · cases header <;> simp [normHeader_idem]
  · exact List.map_congr_left (fun t ht => normTx_idem_partial t (hs t ht))

/-- Every byte string `MarshalBlock` emits for `b` fits the framing, at every nesting level. -/
def BlockFits (b : Block) : Prop :=
  ∀ h ph, b.header = some h → headerToPb h = some ph → PbBlockWF ⟨some ph, b.txs.map txToPb⟩

/-- MarshalBlock then UnMarshalBlock of any in-memory block with a header yields `norm b`. -/
theorem block_roundtrip (b : Block) (h : Header) (hh : b.header = some h) (ok : HeaderOK h) (fits : BlockFits b) :
    ∃ bs, marshalBlock b = .ok bs ∧ unmarshalBlock bs = .ok (normBlock b) := by
  obtain ⟨ph, hph, hc⟩ := header_convert_roundtrip h ok
  refine ⟨encBlock ⟨some ph, b.txs.map txToPb⟩, by simp only [marshalBlock, hh, hph], ?_⟩
  simp only [unmarshalBlock, decBlock_encBlock _ (fits h ph hh hph), pbToBlock, hc, pbToTxs_map, normBlock, hh,
    Option.map_some, Option.isNone_some, Bool.false_and]
  rfl

/-- The transactions a block carries: valid and without a socket request id. -/
def TxsCarried (ts : List Tx) : Prop := ∀ t ∈ ts, TxValid t ∧ t.socketRequestId = []

theorem map_normTx_carried (ts : List Tx) (h : TxsCarried ts) : ts.map normTx = ts :=
  map_fix normTx ts (fun t ht => by
    obtain ⟨hv, hs⟩ := h t ht
    rw [normTx_of_valid t hv]
    cases t
    simp_all)

/-- The property for blocks: a block with a producible header is stored, reloaded or relayed with the
    same content; the header keeps its `GenHash`, every transaction keeps its `GenHash`. -/
theorem block_lossless (b : Block) (h : Header) (hh : b.header = some h) (ok : HeaderOK h) (fits : BlockFits b)
    (hp : Producible h) (ht : TxsCarried b.txs) :
    ∃ bs, marshalBlock b = .ok bs ∧ unmarshalBlock bs = .ok b := by
  obtain ⟨bs, hm, hu⟩ := block_roundtrip b h hh ok fits
  refine ⟨bs, hm, ?_⟩
  rw [hu]
  cases b with
  | mk header txs =>
  simp only at hh ht
  subst hh
  simp only [normBlock, Option.map_some, normHeader_of_producible h hp, map_normTx_carried txs ht]

/-- hash stability through the block codec, without `TxsCarried`: whatever the transactions carry,
    a producible header keeps its hash input and every transaction keeps its hash input. -/
theorem block_hash_stable (b : Block) (h : Header) (hh : b.header = some h) (ok : HeaderOK h) (fits : BlockFits b)
    (hp : Producible h) :
    ∃ bs b', marshalBlock b = .ok bs ∧ unmarshalBlock bs = .ok b' ∧
      b'.header.map headerHashInput = some (headerHashInput h) ∧
      b'.txs.map txHashInput = b.txs.map txHashInput := by
  obtain ⟨bs, hm, hu⟩ := block_roundtrip b h hh ok fits
  refine ⟨bs, normBlock b, hm, hu, ?_, ?_⟩
  · simp only [normBlock, hh, Option.map_some, normHeader_of_producible h hp]
  · simp only [normBlock, List.map_map]
    exact List.map_congr_left (fun t _ => tx_hash_stable t)

/-- Non-vacuity: a concrete block satisfies the hypotheses and round-trips in the model. -/
def sampleBlock : Block := ⟨some sampleHeader, [{ witnessTx with socketRequestId := [] }]⟩

set_option maxRecDepth 8000 in
example : (match marshalBlock sampleBlock with
    | .ok bs => unmarshalBlock bs == .ok sampleBlock
    | _ => false) = true := by decide

/-! ## Fuel sufficiency: the fuelled loops of the wire model never run out of fuel -/

/-- `parseRaw`'s fuel (`length + 1`) suffices: any larger fuel gives the same answer, so `none` always
    means a decoding error of the input. -/
theorem rawFields_fuel_sufficient (bs : Bytes) (f : Nat) (h : bs.length < f) : rawFields f bs = parseRaw bs :=
  parseRaw_fuel_sufficient bs f h

/-- Same for group skipping (`findEndGroup`), which `rawStep` calls with fuel `length + 1`. -/
theorem findEnd_fuel_sufficient (bs : Bytes) (d f : Nat) (h : bs.length < f) :
    findEnd f d bs = findEnd (bs.length + 1) d bs :=
  findEnd_fuel f (bs.length + 1) d bs h (by omega)

/-- Each loop iteration consumes at least one byte (why the fuel suffices). -/
theorem rawStep_consumes (bs : Bytes) (r : Raw) (rest : Bytes) (h : rawStep bs = some (r, rest)) :
    rest.length < bs.length := rawStep_shrinks bs r rest h

example : rawStep [0x08, 0x01, 0x2a] = some (.vint 1 1, [0x2a]) := by decide

end Rangers.Props.C09
