import Rangers.Proofs.Bls14Text
import Rangers.Proofs.Bls14Model
import Rangers.Props.C14
import Rangers.Props.C14E
/-!
# C14, part 9 — textual encodings (hex strings, JSON) are faithful

`GetHexString` → `SetHexString` (and `MarshalJSON` → `UnmarshalJSON`) give the value back for every
secret key (any number of hex digits, odd counts and zero included), every id below 2^256, every
valid signature and every valid public key; plus the quirks of the parsers as they are.
Model: `Model/Bls14Text.lean`; tie: ops `skhex/skseth/idhex/idseth/idjson/idunjson/sighex/sigseth/
pkhex/pkseth/pkjson/pkunjson` and the shape facts of the getters/setters and of `common.Hex2Bytes`.
-/
namespace Rangers.Props.C14
open Rangers Rangers.Model.Bls14 Rangers.Proofs.Bls14

/-- **Secret keys survive the hex round trip** — every value, whatever the receiver held before;
    in particular values whose top nibble is zero (an odd number of digits) and zero (`0x0`). -/
theorem seckey_hex_roundtrip (old n : Nat) : bnSetHexString old (bnGetHexString n) = .ok n := by
  obtain ⟨d, cs, hd, hcs⟩ := natHex_head n
  have hs := hexDigit_not_sign d hd
  have hv := (scanHex_natHex n).1
  unfold bnGetHexString bnSetHexString
  rw [hcs] at hv ⊢
  simp only
  split
  · next h => cases h
  · next h => exact absurd (List.cons.inj h).1 hs.1
  · next h => exact absurd (List.cons.inj h).1 hs.2
  · rw [hv]

example : bnGetHexString 0xabc = ['0', 'x', 'a', 'b', 'c'] ∧ bnGetHexString 0 = ['0', 'x', '0'] := by decide

/-- Ids (printed as 64 digits through `ToHex(Serialize())`, parsed like secret keys). -/
theorem id_hex_roundtrip (old n : Nat) (h : n < 2 ^ 256) :
    ∃ s, idGetHexString n = some s ∧ bnSetHexString old s = .ok n := by
  obtain ⟨b, hb, hl, hv⟩ := id_roundtrip n h
  refine ⟨toHex0x b, by simp [idGetHexString, hb], ?_⟩
  cases b with
  | nil => simp at hl
  | cons x xs =>
    obtain ⟨d, cs, hd, hcs⟩ := bytes2Hex_head x xs
    have hs := hexDigit_not_sign d hd
    have hsc := scanHex_bytes2Hex (x :: xs) 0 0
    simp only [Nat.zero_mul, Nat.zero_add] at hsc
    have hv' : beToNat (x :: xs) = n := hv
    have e : toHex0x (x :: xs) = '0' :: 'x' :: bytes2Hex (x :: xs) := rfl
    rw [e]
    unfold bnSetHexString
    rw [hcs] at hsc ⊢
    simp only
    split
    · next h => cases h
    · next h => exact absurd (List.cons.inj h).1 hs.1
    · next h => exact absurd (List.cons.inj h).1 hs.2
    · rw [hsc, hv']

example : (77 : Nat) < 2 ^ 256 := by decide

/-- `Hex2Bytes ∘ Bytes2Hex = id`, and the decoder's quirk: one dangling nibble, or anything from
    the first non-hex character on, is silently dropped. -/
theorem hex_bytes_roundtrip (b : Bytes) :
    hex2Bytes (bytes2Hex b) = b ∧ (∀ c, hex2Bytes (bytes2Hex b ++ [c]) = b) ∧
    (∀ c cs, hexVal? c = none → hex2Bytes (bytes2Hex b ++ c :: cs) = b) :=
  ⟨hex2Bytes_bytes2Hex b,
   fun c => hex2Bytes_bytes2Hex_append b [c] (Or.inr (Or.inl ⟨c, rfl⟩)),
   fun c cs hc => hex2Bytes_bytes2Hex_append b (c :: cs) (Or.inr (Or.inr ⟨c, cs, rfl, hc⟩))⟩

/-- **Signatures survive the hex round trip**, whatever the receiver held. -/
theorem sig_hex_roundtrip (old : Sig) (q : Pt) (hc : q.onCurve = true) (hr : q.reduced = true) :
    sigSetHexString old (sigGetHexString (.pt q)) = (.pt q, false) := by
  simp only [sigGetHexString, sigSetHexString, hex2Bytes_bytes2Hex, g1_marshal_unmarshal old q hc hr]

example : g1Gen.onCurve = true ∧ g1Gen.reduced = true := by decide

/-- **Public keys survive the hex round trip** (valid = non-identity reduced twist point). -/
theorem pubkey_hex_roundtrip (old : Pub) (x y : F2)
    (hr : x.x < P ∧ x.y < P ∧ y.x < P ∧ y.y < P) (hc : onTwistXY x y = true) :
    pubSetHexString old (pubGetHexString (.pt (.aff x y))) = (.pt (.aff x y), false) := by
  simp only [pubGetHexString, pubSetHexString, Pub.serialize, hex2Bytes_bytes2Hex,
    g2_marshal_unmarshal old x y hr hc]

/-- `UnmarshalJSON(MarshalJSON(·))` hands the hex string back to `SetHexString` (so the JSON round
    trips of ids and public keys follow from the two theorems above). -/
theorem json_strip_quote (s : List Char) : jsonStrip (jsonQuote s) = some s := by
  simp [jsonStrip, jsonQuote]

/-- Parser quirks of `BnInt.setHexString`, as the code has them (recorded, not claimed correct):
    the empty digit string leaves the OLD value with a nil error; no `0x` prefix is the only
    reported error; a string without any digit gives 0. -/
theorem bn_set_hex_quirks (old : Nat) :
    bnSetHexString old ['0', 'x'] = .ok old ∧
    bnSetHexString old ['1', '2'] = .argFailed ∧
    bnSetHexString old ['0', 'X', '1'] = .argFailed ∧
    bnSetHexString old ['0', 'x', 'z'] = .ok 0 ∧
    bnSetHexString old ['0', 'x', '1', '2', 'g', '5'] = .ok 0x12 := by
  refine ⟨rfl, rfl, rfl, ?_, ?_⟩ <;> simp [bnSetHexString, scanHex, hexVal?]

end Rangers.Props.C14
