import Rangers.Model.RoundLife
import Rangers.Proofs.RoundLifeP
import Rangers.Proofs.RoundLive
import Rangers.Proofs.RoundSrc
import Rangers.Props.C15
import Rangers.Props.C15B
/-!
C15 over the whole life cycle of a SignParty (`Model/RoundLife.lean`): creation by the cast message,
round0's store rule for verify messages, the pre-change key, the changeId step, acceptance inside
`baseParty.Update` or from a chain notification, the reaper and its timeout.

`ord` is the order in which `round1.Start` ranges over the stored messages (Go map iteration): the
theorems hold for every function, not only permutations.
-/
namespace Rangers.Props.C15
open Rangers.Model.Round Rangers.Proofs.Round
open Rangers.Generated

variable {G : Type}

/-- **life_only_valid_shares** (full strength, no cryptographic assumption): for every history of cast
messages with any verdicts, chain notifications, verify packets (any content, filed under any key, at
any stage — before a party exists, while round0 waits and stores them, after it was accepted, after it
was reaped), timeouts at any point, and every iteration order of the stored messages: every entry of
`gSign` is a registered sender's valid share for `bh.Hash`, every entry of `rSign` its valid share for
`preBH.Random`, no sender twice. The replay of stored messages by `round1.Start` is covered. -/
theorem life_only_valid_shares (c : Crypto G) (env : Env) (hsrc : FromSource env)
    (ord : List (VMsg G) → List (VMsg G)) (key0 : Data) (evs : List (Event G)) :
    let st := (Life.run c env ord (Life.new key0) evs).proc.party.rs
    SharesValid c env env.hash st.gSign ∧ SharesValid c env env.prevRandom st.rSign := by
  intro st
  have h := (run_safe c env (fromSource_binds hsrc) ord evs (Life.new key0) (idle_safe c env)).inv
  exact ⟨⟨h.g.valid, h.g.nodup⟩, ⟨h.r.valid, h.r.nodup⟩⟩

/-- **never_generates_invalid_block** (full strength, no cryptographic assumption): in every history —
timeouts and reaping included — whatever `GenerateBlock` was handed passed `round2.checkSignature`: the
block signature verifies over `bh.Hash` and the beacon value over `preBH.Random` under the group key. -/
theorem never_generates_invalid_block (c : Crypto G) (env : Env) (hsrc : FromSource env)
    (ord : List (VMsg G) → List (VMsg G)) (key0 : Data) (evs : List (Event G)) (a b : Option G)
    (h : (Life.run c env ord (Life.new key0) evs).proc.party.rs.generated = some (a, b)) :
    sigOk c env.hash a = true ∧ sigOk c env.prevRandom b = true :=
  (run_safe c env (fromSource_binds hsrc) ord evs (Life.new key0) (idle_safe c env)).gen a b h

/-- **reaped_party_is_inert** (full strength): once the reaper removed the party — after an error, after
completion, after the timeout, or while still in round0 — no event of any kind changes the round state
or the way it ended (messages are dropped or filed for a party that never comes). -/
theorem reaped_party_is_inert (c : Crypto G) (env : Env) (ord : List (VMsg G) → List (VMsg G))
    (l : Life G) (hdead : Dead l) (evs : List (Event G)) :
    (Life.run c env ord l evs).proc.party = l.proc.party ∧
    (Life.run c env ord l evs).proc.ending = l.proc.ending ∧ Dead (Life.run c env ord l evs) :=
  run_dead c env ord evs l hdead

/-- A timeout makes a live party dead (non-vacuity of `reaped_party_is_inert`'s hypothesis), and does
not touch the round state. -/
theorem timeout_reaps (l : Life G) (h : l.stage = .r0 ∨ l.stage = .r0ready ∨ l.stage = .signing) :
    Dead l.onTimeout ∧ l.onTimeout.proc.party = l.proc.party := by
  rcases h with h | h | h
  · simp [Life.onTimeout, h, Dead]
  · simp [Life.onTimeout, h, Dead]
  · unfold Life.onTimeout
    rw [h]
    simp only []
    by_cases hm : l.proc.inManager = true
    · rw [if_pos hm]; exact ⟨Or.inr ⟨rfl, rfl⟩, rfl⟩
    · rw [if_neg hm]; exact ⟨Or.inr ⟨h, by simpa using hm⟩, rfl⟩

/-- The store rule of round0: a verify message is stored once per message id, never after its id was
processed. -/
theorem storeRule_spec (processed0 : List MsgId) (stored : List (VMsg G)) (m : VMsg G) :
    (m.mid ∈ processed0 ∨ m.mid ∈ stored.map (·.mid) → storeRule processed0 stored m = stored) ∧
    (m.mid ∉ processed0 → m.mid ∉ stored.map (·.mid) → storeRule processed0 stored m = stored ++ [m]) := by
  unfold storeRule
  constructor
  · intro h
    rw [if_pos]
    rcases h with h | h
    · simp [h]
    · obtain ⟨f, hf, hfm⟩ := List.mem_map.mp h
      simp only [Bool.or_eq_true, List.contains_eq_mem, decide_eq_true_eq, List.any_eq_true, beq_iff_eq]
      exact Or.inr ⟨f, hf, hfm⟩
  · intro h1 h2
    rw [if_neg]
    simp only [Bool.or_eq_true, List.contains_eq_mem, decide_eq_true_eq, List.any_eq_true, beq_iff_eq, not_or,
      not_exists, not_and]
    exact ⟨h1, fun f hf hfm => h2 (List.mem_map.mpr ⟨f, hf, hfm⟩)⟩

/-! ### liveness over the life cycle: false when the proposal is accepted from a chain notification

KNOWN FINDING `stored-share-lost-by-start-panic`, replayed on the implementation by the searcher. -/

/-- Liveness stated over the life cycle for the notification path: the party waits, packets arrive,
a chain notification accepts the proposal, more packets arrive — among them the honest messages of
≥ k members. -/
def FullStatementLifeLiveness : Prop :=
  ∀ (c : Crypto Sym) (env : Env), env.bindsHash = true → env.startRecovers = false →
    env.blockExists = false → 0 < env.groupSize →
    ∀ (sh : Id → Data → Sym) (gs : Data → Sym), Lawful c env sh gs →
      ∀ (key0 : Data) (early late : List (Wire Sym)) (honest : List (Id × MsgId)),
        (honest.map (·.1)).Nodup → groupK env.groupSize ≤ honest.length →
        (∀ p ∈ honest, p.1 ∈ env.pkKnown ∧ Wire.ok (honestMsg env sh p.1 p.2) ∈ late) →
        (Life.run c env id (Life.new key0)
          ([Event.cast 1000 .wait] ++ early.map (Event.packet false) ++ [Event.notify .accept] ++
            late.map (Event.packet false))).proc.ending = some true

/-- the handler binds the hash (fixed) but `round1.Start` does not contain a stored message's panic -/
def liveEnv : Env := { leadEnv with bindsHash := true, startRecovers := false }

/-- filed under the pre-change key (tag 9), signer id longer than 32 bytes -/
def oversizeMsg : VMsg Sym :=
  { mid := 7, blockHash := 9, signer := 0, idShape := .oversize, signerNonZero := true, dataHash := 0,
    sig := .share 0 0, rand := .share 0 1 }

/-- **Counterexample**: group of 3 (k = 2). While round0 waits, a message with an over-long signer id is
filed under the party's pre-change key and stored. The proposal is accepted from a chain notification;
honest member 1's share is the next message: round0 stores it, `round1.Start` ranges over the stored
messages, the first one panics in `ID.Serialize`, the panic escapes the loop and member 1's share is never
processed. Honest member 2's share is counted; with 2 = k honest members heard the block is not finalised. -/
theorem life_liveness_counterexample : ¬ FullStatementLifeLiveness := by
  intro h
  have hl : Lawful (symCrypto 2 [0, 1, 2]) liveEnv (fun i d => Sym.share i d) (fun d => Sym.group d) :=
    symCrypto_lawful liveEnv (by decide)
  have := h (symCrypto 2 [0, 1, 2]) liveEnv rfl rfl rfl (by decide) _ _ hl 9
    [.ok oversizeMsg]
    [.ok (honestMsg liveEnv (fun i d => Sym.share i d) 1 1), .ok (honestMsg liveEnv (fun i d => Sym.share i d) 2 2)]
    [(1, 1), (2, 2)] (by decide) (by decide)
    (by
      intro p hp
      simp only [List.mem_cons, List.not_mem_nil, or_false] at hp
      rcases hp with rfl | rfl
      · exact ⟨by decide, by simp⟩
      · exact ⟨by decide, by simp⟩)
  exact absurd this (by decide)

/-- With the other iteration order the same history finalises the block: the outcome depends on Go's
map order. -/
example :
    (Life.run (symCrypto 2 [0, 1, 2]) liveEnv List.reverse (Life.new 9)
      [.cast 1000 .wait, .packet false (.ok oversizeMsg), .notify .accept,
       .packet false (.ok (honestMsg liveEnv (fun i d => Sym.share i d) 1 1)),
       .packet false (.ok (honestMsg liveEnv (fun i d => Sym.share i d) 2 2))]).proc.ending = some true := by
  decide

/-- With a `round1.Start` that drops a panicking stored message and goes on (`startRecovers`, the
proposed repair), the same history finalises the block in the order that failed above. -/
example :
    (Life.run (symCrypto 2 [0, 1, 2]) { liveEnv with startRecovers := true } id (Life.new 9)
      [.cast 1000 .wait, .packet false (.ok oversizeMsg), .notify .accept,
       .packet false (.ok (honestMsg liveEnv (fun i d => Sym.share i d) 1 1)),
       .packet false (.ok (honestMsg liveEnv (fun i d => Sym.share i d) 2 2))]).proc.ending = some true := by
  decide

/-- The cache holding only what was parked under the block hash. -/
def parkedOf (env : Env) (acc : List (VMsg G)) : Lru (List (VMsg G)) :=
  if acc.isEmpty then Lru.empty futureCap else ⟨futureCap, [(env.hash, acc)]⟩

theorem park_parkedOf (env : Env) (acc : List (VMsg G)) (m : VMsg G) :
    park (parkedOf env acc) env.hash m = parkedOf env (acc ++ [m]) := by
  cases acc with
  | nil => simp [parkedOf, park, Lru.get, Lru.peek, Lru.add, Lru.contains, Lru.empty, futureCap]
  | cons x xs =>
    simp [parkedOf, park, Lru.get, Lru.peek, Lru.add, Lru.contains, Lru.remove, Lru.empty, futureCap]

theorem parkedOf_peek (env : Env) (acc : List (VMsg G)) :
    ((parkedOf env acc).peek env.hash).getD [] = acc ∧ ((parkedOf env acc).remove env.hash) = Lru.empty futureCap := by
  cases acc with
  | nil => simp [parkedOf, Lru.peek, Lru.remove, Lru.empty]
  | cons x xs => simp [parkedOf, Lru.peek, Lru.remove, Lru.empty]

theorem initWith_stray (c : Crypto G) (env : Env) (p : List MsgId) (f : List (VMsg G)) :
    (Proc.initWith c env p f).stray = Lru.empty futureCap := by
  unfold Proc.initWith settle
  split; · rfl
  split <;> rfl

/-- Packets filed under the block hash while no party exists, then a cast message accepted inside
`baseParty.Update`: the life cycle is in the signing stage with exactly the processor of
`Model/Round.lean`, started with the cast message's id and fed the parked packets. -/
theorem parked_then_cast (c : Crypto G) (env : Env) (ord : List (VMsg G) → List (VMsg G))
    (key0 : Data) (mid : MsgId) :
    ∀ (pre acc : List (VMsg G)), (∀ m ∈ pre, m.blockHash = env.hash) →
      (Life.run c env ord { (Life.new key0 : Life G) with parked := parkedOf env acc }
        (pre.map (fun m => Event.packet env.blockExists (.ok m)) ++ [Event.cast mid .accept])).stage = .signing ∧
      (Life.run c env ord { (Life.new key0 : Life G) with parked := parkedOf env acc }
        (pre.map (fun m => Event.packet env.blockExists (.ok m)) ++ [Event.cast mid .accept])).key0 = key0 ∧
      (Life.run c env ord { (Life.new key0 : Life G) with parked := parkedOf env acc }
        (pre.map (fun m => Event.packet env.blockExists (.ok m)) ++ [Event.cast mid .accept])).proc =
        dispatch c env (Proc.initWith c env [mid] (ord [])) (acc ++ pre) := by
  intro pre
  induction pre with
  | nil =>
    intro acc _
    have hp := parkedOf_peek env acc
    refine ⟨rfl, rfl, ?_⟩
    simp only [List.map_nil, List.nil_append, Life.run, Life.step, Life.onCast, Life.new, Life.enterSigning,
      Life.pfuture, hp.1, hp.2, List.append_nil]
    congr 1
    have := initWith_stray c env [mid] (ord ([] : List (VMsg G)))
    cases hq : Proc.initWith c env [mid] (ord ([] : List (VMsg G))) with
    | mk party mgr done stray ending =>
      rw [hq] at this
      simp only at this
      rw [this]
  | cons m rest ih =>
    intro acc hm
    have h1 : m.blockHash = env.hash := hm m (by simp)
    have hw : env.withChain env.blockExists = env := rfl
    have := ih (acc ++ [m]) (fun x hx => hm x (by simp [hx]))
    simp only [List.map_cons, List.cons_append, Life.run, Life.step, Life.onPacket, decode, Life.new, hw, h1,
      park_parkedOf]
    simp only [Life.new, List.append_assoc, List.singleton_append] at this
    exact this

/-- **life_accept_in_update_reduces**: the processor after `pre` (parked) and an accepted cast message. -/
theorem life_accept_in_update_reduces (c : Crypto G) (env : Env) (ord : List (VMsg G) → List (VMsg G))
    (key0 : Data) (mid : MsgId) (pre : List (VMsg G)) (hpre : ∀ m ∈ pre, m.blockHash = env.hash) :
    (Life.run c env ord (Life.new key0)
      (pre.map (fun m => Event.packet env.blockExists (.ok m)) ++ [Event.cast mid .accept])).proc =
    dispatch c env (Proc.initWith c env [mid] (ord [])) pre := by
  have := (parked_then_cast c env ord key0 mid pre [] hpre).2.2
  simp only [List.nil_append] at this
  exact this

/-! ### liveness over the life cycle when the proposal is accepted inside `baseParty.Update` -/

theorem lifeRun_append (c : Crypto G) (env : Env) (ord : List (VMsg G) → List (VMsg G)) (a b : List (Event G)) :
    ∀ l : Life G, Life.run c env ord l (a ++ b) = Life.run c env ord (Life.run c env ord l a) b := by
  induction a with
  | nil => intro l; rfl
  | cons e rest ih => intro l; exact ih _

theorem dispatch_eq_run (c : Crypto G) (env : Env) (ms : List (VMsg G)) :
    ∀ pr : Proc G, dispatch c env pr ms = Proc.run c env pr (ms.map Wire.ok) := by
  induction ms with
  | nil => intro pr; rfl
  | cons m rest ih => intro pr; exact ih _

/-- Once in the signing stage, verify packets not filed under the pre-change key drive exactly the
processor of `Model/Round.lean`. -/
theorem lifeRun_signing (c : Crypto G) (env : Env) (hex : env.blockExists = false)
    (ord : List (VMsg G) → List (VMsg G)) (late : List (Wire G)) :
    ∀ l : Life G, l.stage = .signing →
      (∀ w ∈ late, ∀ m, decode w = some m → m.blockHash ≠ l.key0) →
      (Life.run c env ord l (late.map (Event.packet false))).proc = Proc.run c env l.proc late := by
  induction late with
  | nil => intro l _ _; rfl
  | cons w rest ih =>
    intro l hs hk
    have hw : env.withChain false = env := by
      cases env; simp only [Env.withChain] at *; simp_all
    have hstep : (l.step c env ord (.packet false w)).stage = .signing ∧
        (l.step c env ord (.packet false w)).key0 = l.key0 ∧
        (l.step c env ord (.packet false w)).proc = (l.proc.deliver c env w).1 := by
      simp only [Life.step, hw, Life.onPacket, Proc.deliver]
      cases hd : decode w with
      | none => exact ⟨hs, rfl, rfl⟩
      | some m =>
        have hne := hk w (by simp) m hd
        simp only [hs]
        rw [if_neg (by simp [hne])]
        exact ⟨rfl, rfl, rfl⟩
    simp only [List.map_cons, Life.run, Proc.run]
    rw [ih _ hstep.1 (fun w' hw' m hm => by rw [hstep.2.1]; exact hk w' (by simp [hw']) m hm), hstep.2.2]

/-- **life_one_faulty_cannot_block_in_update** (the life-cycle form of clause 3, for the acceptance path
inside `baseParty.Update`): verify packets filed under the block hash may arrive before any party exists;
the cast message is accepted; more packets arrive (none filed under the pre-change key). If the honest
messages of ≥ k registered members are among the packets, the party ends `done` with the two group
signatures, whatever else was delivered and in whatever order. -/
theorem life_one_faulty_cannot_block_in_update (c : Crypto G) (env : Env) (hsrc : FromSource env)
    (hex : env.blockExists = false) (hn : 0 < env.groupSize)
    (sh : Id → Data → G) (gs : Data → G) (hl : Lawful c env sh gs)
    (ord : List (VMsg G) → List (VMsg G)) (hord : ord [] = [])
    (key0 : Data) (mid : MsgId) (pre : List (VMsg G)) (hpre : ∀ m ∈ pre, m.blockHash = env.hash)
    (late : List (Wire G)) (hlate : ∀ w ∈ late, ∀ m, decode w = some m → m.blockHash ≠ key0)
    (honest : List (Id × MsgId)) (hnd : (honest.map (·.1)).Nodup) (hlen : groupK env.groupSize ≤ honest.length)
    (hmem : ∀ p ∈ honest, p.1 ∈ env.pkKnown ∧
      Wire.ok (honestMsg env sh p.1 p.2) ∈ pre.map Wire.ok ++ late ∧ p.2 ≠ mid) :
    let l := Life.run c env ord (Life.new key0)
      (pre.map (fun m => Event.packet env.blockExists (.ok m)) ++ [Event.cast mid .accept] ++
        late.map (Event.packet false))
    l.proc.ending = some true ∧
    l.proc.party.rs.generated = some (some (gs env.hash), some (gs env.prevRandom)) := by
  intro l
  -- the state right after the cast message
  have h1 := parked_then_cast c env ord key0 mid pre [] hpre
  simp only [List.nil_append] at h1
  have h1 : (Life.run c env ord (Life.new key0)
        (pre.map (fun m => Event.packet env.blockExists (.ok m)) ++ [Event.cast mid .accept])).stage = .signing ∧
      (Life.run c env ord (Life.new key0)
        (pre.map (fun m => Event.packet env.blockExists (.ok m)) ++ [Event.cast mid .accept])).key0 = key0 ∧
      (Life.run c env ord (Life.new key0)
        (pre.map (fun m => Event.packet env.blockExists (.ok m)) ++ [Event.cast mid .accept])).proc =
        dispatch c env (Proc.initWith c env [mid] (ord [])) pre := h1
  have hl2 : l = Life.run c env ord (Life.run c env ord (Life.new key0)
      (pre.map (fun m => Event.packet env.blockExists (.ok m)) ++ [Event.cast mid .accept]))
      (late.map (Event.packet false)) := lifeRun_append c env ord _ _ _
  have hproc : l.proc = Proc.run c env (Proc.initWith c env [mid] []) (pre.map Wire.ok ++ late) := by
    rw [hl2, lifeRun_signing c env hex ord late _ h1.1 (by rw [h1.2.1]; exact hlate), h1.2.2, hord,
      dispatch_eq_run]
    -- Proc.run over an appended list
    have happ : ∀ (a b : List (Wire G)) (pr : Proc G), Proc.run c env (Proc.run c env pr a) b = Proc.run c env pr (a ++ b) := by
      intro a
      induction a with
      | nil => intro b pr; rfl
      | cons x xs ih => intro b pr; exact ih b _
    exact happ _ _ _
  have := one_faulty_cannot_block_after_cast c env hsrc hex hn sh gs hl [mid] [] (pre.map Wire.ok ++ late)
    honest hnd hlen (by
      intro p hp
      obtain ⟨a, b, cne⟩ := hmem p hp
      exact ⟨a, b, by simpa using cne⟩)
  rw [hproc]
  exact ⟨this.1, this.2.1⟩

/-! ### the parked-message cache is an LRU of 50 keys

KNOWN FINDING `parked-shares-evicted-by-lru`, replayed on the implementation by the searcher
(`lead-lru-evict-*`). -/

/-- The cache never holds more keys than its capacity. -/
theorem park_bounded (l : Lru (List (VMsg G))) (k : Data) (m : VMsg G) (h : l.items.length ≤ l.cap) :
    (park l k m).items.length ≤ l.cap ∧ (park l k m).cap = l.cap := by
  unfold park Lru.get
  cases hp : l.peek k with
  | none =>
    simp only [Option.getD_none, List.nil_append]
    unfold Lru.add
    split
    · simp [Lru.remove]
      have := List.length_filter_le (fun e : Data × List (VMsg G) => !(e.1 == k)) l.items
      -- present: the key is replaced, the length does not grow beyond the old one
      rename_i hc
      have hpos : 0 < l.items.length := by
        simp only [Lru.contains, List.any_eq_true] at hc
        obtain ⟨e, he, _⟩ := hc
        exact List.length_pos_of_mem he
      have hlt : (l.items.filter (fun e => !(e.1 == k))).length < l.items.length := by
        simp only [Lru.contains, List.any_eq_true] at hc
        obtain ⟨e, he, hek⟩ := hc
        apply List.length_filter_lt_length_iff_exists.mpr
        exact ⟨e, he, by simp [hek]⟩
      omega
    · simp only [List.length_take, List.length_cons]
      exact ⟨Nat.min_le_left _ _, trivial⟩
  | some v =>
    simp only [Option.getD_some]
    unfold Lru.add
    have hc : Lru.contains { l with items := (k, v) :: (l.remove k).items } k = true := by
      simp [Lru.contains]
    rw [if_pos hc]
    have hmem : ∃ e ∈ l.items, (e.1 == k) = true := by
      unfold Lru.peek at hp
      cases hf : l.items.find? (fun e => e.1 == k) with
      | none => simp [hf] at hp
      | some e => exact ⟨e, List.mem_of_find?_eq_some hf, by simpa using List.find?_some hf⟩
    obtain ⟨e, he, hek⟩ := hmem
    have hlt : (l.items.filter (fun e => !(e.1 == k))).length < l.items.length :=
      List.length_filter_lt_length_iff_exists.mpr ⟨e, he, by simp [hek]⟩
    simp only [Lru.remove, List.filter_cons, beq_self_eq_true, Bool.not_true, Bool.false_eq_true, if_false,
      List.length_cons, List.filter_filter, Bool.and_self]
    refine ⟨?_, ?_⟩
    · omega
    · first | rfl | trivial

/-- Liveness with arbitrary packets between the parked genuine shares and the cast message. -/
def FullStatementParkedLiveness : Prop :=
  ∀ (c : Crypto Sym) (env : Env), env.bindsHash = true → env.blockExists = false → 0 < env.groupSize →
    ∀ (sh : Id → Data → Sym) (gs : Data → Sym), Lawful c env sh gs →
      ∀ (key0 : Data) (mid : MsgId) (early late : List (Wire Sym)) (honest : List (Id × MsgId)),
        (honest.map (·.1)).Nodup → groupK env.groupSize ≤ honest.length →
        (∀ p ∈ honest, p.1 ∈ env.pkKnown ∧ Wire.ok (honestMsg env sh p.1 p.2) ∈ early ++ late) →
        (Life.run c env id (Life.new key0)
          (early.map (Event.packet false) ++ [Event.cast mid .accept] ++ late.map (Event.packet false))).proc.ending
          = some true

/-- a message filed under another block hash `d` -/
def otherKeyMsg (d : Data) : VMsg Sym :=
  { mid := 100 + d, blockHash := d, signer := 7, idShape := .ok, signerNonZero := true, dataHash := d,
    sig := .junk false, rand := .junk false }

/-- **Counterexample**: group of 3 (k = 2); honest member 1's share is parked under the block hash before
any party exists; 50 messages filed under 50 other hashes follow; the LRU (capacity 50 keys) evicts the
block hash; the cast message is accepted; honest member 2's share arrives live: one share, no block. -/
theorem parked_liveness_counterexample : ¬ FullStatementParkedLiveness := by
  intro h
  have hl : Lawful (symCrypto 2 [0, 1, 2]) liveEnv (fun i d => Sym.share i d) (fun d => Sym.group d) :=
    symCrypto_lawful liveEnv (by decide)
  have := h (symCrypto 2 [0, 1, 2]) liveEnv rfl rfl (by decide) _ _ hl 9 1000
    (.ok (honestMsg liveEnv (fun i d => Sym.share i d) 1 1) :: (List.range 50).map (fun j => .ok (otherKeyMsg (10 + j))))
    [.ok (honestMsg liveEnv (fun i d => Sym.share i d) 2 2)]
    [(1, 1), (2, 2)] (by decide) (by decide)
    (by
      intro p hp
      simp only [List.mem_cons, List.not_mem_nil, or_false] at hp
      rcases hp with rfl | rfl
      · exact ⟨by decide, by simp⟩
      · exact ⟨by decide, by simp⟩)
  exact absurd this (by decide +kernel)

/-- With 49 other keys nothing is evicted and the same history finalises the block (the boundary). -/
example :
    (Life.run (symCrypto 2 [0, 1, 2]) liveEnv id (Life.new 9)
      ((Wire.ok (honestMsg liveEnv (fun i d => Sym.share i d) 1 1) ::
          (List.range 49).map (fun j => Wire.ok (otherKeyMsg (10 + j)))).map (Event.packet false) ++
        [Event.cast 1000 .accept] ++
        [Event.packet false (.ok (honestMsg liveEnv (fun i d => Sym.share i d) 2 2))])).proc.ending = some true := by
  decide +kernel

end Rangers.Props.C15
