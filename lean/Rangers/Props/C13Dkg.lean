import Mathlib.Data.ZMod.Basic
import Rangers.Proofs.C13Deliver
/-!
# C13 — "members sum the shares they receive": the delivery side of the DKG

Theorems about `Model.Shamir.handleSharePiece` / `deliverAll` (the model of
`group_create.groupNodeInfo.handleSharePiece`, `gotAllSharePiece`, `aggregateKeys`, executed by the
driver's `deliver` op and tied to the code on delivery histories with re-deliveries, replaced pieces,
strangers and late arrivals).
-/
namespace Rangers.Props.C13Dkg
open Rangers.Model.Shamir Rangers.Proofs.C13

variable {P : Type}

/-- **Status codes and completion.** On a well-formed state: a piece from a sender already present
    is refused with `-1` and changes nothing (whatever it contains); otherwise it is stored; `1`
    (completed) can only be returned by the delivery that brings the number of DISTINCT senders to the
    group size `n`; group size and well-formedness are preserved. -/
theorem handle_share_piece_status (r : Nat) (addP : P → P → P) (st : NodeInfo P) (pc : Piece P)
    (hok : NodeOk r addP st) :
    (handleSharePiece r addP st pc).1.n = st.n ∧
    (handleSharePiece r addP st pc).1.received = addNew st.received pc ∧
    NodeOk r addP (handleSharePiece r addP st pc).1 ∧
    ((handleSharePiece r addP st pc).2 = 1 →
      ¬ st.received.any (fun e => e.id == pc.id) = true ∧ st.received.length + 1 = st.n) ∧
    (st.received.any (fun e => e.id == pc.id) = true →
      (handleSharePiece r addP st pc).1 = st ∧ (handleSharePiece r addP st pc).2 = -1) :=
  handleSharePiece_spec r addP st pc hok

/-- **Duplicates and re-deliveries are irrelevant.** After ANY delivery history a fresh node stores
    exactly the first occurrence of every sender and its keys are `keysOf` them (aggregated over the
    first `n` distinct senders once there are `n`, nothing before); hence two histories with the same
    first-occurrence list leave the same pieces and the same keys. -/
theorem dkg_keys_depend_only_on_first_occurrences (r : Nat) (addP : P → P → P) (n : Nat)
    (h1 h2 : List (Piece P)) :
    (deliverAll r addP (NodeInfo.new n) h1).1.received = h1.foldl addNew [] ∧
    ((deliverAll r addP (NodeInfo.new n) h1).1.msk, (deliverAll r addP (NodeInfo.new n) h1).1.gpk) =
      keysOf r addP n (h1.foldl addNew []) ∧
    (h1.foldl addNew [] = h2.foldl addNew [] →
      (deliverAll r addP (NodeInfo.new n) h1).1.msk = (deliverAll r addP (NodeInfo.new n) h2).1.msk ∧
      (deliverAll r addP (NodeInfo.new n) h1).1.gpk = (deliverAll r addP (NodeInfo.new n) h2).1.gpk) := by
  obtain ⟨hn, hr, hk⟩ := deliverAll_spec r addP h1 (NodeInfo.new n) (nodeOk_new r addP n)
  refine ⟨hr, ?_, fun h => ?_⟩
  · unfold NodeOk at hk; rw [hn, hr] at hk; exact hk
  · have := deliverAll_same_firstOcc r addP n h1 h2 h
    exact ⟨this.2.1, this.2.2⟩

/-- **Completion ⇔ all `n` dealers heard, keys = function of that set.** If the first `n` distinct
    senders of a delivery history are exactly the `n` dealers' pieces `honest` (in any order, with any
    duplicates, replaced pieces or later strangers in between and after), the member's signing key is
    the sum of the dealers' shares mod `r` and its group public key the sum of the dealers' public
    keys. -/
theorem dkg_member_keys_from_any_history {G : Type} [AddCommGroup G] (r n : Nat)
    (honest : List (Piece G)) (hpos : 0 < n) (h : List (Piece G))
    (hlen : n ≤ (h.foldl addNew []).length) (hfirst : ((h.foldl addNew []).take n).Perm honest) :
    (deliverAll r (· + ·) (NodeInfo.new n) h).1.msk = (honest.map (·.share)).sum % r ∧
    (deliverAll r (· + ·) (NodeInfo.new n) h).1.gpk = some (honest.map (·.pub)).sum := by
  obtain ⟨_, hk, _⟩ := dkg_keys_depend_only_on_first_occurrences r (· + ·) n h h
  rw [keysOf_perm r n _ honest hpos hlen hfirst] at hk
  simp only [Prod.mk.injEq] at hk
  exact hk

/-- non-vacuity (`r = 13`, public keys in `ZMod 13`, `n = 3`): dealers 5, 6, 7; history
    `5, 5 again, 6, a different piece from 5, 7, 6 again, a stranger 9`: statuses `0,-1,0,-1,1,-1,0`,
    key `(4+5+6) mod 13 = 2`, group key `1+2+3 = 6`. -/
example :
    (deliverAll 13 (· + ·) (NodeInfo.new 3 : NodeInfo (ZMod 13))
      [⟨5, 4, 1⟩, ⟨5, 4, 1⟩, ⟨6, 5, 2⟩, ⟨5, 9, 9⟩, ⟨7, 6, 3⟩, ⟨6, 5, 2⟩, ⟨9, 1, 1⟩]).2 = [0, -1, 0, -1, 1, -1, 0] ∧
    (deliverAll 13 (· + ·) (NodeInfo.new 3 : NodeInfo (ZMod 13))
      [⟨5, 4, 1⟩, ⟨5, 4, 1⟩, ⟨6, 5, 2⟩, ⟨5, 9, 9⟩, ⟨7, 6, 3⟩, ⟨6, 5, 2⟩, ⟨9, 1, 1⟩]).1.msk = 2 ∧
    (deliverAll 13 (· + ·) (NodeInfo.new 3 : NodeInfo (ZMod 13))
      [⟨5, 4, 1⟩, ⟨5, 4, 1⟩, ⟨6, 5, 2⟩, ⟨5, 9, 9⟩, ⟨7, 6, 3⟩, ⟨6, 5, 2⟩, ⟨9, 1, 1⟩]).1.gpk = some 6 := by
  decide

/-- The hypothesis `hfirst` is needed: neither `handleSharePiece` nor its caller
    `handleSharePieceMessage` tests that the sender is a member of the group, so a stranger's piece
    arriving before the last dealer's is counted — the node completes on it and aggregates the
    stranger's share instead of the last dealer's (known finding `dkg-nonmember-piece-counted`;
    replayed on the implementation by `corpus/C13/stranger.ops`). -/
theorem stranger_before_completion_counts :
    (deliverAll 13 (· + ·) (NodeInfo.new 3 : NodeInfo (ZMod 13))
      [⟨5, 4, 1⟩, ⟨6, 5, 2⟩, ⟨9, 1, 1⟩, ⟨7, 6, 3⟩]).2 = [0, 0, 1, 0] ∧
    (deliverAll 13 (· + ·) (NodeInfo.new 3 : NodeInfo (ZMod 13))
      [⟨5, 4, 1⟩, ⟨6, 5, 2⟩, ⟨9, 1, 1⟩, ⟨7, 6, 3⟩]).1.msk = 10 ∧
    (deliverAll 13 (· + ·) (NodeInfo.new 3 : NodeInfo (ZMod 13))
      [⟨5, 4, 1⟩, ⟨6, 5, 2⟩, ⟨7, 6, 3⟩]).1.msk = 2 := by
  decide

end Rangers.Props.C13Dkg
