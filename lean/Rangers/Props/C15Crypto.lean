import Rangers.Props.C13Prime
import Rangers.Proofs.Bls14Pairing
import Rangers.Proofs.RoundLive
import Rangers.Proofs.RoundSrc
import Rangers.Props.C15B
/-!
C15: the cryptographic hypothesis `Lawful` of clauses 2 and 3 discharged from the results of
C13 and C14 for the abstract bn256 setting.

* recovery (`Lawful.recover_eq`) is C13's `recover_group_signature_any_partial` at the modulus of
  the code (`Bn256.order`, prime by `C13Prime.order_prime`): `RecoverGroupSignature` on the shares of
  any `k` members with ids distinct mod `r` is the group signature;
* uniqueness of verification (`Lawful.verify_iff`, `groupSig_ok`) is `Bilinear.unique`
  (Proofs/Bls14Pairing.lean), the group-level core of C14's `verify_iff_unique`.

What remains assumed, as fields of `Bn256Setting` (never axioms): G1 is a `ZMod r`-module whose
`Add`/`ScalarMult` are the module operations (`LawfulOps`), the pairing is additive in both arguments
(`Bilinear`) and `e(·, g₂)` has trivial kernel (non-degeneracy), member ids are distinct mod `r`,
and the member keys are evaluations of one polynomial of degree < k (what the DKG produces,
C13 `member_key_is_eval_of_sum`). Hash-to-curve is an arbitrary function.
-/
namespace Rangers.Props.C15
open Rangers.Model.Round Rangers.Proofs.Round
open Rangers.Generated Rangers.Model.Shamir Rangers.Proofs.C13 Rangers.Props.C13 Rangers.Props.C13Prime
open Rangers.Proofs.Bls14

/-- The abstract bn256 threshold group the node works in. -/
structure Bn256Setting (G G2 GT : Type) [AddCommGroup G] [Module (ZMod Bn256.order) G]
    [AddCommGroup G2] [CommGroup GT] where
  ops : Ops G
  lawful : LawfulOps Bn256.order ops
  e : G → G2 → GT
  bil : Bilinear e
  g2 : G2
  nondeg : ∀ a, e a g2 = 1 → a = 0
  /-- hash-to-point of a data tag -/
  H : Data → G
  /-- coefficients of the group polynomial (sum of the dealers' polynomials) -/
  cs : List Nat
  /-- the 256-bit id of a member -/
  idOf : Id → Nat
  /-- iteration orders / draws inside `RecoverGroupSignature` -/
  choice : Choice (Nat × Option G)

variable {G G2 GT : Type} [AddCommGroup G] [Module (ZMod Bn256.order) G] [AddCommGroup G2] [CommGroup GT]

namespace Bn256Setting
variable (S : Bn256Setting G G2 GT)

/-- member `i`'s signing key `f(id_i)` and the group secret `f(0)` -/
def sk (i : Id) : Nat := (shareSeckey Bn256.order S.cs (S.idOf i)).getD 0
def gsk : Nat := S.cs.headD 0

/-- `Sign(sk_i, d) = sk_i · H(d)`, as the code computes it (`ScalarMult`) -/
def shareOf (i : Id) (d : Data) : Option G := some (S.ops.mul (S.H d) (S.sk i))
def groupSig (d : Data) : Option G := some (S.ops.mul (S.H d) S.gsk)

/-- The oracle the round's model is run with: signatures are `Option G` (`none` = nil point),
`VerifySig` is the pairing comparison, recovery is C13's model of `RecoverGroupSignature`. -/
noncomputable def crypto (k : Nat) : Crypto (Option G) where
  isNil s := s.isNone
  isValid s := s.isSome
  verify i d s := match s with
    | some σ => @decide (S.e σ S.g2 = S.e (S.H d) (S.sk i • S.g2)) (Classical.dec _)
    | none => false
  verifyGroup d s := match s with
    | some σ => @decide (S.e σ S.g2 = S.e (S.H d) (S.gsk • S.g2)) (Classical.dec _)
    | none => false
  recover l := match recoverGroupSignature S.ops Bn256.order k (l.map fun p => (S.idOf p.1, p.2)) S.choice with
    | .ok s => s
    | _ => none
  pick l n := l.take n

theorem mul_eq_nsmul (h : G) (n : Nat) : S.ops.mul h n = n • h := by
  rw [S.lawful.mul_eq, Nat.cast_smul_eq_nsmul]

end Bn256Setting

/-- **`Lawful` is a corollary of C13 and C14** for every `Bn256Setting`: nothing about the round's
cryptography is assumed beyond the fields of the setting and distinctness of the member ids mod `r`. -/
theorem bn256_lawful (S : Bn256Setting G G2 GT) (env : Env) (hcs : S.cs ≠ [])
    (hdeg : S.cs.length ≤ groupK env.groupSize)
    (hadm : Admissible S.choice (groupK env.groupSize) (groupK env.groupSize))
    (hdist : ∀ i ∈ env.pkKnown, ∀ j ∈ env.pkKnown,
      S.idOf i % Bn256.order = S.idOf j % Bn256.order → i = j) :
    Lawful (S.crypto (groupK env.groupSize)) env S.shareOf S.groupSig := by
  refine ⟨?_, ?_, ?_, ?_⟩
  · -- C14: the pairing check pins the signature down
    intro i d s _
    cases s with
    | none => simp [Bn256Setting.crypto, Bn256Setting.shareOf]
    | some σ =>
      simp only [Bn256Setting.crypto, Bn256Setting.shareOf, decide_eq_true_eq, Option.some.injEq]
      rw [S.bil.unique S.g2 S.nondeg, S.mul_eq_nsmul]
  · intro i d s h
    cases s with
    | none => simp [Bn256Setting.crypto] at h
    | some σ => simp [Bn256Setting.crypto]
  · intro d
    refine ⟨by simp [Bn256Setting.crypto, Bn256Setting.groupSig], by simp [Bn256Setting.crypto, Bn256Setting.groupSig], ?_⟩
    simp only [Bn256Setting.crypto, Bn256Setting.groupSig, decide_eq_true_eq]
    rw [S.bil.unique S.g2 S.nondeg, S.mul_eq_nsmul]
  · -- C13: recovery from any k members' shares
    intro ids d hnd hmem hlen
    have hmap : (ids.map fun i => (i, S.shareOf i d)).map (fun p => (S.idOf p.1, p.2)) =
        ids.map (fun i => (S.idOf i, some (S.ops.mul (S.H d) ((shareSeckey Bn256.order S.cs (S.idOf i)).getD 0)))) := by
      rw [List.map_map]; rfl
    have hrec := recover_group_signature_any_partial (r := Bn256.order) S.ops S.lawful S.cs hcs (S.H d)
      (groupK env.groupSize) hdeg
      (ids.map (fun i => (S.idOf i, some (S.ops.mul (S.H d) ((shareSeckey Bn256.order S.cs (S.idOf i)).getD 0)))))
      (by simp [hlen])
      (by
        unfold IdsDistinct
        rw [List.map_map, List.map_map]
        apply List.Nodup.map_on _ hnd
        intro a ha b hb hab
        exact hdist a (hmem a ha) b (hmem b hb) hab)
      (by
        intro e he
        obtain ⟨i, _, rfl⟩ := List.mem_map.mp he
        rfl)
      S.choice (by simpa [hlen] using hadm)
    show (S.crypto (groupK env.groupSize)).recover _ = _
    simp only [Bn256Setting.crypto, hmap, hrec]
    rfl

/-- Clause 2 with the cryptography discharged. -/
theorem threshold_recovers_valid_bn256 (S : Bn256Setting G G2 GT) (env : Env) (hsrc : FromSource env)
    (hn : 0 < env.groupSize) (hcs : S.cs ≠ []) (hdeg : S.cs.length ≤ groupK env.groupSize)
    (hadm : Admissible S.choice (groupK env.groupSize) (groupK env.groupSize))
    (hdist : ∀ i ∈ env.pkKnown, ∀ j ∈ env.pkKnown, S.idOf i % Bn256.order = S.idOf j % Bn256.order → i = j)
    (future : List (VMsg (Option G))) (ws : List (Bool × Wire (Option G))) :
    let c := S.crypto (groupK env.groupSize)
    let st := (Proc.runX c env (Proc.init c env future) ws).party.rs
    (groupK env.groupSize ≤ st.gSign.witness.length ∨ st.canProcessed = true) →
      st.canProcessed = true ∧ st.gSign.witness.length = groupK env.groupSize ∧
      sigOk c env.hash st.bhSignature = true ∧ sigOk c env.prevRandom st.bhRandom = true :=
  threshold_recovers_valid _ env hsrc hn _ _ (bn256_lawful S env hcs hdeg hadm hdist) future ws

/-- Clause 3 with the cryptography discharged: in every `Bn256Setting`, ≥ k honest members' messages
among the packets ⇒ the block is finalised with the group signatures, whatever else arrives. -/
theorem one_faulty_cannot_block_bn256 (S : Bn256Setting G G2 GT) (env : Env) (hsrc : FromSource env)
    (hex : env.blockExists = false) (hn : 0 < env.groupSize) (hcs : S.cs ≠ [])
    (hdeg : S.cs.length ≤ groupK env.groupSize)
    (hadm : Admissible S.choice (groupK env.groupSize) (groupK env.groupSize))
    (hdist : ∀ i ∈ env.pkKnown, ∀ j ∈ env.pkKnown, S.idOf i % Bn256.order = S.idOf j % Bn256.order → i = j)
    (future : List (VMsg (Option G))) (ws : List (Wire (Option G)))
    (honest : List (Id × MsgId)) (hnd : (honest.map (·.1)).Nodup) (hlen : groupK env.groupSize ≤ honest.length)
    (hmem : ∀ p ∈ honest, p.1 ∈ env.pkKnown ∧ Wire.ok (honestMsg env S.shareOf p.1 p.2) ∈ ws ∧
      p.2 ∉ future.map (·.mid)) :
    let c := S.crypto (groupK env.groupSize)
    let pr := Proc.run c env (Proc.init c env future) ws
    pr.ending = some true ∧
    pr.party.rs.generated = some (some (S.groupSig env.hash), some (S.groupSig env.prevRandom)) ∧
    sigOk c env.hash (some (S.groupSig env.hash)) = true ∧
    sigOk c env.prevRandom (some (S.groupSig env.prevRandom)) = true :=
  one_faulty_cannot_block _ env hsrc hex hn _ _ (bn256_lawful S env hcs hdeg hadm hdist) future ws honest hnd hlen hmem

/-! ### non-vacuity: a concrete `Bn256Setting` (all three groups `ZMod r`, pairing = multiplication) -/

/-- `ZMod r` as G1 = G2, `Multiplicative (ZMod r)` as GT, `e(a, b) = a·b`, `g₂ = 1`, `H(d) = d + 1`,
group polynomial `7 + 5X` (k = 2), member ids 1, 2, 3. -/
noncomputable def toySetting : Bn256Setting (ZMod Bn256.order) (ZMod Bn256.order) (Multiplicative (ZMod Bn256.order)) where
  ops := zops Bn256.order
  lawful := zops_lawful _
  e a b := Multiplicative.ofAdd (a * b)
  bil := ⟨fun a b q => by simp [add_mul], fun a q q' => by simp [mul_add]⟩
  g2 := 1
  nondeg := by
    intro a h
    have : Multiplicative.toAdd (Multiplicative.ofAdd (a * 1)) = 0 := by rw [h]; rfl
    simpa using this
  H d := (d : ZMod Bn256.order) + 1
  cs := [7, 5]
  idOf i := i + 1
  choice := ⟨id, [0, 0], id⟩

/-- The hypotheses of `bn256_lawful` hold for the toy setting and a group of 3. -/
theorem toySetting_lawful :
    Lawful (toySetting.crypto (groupK 3)) { leadEnv with bindsHash := true } toySetting.shareOf toySetting.groupSig := by
  apply bn256_lawful toySetting { leadEnv with bindsHash := true }
  · decide
  · decide
  · exact ⟨fun l => List.Perm.refl l, fun l => List.Perm.refl l, by decide, by decide⟩
  · decide +kernel

end Rangers.Props.C15
