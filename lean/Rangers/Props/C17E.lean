import Rangers.Proofs.PoolConc
import Rangers.Proofs.PoolPack
/-!
# C17, part E — the concurrency clause as a statement about interleavings

`Model/PoolConc.lean` runs threads at the granularity of lock acquire / release and the two halves of
`AddTransaction` (lookup | push) and `MarkExecuted` (write records | remove from pending).

* `locked_serializable`: when every thread runs `[acq, s1, s2, rel]` (the code after the pool-mutex fix),
  *every* schedule that runs to completion ends in the pool state of *some* sequential order of the whole
  operations — for any number of threads and any operations.
* `locked_never_corrupts`: hence, for submissions and well-formed block markings, every interleaving keeps
  the pool invariant (nothing pending is executed, no duplicates), and everything proved about sequential
  histories (`Props/C17`) applies to concurrent use.
* `unlocked_counterexample`, `lookup_first_counterexample`: without the lock (code before the fix) and with
  the lookup in front of the lock (seeded regression C17-a) a four-step schedule leaves a transaction
  executed *and* pending. Both schedules are what `mode=race` of the harness finds on the real code
  (`concurrent-readmit`).
What remains evidence only: that the Go code's critical sections are the ones modelled (tied by the generated
call facts `lock.Lock/Unlock` first in `AddTransaction`, `MarkExecuted`, `UnMarkExecuted`) and the Go memory
model for the lock-free readers (`-race` run).
-/
namespace Rangers.Props.C17E
open Rangers Rangers.Pool Rangers.Pool.Conc

/-- **Serializability under the pool mutex.** -/
theorem locked_serializable (ops : List AOp) (p0 : Pool) (sched : List Nat) (st : CState)
    (h : run (initState p0 (ops.map (fun o => (o, lockedProg)))) sched = some st) (hf : st.finished) :
    ∃ order : List AOp, order.Perm ops ∧ st.pool = order.foldl (fun p o => o.run p) p0 := by
  obtain ⟨done, hi⟩ := cinv_run sched (cinv_init ops p0) h
  have hu := unf_nil_of_finished hf
  have hp := hi.perm
  rw [hu, List.append_nil] at hp
  refine ⟨done, hp, ?_⟩
  cases hl : st.lock with
  | none => exact hi.free hl
  | some i =>
    obtain ⟨t, ht, hc⟩ := hi.held i hl
    have := hf t (List.mem_of_getElem? ht)
    rcases hc with ⟨hc, _⟩ | ⟨hc, _⟩ | ⟨hc, _⟩ <;> rw [this] at hc <;> cases hc

/-- non-vacuity: three threads, a schedule that interleaves waiting and running, all finished -/
example : ((run (initState (Pool.empty 5) ([addOp ⟨1, 11, [], 0, 0, 0⟩, markOp [(11, 1)] [⟨1, 11, [], 0, 0, 0⟩] [], addOp ⟨2, 12, [], 0, 0, 0⟩].map
    (fun o => (o, lockedProg)))) [1, 1, 1, 1, 2, 2, 2, 2, 0, 0, 0, 0]).map (fun st => st.threads.all (fun t => t.code.isEmpty))) = some true := by
  decide

/-- the two halves of `addOp` are `AddTransaction` -/
theorem addOp_run (t : Tx) (p : Pool) : (addOp t).run p = (p.addTransaction t).1 := by
  simp only [AOp.run, addOp, Pool.addTransaction, Pool.add]
  cases p.existed t.hash <;> simp

/-- the two halves of `markOp` are `MarkExecuted` (no crash) on well-formed input -/
theorem markOp_run (rs : List (Nat × Nat)) (txs : List Tx) (evicted : List Nat) (p : Pool)
    (hc : Covered (rs.map (·.1)) txs) : (markOp rs txs evicted).run p = (p.markExecutedZ rs txs evicted none).1 := by
  simp only [AOp.run, markOp, Pool.markExecutedZ]
  by_cases hr : rs = []
  · simp [hr]
  · simp only [hr, if_false]
    have := markLoop_res_covered (txs := txs) rs 0 [] p hc
    cases hm : markLoop txs none rs 0 [] p with
    | mk s1 q => cases q with
      | mk ws r =>
        rw [hm] at this; simp at this; subst this
        simp only [reduceCtorEq, if_false]
        split <;> rfl

/-- an operation that keeps the pool invariant when run alone -/
def Safe (o : AOp) : Prop := ∀ p, Pool.Inv p → Pool.Inv (o.run p)

theorem addOp_safe (t : Tx) : Safe (addOp t) := by
  intro p hi; rw [addOp_run]; exact inv_addTransaction t hi

theorem markOp_safe (rs : List (Nat × Nat)) (txs : List Tx) (evicted : List Nat)
    (hc : Covered (rs.map (·.1)) txs) (hz : ∀ q ∈ rs, 0 < q.2) : Safe (markOp rs txs evicted) := by
  intro p hi
  rw [markOp_run rs txs evicted p hc]
  obtain ⟨s', ws, he, h1, h2, h3, _, h5⟩ := markExecutedZ_ok (evicted := evicted) hi.batch hi.attached hc hz
  rw [he]
  refine ⟨?_, ?_, h3, h5⟩
  · rw [h1]; exact hi.nodup.sublist List.filter_sublist
  · intro h hm
    rw [h1, List.mem_filter] at hm
    rw [h2]
    rintro (x | x)
    · exact hi.disjoint h hm.1 x
    · have := hm.2
      simp only [Bool.not_eq_true', List.contains_eq_mem, decide_eq_false_iff_not, List.mem_append, not_or] at this
      exact this.1 x

/-- **Concurrent submission and block bookkeeping never corrupt the pool** (with the mutex): every
interleaving of any number of submissions and well-formed markings, run to completion, ends in a state
satisfying the pool invariant. -/
theorem seq_safe : ∀ (order : List AOp) (p0 : Pool), (∀ o ∈ order, Safe o) → Pool.Inv p0 →
    Pool.Inv (order.foldl (fun p o => o.run p) p0)
  | [], _, _, h0 => h0
  | o :: os, p0, hs, h0 => by
    simp only [List.foldl_cons]
    exact seq_safe os (o.run p0) (fun x hx => hs x (List.mem_cons_of_mem _ hx)) (hs o (List.mem_cons_self ..) p0 h0)

theorem locked_never_corrupts (ops : List AOp) (p0 : Pool) (sched : List Nat) (st : CState)
    (hs : ∀ o ∈ ops, Safe o) (h0 : Pool.Inv p0)
    (h : run (initState p0 (ops.map (fun o => (o, lockedProg)))) sched = some st) (hf : st.finished) : Pool.Inv st.pool := by
  obtain ⟨order, hp, he⟩ := locked_serializable ops p0 sched st h hf
  rw [he]
  exact seq_safe order p0 (fun o ho => hs o (hp.mem_iff.mp ho)) h0

def tX : Tx := ⟨1, 11, [], 0, 0, 0⟩
def badSched : List Nat := [0, 1, 1, 0]

/-- The same claim for the code before the fix (no lock around either operation). -/
def FullStatementUnlocked : Prop :=
  ∀ (a m : AOp) (p0 : Pool) (sched : List Nat) (st : CState), Safe a → Safe m → Pool.Inv p0 →
    run (initState p0 [(a, unlockedProg), (m, unlockedProg)]) sched = some st → st.finished → Pool.Inv st.pool

/-- It is false: lookup of T, then the whole `MarkExecuted` of a block holding T (not pending here), then the
push: T is executed and pending. (Fixed defect; `mode=race` finds this schedule on the parent commit.) -/
theorem unlocked_counterexample : ¬ FullStatementUnlocked := by
  intro hfs
  have hc : Covered ([(11, 1)].map (·.1)) [tX] := by intro x hx; simp at hx; subst hx; exact ⟨tX, by simp, rfl⟩
  have key : (run (initState (Pool.empty 5) [(addOp tX, unlockedProg), (markOp [(11, 1)] [tX] [], unlockedProg)]) badSched).map
      (fun st => (st.threads.all (fun t => t.code.isEmpty), st.pool.contains 11, st.pool.isExecuted 11)) = some (true, true, true) := by decide
  cases hr : run (initState (Pool.empty 5) [(addOp tX, unlockedProg), (markOp [(11, 1)] [tX] [], unlockedProg)]) badSched with
  | none => rw [hr] at key; simp at key
  | some st =>
    rw [hr] at key
    simp only [Option.map_some, Option.some.injEq, Prod.mk.injEq, List.all_eq_true] at key
    obtain ⟨hfin, hcon, hex⟩ := key
    have hi := hfs _ _ _ _ st (addOp_safe tX) (markOp_safe _ _ _ hc (by intro q hq; simp at hq; subst hq; simp)) (inv_empty 5) hr
      (by intro t ht; have := hfin t ht; cases hcode : t.code <;> simp_all)
    exact hi.disjoint 11 (contains_iff.mp hcon) (isExecuted_iff.mp hex)

/-- The claim for the seeded regression C17-a: `MarkExecuted` takes the lock, `AddTransaction` looks the
transaction up before taking it. -/
def FullStatementLookupFirst : Prop :=
  ∀ (a m : AOp) (p0 : Pool) (sched : List Nat) (st : CState), Safe a → Safe m → Pool.Inv p0 →
    run (initState p0 [(a, lookupFirstProg), (m, lockedProg)]) sched = some st → st.finished → Pool.Inv st.pool

theorem lookup_first_counterexample : ¬ FullStatementLookupFirst := by
  intro hfs
  have hc : Covered ([(11, 1)].map (·.1)) [tX] := by intro x hx; simp at hx; subst hx; exact ⟨tX, by simp, rfl⟩
  have key : (run (initState (Pool.empty 5) [(addOp tX, lookupFirstProg), (markOp [(11, 1)] [tX] [], lockedProg)]) [0, 1, 1, 1, 1, 0, 0, 0]).map
      (fun st => (st.threads.all (fun t => t.code.isEmpty), st.pool.contains 11, st.pool.isExecuted 11)) = some (true, true, true) := by decide
  cases hr : run (initState (Pool.empty 5) [(addOp tX, lookupFirstProg), (markOp [(11, 1)] [tX] [], lockedProg)]) [0, 1, 1, 1, 1, 0, 0, 0] with
  | none => rw [hr] at key; simp at key
  | some st =>
    rw [hr] at key
    simp only [Option.map_some, Option.some.injEq, Prod.mk.injEq, List.all_eq_true] at key
    obtain ⟨hfin, hcon, hex⟩ := key
    have hi := hfs _ _ _ _ st (addOp_safe tX) (markOp_safe _ _ _ hc (by intro q hq; simp at hq; subst hq; simp)) (inv_empty 5) hr
      (by intro t ht; have := hfin t ht; cases hcode : t.code <;> simp_all)
    exact hi.disjoint 11 (contains_iff.mp hcon) (isExecuted_iff.mp hex)

end Rangers.Props.C17E
