import Rangers.Props.C20
import Rangers.Proofs.MinerRun4
/-!
# C20 (continued) — history-level theorems and the block end

`Inv` (Proofs/MinerRun.lean) bundles the invariants: `RecKeyed` (records sit under their own id in the
registry of their type), `Clean` (an id a registry does not know has no stake there), refund-context
heights distinct, refund accounts are 20-byte addresses. `SepU cfg U` is key-family separation on the
universe `U` of ids the history mentions (what SHA-256 gives for ids not crafted as `Sha256^k(other id)`).
`RunSide` collects, step by step, the side conditions of `TxSide` (stake/delta < 2^53, no `uint64` wrap,
refund list for the release height new-or-containing the account). Under these, over ANY sequence of
miner transactions and block ends:
-/
namespace Rangers.Props.C20B
open Rangers Rangers.Miner

/-! ## lock conservation over histories (fees included, block ends included) -/

/-- liquid + 10^18·(all recorded stake) + refunds recorded in the block context + escrow is constant over
    every history that satisfies the side conditions, from any state satisfying the invariant. -/
theorem lock_conservation_run (cfg : Cfg) (U : List Bytes) (st : State) (ops : List Op) (hc : CodecId cfg) (hraw : RawOK cfg)
    (hsome : CodecSome cfg) (hs : SepU cfg U) (hn : U.Nodup) (hinv : Inv cfg U st) (hside : RunSide cfg U st ops) :
    wealth cfg U (run cfg st ops) = wealth cfg U st :=
  (run_preserves cfg U st ops hc hraw hsome hs hn hinv hside).2

/-- … in particular from an empty registry with arbitrary balances: everything that exists later
    (stakes, scheduled refunds, escrow, balances incl. the fee account) adds up to the initial balances. -/
theorem lock_conservation_from_genesis (cfg : Cfg) (U : List Bytes) (h : Nat) (bal : List (Bytes × Nat)) (ops : List Op)
    (hc : CodecId cfg) (hraw : RawOK cfg) (hsome : CodecSome cfg) (hs : SepU cfg U) (hn : U.Nodup)
    (hside : RunSide cfg U { State.empty h with bal := bal } ops) :
    wealth cfg U (run cfg { State.empty h with bal := bal } ops) = atotal bal := by
  rw [lock_conservation_run cfg U _ ops hc hraw hsome hs hn (inv_genesis cfg U h bal) hside]
  unfold wealth
  rw [stakeTotal_genesis]
  simp [balTotal, escTotal, State.empty, pendingSum, atotal, adedup]

/-- The invariant itself survives every history (so the step theorems of Props/C20 apply at every point). -/
theorem invariant_run (cfg : Cfg) (U : List Bytes) (st : State) (ops : List Op) (hc : CodecId cfg) (hraw : RawOK cfg)
    (hsome : CodecSome cfg) (hs : SepU cfg U) (hn : U.Nodup) (hinv : Inv cfg U st) (hside : RunSide cfg U st ops) :
    Inv cfg U (run cfg st ops) :=
  (run_preserves cfg U st ops hc hraw hsome hs hn hinv hside).1

theorem toy_codecSome : CodecSome toyCfg := by
  intro i _
  constructor
  · simp [toyCfg]
  · simp [toyCfg, toyDec]

theorem toy_sep : SepU toyCfg [[0x11], [0x22]] := by
  constructor
  · intro i hi; simp at hi; rcases hi with rfl | rfl <;> simp [keysOf, toyCfg]
  · intro i hi j hj hij k hk
    simp at hi hj
    rcases hi with rfl | rfl <;> rcases hj with rfl | rfl <;> simp [keysOf, toyCfg] at hk hij ⊢ <;>
      rcases hk with rfl | rfl | rfl | rfl <;> simp

def demoOps : List Op :=
  [.tx (.apply addr1 [0x11] 0 800 [] [1] [1]), .tx (.apply addr2 [0x22] 1 2000 [] [1] [1]), .endBlock 101,
   .tx (.add addr2 [0x11] 7), .tx (.refund addr1 [0x11] 100), .endBlock 102, .tx (.refund addr2 [0x22] 1), .endBlock 36101,
   .endBlock 36102]

/-- Non-vacuity: a history with applications, an added stake, refunds (one of them aborting the miner), the
    release of an escrow — it satisfies every hypothesis, and the conserved sum really is the initial 200000 tokens. -/
example : RunSide toyCfg [[0x11], [0x22]] funded demoOps := by
  simp only [demoOps, RunSide, TxOK, TxSide]
  decide
example : wealth toyCfg [[0x11], [0x22]] (run toyCfg funded demoOps) = 200000 * wei := by
  have := lock_conservation_from_genesis toyCfg [[0x11], [0x22]] 100 [(addr1, 100000 * wei), (addr2, 100000 * wei)] demoOps
    toy_codecId toy_rawOK toy_codecSome toy_sep (by decide) (by simp only [demoOps, RunSide, TxOK, TxSide]; decide)
  rw [show ({ State.empty 100 with bal := [(addr1, 100000 * wei), (addr2, 100000 * wei)] } : State) = funded from rfl] at this
  rw [this]; decide
example : (run toyCfg funded demoOps).balOf addr1 = 100000 * wei - 800 * wei - 2 * fee + 100 * wei := by decide

/-! ## a scheduled refund is paid exactly once, exactly the scheduled amount -/

/-- Block end, first half (`RefundManager.Add`): everything recorded in the block context moves into escrow. -/
theorem refund_scheduled (st : State) :
    escTotal (escrowAddAll st st.pending) = escTotal st + pendingSum st.pending ∧
    (escrowAddAll st st.pending).bal = st.bal :=
  ⟨(escrowAddAll_spec st st.pending).1, (escrowAddAll_spec st st.pending).2.1⟩

/-- Block end, second half (`CheckAndMove` at height `h`): a 20-byte account receives exactly what is
    in escrow for it at that height (nothing if it has no entry) … -/
theorem refund_paid_exact (st : State) (h : Nat) (x : Bytes) (hs : ∀ e ∈ st.escrow, e.1.2.length = 20) :
    (checkAndMove st h).balOf x = st.balOf x + (if x ∈ escrowKeys st h then st.escOf h x else 0) :=
  checkAndMove_pays st h x hs

/-- … the entry is cleared (so it cannot be paid again), entries of other heights are untouched, and
    nothing is created or destroyed: liquid + escrow is unchanged. -/
theorem refund_paid_once (st : State) (h : Nat) (x : Bytes) (hs : ∀ e ∈ st.escrow, e.1.2.length = 20) :
    (checkAndMove st h).escOf h x = (if x ∈ escrowKeys st h then 0 else st.escOf h x) ∧
    (∀ h', h' ≠ h → (checkAndMove st h).escOf h' x = st.escOf h' x) ∧
    balTotal (checkAndMove st h) + escTotal (checkAndMove st h) = balTotal st + escTotal st := by
  refine ⟨?_, ?_, checkAndMove_total st h hs⟩
  · rw [checkAndMove_eq, cam_fold_esc_cleared]
    · simp only [List.map_map]
      have : (Prod.fst ∘ fun a => (a, st.escOf h a)) = id := rfl
      rw [this, List.map_id]
    · intro e he
      obtain ⟨a, ha, rfl⟩ := List.mem_map.mp he
      exact escrowKeys_20 st h hs a ha
  · intro h' hne
    rw [checkAndMove_eq]
    exact cam_fold_esc_other h h' _ st x hne

example : (run toyCfg funded demoOps).escOf 36101 addr1 = 0 ∧
    (run toyCfg funded (demoOps.take 6)).escOf 36101 addr1 = 100 * wei := by decide

/-- The whole path as one would state it: every accepted `refund` of `amount` shows up, after the block
    end, as `amount·10^18` in the escrow of its release height. -/
def FullStatementRefundReachesEscrow : Prop :=
  ∀ cfg st src id amount n, CodecId cfg → RawOK cfg → C20.Reachable cfg st →
    (runTx cfg st (.refund src id amount)).1 = "ok" → amount ≠ maxU64 →
    (endBlock (runTx cfg st (.refund src id amount)).2 n).escOf (st.height + refundDelay) src
      = st.escOf (st.height + refundDelay) src + pendingFor st src + amount * wei
where
  pendingFor (st : State) (src : Bytes) : Nat :=
    match st.pending.lookup (st.height + refundDelay) with
    | some l => ((l.filter (fun e => e.1 = src)).map Prod.snd).sum
    | none => 0

/-- False of the code (known finding `refund-lost-second-account`): the second account refunding in one block
    never reaches the escrow. -/
theorem refund_paid_counterexample : ¬ FullStatementRefundReachesEscrow := by
  intro h
  have hr : C20.Reachable toyCfg (run toyCfg funded C20.opsTwoRefunds) :=
    ⟨100, _, C20.opsTwoRefunds, by
      intro o ho
      simp only [C20.opsTwoRefunds, List.mem_cons, List.not_mem_nil, or_false] at ho
      rcases ho with rfl | rfl | rfl | rfl
      · exact ⟨by decide, by decide⟩
      · exact ⟨by decide, by decide⟩
      · trivial
      · trivial, rfl⟩
  have := h toyCfg _ addr2 [0x22] 100 102 toy_codecId toy_rawOK hr (by decide) (by decide)
  exact absurd this (by decide)

/-! ## record stake = applied + added − refunded, over histories -/

/-- What an operation contributes to the ledger of (registry `d`, id `j`): `+stake` for an accepted
    application of `j` in `d`, `+delta` for an accepted add-stake, `−money` for an accepted refund. -/
def txDelta (cfg : Cfg) (st : State) (tx : Tx) (d : DbId) (j : Bytes) : Int :=
  if (runTx cfg st tx).1 = "ok" ∧ d = txDb cfg st tx ∧ j = txTarget tx then
    match tx with
    | .apply _ _ _ stake _ _ _ => stake
    | .add _ _ delta => delta
    | .refund _ id amount => match getMiner cfg st id with
      | some m => - (refundMoney m amount : Int)
      | none => 0
    | _ => 0
  else 0

/-- applied + added − refunded for (d, j) along a history. -/
def ledger (cfg : Cfg) : State → List Op → DbId → Bytes → Int
  | _, [], _, _ => 0
  | st, .tx t :: ops, d, j => txDelta cfg st t d j + ledger cfg (pkAfter t (runTx cfg st t)).2 ops d j
  | st, .endBlock n :: ops, d, j => ledger cfg (endBlock st n) ops d j

theorem stake_accounting_step (cfg : Cfg) (U : List Bytes) (st : State) (tx : Tx) (hs : SepU cfg U) (hinv : Inv cfg U st)
    (hside : TxSide cfg U st tx) (d : DbId) (j : Bytes) (hj : j ∈ U) :
    (stakeAt cfg (runTx cfg st tx).2 d j : Int) = stakeAt cfg st d j + txDelta cfg st tx d j := by
  by_cases hcase : (runTx cfg st tx).1 = "ok" ∧ d = txDb cfg st tx ∧ j = txTarget tx
  · obtain ⟨hok, hd, hjt⟩ := hcase
    have hu : Untouched cfg j j := sep_untouched cfg U hs j j hj hj
    unfold txDelta
    rw [if_pos ⟨hok, hd, hjt⟩]
    cases tx with
    | apply src id typ stake acct pk vrf =>
      simp only [txTarget, txDb] at hd hjt
      subst hd hjt
      rw [C20.stake_accounting_apply cfg st src _ typ stake acct pk vrf hok hu]
      obtain ⟨st1, hfee, hex, _⟩ := runTx_ok cfg st _ hok
      have hl := (processFee_live st st1 _ hfee).1
      simp only [execute] at hex
      obtain ⟨_, _, heq⟩ := execApply_ok cfg st1 src j typ stake acct pk vrf hex
      rw [heq] at hex
      have hnomin := (addMiner_ok cfg st1 _ _ _ _ hex).2.2.1
      have htyp := addMiner_ok_typ cfg st1 _ _ _ _ hex
      have hnone := getMiner_none cfg st1 j hnomin
      have h0 : stakeAt cfg st (dbOfType typ) j = 0 := by
        apply hinv.clean _ _ hj
        rw [← getMinerById_congr cfg st st1 hl]
        rcases htyp with h | h
        · simp only at h; rw [h]; exact hnone.2
        · simp only at h; rw [h]; exact hnone.1
      rw [h0]; simp
    | add src id delta =>
      simp only [txTarget, txDb] at hd hjt
      subst hjt
      by_cases hdl : delta = 0
      · subst hdl
        obtain ⟨st1, hfee, hex, hst⟩ := runTx_ok cfg st _ hok
        have hl := (processFee_live st st1 _ hfee).1
        have : (execute cfg st1 (.add src j 0)).2 = st1 := by
          simp only [execute] at hex ⊢
          obtain ⟨_, heq⟩ := execAdd_ok cfg st1 src j 0 hex
          rw [heq]; simp [addStake]
        rw [hst, this, stakeAt_of_live cfg st st1 hl]; simp
      · obtain ⟨m, hm, hst⟩ := C20.stake_accounting_add cfg st src j delta hinv.rk hdl hok hu
        rw [hm] at hd
        simp only at hd
        subst hd
        rw [hst, Nat.mod_eq_of_lt (hside.2.2 _)]
        push_cast; rfl
    | refund src id amount =>
      simp only [txTarget, txDb] at hd hjt
      subst hjt
      obtain ⟨m, hm, _, hms, hle, hst⟩ := C20.stake_accounting_refund cfg st src j amount hinv.rk hok hu
      rw [hm] at hd
      simp only [hm] at hd ⊢
      subst hd
      rw [hst]
      have : refundMoney m amount ≤ stakeAt cfg st (dbOfType m.typ) j := hms ▸ hle
      omega
    | chacc src id na =>
      simp only [txTarget, txDb] at hd hjt
      subst hjt
      obtain ⟨st1, hfee, hex, hst⟩ := runTx_ok cfg st _ hok
      have hl := (processFee_live st st1 _ hfee).1
      obtain ⟨hinv1, _⟩ := inv_fee cfg U st st1 _ hinv hfee
      simp only [execute] at hex hst
      obtain ⟨m, hm, _, _, _, hap⟩ := execChacc_ok cfg st1 src j na hex
      obtain ⟨d', _, hbyid, hmid, _, _, hstake, hdb⟩ := getMiner_some cfg st1 j m hinv1.rk hm
      subst hmid
      rw [← getMiner_congr cfg st st1 hl, hm] at hd
      simp only at hd
      rw [hd, hdb, hst, hap]
      have hp : getMinerById cfg st1 d' m.id ≠ none := by rw [hbyid]; simp
      obtain ⟨_, _, hs'⟩ := updateMiner_none_preserves cfg U st1 st1 m { m with account := na } d' hs hj hinv1.clean rfl rfl rfl hdb hp
      simp only at hs'
      have hlt := stakeAt_lt cfg st1 d' m.id
      have e : stakeAt cfg st1 d' m.id = m.stake := hstake.symm
      rw [hs', Nat.mod_eq_of_lt (by omega), ← e, stakeAt_of_live cfg st st1 hl]; simp
    | bad k src =>
      exfalso
      obtain ⟨st1, _, hex, _⟩ := runTx_ok cfg st _ hok
      cases k <;> simp [execute] at hex
  · have hz : txDelta cfg st tx d j = 0 := by unfold txDelta; rw [if_neg hcase]
    rw [hz, Int.add_zero]
    by_cases hok : (runTx cfg st tx).1 = "ok"
    · have hne : ¬ (d = txDb cfg st tx ∧ j = txTarget tx) := fun h => hcase ⟨hok, h⟩
      have ht : txTarget tx ∈ U := by
        cases tx with
        | apply => exact hside.1
        | add => exact hside.1
        | refund => exact hside.1
        | chacc => exact hside
        | bad k src =>
          exfalso
          obtain ⟨st1, _, hex, _⟩ := runTx_ok cfg st _ hok
          cases k <;> simp [execute] at hex
      rw [stakeAt_runTx_frame cfg U st tx hs hinv.rk ht d j hj hne]
    · rw [stakeAt_of_live cfg st _ (runTx_not_ok_live cfg st tx hok)]

/-- Over any history satisfying the side conditions, the stake every registry records for every id of the
    universe is what it was at the start plus applied + added − refunded. -/
theorem stake_accounting_run (cfg : Cfg) (U : List Bytes) (st : State) (ops : List Op) (hc : CodecId cfg) (hraw : RawOK cfg)
    (hsome : CodecSome cfg) (hs : SepU cfg U) (hn : U.Nodup) (hinv : Inv cfg U st) (hside : RunSide cfg U st ops)
    (d : DbId) (j : Bytes) (hj : j ∈ U) :
    (stakeAt cfg (run cfg st ops) d j : Int) = stakeAt cfg st d j + ledger cfg st ops d j := by
  induction ops generalizing st with
  | nil => simp [run, ledger]
  | cons o ops ih =>
    cases o with
    | tx t =>
      obtain ⟨hok, hts, hrest⟩ := hside
      have hi0 := (runTx_preserves cfg U st t hc hraw hsome hs hn hinv hok hts).1
      have hf := pkAfter_fields t (runTx cfg st t)
      have hi := (inv_wealth_congr cfg U _ (pkAfter t (runTx cfg st t)).2 hf.2.1 hf.2.2.2.1 hf.2.2.2.2.1 hf.2.2.2.2.2.1 hi0).1
      have h1 := stake_accounting_step cfg U st t hs hinv hts d j hj
      have h2 := ih (pkAfter t (runTx cfg st t)).2 hi hrest
      simp only [run, List.foldl_cons, step, ledger] at h2 ⊢
      rw [h2, stakeAt_of_live cfg _ _ hf.2.1, h1]; omega
    | endBlock n =>
      have hi := (endBlock_preserves cfg U st n hinv).1
      have h2 := ih (endBlock st n) hi hside
      simp only [run, List.foldl_cons, step, ledger] at h2 ⊢
      rw [h2, stakeAt_of_live cfg st _ (endBlock_live st n)]

/-- From an empty registry: record stake = applied + added − refunded. -/
theorem stake_accounting_from_genesis (cfg : Cfg) (U : List Bytes) (h : Nat) (bal : List (Bytes × Nat)) (ops : List Op)
    (hc : CodecId cfg) (hraw : RawOK cfg) (hsome : CodecSome cfg) (hs : SepU cfg U) (hn : U.Nodup)
    (hside : RunSide cfg U { State.empty h with bal := bal } ops) (d : DbId) (j : Bytes) (hj : j ∈ U) :
    (stakeAt cfg (run cfg { State.empty h with bal := bal } ops) d j : Int)
      = ledger cfg { State.empty h with bal := bal } ops d j := by
  rw [stake_accounting_run cfg U _ ops hc hraw hsome hs hn (inv_genesis cfg U h bal) hside d j hj]
  simp [stakeAt, State.empty, Store.get, u64]

example : ledger toyCfg funded demoOps .val [0x11] = 800 + 7 - 100 ∧
    stakeAt toyCfg (run toyCfg funded demoOps) .val [0x11] = 707 := by decide

/-! ## the stake opcodes mutate the same registry -/

def stOpcode : State := run toyCfg funded [.tx (.apply addr1 [0x11] 1 2500 addr2 [1] [1]), .endBlock 101]

/-- Conservation for the UNSTAKE opcode, as the property would have it. -/
def FullStatementUnstakeOpcodeConserves : Prop :=
  ∀ cfg st origin contract money U, CodecId cfg → RawOK cfg → C20.Reachable cfg st →
    wealth cfg U (vmUnstake cfg st origin contract money) = wealth cfg U st

/-- False of the code (known finding `unstake-opcode-escrows-untruncated-amount`): UNSTAKE of 1.5 tokens lowers
    the stake by 1 token and escrows 1.5. -/
theorem unstake_opcode_counterexample : ¬ FullStatementUnstakeOpcodeConserves := by
  intro h
  have hr : C20.Reachable toyCfg stOpcode :=
    ⟨100, _, [.tx (.apply addr1 [0x11] 1 2500 addr2 [1] [1]), .endBlock 101], by
      intro o ho
      simp only [List.mem_cons, List.not_mem_nil, or_false] at ho
      rcases ho with rfl | rfl
      · exact ⟨by decide, by decide⟩
      · trivial, rfl⟩
  have := h toyCfg stOpcode addr1 addr2 (15 * 10 ^ 17) [[0x11]] toy_codecId toy_rawOK hr
  exact absurd this (by decide)

/-- What the opcode does do (model = code, T-corr): stake −1, escrow for the origin +1.5·10^18. -/
example : stakeAt toyCfg (vmUnstake toyCfg stOpcode addr1 addr2 (15 * 10 ^ 17)) .prop [0x11] = 2499 ∧
    (vmUnstake toyCfg stOpcode addr1 addr2 (15 * 10 ^ 17)).escOf (101 + refundDelay) addr1 = 15 * 10 ^ 17 := by decide

/-! ## the public-key cache (a store outside the journal) follows the registry -/

/-- A rejected transaction leaves the key cache alone … -/
theorem pk_rejected_unchanged (tx : Tx) (r : String × State) (h : r.1 ≠ "ok") : (pkAfter tx r).2 = r.2 := by
  cases tx <;> simp [pkAfter, h]

/-- … so the whole step (account state AND key cache) of a rejected transaction changes nothing but the fee. -/
theorem rejected_step_only_fee (cfg : Cfg) (st : State) (tx : Tx) (h : (runTx cfg st tx).1 ≠ "ok") :
    step cfg st (.tx tx) = st ∨ processFee st tx.src = some (step cfg st (.tx tx)) := by
  simp only [step]
  rw [pk_rejected_unchanged tx _ h]
  exact C20.rejected_changes_only_fee cfg st tx h

/-- An accepted application makes `GetPubkey(id)` the applicant's public key. -/
theorem pk_accepted_apply (cfg : Cfg) (st : State) (src id : Bytes) (typ stake : Nat) (acct pk vrf : Bytes)
    (h : (runTx cfg st (.apply src id typ stake acct pk vrf)).1 = "ok") :
    (step cfg st (.tx (.apply src id typ stake acct pk vrf))).pkOf id = some pk := by
  simp [step, pkAfter, h, State.pkOf, State.putPk, List.lookup]

/-- No other transaction kind, and no application of another id, changes the key cached for `j`. -/
theorem pk_frame (cfg : Cfg) (st : State) (tx : Tx) (j : Bytes) (hj : j ≠ txTarget tx)
    (hpk : (runTx cfg st tx).2.pk = st.pk) : (step cfg st (.tx tx)).pkOf j = st.pkOf j := by
  cases tx with
  | apply src id typ stake acct pk vrf =>
    simp only [txTarget] at hj
    simp only [step, pkAfter]
    split
    · have : (j == id) = false := by simpa using hj
      simp [State.pkOf, State.putPk, List.lookup, this, hpk]
    · simp [State.pkOf, hpk]
  | add => simp [step, pkAfter, State.pkOf, hpk]
  | refund => simp [step, pkAfter, State.pkOf, hpk]
  | chacc => simp [step, pkAfter, State.pkOf, hpk]
  | bad => simp [step, pkAfter, State.pkOf, hpk]

example : (run toyCfg funded [.tx (.apply addr1 [0x11] 0 800 [] [7] [1]), .tx (.apply addr2 [0x11] 0 800 [] [9] [1])]).pkOf [0x11]
    = some [7] := by decide

/-- "After any history — including executed-and-discarded blocks — the cached public key of a registered miner
    is the one in its registry record": what the consensus layer relies on when it reads `GetPubkey`. -/
def FullStatementPkCacheFollowsRegistry : Prop :=
  ∀ cfg committed st d id info, getMinerById cfg (rewind committed st) d id ≠ none →
    cfg.dec (((rewind committed st).live d).get id) = some info → (rewind committed st).pkOf id = some info.pk

def stCommitted : State := run toyCfg funded [.tx (.apply addr1 [0x11] 0 800 [] [7] [1]), .endBlock 101]
def stDiscarded : State := run toyCfg stCommitted [.tx (.refund addr1 [0x11] maxU64), .tx (.apply addr1 [0x11] 0 800 [] [9] [1])]

/-- False of the code (finding `pkcache-keeps-discarded-block`): the cache is written during block execution and
    is not rolled back with the block. Witness: miner 0x11 registered with key 07; a discarded block refunds it
    completely and re-applies it with key 09: the registry is back to the committed record, `GetPubkey` says 09.
    (`toyCfg` decodes every record with key 01, which 09 does not equal either.) -/
theorem pk_cache_counterexample : ¬ FullStatementPkCacheFollowsRegistry := by
  intro h
  have hp : getMinerById toyCfg (rewind stCommitted stDiscarded) .val [0x11] ≠ none := by decide
  obtain ⟨info, hinfo⟩ : ∃ info, toyCfg.dec (((rewind stCommitted stDiscarded).live .val).get [0x11]) = some info :=
    Option.isSome_iff_exists.mp (by decide)
  have := h toyCfg stCommitted stDiscarded .val [0x11] info hp hinfo
  have hk : (rewind stCommitted stDiscarded).pkOf [0x11] = some [9] := by decide
  have hpk : (toyCfg.dec (((rewind stCommitted stDiscarded).live .val).get [0x11])).map (·.pk) = some [1] := by decide
  rw [hinfo] at hpk
  rw [hk] at this
  simp only [Option.map_some, Option.some.injEq] at hpk this
  rw [hpk] at this
  exact absurd this (by decide)

example : stCommitted.pkOf [0x11] = some [7] ∧ (rewind stCommitted stDiscarded).pkOf [0x11] = some [9] := by decide

/-- What rewinding does and does not touch. -/
theorem rewind_spec (committed st : State) :
    (rewind committed st).live = committed.live ∧ (rewind committed st).bal = committed.bal ∧
    (rewind committed st).escrow = committed.escrow ∧ (rewind committed st).pending = committed.pending ∧
    (rewind committed st).pk = st.pk := ⟨rfl, rfl, rfl, rfl, rfl⟩

/-! ## what the consensus layer reads (consensus/access/miner_access.go) -/

/-- `GetCandidateMiners(h)` on a committed, well-keyed state returns exactly registered validators: each candidate is
    the record `GetMinerById` returns for its id, is not aborted, is of validator type and was applied before `h`. -/
theorem candidates_are_registered (cfg : Cfg) (st : State) (h : Nat) (m : Miner) (hf : Flushed st) (hr : RecKeyed cfg st)
    (hm : m ∈ candidates cfg st h) :
    getMinerById cfg st .val m.id = some m ∧ m.status ≠ statusAbort ∧ m.typ = typeValidator ∧ m.applyHeight < h := by
  unfold candidates at hm
  obtain ⟨hmem, hp⟩ := List.mem_filter.mp hm
  have hp' : m.status ≠ statusAbort ∧ m.typ = typeValidator ∧ m.applyHeight < h := by simpa using hp
  exact ⟨iter_to_id cfg st .val m hf hr hmem, hp'⟩

/-- … and every such registered validator is a candidate (nothing is dropped). -/
theorem registered_are_candidates (cfg : Cfg) (st : State) (h : Nat) (id : Bytes) (m : Miner) (hf : Flushed st) (hr : RecKeyed cfg st)
    (hm : getMinerById cfg st .val id = some m) (hs : m.status ≠ statusAbort) (ht : m.typ = typeValidator) (ha : m.applyHeight < h) :
    m ∈ candidates cfg st h := by
  unfold candidates
  exact List.mem_filter.mpr ⟨id_to_iter cfg st .val id m hf hr hm, by simp [hs, ht, ha]⟩

/-- "The consensus readers answer on every committed state." -/
def FullStatementReadersTotal : Prop :=
  ∀ cfg st, CodecId cfg → RawOK cfg → C20.Reachable cfg st → candidatesPanic cfg st = false

/-- False of the code (finding `reader-panics-on-long-id`): ids are free-form; a registered validator whose id needs
    more than 32 bytes makes `convert2MinerDO` → `ID.Serialize` panic inside `GetCandidateMiners`. -/
theorem readers_total_counterexample : ¬ FullStatementReadersTotal := by
  intro h
  let longId : Bytes := List.replicate 33 0x33
  let ops : List Op := [.tx (.apply addr1 longId 0 400 [] [1] [1]), .endBlock 101]
  have hr : C20.Reachable toyCfg (run toyCfg funded ops) :=
    ⟨100, _, ops, by
      intro o ho
      simp only [ops, List.mem_cons, List.not_mem_nil, or_false] at ho
      rcases ho with rfl | rfl
      · exact ⟨by decide, by decide⟩
      · trivial, rfl⟩
  exact absurd (h toyCfg _ toy_codecId toy_rawOK hr) (by decide)

/-! ## status follows the stake -/

/-- `AddStake` decides the status on the NEW stake: what it writes into the status slot is `normal` exactly
    when the topped-up stake is strictly above the minimum (else the old status). -/
theorem addStake_status_on_new_stake (cfg : Cfg) (st : State) (p : Bytes) (m : Miner) (delta : Nat) :
    ((addStakeApply cfg st p m delta).live (dbOfType m.typ)).get (slotStatus cfg m.id)
      = [UInt8.ofNat (if reactivates m.typ ((m.stake + delta) % 2 ^ 64) then statusNormal else m.status)] := by
  simp only [addStakeApply, updateMiner, write_get, and_self, if_true]

/-- "The status of a record is what a fresh application with the same stake would have." -/
def FullStatementStatusFollowsStake : Prop :=
  ∀ cfg st d id m, CodecId cfg → RawOK cfg → C20.Reachable cfg st → getMinerById cfg st d id = some m →
    ∀ ms, minStake m.typ = some ms → (m.status = statusNormal ↔ ms ≤ m.stake)

/-- False of the code (finding `reactivation-needs-more-than-minimum`): topping an aborted miner up to exactly
    the minimum leaves it aborted (`>`), while an application with exactly the minimum is accepted (`≥`). -/
theorem status_follows_stake_counterexample : ¬ FullStatementStatusFollowsStake := by
  intro h
  let ops : List Op := [.tx (.apply addr1 [0x11] 1 2000 [] [1] [1]), .endBlock 101, .tx (.refund addr1 [0x11] 1),
    .endBlock 102, .tx (.add addr1 [0x11] 1)]
  have hr : C20.Reachable toyCfg (run toyCfg funded ops) :=
    ⟨100, _, ops, by
      intro o ho
      simp only [ops, List.mem_cons, List.not_mem_nil, or_false] at ho
      rcases ho with rfl | rfl | rfl | rfl | rfl
      · exact ⟨by decide, by decide⟩
      all_goals trivial, rfl⟩
  obtain ⟨m, hm⟩ : ∃ m, getMinerById toyCfg (run toyCfg funded ops) .prop [0x11] = some m :=
    Option.isSome_iff_exists.mp (by decide)
  have hst : (getMinerById toyCfg (run toyCfg funded ops) .prop [0x11]).map (fun m => (m.typ, m.stake, m.status)) = some (1, 2000, 1) := by
    decide
  rw [hm] at hst
  simp only [Option.map_some, Option.some.injEq, Prod.mk.injEq] at hst
  have := h toyCfg _ .prop [0x11] m toy_codecId toy_rawOK hr hm 2000 (by rw [hst.1]; decide)
  rw [hst.2.1, hst.2.2] at this
  exact absurd (this.mpr (Nat.le_refl _)) (by decide)

end Rangers.Props.C20B
