import Rangers.Props.C11D
import Rangers.Props.C11E
/-!
# C11 — trace-level invariants: every state of every frame the loop reaches

`runLoopG` is `runLoop` with an **assertion at the head of every iteration**: the frame
must satisfy `frameOk prev fr` — gas not above the gas at the previous iteration of this
frame (`prev`), gas below 2^64, at most 1024 stack words, memory word-aligned, below the
guard and fully paid (`lastGasCost = Cmem(size/32)`).  A failed assertion makes the
guarded loop return `none`.  `trace_invariants` proves that from any frame satisfying the
assertion the guarded loop returns `some` of exactly what `runLoop` returns: no assertion
ever fails, at any iteration, for any code, oracle, fuel, fork configuration.  Nested
frames are covered because the theorem holds for *every* frame and fuel, and every frame
`evm.Call/Create` starts is a fresh one (`frameOk_fresh`).
-/
namespace Rangers.Props.C11F
open Rangers.Evm11 Rangers.Props.C11 Rangers.Props.C11B Rangers.Props.C11C Rangers.Props.C11D Rangers.Props.C11E

/-- the per-iteration assertion; `gas0` is the gas the frame started with, `mag` the Proposal026
    magnification: the last clause says the gas spent so far covers the full quadratic fee of the
    memory the frame holds now -/
def frameOk (mag gas0 prev : Nat) (fr : Frame) : Prop :=
  fr.gas ≤ prev ∧ fr.gas < 2 ^ 64 ∧ fr.stack.length ≤ 1024 ∧ MemInv fr.mem ∧
  fr.gas + cmem (fr.mem.size / 32) * mag ≤ gas0

def magOf (cx : Ctx) : Nat := if cx.gc.p26 then 30 else 1

instance (mag gas0 prev : Nat) (fr : Frame) : Decidable (frameOk mag gas0 prev fr) := by
  unfold frameOk
  have : Decidable (MemInv fr.mem) :=
    if h : fr.mem.size % 32 = 0 ∧ fr.mem.size ≤ 0x1FFFFFFFE0 ∧ fr.mem.lastGasCost = cmem (fr.mem.size / 32) then
      isTrue ⟨h.1, h.2.1, h.2.2⟩
    else isFalse (fun hm => h ⟨hm.aligned, hm.bounded, hm.paid⟩)
  infer_instance

/-- `finishStep` whose continuation may report a failed assertion -/
def finishStepG (info : OpInfo) (cont : Frame → Global → Option RunRes) (fr2 : Frame) (res : BA) (g2 : Global) : Option RunRes :=
  let g3 := if info.returns then { g2 with rd := res } else g2
  if info.reverts then some ⟨res, some .reverted, fr2.gas, g3⟩
  else if info.halts then some ⟨res, none, fr2.gas, g3⟩
  else cont (if info.jumps then fr2 else { fr2 with pc := fr2.pc + 1 }) g3

/-- `runLoop` with the assertion `frameOk prev fr` at the head of every iteration
    (`prev` = the gas this frame had one iteration earlier) -/
def runLoopG (cx : Ctx) (gas0 : Nat) : (fuel : Nat) → (depth : Nat) → (ro : Bool) → Frame → Global → (prev : Nat) → Option RunRes
  | 0, _, _, fr, g, prev => if frameOk (magOf cx) gas0 prev fr then some ⟨#[], some .outOfFuel, fr.gas, g⟩ else none
  | fuel + 1, depth, ro, fr, g, prev =>
    if ¬ frameOk (magOf cx) gas0 prev fr then none else
    match stepPre cx ro fr (g.observe depth fr.stack.length) with
    | .fault e g' => some ⟨#[], some e, fr.gas, g'⟩
    | .ok info fr1 args g1 cgt =>
      match execOp cx ro info.exec fr1 args g1 cgt with
      | .fault e g2 => some ⟨#[], some e, fr1.gas, g2⟩
      | .upd u =>
        finishStepG info (fun fr3 g3 => runLoopG cx gas0 fuel depth ro fr3 g3 fr.gas)
          { fr1 with stack := u.push ++ fr1.stack, mem := u.mem, pc := u.pc, authorized := u.authorized } u.res u.g
      | .invoke req deduct g2 =>
        let fr2 := { fr1 with gas := fr1.gas - deduct }
        let cr := doInvoke cx (runLoop cx fuel) depth ro fr2 req g2
        if isAbortErr cr.err then some ⟨#[], cr.err, fr2.gas, cr.g⟩
        else finishStepG info (fun fr3 g3 => runLoopG cx gas0 fuel depth ro fr3 g3 fr.gas)
          (resume fr2 req cr).1 (resume fr2 req cr).2 cr.g

theorem finishStepG_eq (info : OpInfo) (contG : Frame → Global → Option RunRes) (cont : Frame → Global → RunRes)
    (fr2 : Frame) (res : BA) (g2 : Global)
    (h : ∀ fr3 g3, fr3.gas = fr2.gas → fr3.stack = fr2.stack → fr3.mem = fr2.mem → contG fr3 g3 = some (cont fr3 g3)) :
    finishStepG info contG fr2 res g2 = some (finishStep info cont fr2 res g2) := by
  unfold finishStepG finishStep
  simp only
  split
  · rfl
  · split
    · rfl
    · apply h <;> (split <;> rfl)

/-- every frame `evm.Call / CallCode / DelegateCall / StaticCall / create` starts satisfies the assertion -/
theorem frameOk_fresh (mag : Nat) (code : BA) (gas self caller : Nat) (value : Word) (input : BA) (h : gas < 2 ^ 64) :
    frameOk mag gas gas (mkFrame code gas self caller value input) := by
  refine ⟨Nat.le_refl _, h, by simp [mkFrame], memInv_empty, ?_⟩
  simp [mkFrame, Mem.empty, Mem.size, cmem]

theorem resume_mem_size (fr : Frame) (r : Req) (cr : CallRes) : (resume fr r cr).1.mem.size = fr.mem.size := by
  cases r with
  | call k a v i gas ro rs io =>
    simp only [resume]
    split
    · exact memWrite_size _ _ _ _
    · rfl
  | create s v i gas => simp [resume]
  | authcall au a v i gas ro rs =>
    simp only [resume]
    split
    · exact memWrite_size _ _ _ _
    · rfl

/-- what a nested call / create is given never exceeds what was deducted plus what its gas function
    charged as forwarded gas (and the stipend of a value-bearing CALL / CALLCODE) -/
theorem invoke_fwd (cx : Ctx) (fr : Frame) (g : Global) (info : OpInfo) (fr1 : Frame) (args : List Word)
    (g1 : Global) (cgt : Nat) (req : Req) (d : Nat)
    (hp : PreOk cx fr g info fr1 args g1 cgt) (ha : entryAll info = true)
    (hi : InvokeOk info.exec fr1 args cgt req d) :
    reqGas req ≤ d + (if usesMem info.dyn then cgt + stipendOf info.dyn fr.stack else 0) := by
  unfold entryAll at ha
  simp only [Bool.and_eq_true, decide_eq_true_eq] at ha
  obtain ⟨⟨⟨⟨⟨⟨⟨⟨⟨_, _⟩, _⟩, _⟩, _⟩, _⟩, hcd⟩, _⟩, _⟩, _⟩ := ha
  rcases hi with ⟨_, _, hrg, _⟩ | ⟨k, he, hd, _, hrg⟩ | ⟨he, hd, hrg⟩
  · omega
  · have hdynk : (k = .call → info.dyn = .call) ∧ (k = .callcode → info.dyn = .callcode) ∧
        (k = .delegatecall → info.dyn = .delegatecall) ∧ (k = .staticcall → info.dyn = .staticcall) := by
      unfold entryCallDyn at hcd
      rw [he] at hcd
      cases k <;> simp at hcd <;> simp [hcd]
    have hargs2 : args.getD 2 0 = back fr.stack 2 := by
      rw [hp.argsEq, he]; unfold back; exact getD_take_lt _ _ _ (by cases k <;> simp [Exec.pops])
    have hum : usesMem info.dyn = true := by
      cases k
      · rw [hdynk.1 rfl]; rfl
      · rw [hdynk.2.1 rfl]; rfl
      · rw [hdynk.2.2.1 rfl]; rfl
      · rw [hdynk.2.2.2 rfl]; rfl
    rw [hum, hd]
    simp only [if_true]
    rcases hrg with hrg | ⟨hrg, hk, hv⟩
    · omega
    · have := wadd_le cgt 2300
      rw [hargs2] at hv
      have hs : stipendOf info.dyn fr.stack = 2300 := by
        rcases hk with hk | hk
        · rw [hdynk.1 hk]; simp [stipendOf, hv]
        · rw [hdynk.2.1 hk]; simp [stipendOf, hv]
      omega
  · have hdn : info.dyn = .authcall := by
      unfold entryCallDyn at hcd
      rw [he] at hcd
      simpa using hcd
    rw [hdn, hd, hrg]
    simp [usesMem]

/-- **trace_invariants.** From any frame satisfying the assertion, the loop with an assertion
    at every iteration head never fails an assertion and computes exactly what `runLoop`
    computes: at *every* iteration of *every* run — gas has not increased since the previous
    iteration of the frame (also across a nested call or create), the stack has at most 1024
    words, memory is word aligned, below the guard and paid for in full, and **cumulatively**:
    the gas the frame has spent since it started (`gas0 − gas`, which includes what nested frames
    kept) is at least `Cmem(current memory words) × magnification` — every byte of memory the
    frame ever grew has been charged. -/
theorem trace_invariants (cx : Ctx) (ht : TableOk cx.table) :
    ∀ (gas0 fuel depth : Nat) (ro : Bool) (fr : Frame) (g : Global) (prev : Nat), frameOk (magOf cx) gas0 prev fr →
      runLoopG cx gas0 fuel depth ro fr g prev = some (runLoop cx fuel depth ro fr g) := by
  intro gas0 fuel
  induction fuel with
  | zero =>
    intro depth ro fr g prev hok
    unfold runLoopG runLoop
    rw [if_pos hok]
  | succ fuel ih =>
    intro depth ro fr g prev hok
    obtain ⟨_, hlt, hst, hmi, hpaid⟩ := hok
    unfold runLoopG runLoop
    rw [if_neg (by simp only [Decidable.not_not]; exact ⟨by assumption, hlt, hst, hmi, hpaid⟩)]
    have hmono : ∀ a b : Nat, a ≤ b → cmem a ≤ cmem b := by
      intro a b hab
      have := sq_le hab
      unfold cmem; omega
    cases hpre : stepPre cx ro fr (g.observe depth fr.stack.length) with
    | fault e g' => rfl
    | ok info fr1 args g1 cgt =>
      simp only
      have hp := stepPre_ok _ _ _ _ _ _ _ _ _ hpre
      have ha := ht _ _ hp.entry
      obtain ⟨memorySize, cost, m', hdyn, hgas, _, _⟩ := hp.dyn
      have hf1 : fr1.gas ≤ fr.gas := by omega
      have hsb := stack_bounded_step cx ht ro fr _ info fr1 args g1 cgt hpre
      have hmp := memory_paid_step cx ht ro fr _ info fr1 args g1 cgt hmi hpre
      have hargs : args.length = info.exec.pops := by
        rw [hp.argsEq]
        have hso : info.minStack = info.exec.pops := by
          unfold entryAll entryStackOk at ha
          simp only [Bool.and_eq_true, beq_iff_eq] at ha
          exact ha.1.1.1.1.1.1.1.1.2.1
        have := hp.minOk
        simp; omega
      cases hex : execOp cx ro info.exec fr1 args g1 cgt with
      | fault e g2 => rfl
      | upd u =>
        simp only
        apply finishStepG_eq
        intro fr3 g3 hg3 hs3 hm3
        apply ih
        have hu := execOp_upd _ _ _ _ _ _ _ _ hargs hex
        refine ⟨by rw [hg3]; exact hf1, by rw [hg3]; simp only; omega, ?_, ?_, ?_⟩
        · rw [hs3]; exact hsb.1 u hex
        · rw [hm3]; exact memory_inv_execute cx ro info.exec fr1 args g1 cgt u hargs hmp.1 hex
        · rw [hg3, hm3]
          simp only
          rw [hu.2.1]
          have hm1 := hmono _ _ (Nat.div_le_div_right (c := 32) hmp.2.1)
          have h3 := hmp.2.2
          unfold magOf at hpaid ⊢
          rcases Bool.eq_false_or_eq_true cx.gc.p26 with h26 | h26 <;> simp only [h26, Bool.false_eq_true, if_false, if_true] at * <;> omega
      | invoke req deduct g2 =>
        have hi := execOp_invoke _ _ _ _ _ _ _ _ _ _ hex
        obtain ⟨hd, hchild, hback, hpush, hpops⟩ := invoke_gas cx fr _ info fr1 args g1 cgt req deduct hp ha hlt hi
        have hrunA : GoodRun (fun _ => True) (runLoop cx fuel) (reqGas req) := by
          intro d ro' fr' g' hg' _
          exact ⟨(run_main cx ht fuel d ro' fr' g' (by omega)).1, trivial⟩
        have hcrA := doInvoke_good errPred_true cx hrunA depth ro { fr1 with gas := fr1.gas - deduct } req g2 (Nat.le_refl _)
        simp only
        split
        · rfl
        · have hrs := resume_spec { fr1 with gas := fr1.gas - deduct } req
            (doInvoke cx (runLoop cx fuel) depth ro { fr1 with gas := fr1.gas - deduct } req g2)
          simp only at hrs
          have hwl := wadd_le (fr1.gas - deduct) (doInvoke cx (runLoop cx fuel) depth ro { fr1 with gas := fr1.gas - deduct } req g2).gas
          have hwlt := wadd_lt (fr1.gas - deduct) (doInvoke cx (runLoop cx fuel) depth ro { fr1 with gas := fr1.gas - deduct } req g2).gas
          have hcg := hcrA.1
          apply finishStepG_eq
          intro fr3 g3 hg3 hs3 hm3
          apply ih
          have hfwd := invoke_fwd cx fr _ info fr1 args g1 cgt req deduct hp ha hi
          have hrm := resume_mem_size { fr1 with gas := fr1.gas - deduct } req
            (doInvoke cx (runLoop cx fuel) depth ro { fr1 with gas := fr1.gas - deduct } req g2)
          refine ⟨by rw [hg3, hrs.1]; omega, by rw [hg3, hrs.1]; exact hwlt, ?_, ?_, ?_⟩
          · rw [hs3]; exact hsb.2 req deduct g2 _ hex
          · rw [hm3]
            exact memory_inv_resume { fr1 with gas := fr1.gas - deduct } req _ hmp.1
          · rw [hg3, hm3, hrs.1, hrm]
            simp only
            have hm1 := hmono _ _ (Nat.div_le_div_right (c := 32) hmp.2.1)
            have h3 := hmp.2.2
            unfold magOf at hpaid ⊢
            rcases Bool.eq_false_or_eq_true cx.gc.p26 with h26 | h26 <;> simp only [h26, Bool.false_eq_true, if_false, if_true] at * <;> omega

/-- the same for the 8 generated tables, started from a fresh frame -/
theorem trace_invariants_fresh (cx : Ctx) (hcx : GenCtx cx) (fuel depth : Nat) (ro : Bool)
    (code : BA) (gas self caller : Nat) (value : Word) (input : BA) (g : Global) (h : gas < 2 ^ 64) :
    runLoopG cx gas fuel depth ro (mkFrame code gas self caller value input) g gas
      = some (runLoop cx fuel depth ro (mkFrame code gas self caller value input) g) :=
  trace_invariants cx (genCtx_tableOk hcx) gas fuel depth ro _ g gas (frameOk_fresh _ code gas self caller value input h)

/-- the assertion is not vacuous: a frame whose gas exceeds `prev` is rejected at once -/
example (cx : Ctx) (depth : Nat) (ro : Bool) (g : Global) :
    runLoopG cx 100 5 depth ro (mkFrame #[0x5b] 100 0 0 0 #[]) g 99 = none := by
  unfold runLoopG
  rw [if_pos]
  intro h
  exact absurd h.1 (by simp [mkFrame])

end Rangers.Props.C11F
