import Rangers.Model.ChainStore
import Rangers.Generated.C05Facts
/-!
# C05 — facts re-extracted from the source on every run (T-gen)

`Rangers.Generated.C05Facts` is rewritten by `gen/cmd/c05facts` from `src/core/*.go` of the working tree.
The theorems below are closed computations over those generated lists: a moved statement in
`insertBlock` / `remove` / `ensureChainConsistency`, a cache eviction with the wrong key, a new caller of a
block-adding or block-removing function, or a new direct writer of an index store makes one of them false.
-/
namespace Rangers.Props.C05Facts
open Rangers.Model.ChainStore Rangers.Generated.C05Facts

/-- name of a write token, as the correspondence prints it (without block labels) -/
def tokName : Write → String
  | .putAddMark _ => "am" | .delAddMark => "-am" | .putRemoveMark _ => "rm" | .delRemoveMark => "-rm"
  | .putBlock _ => "bh" | .delBlock _ => "-bh" | .putHeight _ _ => "hh" | .delHeight _ => "-hh"
  | .putVerify _ => "vh" | .delVerify _ => "-vh" | .putCurrent _ => "cur" | .commitState _ => "st"
  | .putExecuted _ _ => "tx" | .delExecuted _ => "-tx"

/-- the physical writes each source-level call of `insertBlock` / `remove` stands for (memory-only calls: none);
    an unknown call maps to a token no model write has -/
def callTok (c : String) : List String :=
  if c = "markAddBlock" then ["am"] else if c = "saveBlockByHash" then ["bh"]
  else if c = "saveBlockByHeight" then ["hh"] else if c = "saveStates" then ["st"]
  else if c = "updateVerifyHash" then ["vh"] else if c = "updateTxPool" then ["tx"]
  else if c = "topBlocks.Add(remoteBlock.Header.Height, remoteBlock.Header)" then []
  else if c = "updateLastBlock" then ["cur"] else if c = "eraseAddBlockMark" then ["-am"]
  else if c = "successOnChainCallBack" then []
  else if c = "getReceipts" then [] else if c = "markRemoveBlock" then ["rm"]
  else if c = "hashDB.Delete(hash.Bytes())" then ["-bh"]
  else if c = "heightDB.Delete(generateHeightKey(height))" then ["-hh"]
  else if c = "verifyHashDB.Delete(utility.UInt64ToByte(height))" then ["-vh"]
  else if c = "topBlocks.Remove(height)" then [] else if c = "verifiedBlocks.Remove(hash)" then []
  else if c = "queryBlockByHash" then []
  else if c = "heightDB.Put([]byte(latestBlockKey), preHeaderByte)" then ["cur"]
  else if c = "transactionPool.UnMarkExecuted(block)" then ["-tx"]
  else if c = "eraseRemoveBlockMark" then ["-rm"] else if c = "notifyRemovedLogs" then []
  else ["?" ++ c]

def sampleG : Block := { hash := 1, pre := 0, height := 0, totalQN := 0, pv := 0, txs := [], valid := true }
def sampleB : Block := { hash := 2, pre := 1, height := 1, totalQN := 1, pv := 1, txs := [7], valid := true }
/-- the model inserting a one-transaction block on genesis … -/
def sampleInserted : St := insertB (insertA (genesisState sampleG) sampleB) sampleB
/-- … and removing it again -/
def sampleRemoved : St := (remove (sampleInserted.arm none) sampleB).1

/-- The pool is updated (executed marks written) before the recorded head moves and before the add mark is
    erased — the order `inv_crash_pool` depends on. -/
theorem txpool_before_head_and_mark :
    insertBlockCalls.idxOf "updateTxPool" < insertBlockCalls.idxOf "updateLastBlock" ∧
    insertBlockCalls.idxOf "updateLastBlock" < insertBlockCalls.idxOf "eraseAddBlockMark" ∧
    insertBlockCalls.idxOf "markAddBlock" = 0 ∧ insertBlockCalls.idxOf "eraseAddBlockMark" < insertBlockCalls.length := by
  decide

/-- The write sequence of the model's `insertBlock` IS the source's statement order (memory-only statements
    may move between the writes, every call must be a known one). -/
theorem insert_order_is_model :
    (insertBlockCalls.map callTok).flatten = sampleInserted.log.reverse.map tokName := by decide

/-- `remove` evicts the height-keyed cache by height and the hash-keyed cache by hash (wherever among the
    memory-only statements; a call with any other argument is unknown to `callTok` and breaks
    `remove_order_is_model`). -/
theorem cache_eviction_keys :
    "topBlocks.Remove(height)" ∈ removeCalls ∧ "verifiedBlocks.Remove(hash)" ∈ removeCalls ∧
    "topBlocks.Add(remoteBlock.Header.Height, remoteBlock.Header)" ∈ insertBlockCalls := by decide

/-- The write sequence of the model's `remove` IS the source's statement order (memory-only statements may
    move between the writes, every call must be a known one). -/
theorem remove_order_is_model :
    (removeCalls.map callTok).flatten = sampleRemoved.log.reverse.map tokName := by decide

/-- start-up repair: add mark first (remove, erase), then the remove mark, read after the first half ran -/
theorem ensure_order : ensureChainConsistencyCalls =
    ["hashDB.Get([]byte(addBlockMark))", "remove", "eraseAddBlockMark",
     "hashDB.Get([]byte(removeBlockMark))", "remove", "eraseRemoveBlockMark"] := by decide

/-- The LRU capacities the model assumes are the ones `initBlockChain` creates the caches with. -/
theorem cache_capacities :
    cacheCaps = [("topBlocks", "100"), ("futureBlocks", "100"), ("verifiedBlocks", toString verifiedCap),
                 ("verifiedBodyCache", "10")] ∧ toString topBlocksCacheSize = "100" := by decide

/-- The fork-configuration reads on the add / remove / repair path are exactly these: Proposal008 (the
    executed-transaction check, the model's `p008` flag, sessions run on both sides of it) and 020/023 in
    `verifyBlock`/`checkStates` (tx-root validation and the `setHash` rewrite, pinned on by the harness). A new
    `IsProposalNNN` branch on the path breaks this fact. -/
theorem flag_reads : flagReads =
    [("checkStates", "IsProposal020"), ("checkStates", "IsProposal023"),
     ("verifyBlock", "IsProposal008"), ("verifyBlock", "IsProposal020")] := by decide

/-- No function on the path assigns package-level state (all state is in the `blockChain` object, its stores
    and the pool): results cannot depend on process-local history through a package variable. -/
theorem no_global_writes : globalWrites = [] := by decide

/-- The sync fork switch drives the chain only through these calls (the model's `forkSwitch`:
    `removeFromCommonAncestor`, then per block `consensusVerify` + `addBlockOnChain` = `addBlock`). -/
theorem fork_switch_calls :
    triggerOnChainCalls = ["QueryBlockHeaderByHeight", "nextPvGreatThanFork", "removeFromCommonAncestor"] ∧
    tryAddBlockOnChainCalls = ["consensusVerify", "addBlockOnChain"] := by decide

/-- `chainPvGreatThanRemote` decides in this order: prove value greater → true, smaller → false, then hash
    greater → true, else false — the branch order and comparison operators of the model's `pvGreater` (operand
    order is tied by the direct stream `pure-functions`). -/
theorem pv_skeleton : chainPvGreatThanRemoteSkeleton =
    ["if (_ > 0)", "return true", "if (_ < 0)", "return false", "if (_ > 0)", "return true", "return false"] := by decide

/-- `getRequestIdFromTransactions`: running maximum with `>`, adopted only if non-zero and `>` the parent's
    — `requestIdFrom`. -/
theorem request_id_skeleton : getRequestIdFromTransactionsSkeleton =
    ["if ((nil != _) && (0 != _(_)))", "if (_.RequestId > _)", "if ((0 != _) && (_ > _[\"fixed\"]))", "return _"] := by decide

/-- `nextPvGreatThanFork`: both `<` guards on the common ancestor's height, both blocks present, else `true`. -/
theorem next_pv_skeleton : nextPvGreatThanForkSkeleton =
    ["if ((_ < _.latestBlock.Height) && (_ < _.latestBlock.Height))", "if ((_ != nil) && (_ != nil))",
     "return _(_,_.Header)", "return true"] := by decide

/-- `verifyBlock`'s guards in the model's order: cache hit → 0; no parent → (park) 2; Proposal008 executed check
    → -1; missing transactions → 1; header request id → -1; tx root (pre-020) → -1; `checkStates` → -1; 0. -/
theorem verify_skeleton : verifyBlockSkeleton =
    ["if _.verifiedBlocks.Contains(_.Hash)", "return nil,0", "if (nil == _)", "if (_ != nil)", "return nil,2",
     "if _.IsProposal008()", "if (_.transactionPool.GetExecuted(_.Hash) != nil)", "return nil,-1", "if _", "return _,1",
     "if (_[\"fixed\"] != _.RequestIds[\"fixed\"])", "return nil,-1",
     "if (!_.IsProposal020() && !_.validateTxRoot(_.TxTree,_))", "return nil,-1", "if !_", "return nil,-1",
     "if (_(_.Transactions) != 0)", "return nil,0"] := by decide

/-- `consensusVerify`: nil → failed; no parent → NoPreOnChain; already indexed → BlockExisted; then the two
    consensus checks (stubbed to accept in the harness) — the order of the model's `addBlock`. -/
theorem consensus_verify_skeleton : consensusVerifySkeleton =
    ["if (_ == nil)", "return _.AddBlockFailed,false", "if !_.hasPreBlock(*_.Header)", "return _.NoPreOnChain,false",
     "if (_.queryBlockHeaderByHash(_.Header.Hash) != nil)", "return _.BlockExisted,false", "if !_",
     "return _.DependOnGroup,false", "if !_", "if ((_ == _.ErrSelectGroupNil) || (_ == _.ErrSelectGroupInequal))",
     "return _.AddBlockFailed,false", "return _.ValidateBlockOk,true"] := by decide

def allowedCallers (callee : String) : List String :=
  if callee = "blockChain.insertBlock" then ["blockChain.addBlockOnChain"]
  else if callee = "blockChain.remove" then ["blockChain.removeFromCommonAncestor", "blockChain.ensureChainConsistency"]
  else if callee = "blockChain.ensureChainConsistency" then ["initBlockChain"]
  else if callee = "blockChain.addBlockOnChain" then
    ["blockChain.AddBlockOnChain", "blockChain.addBlockOnChain", "blockChain.successOnChainCallBack", "tryAddBlockOnChain"]
  else if callee = "blockChain.removeFromCommonAncestor" then ["blockChain.addBlockOnChain", "blockChainFork.triggerOnChain"]
  else if callee = "blockChain.AddBlockOnChain" then ["ChainHandler.newBlockHandler"]
  else []

/-- Every call site of a block-adding / block-removing function of `blockChain` in package core is one of the
    known ones, no receiver is of unknown type: `insertBlock` only from `addBlockOnChain`, `remove` only from
    `removeFromCommonAncestor` and start-up repair, `addBlockOnChain` only from the exported entry, its own
    re-entry, the orphan callback and the sync fork switch (`tryAddBlockOnChain`, which runs `consensusVerify`
    first). The sync fork switch (`blockChainFork.triggerOnChain`) also calls `removeFromCommonAncestor`
    directly: a second fork-choice path outside the property's quantifier (blocks delivered through the
    add-block entry point) and outside the theorems — listed here so that it stays the only one. -/
theorem callers_guarded : callers.all (fun p => (allowedCallers p.1).contains p.2) = true := by decide

def allowedWriters (w : String) : List String :=
  if w = "hashDB.Put" then ["blockChain.markAddBlock", "blockChain.markRemoveBlock", "blockChain.saveBlockByHash"]
  else if w = "hashDB.Delete" then ["blockChain.eraseAddBlockMark", "blockChain.eraseRemoveBlockMark", "blockChain.remove"]
  else if w = "heightDB.Put" then ["blockChain.remove", "blockChain.saveBlockByHeight", "blockChain.updateLastBlock"]
  else if w = "heightDB.Delete" then ["blockChain.remove"]
  else if w = "verifyHashDB.Put" then ["blockChain.updateVerifyHash"]
  else if w = "verifyHashDB.Delete" then ["blockChain.remove"]
  else []

/-- Only the functions the model accounts for write the three index stores. -/
theorem writers_inventory : writers.all (fun p => (allowedWriters p.1).contains p.2) = true := by decide

end Rangers.Props.C05Facts
