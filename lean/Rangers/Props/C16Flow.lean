import Rangers.Model.VrfFlow
import Rangers.Proofs.C16Bytes
import Rangers.Proofs.C16Vrf
import Rangers.Props.C16
import Rangers.Props.C16B
import Rangers.Props.C16Qn
import Rangers.Generated.C16Sites
import Rangers.Proofs.C16Sha
/-!
Property C16, part 10: the two ends of the flow — key generation and the proposer (`genProve`) — against the
verifier (`verifyBlockVRF`).
-/
namespace Rangers.Props.C16Flow
open Rangers Rangers.Model Rangers.Model.Vrf Rangers.Model.VrfFlow Rangers.Proofs.C16Vrf

/-- `expandSecret` of the concrete instance reads only the 32-byte seed half of the secret key. -/
theorem ed25519_expand_reads_seed (sk : Bytes) :
    VrfCurve.expandSecret sk = VrfCurve.expandSecret (sk.take 32) := by
  simp [VrfCurve.expandSecret, List.take_take]

/-- For EVERY generated key pair (no assumption relating pk and sk any more): proving succeeds and the
    proof verifies under the generated public key. (`prove_verifies` needed `pk = encode (x·B)` as a
    hypothesis; `GenerateKey` establishes it.) -/
theorem generated_key_proof_verifies {P : Type} [AddCommGroup P] (o : Ops P) (law : Lawful o)
    (hexp : ∀ sk, o.expandSecret sk = o.expandSecret (sk.take 32))
    (seed m : Bytes) (hseed : seed.length = 32) :
    ∃ pi, proveWith o (genKeyWith o seed).2 m = .ok pi ∧
      verifyWith o (genKeyWith o seed).1 pi m = .ok true := by
  have hlen : (genKeyWith o seed).2.length = 64 := by
    simp [genKeyWith, hseed, law.encode_len]
  have hdrop : (genKeyWith o seed).2.drop 32 = (genKeyWith o seed).1 := by
    simp only [genKeyWith]
    exact List.drop_left' hseed
  have htake : (genKeyWith o seed).2.take 32 = seed := by
    simp only [genKeyWith]
    exact List.take_left' hseed
  have hpk : (genKeyWith o seed).2.drop 32 =
      o.encode (o.smulBase (o.expandSecret (genKeyWith o seed).2).1) := by
    rw [hdrop, hexp (genKeyWith o seed).2, htake]
    rfl
  -- proving cannot fail: the length is 64 and the pk half decodes
  have hdec : o.decodeStrict ((genKeyWith o seed).2.drop 32) =
      some (o.smulBase (o.expandSecret (genKeyWith o seed).2).1) := by
    rw [hpk]; exact law.decode_encode _
  have hok : ∃ pi, proveWith o (genKeyWith o seed).2 m = .ok pi := by
    unfold proveWith
    simp only [hlen, ne_eq, not_true_eq_false, ↓reduceIte, hdec]
    exact ⟨_, rfl⟩
  obtain ⟨pi, hpi⟩ := hok
  refine ⟨pi, hpi, ?_⟩
  rw [← hdrop]
  exact Rangers.Props.C16.prove_verifies o law _ m pi hpk hpi

/-- non-vacuity on the lawful toy instance of `C16B` is immediate (`hexp` holds: its `expandSecret` is constant) -/
example : ∀ sk, Rangers.Props.C16B.toyOps.expandSecret sk = Rangers.Props.C16B.toyOps.expandSecret (sk.take 32) :=
  fun _ => rfl

/-- The fork threshold the node computes, for the three network configurations in the source. -/
theorem thresholds_of_networks :
    rewardBlocks = 36000 ∧
    Generated.C16Facts.proposal025.map (fun p => (p.1, threshold p.2)) =
      [("devNetChainConfig", 1000036000), ("mainNetChainConfig", 63347000), ("robinChainConfig", 77956000)] := by
  decide

/-- What the proposer returns it has itself checked: `genProve = ok π qn` means the proof was produced for the
    node-built message and the rule accepted it with that qn at the BASE height. -/
theorem genProve_ok_spec (P : Qn.Params) (thr : Nat) (sk rnd : Bytes) (ns : Int) (bh w t : Nat)
    (pi : Bytes) (qn : Nat) (h : genProve P thr sk rnd ns bh w t = .ok pi qn) :
    ∃ msg, VrfMsg.blockMsg rnd ns = some msg ∧ Vrf.prove sk msg = .ok pi ∧
      Qn.validateProve P thr pi bh w t = .res true (.val qn) := by
  unfold genProve at h
  split at h
  · cases h
  · rename_i msg hmsg
    split at h
    · cases h
    · rename_i pi' hpi
      split at h <;> cases h
      exact ⟨msg, hmsg, hpi, by assumption⟩

/-- Proposer/verifier agreement: a block cast from `genProve`'s output is accepted by `verifyBlockVRF`
    (header value = big integer of the proof, `TotalQN = qn + pre.TotalQN`, message rebuilt by the verifier
    from the same random and time) — PROVIDED the rule gives the same answer at the block's height as at
    the base height the proposer used, and the proof verifies (completeness, `generated_key_proof_verifies`). -/
theorem genProve_block_accepted (P : Qn.Params) (thr : Nat) (pk sk rnd : Bytes) (ns : Int)
    (bh h w t pre : Nat) (pi : Bytes) (qn : Nat)
    (hg : genProve P thr sk rnd ns bh w t = .ok pi qn)
    (hver : ∀ msg, Vrf.prove sk msg = .ok pi → Vrf.verify pk pi msg = .ok true)
    (hsame : Qn.validateProve P thr pi h w t = Qn.validateProve P thr pi bh w t) :
    ∃ msg, VrfMsg.blockMsg rnd ns = some msg ∧
      Qn.verifyBlockVRF P thr pk (Vrf.toBig pi) msg h w t ((qn + pre) % Qn.two64) pre = .ok := by
  obtain ⟨msg, hmsg, hpi, hq⟩ := genProve_ok_spec P thr sk rnd ns bh w t pi qn hg
  refine ⟨msg, hmsg, ?_⟩
  have hlen : pi.length = Vrf.proveSize := Rangers.Proofs.C16Sha.prove_length sk msg pi hpi
  exact Rangers.Props.C16Qn.honest_header_passes_after_transport P thr pk pi msg h w t qn pre hlen
    (hver msg hpi) (by rw [hsame]; exact hq)

/-- The rule does give the same answer at both heights whenever they lie on the same side of the fork
    threshold, or no working-miner count is recorded. -/
theorem rule_same_on_same_side (P : Qn.Params) (thr : Nat) (pi : Bytes) (bh h w t : Nat)
    (hside : w = 0 ∨ (bh > thr ↔ h > thr)) :
    Qn.validateProve P thr pi h w t = Qn.validateProve P thr pi bh w t := by
  unfold Qn.validateProve
  rcases hside with hw | hs
  · subst hw; simp
  · by_cases hb : bh > thr
    · have hh : h > thr := hs.mp hb
      simp [hb, hh]
    · have hh : ¬ h > thr := fun x => hb (hs.mpr x)
      simp [hb, hh]

/-- QUIRK (model and code, replayed by the `gp`/`vbt` ops): the proposer evaluates the rule at the BASE
    block's height, the verifier at the new block's height. For the one block that crosses the fork
    threshold the two answers differ — here qn 4 for the proposer, qn 1 for the verifier — and the honest
    block is rejected with "qn error". `hsame` above cannot be dropped. -/
theorem proposer_verifier_height_quirk :
    let pi : Bytes := [0x01, 0x06] ++ List.replicate 78 0
    Qn.validateProve Rangers.Props.C16Qn.liveParams 100 pi 100 2 1000 = .res true (.val 4) ∧
    Qn.validateProve Rangers.Props.C16Qn.liveParams 100 pi 101 2 1000 = .res true (.val 1) := by
  decide +kernel

/-- T-gen: which height each side passes to `validateProve`. -/
theorem rule_height_arguments :
    Generated.C16Sites.validateProveCallArgs =
      ["verifyBlockVRF(prove, bh.Height, castor.WorkingMiners, totalStake)",
       "genProve(prove, vrfWorker.baseBH.Height, vrfWorker.miner.WorkingMiners, totalStake)"] := by decide

/-- `ECVRFProve` always returns exactly `ProveSize` = 80 bytes (so every honest header value is the big
    integer of an 80-byte string and `transport_roundtrip` applies to it). -/
theorem honest_proof_length (sk m pi : Bytes) (h : Vrf.prove sk m = .ok pi) : pi.length = Vrf.proveSize :=
  Rangers.Proofs.C16Sha.prove_length sk m pi h

end Rangers.Props.C16Flow
