import Rangers.Model.Shamir
/-! Property theorems for C13 (placeholder while the tie is being built). -/
namespace Rangers.Props.C13
open Rangers.Model

theorem aggregate_nil (r : Nat) : Shamir.aggregateSeckeys r [] = none := rfl

end Rangers.Props.C13
