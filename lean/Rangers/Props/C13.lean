import Rangers.Generated.Bn256Consts
import Mathlib.Tactic.NormNum.Prime
import Rangers.Proofs.C13Dkg
import Rangers.Proofs.C13Select
/-!
# C13 — any threshold subset of group members yields the same valid group signature

Theorems about `Model/Shamir.lean`, the model the driver `drv_c13` executes. `r` is the group
order (a prime), `G`/`G₂`/`GT` are arbitrary `ZMod r`-modules standing for `bn256.G1`, `G2`, `GT`;
that the Go types *are* such modules and `Pair` is bilinear is assumed (`LawfulOps`, `IsPairing`),
sampled by the harness every run, not proved.
-/
namespace Rangers.Props.C13
open Polynomial Finset Rangers.Model.Shamir Rangers.Proofs.C13 Rangers.Generated

variable {r : Nat}

/-! ## Sharing -/

/-- `ShareSeckey(coeffs, id)` is the polynomial `Σ coeffs[i]·Xⁱ` evaluated at `id` in `ZMod r`,
    reduced below `r`; it only fails (index panic) on an empty coefficient list. -/
theorem share_is_eval (hr : 0 < r) (cs : List Nat) (x : Nat) :
    (cs ≠ [] → ∃ v, shareSeckey r cs x = some v) ∧
    (∀ v, shareSeckey r cs x = some v →
      (v : ZMod r) = (polyOf (castList r cs)).eval (x : ZMod r) ∧ v < r) :=
  ⟨shareSeckey_isSome r cs x, fun v h => ⟨shareSeckey_eval r cs x v h, shareSeckey_lt r hr cs x v h⟩⟩

example : shareSeckey 13 [5, 3, 2] 4 = some ((5 + 3 * 4 + 2 * 16) % 13) := by decide

/-- After the DKG member `x`'s key is `f(x)` for the sum polynomial `f = Σ_d f_d`, whose degree is
    below the threshold `k`, and `f(0)` is the sum of the dealers' constant terms. -/
theorem member_key_is_eval_of_sum (dealers : List (List Nat)) (k : Nat)
    (hne : dealers ≠ []) (hk : ∀ cs ∈ dealers, cs ≠ [] ∧ cs.length ≤ k) (x : Nat) :
    (∃ v, memberKey r dealers x = some v) ∧
    (∀ v, memberKey r dealers x = some v → (v : ZMod r) = (groupPoly r dealers).eval (x : ZMod r)) ∧
    (groupPoly r dealers).degree < k ∧
    (∀ g, groupSecret r dealers = some g → (g : ZMod r) = (groupPoly r dealers).eval 0) :=
  ⟨memberKey_isSome dealers x hne (fun cs h => (hk cs h).1),
   fun v h => memberKey_eval dealers x v h,
   degree_groupPoly_lt dealers k (fun cs h => (hk cs h).2),
   fun g h => groupSecret_eval dealers g h⟩

example : memberKey 13 [[1, 2], [3, 4]] 5 = some ((1 + 2 * 5 + 3 + 4 * 5) % 13) ∧
    groupSecret 13 [[1, 2], [3, 4]] = some 4 := by decide

/-- The group public key (`AggregatePubkeys` of the dealers' `coeffs[0]·g₂`) is `f(0)•g₂`. -/
theorem group_pk {G₂ : Type} [AddCommGroup G₂] [Module (ZMod r) G₂] (ops : Ops G₂) (hops : LawfulOps r ops)
    (dealers : List (List Nat)) (hd : dealers ≠ []) (g2 : G₂) :
    aggregatePoints ops.add (dealers.map (fun cs => ops.mul g2 (cs.headD 0))) =
      some ((groupPoly r dealers).eval 0 • g2) :=
  aggregatePoints_pk ops hops dealers hd g2

/-! ## Lagrange coefficients -/

/-- The executable `delta`s of `recoverSignature` are the Lagrange basis polynomials at `0`
    whenever the ids are pairwise distinct mod `r` (then every `ModInverse` succeeds). -/
theorem lagrange_matches [Fact r.Prime] (xs : List Nat) (hd : IdsDistinct r xs) :
    (lagrangeCoeffs r xs).length = xs.length ∧
    ∀ i, i < xs.length →
      (((lagrangeCoeffs r xs).getD i 0 : Nat) : ZMod r) =
        (Lagrange.basis (range xs.length) (pt r xs) i).eval 0 :=
  ⟨lagrangeCoeffs_length xs, fun i hi => lagrangeCoeffs_eq_basis xs hd i hi⟩

example : IdsDistinct 13 [1, 2, 3] ∧ lagrangeCoeffs 13 [1, 2, 3] = [3, 10, 1] := by decide

/-! ## Recovery -/

/-- The shares `f(xᵢ)·h` of the ids `ids` for the coefficient list `cs`, as the model computes them. -/
def honestShares (ops : Ops G) (r : Nat) (cs : List Nat) (h : G) (ids : List Nat) : List G :=
  ids.map (fun x => ops.mul h ((shareSeckey r cs x).getD 0))

variable {G : Type} [AddCommGroup G] [Module (ZMod r) G]

/-- **recover_any_subset** (proved under `IdsDistinct`, hence `_partial`): for every list of at
    least `deg f + 1` ids, pairwise distinct mod `r`, in any order, `recoverSignature` applied to the
    shares `f(xᵢ)•h` returns `f(0)•h`. The list is arbitrary, so this is independence of subset
    and of order. -/
theorem recover_any_subset_partial [Fact r.Prime] (ops : Ops G) (hops : LawfulOps r ops)
    (cs : List Nat) (hcs : cs ≠ []) (h : G) (ids : List Nat)
    (hk : cs.length ≤ ids.length) (hd : IdsDistinct r ids) :
    recoverWith ops r ids (honestShares ops r cs h ids) = .ok (some (ops.mul h (cs.headD 0))) := by
  have hne : ids ≠ [] := by
    intro h0; subst h0
    have : cs.length = 0 := by simpa using hk
    exact hcs (List.length_eq_zero_iff.1 this)
  have hdeg : (polyOf (castList r cs)).degree < ids.length := by
    refine lt_of_lt_of_le (degree_polyOf_lt _) ?_
    simp only [castList, List.length_map]; exact_mod_cast hk
  have := recoverWith_poly ops hops ids hne hd (polyOf (castList r cs)) hdeg
    (ids.map (fun x => (shareSeckey r cs x).getD 0)) (by simp) (by
      intro t ht
      obtain ⟨v, hv⟩ := shareSeckey_isSome r cs (ids.getD t 0) hcs
      have hg : (ids.map (fun x => (shareSeckey r cs x).getD 0)).getD t 0 = v := by
        rw [List.getD, List.getElem?_map, List.getElem?_eq_getElem ht]
        simp only [Option.map_some, Option.getD_some]
        have : ids[t] = ids.getD t 0 := by simp [List.getD, List.getElem?_eq_getElem ht]
        rw [this, hv]; rfl
      rw [hg, shareSeckey_eval r cs _ v hv]; rfl) h
  unfold honestShares
  rw [List.map_map] at this
  have h0 : (polyOf (castList r cs)).eval 0 = ((cs.headD 0 : Nat) : ZMod r) := by
    rw [eval_zero_polyOf]; cases cs <;> simp [castList]
  rw [hops.mul_eq, ← h0]
  exact this

/-- `ZMod n` as a module over itself: the concrete instance used for non-vacuity examples and
    counterexamples. -/
def zops (n : Nat) : Ops (ZMod n) := ⟨(· + ·), fun g k => (k : ZMod n) * g⟩

theorem zops_lawful (n : Nat) : LawfulOps n (zops n) :=
  ⟨fun _ _ => rfl, fun _ _ => rfl⟩

instance : Fact (Nat.Prime 13) := ⟨by norm_num⟩

/-- non-vacuity: a concrete instance of all hypotheses (`r = 13`, `f = 5 + 3X + 2X²`, ids 1, 15, 3 —
    15 ≥ r is reduced implicitly, as the node does with 256-bit ids), and the model computes `f(0)`. -/
example : ([5, 3, 2] : List Nat) ≠ [] ∧ IdsDistinct 13 [1, 15, 3] ∧
    recoverWith (zops 13) 13 [1, 15, 3] (honestShares (zops 13) 13 [5, 3, 2] 1 [1, 15, 3]) = .ok (some 5) ∧
    recoverWith (zops 13) 13 [15, 3, 1, 7] (honestShares (zops 13) 13 [5, 3, 2] 1 [15, 3, 1, 7]) = .ok (some 5) := by
  decide

/-- The statement as the property words it: *every* choice of (distinct) member ids. -/
def FullStatementRecover (r : Nat) : Prop :=
  ∀ (G : Type) [AddCommGroup G] [Module (ZMod r) G] (ops : Ops G), LawfulOps r ops →
    ∀ (cs : List Nat), cs ≠ [] → ∀ (h : G) (ids : List Nat), cs.length ≤ ids.length → ids.Nodup →
      (∀ x ∈ ids, x < 2 ^ 256) →
      recoverWith ops r ids (honestShares ops r cs h ids) = .ok (some (ops.mul h (cs.headD 0)))

instance : Fact (1 < Bn256.order) := ⟨by decide⟩

/-- The full statement is false for the group order of the code: the 256-bit ids `1` and `1 + r`
    are distinct but congruent mod `r`; both `ModInverse` calls fail, both `delta`s are `0`, and the
    two shares of `f = 1 + X` recover `0` instead of `f(0) = 1`. Replayed on the implementation:
    `corpus/C13/collide.ops` (known finding `ids-congruent-mod-order`). -/
theorem recover_any_subset_counterexample : ¬ FullStatementRecover Bn256.order := by
  intro hfull
  have h := hfull (ZMod Bn256.order) (zops Bn256.order) (zops_lawful _) [1, 1] (by decide) 1
    [1, 1 + Bn256.order] (by decide) (by decide) (by decide)
  have hl : lagrangeCoeffs Bn256.order [1, 1 + Bn256.order] = [0, 0] := by decide
  simp [recoverWith, honestShares, accumulate, hl, zops] at h

/-- The same witness at the scalar level: the deltas the model (and the Go code) computes. -/
theorem lagrange_collision_counterexample :
    lagrangeCoeffs Bn256.order [1, 1 + Bn256.order] = [0, 0] ∧ ¬ IdsDistinct Bn256.order [1, 1 + Bn256.order] := by
  decide

/-! ## `RecoverGroupSignature`: independence of map order and of the random k-subset -/

theorem mapM_honest {α : Type} (g : Nat → α) : ∀ (l : List (Nat × Option α)),
    (∀ e ∈ l, e.2 = some (g e.1)) → l.mapM (fun e => e.2) = some (l.map (fun e => g e.1))
  | [], _ => by simp
  | e :: l, h => by
    rw [List.mapM_cons, h e (by simp), mapM_honest g l (fun e' he' => h e' (by simp [he']))]
    simp

/-- **recover_group_signature_any** (`_partial`: ids distinct mod `r`): `RecoverGroupSignature` on a
    witness map holding at least `k` honest shares returns `f(0)•h` whatever the iteration order of
    the Go maps (`ord1`, `ord2`: arbitrary permutations) and whatever `RandomPerm` draws (`js`:
    arbitrary in-range values). Hence the group signature does not depend on which members answered,
    in which order, or on the node's internal randomness. -/
theorem recover_group_signature_any_partial [Fact r.Prime] (ops : Ops G) (hops : LawfulOps r ops)
    (cs : List Nat) (hcs : cs ≠ []) (h : G) (k : Nat) (hck : cs.length ≤ k)
    (m : List (Nat × Option G)) (hkm : k ≤ m.length)
    (hd : IdsDistinct r (m.map Prod.fst))
    (hhon : ∀ e ∈ m, e.2 = some (ops.mul h ((shareSeckey r cs e.1).getD 0)))
    (c : Choice (Nat × Option G)) (h1 : ∀ l, (c.ord1 l).Perm l) (h2 : ∀ l, (c.ord2 l).Perm l)
    (hjs : k ≤ c.js.length) (hjr : ∀ i, i < k → c.js.getD i 0 + i < m.length) :
    recoverGroupSignature ops r k m c = .ok (some (ops.mul h (cs.headD 0))) := by
  have hk0 : 0 < k := by
    rcases Nat.eq_zero_or_pos k with h0 | h0
    · subst h0; exact absurd (List.length_eq_zero_iff.1 (Nat.le_zero.1 hck)) hcs
    · exact h0
  -- the entries actually used: `k` of them, a sub-permutation of the map
  have key : ∃ it : List (Nat × Option G),
      (c.ord2 (if k < m.length then pickSorted 0 (c.ord1 m) (sortInts (randomPerm m.length k c.js)) else m)).take k = it ∧
      it.length = k ∧ it.Subperm m := by
    refine ⟨_, rfl, ?_⟩
    by_cases hlt : k < m.length
    · simp only [hlt, if_true]
      have hl1 : (c.ord1 m).length = m.length := (h1 m).length_eq
      obtain ⟨hsub, hlen⟩ := pick_random_k (c.ord1 m) k c.js (by omega) hjs (by simpa [hl1] using hjr)
      rw [hl1] at hsub hlen
      have hl2 := (h2 (pickSorted 0 (c.ord1 m) (sortInts (randomPerm m.length k c.js)))).length_eq
      have htake : (c.ord2 (pickSorted 0 (c.ord1 m) (sortInts (randomPerm m.length k c.js)))).take k =
          c.ord2 (pickSorted 0 (c.ord1 m) (sortInts (randomPerm m.length k c.js))) :=
        List.take_of_length_le (by omega)
      rw [htake]
      exact ⟨by omega, ((h2 _).subperm).trans ((hsub.subperm).trans (h1 m).subperm)⟩
    · simp only [hlt, if_false]
      have hl2 := (h2 m).length_eq
      have htake : (c.ord2 m).take k = c.ord2 m := List.take_of_length_le (by omega)
      rw [htake]
      exact ⟨by omega, (h2 m).subperm⟩
  obtain ⟨it, hit, hlen, hsp⟩ := key
  unfold recoverGroupSignature
  simp only [hit, hlen, Nat.lt_irrefl, if_false]
  have hnot : ¬ (k = 0 ∧ 0 < m.length) := by omega
  simp only [hnot, if_false]
  have hmem : ∀ e ∈ it, e ∈ m := fun e he => hsp.subset he
  rw [mapM_honest (fun x => ops.mul h ((shareSeckey r cs x).getD 0)) it (fun e he => hhon e (hmem e he))]
  simp only
  have hids : IdsDistinct r (it.map Prod.fst) := by
    unfold IdsDistinct at hd ⊢
    obtain ⟨l, hl1, hl2⟩ := hsp
    have hs : ((l.map Prod.fst).map (· % r)).Sublist ((m.map Prod.fst).map (· % r)) := (hl2.map _).map _
    have hp : ((l.map Prod.fst).map (· % r)).Perm ((it.map Prod.fst).map (· % r)) := (hl1.map _).map _
    exact (hp.nodup_iff).1 (hd.sublist hs)
  have := recover_any_subset_partial ops hops cs hcs h (it.map Prod.fst) (by simpa [hlen] using hck) hids
  unfold honestShares at this
  rw [List.map_map] at this
  exact this

/-- non-vacuity: 5 honest shares of `f = 5 + 3X + 2X²` over `r = 13`, threshold 3, map order
    reversed, draws `[4,0,1]`. -/
example :
    recoverGroupSignature (zops 13) 13 3
      ([1, 15, 3, 7, 9].map (fun x => (x, some ((zops 13).mul 1 ((shareSeckey 13 [5, 3, 2] x).getD 0)))))
      ⟨List.reverse, [4, 0, 1], List.reverse⟩ = .ok (some 5) := by decide

end Rangers.Props.C13
