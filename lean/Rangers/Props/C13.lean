import Rangers.Generated.Bn256Consts
import Mathlib.Tactic.NormNum.Prime
import Rangers.Proofs.C13Dkg
import Rangers.Proofs.C13RecoverMap
import Rangers.Proofs.C13SignGen
import Mathlib.Data.List.Dedup
/-!
# C13 — any threshold subset of group members yields the same valid group signature

Theorems about `Model/Shamir.lean`, the model the driver `drv_c13` executes. `r` is the group
order (a prime), `G`/`G₂`/`GT` are arbitrary `ZMod r`-modules standing for `bn256.G1`, `G2`, `GT`;
that the Go types *are* such modules and `Pair` is bilinear is assumed (`LawfulOps`, `IsPairing`),
sampled by the harness every run, not proved.
-/
namespace Rangers.Props.C13
open Polynomial Finset Rangers.Model.Shamir Rangers.Proofs.C13 Rangers.Generated

variable {r : Nat}

/-! ## Sharing -/

/-- `ShareSeckey(coeffs, id)` is the polynomial `Σ coeffs[i]·Xⁱ` evaluated at `id` in `ZMod r`,
    reduced below `r`; it only fails (index panic) on an empty coefficient list. -/
theorem share_is_eval (hr : 0 < r) (cs : List Nat) (x : Nat) :
    (cs ≠ [] → ∃ v, shareSeckey r cs x = some v) ∧
    (∀ v, shareSeckey r cs x = some v →
      (v : ZMod r) = (polyOf (castList r cs)).eval (x : ZMod r) ∧ v < r) :=
  ⟨shareSeckey_isSome r cs x, fun v h => ⟨shareSeckey_eval r cs x v h, shareSeckey_lt r hr cs x v h⟩⟩

example : shareSeckey 13 [5, 3, 2] 4 = some ((5 + 3 * 4 + 2 * 16) % 13) := by decide

/-- After the DKG member `x`'s key is `f(x)` for the sum polynomial `f = Σ_d f_d`, whose degree is
    below the threshold `k`, and `f(0)` is the sum of the dealers' constant terms. -/
theorem member_key_is_eval_of_sum (dealers : List (List Nat)) (k : Nat)
    (hne : dealers ≠ []) (hk : ∀ cs ∈ dealers, cs ≠ [] ∧ cs.length ≤ k) (x : Nat) :
    (∃ v, memberKey r dealers x = some v) ∧
    (∀ v, memberKey r dealers x = some v → (v : ZMod r) = (groupPoly r dealers).eval (x : ZMod r)) ∧
    (groupPoly r dealers).degree < k ∧
    (∀ g, groupSecret r dealers = some g → (g : ZMod r) = (groupPoly r dealers).eval 0) :=
  ⟨memberKey_isSome dealers x hne (fun cs h => (hk cs h).1),
   fun v h => memberKey_eval dealers x v h,
   degree_groupPoly_lt dealers k (fun cs h => (hk cs h).2),
   fun g h => groupSecret_eval dealers g h⟩

example : memberKey 13 [[1, 2], [3, 4]] 5 = some ((1 + 2 * 5 + 3 + 4 * 5) % 13) ∧
    groupSecret 13 [[1, 2], [3, 4]] = some 4 := by decide

/-- A member whose id is `≡ 0 (mod r)` (e.g. the 256-bit id `r` itself; ids are free-form) is dealt
    `f(0)`: its key *is* the group secret. Every clause of C13 still holds for such a group (this is a
    secrecy defect of the scheme's use, not a subset-dependence); replayed on the implementation by
    `corpus/C13/idzero.ops`. -/
theorem id_zero_mod_order_gets_group_secret [NeZero r] (dealers : List (List Nat)) (hne : dealers ≠ [])
    (hk : ∀ cs ∈ dealers, cs ≠ []) (x : Nat) (hx : x % r = 0) :
    ∃ g, memberKey r dealers x = some g ∧ groupSecret r dealers = some g := by
  have hr : 0 < r := Nat.pos_of_ne_zero (NeZero.ne r)
  obtain ⟨v, hv⟩ := memberKey_isSome (r := r) dealers x hne hk
  obtain ⟨g, hg⟩ := aggregateSeckeys_isSome r (dealers.map (fun cs => cs.headD 0)) (by simpa using hne)
  have hgs : groupSecret r dealers = some g := hg
  have h1 := memberKey_eval dealers x v hv
  have h2 := groupSecret_eval dealers g hgs
  have hx0 : ((x : Nat) : ZMod r) = 0 := (ZMod.natCast_eq_zero_iff x r).2 (Nat.dvd_of_mod_eq_zero hx)
  rw [hx0, ← h2] at h1
  have hvl : v < r := by
    unfold memberKey at hv
    split at hv
    · rename_i shares _
      cases shares with
      | nil => simp [aggregateSeckeys] at hv
      | cons a rest => simp only [aggregateSeckeys, Option.some.injEq] at hv; subst hv; exact Nat.mod_lt _ hr
    · simp at hv
  have hgl : g < r := by
    unfold aggregateSeckeys at hg
    split at hg
    · simp at hg
    · simp only [Option.some.injEq] at hg; subst hg; exact Nat.mod_lt _ hr
  have : v = g := by
    have := (ZMod.natCast_eq_natCast_iff' v g r).1 h1
    rwa [Nat.mod_eq_of_lt hvl, Nat.mod_eq_of_lt hgl] at this
  exact ⟨g, by rw [hv, this], hgs⟩

example : memberKey 13 [[1, 2], [3, 4]] 26 = some 4 ∧ groupSecret 13 [[1, 2], [3, 4]] = some 4 := by decide

/-- The group public key (`AggregatePubkeys` of the dealers' `coeffs[0]·g₂`) is `f(0)•g₂`. -/
theorem group_pk {G₂ : Type} [AddCommGroup G₂] [Module (ZMod r) G₂] (ops : Ops G₂) (hops : LawfulOps r ops)
    (dealers : List (List Nat)) (hd : dealers ≠ []) (g2 : G₂) :
    aggregatePoints ops.add (dealers.map (fun cs => ops.mul g2 (cs.headD 0))) =
      some ((groupPoly r dealers).eval 0 • g2) :=
  aggregatePoints_pk ops hops dealers hd g2

/-! ## Lagrange coefficients -/

/-- The executable `delta`s of `recoverSignature` are the Lagrange basis polynomials at `0`
    whenever the ids are pairwise distinct mod `r` (then every `ModInverse` succeeds). -/
theorem lagrange_matches [Fact r.Prime] (xs : List Nat) (hd : IdsDistinct r xs) :
    (lagrangeCoeffs r xs).length = xs.length ∧
    ∀ i, i < xs.length →
      (((lagrangeCoeffs r xs).getD i 0 : Nat) : ZMod r) =
        (Lagrange.basis (range xs.length) (pt r xs) i).eval 0 :=
  ⟨lagrangeCoeffs_length xs, fun i hi => lagrangeCoeffs_eq_basis xs hd i hi⟩

example : IdsDistinct 13 [1, 2, 3] ∧ lagrangeCoeffs 13 [1, 2, 3] = [3, 10, 1] := by decide

/-! ## Recovery -/

/-- The shares `f(xᵢ)·h` of the ids `ids` for the coefficient list `cs`, as the model computes them. -/
def honestShares (ops : Ops G) (r : Nat) (cs : List Nat) (h : G) (ids : List Nat) : List G :=
  ids.map (fun x => ops.mul h ((shareSeckey r cs x).getD 0))

variable {G : Type} [AddCommGroup G] [Module (ZMod r) G]

/-- **recover_any_subset** (proved under `IdsDistinct`, hence `_partial`): for every list of at
    least `deg f + 1` ids, pairwise distinct mod `r`, in any order, `recoverSignature` applied to the
    shares `f(xᵢ)•h` returns `f(0)•h`. The list is arbitrary, so this is independence of subset
    and of order. -/
theorem recover_any_subset_partial [Fact r.Prime] (ops : Ops G) (hops : LawfulOps r ops)
    (cs : List Nat) (hcs : cs ≠ []) (h : G) (ids : List Nat)
    (hk : cs.length ≤ ids.length) (hd : IdsDistinct r ids) :
    recoverWith ops r ids (honestShares ops r cs h ids) = .ok (some (ops.mul h (cs.headD 0))) := by
  have hne : ids ≠ [] := by
    intro h0; subst h0
    have : cs.length = 0 := by simpa using hk
    exact hcs (List.length_eq_zero_iff.1 this)
  have hdeg : (polyOf (castList r cs)).degree < ids.length := by
    refine lt_of_lt_of_le (degree_polyOf_lt _) ?_
    simp only [castList, List.length_map]; exact_mod_cast hk
  have := recoverWith_poly ops hops ids hne hd (polyOf (castList r cs)) hdeg
    (ids.map (fun x => (shareSeckey r cs x).getD 0)) (by simp) (by
      intro t ht
      obtain ⟨v, hv⟩ := shareSeckey_isSome r cs (ids.getD t 0) hcs
      have hg : (ids.map (fun x => (shareSeckey r cs x).getD 0)).getD t 0 = v := by
        rw [List.getD, List.getElem?_map, List.getElem?_eq_getElem ht]
        simp only [Option.map_some, Option.getD_some]
        have : ids[t] = ids.getD t 0 := by simp [List.getD, List.getElem?_eq_getElem ht]
        rw [this, hv]; rfl
      rw [hg, shareSeckey_eval r cs _ v hv]; rfl) h
  unfold honestShares
  rw [List.map_map] at this
  have h0 : (polyOf (castList r cs)).eval 0 = ((cs.headD 0 : Nat) : ZMod r) := by
    rw [eval_zero_polyOf]; cases cs <;> simp [castList]
  rw [hops.mul_eq, ← h0]
  exact this

/-- `ZMod n` as a module over itself: the concrete instance used for non-vacuity examples and
    counterexamples. -/
def zops (n : Nat) : Ops (ZMod n) := ⟨(· + ·), fun g k => (k : ZMod n) * g⟩

theorem zops_lawful (n : Nat) : LawfulOps n (zops n) :=
  ⟨fun _ _ => rfl, fun _ _ => rfl⟩

instance : Fact (Nat.Prime 13) := ⟨by norm_num⟩

/-- non-vacuity: a concrete instance of all hypotheses (`r = 13`, `f = 5 + 3X + 2X²`, ids 1, 15, 3 —
    15 ≥ r is reduced implicitly, as the node does with 256-bit ids), and the model computes `f(0)`. -/
example : ([5, 3, 2] : List Nat) ≠ [] ∧ IdsDistinct 13 [1, 15, 3] ∧
    recoverWith (zops 13) 13 [1, 15, 3] (honestShares (zops 13) 13 [5, 3, 2] 1 [1, 15, 3]) = .ok (some 5) ∧
    recoverWith (zops 13) 13 [15, 3, 1, 7] (honestShares (zops 13) 13 [5, 3, 2] 1 [15, 3, 1, 7]) = .ok (some 5) := by
  decide

/-- The statement as the property words it: *every* choice of (distinct) member ids. -/
def FullStatementRecover (r : Nat) : Prop :=
  ∀ (G : Type) [AddCommGroup G] [Module (ZMod r) G] (ops : Ops G), LawfulOps r ops →
    ∀ (cs : List Nat), cs ≠ [] → ∀ (h : G) (ids : List Nat), cs.length ≤ ids.length → ids.Nodup →
      (∀ x ∈ ids, x < 2 ^ 256) →
      recoverWith ops r ids (honestShares ops r cs h ids) = .ok (some (ops.mul h (cs.headD 0)))

instance : Fact (1 < Bn256.order) := ⟨by decide⟩

/-- The full statement is false for the group order of the code: the 256-bit ids `1` and `1 + r`
    are distinct but congruent mod `r`; both `ModInverse` calls fail, both `delta`s are `0`, and the
    two shares of `f = 1 + X` recover `0` instead of `f(0) = 1`. Replayed on the implementation:
    `corpus/C13/collide.ops` (known finding `ids-congruent-mod-order`). -/
theorem recover_any_subset_counterexample : ¬ FullStatementRecover Bn256.order := by
  intro hfull
  have h := hfull (ZMod Bn256.order) (zops Bn256.order) (zops_lawful _) [1, 1] (by decide) 1
    [1, 1 + Bn256.order] (by decide) (by decide) (by decide)
  have hl : lagrangeCoeffs Bn256.order [1, 1 + Bn256.order] = [0, 0] := by decide
  simp [recoverWith, honestShares, accumulate, hl, zops] at h

/-- The same witness at the scalar level: the deltas the model (and the Go code) computes. -/
theorem lagrange_collision_counterexample :
    lagrangeCoeffs Bn256.order [1, 1 + Bn256.order] = [0, 0] ∧ ¬ IdsDistinct Bn256.order [1, 1 + Bn256.order] := by
  decide

/-! ## `RecoverGroupSignature`: independence of map order and of the random k-subset -/

/-- **recover_group_signature_any** (`_partial`: ids distinct mod `r`): `RecoverGroupSignature` on a
    witness map holding at least `k` honest shares returns `f(0)•h` whatever the iteration order of
    the Go maps and whatever `RandomPerm` draws (`Admissible`: orders are arbitrary permutations,
    draws arbitrary in-range values). Hence the group signature does not depend on which members
    answered, in which order, or on the node's internal randomness. -/
theorem recover_group_signature_any_partial [Fact r.Prime] (ops : Ops G) (hops : LawfulOps r ops)
    (cs : List Nat) (hcs : cs ≠ []) (h : G) (k : Nat) (hck : cs.length ≤ k)
    (m : List (Nat × Option G)) (hkm : k ≤ m.length)
    (hd : IdsDistinct r (m.map Prod.fst))
    (hhon : ∀ e ∈ m, e.2 = some (ops.mul h ((shareSeckey r cs e.1).getD 0)))
    (c : Choice (Nat × Option G)) (hc : Admissible c m.length k) :
    recoverGroupSignature ops r k m c = .ok (some (ops.mul h (cs.headD 0))) := by
  have hk0 : 0 < k := by
    rcases Nat.eq_zero_or_pos k with h0 | h0
    · subst h0; exact absurd (List.length_eq_zero_iff.1 (Nat.le_zero.1 hck)) hcs
    · exact h0
  have hdeg : (polyOf (castList r cs)).degree < k := by
    refine lt_of_lt_of_le (degree_polyOf_lt _) ?_
    simp only [castList, List.length_map]; exact_mod_cast hck
  have h0 : (polyOf (castList r cs)).eval 0 = ((cs.headD 0 : Nat) : ZMod r) := by
    rw [eval_zero_polyOf]; cases cs <;> simp [castList]
  rw [hops.mul_eq, ← h0]
  exact recoverGroupSignature_poly ops hops _ k hk0 hdeg (fun x => (shareSeckey r cs x).getD 0)
    (fun x => by
      obtain ⟨v, hv⟩ := shareSeckey_isSome r cs x hcs
      simp only [hv, Option.getD_some]
      exact shareSeckey_eval r cs x v hv) h m hkm hd hhon c hc

/-- non-vacuity: 5 honest shares of `f = 5 + 3X + 2X²` over `r = 13`, threshold 3, both map orders
    reversed, draws `[4,0,1]` — an admissible choice — and the model computes `f(0) = 5`. -/
example :
    Admissible (⟨List.reverse, [4, 0, 1], List.reverse⟩ : Choice (Nat × Option (ZMod 13))) 5 3 ∧
    recoverGroupSignature (zops 13) 13 3
      ([1, 15, 3, 7, 9].map (fun x => (x, some ((zops 13).mul 1 ((shareSeckey 13 [5, 3, 2] x).getD 0)))))
      ⟨List.reverse, [4, 0, 1], List.reverse⟩ = .ok (some 5) :=
  ⟨⟨fun l => List.reverse_perm l, fun l => List.reverse_perm l, by decide, by decide⟩, by decide⟩

/-- The panic branches are real and excluded by the hypotheses above only: fewer than `k`
    entries, a nil point in a used slot, `k = 0` on a non-empty map. (The node guards the first by
    `len(witnessSignMap) >= threshold` in `addWitnessForce`.) -/

theorem recover_group_signature_panics (ops : Ops G) (c : Choice (Nat × Option G))
    (h2 : ∀ l, (c.ord2 l).Perm l) (x : Nat) (g : G) :
    recoverGroupSignature ops r 2 [(x, some g)] c = .panic ∧
    recoverGroupSignature ops r 1 [(x, none)] c = .panic ∧
    recoverGroupSignature ops r 0 [(x, some g)] c = .panic := by
  refine ⟨?_, ?_, ?_⟩
  · have h := List.perm_singleton.1 (h2 [(x, some g)])
    simp [recoverGroupSignature, h]
  · have h := List.perm_singleton.1 (h2 [(x, (none : Option G))])
    simp [recoverGroupSignature, h]
  · simp [recoverGroupSignature]

/-! ## Verification -/

section verify
variable {G₂ GT : Type} [AddCommGroup G₂] [Module (ZMod r) G₂] [AddCommGroup GT] [Module (ZMod r) GT]

/-- What is assumed of `bn256.Pair` (sampled by the harness, not proved): compatibility with
    scalar multiplication on both sides. -/
structure IsPairing (r : Nat) {G G₂ GT : Type} [AddCommGroup G] [Module (ZMod r) G]
    [AddCommGroup G₂] [Module (ZMod r) G₂] [AddCommGroup GT] [Module (ZMod r) GT]
    (e : G → G₂ → GT) : Prop where
  smul_left : ∀ (a : ZMod r) p q, e (a • p) q = a • e p q
  smul_right : ∀ (a : ZMod r) p q, e p (a • q) = a • e p q

/-- **share_verifies**: a signature share `sk·H(m)` passes the pairing check of `VerifySig` under the
    public share `sk·g₂` — for a member key, for the group key, for any scalar. -/
theorem share_verifies (ops : Ops G) (hops : LawfulOps r ops) (ops₂ : Ops G₂) (hops₂ : LawfulOps r ops₂)
    (e : G → G₂ → GT) (he : IsPairing r e) (eq : GT → GT → Bool) (heq : ∀ a, eq a a = true)
    (g2 : G₂) (hm : G) (sk : Nat) :
    verifyCore e eq g2 (ops₂.mul g2 sk) hm (ops.mul hm sk) = true := by
  unfold verifyCore
  rw [hops.mul_eq, hops₂.mul_eq, he.smul_left, he.smul_right]
  exact heq _

/-- **Headline (C13, `_partial`: member ids pairwise distinct mod `r`).** For a group whose keys
    come from the node's DKG (`dealers` = the dealers' coefficient lists, each of the threshold
    length `k`; member `x` holds `memberKey dealers x`), and a witness map `m` with at least `k`
    honest signature shares on the message point `hm`:
    * `RecoverGroupSignature` returns one and the same signature `gsk·hm` for **every** such map
      (i.e. every subset of ≥ k members), every map iteration order and every outcome of the random
      k-subset choice (`Admissible c`);
    * it passes the pairing check of `VerifySig` under the aggregated group public key;
    * every member's share passes it under that member's public share. -/
theorem dkg_any_threshold_subset_same_valid_signature_partial [Fact r.Prime]
    (ops : Ops G) (hops : LawfulOps r ops) (ops₂ : Ops G₂) (hops₂ : LawfulOps r ops₂)
    (e : G → G₂ → GT) (he : IsPairing r e) (eq : GT → GT → Bool) (heq : ∀ a, eq a a = true)
    (dealers : List (List Nat)) (k : Nat) (hk0 : 0 < k) (hne : dealers ≠ [])
    (hk : ∀ cs ∈ dealers, cs ≠ [] ∧ cs.length ≤ k) (g2 : G₂) (hm : G) :
    ∃ gsk pk, groupSecret r dealers = some gsk ∧
      aggregatePoints ops₂.add (dealers.map (fun cs => ops₂.mul g2 (cs.headD 0))) = some pk ∧
      verifyCore e eq g2 pk hm (ops.mul hm gsk) = true ∧
      (∀ x sk, memberKey r dealers x = some sk →
        verifyCore e eq g2 (ops₂.mul g2 sk) hm (ops.mul hm sk) = true) ∧
      ∀ (m : List (Nat × Option G)), k ≤ m.length → IdsDistinct r (m.map Prod.fst) →
        (∀ en ∈ m, en.2 = some (ops.mul hm ((memberKey r dealers en.1).getD 0))) →
        ∀ (c : Choice (Nat × Option G)), Admissible c m.length k →
          recoverGroupSignature ops r k m c = .ok (some (ops.mul hm gsk)) := by
  obtain ⟨gsk, hg⟩ := aggregateSeckeys_isSome r (dealers.map (fun cs => cs.headD 0)) (by simpa using hne)
  have hgs : groupSecret r dealers = some gsk := hg
  have hge := groupSecret_eval dealers gsk hgs
  refine ⟨gsk, (groupPoly r dealers).eval 0 • g2, hgs, group_pk ops₂ hops₂ dealers hne g2, ?_, ?_, ?_⟩
  · have := share_verifies ops hops ops₂ hops₂ e he eq heq g2 hm gsk
    rwa [hops₂.mul_eq, hge] at this
  · intro x sk _
    exact share_verifies ops hops ops₂ hops₂ e he eq heq g2 hm sk
  · intro m hkm hd hhon c hc
    rw [hops.mul_eq, hge]
    exact recoverGroupSignature_poly ops hops (groupPoly r dealers) k hk0
      (degree_groupPoly_lt dealers k (fun cs h => (hk cs h).2))
      (fun x => (memberKey r dealers x).getD 0)
      (fun x => by
        obtain ⟨v, hv⟩ := memberKey_isSome (r := r) dealers x hne (fun cs h => (hk cs h).1)
        simp only [hv, Option.getD_some]
        exact memberKey_eval dealers x v hv) hm m hkm hd hhon c hc

/-- **sign_generator_any_arrival_order** (`_partial`: ids distinct mod `r`): the node's
    `GroupSignGenerator` (`AddWitnessSign` per arriving share), fed with honest shares in *any*
    arrival order, with repeated senders and late arrivals, and whatever iteration order the witness
    map has at the moment of recovery, ends up holding `gsk·hm` as soon as `k` distinct members have
    been heard — and never changes it afterwards. So the block signature and the random beacon do
    not depend on which members happened to answer first. -/
theorem sign_generator_any_arrival_order_partial [Fact r.Prime]
    (ops : Ops G) (hops : LawfulOps r ops) (isValid : G → Bool)
    (dealers : List (List Nat)) (k : Nat) (hk0 : 0 < k) (hne : dealers ≠ [])
    (hk : ∀ cs ∈ dealers, cs ≠ [] ∧ cs.length ≤ k) (hm : G)
    (gsk : Nat) (hg : groupSecret r dealers = some gsk) (hval : isValid (ops.mul hm gsk) = true)
    (arr : List (Nat × Option G × Choice (Nat × Option G)))
    (hhon : ∀ a ∈ arr, a.2.1 = some (ops.mul hm ((memberKey r dealers a.1).getD 0)) ∧
      ∀ l, (a.2.2.ord2 l).Perm l)
    (hmod : ∀ x ∈ arr.map (·.1), ∀ y ∈ arr.map (·.1), x % r = y % r → x = y)
    (hcount : k ≤ (arr.map (·.1)).dedup.length) :
    ∃ st, feed ops r isValid (SignGen.new k) arr = .ok st ∧ st.groupSign = some (ops.mul hm gsk) := by
  have hge := groupSecret_eval dealers gsk hg
  have htarget : ops.mul hm gsk = (groupPoly r dealers).eval 0 • hm := by rw [hops.mul_eq, hge]
  rw [htarget] at hval ⊢
  have hdeg := degree_groupPoly_lt (r := r) dealers k (fun cs h => (hk cs h).2)
  have hs : ∀ x, (((memberKey r dealers x).getD 0 : Nat) : ZMod r) = (groupPoly r dealers).eval (x : ZMod r) := by
    intro x
    obtain ⟨v, hv⟩ := memberKey_isSome (r := r) dealers x hne (fun cs h => (hk cs h).1)
    simp only [hv, Option.getD_some]
    exact memberKey_eval dealers x v hv
  obtain ⟨st, hf, hinv, hall⟩ := feed_inv ops r isValid k hk0
    (fun x => ops.mul hm ((memberKey r dealers x).getD 0)) ((groupPoly r dealers).eval 0 • hm)
    (by
      intro ids hlen hids
      have hne' : ids ≠ [] := by intro h0; subst h0; simp at hlen; omega
      have := recoverWith_poly ops hops ids hne' hids (groupPoly r dealers) (by simpa [hlen] using hdeg)
        (ids.map (fun x => (memberKey r dealers x).getD 0)) (by simp) (by
          intro t ht
          rw [List.getD, List.getElem?_map, List.getElem?_eq_getElem ht]
          simp only [Option.map_some, Option.getD_some]
          rw [hs]
          unfold pt
          simp [List.getD, List.getElem?_eq_getElem ht]) hm
      rw [List.map_map] at this
      exact this)
    hval arr (SignGen.new k)
    ⟨rfl, Or.inr ⟨rfl, by simpa [SignGen.new] using hk0, by simp [SignGen.new], by simp [SignGen.new]⟩⟩
    hhon (by simpa [SignGen.new] using hmod)
  refine ⟨st, hf, ?_⟩
  rcases hinv.cases with h1 | ⟨h1, hlen, hnd, _⟩
  · exact h1
  · exfalso
    have hsub : (arr.map (·.1)).dedup ⊆ st.witnesses.map Prod.fst := by
      intro x hx
      exact hall h1 x (by simpa [SignGen.new] using List.mem_dedup.1 hx)
    have := (List.subperm_of_subset (List.nodup_dedup _) hsub).length_le
    simp only [List.length_map] at this
    omega

/-- non-vacuity: threshold 2, arrivals 15, 15 (repeat), 1, 3 (late) over `r = 13`; flags and final
    signature as the model computes them. -/
example :
    feed (zops 13) 13 (fun _ => true) (SignGen.new 2)
      ([15, 15, 1, 3].map (fun x =>
        (x, some ((zops 13).mul 2 ((memberKey 13 [[1, 2], [3, 4]] x).getD 0)), ⟨id, [], List.reverse⟩)))
      = .ok ⟨2, [(15, some 6), (1, some 7)], some 8⟩ := by decide

/-- non-vacuity of the headline: `r = 13`, all three groups `ZMod 13`, pairing = multiplication,
    two dealers with `k = 2`, three members (ids 1, 15, 3), message point 2: the hypotheses hold and
    two different subsets in different orders give the same signature `gsk·hm = 4·2 = 8`. -/
example :
    IsPairing 13 (fun (p q : ZMod 13) => p * q) ∧
    (∀ cs ∈ [[1, 2], [3, 4]], cs ≠ [] ∧ cs.length ≤ 2) ∧
    groupSecret 13 [[1, 2], [3, 4]] = some 4 ∧
    IdsDistinct 13 [1, 15, 3] ∧
    recoverGroupSignature (zops 13) 13 2
      ([1, 15].map (fun x => (x, some ((zops 13).mul 2 ((memberKey 13 [[1, 2], [3, 4]] x).getD 0)))))
      ⟨id, [], id⟩ = .ok (some 8) ∧
    recoverGroupSignature (zops 13) 13 2
      ([3, 15, 1].map (fun x => (x, some ((zops 13).mul 2 ((memberKey 13 [[1, 2], [3, 4]] x).getD 0)))))
      ⟨List.reverse, [2, 0], id⟩ = .ok (some 8) :=
  ⟨⟨fun a p q => by simp [mul_assoc], fun a p q => by simp [mul_left_comm]⟩, by decide, by decide, by decide,
   by decide, by decide⟩

end verify

end Rangers.Props.C13
