import Rangers.Proofs.PoolPack
/-!
# C17, part C — the sort abstraction and commuting submissions

* `sorted_unique_of_strictChain` justifies the driver's `sortDetermined` guard: when the model's
  sort result is a strict chain for `Less` (every earlier element is less than every later one and
  not vice versa), *every* permutation of it that is sorted w.r.t. `Less` is that very list — so
  whatever `sort.Sort` (pdqsort) does on a longer slice, a correct sort returns what the model returns.
* `add_add_commute` — the sequential core of the concurrency clause: two submissions of different
  hashes commute (same pending set, same executed records) when the container has room for both.
-/
namespace Rangers.Props.C17C
open Rangers Rangers.Pool

theorem strictChain_cons {c : Cfg} {x : Tx} {xs : List Tx} (h : strictChain c (x :: xs) = true) :
    (∀ y ∈ xs, lessRes c x y = .lt ∧ lessRes c y x = .ge) ∧ strictChain c xs = true := by
  simp only [strictChain, Bool.and_eq_true, List.all_eq_true, beq_iff_eq] at h
  exact ⟨fun y hy => h.1 y hy, h.2⟩

/-- A strict chain is the only sorted arrangement of its elements. -/
theorem sorted_unique_of_strictChain (c : Cfg) :
    ∀ (r r' : List Tx), strictChain c r = true → r'.Perm r → SortedBy c r' → r' = r
  | [], r', _, hp, _ => by simpa using hp.eq_nil
  | x :: xs, r', hc, hp, hs => by
    obtain ⟨hx, hc'⟩ := strictChain_cons hc
    -- x is not in xs (it would have to be both less and not less than itself)
    have hxn : x ∉ xs := by
      intro hm
      have := hx x hm
      rw [this.1] at this
      exact absurd this.2 (by decide)
    cases r' with
    | nil => exact absurd hp.symm.eq_nil (by simp)
    | cons y ys =>
      have hy : y ∈ x :: xs := hp.mem_iff.mp (by simp)
      have hyx : y = x := by
        rcases List.mem_cons.mp hy with h | h
        · exact h
        · -- then x sits somewhere behind y in a sorted list although x < y
          have hxin : x ∈ y :: ys := hp.mem_iff.mpr (by simp)
          have hxys : x ∈ ys := by
            rcases List.mem_cons.mp hxin with e | e
            · exact absurd (e ▸ h) hxn
            · exact e
          have := (List.pairwise_cons.mp hs).1 x hxys
          have hlt := (hx y h).1
          simp [less, hlt] at this
      subst hyx
      have hp' : ys.Perm xs := (List.perm_cons y).mp hp
      have hs' : SortedBy c ys := (List.pairwise_cons.mp hs).2
      rw [sorted_unique_of_strictChain c xs ys hc' hp' hs']

/-- non-vacuity: a two-element strict chain under proposal 023 -/
example : strictChain ⟨true, true, true, true⟩
    [⟨1, 5, [48, 120, 48, 49], 0, 0, 0⟩, ⟨2, 6, [48, 120, 48, 49], 1, 0, 0⟩] = true := by decide

/-- Two submissions of different, not yet known hashes commute when there is room for both. -/
theorem add_add_commute (s : Pool) (t u : Tx) (hne : t.hash ≠ u.hash)
    (hroom : s.pending.length + 2 ≤ s.limit) :
    ((s.addTransaction t).1.addTransaction u).1.hashes.Perm ((s.addTransaction u).1.addTransaction t).1.hashes ∧
    ((s.addTransaction t).1.addTransaction u).1.execHashes = ((s.addTransaction u).1.addTransaction t).1.execHashes ∧
    ((s.addTransaction t).1.addTransaction u).2 = (s.addTransaction u).2 ∧
    ((s.addTransaction u).1.addTransaction t).2 = (s.addTransaction t).2 := by
  have key : ∀ (s : Pool) (a : Tx), (s.addTransaction a).1.hashes =
      (if s.existed a.hash then s.hashes else if s.pending.length < s.limit then s.hashes ++ [a.hash] else s.hashes) ∧
      (s.addTransaction a).1.execHashes = s.execHashes ∧
      (s.addTransaction a).1.limit = s.limit ∧
      (s.addTransaction a).2 = (if s.existed a.hash then AddRes.exist else AddRes.ok) := by
    intro s a
    unfold Pool.addTransaction Pool.add
    by_cases he : s.existed a.hash = true
    · simp [he]
    · simp only [he]
      simp only [Bool.false_eq_true, if_false]
      refine ⟨?_, ?_, ?_, ?_⟩
      · have hp := hashes_push s a
        unfold Pool.refreshGate; split <;> exact hp
      · unfold Pool.refreshGate; split <;> simp [Pool.execHashes, exec_push]
      · unfold Pool.refreshGate; split <;> simp [limit_push]
      · trivial
  have len : ∀ (s : Pool) (a : Tx), (s.addTransaction a).1.pending.length ≤ s.pending.length + 1 ∧
      s.pending.length ≤ (s.addTransaction a).1.pending.length := by
    intro s a
    have h1 := (key s a).1
    have : (s.addTransaction a).1.hashes.length = (s.addTransaction a).1.pending.length := by simp [Pool.hashes]
    have h0 : s.hashes.length = s.pending.length := by simp [Pool.hashes]
    rw [h1] at this
    split at this
    · omega
    · split at this
      · simp at this; omega
      · omega
  -- existence after one add: only the added hash is new
  have ex : ∀ (s : Pool) (a b : Tx), a.hash ≠ b.hash → (s.addTransaction a).1.existed b.hash = s.existed b.hash := by
    intro s a b hab
    have h1 := (key s a).1
    have h2 := (key s a).2.1
    have : ((s.addTransaction a).1.existed b.hash = true) ↔ (s.existed b.hash = true) := by
      rw [existed_iff, existed_iff, h1, h2]
      split
      · exact Iff.rfl
      · split
        · simp only [List.mem_append, List.mem_singleton]
          constructor
          · rintro ((h | h) | h)
            · exact Or.inl h
            · exact absurd h.symm hab
            · exact Or.inr h
          · rintro (h | h)
            · exact Or.inl (Or.inl h)
            · exact Or.inr h
        · exact Iff.rfl
    cases h3 : (s.addTransaction a).1.existed b.hash <;> cases h4 : s.existed b.hash <;> simp_all
  have kt := key s t
  have ku := key s u
  have ktu := key (s.addTransaction t).1 u
  have kut := key (s.addTransaction u).1 t
  have lt := len s t
  have lu := len s u
  refine ⟨?_, ?_, ?_, ?_⟩
  · rw [ktu.1, kut.1, ex s t u hne, ex s u t (Ne.symm hne), kt.1, ku.1, kt.2.2.1, ku.2.2.1]
    by_cases h1 : s.existed t.hash = true <;> by_cases h2 : s.existed u.hash = true
    · simp [h1, h2]
    · have : (s.addTransaction t).1.pending.length = s.pending.length := by
        have := kt.1; simp [h1] at this
        have e : (s.addTransaction t).1.hashes.length = s.hashes.length := by rw [this]
        simpa [Pool.hashes] using e
      simp [h1, h2, this]
    · have : (s.addTransaction u).1.pending.length = s.pending.length := by
        have := ku.1; simp [h2] at this
        have e : (s.addTransaction u).1.hashes.length = s.hashes.length := by rw [this]
        simpa [Pool.hashes] using e
      simp [h1, h2, this]
    · have r0 : s.pending.length < s.limit := by omega
      have r1 : (s.addTransaction t).1.pending.length < s.limit := by omega
      have r2 : (s.addTransaction u).1.pending.length < s.limit := by omega
      simp [h1, h2, r0, r1, r2]
      exact List.Perm.append_left _ (List.Perm.swap _ _ _)
  · rw [ktu.2.1, kut.2.1, kt.2.1, ku.2.1]
  · rw [ktu.2.2.2, ku.2.2.2, ex s t u hne]
  · rw [kut.2.2.2, kt.2.2.2, ex s u t (Ne.symm hne)]

example : ((Pool.empty 5).pending.length + 2 ≤ (Pool.empty 5).limit) := by decide

end Rangers.Props.C17C
