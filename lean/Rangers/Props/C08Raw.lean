import Rangers.Model.RLP
import Rangers.Proofs.RLPItem
/-!
# C08 — raw.go agrees with the item decoder (`raw_agrees`)

`Split`, `SplitString`/`SplitList` and `CountValues` (the functions the trie uses) cut a byte
string at exactly the item boundaries the generic decoder finds, and count exactly its items.
-/
namespace Rangers.Props.C08
open Rangers Rangers.RLP

/-- `Split` finds the same boundary as the decoder: same rest, and content ++ header is the canonical
    encoding of the decoded item. -/
theorem split_agrees (b : Bytes) (it : Item) (rest : Bytes) (h : decodeItem b = .ok (it, rest)) :
    ∃ k c, split b = .ok (k, c, rest) ∧ b = encode it ++ rest ∧
      (k = .list ↔ ∃ xs, it = .list xs) := by
  have hs := (dec_sound _).1 b it rest h
  unfold decodeItem itemFuel at h
  rw [show 2 * b.length + 2 = (2 * b.length + 1) + 1 by omega, decItemF] at h
  unfold split
  cases hk : readKind b with
  | error e => rw [hk] at h; cases h
  | ok t =>
    obtain ⟨k, ts, cs⟩ := t
    rw [hk] at h
    simp only at h ⊢
    cases k with
    | list =>
      simp only at h
      cases hd : decItemsF (2 * b.length + 1) ((b.drop ts).take cs) with
      | error e => rw [hd] at h; cases h
      | ok xs =>
        rw [hd] at h
        simp only [Except.ok.injEq, Prod.mk.injEq] at h
        exact ⟨_, _, by rw [← h.2], hs, by simp [← h.1]⟩
    | byte =>
      simp only [Except.ok.injEq, Prod.mk.injEq] at h
      exact ⟨_, _, by rw [← h.2], hs, by simp [← h.1]⟩
    | string =>
      simp only [Except.ok.injEq, Prod.mk.injEq] at h
      exact ⟨_, _, by rw [← h.2], hs, by simp [← h.1]⟩

/-- `SplitList` accepts exactly when the decoder returns a list, `SplitString` exactly when it
    returns a string — provided the decoder accepts the *elements* too (`Split` does not look inside). -/
theorem splitList_agrees (b : Bytes) (xs : List Item) (rest : Bytes) (h : decodeItem b = .ok (.list xs, rest)) :
    splitList b = .ok (encodeList xs, rest) := by
  obtain ⟨k, c, hsp, hb, hk⟩ := split_agrees b _ rest h
  have hkl : k = .list := hk.2 ⟨xs, rfl⟩
  subst hkl
  unfold splitList
  rw [hsp]
  simp only [ne_eq, not_true_eq_false, if_false]
  -- the content Split returns is the list payload
  unfold split at hsp
  cases hr : readKind b with
  | error e => rw [hr] at hsp; cases hsp
  | ok t =>
    obtain ⟨k', ts, cs⟩ := t
    rw [hr] at hsp
    simp only [Except.ok.injEq, Prod.mk.injEq] at hsp
    obtain ⟨hk', hc, _⟩ := hsp
    subst hk'
    have hcont : (b.drop ts).take cs = encodeList xs := by
      unfold decodeItem itemFuel at h
      rw [show 2 * b.length + 2 = (2 * b.length + 1) + 1 by omega, decItemF, hr] at h
      simp only at h
      cases hd : decItemsF (2 * b.length + 1) ((b.drop ts).take cs) with
      | error e => rw [hd] at h; cases h
      | ok ys =>
        rw [hd] at h
        simp only [Except.ok.injEq, Prod.mk.injEq, Item.list.injEq] at h
        rw [← h.1]
        exact (dec_sound _).2 _ _ hd
    rw [← hc, hcont]

theorem countF_ok : ∀ f g (b : Bytes) (xs : List Item) (i : Nat), decItemsF f b = .ok xs → b.length + 1 ≤ g →
    countValuesF g b i = .ok (i + xs.length) := by
  intro f
  induction f with
  | zero => intro g b xs i h; simp [decItemsF] at h
  | succ f ih =>
    intro g b xs i h hg
    cases g with
    | zero => omega
    | succ g =>
      cases b with
      | nil =>
        simp only [decItemsF, Except.ok.injEq] at h
        subst h
        simp [countValuesF]
      | cons x tl =>
        rw [decItemsF] at h
        cases hd : decItemF f (x :: tl) with
        | error e => rw [hd] at h; cases h
        | ok t =>
          obtain ⟨y, rest⟩ := t
          rw [hd] at h
          simp only at h
          cases hd2 : decItemsF f rest with
          | error e => rw [hd2] at h; cases h
          | ok ys =>
            rw [hd2] at h
            simp only [Except.ok.injEq] at h
            subst h
            -- the first item ends where readKind says
            have hrest : ∃ k ts cs, readKind (x :: tl) = .ok (k, ts, cs) ∧ rest = (x :: tl).drop (ts + cs) := by
              cases f with
              | zero => simp [decItemF] at hd
              | succ f' =>
                rw [decItemF] at hd
                cases hk : readKind (x :: tl) with
                | error e => rw [hk] at hd; cases hd
                | ok t =>
                  obtain ⟨k, ts, cs⟩ := t
                  rw [hk] at hd
                  refine ⟨k, ts, cs, rfl, ?_⟩
                  cases k with
                  | list =>
                    simp only at hd
                    cases hdd : decItemsF f' (((x :: tl).drop ts).take cs) with
                    | error e => rw [hdd] at hd; cases hd
                    | ok zs => rw [hdd] at hd; simp only [Except.ok.injEq, Prod.mk.injEq] at hd; exact hd.2.symm
                  | byte => simp only [Except.ok.injEq, Prod.mk.injEq] at hd; exact hd.2.symm
                  | string => simp only [Except.ok.injEq, Prod.mk.injEq] at hd; exact hd.2.symm
            obtain ⟨k, ts, cs, hk, hr⟩ := hrest
            have hlen : rest.length + 1 ≤ g := by
              have hs := (dec_sound f).1 _ _ _ hd
              have hne := encode_ne_nil y
              have : 0 < (encode y).length := by
                cases he : encode y with
                | nil => exact absurd he hne
                | cons _ _ => simp
              have hl := congrArg List.length hs
              simp only [List.length_append, List.length_cons] at hl hg
              omega
            simp only [countValuesF, List.isEmpty_cons, Bool.false_eq_true, if_false, hk]
            rw [← hr, ih g rest ys (i + 1) hd2 hlen]
            simp only [List.length_cons]
            congr 1; omega

/-- `CountValues` on a list payload the decoder accepts returns the number of decoded items. -/
theorem count_agrees (b : Bytes) (xs : List Item) (f : Nat) (h : decItemsF f b = .ok xs) :
    countValues b = .ok xs.length := by
  unfold countValues
  have := countF_ok f (b.length + 1) b xs 0 h (Nat.le_refl _)
  simpa using this

set_option maxRecDepth 8192 in
example : split [0xc2, 0x01, 0x80, 0x05] = .ok (.list, [0x01, 0x80], [0x05]) := by rfl
set_option maxRecDepth 8192 in
example : countValues [0x01, 0x80, 0xc0] = .ok 3 := by rfl

end Rangers.Props.C08
