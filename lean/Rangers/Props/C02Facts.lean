import Rangers.Generated.C02Facts
import Rangers.Model.Trie
/-!
C02, T-gen obligations: the constants and construction sites the trie model hard-codes are
the ones `gen/cmd/c02facts` re-extracts from `src/storage/trie` on every run
(`Rangers/Generated/C02Facts.lean`).  A changed constant, a node built by `insert`/`delete`
without `newFlag()`, or a re-ordered iterator loop makes one of these fail.
-/
namespace Rangers.Props.C02Facts
open Rangers Rangers.Trie Rangers.Generated.C02

/-- the model's constant root of the empty trie is the literal in trie.go -/
theorem emptyRoot_matches_source : toHex emptyRoot = emptyRootHex := by decide

/-- `hasher.store`: a node is embedded iff its RLP is shorter than the threshold in the source -/
theorem embed_rule_matches_source (H : Bytes → Bytes) (e : Bytes) :
    embedOp = "<" ∧ embedOrHash H e = if e.length < embedThreshold then e else rlpString (H e) :=
  ⟨by decide, rfl⟩

/-- a full node has the source's number of slots; all but the last are hashed -/
theorem full_node_slots_match_source : emptyFull.length = fullSlots ∧ hashedSlots + 1 = fullSlots ∧ hashedSlots = 16 := by
  decide

/-- `keybytesToHex` appends the source's terminator -/
theorem terminator_matches_source (k : Bytes) : keybytesToHex k = hexOfBytes k ++ [terminator] := rfl

/-- `hexToCompact` flag bits -/
theorem hexprefix_flags_match_source :
    hexToCompact [terminator] = [UInt8.ofNat (1 <<< termShift)] ∧
    hexToCompact [1] = [UInt8.ofNat ((1 <<< oddShift) + 1)] := by decide

/-- `delete` does not try to merge the value slot -/
theorem reduce_skip_matches_source : reduceSkipSlot = terminator ∧ reduceSkipSlot = 16 := by decide

/-- mechanism "dirty flag forces re-hash of every modified path": every node `insert`/`delete`
    construct carries `t.newFlag()` (hash = nil, dirty), every copied node is re-flagged -/
theorem every_constructed_node_is_dirty : nodeLiterals = nodeLiteralsWithNewFlag ∧ copySites = reflagSites := by
  decide

/-- the iterator walks a full node's slots in ascending index order through the value slot
    (which is why a key follows its extensions: known finding `iter-order-prefix-keys`) -/
theorem iterator_loop_matches_source :
    iterLoopInit = "i := parent.index + 1" ∧ iterLoopCond = "i < len(node.Children)" := by decide

/-- the trie package keeps no mutable package-level state: its package variables are these seven
    (constants, the error value, the hasher `sync.Pool`) and nothing assigns to them or into them —
    so calls cannot influence one another through package state (the pool's scratch buffers are
    exercised by the retention / repeated-history streams of the correspondence run) -/
theorem no_package_state_written :
    packageVars = "emptyRoot,emptyState,errIteratorEnd,hasherPool,indices,nilValueNode,secureKeyPrefix" ∧
    packageVarWrites = 0 := by decide

/-- nothing in the trie package reads a proposal flag, the chain configuration or the block
    height: the property has no fork-configuration-dependent path -/
theorem no_fork_configuration_reads : forkConfigReads = 0 := by decide

end Rangers.Props.C02Facts
