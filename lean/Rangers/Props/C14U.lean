import Rangers.Model.Bls14Verify
import Rangers.Proofs.Bls14Pairing
import Rangers.Proofs.Bls14Model
import Rangers.Props.C14
import Rangers.Props.C14E
/-!
# C14, part 3 — exactly one signature is accepted

The pairing is a parameter of `verifySig`. Here it is instantiated by an *interpretation*
`Interp` of the model's points in abstract groups with a bilinear map whose kernel against `g₂`
is trivial (the clause "the pairing used for verification is bilinear and non-degenerate" is a
HYPOTHESIS, sampled on the implementation by the searcher every run). Under it `verifySig`
accepts exactly the honest signature, and everything the property lists is rejected.
-/
namespace Rangers.Props.C14
open Rangers Rangers.Model.Bls14 Rangers.Proofs.Bls14

/-- What is assumed of bn256: the meaning `ι` / `κ` of model points in groups `G1`, `G2`, a
    bilinear `e` into `GT`, `ι` injective on valid (on-curve, reduced) points, identity ↦ 0, and
    `e(·, g₂)` with trivial kernel. -/
structure Interp (G1 G2 GT : Type) [AddCommGroup G1] [AddCommGroup G2] [CommGroup GT] where
  e : G1 → G2 → GT
  bil : Bilinear e
  ι : Pt → G1
  κ : Pt2 → G2
  ι_inf : ι .inf = 0
  ι_inj : ∀ a b, a.onCurve = true → a.reduced = true → b.onCurve = true → b.reduced = true →
    ι a = ι b → a = b
  nondeg : ∀ a : G1, e a (κ g2Gen) = 1 → a = 0

variable {G1 G2 GT : Type} [AddCommGroup G1] [AddCommGroup G2] [CommGroup GT]

/-- `PairIsEuqal(Pair(s, q), Pair(h, k))` under the interpretation. -/
noncomputable def Interp.pairEq (I : Interp G1 G2 GT) : PairEq :=
  fun s q h k => @decide (I.e (I.ι s) (I.κ q) = I.e (I.ι h) (I.κ k)) (Classical.dec _)

theorem Interp.pairEq_iff (I : Interp G1 G2 GT) (s h : Pt) (q k : Pt2) :
    I.pairEq s q h k = true ↔ I.e (I.ι s) (I.κ q) = I.e (I.ι h) (I.κ k) := by
  simp [Interp.pairEq]

/-- A key pair / message / honest signature in the interpretation:
    `pk = sk·g₂` and `σ★ = sk·H(m)` is a valid point. -/
structure Honest (I : Interp G1 G2 GT) (sk : ℕ) (hm σ : Pt) (pk : Pt2) : Prop where
  key : I.κ pk = sk • I.κ g2Gen
  sig : I.ι σ = sk • I.ι hm
  onCurve : σ.onCurve = true
  reduced : σ.reduced = true

/-! ### a concrete interpretation (non-vacuity; also the carrier of the counterexample) -/

/-- Free interpretation: G1 = functions `Pt → ℤ`, a point is its indicator, `G2 = ℤ`,
    `e(a, n) = n • a`. It satisfies every field of `Interp`. -/
noncomputable def toyInterp : Interp (Pt → ℤ) ℤ (Multiplicative (Pt → ℤ)) where
  e a n := Multiplicative.ofAdd (n • a)
  bil := ⟨fun a b q => by simp [smul_add], fun a q q' => by simp [add_smul]⟩
  ι q := match q with
    | .inf => 0
    | p => Pi.single p 1
  κ _ := 1
  ι_inf := rfl
  ι_inj := by
    intro a b _ _ _ _ h
    cases a with
    | inf =>
      cases b with
      | inf => rfl
      | aff x y =>
        have := congrFun h (.aff x y)
        simp at this
    | aff x y =>
      cases b with
      | inf =>
        have := congrFun h (.aff x y)
        simp at this
      | aff x' y' =>
        have := congrFun h (.aff x y)
        simp only [Pi.single_eq_same] at this
        by_contra hne
        rw [Pi.single_eq_of_ne hne] at this
        exact one_ne_zero this
  nondeg := by
    intro a h
    have : Multiplicative.toAdd (Multiplicative.ofAdd ((1 : ℤ) • a)) = 0 := by rw [h]; rfl
    simpa using this

/-- In the free interpretation the generator signs itself under `sk = 1`. -/
theorem toy_honest : Honest toyInterp 1 g1Gen g1Gen g2Gen :=
  ⟨by simp [toyInterp], by simp, by decide, by decide⟩

/-! ## the headline theorem -/

/-- **`verify_iff_unique`** (full strength at the level of group elements): for EVERY secret key
    `sk` (zero included), message point, and signature value the code can hold, `VerifySig`
    accepts iff the value is the honest signature `sk·H(m)`. -/
theorem verify_iff_unique (I : Interp G1 G2 GT) {sk : ℕ} {hm σ : Pt} {pk : Pt2}
    (H : Honest I sk hm σ pk) (sig : Sig) (hsr : ∀ s, sig = .pt s → s.reduced = true) :
    verifySig I.pairEq hm (.pt pk) sig = .accept ↔ sig = .pt σ := by
  rw [verify_accept_iff]
  constructor
  · rintro ⟨s, k, hs, hk, hc, hpe⟩
    cases hk
    rw [I.pairEq_iff, H.key, I.bil.unique _ I.nondeg, ← H.sig] at hpe
    rw [hs, I.ι_inj s σ hc (hsr s hs) H.onCurve H.reduced hpe]
  · intro hs
    refine ⟨σ, pk, hs, rfl, H.onCurve, ?_⟩
    rw [I.pairEq_iff, H.key, I.bil.unique _ I.nondeg, H.sig]

example : verifySig toyInterp.pairEq g1Gen (.pt g2Gen) (.pt g1Gen) = .accept :=
  (verify_iff_unique toyInterp toy_honest _ (by rintro s ⟨⟩; decide)).mpr rfl

/-- Everything else is rejected (never a panic): the exact oracle of the property. -/
theorem verify_rejects_of_ne (I : Interp G1 G2 GT) {sk : ℕ} {hm σ : Pt} {pk : Pt2}
    (H : Honest I sk hm σ pk) (sig : Sig) (hsr : ∀ s, sig = .pt s → s.reduced = true)
    (hne : sig ≠ .pt σ) : verifySig I.pairEq hm (.pt pk) sig = .reject := by
  have h1 := (verify_iff_unique I H sig hsr).not.mpr hne
  have h2 := verify_never_panics I.pairEq hm (.pt pk) sig
  cases hv : verifySig I.pairEq hm (.pt pk) sig <;> simp_all

/-- The honest signature produced by the model's own `Sign` is accepted. -/
theorem honest_accepted (I : Interp G1 G2 GT) {sk : ℕ} {hm : Pt} {pk : Pt2}
    (H : Honest I sk hm (Pt.mul hm sk) pk) :
    verifySig I.pairEq hm (.pt pk) (sign sk hm) = .accept :=
  (verify_iff_unique I H _ (by rintro s ⟨⟩; exact H.reduced)).mpr rfl

/-! ## the rejections the property lists -/

/-- Identity element: rejected unless the honest signature IS the identity (`sk·H(m) = 0`,
    i.e. the invalid key `sk ≡ 0`). Note the code has no up-front identity check; the
    rejection comes from the pairing comparison. -/
theorem identity_rejected (I : Interp G1 G2 GT) {sk : ℕ} {hm σ : Pt} {pk : Pt2}
    (H : Honest I sk hm σ pk) (hnz : sk • I.ι hm ≠ 0) :
    verifySig I.pairEq hm (.pt pk) (.pt .inf) = .reject := by
  apply verify_rejects_of_ne I H _ (by rintro s ⟨⟩; rfl)
  intro h
  cases h
  exact hnz (by rw [← H.sig, I.ι_inf])

/-- Negation `−σ` of the honest signature `σ = (x, y)`, `y ≠ 0`. -/
theorem neg_rejected (I : Interp G1 G2 GT) {sk : ℕ} {hm : Pt} {x y : Nat} {pk : Pt2}
    (H : Honest I sk hm (.aff x y) pk) (hy : y ≠ 0) :
    verifySig I.pairEq hm (.pt pk) (.pt (Pt.neg (.aff x y))) = .reject := by
  have hr := H.reduced
  simp only [Pt.reduced, Bool.and_eq_true, decide_eq_true_eq] at hr
  apply verify_rejects_of_ne I H _ (by rintro s ⟨⟩; exact (neg_onCurve _ H.onCurve H.reduced).2)
  intro h
  exact neg_ne_self x y hr.2 hy (G1Val.pt.inj h)

/-- Sum with another element (`σ + σ'`): any point `s` that means `σ + d` with `d ≠ 0`. -/
theorem sum_rejected (I : Interp G1 G2 GT) {sk : ℕ} {hm σ s : Pt} {pk : Pt2}
    (H : Honest I sk hm σ pk) (hs : s.reduced = true) (d : G1) (hd : d ≠ 0)
    (hsum : I.ι s = I.ι σ + d) :
    verifySig I.pairEq hm (.pt pk) (.pt s) = .reject := by
  apply verify_rejects_of_ne I H _ (by rintro t ⟨⟩; exact hs)
  intro h
  cases h
  exact hd (by simpa using hsum)

/-- Signature made for another message `m'` (`H(m') ≠ H(m)` in the group) under the same key,
    in a group of prime exponent `r` with `r ∤ sk`. -/
theorem other_message_rejected (I : Interp G1 G2 GT) {sk r : ℕ} {hm hm' σ σ' : Pt} {pk : Pt2}
    (H : Honest I sk hm σ pk) (H' : Honest I sk hm' σ' pk)
    (hp : r.Prime) (hr : ∀ a : G1, r • a = 0) (hsk : ¬ r ∣ sk) (hne : I.ι hm' ≠ I.ι hm) :
    verifySig I.pairEq hm (.pt pk) (.pt σ') = .reject := by
  apply verify_rejects_of_ne I H _ (by rintro t ⟨⟩; exact H'.reduced)
  intro h
  cases h
  have : sk • (I.ι hm' - I.ι hm) = 0 := by rw [smul_sub, ← H'.sig, ← H.sig, sub_self]
  exact hne (sub_eq_zero.mp (eq_zero_of_nsmul_of_prime r sk hp _ (hr _) this hsk))

/-- Signature made with another key `sk' ≢ sk (mod r)` for the same message (`H(m) ≠ 0`). -/
theorem other_key_rejected (I : Interp G1 G2 GT) {sk sk' r : ℕ} {hm σ σ' : Pt} {pk pk' : Pt2}
    (H : Honest I sk hm σ pk) (H' : Honest I sk' hm σ' pk')
    (hp : r.Prime) (hr : ∀ a : G1, r • a = 0) (hne : ¬ sk' ≡ sk [MOD r]) (hm0 : I.ι hm ≠ 0) :
    verifySig I.pairEq hm (.pt pk) (.pt σ') = .reject := by
  apply verify_rejects_of_ne I H _ (by rintro t ⟨⟩; exact H'.reduced)
  intro h
  cases h
  exact hne (modEq_of_nsmul_eq r sk' sk hp (I.ι hm) (hr _) hm0 (by rw [← H'.sig, ← H.sig]))

/-! ## byte level -/

/-- On bytes: accepted iff the first 64 bytes decode (coordinates mod p!) to the honest point. -/
theorem verify_bytes_iff (I : Interp G1 G2 GT) {sk : ℕ} {hm σ : Pt} {pk : Pt2}
    (H : Honest I sk hm σ pk) (pkb sigb : Bytes) (hpk : byteToPublicKey pkb = .pt pk) :
    verifyBytes I.pairEq hm pkb sigb = .accept ↔
      g1Unmarshal .nil sigb = (.pt σ, .ok (sigb.drop 64)) := by
  unfold verifyBytes
  rw [hpk]
  have hred : ∀ s, deserializeSign sigb = .pt s → s.reduced = true := by
    intro s hs
    unfold deserializeSign Sig.deserialize at hs
    split at hs
    · cases hs
    · rcases g1Unmarshal_nil_cases sigb with ⟨h, _⟩ | ⟨q, h, _, hr⟩ | ⟨x, y, h, _, hx, hy⟩
      · rw [h] at hs; cases hs
      · rw [h] at hs; cases hs; exact hr
      · rw [h] at hs; cases hs; simp [Pt.reduced, hx, hy]
  rw [verify_iff_unique I H _ hred]
  unfold deserializeSign Sig.deserialize
  rcases g1Unmarshal_nil_cases sigb with ⟨h, hl⟩ | ⟨q, h, _, _⟩ | ⟨x, y, h, hoff, _, _⟩
  · rw [h]; split <;> simp
  · have hne : ¬ (sigb.length == 0) = true := by
      have := (g1_unmarshal_ok _ _ _ _ h).1
      intro h0
      have : sigb.length = 0 := by simpa using h0
      omega
    rw [h, if_neg hne]; simp
  · have hne : ¬ (sigb.length == 0) = true := by
      intro h0
      have h00 : sigb.length = 0 := by simpa using h0
      have : sigb.length < 64 := by omega
      rw [g1_unmarshal_short _ _ this] at h; cases h
    rw [h, if_neg hne]
    constructor
    · intro hs
      have hc := H.onCurve
      rw [← G1Val.pt.inj hs] at hc
      simp only [Pt.onCurve] at hc
      rw [hc] at hoff; cases hoff
    · intro hs; cases hs

/-- **FullStatement** of the first clause as the property words it ("false for every other
    value … every byte string presented as a signature"): accepted iff the byte string IS the
    honest signature's serialisation. -/
def FullStatement_verify_bytes_unique : Prop :=
  ∀ (G1 G2 GT : Type) [AddCommGroup G1] [AddCommGroup G2] [CommGroup GT] (I : Interp G1 G2 GT)
    (sk : ℕ) (hm σ : Pt) (pk : Pt2) (_ : Honest I sk hm σ pk)
    (pkb sigb : Bytes) (_ : byteToPublicKey pkb = .pt pk),
    verifyBytes I.pairEq hm pkb sigb = .accept ↔ sigb = Sig.serialize (.pt σ)

/-- False of the model and of the code (known finding `overlong-sig-accepted`; replayed by
    `corpus/C14/edge.ops` and the searcher on every run): trailing bytes are never looked at. -/
theorem verify_bytes_unique_counterexample : ¬ FullStatement_verify_bytes_unique := by
  intro h
  have hpk : byteToPublicKey (g2Marshal g2Gen) = .pt g2Gen :=
    pubkey_roundtrip _ _ (by decide) (by decide)
  have h1 := h _ _ _ toyInterp 1 g1Gen g1Gen g2Gen toy_honest (g2Marshal g2Gen)
    (g1Marshal g1Gen ++ [0xff]) hpk
  have h2 := (verify_bytes_iff toyInterp toy_honest (g2Marshal g2Gen) (g1Marshal g1Gen ++ [0xff]) hpk).mpr
    (by
      rw [g1_unmarshal_marshal_append .nil g1Gen [0xff] (by decide) (by decide)]
      rw [List.drop_append_of_le_length (by simp [g1_marshal_length]),
        List.drop_of_length_le (by simp [g1_marshal_length])]
      simp)
  have := congrArg List.length (h1.mp h2)
  simp [Sig.serialize, g1_marshal_length] at this

/-- **`verify_bytes_unique_partial`**: restricted to canonical encodings (exactly 64 bytes, both
    coordinates `< p`) the byte-level statement holds — the two recorded findings are the only
    way a byte string other than the honest serialisation is accepted. -/
theorem verify_bytes_unique_partial (I : Interp G1 G2 GT) {sk : ℕ} {hm σ : Pt} {pk : Pt2}
    (H : Honest I sk hm σ pk) (pkb sigb : Bytes) (hpk : byteToPublicKey pkb = .pt pk)
    (hcan : Canonical sigb) :
    verifyBytes I.pairEq hm pkb sigb = .accept ↔ sigb = Sig.serialize (.pt σ) := by
  rw [verify_bytes_iff I H pkb sigb hpk]
  constructor
  · intro h
    exact ((g1_unmarshal_canonical_partial sigb _ σ hcan h).1).symm
  · intro h
    rw [h]
    simp only [Sig.serialize]
    rw [g1_marshal_unmarshal .nil σ H.onCurve H.reduced,
      List.drop_of_length_le (by simp [g1_marshal_length])]

example : Canonical (Sig.serialize (.pt g1Gen)) := by
  show Canonical (g1Marshal g1Gen)
  refine ⟨g1_marshal_length _, ?_, ?_⟩ <;> decide

end Rangers.Props.C14
