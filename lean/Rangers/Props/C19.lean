import Rangers.Model.GroupChain
namespace Rangers.Props.C19
open Rangers Rangers.Model.GroupChain

theorem sget_sput_same (s : Store) (k : Bytes) (v : Val) : sget (sput s k v) k = some v := by
  simp [sput, sget]

end Rangers.Props.C19
