import Rangers.Proofs.GroupChainCrash
import Rangers.Proofs.GroupChainMirror
import Rangers.Proofs.GroupChainSql
import Rangers.Proofs.GroupChainFork
/-!
Property C19 — the group chain is a gap-free linked list whose height index matches it.

All theorems are about `Rangers.Model.GroupChain` — the functions the compiled driver
`drv_c19` executes against the real `groupChain` code on every run (after the `fix:` commit
"groupChain.remove deletes the removed group's height-index entry").

`Rep l c` (Proofs/GroupChainInv.lean) says that the concrete state `c` (raw-byte-keyed store
+ in-memory `count` / `lastGroup`) represents the list `l` of groups, genesis first. The
clauses of the property are consequences of `Rep` (part A); every operation preserves `Rep`
(part B); restart and crash points are part C.
-/
namespace Rangers.Props.C19
open Rangers Rangers.Model.GroupChain

/-! ## A. What `Rep` gives: the clauses of the statement -/

/-- "the number of groups equals the length of that list" -/
theorem count_eq_length {l : List Group} {c : Chain} (r : Rep l c) : c.count = l.length := r.count

/-- "looking up height i returns the i-th group of the list for every i below the count" -/
theorem byHeight_below_count {l : List Group} {c : Chain} (r : Rep l c) (i : Nat) (g : Group)
    (h : l[i]? = some g) : getGroupByHeight c.disk i = some g ∧ g.height = i :=
  ⟨r.byHeight_lt h, r.height i g h⟩

/-- "…and nothing for i at or above it" — for every uint64 height except the single one whose
    8-byte key spells `"gcurrent"` (see the counterexample below). -/
theorem byHeight_at_or_above_count_partial {l : List Group} {c : Chain} (r : Rep l c) (i : Nat)
    (h1 : l.length ≤ i) (h2 : i < u64) (h3 : i ≠ curHeight) : getGroupByHeight c.disk i = none :=
  r.byHeight_ge h1 h2 h3

def FullStatementByHeightAbove : Prop :=
  ∀ (l : List Group) (c : Chain) (i : Nat), Rep l c → l.length ≤ i → i < u64 →
    getGroupByHeight c.disk i = none

/-- The height index and the `gcurrent` pointer share one key space: height
    0x6763757272656e74 always "holds" the last group. -/
theorem byHeight_curHeight_is_last {l : List Group} {c : Chain} (r : Rep l c) :
    getGroupByHeight c.disk curHeight = some c.last := by
  simp [getGroupByHeight, slotId, hkey_curHeight, r.cur, r.byId r.last_mem]

def g0 : Group := { id := [0x90, 0x01], pre := [], parent := [0x90, 0x01], height := 0, create := 0 }
def gA : Group := { id := [0xa1], pre := [0x90, 0x01], parent := [0x90, 0x01], height := 7777, create := 1 }
def gB : Group := { id := [0xb1, 0xb2], pre := [0x90, 0x01], parent := [0x90, 0x01], height := 7777, create := 2 }

theorem genesisOK_g0 : GenesisOK [g0] where
  ne := by simp
  linked := by simp [Linked, g0]
  nodup := by simp
  idok := by intro g hg; simp at hg; subst hg; simp [IdOK, g0, cntKey]
  bound := by simp [lenBound]

theorem byHeight_at_or_above_count_counterexample : ¬ FullStatementByHeightAbove := by
  intro h
  obtain ⟨c, _, r⟩ := rep_init genesisOK_g0 []
  have h1 := h _ c curHeight r (by simp [stampFrom, curHeight]) (by simp [curHeight, u64])
  rw [byHeight_curHeight_is_last r] at h1
  cases h1

/-- "every listed group is retrievable by id" -/
theorem listed_by_id {l : List Group} {c : Chain} (r : Rep l c) (g : Group) (h : g ∈ l) :
    getGroupById c.disk g.id = some g := r.byId h

/-- "the recorded last group is reachable from the genesis group through predecessor links":
    the iterator (`Current`, then `MovePre` until nil) yields exactly the list, last first,
    and stops at the genesis group `l[0]`. -/
theorem last_reachable_from_genesis {l : List Group} {c : Chain} (r : Rep l c) :
    iterList c = l.reverse ∧ (iterList c).getLast? = l.head? ∧ (iterList c).head? = some c.last := by
  have h := iterList_rep r
  refine ⟨h, by rw [h]; simp, by rw [h]; simp [r.last]⟩

/-- The sync reader (`getSyncGroupsByHeight`) returns exactly the listed groups from `h` on —
    in particular no nil entry (what lead 1 produced before the fix). -/
theorem sync_exact {l : List Group} {c : Chain} (r : Rep l c) (h n : Nat) (hb : h + n < lenBound) :
    syncFrom c.disk h n = ((l.drop h).take n).map some := syncFrom_rep r n h hb

/-! ## B. Every operation preserves `Rep` -/

/-- First start-up on an empty store with well-formed genesis groups. -/
theorem inv_init {gs : List Group} (ok : GenesisOK gs) (m : List Bytes) :
    ∃ c, restart [] m gs = some (.alive c) ∧ Rep (stampFrom 0 gs) c := rep_init ok m

example : ∃ c, Rep [g0] c := by
  obtain ⟨c, _, r⟩ := inv_init genesisOK_g0 []
  exact ⟨c, by simpa [stampFrom, stamped, g0] using r⟩

/-- An accepted `AddGroup` appends exactly the new group, stamped with height = old count. -/
theorem inv_add {l : List Group} {c : Chain} (r : Rep l c) (g : Group)
    (hb : l.length + 1 < lenBound) (hid : IdOK g.id) (hok : addCheck c g = .ok) :
    addGroup c g = (.ok, save c g) ∧ Rep (l ++ [stamped l.length g]) (save c g) :=
  rep_add r g hb hid hok

/-- `AddGroup` is accepted only with predecessor = current last and an existing parent, and only
    for an id not yet in the store. -/
theorem add_requires {c : Chain} {g : Group} (h : (addGroup c g).1 = .ok) :
    c.last.id = g.pre ∧ shas c.disk g.parent = true ∧ shas c.disk g.id = false := by
  have hok : addCheck c g = .ok := by
    by_cases hh : addCheck c g = .ok
    · exact hh
    · rw [addGroup_rejected hh] at h; exact absurd h hh
  obtain ⟨h1, h2, h3⟩ := addCheck_ok hok
  exact ⟨h3, h2, h1⟩

/-- A rejected `AddGroup` writes nothing. -/
theorem inv_add_rejected {c : Chain} {g : Group} (h : addCheck c g ≠ .ok) :
    addGroup c g = (addCheck c g, c) := addGroup_rejected h

/-- `remove(last)` with at least two groups drops exactly the last one. -/
theorem inv_remove {l : List Group} {g : Group} {c : Chain} (r : Rep (l ++ [g]) c) (hl : l ≠ []) :
    (remove c c.last).1 = true ∧ Rep l (remove c c.last).2 := rep_remove r hl

/-- `remove` of the genesis group is refused and writes nothing. -/
theorem inv_remove_genesis {g : Group} {c : Chain} (r : Rep [g] c) : remove c c.last = (false, c) :=
  remove_single r

/-- `removeFromCommonAncestor(ancestor)` (the fork switch) leaves exactly heights `0 … h`. -/
theorem inv_rmto {l : List Group} {c : Chain} (r : Rep l c) (h : Nat) :
    Rep (l.take (h + 1)) (rmTo c h) := rep_rmTo r h

/-- "remove followed by adding a different group at the same height". -/
theorem inv_remove_then_add_other {l : List Group} {g g2 : Group} {c : Chain}
    (r : Rep (l ++ [g]) c) (hl : l ≠ []) (hb : l.length + 1 < lenBound) (hid : IdOK g2.id)
    (hok : addCheck (remove c c.last).2 g2 = .ok) :
    Rep (l ++ [stamped l.length g2]) (addGroup (remove c c.last).2 g2).2 ∧
      getGroupByHeight (addGroup (remove c c.last).2 g2).2.disk l.length = some (stamped l.length g2) ∧
      getGroupById (addGroup (remove c c.last).2 g2).2.disk g.id = (if g.id = g2.id then some (stamped l.length g2) else none) := by
  have r1 := (rep_remove r hl).2
  have h2 := rep_add r1 g2 hb hid hok
  rw [h2.1]
  refine ⟨h2.2, ?_, ?_⟩
  · exact h2.2.byHeight_lt (by simp)
  · by_cases e : g.id = g2.id
    · simp only [e, if_true]
      have := h2.2.byId (g := stamped l.length g2) (by simp)
      simpa [stamped] using this
    · simp only [e, if_false]
      -- g.id was deleted by remove and is not written by save
      have hlast : c.last = g := by have := r.last; simp at this; exact this.symm
      have hgid : IdOK g.id := r.idok g (by simp)
      have hdel : sget (remove c c.last).2.disk g.id = none := by
        obtain ⟨p, hp⟩ := exists_getLast? hl
        have hpm : p ∈ l := List.mem_of_getLast? hp
        have hlk := (Linked_snoc [] l g).mp r.linked
        have hgpre : g.pre = p.id := by rw [hlk.2, lastId_of_getLast? [] l p hp]
        have hpget : getGroupById c.disk g.pre = some p := by
          rw [hgpre]; exact r.byId (List.mem_append_left _ hpm)
        simp only [remove, hlast, hpget]
        rw [sget_remove]
        simp [hgid.ne_cntKey, hgid.ne_hkey, hgid.ne_curKey]
      have : sget (save (remove c c.last).2 g2).disk g.id = none := by
        simp only [save]
        rw [sget_save]
        simp [hgid.ne_cntKey, hgid.ne_hkey, hgid.ne_curKey, e, hdel]
      simp [getGroupById, this]

/-- Restart after a completed operation: start-up reads back the same chain. -/
theorem inv_restart {l : List Group} {c : Chain} (r : Rep l c) (m : List Bytes) (gen : List Group) :
    ∃ c', restart c.disk m gen = some (.alive c') ∧ c'.disk = c.disk ∧ c'.count = c.count ∧
      c'.last = c.last ∧ Rep l c' := rep_restart r m gen

/-- One step refines the abstract list operation (`specStep`). -/
theorem inv_step {l : List Group} {c : Chain} (r : Rep l c) (gen : List Group) (op : Op)
    (hok : OpOK op) (hb : l.length + 1 < lenBound) :
    ∃ c', stepOp gen c op = some c' ∧ Rep (specStep l c op) c' := rep_step r gen op hok hb

/-- Headline: from first start-up, after ANY sequence of add / remove-last / fork-switch removal /
    restart operations (ids of added groups are proper ids), the chain represents a list that
    still begins with the genesis group — hence all clauses of part A hold at all times. -/
theorem inv_reachable {gs : List Group} (ok : GenesisOK gs) (ops : List Op)
    (hops : ∀ op ∈ ops, OpOK op) (hb : gs.length + ops.length < lenBound) :
    ∃ c0 c l, restart [] [] gs = some (.alive c0) ∧ runOps gs c0 ops = some c ∧ Rep l c ∧
      l.head? = (stampFrom 0 gs).head? := by
  obtain ⟨c0, h0, r0⟩ := rep_init ok []
  obtain ⟨c, l, h1, r1, hh⟩ := rep_run gs ops (stampFrom 0 gs) c0 r0 hops (by rw [stampFrom_length]; exact hb)
  exact ⟨c0, c, l, h0, h1, r1, hh⟩

example : ∃ c, runOps [g0] (Classical.choose (inv_init genesisOK_g0 [])) [.add gA, .rmlast, .add gB, .restart] = some c :=
  by
    have hc := Classical.choose_spec (inv_init genesisOK_g0 [])
    obtain ⟨c, l, h, _, _⟩ := rep_run [g0] [.add gA, .rmlast, .add gB, .restart] _ _ hc.2
      (by intro op hop; simp at hop; rcases hop with rfl | rfl | rfl | rfl <;> simp [OpOK, IdOK, gA, gB, cntKey])
      (by simp [stampFrom, lenBound])
    exact ⟨c, h⟩

/-! ## C. Crash points (a restart in the middle of an operation's physical writes) -/

/-- Crash-point statement for `save`: whatever prefix of its physical writes reached the disk,
    start-up comes back with a chain that represents some list. -/
def FullStatementCrashSave : Prop :=
  ∀ (l : List Group) (c : Chain) (g : Group) (gen : List Group) (k : Nat) (d : Store) (m : List Bytes),
    Rep l c → IdOK g.id → l.length + 1 < lenBound → addCheck c g = .ok →
    saveB c g k = .crashed d m → ∃ c' l', restart d m gen = some (.alive c') ∧ Rep l' c'

/-- FULL strength since "fix: groupChain.save writes gcurrent, the height slot and gcount in one atomic
    batch": `save` has two physical writes — `Put(id, json)` and the batch — hence two crash points
    (before the first, between the two), and after either start-up represents the OLD list; the group
    JSON alone is an unreferenced entry. (Before the fix the cuts after the 2nd / 3rd of four `Put`s
    left `gcurrent` ahead of `gcount`: former findings crash:save:k2, k3.) -/
theorem inv_crash_save : FullStatementCrashSave := by
  intro l c g gen k d m r hid _ hok h
  obtain ⟨c', e, r'⟩ := crash_save_all r g gen hid (fresh_of_addCheck r hok) k d m h
  exact ⟨c', l, e, r'⟩

/-- …more precisely: it is the old list, for both crash points. -/
theorem inv_crash_save_old_list {l : List Group} {c : Chain} (r : Rep l c) (g : Group) (gen : List Group)
    (hid : IdOK g.id) (hok : addCheck c g = .ok) (k : Nat) (hk : k < 2) :
    ∃ d c', saveB c g k = .crashed d c.mirror ∧ restart d c.mirror gen = some (.alive c') ∧ Rep l c' :=
  crash_save_fresh r g gen hid (fresh_of_addCheck r hok) k hk

/-- A budget of two or more physical writes does not cut `save` at all. -/
theorem save_not_cut (c : Chain) (g : Group) (k : Nat) (hk : 2 ≤ k) :
    saveB c g k = .done (save c g) (k - 2) := saveB_done c g k hk

/-- The chain after [boot g0]. -/
def c1 : Chain := ([g0].foldl save { disk := [], count := 0, last := g0, mirror := [] })

theorem rep_c1 : Rep [g0] c1 := by
  obtain ⟨c, h, r⟩ := rep_init genesisOK_g0 []
  have : c = c1 := by
    simp [restart, sget] at h; exact h.symm
  subst this
  simpa [stampFrom, stamped, g0] using r

/-- `Rep` forces `count` = length of the iterator walk. -/
theorem rep_count_eq_iter {l : List Group} {c : Chain} (r : Rep l c) : (iterList c).length = c.count := by
  rw [iterList_rep r, r.count]; simp

/-- Crash-point statement for `remove`. -/
def FullStatementCrashRemove : Prop :=
  ∀ (l : List Group) (g : Group) (c : Chain) (gen : List Group) (k : Nat) (d : Store) (m : List Bytes),
    Rep (l ++ [g]) c → l ≠ [] → (removeB c c.last k).2 = .crashed d m →
    ∃ c' l', restart d m gen = some (.alive c') ∧ Rep l' c'

/-- Proved part: cut before the first write. -/
theorem inv_crash_remove_partial {l : List Group} {g : Group} {c : Chain} (r : Rep (l ++ [g]) c)
    (hl : l ≠ []) (gen : List Group) :
    ∃ d m c', (removeB c c.last 0).2 = .crashed d m ∧ restart d m gen = some (.alive c') ∧
      Rep (l ++ [g]) c' := crash_remove_0 r hl gen

/-- The chain after [boot g0; add gA]. -/
def c2 : Chain := save c1 gA

theorem rep_c2 : Rep [g0, stamped 1 gA] c2 := by
  have := (rep_add rep_c1 gA (by simp [lenBound]) (by simp [IdOK, gA, cntKey]) (by decide)).2
  unfold c2
  simpa using this

/-- Known finding crash:remove:k1 — [boot g0; add gA; crash 1 rmlast]: the group is deleted,
    `gcurrent` still names it: start-up panics ("Unmarshal last group failed") on every restart. -/
theorem inv_crash_remove_counterexample : ¬ FullStatementCrashRemove := by
  intro h
  have hlast : c2.last = stamped 1 gA := rfl
  obtain ⟨c', l', h1, _⟩ := h [g0] (stamped 1 gA) c2 [g0] 1
    (applyPrefix 1 c2.disk (removeWrites c2.count (stamped 1 gA) g0)) c2.mirror
    (by simpa using rep_c2) (by simp) (by decide)
  have hd : restart (applyPrefix 1 c2.disk (removeWrites c2.count (stamped 1 gA) g0)) c2.mirror [g0] = some .dead := by
    decide
  rw [hd] at h1
  cases h1

/-! ## D. Concurrent callers

The model's `addGroup` is one atomic step (check, then `save`). The real `AddGroup` earns that by
taking the chain lock before it reads `lastGroup` (`Props/C19Facts.lean: lock_discipline`, checked
against the source on every run; the harness also races two real `AddGroup` calls and requires a
sequential explanation). The two theorems below say what atomicity buys. -/

/-- Sequentially, of two `AddGroup`s naming the same predecessor only the first is accepted. -/
theorem second_add_same_pre_rejected {l : List Group} {c : Chain} (r : Rep l c) (gA gB : Group)
    (hA : addCheck c gA = .ok) (hpre : gB.pre = gA.pre) : addCheck (save c gA) gB ≠ .ok := by
  intro hB
  obtain ⟨h1, _, h3⟩ := addCheck_ok hA
  obtain ⟨_, _, h3'⟩ := addCheck_ok hB
  have hlast : (save c gA).last.id = gA.id := rfl
  rw [hlast, hpre, ← h3] at h3'
  -- gA.id = c.last.id, but gA.id is not stored while the last group is
  have := r.stored c.last r.last_mem
  rw [← h3'] at this
  simp [shas, this] at h1

/-- If both calls run their checks against the same state and then both `save` (the lock taken
    only around `save`), the result need not represent any list. -/
def FullStatementSplitAdd : Prop :=
  ∀ (l : List Group) (c : Chain) (gA gB : Group), Rep l c → IdOK gA.id → IdOK gB.id → gA.id ≠ gB.id →
    addCheck c gA = .ok → addCheck c gB = .ok → ∃ l', Rep l' (save (save c gA) gB)

theorem split_add_counterexample : ¬ FullStatementSplitAdd := by
  intro h
  obtain ⟨l', r'⟩ := h [g0] c1 gA gB rep_c1 (by simp [IdOK, gA, cntKey]) (by simp [IdOK, gB, cntKey])
    (by decide) (by decide) (by decide)
  have := rep_count_eq_iter r'
  revert this
  decide

/-! ## E. Crash points during the very first start-up, and crashes of the start-up after a crash -/

def FullStatementFirstBootCrash : Prop :=
  ∀ (gs : List Group) (k : Nat) (d : Store) (m : List Bytes), GenesisOK gs →
    firstBootB [] [] gs k = some (.crashed d m) → ∃ c l, restart d m gs = some (.alive c) ∧ Rep l c

/-- FULL strength since the atomic-batch fix: wherever the first start-up is cut — inside the first
    genesis save (start-up then re-runs the genesis branch), between two genesis groups, or inside a
    later genesis save — the next start-up comes back with a chain that represents a list.
    (Former findings crash:firstboot:k2, k3.) -/
theorem inv_first_boot_crash : FullStatementFirstBootCrash := by
  intro gs k d m ok h
  cases gs with
  | nil => exact absurd rfl ok.ne
  | cons g0 rest => exact first_boot_crash_all ok k d m h

/-- Double crashes: the first start-up cut inside the first genesis save, the start-up after it cut
    there again, … any number of times (`FreshFor` is kept) — the next uninterrupted start-up
    represents exactly the genesis list. -/
theorem inv_first_boot_double_crash {g0 : Group} {rest : List Group} (ok : GenesisOK (g0 :: rest))
    (k1 k2 : Nat) (h1 : k1 ≤ 1) (h2 : k2 ≤ 1) :
    ∃ d1 d2 c, firstBootB [] [] (g0 :: rest) k1 = some (.crashed d1 []) ∧
      firstBootB d1 [] (g0 :: rest) k2 = some (.crashed d2 []) ∧
      restart d2 [] (g0 :: rest) = some (.alive c) ∧ Rep (stampFrom 0 (g0 :: rest)) c := by
  obtain ⟨d1, e1, f1⟩ := firstBoot_le1 ok [] [] (fun _ _ => rfl) k1 h1
  obtain ⟨d2, e2, f2⟩ := firstBoot_le1 ok d1 [] f1 k2 h2
  obtain ⟨c, e3, r⟩ := rep_init_fresh ok d2 [] f2
  exact ⟨d1, d2, c, e1, e2, e3, r⟩

/-- A first start-up with two genesis groups cut exactly between them comes back as a valid chain
    of the first group only: the second genesis group is silently never added (not a C19 violation). -/
theorem first_boot_cut_between_genesis :
    ∃ d m c, firstBootB [] [] [g0, gA] 2 = some (.crashed d m) ∧
      restart d m [g0, gA] = some (.alive c) ∧ Rep [g0] c := by
  have hd : firstBootB [] [] [g0, gA] 2 = some (.crashed c1.disk c1.mirror) := by decide
  obtain ⟨c', e, _, _, _, r⟩ := rep_restart rep_c1 c1.mirror [g0, gA]
  exact ⟨c1.disk, c1.mirror, c', hd, e, r⟩

/-! ## F. Remaining read paths -/

/-- `GetSyncGroupsById(id)` of the listed group at index `i` returns exactly the next (at most
    five) listed groups — what a peer that is behind receives. -/
theorem sync_by_id_exact {l : List Group} {c : Chain} (r : Rep l c) (i : Nat) (g : Group)
    (hg : l[i]? = some g) (hb : l.length + 6 < lenBound) :
    syncById c.disk g.id = ((l.drop (i + 1)).take 5).map some := syncById_rep r i g hg hb

/-- `getFirstGroupBelowHeight(x)` (common-ancestor choice of the fork switch) returns the newest
    listed group created at or below block height `x`, `none` only if no listed group is. -/
theorem first_below_is_newest_listed {l : List Group} {c : Chain} (r : Rep l c) (x : Nat) :
    firstBelow c x = l.reverse.find? (fun g => decide (g.create ≤ x)) := firstBelow_rep r x

/-- `height()` is the index of the last group. -/
theorem top_height_is_last_index {l : List Group} {c : Chain} (r : Rep l c) :
    topHeight c = l.length - 1 ∧ getGroupByHeight c.disk (topHeight c) = some c.last := by
  have h := topHeight_rep r
  exact ⟨h, by rw [h]; exact r.byHeight_lt r.last_idx⟩

/-- The "genesis" that `availableGroupsAt` falls back to (`GetGroupByHeight(0)`) is `l[0]`. -/
theorem height_zero_is_genesis {l : List Group} {c : Chain} (r : Rep l c) :
    getGroupByHeight c.disk 0 = l.head? := by
  cases l with
  | nil => exact absurd rfl r.ne
  | cons a t => simpa using r.byHeight_lt (i := 0) (g := a) (by simp)

example : firstBelow c2 0 = some g0 := by decide

/-! ## G. The sqlite mirror (`groupIndex`) -/

/-- One step keeps both the chain representation and "mirror = the listed ids". -/
theorem mirror_step {l : List Group} {c : Chain} (r : Rep l c) (hm : c.mirror.Perm (l.map (·.id)))
    (gen : List Group) (op : Op) (hok : OpOK op) (hb : l.length + 1 < lenBound) :
    ∃ c', stepOp gen c op = some c' ∧ Rep (specStep l c op) c' ∧
      c'.mirror.Perm ((specStep l c op).map (·.id)) := by
  obtain ⟨c', h1, h2, h3⟩ := rep2_step ⟨r, hm⟩ gen op hok hb
  exact ⟨c', h1, h2, h3⟩

/-- From first start-up (empty sqlite table), after any sequence of completed operations the
    mirror table holds exactly the ids of the listed groups; in particular `CountGroups()` equals
    `Count()`, so `refreshCache` is a no-op at every restart. -/
theorem mirror_agrees_reachable {gs : List Group} (ok : GenesisOK gs) (ops : List Op)
    (hops : ∀ op ∈ ops, OpOK op) (hb : gs.length + ops.length < lenBound) :
    ∃ c0 c l, restart [] [] gs = some (.alive c0) ∧ runOps gs c0 ops = some c ∧ Rep l c ∧
      c.mirror.Perm (l.map (·.id)) ∧ c.mirror.length = c.count := by
  obtain ⟨c0, h0, r0⟩ := rep2_init ok
  obtain ⟨c, l, h1, r1⟩ := rep2_run gs ops (stampFrom 0 gs) c0 r0 hops (by rw [stampFrom_length]; exact hb)
  exact ⟨c0, c, l, h0, h1, r1.1, r1.2, by rw [r1.2.length, r1.1.count]⟩

example : c2.mirror.Perm ([g0, stamped 1 gA].map (·.id)) := by decide

/-! ## H. Write faults: a `Put`/`Delete` that returns an error -/

/-- What durability asks for: when one of the physical store writes of `save` fails with an error,
    the chain is still in a state that represents some list (and the caller can retry). -/
def FullStatementWriteFault : Prop :=
  ∀ (l : List Group) (c : Chain) (g : Group) (j : Nat), Rep l c → IdOK g.id → l.length + 1 < lenBound →
    addCheck c g = .ok → j < 2 → ∃ l', Rep l' (saveF c g (some j)).1

/-- Proved part (since the atomic-batch fix): a failed BATCH write is returned by `save` before
    memory, sqlite or the index are touched — `AddGroup` answers with the error, the chain still
    represents the old list, and a retry is an ordinary `AddGroup`. -/
theorem write_fault_batch_surfaces {l : List Group} {c : Chain} (r : Rep l c) (g : Group)
    (hid : IdOK g.id) (hok : addCheck c g = .ok) :
    (addGroupF c g (some 1)).1 = .writeErr ∧ Rep l (addGroupF c g (some 1)).2 := by
  have hfresh := fresh_of_addCheck r hok
  have r1 := r.orphan g.id (.grp (stamped c.count g)) hid hfresh
  refine ⟨by simp [addGroupF, hok, saveF], ?_⟩
  have : (addGroupF c g (some 1)).2 = { c with disk := sput c.disk g.id (.grp (stamped c.count g)) } := by
    simp [addGroupF, hok, saveF, saveWrites, applyWrites, applyWrite]
  rw [this]; exact r1

/-- Still false for the first write: the error of `Put(group.Id, json)` is ignored, the batch is
    written and memory advances — the index names a group that is not stored (known finding
    writefault:save:w0; replayed with hook H2b). -/
theorem write_fault_counterexample : ¬ FullStatementWriteFault := by
  intro h
  obtain ⟨l', r'⟩ := h [g0] c1 gA 0 rep_c1 (by simp [IdOK, gA, cntKey]) (by simp [lenBound]) (by decide) (by decide)
  have h1 := r'.stored _ r'.last_mem
  have e : sget (saveF c1 gA (some 0)).1.disk (saveF c1 gA (some 0)).1.last.id = none := by decide
  rw [e] at h1
  cases h1

/-- A fault index beyond the operation's writes changes nothing. -/
theorem write_fault_beyond (c : Chain) (g : Group) (j : Nat) :
    saveF c g (some (j + 2)) = (save c g, false, some j) := rfl

/-! ## J. Faults of the other store: a failing statement on the sqlite `groupIndex`

`save`/`remove` run their sqlite statement after the LevelDB writes and the memory update and `panic`
when it fails (`saveS`, `removeS`, `rmToS`; tied by the `sqlfault` ops, which make the real statement
fail through a trigger on the node's own logs.db). The chain itself is never damaged: -/

/-- A failing insert cuts `AddGroup` after a complete `save`: the chain represents the extended list
    (only the mirror row is missing; `refreshCache` re-inserts it at the next start-up). -/
theorem sql_fault_add_keeps_rep {l : List Group} {c : Chain} (r : Rep l c) (g : Group) (f : SqlFault)
    (hb : l.length + 1 < lenBound) (hid : IdOK g.id) (hok : addCheck c g = .ok) :
    (addGroupS c g f).1 = .ok ∧ Rep (l ++ [stamped l.length g]) (addGroupS c g f).2.1 := by
  have h2 := (rep_add r g hb hid hok).2
  obtain ⟨e1, e2, e3⟩ := saveS_core c g f
  refine ⟨by simp [addGroupS, hok], ?_⟩
  have : (addGroupS c g f).2.1 = (saveS c g f).1 := by simp [addGroupS, hok]
  rw [this]
  exact h2.congr e1 e2 e3

/-- A failing delete during a fork switch cuts it after a complete removal: whatever group's
    statement fails, the chain ends representing a non-empty prefix of the old list (and start-up
    reads that back). The removal loop never tears the chain. -/
theorem sql_fault_rmto_keeps_rep {l : List Group} {c : Chain} (r : Rep l c) (h : Nat) (f : SqlFault)
    (gen : List Group) :
    ∃ n c', 0 < n ∧ n ≤ l.length ∧ Rep (l.take n) (rmToS c h f).1 ∧
      restart (rmToS c h f).1.disk (rmToS c h f).1.mirror gen = some (.alive c') ∧ Rep (l.take n) c' := by
  obtain ⟨n, h0, h1, r'⟩ := rep_rmToS r h f
  obtain ⟨c', e, _, _, _, r''⟩ := rep_restart r' (rmToS c h f).1.mirror gen
  exact ⟨n, c', h0, h1, r', e, r''⟩

/-- Without a fault for any group on the chain the faulted loop is the ordinary one. -/
example : (rmToS c2 0 { kind := .del, id := [0xee] }).1 = rmTo c2 0 := by decide

/-- With the fault on the top group the switch is cut after that removal (panic), one group short. -/
example : (rmToS c2 0 { kind := .del, id := gA.id }).2 = true ∧ (rmToS c2 0 { kind := .del, id := gA.id }).1.count = 1 := by decide

/-! ## K. Which groups are working at a block height (`availableGroupsAt`, `GetAvailableGroupsByMinerId`) -/

/-- The selection rule, exactly: newest first, groups with `DismissHeight > h`; at the first group
    that is not, the genesis group `l[0]` is appended and the walk stops. -/
theorem available_groups_rule {l : List Group} {c : Chain} (r : Rep l c) (h : Nat) :
    availableAt c h = availOf l.head? h l.reverse := availableAt_rep r h

/-- Every group it returns is on the chain (a listed group that is still working, or the genesis
    group), never nil — so `GetAvailableGroupsByMinerId` does not dereference nil. -/
theorem available_groups_listed {l : List Group} {c : Chain} (r : Rep l c) (h : Nat) :
    ∀ og ∈ availableAt c h, ∃ g, og = some g ∧ g ∈ l := by
  intro og hog
  rw [availableAt_rep r h] at hog
  have hne := r.ne
  rcases availOf_mem l.head? h l.reverse og hog with e | ⟨g, e1, e2, _⟩
  · cases l with
    | nil => exact absurd rfl hne
    | cons a t => exact ⟨a, by simpa using e, by simp⟩
  · exact ⟨g, e1, by simpa using e2⟩

/-- While every listed group is still working the answer is the whole chain, newest first. -/
theorem available_all_when_working {l : List Group} {c : Chain} (r : Rep l c) (h : Nat)
    (hall : ∀ g ∈ l, g.dismiss > h) : availableAt c h = l.reverse.map some := by
  rw [availableAt_rep r h]
  exact availOf_all _ h l.reverse (fun g hg => hall g (by simpa using hg))

/-- "Returns every listed group that is still working at `h`." -/
def FullStatementAvailableComplete : Prop :=
  ∀ (l : List Group) (c : Chain) (h : Nat) (g : Group), Rep l c → g ∈ l → g.dismiss > h →
    some g ∈ availableAt c h

def gOld : Group := { id := [0xa1], pre := [0x90, 0x01], parent := [0x90, 0x01], height := 7777, create := 1, dismiss := 1000 }
def gNew : Group := { id := [0xb1, 0xb2], pre := [0xa1], parent := [0x90, 0x01], height := 7777, create := 2, dismiss := 50 }
def c3 : Chain := save (save c1 gOld) gNew

theorem rep_c3 : Rep [g0, stamped 1 gOld, stamped 2 gNew] c3 := by
  have r2 := (rep_add rep_c1 gOld (by simp [lenBound]) (by simp [IdOK, gOld, cntKey]) (by decide)).2
  have r3 := (rep_add r2 gNew (by simp [lenBound]) (by simp [IdOK, gNew, cntKey]) (by decide)).2
  unfold c3
  simpa using r3

/-- False (documented quirk, replayed in corpus/C19/08): the walk stops at the FIRST group that has
    been dismissed, so an older group that is still working is not returned when a newer one was
    dismissed earlier. Cannot happen when dismiss heights grow along the chain (`AddGroup` sets them
    to `CreateHeight + duration`, and consensus creates groups at increasing heights). -/
theorem available_complete_counterexample : ¬ FullStatementAvailableComplete := by
  intro h
  have := h _ c3 100 (stamped 1 gOld) rep_c3 (by simp) (by decide)
  revert this
  decide

/-! ## L. The fork switch (`groupChainFork.triggerOnChain`): remove down to the ancestor, add the fork's groups -/

/-- The whole switch refines "cut the list after the ancestor, then append the accepted fork groups":
    the chain represents `specAddAll …` of the cut list, the part up to the ancestor is untouched,
    and `triggerOnChain` reports success only if every fork group was appended — "remove followed by
    adding different groups at the same heights", for any number of heights. -/
theorem inv_fork_switch {l : List Group} {c : Chain} (r : Rep l c) (dur h : Nat) (gs : List Group)
    (hid : ∀ g ∈ gs, IdOK g.id) (hb : l.length + gs.length < lenBound) :
    Rep (specAddAll dur gs (l.take (h + 1)) (rmTo c h)) (forkSwitch dur c h gs).1 ∧
      l.take (h + 1) <+: specAddAll dur gs (l.take (h + 1)) (rmTo c h) ∧
      ((forkSwitch dur c h gs).2 = true →
        (specAddAll dur gs (l.take (h + 1)) (rmTo c h)).length = (l.take (h + 1)).length + gs.length) := by
  have r1 := rep_rmTo r h
  refine ⟨?_, specAddAll_prefix dur gs _ _, fun hf => addAll_true_len dur gs _ _ hf⟩
  exact rep_addAll dur gs _ _ r1 hid (by
    have : (l.take (h + 1)).length ≤ l.length := by simp [List.length_take]; omega
    omega)

/-- After a successful switch the new groups sit at the heights right above the ancestor. -/
example : (forkSwitch 10 c3 0 [{ gOld with id := [0xd4], pre := [0x90, 0x01] }]).2 = true ∧
    ((getGroupByHeight (forkSwitch 10 c3 0 [{ gOld with id := [0xd4], pre := [0x90, 0x01] }]).1.disk 1).map (·.id)) = some [0xd4] ∧
    getGroupByHeight (forkSwitch 10 c3 0 [{ gOld with id := [0xd4], pre := [0x90, 0x01] }]).1.disk 2 = none := by decide

/-! ## M. The hypotheses are needed (the code itself does not check them)

`AddGroup` accepts any byte string as a group id (the consensus `CheckGroup` is what restricts ids to
32-byte group ids) and `initGroupChain` saves whatever genesis list it is handed. Both hypotheses of
part B are necessary; the witnesses are replayed against the real code in the malformed stream. -/

def FullStatementAddAnyId : Prop :=
  ∀ (l : List Group) (c : Chain) (g : Group), Rep l c → l.length + 1 < lenBound → addCheck c g = .ok →
    Rep (l ++ [stamped l.length g]) (save c g)

/-- A group whose id is the 8-byte key of the height slot it lands in. -/
def gSlot : Group := { id := hkey 1, pre := [0x90, 0x01], parent := [0x90, 0x01], height := 7777, create := 1 }

/-- Without `IdOK`: `save` writes the height slot over the group's own JSON (same key), so the
    "listed group retrievable by id" clause fails at once (`[boot 9001; add 0000000000000001 9001 9001 1]`). -/
theorem idok_needed_counterexample : ¬ FullStatementAddAnyId := by
  intro h
  have r := h [g0] c1 gSlot rep_c1 (by simp [lenBound]) (by decide)
  have h1 := r.stored (stamped 1 gSlot) (by simp)
  have e : sget (save c1 gSlot).disk (stamped 1 gSlot).id = some (.ref (hkey 1)) := by decide
  rw [e] at h1
  cases h1

def FullStatementInitAnyGenesis : Prop :=
  ∀ (gs : List Group) (c : Chain), gs ≠ [] → restart [] [] gs = some (.alive c) → ∃ l, Rep l c

/-- A second genesis group that does not name the first as its predecessor. -/
def g0b : Group := { id := [0x91, 0x01], pre := [], parent := [0x91, 0x01], height := 0, create := 1 }

/-- Without the linking hypothesis of `GenesisOK`: two unlinked genesis groups give `Count()=2` over a
    one-group list (`[boot 9001,-,9001,0 9101,-,9101,1]`). -/
theorem genesis_linking_needed_counterexample : ¬ FullStatementInitAnyGenesis := by
  intro h
  obtain ⟨l, r⟩ := h [g0, g0b] ([g0, g0b].foldl save { disk := [], count := 0, last := g0, mirror := [] })
    (by simp) (by decide)
  have := rep_count_eq_iter r
  revert this
  decide

/-- A well-formed fork is adopted completely: ids proper, distinct and not stored after the cut,
    parents stored, predecessor links starting at the ancestor — then `triggerOnChain` succeeds and
    the chain is exactly the old list up to the ancestor followed by the fork's groups (with
    `AddGroup`'s header rewrite and their new heights). -/
theorem inv_fork_switch_wellformed {l : List Group} {c : Chain} (r : Rep l c) (dur h : Nat) (gs : List Group)
    (hid : ∀ g ∈ gs, IdOK g.id ∧ IdOK g.parent) (hnd : (gs.map (·.id)).Nodup)
    (hfr : ∀ g ∈ gs, shas (rmTo c h).disk g.id = false)
    (hpar : ∀ g ∈ gs, shas (rmTo c h).disk g.parent = true)
    (hlk : Linked (rmTo c h).last.id gs) (hb : l.length + gs.length < lenBound) :
    (forkSwitch dur c h gs).2 = true ∧
      Rep (l.take (h + 1) ++ stampFrom (l.take (h + 1)).length (gs.map (prepare dur))) (forkSwitch dur c h gs).1 := by
  have r1 := rep_rmTo r h
  have hb' : (l.take (h + 1)).length + gs.length < lenBound := by
    have : (l.take (h + 1)).length ≤ l.length := by simp [List.length_take]; omega
    omega
  obtain ⟨e1, e2⟩ := addAll_wellformed dur gs _ _ r1 hid hnd hfr hpar hlk hb'
  refine ⟨e1, ?_⟩
  rw [← e2]
  exact rep_addAll dur gs _ _ r1 (fun g hg => (hid g hg).1) hb'

/-- `GetAvailableGroupsByMinerId` never meets a nil group on a chain that represents a list, and
    returns only listed groups that have the miner as a member. -/
theorem available_by_miner_total {l : List Group} {c : Chain} (r : Rep l c) (h : Nat) (m : Bytes) :
    ∃ res, availableByMiner c h m = some res ∧ ∀ g ∈ res, g ∈ l ∧ m ∈ g.members := by
  obtain ⟨res, e, hr⟩ := minerFold_some m (availableAt c h) (fun og hog => by
    obtain ⟨g, e, _⟩ := available_groups_listed r h og hog
    exact ⟨g, e⟩)
  refine ⟨res, by rw [availableByMiner_eq]; exact e, ?_⟩
  intro g hg
  obtain ⟨h1, h2⟩ := hr g hg
  obtain ⟨g', e', hm⟩ := available_groups_listed r h (some g) h1
  cases e'
  exact ⟨hm, h2⟩

example : availableByMiner c3 100 [0xe1] = some [] := by decide

/-- A refused batch write FOLLOWED by any further history: the refused add leaves a chain that still
    represents the old list (`write_fault_batch_surfaces`), so every later sequence of adds, removals,
    fork-switch removals and restarts keeps representing a list that starts with the same genesis
    group — the refused group leaves no trace in the index (the class of seeded change C19-i: entries
    of the failed batch surviving into a later write). -/
theorem inv_after_surfaced_write_fault {l : List Group} {c : Chain} (r : Rep l c) (g : Group)
    (hid : IdOK g.id) (hok : addCheck c g = .ok) (gen : List Group) (ops : List Op)
    (hops : ∀ op ∈ ops, OpOK op) (hb : l.length + ops.length < lenBound) :
    ∃ c' l', runOps gen (addGroupF c g (some 1)).2 ops = some c' ∧ Rep l' c' ∧ l'.head? = l.head? :=
  rep_run gen ops l _ (write_fault_batch_surfaces r g hid hok).2 hops hb

end Rangers.Props.C19
