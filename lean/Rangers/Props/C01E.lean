import Rangers.Model.BlockExec
import Rangers.Props.C01
/-!
# C01 (continued) — casting mode and the wall clock; BLOCKHASH and the local chain index

The proposer executes in situation "casting": the wall clock decides where the loop stops.  What
the property needs is that, *wherever* the deadline strikes, the (ledger, receipts, evicted) the
proposer computed for the list it actually packed is what a verifier computes for that list.
-/
namespace Rangers.Props.C01E
open Rangers Rangers.Model.BlockExec Rangers.Props.C01
open List

theorem foldl_skip_type0 (env : Env) (f : Flags) (h : Nat) (txs : List Tx) (L : Loop) :
    (txs.filter (fun t => t.typ ≠ 0)).foldl (stepTx env f h) L = txs.foldl (stepTx env f h) L := by
  induction txs generalizing L with
  | nil => rfl
  | cons t ts ih =>
    by_cases h0 : t.typ = 0
    · have hs : stepTx env f h L t = L := by unfold stepTx; simp [h0]
      have hf : (t :: ts).filter (fun t => t.typ ≠ 0) = ts.filter (fun t => t.typ ≠ 0) := by
        simp [h0]
      rw [hf, foldl_cons, hs]
      exact ih L
    · have hf : (t :: ts).filter (fun t => t.typ ≠ 0) = t :: ts.filter (fun t => t.typ ≠ 0) := by
        simp [h0]
      rw [hf, foldl_cons, foldl_cons]
      exact ih _

/-- **cast_cutoff_consistent.**  For every cut-off `k` (every instant at which the deadline can
    strike), every iteration order, environment, flags, header, reward and parent ledger: the result
    of casting equals the verifier's `execBlock` on the packed list, provided the packed list is in
    the verifier's execution order (`PackForCast` hands the transactions over sorted).  In
    particular nothing of transaction `k+1` has touched the ledger when the loop breaks. -/
theorem cast_cutoff_consistent (ρ : Orders) (env : Env) (f : Flags) (hd : Header) (rw : St → Option RewardIn)
    (ids : List Addr) (s : St) (txs : List Tx) (k : Nat)
    (hsorted : sortTxs f (castBlock ρ env f hd rw ids s txs k).2 = (castBlock ρ env f hd rw ids s txs k).2) :
    (castBlock ρ env f hd rw ids s txs k).1 = execBlock ρ env f hd rw ids s (castBlock ρ env f hd rw ids s txs k).2 := by
  unfold execBlock
  rw [hsorted]
  unfold castBlock
  simp only
  rw [foldl_skip_type0]

/-- … and proposer and verifier may even pick different iteration orders -/
theorem cast_cutoff_consistent_any_orders (ρ₁ ρ₂ : Orders) (v₁ : OrdersValid ρ₁) (v₂ : OrdersValid ρ₂) (env : Env) (f : Flags)
    (hd : Header) (rw : St → Option RewardIn) (ids : List Addr) (s : St) (txs : List Tx) (k : Nat)
    (hmap : ∀ s r vs, rw s = some r → r.validators = some vs → (vs.map Prod.fst).Nodup)
    (hsorted : sortTxs f (castBlock ρ₁ env f hd rw ids s txs k).2 = (castBlock ρ₁ env f hd rw ids s txs k).2) :
    (castBlock ρ₁ env f hd rw ids s txs k).1 = execBlock ρ₂ env f hd rw ids s (castBlock ρ₁ env f hd rw ids s txs k).2 := by
  rw [cast_cutoff_consistent ρ₁ env f hd rw ids s txs k hsorted]
  exact exec_deterministic ρ₁ ρ₂ v₁ v₂ env f hd rw ids s _ hmap

/-- the packed list is a prefix of the input without the type-0 entries: the clock can only shorten it -/
theorem cast_packed_prefix (ρ : Orders) (env : Env) (f : Flags) (hd : Header) (rw : St → Option RewardIn)
    (ids : List Addr) (s : St) (txs : List Tx) (k : Nat) :
    (castBlock ρ env f hd rw ids s txs k).2 <+: txs.filter (fun t => t.typ ≠ 0) := by
  unfold castBlock
  simp only
  conv => rhs; rw [← take_append_drop k txs, filter_append]
  exact prefix_append _ _

example : sortTxs ⟨true, true, true, true, true, true⟩
      (castBlock Orders.id ⟨99, 1, fun _ _ s => ⟨s, false, [], 0, [], false⟩⟩ ⟨true, true, true, true, true, true⟩
        { height := 5, p004Block := 1 } (fun _ => none) [] St.empty [txA, txB] 1).2
    = (castBlock Orders.id ⟨99, 1, fun _ _ s => ⟨s, false, [], 0, [], false⟩⟩ ⟨true, true, true, true, true, true⟩
        { height := 5, p004Block := 1 } (fun _ => none) [] St.empty [txA, txB] 1).2 := by decide


/-! ### the hypothesis `hsorted` is needed (and is the pool's job, not the executor's) -/

def csEnv : Env := ⟨99, 0, fun _ _ s => ⟨s, false, [], 0, [], false⟩⟩
def csFlags : Flags := ⟨true, true, true, true, true, true⟩
def csSt : St := { St.empty with bal := fun a => if a = 1 then 10 else 0 }
/-- two transfers of one source, nonces 0 and 1; only the first one executed can be paid -/
def csTx0 : Tx := ⟨7, 0, 0, 100, [49], 1, 1, 1, .transfer [⟨[50], 2, .val 8⟩]⟩
def csTx1 : Tx := ⟨9, 0, 1, 100, [49], 1, 1, 1, .transfer [⟨[51], 3, .val 5⟩]⟩

/-- The proposer does not sort in casting mode.  Handed the two transactions in the order
    [nonce 1, nonce 0] it executes them in that order, while a verifier of the packed list sorts it to
    [nonce 0, nonce 1]: the receipts differ.  So `cast_cutoff_consistent` really needs the pool to
    deliver the list in execution order (C17's ordering claim); the executor itself does not enforce it.
    (The hooked searcher runs the reversed order against the real executor and reports how often the
    two disagree — `cast-unsorted-disagree` in the evidence — as a documented quirk, not a violation.) -/
theorem cast_unsorted_counterexample :
    ((castBlock Orders.id csEnv csFlags { height := 5, p004Block := 1 } (fun _ => none) [] csSt [csTx1, csTx0] 2).1.receipts.map (fun r => (r.hash, r.failed)))
      ≠ ((execBlock Orders.id csEnv csFlags { height := 5, p004Block := 1 } (fun _ => none) [] csSt
          (castBlock Orders.id csEnv csFlags { height := 5, p004Block := 1 } (fun _ => none) [] csSt [csTx1, csTx0] 2).2).receipts.map (fun r => (r.hash, r.failed))) := by
  decide

/-- BLOCKHASH never asks the node's chain index about the height being executed or above: the
    admissible arguments are ancestors, which all replicas executing on this parent share -/
theorem blockhash_reads_only_ancestors (n cur : Nat) (h : blockhashAsksChain n cur = true) : n < cur := by
  unfold blockhashAsksChain at h
  exact (of_decide_eq_true h).2

theorem blockhash_window_256 (n cur : Nat) (h : blockhashAsksChain n cur = true) : cur ≤ n + 256 := by
  unfold blockhashAsksChain at h
  have := (of_decide_eq_true h).1
  split at this <;> omega

example : blockhashAsksChain 299 300 = true ∧ blockhashAsksChain 300 300 = false
    ∧ blockhashAsksChain 44 300 = true ∧ blockhashAsksChain 43 300 = false := by decide

end Rangers.Props.C01E
