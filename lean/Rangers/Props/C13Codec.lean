import Rangers.Proofs.C13Codec
import Rangers.Proofs.C13GroupK
/-!
# C13 — encodings and parameters the recovery depends on

* the id ↔ map-key round trip (`ID.Serialize`, `GetHexString`, `SetHexString`): `RecoverGroupSignature`
  reads every Lagrange abscissa back from a map key;
* `Signature.Serialize` / `Deserialize` on valid points;
* the group size chosen by `CreateGroupMemberCount` and the `genSharePiece` map.
All about definitions the driver executes (`idkey`, `idparse`, `membercount`, `recover`, `dkg` ops).
-/
namespace Rangers.Props.C13Codec
open Rangers Rangers.Model Rangers.Model.IdKey Rangers.Model.Shamir Rangers.Proofs.C13 Rangers.Proofs.C13G1

/-- **id_key_roundtrip**: for every id below `2^256` — leading zero bytes or not — the key
    `GetHexString` produces is read back by `SetHexString` as the same id. -/
theorem id_key_roundtrip (x : Nat) (hx : x < 2 ^ 256) :
    ∃ cs, idHexChars x = some cs ∧ idSetHex cs = .ok x :=
  id_key_roundtrip' x hx

/-- Distinct ids have distinct map keys (so a witness map is faithfully a list keyed by `Nat` ids). -/
theorem id_key_injective (x y : Nat) (hx : x < 2 ^ 256) (hy : y < 2 ^ 256)
    (h : idHexChars x = idHexChars y) : x = y := by
  obtain ⟨cx, h1, h2⟩ := id_key_roundtrip' x hx
  obtain ⟨cy, h3, h4⟩ := id_key_roundtrip' y hy
  rw [h1, h3] at h
  injection h with h
  subst h
  rw [h2] at h4
  injection h4

/-- `ID.Serialize` panics exactly on values of more than 32 bytes. -/
theorem id_serialize_panics_iff (x : Nat) : idSerialize x = none ↔ 2 ^ 256 ≤ x := by
  unfold idSerialize
  have := natToBE_length_le_iff x
  constructor
  · intro h; by_contra hc
    have hl := this.2 (by omega)
    simp [hl] at h
  · intro h
    have : ¬ (natToBE x).length ≤ 32 := fun hl => by have := this.1 hl; omega
    simp [this]

example : idHexChars 0x0a0b = some ("0x0000000000000000000000000000000000000000000000000000000000000a0b".toList) ∧
    idSetHex "0x0000000000000000000000000000000000000000000000000000000000000a0b".toList = .ok 0x0a0b ∧
    idSetHex "0X0a".toList = .argFailed ∧ idSetHex "0x".toList = .undefined := by decide

/-- **sign_serialize_roundtrip**: a valid signature point (on the curve, coordinates reduced,
    infinity included) survives `Serialize` / `DeserializeSign` unchanged. -/
theorem sign_serialize_roundtrip (q : G1.Point) (hv : Valid1 q) :
    G1.deserializeSign bnCurve (G1.serializeSign (some q)) = some q ∧
    G1.sigIsValid bnCurve (some q) = true :=
  ⟨sign_roundtrip q hv, by rw [show G1.sigIsValid bnCurve (some q) = G1.isOnCurve bnCurve q from rfl, isOnCurve_eq]; exact hv.1⟩

/-- The empty and the too-short encodings give the nil signature, which is not valid. -/
theorem sign_deserialize_short (b : Bytes) (h : b.length < 64) :
    G1.deserializeSign bnCurve b = none ∧ G1.sigIsValid bnCurve (G1.deserializeSign bnCurve b) = false := by
  have : G1.deserializeSign bnCurve b = none := by
    unfold G1.deserializeSign G1.unmarshal
    by_cases h0 : b.length = 0
    · simp [h0]
    · simp [h0, h]
  rw [this]; exact ⟨rfl, rfl⟩

/-- **member_count_range**: `CreateGroupMemberCount` returns `0` (no group) or a legal size. -/
theorem member_count_range (min max ratio avail c : Nat) (hmm : min ≤ max)
    (h : createGroupMemberCount min max ratio avail = some c) :
    c = 0 ∨ (min ≤ c ∧ c ≤ max ∧ isGroupMemberCountLegal min max c = true) := by
  unfold createGroupMemberCount at h
  split at h
  · simp at h
  · simp only at h
    split at h
    · simp at h
    · split at h
      · injection h with h; subst h
        right; exact ⟨hmm, Nat.le_refl _, by simp [isGroupMemberCountLegal, hmm]⟩
      · split at h
        · injection h with h; left; exact h.symm
        · injection h with h; subst h
          right
          refine ⟨by omega, by omega, ?_⟩
          simp only [isGroupMemberCountLegal, Bool.and_eq_true, decide_eq_true_eq]; omega

example : createGroupMemberCount 5 10 1 7 = some 7 ∧ createGroupMemberCount 5 10 1 4 = some 0 ∧
    createGroupMemberCount 5 10 2 30 = some 10 ∧ createGroupMemberCount 5 10 0 30 = none := by decide

/-- Every legal group size has a threshold `1 ≤ k ≤ n` (with the node's constants). -/
theorem legal_size_has_threshold (min max n : Nat) (hmin : 1 ≤ min) (hmax : max < 2 ^ 46)
    (hl : isGroupMemberCountLegal min max n = true) :
    ∃ k, getGroupK 51 100 n = some k ∧ 1 ≤ k ∧ k ≤ n ∧ n < 2 * k := by
  simp only [isGroupMemberCountLegal, Bool.and_eq_true, decide_eq_true_eq] at hl
  have hn : n < 2 ^ 46 := by omega
  exact ⟨_, getGroupK_51 n hn, getGroupK_51_bounds n _ (by omega) hn (getGroupK_51 n hn)⟩

/-- **gen_share_piece_lookup**: the map a dealer sends out holds, for every listed member, exactly
    `ShareSeckey(coeffs, id)`, one entry per distinct id. -/
theorem gen_share_piece_lookup (r : Nat) (cs : List Nat) : ∀ (ids : List Nat) (m : List (Nat × Nat)),
    genSharePiece r cs ids = some m →
      (m.map Prod.fst).Nodup ∧ (∀ x, x ∈ ids ↔ x ∈ m.map Prod.fst) ∧
      ∀ e ∈ m, shareSeckey r cs e.1 = some e.2 := by
  intro ids
  induction ids with
  | nil => intro m h; simp [genSharePiece] at h; subst h; simp
  | cons x rest ih =>
    intro m h
    unfold genSharePiece at h
    cases hs : shareSeckey r cs x with
    | none => simp [hs] at h
    | some v =>
      cases hg : genSharePiece r cs rest with
      | none => simp [hs, hg] at h
      | some m' =>
        simp only [hs, hg, Option.some.injEq] at h
        subst h
        obtain ⟨hnd, hmem, hval⟩ := ih m' hg
        refine ⟨?_, ?_, ?_⟩
        · simp only [List.map_cons, List.nodup_cons]
          constructor
          · intro hx
            obtain ⟨e, he, hex⟩ := List.mem_map.1 hx
            have := (List.mem_filter.1 he).2
            simp [hex] at this
          · exact (hnd.sublist ((List.filter_sublist).map _))
        · intro y
          simp only [List.mem_cons, List.map_cons]
          constructor
          · rintro (rfl | hy)
            · exact Or.inl rfl
            · by_cases hyx : y = x
              · exact Or.inl hyx
              · right
                obtain ⟨e, he, hey⟩ := List.mem_map.1 ((hmem y).1 hy)
                exact List.mem_map.2 ⟨e, List.mem_filter.2 ⟨he, by simp [hey, hyx]⟩, hey⟩
          · rintro (rfl | hy)
            · exact Or.inl rfl
            · right
              obtain ⟨e, he, hey⟩ := List.mem_map.1 hy
              exact (hmem y).2 (List.mem_map.2 ⟨e, (List.mem_filter.1 he).1, hey⟩)
        · intro e he
          rcases List.mem_cons.1 he with rfl | he
          · exact hs
          · exact hval e (List.mem_filter.1 he).1

example : genSharePiece 13 [5, 3] [1, 2, 1] = some [(1, 8), (2, 11)] := by decide

end Rangers.Props.C13Codec
