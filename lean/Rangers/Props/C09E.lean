import Rangers.Proofs.C09Json
import Rangers.Props.C09D
/-!
# C09, part 5 — the RequestIds JSON is carried exactly: `ReqIdsStable` without hypothesis
-/
namespace Rangers.Props.C09
open Rangers Rangers.Wire Rangers.Json

/-- decode ∘ encode of the RequestIds JSON is the identity for every map the node can hold:
    nil, or any finite map (strictly increasing keys) whose keys JSON writes verbatim, uint64 values.
    (`getRequestIdFromTransactions` only ever adds the key "fixed".) -/
theorem reqIds_stable (r : ReqIds) (h : ReqIdsCanon r) : ReqIdsStable r := decReqIds_encReqIds r h

example : ReqIdsCanon (.map [([0x61], 7), ([0x66, 0x69, 0x78, 0x65, 0x64], 18446744073709551615)]) := by
  refine ⟨⟨?_, ?_, trivial⟩, ?_⟩
  · intro x hx
    simp only [List.mem_singleton] at hx; subst hx; decide
  · intro x hx; cases hx
  · intro e he
    simp only [List.mem_cons, List.not_mem_nil, or_false] at he
    rcases he with rfl | rfl
    · exact ⟨by decide, by decide⟩
    · exact ⟨by decide, by decide⟩

/-- Decimal rendering and parsing of uint64 are inverse (the digits `strconv` writes). -/
theorem uint64_literal_roundtrip (v : Nat) (hv : v < 2 ^ 64) : parseNum (decNat v ++ [125]) = some (v, [125]) :=
  parseNum_decNat v [125] hv (nonDigit_125 [])

/-- The decoder only ever returns nil, a canonical map, or `opaque` (bytes outside the modelled class). -/
theorem reqIds_parsed_canon (raw : Bytes) :
    (∃ r, decReqIds raw = .opaque r) ∨ (∃ kvs, decReqIds raw = .mapEsc kvs) ∨ ReqIdsCanon (decReqIds raw) :=
  decReqIds_canon raw

/-- Times `MarshalBinary` carries and a canonical RequestIds map — no JSON hypothesis left. -/
def HeaderCanon (h : Header) : Prop := TimeOK h.preTime ∧ TimeOK h.curTime ∧ ReqIdsCanon h.requestIds

theorem headerOK_of_canon (h : Header) (c : HeaderCanon h) : HeaderOK h :=
  ⟨c.1, c.2.1, reqIds_stable _ c.2.2⟩

/-- `header_lossless` with every hypothesis explicit and decidable in content: a producible header
    with canonical RequestIds and marshalable times is stored, reloaded or relayed unchanged, same GenHash. -/
theorem header_lossless_canon (h : Header) (c : HeaderCanon h) (fits : HeaderFits h) (hp : Producible h) :
    ∃ b, marshalHeader h = some b ∧ unmarshalHeader b = .ok h ∧
      ∀ h', unmarshalHeader b = .ok h' → headerGenHash h' = headerGenHash h :=
  header_lossless h (headerOK_of_canon h c) fits hp

theorem block_lossless_canon (b : Block) (h : Header) (hh : b.header = some h) (c : HeaderCanon h)
    (fits : BlockFits b) (hp : Producible h) (ht : TxsCarried b.txs) :
    ∃ bs, marshalBlock b = .ok bs ∧ unmarshalBlock bs = .ok b :=
  block_lossless b h hh (headerOK_of_canon h c) fits hp ht

theorem parsed_requestIds (bs : Bytes) (h : Header) (hu : unmarshalHeader bs = .ok h) :
    (∃ r, h.requestIds = .opaque r) ∨ (∃ kvs, h.requestIds = .mapEsc kvs) ∨ ReqIdsCanon h.requestIds := by
  unfold unmarshalHeader at hu
  cases hd : decHeader bs with
  | none => simp [hd] at hu
  | some p =>
    simp only [hd] at hu
    cases hph : pbToHeader p with
    | err => simp [hph] at hu
    | nilObj => simp [hph] at hu; split at hu <;> cases hu
    | panic s => simp [hph] at hu
    | ok h' =>
      simp only [hph, Outcome.ok.injEq] at hu
      subst hu
      simp only [pbToHeader, derefNat_safe 2 2 (by decide), derefNat_safe 2 11 (by decide),
        derefNat_safe 2 6 (by decide)] at hph
      cases hpt : binToTime (p.preTime.getD []) with
      | none => simp [hpt] at hph
      | some pt =>
        cases hct : binToTime (p.curTime.getD []) with
        | none => simp [hpt, hct] at hph
        | some ct =>
          simp only [hpt, hct, Outcome.ok.injEq] at hph
          subst hph
          cases p.requestIds with
          | none => exact Or.inr (Or.inr trivial)
          | some raw => exact reqIds_parsed_canon raw

/-- `parsed_fixed_point_partial` without the JSON hypothesis: a header obtained by parsing whose
    RequestIds bytes were in the modelled class and whose times `MarshalBinary` carries is a fixed
    point of the next Marshal/UnMarshal pass (same content, same GenHash). -/
theorem parsed_fixed_point_partial_canon (bs : Bytes) (h : Header) (hu : unmarshalHeader bs = .ok h)
    (hpt : TimeOK h.preTime) (hct : TimeOK h.curTime)
    (hno : ∀ r, h.requestIds ≠ .opaque r) (hne : ∀ kvs, h.requestIds ≠ .mapEsc kvs)
    (fits : HeaderFits h) : passIsIdentity h = true := by
  have hc : ReqIdsCanon h.requestIds := by
    rcases parsed_requestIds bs h hu with ⟨r, hr⟩ | ⟨kvs, hr⟩ | hc
    · exact absurd hr (hno r)
    · exact absurd hr (hne kvs)
    · exact hc
  obtain ⟨b, hb, hub, _⟩ := parsed_fixed_point_partial bs h hu (headerOK_of_canon h ⟨hpt, hct, hc⟩) fits
  simp [passIsIdentity, hb, hub]

/-! ## Member codec and `PbToGroups` (group-sync receive path) -/

theorem parse_total_member (bs : Bytes) : IsObjOrErr (unmarshalMember bs) := by
  unfold unmarshalMember
  cases decMember bs <;> trivial

theorem mapM'_mem {α β : Type} (f : α → Option β) : ∀ (l : List α) (r : List β), mapM' f l = some r →
    ∀ b ∈ r, ∃ a, f a = some b := by
  intro l
  induction l with
  | nil => intro r h b hb; simp [mapM'] at h; subst h; cases hb
  | cons a l ih =>
    intro r h b hb
    simp only [mapM'] at h
    cases hfa : f a with
    | none => simp [hfa] at h
    | some x =>
      cases hl : mapM' f l with
      | none => simp [hfa, hl] at h
      | some xs =>
        simp only [hfa, hl, Option.some.injEq] at h
        subst h
        simp only [List.mem_cons] at hb
        rcases hb with rfl | hb
        · exact ⟨a, hfa⟩
        · exact ih xs hl b hb

theorem pbToGroup_parsed_ok (p : PbGroup) (h : ∃ g, p.header = some g) : ∃ g, pbToGroup p = .ok g := by
  obtain ⟨gh, hg⟩ := h
  simp only [pbToGroup, hg, pbToGroupHeader, derefNat_safe 3 7 (by decide), derefStr_safe 3 8 (by decide),
    derefNat_safe 4 6 (by decide)]
  exact ⟨_, rfl⟩

theorem pbToGroups_total (ps : List PbGroup) (h : ∀ p ∈ ps, ∃ g, p.header = some g) :
    ∃ gs, pbToGroups ps = .ok gs := by
  induction ps with
  | nil => exact ⟨[], rfl⟩
  | cons p ps ih =>
    obtain ⟨g, hg⟩ := pbToGroup_parsed_ok p (h p (by simp))
    obtain ⟨gs, hgs⟩ := ih (fun q hq => h q (by simp [hq]))
    exact ⟨g :: gs, by simp only [pbToGroups, hg, hgs]⟩

/-- `PbToGroups` after `proto.Unmarshal` of a `GroupSlice` never panics: every element carries its
    required header, so the unchecked `PbToGroupHeader` is never entered with nil. -/
theorem parse_total_groups (bs : Bytes) : IsObjOrErr (unmarshalGroups bs) := by
  unfold unmarshalGroups
  cases hd : decGroupSlice bs with
  | none => trivial
  | some ps =>
    have hall : ∀ p ∈ ps, ∃ g, p.header = some g := by
      intro p hp
      unfold decGroupSlice at hd
      cases hr : parseRaw bs with
      | none => simp [hr] at hd
      | some rs =>
        simp only [hr] at hd
        obtain ⟨c, hc⟩ := mapM'_mem decGroup _ ps hd p hp
        exact decGroup_header_some c p hc
    obtain ⟨gs, hgs⟩ := pbToGroups_total ps hall
    simp only [hgs]
    trivial

/-- Member round trip: both required fields present and within the framing limits. -/
theorem member_roundtrip (i k : Bytes) (hi : i.length < 2 ^ 64) (hk : k.length < 2 ^ 64) :
    ∃ bs, marshalMember ⟨some i, some k⟩ = .ok bs ∧ unmarshalMember bs = .ok ⟨some i, some k⟩ := by
  refine ⟨_, rfl, ?_⟩
  have hwf : RawsWF (rawsOfMember (memberToPb ⟨some i, some k⟩)) := by
    intro r hr
    simp only [rawsOfMember, memberToPb, optLenR, List.cons_append, List.nil_append, List.mem_cons,
      List.not_mem_nil, or_false] at hr
    rcases hr with rfl | rfl
    · exact ⟨by decide, by decide, hi⟩
    · exact ⟨by decide, by decide, hk⟩
  simp only [unmarshalMember, decMember, encMember, parseRaw_encRaws _ hwf]
  simp [memberReq, hasLen, rawsOfMember, memberToPb, lastLen_append, pbToMember]

example : unmarshalMember [0x0a, 0x01, 0x07] = .err := by decide

end Rangers.Props.C09
