import Rangers.Proofs.C09Json
import Rangers.Props.C09D
/-!
# C09, part 5 — the RequestIds JSON is carried exactly: `ReqIdsStable` without hypothesis
-/
namespace Rangers.Props.C09
open Rangers Rangers.Wire Rangers.Json

/-- decode ∘ encode of the RequestIds JSON is the identity for every map the node can hold:
    nil, or any finite map (strictly increasing keys) whose keys JSON writes verbatim, uint64 values.
    (`getRequestIdFromTransactions` only ever adds the key "fixed".) -/
theorem reqIds_stable (r : ReqIds) (h : ReqIdsCanon r) : ReqIdsStable r := decReqIds_encReqIds r h

example : ReqIdsCanon (.map [([0x61], 7), ([0x66, 0x69, 0x78, 0x65, 0x64], 18446744073709551615)]) := by
  refine ⟨⟨?_, ?_, trivial⟩, ?_⟩
  · intro x hx
    simp only [List.mem_singleton] at hx; subst hx; decide
  · intro x hx; cases hx
  · intro e he
    simp only [List.mem_cons, List.not_mem_nil, or_false] at he
    rcases he with rfl | rfl
    · exact ⟨by decide, by decide⟩
    · exact ⟨by decide, by decide⟩

/-- Decimal rendering and parsing of uint64 are inverse (the digits `strconv` writes). -/
theorem uint64_literal_roundtrip (v : Nat) (hv : v < 2 ^ 64) : parseNum (decNat v ++ [125]) = some (v, [125]) :=
  parseNum_decNat v [125] hv (nonDigit_125 [])

/-- The decoder only ever returns nil, a canonical map, or `opaque` (bytes outside the modelled class). -/
theorem reqIds_parsed_canon (raw : Bytes) : (∃ r, decReqIds raw = .opaque r) ∨ ReqIdsCanon (decReqIds raw) :=
  decReqIds_canon raw

/-- Times `MarshalBinary` carries and a canonical RequestIds map — no JSON hypothesis left. -/
def HeaderCanon (h : Header) : Prop := TimeOK h.preTime ∧ TimeOK h.curTime ∧ ReqIdsCanon h.requestIds

theorem headerOK_of_canon (h : Header) (c : HeaderCanon h) : HeaderOK h :=
  ⟨c.1, c.2.1, reqIds_stable _ c.2.2⟩

/-- `header_lossless` with every hypothesis explicit and decidable in content: a producible header
    with canonical RequestIds and marshalable times is stored, reloaded or relayed unchanged, same GenHash. -/
theorem header_lossless_canon (h : Header) (c : HeaderCanon h) (fits : HeaderFits h) (hp : Producible h) :
    ∃ b, marshalHeader h = some b ∧ unmarshalHeader b = .ok h ∧
      ∀ h', unmarshalHeader b = .ok h' → headerGenHash h' = headerGenHash h :=
  header_lossless h (headerOK_of_canon h c) fits hp

theorem block_lossless_canon (b : Block) (h : Header) (hh : b.header = some h) (c : HeaderCanon h)
    (fits : BlockFits b) (hp : Producible h) (ht : TxsCarried b.txs) :
    ∃ bs, marshalBlock b = .ok bs ∧ unmarshalBlock bs = .ok b :=
  block_lossless b h hh (headerOK_of_canon h c) fits hp ht

theorem parsed_requestIds (bs : Bytes) (h : Header) (hu : unmarshalHeader bs = .ok h) :
    (∃ r, h.requestIds = .opaque r) ∨ ReqIdsCanon h.requestIds := by
  unfold unmarshalHeader at hu
  cases hd : decHeader bs with
  | none => simp [hd] at hu
  | some p =>
    simp only [hd] at hu
    cases hph : pbToHeader p with
    | err => simp [hph] at hu
    | nilObj => simp [hph] at hu; split at hu <;> cases hu
    | panic s => simp [hph] at hu
    | ok h' =>
      simp only [hph, Outcome.ok.injEq] at hu
      subst hu
      simp only [pbToHeader, derefNat_safe 2 2 (by decide), derefNat_safe 2 11 (by decide),
        derefNat_safe 2 6 (by decide)] at hph
      cases hpt : binToTime (p.preTime.getD []) with
      | none => simp [hpt] at hph
      | some pt =>
        cases hct : binToTime (p.curTime.getD []) with
        | none => simp [hpt, hct] at hph
        | some ct =>
          simp only [hpt, hct, Outcome.ok.injEq] at hph
          subst hph
          cases p.requestIds with
          | none => exact Or.inr trivial
          | some raw => exact reqIds_parsed_canon raw

/-- `parsed_fixed_point_partial` without the JSON hypothesis: a header obtained by parsing whose
    RequestIds bytes were in the modelled class and whose times `MarshalBinary` carries is a fixed
    point of the next Marshal/UnMarshal pass (same content, same GenHash). -/
theorem parsed_fixed_point_partial_canon (bs : Bytes) (h : Header) (hu : unmarshalHeader bs = .ok h)
    (hpt : TimeOK h.preTime) (hct : TimeOK h.curTime) (hno : ∀ r, h.requestIds ≠ .opaque r)
    (fits : HeaderFits h) : passIsIdentity h = true := by
  have hc : ReqIdsCanon h.requestIds := by
    rcases parsed_requestIds bs h hu with ⟨r, hr⟩ | hc
    · exact absurd hr (hno r)
    · exact hc
  obtain ⟨b, hb, hub, _⟩ := parsed_fixed_point_partial bs h hu (headerOK_of_canon h ⟨hpt, hct, hc⟩) fits
  simp [passIsIdentity, hb, hub]

end Rangers.Props.C09
