import Rangers.Proofs.TrieDBFuel
import Rangers.Proofs.TrieDBExample
/-!
# C03 — the fuel the driver supplies is sufficient

`drv_c03` runs `commit` with fuel `cache.length + 1` (`Model.TrieDB.step`) and
`resolve` with fuel `disk.length + 1`.  On every acyclic store (a hash-addressed
store is acyclic unless Keccak has a cycle) that is enough, so the explicit
out-of-fuel answers (`diverges`, flag `F`) can only appear on a reference cycle.
-/
namespace Rangers.Props.C03Fuel
open Rangers.Model.TrieDB

theorem driver_walk_fuel_suffices (c : Cache) (hr : RankedCache c) (h : Hash) :
    ∃ ws, walk c (c.length + 1) h = some ws := by
  have := walk_driver_fuel hr h
  cases hw : walk c (c.length + 1) h with
  | none => simp [hw] at this
  | some ws => exact ⟨ws, rfl⟩

/-- hence `step … (.commit root failAt)` never answers `none` on an acyclic cache -/
theorem commit_step_defined (eD eC : Hash) (s : St) (hr : RankedCache s.cache) (root : Hash) (failAt : Option Nat) :
    ∃ s', step eD eC s (.commit root failAt) = some s' := by
  obtain ⟨ws, hw⟩ := driver_walk_fuel_suffices s.cache hr root
  simp only [step, commit, hw]
  cases failAt with
  | none => exact ⟨_, rfl⟩
  | some k =>
    simp only
    split <;> exact ⟨_, rfl⟩

theorem driver_resolve_fuel_suffices (d : Disk) (hr : Ranked d) (h : Hash) :
    resolve (diskGet d) (d.length + 1) h = .ok ∨ resolve (diskGet d) (d.length + 1) h = .missing := by
  have := resolve_driver_fuel hr h
  cases hres : resolve (diskGet d) (d.length + 1) h with
  | ok => exact Or.inl rfl
  | missing => exact Or.inr rfl
  | fuel => exact absurd hres this

/-- together with `resolve_flag_sound`: on an acyclic disk the driver's answer decides resolvability -/
theorem driver_resolve_decides (d : Disk) (hr : Ranked d) (h : Hash) :
    (resolve (diskGet d) (d.length + 1) h = .ok ↔ Resolvable d h) := by
  constructor
  · exact resolve_ok_sound d _ h
  · intro hres
    rcases driver_resolve_fuel_suffices d hr h with h1 | h1
    · exact h1
    · exact absurd hres (resolve_missing_sound d _ h h1)

/-- non-vacuity: the example cache of `Props/C03.lean` is acyclic (rank = the hash itself) -/
example : RankedCache Rangers.Props.C03.exS5.cache := by
  refine ⟨id, ?_⟩
  intro h n hl x hx _
  have hc : Rangers.Props.C03.exS5.cache = [(5, ⟨40, 15, [], [3, 4], [3, 4]⟩), (4, ⟨30, 14, [], [], []⟩), (3, ⟨20, 13, [1, 2], [], [1, 2]⟩),
    (2, ⟨6, 12, [], [], []⟩), (1, ⟨5, 11, [], [], []⟩)] := rfl
  rw [hc] at hl
  simp only [id]
  rw [lookup_cons_eq] at hl
  split at hl
  · injection hl with hl; subst hl; subst_vars; simp [CNode.childs] at hx; rcases hx with rfl | rfl <;> decide
  rw [lookup_cons_eq] at hl
  split at hl
  · injection hl with hl; subst hl; simp [CNode.childs] at hx
  rw [lookup_cons_eq] at hl
  split at hl
  · injection hl with hl; subst hl; subst_vars; simp [CNode.childs] at hx; rcases hx with rfl | rfl <;> decide
  rw [lookup_cons_eq] at hl
  split at hl
  · injection hl with hl; subst hl; simp [CNode.childs] at hx
  rw [lookup_cons_eq] at hl
  split at hl
  · injection hl with hl; subst hl; simp [CNode.childs] at hx
  · simp at hl

end Rangers.Props.C03Fuel
