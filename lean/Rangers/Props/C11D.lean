import Rangers.Props.C11C
/-!
# C11 — stack bound, depth bound, faults are ordinary failures
-/
namespace Rangers.Props.C11D
open Rangers.Evm11 Rangers.Props.C11 Rangers.Props.C11B Rangers.Props.C11C

/-! ## stack_bounded -/

/-- a fresh frame starts with an empty stack -/
theorem stack_bounded_init (code : BA) (gas self caller : Nat) (value : Word) (input : BA) :
    (mkFrame code gas self caller value input).stack.length ≤ 1024 := by simp [mkFrame]

/-- **stack_bounded (step).** Whatever the stack was, if the loop iteration gets past the
    `minStack/maxStack` validation then the stack the loop continues with — after an ordinary
    `execute`, or after a nested call/create pushed its result — has at most 1024 words.
    Uses only `table_stack_consistent` (min/max are `pops` / `1024 + pops − pushes` of the
    transcribed function) and the shape of `execute`'s result (`execOp_upd`). -/
theorem stack_bounded_step (cx : Ctx) (ht : TableOk cx.table) (ro : Bool) (fr : Frame) (g : Global)
    (info : OpInfo) (fr1 : Frame) (args : List Word) (g1 : Global) (cgt : Nat)
    (hpre : stepPre cx ro fr g = .ok info fr1 args g1 cgt) :
    (∀ u, execOp cx ro info.exec fr1 args g1 cgt = .upd u → (u.push ++ fr1.stack).length ≤ 1024) ∧
    (∀ req d g2 cr, execOp cx ro info.exec fr1 args g1 cgt = .invoke req d g2 →
      (resume { fr1 with gas := fr1.gas - d } req cr).1.stack.length ≤ 1024) := by
  have hp := stepPre_ok _ _ _ _ _ _ _ _ _ hpre
  have ha := ht _ _ hp.entry
  have hso : info.minStack = info.exec.pops ∧ info.maxStack + info.exec.pushes = 1024 + info.exec.pops := by
    unfold entryAll entryStackOk at ha
    simp only [Bool.and_eq_true, beq_iff_eq] at ha
    exact ha.1.1.1.1.1.1.1.1.2
  have hmin := hp.minOk
  have hmax := hp.maxOk
  have hlen : fr1.stack.length = fr.stack.length - info.exec.pops := by rw [hp.stack]; simp
  have hargs : args.length = info.exec.pops := by rw [hp.argsEq]; simp; omega
  constructor
  · intro u hex
    have hu := execOp_upd _ _ _ _ _ _ _ _ hargs hex
    simp only [List.length_append]
    rw [hu.1]; omega
  · intro req d g2 cr hex
    have hi := execOp_invoke _ _ _ _ _ _ _ _ _ _ hex
    have hpush : info.exec.pushes = 1 := by
      rcases hi with ⟨he, _⟩ | ⟨k, he, _⟩ | ⟨he, _⟩
      · rcases he with he | he <;> (rw [he]; rfl)
      · rw [he]; rfl
      · rw [he]; rfl
    rw [(resume_spec _ req cr).2]
    simp only
    omega

-- non-vacuity: the hypothesis is satisfiable — ADD on a two-word stack passes the validation
set_option maxRecDepth 20000 in
example : ∃ info fr1 args g1 cgt,
    stepPre demoCtx false { (mkFrame #[0x01] 1000 0 0 0 #[]) with stack := [1, 2] } (Global.start [])
      = .ok info fr1 args g1 cgt := ⟨_, _, _, _, _, rfl⟩

/-! ## depth_bounded -/

/-- the depth test of `evm.Call` & co.: at `evm.depth > 1024` nothing is run -/
theorem depth_limit_call (run : Runner) (depth : Nat) (ro : Bool) (k : CallKind) (cs cc : Nat) (cv : Word)
    (addr : Nat) (value : Word) (input : BA) (gas : Nat) (g : Global) (h : depth > 1024) :
    evmCall run depth ro k cs cc cv addr value input gas g = ⟨#[], gas, some .depth, g, 0⟩ := by
  unfold evmCall
  rw [if_pos h]

/-- `Interpreter.Run` executes at `evm.depth + 1` -/
theorem runContract_congr (run run' : Runner) (depth : Nat) (ro : Bool) (fr : Frame) (g : Global)
    (h : ∀ ro fr g, run (depth + 1) ro fr g = run' (depth + 1) ro fr g) :
    runContract run depth ro fr g = runContract run' depth ro fr g := by
  unfold runContract
  simp only [h]

/-- **depth_bounded.** `evm.Call/CallCode/DelegateCall/StaticCall` behave the same for any two
    runners that agree on depths ≤ 1025: no frame is ever started at interpreter depth
    1026 or more (`evm.depth` of a running frame is 1 … 1025, i.e. EVM call depth 0 … 1024). -/
theorem depth_bounded_call (run run' : Runner) (hrr : ∀ d, d ≤ 1025 → ∀ ro fr g, run d ro fr g = run' d ro fr g)
    (depth : Nat) (ro : Bool) (k : CallKind) (cs cc : Nat) (cv : Word)
    (addr : Nat) (value : Word) (input : BA) (gas : Nat) (g : Global) :
    evmCall run depth ro k cs cc cv addr value input gas g = evmCall run' depth ro k cs cc cv addr value input gas g := by
  by_cases h : depth > 1024
  · rw [depth_limit_call run _ _ _ _ _ _ _ _ _ _ _ h, depth_limit_call run' _ _ _ _ _ _ _ _ _ _ _ h]
  · have hc : ∀ ro fr g, runContract run depth ro fr g = runContract run' depth ro fr g :=
      fun ro fr g => runContract_congr run run' depth ro fr g (hrr (depth + 1) (by omega))
    unfold evmCall
    simp only [hc]

theorem depth_bounded_create (cx : Ctx) (run run' : Runner)
    (hrr : ∀ d, d ≤ 1025 → ∀ ro fr g, run d ro fr g = run' d ro fr g)
    (depth : Nat) (ro : Bool) (cs : Nat) (salt : Option Word) (value : Word) (init : BA) (gas : Nat) (g : Global) :
    evmCreate cx run depth ro cs salt value init gas g = evmCreate cx run' depth ro cs salt value init gas g := by
  by_cases h : depth > 1024
  · unfold evmCreate
    simp only [h, if_true]
  · have hc : ∀ ro fr g, runContract run depth ro fr g = runContract run' depth ro fr g :=
      fun ro fr g => runContract_congr run run' depth ro fr g (hrr (depth + 1) (by omega))
    unfold evmCreate
    simp only [hc]

/-- a frame running at depth 1025 cannot start another one: every CALL-family operation
    it executes fails with `ErrDepth` and gets its gas back -/
theorem no_frame_beyond_1025 (cx : Ctx) (fuel : Nat) (ro : Bool) (fr : Frame) (k : CallKind) (addr : Nat)
    (value : Word) (input : BA) (gas ro' rs io : Nat) (g : Global) :
    doInvoke cx (runLoop cx fuel) 1025 ro fr (.call k addr value input gas ro' rs io) g
      = ⟨#[], gas, some .depth, g, 0⟩ := by
  unfold doInvoke
  exact depth_limit_call _ _ _ _ _ _ _ _ _ _ _ _ (by omega)

/-! ## read-only context -/

/-- **write_in_static_faults.** In a read-only frame, an operation that gets past the validation
    is not flagged `writes` and is not a CALL with value: every flagged operation and every
    value-bearing CALL ends the frame with `ErrWriteProtection` (or an earlier ordinary fault). -/
theorem write_in_static_faults (cx : Ctx) (fr : Frame) (g : Global) (info : OpInfo) (fr1 : Frame)
    (args : List Word) (g1 : Global) (cgt : Nat) (h : stepPre cx true fr g = .ok info fr1 args g1 cgt) :
    info.writes = false ∧ ¬ ((fr.code.getD fr.pc 0).toNat = 0xf1 ∧ back fr.stack 2 ≠ 0) := by
  unfold stepPre at h
  simp only at h
  split at h
  · cases h
  · rename_i info' hent
    split at h
    · cases h
    · split at h
      · cases h
      · split at h
        · cases h
        · rename_i hro
          have hinfo : info' = info := by
            repeat' split at h
            all_goals (first | (cases h; done) | (cases h; rfl))
          subst hinfo
          simp only [true_and, not_or] at hro
          exact ⟨by simpa using hro.1, hro.2⟩

/-- **order of the checks** (Go order, pinned by the T-gen fact `Run.loopOrder`): the stack is
    validated before the read-only test looks at `stack.Back(2)`, so an under-full stack is a
    stack underflow of that frame in every context — read-only or not — and the read-only test
    never indexes below the stack. -/
theorem stack_fault_precedes_read_only (cx : Ctx) (ro : Bool) (fr : Frame) (g : Global) (info : OpInfo)
    (hent : cx.table.getD (fr.code.getD fr.pc 0).toNat none = some info)
    (h : fr.stack.length < info.minStack) : stepPre cx ro fr g = .fault .stackUnderflow g := by
  unfold stepPre
  simp only [hent, h, if_true]

theorem undefined_opcode_first (cx : Ctx) (ro : Bool) (fr : Frame) (g : Global)
    (hent : cx.table.getD (fr.code.getD fr.pc 0).toNat none = none) :
    stepPre cx ro fr g = .fault .invalidOpCode g := by
  unfold stepPre
  simp only [hent]

/-- TSTORE tests the flag itself -/
theorem tstore_in_static_faults (cx : Ctx) (fr : Frame) (loc val : Word) (g : Global) (cgt : Nat) :
    execOp cx true .tstore fr [loc, val] g cgt = .fault .writeProtection g := by
  simp [execOp]

/-- **static_is_sticky.** The frames started from a read-only frame are read-only whatever the
    call kind: `evm.Call/CallCode/DelegateCall/StaticCall`, `create` and `AuthCall` issued with
    `ro = true` only ever consult the runner with `ro = true` (the Go code: `in.readOnly` is
    set once by the first STATICCALL frame and reset only by that frame's deferred function,
    pinned by the T-gen fact `Run.readOnlyEntry`). And a frame's own flag is a parameter of its
    loop: no callee can change it (`runLoop` passes the same `ro` to every iteration). -/
theorem static_is_sticky_call (run run' : Runner) (hrr : ∀ d fr g, run d true fr g = run' d true fr g)
    (depth : Nat) (k : CallKind) (cs cc : Nat) (cv : Word)
    (addr : Nat) (value : Word) (input : BA) (gas : Nat) (g : Global) :
    evmCall run depth true k cs cc cv addr value input gas g = evmCall run' depth true k cs cc cv addr value input gas g := by
  have hc : ∀ fr g, runContract run depth true fr g = runContract run' depth true fr g := by
    intro fr g; unfold runContract; simp only [hrr]
  unfold evmCall
  simp only [hc]

theorem static_is_sticky_create (cx : Ctx) (run run' : Runner) (hrr : ∀ d fr g, run d true fr g = run' d true fr g)
    (depth : Nat) (cs : Nat) (salt : Option Word) (value : Word) (init : BA) (gas : Nat) (g : Global) :
    evmCreate cx run depth true cs salt value init gas g = evmCreate cx run' depth true cs salt value init gas g := by
  have hc : ∀ fr g, runContract run depth true fr g = runContract run' depth true fr g := by
    intro fr g; unfold runContract; simp only [hrr]
  unfold evmCreate
  simp only [hc]

theorem static_is_sticky_authcall (cx : Ctx) (run run' : Runner) (hrr : ∀ d fr g, run d true fr g = run' d true fr g)
    (depth : Nat) (auth addr : Nat) (value : Word) (input : BA) (gas : Nat) (g : Global) :
    evmAuthCall cx run depth true auth addr value input gas g = evmAuthCall cx run' depth true auth addr value input gas g := by
  have hc : ∀ fr g, runContract run depth true fr g = runContract run' depth true fr g := by
    intro fr g; unfold runContract; simp only [hrr]
  unfold evmAuthCall
  simp only [hc]

/-- STATICCALL makes its callee read-only even from a writable frame -/
theorem staticcall_enters_static (run run' : Runner) (hrr : ∀ d fr g, run d true fr g = run' d true fr g)
    (depth : Nat) (ro : Bool) (cs cc : Nat) (cv : Word)
    (addr : Nat) (value : Word) (input : BA) (gas : Nat) (g : Global) :
    evmCall run depth ro .staticcall cs cc cv addr value input gas g
      = evmCall run' depth ro .staticcall cs cc cv addr value input gas g := by
  have hc : ∀ fr g, runContract run depth true fr g = runContract run' depth true fr g := by
    intro fr g; unfold runContract; simp only [hrr]
  unfold evmCall
  simp only [hc]

/-! ## jump destinations -/

/-- **validJumpdest_in_code.** A destination the model accepts lies strictly inside the code
    (`dest < len(code)`, so `Code[dest]` exists — the destination equal to the code length is
    refused), fits 64 bits, holds the JUMPDEST byte and is not inside PUSH data. -/
theorem validJumpdest_in_code (fr : Frame) (dest : Word) (h : validJumpdest fr dest = true) :
    dest < fr.code.size ∧ dest < 2 ^ 64 ∧ fr.code.getD dest 0 = 0x5b ∧ fr.isCode.getD dest false = true := by
  unfold validJumpdest at h
  simp only [Bool.and_eq_true, decide_eq_true_eq, beq_iff_eq] at h
  exact ⟨h.1.1.2, h.1.1.1, h.1.2, h.2⟩

/-- every other destination ends the frame with `ErrInvalidJump` — JUMP … -/
theorem bad_jump_faults (cx : Ctx) (ro : Bool) (fr : Frame) (pos : Word) (g : Global) (cgt : Nat)
    (h : validJumpdest fr pos = false) :
    execOp cx ro .jump fr [pos] g cgt = .fault .invalidJump g := by
  simp [execOp, h]

/-- … and JUMPI with a non-zero condition -/
theorem bad_jumpi_faults (cx : Ctx) (ro : Bool) (fr : Frame) (pos cond : Word) (g : Global) (cgt : Nat)
    (hc : cond ≠ 0) (h : validJumpdest fr pos = false) :
    execOp cx ro .jumpi fr [pos, cond] g cgt = .fault .invalidJump g := by
  simp [execOp, h, hc]

/-- a taken jump lands on a valid destination: the next `pc` is the destination -/
theorem jump_lands_on_jumpdest (cx : Ctx) (ro : Bool) (fr : Frame) (pos : Word) (g : Global) (cgt : Nat) (u : Upd)
    (h : execOp cx ro .jump fr [pos] g cgt = .upd u) : u.pc = pos ∧ validJumpdest fr pos = true := by
  simp only [execOp] at h
  split at h
  · rename_i hv; cases h; exact ⟨rfl, hv⟩
  · cases h

/-- non-vacuity: in `PUSH1 4 JUMP INVALID JUMPDEST` destination 4 is valid, 5 (= code length) and 3 are not -/
example : validJumpdest (mkFrame #[0x60, 0x04, 0x56, 0xfe, 0x5b] 0 0 0 0 #[]) 4 = true ∧
    validJumpdest (mkFrame #[0x60, 0x04, 0x56, 0xfe, 0x5b] 0 0 0 0 #[]) 5 = false ∧
    validJumpdest (mkFrame #[0x60, 0x04, 0x56, 0xfe, 0x5b] 0 0 0 0 #[]) 3 = false := by decide

/-! ## the JUMPDEST bit vector is never written out of range -/

theorem pushWrites_bound (len p n : Nat) (hp : p ≤ len) (hn : n ≤ 32) :
    ∀ i ∈ pushWrites p n, i < len / 8 + 1 + 4 := by
  intro i hi
  unfold pushWrites at hi
  simp only [List.mem_append, List.mem_flatMap, List.mem_range, List.mem_cons, List.mem_map,
    List.not_mem_nil, or_false] at hi
  rcases hi with ⟨k, hk, hi⟩ | ⟨j, hj, hi⟩
  · rcases hi with hi | hi <;> omega
  · omega

theorem bitmapWrites_go_bound (code : BA) :
    ∀ (fuel pc : Nat), ∀ i ∈ bitmapWrites.go code fuel pc, i < bitvecLen code := by
  intro fuel
  induction fuel with
  | zero => intro pc i hi; simp [bitmapWrites.go] at hi
  | succ f ih =>
    intro pc i hi
    unfold bitmapWrites.go at hi
    split at hi
    · simp at hi
    · rename_i hpc
      simp only at hi
      split at hi
      · rename_i hop
        rw [List.mem_append] at hi
        rcases hi with hi | hi
        · unfold bitvecLen
          exact pushWrites_bound code.size (pc + 1) _ (by omega) (by omega) i hi
        · exact ih _ i hi
      · exact ih _ i hi

/-- **bitmap_writes_in_range.** Every byte `codeBitmap` writes — for any code, in particular code whose
    length is a multiple of 8 and whose last byte is a PUSH32 opcode with all of its data cut off —
    lies inside the `len(code)/8 + 1 + 4` bytes it allocated (the allocation expression is pinned by
    the T-gen fact `analysis.codeBitmap`): the lazy JUMPDEST analysis cannot index out of range. -/
theorem bitmap_writes_in_range (code : BA) : ∀ i ∈ bitmapWrites code, i < bitvecLen code :=
  bitmapWrites_go_bound code code.size 0

/-- the bound is tight: 8 bytes ending in a truncated PUSH32 write byte index 5 of the 6 allocated
    (one byte less — `(len+7)/8+4` — would be out of range) -/
example : bitmapWrites #[0x5b, 0x5b, 0x5b, 0x5b, 0x5b, 0x5b, 0x5b, 0x7f] = [1, 2, 2, 3, 3, 4, 4, 5] ∧
    bitvecLen #[0x5b, 0x5b, 0x5b, 0x5b, 0x5b, 0x5b, 0x5b, 0x7f] = 6 := by decide

/-! ## faults are ordinary failed calls -/

/-- the faults the property names (and the others the code can raise) -/
def OrdinaryFault (e : Fault) : Prop := e.isAbort = false

/-- **faults_are_failures (loop).** Any fault raised by the validation / gas part of a loop
    iteration is one of the ordinary EVM faults (out of gas, invalid opcode, stack
    under/overflow, write protection, gas overflow) or the tie's `desync`; never the
    `stackBug` / `outOfFuel` artefacts. -/
theorem stepPre_faults (cx : Ctx) (ro : Bool) (fr : Frame) (g g' : Global) (e : Fault)
    (h : stepPre cx ro fr g = .fault e g') :
    e = .invalidOpCode ∨ e = .stackUnderflow ∨ e = .stackOverflow ∨ e = .writeProtection ∨
    e = .outOfGas ∨ e = .gasUintOverflow ∨ (∃ k, e = .desync k) := by
  unfold stepPre at h
  simp only at h
  repeat' split at h
  all_goals (first | (cases h; done) | (cases h; simp))

/-- **faults_are_failures (call).** Whatever went wrong inside a callee — any fault other than
    `revert` — the caller sees an ordinary failed call that consumed all the gas it was given
    (model artefacts excepted), exactly like `evm.Call`'s `if err != ErrExecutionReverted { gas = 0 }`. -/
theorem failed_call_consumes_gas (snap : String) (ret : BA) (rgas : Nat) (e : Fault) (g : Global)
    (hne : e ≠ .reverted) (hab : e.isAbort = false) :
    (finishCallRes snap ret rgas (some e) g).gas = 0 ∨
    (∃ k, (finishCallRes snap ret rgas (some e) g).err = some (.desync k)) := by
  unfold finishCallRes
  simp only [hab, Bool.false_eq_true, if_false]
  split
  · right; exact ⟨_, rfl⟩
  · left; simp [hne]

/-- a reverting callee keeps its remaining gas -/
theorem reverted_call_keeps_gas (snap : String) (ret : BA) (rgas : Nat) (g g' : Global)
    (h : g.tell ("rv:" ++ snap) = some g') :
    finishCallRes snap ret rgas (some .reverted) g = ⟨ret, rgas, some .reverted, g', 0⟩ := by
  unfold finishCallRes
  simp [Fault.isAbort, h]

end Rangers.Props.C11D
