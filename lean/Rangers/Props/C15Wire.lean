import Rangers.Model.RoundWire
/-!
C15, wire level: what the node's decoder does with the byte fields of a verify message
(`Model/RoundWire.lean`, tied by the T-corr stream `wire` against the real
`UnMarshalConsensusVerifyMessage`). The signer id is an unauthenticated field: these theorems say which
byte strings name the same member, which make `ID.Serialize` panic, and that nothing but an empty
`DataSign` is rejected at this level.
-/
namespace Rangers.Props.C15
open Rangers Rangers.Model.Round

theorem foldl_be_lt (b : Bytes) : ∀ acc : Nat,
    b.foldl (fun acc x => acc * 256 + x.toNat) acc < (acc + 1) * 256 ^ b.length := by
  induction b with
  | nil => intro acc; simp
  | cons x xs ih =>
    intro acc
    have hx : x.toNat < 256 := x.toNat_lt
    have := ih (acc * 256 + x.toNat)
    simp only [List.foldl_cons, List.length_cons]
    calc List.foldl (fun acc x => acc * 256 + x.toNat) (acc * 256 + x.toNat) xs
        < (acc * 256 + x.toNat + 1) * 256 ^ xs.length := this
      _ ≤ ((acc + 1) * 256) * 256 ^ xs.length := Nat.mul_le_mul_right _ (by omega)
      _ = (acc + 1) * 256 ^ (xs.length + 1) := by rw [Nat.pow_succ, Nat.mul_assoc, Nat.mul_comm 256]

/-- A field of `n` bytes encodes a value below `256^n`. -/
theorem idOfBytes_lt (b : Bytes) : idOfBytes b < 256 ^ b.length := by
  have := foldl_be_lt b 0
  simpa [idOfBytes, beToNat] using this

/-- **padded_id_same_member**: any number of leading zero bytes names the same member
(`idenc=pad`, `pad1`, `strip` of the harness; 31-, 32-, 33-, 34-byte encodings of one id). -/
theorem padded_id_same_member (z : Nat) (b : Bytes) :
    idOfBytes (List.replicate z 0 ++ b) = idOfBytes b := by
  induction z with
  | zero => rfl
  | succ n ih =>
    have : List.replicate (n + 1) (0 : UInt8) ++ b = 0 :: (List.replicate n 0 ++ b) := by
      simp [List.replicate_succ]
    rw [this]
    simp only [idOfBytes, beToNat, List.foldl_cons] at ih ⊢
    simpa using ih

example : idOfBytes [0, 0, 1, 2] = idOfBytes [1, 2] ∧ idOfBytes [1, 2] = 258 := by decide

/-- Padding does not change whether `ID.Serialize` panics either. -/
theorem padded_id_same_oversize (z : Nat) (b : Bytes) :
    idOversize (List.replicate z 0 ++ b) = idOversize b := by
  simp [idOversize, padded_id_same_member]

/-- **oversize_iff**: the log line of `round1.Update` panics exactly for ids ≥ 2^256 … -/
theorem oversize_iff (b : Bytes) : idOversize b = true ↔ 2 ^ 256 ≤ idOfBytes b := by
  simp [idOversize]

/-- … so a signer-id field of at most 32 bytes never does, whatever its content. -/
theorem short_id_never_oversize (b : Bytes) (h : b.length ≤ 32) : idOversize b = false := by
  have h1 := idOfBytes_lt b
  have h2 : 256 ^ b.length ≤ 256 ^ 32 := Nat.pow_le_pow_right (by decide) h
  have h3 : (256 : Nat) ^ 32 = 2 ^ 256 := by decide
  simp only [idOversize, decide_eq_false_iff_not, Nat.not_le]
  omega

example : idOversize (1 :: List.replicate 32 0) = true ∧ idOversize (0 :: List.replicate 32 255) = false := by
  decide

/-- `common.BytesToHash` always yields 32 bytes … -/
theorem bytesToHash_length (b : Bytes) : (bytesToHash b).length = 32 := by
  unfold bytesToHash
  split
  · simp only [List.length_drop]; omega
  · simp only [padLeft, List.length_append, List.length_replicate]; omega

/-- … is the identity on 32-byte input … -/
theorem bytesToHash_of_32 (b : Bytes) (h : b.length = 32) : bytesToHash b = b := by
  unfold bytesToHash
  rw [if_neg (by omega)]
  simp [padLeft, h]

/-- … and idempotent: a block hash / data hash that went through the decoder once is canonical. -/
theorem bytesToHash_idem (b : Bytes) : bytesToHash (bytesToHash b) = bytesToHash b :=
  bytesToHash_of_32 _ (bytesToHash_length b)

/-- Longer input keeps its LAST 32 bytes: two different wire `BlockHash` fields can file a message under
the same party key. -/
theorem bytesToHash_crops_left (pre b : Bytes) (h : b.length = 32) : bytesToHash (pre ++ b) = b := by
  unfold bytesToHash
  by_cases hp : pre = []
  · subst hp; simp [h, padLeft]
  · have : 0 < pre.length := List.length_pos_iff.mpr hp
    rw [if_pos (by simp only [List.length_append]; omega)]
    simp only [List.length_append, h, Nat.add_sub_cancel]
    exact List.drop_left

example : bytesToHash ([9, 9] ++ List.replicate 32 7) = List.replicate 32 7 := by decide

/-- **decode_rejects_only_empty_datasign**: at field level the decoder drops a packet iff `DataSign` is
empty; every other content — any lengths, any ids, garbage points — reaches `OnMessageVerify`. -/
theorem decode_rejects_only_empty_datasign (f : VFields) :
    decodeFields f = none ↔ f.dataSign = [] := by
  unfold decodeFields
  cases h : f.dataSign with
  | nil => simp
  | cons x xs => simp

/-- A signature field shorter than 64 bytes is a nil signature (rejected later by `VerifySig` / the
nil check of the beacon share), 64 bytes or more never are. -/
theorem sigNil_iff_short (b : Bytes) : sigIsNil b = true ↔ b.length < 64 := by simp [sigIsNil]

/-- **decode_padding_invariant**: re-encoding the signer id with leading zero bytes changes nothing the
round can see. -/
theorem decode_padding_invariant (f : VFields) (z : Nat) :
    decodeFields { f with signMember := List.replicate z 0 ++ f.signMember } = decodeFields f := by
  unfold decodeFields
  simp only [padded_id_same_member, padded_id_same_oversize]

end Rangers.Props.C15
