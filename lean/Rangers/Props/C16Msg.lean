import Rangers.Model.VrfMsg
import Rangers.Generated.C16Sites
/-!
Property C16, part 7: the message clause covers how the node really builds the message:
`msg = SHA3-256^(delta−1)(parent.Random)`, `delta = ⌊seconds(after − before)⌋ / MAX_GROUP_BLOCK_TIME + 1`.
-/
namespace Rangers.Props.C16Msg
open Rangers Rangers.Model Rangers.Model.VrfMsg

/-- The message is a function of the parent's random value and of the time SLOT only: two cast
    times in the same slot give the same message (proposer and verifier agree without agreeing
    on nanoseconds). -/
theorem msg_depends_on_slot_only (random : Bytes) (ns ns' : Int) (h : calDelta ns = calDelta ns') :
    blockMsg random ns = blockMsg random ns' := by
  unfold blockMsg; rw [h]

/-- For a non-negative block interval below 2^23 s the slot number is
    `ns / (MAX_GROUP_BLOCK_TIME · 10^9) + 1 ≥ 1` (Go's truncating divisions agree with floor). -/
theorem calDelta_nonneg (ns : Nat) (h : ns / 1000000000 < 2 ^ 23) (hm : maxGroupBlockTime ≠ 0) :
    calDelta (ns : Int) = some ((ns / 1000000000 / maxGroupBlockTime : Nat) + 1) := by
  unfold calDelta secondsTrunc
  have e1 : ((ns : Int).tdiv 1000000000) = ((ns / 1000000000 : Nat) : Int) := by
    rw [Int.tdiv_eq_ediv_of_nonneg (by omega)]; rfl
  simp only [hm, ↓reduceIte, e1, Int.natAbs_natCast, h, Option.map_some]
  rw [Int.tdiv_eq_ediv_of_nonneg (by omega)]
  rfl

/-- the live constant is 2 seconds per slot: non-vacuity of `hm` and a concrete slot computation -/
example : maxGroupBlockTime ≠ 0 ∧ calDelta 4999999999 = some 3 ∧ calDelta (-1) = some 1 := by decide

/-- `genVrfMsg` hashes exactly `delta − 1` times, and not at all for `delta ≤ 1`. -/
theorem genVrfMsg_unfold (random : Bytes) (delta : Int) :
    (delta ≤ 1 → genVrfMsg random delta = random) ∧
    (1 ≤ delta → genVrfMsg random (delta + 1) = genVrfMsg (sha3_256 random) delta) := by
  constructor
  · intro h
    have : (delta - 1).toNat = 0 := by omega
    unfold genVrfMsg; rw [this]; rfl
  · intro h
    have : (delta + 1 - 1).toNat = (delta - 1).toNat + 1 := by omega
    unfold genVrfMsg; rw [this]; rfl

theorem sha3_256_length (m : Bytes) : (sha3_256 m).length = 32 := by
  simp [sha3_256, Keccak.laneBytes]

/-- every message of a later slot is a 32-byte SHA3 digest -/
theorem genVrfMsg_length (random : Bytes) (delta : Int) (h : 2 ≤ delta) :
    (genVrfMsg random delta).length = 32 := by
  have key : ∀ n m, (hashTimes (n + 1) m).length = 32 := by
    intro n
    induction n with
    | zero => intro m; simp [hashTimes, sha3_256_length]
    | succ n ih => intro m; exact ih (sha3_256 m)
  have : (delta - 1).toNat = ((delta - 1).toNat - 1) + 1 := by omega
  unfold genVrfMsg; rw [this]; exact key _ _

/-- T-gen: the message construction in the source is what the model transcribes -/
theorem message_call_order :
    Generated.C16Sites.genVrfMsgCalls = ["base.Data2CommonHash().Bytes", "base.Data2CommonHash"] ∧
    Generated.C16Sites.calDeltaCalls = ["after.Sub().Seconds", "after.Sub"] ∧
    Generated.C16Sites.data2CommonHashCalls = ["sha3.Sum256", "panic"] ∧
    Generated.C16Sites.genProveCalls = ["CalDeltaByTime", "genVrfMsg", "vrf.VRFGenProve", "validateProve"] ∧
    Generated.C16Facts.maxGroupBlockTime = 2 := by decide

end Rangers.Props.C16Msg
