import Rangers.Props.C07
/-!
# C07 — the payload codec rests on C08

`decodeTx` is C08's `RLP.decodeBytes` followed by the typing of the nine items
(`txOfItem`), `encodeTx` is C08's `RLP.encode` of `itemOfTx`.  C08 proves the generic
coder lossless and canonical and records that the *typed* decoder of `eth_tx.txdata` is not
(`Props.C08.typed_canonical_counterexample`, `txdata_two_encodings`: the `rlp:"nil"`
recipient accepts the empty list like the empty string).  The theorems below state that
finding at the level of C07 and that the canonical-payload check of `verifyETHTx` (the
fix) closes exactly it.
-/
namespace Rangers.Props.C07
open Rangers Rangers.Model.TxAuth Rangers.RLP

/-- The typed decoder of the payload has two accepted encodings of every contract creation
    (recipient `0x80` and `0xc0`) — C08's finding on `eth_tx.txdata`, for every such transaction. -/
theorem payload_two_encodings (e : EthTx) (wf : WfEthTx e) (hto : e.to = none)
    (hsz : (itemOfTxAlt e).sizeOK) :
    decodeTx (encode (itemOfTxAlt e)) = some e ∧ decodeTx (encode (itemOfTx e)) = some e ∧
      encode (itemOfTxAlt e) ≠ encode (itemOfTx e) := by
  refine ⟨?_, decodeTx_encodeTx e wf, encode_alt_ne e hto⟩
  unfold decodeTx
  rw [Props.C08.decodeBytes_encode _ hsz]
  exact txOfItem_itemOfTxAlt e wf hto

/-- And these are the only ones: whatever the payload decoder accepts is the encoder's
    output for the decoded transaction, or the `0xc0`-recipient variant of a contract creation. -/
theorem payload_preimages (enc : Bytes) (e : EthTx) (h : decodeTx enc = some e) :
    enc = encodeTx e ∨ (e.to = none ∧ enc = encode (itemOfTxAlt e)) := by
  unfold decodeTx at h
  cases hd : decodeBytes enc with
  | error er => rw [hd] at h; cases h
  | ok it =>
    rw [hd] at h
    have hc := Props.C08.decodeBytes_canonical enc it hd
    rcases txOfItem_preimages it e h with hi | ⟨hn, hi⟩
    · left; rw [hc, hi]; rfl
    · right; exact ⟨hn, by rw [hc, hi]⟩

/-- With the canonical-payload check: an accepted payload is `encode (decode payload)` in
    C08's sense — it decodes (as a generic item) to exactly the item the encoder writes for
    the transaction, and is that item's encoding. -/
theorem eth_payload_canonical (cr : Crypto) (cfg : ChainCfg) (h : Nat) (tx : Tx)
    (hacc : verifyEth cr cfg h tx = .ok) :
    ∃ e, decodeTx (fromHex tx.extraData) = some e ∧
      decodeBytes (fromHex tx.extraData) = .ok (itemOfTx e) ∧
      fromHex tx.extraData = encode (itemOfTx e) := by
  obtain ⟨e, s, hd, henc, _⟩ := (eth_accept_iff cr cfg h tx).1 hacc
  refine ⟨e, hd, ?_, henc.symm⟩
  have hd' := hd
  unfold decodeTx at hd'
  cases hdb : decodeBytes (fromHex tx.extraData) with
  | error er => rw [hdb] at hd'; cases hd'
  | ok it =>
    rw [hdb] at hd'
    have hc := Props.C08.decodeBytes_canonical _ it hdb
    rcases txOfItem_preimages it e hd' with hi | ⟨hn, hi⟩
    · rw [hi]
    · exfalso
      apply encode_alt_ne e hn
      rw [← hi, ← hc, ← henc]; rfl

/-- The `0xc0`-recipient spelling of a contract creation is rejected whatever the declared
    fields are (the fixed finding `eth-noncanonical-payload-accepted`). -/
theorem noncanonical_recipient_rejected (cr : Crypto) (cfg : ChainCfg) (h : Nat) (tx : Tx) (e : EthTx)
    (hsz : (itemOfTxAlt e).sizeOK)
    (hx : fromHex tx.extraData = encode (itemOfTxAlt e)) :
    verifyEth cr cfg h tx ≠ .ok := by
  intro hacc
  obtain ⟨e', _, hdb, _⟩ := eth_payload_canonical cr cfg h tx hacc
  rw [hx, Props.C08.decodeBytes_encode _ hsz] at hdb
  injection hdb with hdb
  simp only [itemOfTxAlt, itemOfTx, coreItems, List.cons_append, List.nil_append, Item.list.injEq,
    List.cons.injEq] at hdb
  obtain ⟨_, _, _, h4, _⟩ := hdb
  cases hto : e'.to <;> simp [toItem, hto] at h4

/-- a well-formed contract creation for chain 9 and its two spellings -/
example : WfEthTx toyEth155 ∧ toyEth155.to = none ∧ (itemOfTxAlt toyEth155).sizeOK :=
  ⟨⟨by decide, by decide, (by intro a ha; cases ha), by
      simp [toyEth155, itemOfTx, coreItems, toItem, Item.sizeOK, Item.sizeOKs, encodeList, encode,
        encString, encHead, toBE, toBEf]⟩, rfl, by
    simp [toyEth155, itemOfTxAlt, Item.sizeOK, Item.sizeOKs, encodeList, encode, encListPayload,
      encString, encHead, toBE, toBEf]⟩

example : fromHex (toHex0x (encode (itemOfTxAlt toyEth155))) = encode (itemOfTxAlt toyEth155) :=
  fromHex_toHex0x _ (encode_ne_nil _)

end Rangers.Props.C07
