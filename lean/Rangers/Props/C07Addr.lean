import Rangers.Props.C07
import Rangers.Proofs.TxAuthSecp
/-!
# C07 — the address of a public key

`nativeAddrStr` models `BytesToPublicKey(pk).GetAddress()`: the coordinates become integers,
`GetID` writes them back right-aligned into 32-byte slots (`getIDInput`), Keccak, last 20
bytes.  With that padding the address is the *reference* address — the digest of the 64
coordinate bytes as they stand in the key — for every key, short coordinates included; without
it (minimal bytes) the digest input is a different string exactly for those keys.
-/
namespace Rangers.Props.C07
open Rangers Rangers.Model.TxAuth

/-- For every 65-byte key the padded digest input is the key's 64 coordinate bytes. -/
theorem getIDInput_is_coordinates (pk : Bytes) (h : pk.length = 65) : getIDInput pk = pk.drop 1 := by
  unfold getIDInput pubX pubY
  have l1 : ((pk.drop 1).take 32).length = 32 := by simp [h]
  have l2 : ((pk.drop 33).take 32).length = 32 := by simp [h]
  have p1 := padLeft_natToBE_beToNat ((pk.drop 1).take 32)
  have p2 := padLeft_natToBE_beToNat ((pk.drop 33).take 32)
  rw [l1] at p1
  rw [l2] at p2
  rw [p1, p2]
  have e : pk.drop 33 = (pk.drop 1).drop 32 := by rw [List.drop_drop]
  have l3 : ((pk.drop 1).drop 32).length = 32 := by simp [h]
  have t2 : ((pk.drop 1).drop 32).take 32 = (pk.drop 1).drop 32 := List.take_of_length_le (by omega)
  rw [e, t2, List.take_append_drop]

/-- **The sender address is the reference address**: the address string the signature check
    compares with `Source` is `0x` + hex of the last 20 bytes of Keccak-256 over the 64
    coordinate bytes of the recovered key. -/
theorem native_address_is_reference (cr : Crypto) (pk : Bytes) (h : pk.length = 65) :
    nativeAddrStr cr pk = toHex0x (toAddress (cr.keccak (pk.drop 1))) := by
  unfold nativeAddrStr
  rw [getIDInput_is_coordinates pk h]

/-- a key whose X coordinate has a leading zero byte -/
def shortXKey : Bytes := 4 :: 0 :: List.replicate 31 7 ++ List.replicate 32 9

example : shortXKey.length = 65 := by decide

/-- Why the padding matters (seeded regression C07-d): for a key with a short coordinate the
    minimal coordinate bytes are *not* the digest input, so an implementation hashing
    `X.Bytes() ‖ Y.Bytes()` derives another address for such keys. -/
theorem unpadded_input_differs :
    natToBE (pubX shortXKey) ++ natToBE (pubY shortXKey) ≠ getIDInput shortXKey := by
  intro h
  have := congrArg List.length h
  rw [getIDInput_is_coordinates shortXKey (by decide)] at this
  revert this
  decide

/-- Honest acceptance stated against the reference address: a transaction whose `Source` is
    the reference address of the key its signature recovers to (and verifies for) is accepted. -/
theorem honest_native_accepted_reference (cr : Crypto) (cfg : ChainCfg) (h : Nat) (tx : Tx) (sg : Sign) (pk : Bytes)
    (hty : tx.type ≠ typeETHTX) (hcid : tx.chainId = chainIdStr cfg h) (hhash : tx.hash = cr.sha256 (ser tx))
    (hsign : tx.sign = some sg) (hrec : recoverPubkey cr tx.hash sg.bytes = some pk) (hpk : pk.length = 65)
    (hver : libVerify cr pk tx.hash (sg.bytes.take 64) = true)
    (hsrc : tx.source = toHex0x (toAddress (cr.keccak (pk.drop 1)))) :
    verifyTx cr cfg h tx = .ok :=
  honest_native_accepted cr cfg h tx sg pk hty hcid hhash hsign hrec hver
    (by rw [native_address_is_reference cr pk hpk]; exact hsrc)

end Rangers.Props.C07
