import Rangers.Model.Pool
namespace Rangers.Props.C17
open Rangers Rangers.Pool

theorem placeholder : txCountPerBlock = 200 := rfl

end Rangers.Props.C17
