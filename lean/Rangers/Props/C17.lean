import Rangers.Proofs.PoolPack
/-!
# C17 — the transaction pool hands each transaction to the chain at most once, never ahead of nonce

All statements are about `Rangers.Pool` (`Model/Pool.lean`), the definitions the driver `drv_c17`
executes against the real `TxPool` in the correspondence run. Helper lemmas live in
`Proofs/Pool*.lean`; every `theorem` below is one proof obligation.

Clauses of the property and where they are:
* executed ⇒ never admitted again ............ `no_readmit`, `at_most_once`
* executed ⇒ never packed again .............. `pack_disjoint_executed`, `at_most_once`
* reorg ⇒ pending again, can be packed ....... `reorg_restores_partial` (+ `FullStatementReorg`,
                                               `reorg_restores_counterexample`: full container)
* batch: no duplicates, at most the limit .... `pack_subset_pending_nodup`, `pack_le_limit`
* ascending nonce per sender ................. `pack_nonce_order`, `nonce_order_any_sort`
                                               (+ `FullStatementNonceOrder`, `…_counterexample`)
* never ahead of the expected nonce .......... `pack_not_ahead`, `expected_le_state_plus_placed`
* operations never corrupt the pool .......... `inv_preserved`, `inv_reachable`, `pack_total`,
                                               `mark_panics_iff` (sequential part; schedules are
                                               evidence from the `-race` run, not proof)
-/
namespace Rangers.Props.C17
open Rangers Rangers.Pool

/-! ## Executed (or pending) transactions are not admitted again -/

/-- `AddTransaction` / `add` of a transaction whose hash has an executed record changes nothing and
answers `ErrExist`. -/
theorem no_readmit (s : Pool) (t : Tx) (h : s.isExecuted t.hash = true) :
    s.addTransaction t = (s, .exist) ∧ s.add t = (s, .exist) := by
  have he : s.existed t.hash = true := by simp [Pool.existed, h]
  exact ⟨addTransaction_exist he, add_exist he⟩

/-- The same for a hash that is already pending: no duplicate entry, no ring reset. -/
theorem no_duplicate_pending (s : Pool) (t : Tx) (h : s.contains t.hash = true) :
    s.addTransaction t = (s, .exist) := by
  have he : s.existed t.hash = true := by simp [Pool.existed, h]
  exact addTransaction_exist he

def tA : Tx := ⟨1, 11, [48, 120, 48, 49], 0, 0, 0⟩
def tB : Tx := ⟨2, 12, [48, 120, 48, 49], 1, 0, 7⟩
def tC : Tx := ⟨3, 13, [48, 120, 48, 50], 0, 5, 0⟩

/-- non-vacuity: a pool with an executed record exists and rejects the re-submission -/
example : (((Pool.empty 10).markExecuted [11] [tA] []).1).isExecuted tA.hash = true := by decide
example : (((Pool.empty 10).markExecuted [11] [tA] []).1.addTransaction tA).2 = .exist := by decide

/-! ## The invariant and its preservation by every operation -/

/-- The state-changing operations of the pool. -/
inductive Op where
  | add (t : Tx)                                                   -- AddTransaction
  | mark (receipts : List Nat) (txs : List Tx) (evicted : List Nat) -- MarkExecuted
  | unmark (txs : List Tx)                                         -- UnMarkExecuted
  | expire                                                         -- growRing

def apply (s : Pool) : Op → Pool
  | .add t => (s.addTransaction t).1
  | .mark r t e => (s.markExecuted r t e).1
  | .unmark t => s.unmark t
  | .expire => s.expire

/-- Well-formed call: every receipt handed to `MarkExecuted` belongs to a transaction of the block. -/
def Op.WF : Op → Prop
  | .mark r t _ => Covered r t
  | _ => True

/-- `Inv` (pending hashes unique; nothing pending has an executed record; the shared batch holds
no executed record between calls) is preserved by every well-formed operation. -/
theorem inv_preserved (s : Pool) (op : Op) (hi : Inv s) (hw : op.WF) : Inv (apply s op) := by
  cases op with
  | add t => exact inv_addTransaction t hi
  | mark r t e => exact inv_markExecuted hi hw
  | unmark t => exact inv_unmark t hi
  | expire => exact inv_expire hi

/-- Hence it holds in every state reachable from the empty pool. -/
theorem inv_reachable (limit : Nat) (ops : List Op) (hw : ∀ op ∈ ops, op.WF) :
    Inv (ops.foldl apply (Pool.empty limit)) := by
  suffices h : ∀ (s : Pool), Inv s → Inv (ops.foldl apply s) from h _ (inv_empty limit)
  induction ops with
  | nil => intro s hi; exact hi
  | cons op rest ih =>
    intro s hi
    simp only [List.foldl_cons]
    exact ih (fun o ho => hw o (by simp [ho])) _ (inv_preserved s op hi (hw op (by simp)))

example : Inv (([Op.add tA, Op.add tB, Op.mark [11] [tA] [12], Op.unmark [tA], Op.expire].foldl apply (Pool.empty 3))) :=
  inv_reachable 3 _ (by
    intro op hop
    simp at hop
    rcases hop with rfl | rfl | rfl | rfl | rfl <;> simp [Op.WF, Covered, tA])

/-- The error branch of `MarkExecuted` (nil dereference in `refreshGateNonce`) is taken exactly when a
receipt has no transaction in the block's list — never on what `VMExecutor.Execute` returns. -/
theorem mark_panics_iff (s : Pool) (receipts : List Nat) (txs : List Tx) (evicted : List Nat) :
    (s.markExecuted receipts txs evicted).2 = true ↔ ¬ Covered receipts txs := by
  have hm : (receipts.map (fun h => (h, 1))).map (·.1) = receipts := by simp [List.map_map, Function.comp_def]
  have key := markExecutedZ_res (s := s) (rs := receipts.map (fun h => (h, 1))) (txs := txs) (evicted := evicted)
  rw [hm] at key
  unfold Pool.markExecuted
  cases hz : s.markExecutedZ (receipts.map (fun h => (h, 1))) txs evicted none with
  | mk s' p => cases p with
    | mk ws r =>
      rw [hz] at key
      simp only at key ⊢
      rw [← key]
      cases r <;> simp

example : ((Pool.empty 10).markExecuted [11, 99] [tA] []).2 = true := by decide

/-! ## What a packed batch looks like -/

/-- `PackForCast` never panics inside `Transactions.Less` on a pool state: the `panic("equal hash")`
branch needs two entries with the same hash, and pending hashes are unique. -/
theorem pack_total (c : Cfg) (σ : Nat → Nat) (s : Pool) (hi : Inv s) : ∃ l, s.pack c σ = some l :=
  pack_isSome σ hi

/-- …while `Less` itself does panic on two distinct objects with equal source, nonce and hash (lead 4:
reachable only from callers that sort lists with duplicates, not from the pool). -/
theorem less_panics_on_equal_hash (c : Cfg) (h23 : c.p023 = true) (a b : Tx)
    (hr : a.req = 0 ∧ b.req = 0) (hs : a.src = b.src) (hn : a.nonce = b.nonce) (hh : a.hash = b.hash) :
    lessRes c a b = .panic := by
  simp [lessRes, hr.1, hr.2, h23, hs, hn, hh]

/-- A packed batch is a sub-list of a permutation of the pending list, without duplicates. -/
theorem pack_subset_pending_nodup (c : Cfg) (σ : Nat → Nat) (s : Pool) (l : List Tx) (hi : Inv s)
    (h : s.pack c σ = some l) : (∀ t ∈ l, t ∈ s.txs) ∧ (l.map (·.hash)).Nodup := by
  obtain ⟨r, _, hperm, hsub, _, _⟩ := pack_some h
  refine ⟨fun t ht => hperm.mem_iff.mp (hsub.subset ht), ?_⟩
  have : (r.map (·.hash)).Nodup := (hperm.map _).nodup_iff.mpr (by rw [txs_map_hash]; exact hi.nodup)
  exact this.sublist (hsub.map _)

/-- At most `txCountPerBlock` = 200 transactions (the constant is tied to the source in `Props/C17B`). -/
theorem pack_le_limit (c : Cfg) (σ : Nat → Nat) (s : Pool) (l : List Tx) (h : s.pack c σ = some l) :
    l.length ≤ 200 := by
  obtain ⟨_, _, _, _, hlen, _⟩ := pack_some h
  exact hlen

/-- Nothing that has an executed record is packed. -/
theorem pack_disjoint_executed (c : Cfg) (σ : Nat → Nat) (s : Pool) (l : List Tx) (hi : Inv s)
    (h : s.pack c σ = some l) : ∀ t ∈ l, s.isExecuted t.hash = false := by
  intro t ht
  have hm : t ∈ s.txs := (pack_subset_pending_nodup c σ s l hi h).1 t ht
  have hh : t.hash ∈ s.hashes := by rw [← txs_map_hash]; exact List.mem_map_of_mem hm
  cases he : s.isExecuted t.hash with
  | false => rfl
  | true => exact absurd (isExecuted_iff.mp he) (hi.disjoint _ hh)

def sA : Pool := ((Pool.empty 10).addTransaction tA).1
example : Inv sA ∧ sA.pack ⟨true, true, true, true⟩ (fun _ => 0) = some [tA] := by
  refine ⟨inv_addTransaction _ (inv_empty _), by decide⟩

/-! ## Never ahead of the sender's next expected nonce -/

/-- Every nonce-checked (`RequestId = 0`) transaction in a batch packed under proposal 018 has a nonce
not above `expAfter`: the state nonce of its sender advanced (in `uint64`) once for every in-sequence
transaction of that sender placed before it. -/
theorem pack_not_ahead (c : Cfg) (σ : Nat → Nat) (s : Pool) (l pre post : List Tx) (t : Tx)
    (h18 : c.p018 = true) (h : s.pack c σ = some l) (hl : l = pre ++ t :: post) (ht : t.req = 0) :
    t.nonce ≤ expAfter t.src (σ (addrOf t.src)) pre := by
  obtain ⟨r, _, _, _, _, hw⟩ := pack_some h
  have hl' := hw h18
  -- the cut at 200 only drops a suffix of the walk's output
  have hpre : ∃ post', walk σ txCountPerBlock [] r = pre ++ t :: post' := by
    have h1 : walk σ txCountPerBlock [] r = l ++ List.drop txCountPerBlock (walk σ txCountPerBlock [] r) := by
      rw [hl']; exact (List.take_append_drop _ _).symm
    exact ⟨post ++ List.drop txCountPerBlock (walk σ txCountPerBlock [] r), h1.trans (by rw [hl]; simp)⟩
  obtain ⟨post', hp⟩ := hpre
  have := walk_not_ahead σ r txCountPerBlock [] pre post' t hp ht
  simpa [expectedOf, nmGet] using this

/-- …and that expectation is at most the state nonce plus the number of the sender's in-sequence
transactions already placed. -/
theorem expected_le_state_plus_placed (s : Bytes) (e : Nat) (pre : List Tx) :
    expAfter s e pre ≤ e + inSeqCount s e pre := expAfter_le s pre e

example : sA.pack ⟨true, true, true, true⟩ (fun _ => 0) = some ([] ++ tA :: []) ∧ tA.req = 0 := by decide

/-! ## Ascending nonce order per sender -/

/-- a sender's nonce-checked transactions appear in ascending nonce order -/
def NonceAscending (l : List Tx) : Prop :=
  l.Pairwise (fun a b => a.req = 0 → b.req = 0 → a.src = b.src → a.nonce ≤ b.nonce)

/-- Independent of the sorting algorithm: for *any* slice `r` that is sorted w.r.t. `Less` (proposal 016,
021 or 023 active), what the nonce walk and the cut keep is in ascending nonce order per sender. -/
theorem nonce_order_any_sort (c : Cfg) (σ : Nat → Nat) (r : List Tx) (k n : Nat) (m : NonceMap)
    (hf : c.p016 = true ∨ c.p021 = true ∨ c.p023 = true) (hs : SortedBy c r) :
    NonceAscending ((walk σ k m r).take n) := by
  have hsub : ((walk σ k m r).take n).Sublist r := (List.take_sublist _ _).trans (walk_sublist σ r k m)
  have := hs.sublist hsub
  exact this.imp (fun {a b} hab ha hb hsrc => nonce_le_of_not_less hf ha hb hsrc hab)

/-- For the pool's own sort: with proposal 018 and 021 or 023 active and canonical `Source` strings
(what `VerifyTransaction` admits), every packed batch is in ascending nonce order per sender. -/
theorem pack_nonce_order (c : Cfg) (σ : Nat → Nat) (s : Pool) (l : List Tx)
    (h18 : c.p018 = true) (hf : c.p021 = true ∨ c.p023 = true)
    (hc : Canonical (· ∈ s.txs)) (h : s.pack c σ = some l) : NonceAscending l := by
  obtain ⟨r, hsrc, _, _, _, hw⟩ := pack_some h
  simp only [packSource, h18, if_true] at hsrc
  have W : WeakOrderOn c (· ∈ s.txs) := by
    cases h23 : c.p023 with
    | true => exact weakOrder23 h23 hc
    | false =>
      have h21 : c.p021 = true := by rcases hf with h | h; exact h; simp [h23] at h
      exact weakOrder21 h23 h21 hc
  have hs : SortedBy c r := goSort_sorted W hsrc
  rw [hw h18]
  exact nonce_order_any_sort c σ r _ _ [] (by rcases hf with h | h; exact Or.inr (Or.inl h); exact Or.inr (Or.inr h)) hs

example : Canonical (· ∈ sA.txs) := by
  intro a b ha hb _
  simp [sA, Pool.addTransaction, Pool.add, Pool.existed, Pool.contains, Pool.isExecuted, Pool.hashes, Pool.execHashes,
    Pool.empty, Pool.push, Pool.refreshGate, Pool.txs, tA] at ha hb
  subst ha hb; rfl

/-- The same statement without the canonical-sources hypothesis. -/
def FullStatementNonceOrder : Prop :=
  ∀ (c : Cfg) (σ : Nat → Nat) (s : Pool) (l : List Tx), Inv s → c.p018 = true → c.p023 = true →
    s.pack c σ = some l → NonceAscending l

def x1 : Tx := ⟨1, 101, [48, 120, 97, 98], 5, 0, 0⟩     -- Source "0xab", nonce 5
def x2 : Tx := ⟨2, 102, [48, 120, 65, 66], 9, 0, 0⟩     -- Source "0xAB" (same numeric value), nonce 9
def x3 : Tx := ⟨3, 103, [48, 120, 97, 98], 3, 0, 0⟩     -- Source "0xab", nonce 3
def sX : Pool := ((((Pool.empty 10).addTransaction x1).1.addTransaction x2).1.addTransaction x3).1

/-- It is false of the model (and of the code, corpus case `alias-nonce-order.ops`): `Less` compares the
numeric value of `Source`, the nonce walk keys by the string; with two spellings of one value the
relation is not transitive and the sort leaves nonce 5 before nonce 3 of the same `Source`. Needs
transactions that `VerifyTransaction` would reject. -/
theorem pack_nonce_order_counterexample : ¬ FullStatementNonceOrder := by
  intro h
  have hi : Inv sX := inv_addTransaction _ (inv_addTransaction _ (inv_addTransaction _ (inv_empty _)))
  have hp : sX.pack ⟨true, true, true, true⟩ (fun _ => 5) = some [x1, x3] := by decide
  have := h ⟨true, true, true, true⟩ (fun _ => 5) sX [x1, x3] hi rfl rfl hp
  simp [NonceAscending, x1, x3] at this

/-! ## Histories: at most once on the canonical chain, pending again after a reorg -/

/-- What the chain hands to the pool for one block. -/
structure Block where
  receipts : List Nat      -- hashes of the transactions that were executed (have a receipt)
  txs : List Tx            -- block.Transactions
  evicted : List Nat       -- header.EvictedTxs

/-- hashes executed on the chain (top block first) -/
def executedOn : List Block → List Nat
  | [] => []
  | b :: ch => b.receipts ++ executedOn ch

inductive HOp where
  | add (t : Tx)        -- network / RPC goroutine: AddTransaction
  | mark (b : Block)    -- addBlockOnChain → updateTxPool → MarkExecuted
  | remove              -- blockChain.remove(top block) → UnMarkExecuted
  | expire              -- ring timer

def hstep : Pool × List Block → HOp → Pool × List Block
  | (s, ch), .add t => ((s.addTransaction t).1, ch)
  | (s, ch), .mark b => ((s.markExecuted b.receipts b.txs b.evicted).1, b :: ch)
  | (s, b :: ch), .remove => (s.unmarkE b.txs b.evicted, ch)
  | (s, []), .remove => (s, [])
  | (s, ch), .expire => (s.expire, ch)

/-- The chain's side of the contract: receipts belong to the block's transactions, and a block put on
the chain contains no transaction already executed on it. -/
def HOp.WF (ch : List Block) : HOp → Prop
  | .mark b => Covered b.receipts b.txs ∧ ∀ t ∈ b.txs, t.hash ∉ executedOn ch
  | _ => True

inductive Reach (limit : Nat) : Pool → List Block → Prop where
  | init : Reach limit (Pool.empty limit) []
  | step {s : Pool} {ch : List Block} (op : HOp) : Reach limit s ch → op.WF ch →
      Reach limit (hstep (s, ch) op).1 (hstep (s, ch) op).2

def ChainOK : List Block → Prop
  | [] => True
  | b :: ch => Covered b.receipts b.txs ∧ (∀ t ∈ b.txs, t.hash ∉ executedOn ch) ∧ ChainOK ch

/-- Refinement to the set specification: in every reachable state the executed records are exactly the
transactions executed on the current canonical chain, and the pool invariant holds. -/
theorem history_refines (limit : Nat) (s : Pool) (ch : List Block) (hr : Reach limit s ch) :
    Inv s ∧ (∀ k, k ∈ s.execHashes ↔ k ∈ executedOn ch) ∧ ChainOK ch := by
  induction hr with
  | init => exact ⟨inv_empty _, by simp [Pool.empty, Pool.execHashes, executedOn], trivial⟩
  | @step s ch op _ hw ih =>
    obtain ⟨hi, hx, hc⟩ := ih
    cases op with
    | add t =>
      refine ⟨inv_addTransaction t hi, ?_, hc⟩
      intro k
      have : (s.addTransaction t).1.execHashes = s.execHashes := by
        unfold Pool.addTransaction Pool.add
        split <;> rename_i heq <;> split at heq <;> simp at heq <;> obtain ⟨rfl, _⟩ := heq <;>
          simp [Pool.refreshGate, Pool.execHashes, exec_push] <;> split <;> simp [exec_push]
      simp only [hstep]; rw [this]; exact hx k
    | mark b =>
      obtain ⟨hcov, hfresh⟩ := hw
      obtain ⟨s', he, _, hxs, _, _, _⟩ := markExecuted_ok (evicted := b.evicted) hi.batch hi.attached hcov
      refine ⟨inv_markExecuted hi hcov, ?_, hcov, hfresh, hc⟩
      intro k
      simp only [hstep, he, executedOn, List.mem_append]
      rw [hxs, hx]; exact Or.comm
    | remove =>
      cases ch with
      | nil => exact ⟨hi, hx, hc⟩
      | cons b rest =>
        obtain ⟨hcov, hfresh, hc'⟩ := hc
        refine ⟨inv_unmarkE _ _ hi, ?_, hc'⟩
        intro k
        simp only [hstep]
        rw [execHashes_unmarkE, mem_exec_unmark, hx]
        simp only [executedOn, List.mem_append]
        constructor
        · rintro ⟨h1 | h1, h2⟩
          · obtain ⟨t, ht, e⟩ := hcov k h1
            exact absurd (List.mem_map.mpr ⟨t, ht, e⟩) h2
          · exact h1
        · intro h1
          refine ⟨Or.inr h1, ?_⟩
          intro hm
          obtain ⟨t, ht, e⟩ := List.mem_map.mp hm
          exact hfresh t ht (e ▸ h1)
    | expire =>
      exact ⟨inv_expire hi, by intro k; simp only [hstep]; exact hx k, hc⟩

/-- **At most once.** In every state reachable through add / mark / remove / expire in any order, a
transaction executed in a block of the current canonical chain is refused by `AddTransaction` (the pool
is unchanged) and is in no batch `PackForCast` returns, under every proposal set and state nonce. -/
theorem at_most_once (limit : Nat) (s : Pool) (ch : List Block) (hr : Reach limit s ch) (k : Nat)
    (hk : k ∈ executedOn ch) :
    (∀ t : Tx, t.hash = k → s.addTransaction t = (s, .exist)) ∧
    (∀ (c : Cfg) (σ : Nat → Nat) (l : List Tx), s.pack c σ = some l → ∀ t ∈ l, t.hash ≠ k) := by
  obtain ⟨hi, hx, _⟩ := history_refines limit s ch hr
  have hex : k ∈ s.execHashes := (hx k).mpr hk
  refine ⟨?_, ?_⟩
  · intro t ht
    exact (no_readmit s t (by rw [ht]; exact isExecuted_iff.mpr hex)).1
  · intro c σ l hp t ht e
    have := pack_disjoint_executed c σ s l hi hp t ht
    rw [e, isExecuted_iff.mpr hex] at this
    contradiction

def bA : Block := ⟨[11], [tA], []⟩
/-- non-vacuity: a reachable state with a block on the chain -/
example : Reach 10 (hstep (hstep (Pool.empty 10, []) (.add tA)) (.mark bA)).1 [bA] :=
  Reach.step (.mark bA) (Reach.step (.add tA) Reach.init trivial) (by simp [HOp.WF, Covered, bA, tA, executedOn])

/-- **Reorg.** When the top block is removed, each of its transactions has no executed record any more,
is not executed on the remaining chain, and — if the container has room for them — is pending again
(so `PackForCast` sees it). -/
theorem reorg_restores_partial (limit : Nat) (s : Pool) (b : Block) (ch : List Block)
    (hr : Reach limit s (b :: ch)) (hroom : s.pending.length + b.txs.length ≤ s.limit) :
    ∀ t ∈ b.txs, (s.unmarkE b.txs b.evicted).contains t.hash = true ∧ (s.unmarkE b.txs b.evicted).isExecuted t.hash = false ∧
      t.hash ∉ executedOn ch := by
  obtain ⟨_, _, _, hfresh, _⟩ := history_refines limit s (b :: ch) hr
  intro t ht
  refine ⟨contains_iff.mpr (by rw [hashes_unmarkE]; exact mem_hashes_unmark b.txs hroom t ht), ?_, hfresh t ht⟩
  cases he : (s.unmarkE b.txs b.evicted).isExecuted t.hash with
  | false => rfl
  | true =>
    have := (mem_exec_unmark b.txs t.hash).mp (by rw [← execHashes_unmarkE s b.txs b.evicted]; exact isExecuted_iff.mp he)
    exact absurd (List.mem_map_of_mem ht) this.2

/-- The reorg clause as the property states it: without the proviso about room. -/
def FullStatementReorg : Prop :=
  ∀ (limit : Nat) (s : Pool) (b : Block) (ch : List Block), Reach limit s (b :: ch) →
    ∀ t ∈ b.txs, (s.unmarkE b.txs b.evicted).contains t.hash = true

/-- False of the model and of the code (`known: key=unmark-lost-full-pool`): `push` silently drops when
the container is full. Limit 1: add A, block {A} is put on the chain, add B, the block is removed —
A is neither pending nor executed. The searcher replays the same history against the real pool with
the real limit 50000. -/
theorem reorg_restores_counterexample : ¬ FullStatementReorg := by
  intro h
  have r1 : Reach 1 _ _ := Reach.step (.add tA) Reach.init trivial
  have r2 : Reach 1 _ _ := Reach.step (.mark bA) r1 (by simp [HOp.WF, Covered, bA, tA, executedOn, hstep])
  have r3 : Reach 1 _ _ := Reach.step (.add tC) r2 trivial
  have := h 1 _ bA [] r3 tA (by simp [bA])
  revert this
  decide

end Rangers.Props.C17
