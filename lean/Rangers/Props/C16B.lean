import Mathlib.Data.ZMod.Basic
import Rangers.Model.Vrf
import Rangers.Proofs.C16Bytes
import Rangers.Proofs.C16Vrf
/-!
Property C16, part 2: what a mutated or adversarial proof can and cannot do.
Soundness proper is cryptographic; it enters as explicit disjuncts / hypotheses
(hash collision, challenge annihilating a point), never as an axiom.
-/
namespace Rangers.Props.C16B
open Rangers Rangers.Model Rangers.Model.Vrf Rangers.Proofs.C16Bytes Rangers.Proofs.C16Vrf

/-! ### malleability that the framing and the scalar reduction allow -/

/-- `ECVRFVerify` decides on the first 80 bytes only: bytes after the proof are ignored
    (`tryZeroPadding` passes longer inputs through, `decodeProof` slices `[:80]`). -/
theorem trailing_bytes_ignored {P : Type} (o : Ops P) (pk m gb cb sb junk : Bytes)
    (hg : gb.length = 32) (hc : cb.length = 16) (hs : sb.length = 32) :
    verifyWith o pk (gb ++ cb ++ sb ++ junk) m = verifyWith o pk (gb ++ cb ++ sb) m := by
  rw [verifyWith_append o pk m gb cb sb junk hg hc hs]
  have := verifyWith_append o pk m gb cb sb [] hg hc hs
  rw [List.append_nil] at this
  rw [this]

/-- `s` is reduced modulo `L` before use (`ScReduce`): `s` and `s + L` are both accepted
    (lead 3). The output `pi[:32]` is the same, so this is proof malleability only. -/
theorem s_plus_L_accepted {P : Type} (o : Ops P) (pk m gb cb : Bytes) (s : Nat)
    (hg : gb.length = 32) (hc : cb.length = 16) (hs : s + o.L < 256 ^ 32) :
    verifyWith o pk (gb ++ cb ++ natLE 32 (s + o.L)) m = verifyWith o pk (gb ++ cb ++ natLE 32 s) m := by
  have h1 := verifyWith_append o pk m gb cb (natLE 32 (s + o.L)) [] hg hc (natToLE_length _ _)
  have h2 := verifyWith_append o pk m gb cb (natLE 32 s) [] hg hc (natToLE_length _ _)
  rw [List.append_nil] at h1 h2
  rw [h1, h2]
  unfold verifyParts leNat natLE
  rw [leToNat_natToLE 32 _ hs, leToNat_natToLE 32 s (by omega), Nat.add_mod_right]

/-- non-vacuity for the concrete modulus: there is room for `s + L` in 32 bytes -/
example : (5 : Nat) + ed25519Ops.L < 256 ^ 32 := by decide

/-- A single flipped bit of `s` changes `s mod L` (L odd, > 1): the reduction absorbs no bit flip. -/
theorem bit_flip_changes_residue (L s j : Nat) (hodd : L % 2 = 1) (hL : 1 < L) :
    (s + 2 ^ j) % L ≠ s % L := by
  intro h
  have h0 : (s + 2 ^ j - s) % L = 0 := Nat.sub_mod_eq_zero_of_mod_eq h
  have hd : L ∣ 2 ^ j := by
    rw [Nat.add_sub_cancel_left] at h0
    exact Nat.dvd_of_mod_eq_zero h0
  have hc : Nat.Coprime L 2 := Nat.coprime_two_right.mpr (Nat.odd_iff.mpr hodd)
  have := (hc.pow_right j).eq_one_of_dvd hd
  omega

/-- the concrete scalar modulus is odd and > 1 -/
example : VrfCurve.L % 2 = 1 ∧ 1 < VrfCurve.L := by decide

/-- Mutation of `s` is caught or yields a hash collision: if two proofs that differ
    only in `s` (with different residues mod `L`) are both accepted, then `hashPoints`
    maps two different input tuples to the same 16 bytes. Needs `B` to have exact order `L`. -/
theorem s_mutation_caught_or_collision {P : Type} [AddCommGroup P] (o : Ops P) (law : Lawful o)
    (horder : ∀ a b : Nat, a • o.smulBase 1 = b • o.smulBase 1 → a % o.L = b % o.L)
    (pk m gb cb sb sb' : Bytes) (gamma : P) (hdec : o.decodeStrict gb = some gamma)
    (hne : leNat sb % o.L ≠ leNat sb' % o.L)
    (h : verifyParts o pk m gb cb sb = .ok true) (h' : verifyParts o pk m gb cb sb' = .ok true) :
    ∃ u v u' v', u ≠ u' ∧
      o.hashPoints (hPt o m pk) gamma u v = o.hashPoints (hPt o m pk) gamma u' v' := by
  unfold verifyParts at h h'
  rw [hdec] at h h'
  simp only [Except.ok.injEq, beq_iff_eq] at h h'
  refine ⟨_, _, _, _, ?_, h.trans h'.symm⟩
  intro hu
  rw [law.sub_eq, law.sub_eq, sub_left_inj, law.smulBase_eq (leNat sb % o.L),
    law.smulBase_eq (leNat sb' % o.L)] at hu
  have := horder _ _ hu
  rw [Nat.mod_mod, Nat.mod_mod] at this
  exact hne this

/-! ### the adversarial prover (lead 2) -/

/-- A prover who knows the secret scalar `x` can replace `Γ = x·H` by `Γ + T` for any
    point `T` annihilated by the challenge it obtains (`c·T = 0`); the forged proof
    verifies. With `T = 0` this is completeness. In a group with cofactor (`T` of
    order 2, 4, 8 on edwards25519) the condition is `ord T ∣ c`, met by 1 in 2/4/8 nonces. -/
theorem shifted_gamma_verifies {P : Type} [AddCommGroup P] (o : Ops P) (law : Lawful o)
    (pk m : Bytes) (x k : Nat) (T : P)
    (hlen : pk.length = 32) (hpk : pk = o.encode (o.smulBase x))
    (hT : leNat (chal o m pk (o.smul x (hPt o m pk) + T) k) • T = 0) :
    verifyWith o pk
      (o.encode (o.smul x (hPt o m pk) + T) ++ chal o m pk (o.smul x (hPt o m pk) + T) k ++
        respond o (chal o m pk (o.smul x (hPt o m pk) + T) k) x k) m = .ok true := by
  have happ := verifyWith_append o pk m (o.encode (o.smul x (hPt o m pk) + T))
    (chal o m pk (o.smul x (hPt o m pk) + T) k)
    (respond o (chal o m pk (o.smul x (hPt o m pk) + T) k) x k) []
    (law.encode_len _) (law.hash_len _ _ _ _) (natToLE_length _ _)
  rw [List.append_nil] at happ
  rw [happ]
  exact verifyParts_shifted o law pk m x k T hlen hpk hT

/-- FULL STATEMENT (false of model and code): all proofs accepted for one key and
    message carry the same lottery output `pi[:32]`. -/
def FullStatement_output_unique {P : Type} (o : Ops P) : Prop :=
  ∀ pk m pi1 pi2, verifyWith o pk pi1 m = .ok true → verifyWith o pk pi2 m = .ok true →
    outputOf pi1 = outputOf pi2

/-- Output uniqueness fails as soon as some non-zero point `T` is annihilated by the
    challenge of some nonce: the honest proof and the shifted proof are both accepted
    and carry different outputs. (On the implementation: searcher key
    `output-not-unique-small-order-shift`, 8 outputs per key/message.) -/
theorem output_unique_fails_of_annihilated_point {P : Type} [AddCommGroup P] (o : Ops P)
    (law : Lawful o) (pk m : Bytes) (x k : Nat) (T : P)
    (hlen : pk.length = 32) (hpk : pk = o.encode (o.smulBase x)) (hT0 : T ≠ 0)
    (hT : leNat (chal o m pk (o.smul x (hPt o m pk) + T) k) • T = 0) :
    ¬ FullStatement_output_unique o := by
  intro hfull
  have h1 := shifted_gamma_verifies o law pk m x k 0 hlen hpk (by simp)
  have h2 := shifted_gamma_verifies o law pk m x k T hlen hpk hT
  have := hfull pk m _ _ h1 h2
  rw [outputOf_append (o.encode (o.smul x (hPt o m pk) + 0)) (chal o m pk (o.smul x (hPt o m pk) + 0) k)
      (respond o (chal o m pk (o.smul x (hPt o m pk) + 0) k) x k)
      (law.encode_len _) (law.hash_len _ _ _ _) (natToLE_length _ _) o,
    outputOf_append (o.encode (o.smul x (hPt o m pk) + T)) (chal o m pk (o.smul x (hPt o m pk) + T) k)
      (respond o (chal o m pk (o.smul x (hPt o m pk) + T) k) x k)
      (law.encode_len _) (law.hash_len _ _ _ _) (natToLE_length _ _) o] at this
  have h3 : some (o.smul x (hPt o m pk) + 0) = some (o.smul x (hPt o m pk) + T) := by
    rw [← law.decode_encode, ← law.decode_encode (o.smul x (hPt o m pk) + T), this]
  simp only [add_zero, Option.some.injEq] at h3
  exact hT0 (by simpa using h3.symm)

/-- What acceptance pins down (the algebraic half of soundness). For an honest key
    `Y = x·B` with `B` of exact order `L`: if the verifier's recomputed commitment is
    of the honest shape `U = k·B`, `V = k·H` for one `k`, then `c·(Γ − x·H) = 0`. -/
theorem accepted_commitment_forces {P : Type} [AddCommGroup P] (o : Ops P) (law : Lawful o)
    (horder : ∀ a b : Nat, a • o.smulBase 1 = b • o.smulBase 1 → a % o.L = b % o.L)
    (m pk : Bytes) (x c s k : Nat) (gamma : P)
    (hU : o.sub (o.smulBase (s % o.L)) (o.smul c (o.smulBase x)) = o.smulBase k)
    (hV : o.sub (o.smul (s % o.L) (hPt o m pk)) (o.smul c gamma) = o.smul k (hPt o m pk)) :
    c • (gamma - o.smul x (hPt o m pk)) = 0 := by
  rw [law.sub_eq, law.smul_eq, law.smulBase_eq (s % o.L), law.smulBase_eq x, law.smulBase_eq k,
    sub_eq_iff_eq_add, ← mul_nsmul', ← add_nsmul] at hU
  have hmod := horder _ _ hU
  rw [Nat.mod_mod] at hmod
  have hH : o.L • hPt o m pk = 0 := law.h2c_torsion m pk
  have e1 : (s % o.L) • hPt o m pk = (k + c * x) • hPt o m pk := by
    rw [← smul_mod o.L (s % o.L) _ hH, ← smul_mod o.L (k + c * x) _ hH, Nat.mod_mod, hmod]
  rw [law.sub_eq, law.smul_eq, law.smul_eq c, law.smul_eq k, e1, add_nsmul, mul_nsmul'] at hV
  rw [law.smul_eq, nsmul_sub]
  have : c • gamma = c • x • hPt o m pk := by
    have := sub_eq_iff_eq_add.mp hV
    -- k•H + c•x•H = k•H + c•Γ
    exact (add_left_cancel this).symm
  rw [this, sub_self]

/-- PARTIAL (prime-order reading): if no non-zero point is annihilated by the challenge
    (true in a group of prime order `L` when `L ∤ c`), an accepted proof with an
    honest-shaped commitment carries the honest output `Γ = x·H`. The implementation's
    group has cofactor 8 and does not satisfy the hypothesis. -/
theorem output_unique_partial {P : Type} [AddCommGroup P] (o : Ops P) (law : Lawful o)
    (horder : ∀ a b : Nat, a • o.smulBase 1 = b • o.smulBase 1 → a % o.L = b % o.L)
    (m pk : Bytes) (x c s k : Nat) (gamma : P)
    (hfree : ∀ D : P, c • D = 0 → D = 0)
    (hU : o.sub (o.smulBase (s % o.L)) (o.smul c (o.smulBase x)) = o.smulBase k)
    (hV : o.sub (o.smul (s % o.L) (hPt o m pk)) (o.smul c gamma) = o.smul k (hPt o m pk)) :
    gamma = o.smul x (hPt o m pk) :=
  sub_eq_zero.mp (hfree _ (accepted_commitment_forces o law horder m pk x c s k gamma hU hV))

/-! ### a lawful toy instance with cofactor 2 (non-vacuity of every hypothesis above) -/

/-- ℤ/26 = (order-13 subgroup generated by 2) × (order-2 point 13); `L = 13`; the
    "hash" is the constant 2, so every challenge is even and annihilates the point 13. -/
def toyOps : Ops (ZMod 26) where
  L := 13
  sub := fun a b => a - b
  smul := fun k a => k • a
  smulBase := fun k => k • (2 : ZMod 26)
  decodeStrict := fun bs => some ((bs.headD 0).toNat : ZMod 26)
  decodeLax := fun bs => match bs with
    | [] => 2
    | b :: _ => (b.toNat : ZMod 26)
  encode := fun a => UInt8.ofNat a.val :: List.replicate 31 0
  hashToCurve := fun _ _ => []
  hashPoints := fun _ _ _ _ => 2 :: List.replicate 15 0
  expandSecret := fun _ => (3, [])
  nonce := fun _ _ => 5

theorem toy_lawful : Lawful toyOps where
  sub_eq := fun _ _ => rfl
  smul_eq := fun _ _ => rfl
  smulBase_eq := fun k => by simp [toyOps]
  L_pos := by decide
  L_le := by decide
  base_torsion := by decide
  h2c_torsion := fun _ _ => by
    show (13 : ℕ) • (2 : ZMod 26) = 0
    decide
  encode_len := fun _ => by simp [toyOps]
  hash_len := fun _ _ _ _ => by simp [toyOps]
  decode_encode := by
    intro a
    have : ∀ a : ZMod 26, ((a.val % 256 : ℕ) : ZMod 26) = a := by decide
    simp [toyOps, this]
  decodeLax_encode := by
    intro a
    have : ∀ a : ZMod 26, ((a.val % 256 : ℕ) : ZMod 26) = a := by decide
    simp [toyOps, this]

/-- COUNTEREXAMPLE: a lawful interface (group laws, codec round trip, torsion) on which
    two accepted proofs for one key and message carry different outputs. -/
theorem output_unique_counterexample :
    ∃ o : Ops (ZMod 26), Lawful o ∧ ¬ FullStatement_output_unique o := by
  refine ⟨toyOps, toy_lawful, ?_⟩
  apply output_unique_fails_of_annihilated_point toyOps toy_lawful
    (toyOps.encode (toyOps.smulBase 3)) [] 3 5 (13 : ZMod 26)
  · simp [toyOps]
  · rfl
  · decide
  · decide

/-! ### the canonical-encoding check -/

/-- `isCanonical` returns 1 for EVERY input: its two `>> 8` are applied to 8-bit values.
    So `stringToPoint` never rejects a non-reduced `y` (e.g. `y = p + 1` decodes to the
    identity); `go vet` flags the same two lines. -/
theorem isCanonical_always_one (s : Bytes) : VrfCurve.isCanonical s = 1 := by
  unfold VrfCurve.isCanonical
  have h : ∀ x : UInt8, UInt8.ofNat ((x.toNat >>> 8) % 256) = 0 := by
    intro x
    have : x.toNat >>> 8 = 0 := by
      rw [Nat.shiftRight_eq_div_pow]
      exact Nat.div_eq_of_lt (UInt8.toNat_lt x)
    rw [this]; rfl
  simp only [h]
  decide

end Rangers.Props.C16B
