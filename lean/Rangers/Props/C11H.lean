import Rangers.Props.C11G
/-!
# C11 — bodies of the modelled precompiles, AUTHCALL's 63/64 rule, what the executor hands to the EVM
-/
namespace Rangers.Props.C11H
open Rangers.Evm11 Rangers.Props.C11B Rangers.Props.C11G

theorem natBE_size (len n : Nat) : (natBE len n).size = len := by simp [natBE]

/-- **ecrecover is total and answers nothing or exactly one 32-byte word**, for every input
    (truncated, over-long, garbage v, unrecoverable signature) -/
theorem ecrecoverRun_size (input : BA) : (ecrecoverRun input).size = 0 ∨ (ecrecoverRun input).size = 32 := by
  unfold ecrecoverRun
  simp only
  split
  · left; rfl
  · split
    · left; rfl
    · right; exact natBE_size 32 _

/-- the identity precompile returns its input -/
theorem dataCopy_identity (input : BA) : precompileRunModel 4 input = some (some input) := by
  simp [precompileRunModel]

theorem leftPad_size (b : BA) (l : Nat) : l ≤ (leftPad b l).size := by
  unfold leftPad
  split
  · assumption
  · simp only [Array.size_append, Array.size_replicate]; omega

/-- **MODEXP answers at least `modLen` bytes** (the zero-filled `modLen` bytes for a zero modulus)
    unless base and modulus lengths are both zero … -/
theorem modExpRun_size (input : BA)
    (h : ¬ (beNat (getData input 0 32) % 2 ^ 64 = 0 ∧ beNat (getData input 64 32) % 2 ^ 64 = 0)) :
    beNat (getData input 64 32) % 2 ^ 64 ≤ (modExpRun input).size := by
  unfold modExpRun
  simp only [h, if_false]
  exact leftPad_size _ _

/-- … where it answers nothing -/
theorem modExpRun_empty (input : BA)
    (h : beNat (getData input 0 32) % 2 ^ 64 = 0 ∧ beNat (getData input 64 32) % 2 ^ 64 = 0) :
    modExpRun input = #[] := by
  unfold modExpRun
  simp only [h, and_self, if_true]

/-- **BLAKE2 F: the gate.** `Run` fails exactly on a length other than 213 or a final-block flag other than 0/1 -/
theorem blake2FRun_gate (input : BA) :
    blake2FRun input = none ↔ (input.size ≠ 213 ∨ ((input.getD 212 0).toNat ≠ 0 ∧ (input.getD 212 0).toNat ≠ 1)) := by
  unfold blake2FRun
  simp only
  constructor
  · intro h
    by_cases h1 : input.size ≠ 213
    · left; exact h1
    · right
      rw [if_neg h1] at h
      by_cases h2 : (input.getD 212 0).toNat ≠ 0 ∧ (input.getD 212 0).toNat ≠ 1
      · exact h2
      · rw [if_neg h2] at h; cases h
  · intro h
    rcases h with h | h
    · rw [if_pos h]
    · by_cases h1 : input.size ≠ 213
      · rw [if_pos h1]
      · rw [if_neg h1, if_pos h]

/-- a modelled body that produces an output passed the input-length gate the model uses for the tape -/
theorem runModel_respects_gate (addr : Nat) (input out : BA)
    (h : precompileRunModel addr input = some (some out)) : precompileLenOk addr input.size = true := by
  unfold precompileRunModel at h
  split at h
  · rfl
  · rfl
  · rfl
  · split at h
    · cases h
    · simp only [Option.some.injEq] at h
      have hg : ¬ (input.size ≠ 213 ∨ ((input.getD 212 0).toNat ≠ 0 ∧ (input.getD 212 0).toNat ≠ 1)) := by
        intro hh
        rw [(blake2FRun_gate input).mpr hh] at h
        cases h
      simp only [not_or, Decidable.not_not] at hg
      simp [precompileLenOk, hg.1]
  · cases h

/-- **modexp_alloc_priced without the saturation hypothesis**: at the saturated price `2^64−1` the
    bound holds trivially, because `Run` only ever sees the lengths truncated to 64 bits -/
theorem modexp_alloc_priced_full (input : BA) : modExpRunAlloc input ≤ 6 * modExpGas input + 3200 := by
  by_cases h : modExpGas input < maxU64
  · exact modexp_alloc_priced input h
  · have hge : modExpGas input ≥ maxU64 := Nat.le_of_not_lt h
    unfold modExpRunAlloc
    simp only
    have h1 : beNat (getData input 0 32) % 2 ^ 64 < 2 ^ 64 := Nat.mod_lt _ (by omega)
    have h2 : beNat (getData input 32 32) % 2 ^ 64 < 2 ^ 64 := Nat.mod_lt _ (by omega)
    have h3 : beNat (getData input 64 32) % 2 ^ 64 < 2 ^ 64 := Nat.mod_lt _ (by omega)
    unfold maxU64 at hge
    split <;> omega

/-- **AUTHCALL obeys the 63/64 rule**: when the base cost is covered the forwarded gas is at
    most all-but-one-64th of the rest, and at most the requested amount when one is given -/
theorem authCallGas_le (avail base : Nat) (cc : Word) (ha : avail < 2 ^ 64) (hb : base ≤ avail) :
    authCallGas avail base cc ≤ (avail - base) - (avail - base) / 64 ∧
    (cc < 2 ^ 64 → cc ≠ 0 → authCallGas avail base cc ≤ cc) := by
  unfold authCallGas
  simp only
  rw [wsub_exact avail base ha hb]
  have hx : avail - base < 2 ^ 64 := by omega
  generalize avail - base = x at *
  rw [wsub_exact x (x / 64) hx (by omega)]
  constructor
  · split
    · omega
    · split <;> omega
  · intro hcc h0
    split
    · rename_i h; cases h with
      | inl h => exact absurd hcc h
      | inr h => exact absurd h h0
    · split <;> omega

example : authCallGas 6400 0 0 = 6300 ∧ authCallGas 6400 0 100 = 100 := by decide

/-! ## intrinsic gas and the gas the executor passes on -/

theorem countNz_le (l : List UInt8) (n : Nat) :
    l.foldl (fun n b => if b != 0 then n + 1 else n) n ≤ n + l.length := by
  induction l generalizing n with
  | nil => simp
  | cons x t ih =>
    simp only [List.foldl_cons, List.length_cons]
    split
    · have := ih (n + 1); omega
    · have := ih n; omega

/-- **intrinsicGas_exact.** For any data shorter than 2^40 bytes the intrinsic gas is the exact
    `(21000 | 53000) + 16·nonzero + 4·zero`, times 30 under Proposal026: no overflow branch, no wrap
    (also not in the unchecked final product). -/
theorem intrinsicGas_exact (p26 creation : Bool) (data : BA) (h : data.size < 2 ^ 40) :
    intrinsicGas p26 data creation =
      some (((if creation then 53000 else 21000) + 16 * (data.foldl (fun n b => if b != 0 then n + 1 else n) 0)
        + 4 * (data.size - (data.foldl (fun n b => if b != 0 then n + 1 else n) 0))) * (if p26 then 30 else 1)) := by
  have hnz : data.foldl (fun n b => if b != 0 then n + 1 else n) 0 ≤ data.size := by
    have := countNz_le data.toList 0
    simp only [Nat.zero_add, Array.length_toList] at this
    simpa [Array.foldl_toList] using this
  unfold intrinsicGas
  simp only
  generalize data.foldl (fun n b => if b != 0 then n + 1 else n) 0 = nz at *
  have hg0 : (if creation = true then 53000 else 21000) ≤ 53000 := by split <;> omega
  generalize (if creation = true then 53000 else 21000) = g0 at *
  by_cases h0 : data.size = 0
  · rw [if_pos h0]
    have : nz = 0 := by omega
    subst this
    rw [h0]
    cases p26 <;> simp only [Bool.false_eq_true, if_false, if_true, wmul, Option.some.injEq] <;> omega
  · rw [if_neg h0]
    unfold maxU64 wadd wmul
    rw [if_neg (by omega)]
    rw [if_neg (by omega)]
    cases p26 <;> simp only [Bool.false_eq_true, if_false, if_true, Option.some.injEq] <;> omega

/-- **executor_gas_capped.** Before Proposal015, and from Proposal017 or Proposal026 on, the gas the
    contract executor hands to `evm.Call / Create` is at most 9·10^8 < 2^44 — *provided the intrinsic gas
    does not exceed the capped limit* (the code only checks it against the uncapped one). -/
theorem executor_gas_capped (p15 p17 p26 : Bool) (gasLimit intrinsic : Nat) (hg : gasLimit < 2 ^ 64)
    (hi : intrinsic ≤ gasLimit) (hi2 : intrinsic ≤ 30000000)
    (hflags : p15 = false ∨ p17 = true ∨ p26 = true) :
    executorVmGas p15 p17 p26 gasLimit intrinsic ≤ 900000000 := by
  unfold executorVmGas
  cases p15 with
  | false => simp
  | true =>
    simp only [if_true]
    rcases hflags with h | h | h
    · cases h
    · subst h
      cases p26 <;> simp only [Bool.false_eq_true, if_false, if_true, true_and] <;>
        (unfold wsub; split <;> omega)
    · subst h
      simp only [if_true]
      unfold wsub; split <;> omega

/-- the full statement "the executor never hands the EVM 2^44 gas or more", with what the code
    actually checks (`intrinsic ≤` the transaction's own gas limit) -/
def FullStatementExecutorGasCap : Prop :=
  ∀ p15 p17 p26 gasLimit intrinsic, gasLimit < 2 ^ 64 → intrinsic ≤ gasLimit →
    executorVmGas p15 p17 p26 gasLimit intrinsic < 2 ^ 44

/-- **… is false, on current heights too**: with every proposal active, 1 900 000 non-zero bytes of
    call data have an intrinsic gas of 912 630 000 > the 9·10^8 cap; the check passes against the
    transaction's limit 912 631 000, the limit is then capped and `capped − intrinsic` wraps: the
    callee runs with 2^64 − 12 630 000 gas.  Replayed on `contractExecutor.Execute`
    (known finding `executor-gas-cap-underflow`).  (It also fails in the historical window
    Proposal015 ≤ height < Proposal017, where the limit is not capped at all.) -/
theorem executor_gas_cap_counterexample : ¬ FullStatementExecutorGasCap := by
  intro h
  have := h true true true 912631000 912630000 (by decide) (by decide)
  revert this
  decide

example : executorVmGas true true true 912631000 912630000 = 2 ^ 64 - 12630000 := by decide
example : intrinsicGas true #[1, 0, 2] false = some ((21000 + 2 * 16 + 4) * 30) := by decide
/-- 1 900 000 non-zero bytes: (21000 + 16·1900000)·30 = 912 630 000 -/
example : (21000 + 16 * 1900000) * 30 = 912630000 := by decide

end Rangers.Props.C11H
