import Rangers.Generated.Bn256Consts
import Rangers.Proofs.C13Pratt
import Rangers.Props.C13
/-! The group order of the code is prime (Pratt certificate in `Proofs/C13Pratt.lean`). -/
namespace Rangers.Props.C13Prime
open Rangers.Generated Rangers.Model.Shamir Rangers.Proofs.C13 Rangers.Props.C13

/-- **r_prime**: the group order read from `bn256/constants.go` is prime, so `ZMod r` is a field
    and every theorem of `Props/C13.lean` applies to the code's actual modulus. If the constant in
    the source changes this no longer type-checks. -/
theorem order_prime : Nat.Prime Bn256.order :=
  Rangers.Proofs.C13Pratt.prime_65000549695646603732796438742359905742570406053903786389881062969044166799969

instance : Fact (Nat.Prime Bn256.order) := ⟨order_prime⟩

/-- The headline theorem at the modulus of the code, with no primality hypothesis left: for
    `r = bn256.Order`, any modules `G`, `G₂`, `GT` over `ZMod r` with lawful operations and a pairing,
    any DKG with threshold `k`, every witness map with ≥ `k` honest shares whose ids are distinct
    mod `r`, every admissible choice: one and the same valid signature. -/
theorem bn256_any_threshold_subset_same_valid_signature_partial
    {G G₂ GT : Type} [AddCommGroup G] [Module (ZMod Bn256.order) G]
    [AddCommGroup G₂] [Module (ZMod Bn256.order) G₂] [AddCommGroup GT] [Module (ZMod Bn256.order) GT]
    (ops : Ops G) (hops : LawfulOps Bn256.order ops) (ops₂ : Ops G₂) (hops₂ : LawfulOps Bn256.order ops₂)
    (e : G → G₂ → GT) (he : IsPairing Bn256.order e) (eq : GT → GT → Bool) (heq : ∀ a, eq a a = true)
    (dealers : List (List Nat)) (k : Nat) (hk0 : 0 < k) (hne : dealers ≠ [])
    (hk : ∀ cs ∈ dealers, cs ≠ [] ∧ cs.length ≤ k) (g2 : G₂) (hm : G) :
    ∃ gsk pk, groupSecret Bn256.order dealers = some gsk ∧
      aggregatePoints ops₂.add (dealers.map (fun cs => ops₂.mul g2 (cs.headD 0))) = some pk ∧
      verifyCore e eq g2 pk hm (ops.mul hm gsk) = true ∧
      (∀ x sk, memberKey Bn256.order dealers x = some sk →
        verifyCore e eq g2 (ops₂.mul g2 sk) hm (ops.mul hm sk) = true) ∧
      ∀ (m : List (Nat × Option G)), k ≤ m.length → IdsDistinct Bn256.order (m.map Prod.fst) →
        (∀ en ∈ m, en.2 = some (ops.mul hm ((memberKey Bn256.order dealers en.1).getD 0))) →
        ∀ (c : Choice (Nat × Option G)), Admissible c m.length k →
          recoverGroupSignature ops Bn256.order k m c = .ok (some (ops.mul hm gsk)) :=
  dkg_any_threshold_subset_same_valid_signature_partial ops hops ops₂ hops₂ e he eq heq dealers k hk0 hne hk g2 hm

/-- non-vacuity at the real modulus (scalar twin of the recovery loop, so that `decide` stays in
    `Nat`): ids as 256-bit values, one of them ≥ r; a 2-of-3 sharing of `f = 7 + 5X`; two
    different pairs both give `f(0) = 7`. -/
example :
    IdsDistinct Bn256.order [1, 2 ^ 256 - 1, 3] ∧
    recoverScalar Bn256.order [1, 2 ^ 256 - 1]
      ([1, 2 ^ 256 - 1].map (fun x => (shareSeckey Bn256.order [7, 5] x).getD 0)) = 7 ∧
    recoverScalar Bn256.order [3, 1]
      ([3, 1].map (fun x => (shareSeckey Bn256.order [7, 5] x).getD 0)) = 7 := by
  decide +kernel

end Rangers.Props.C13Prime
