import Rangers.Model.VrfWorker
import Rangers.Generated.C16Sites
/-!
Property C16, part 8: the VRF worker's status logic, as far as it bears on the statement
(a proof is used only for the block/height it was made for).
-/
namespace Rangers.Props.C16Worker
open Rangers Rangers.Model.VrfWorker

/-- The status only moves forward (prove → proposed → success), whatever events arrive. -/
theorem status_monotone (w : Worker) (evs : List Ev) : w.status.code ≤ (run w evs).status.code := by
  induction evs generalizing w with
  | nil => exact Nat.le_refl _
  | cons e es ih =>
    have h1 : w.status.code ≤ (step w e).status.code := by
      cases e <;> simp only [step, markProposed, markSuccess, cas] <;> split <;>
        simp_all [Status.code]
    exact Nat.le_trans h1 (ih (step w e))

/-- Events never touch what the worker is bound to (base block, height, expiry). -/
theorem binding_invariant (w : Worker) (evs : List Ev) :
    (run w evs).baseHash = w.baseHash ∧ (run w evs).castHeight = w.castHeight ∧
    (run w evs).expire = w.expire := by
  induction evs generalizing w with
  | nil => exact ⟨rfl, rfl, rfl⟩
  | cons e es ih =>
    have h1 : (step w e).baseHash = w.baseHash ∧ (step w e).castHeight = w.castHeight ∧
        (step w e).expire = w.expire := by
      cases e <;> simp only [step, markProposed, markSuccess, cas] <;> split <;> simp
    obtain ⟨a, b, c⟩ := ih (step w e)
    exact ⟨a.trans h1.1, b.trans h1.2.1, c.trans h1.2.2⟩

/-- `success` is reached only through `proposed`: from `prove`, `markSuccess` alone does nothing. -/
theorem success_needs_proposed (w : Worker) (h : w.status = .prove) :
    (markSuccess w).status = .prove ∧ (markSuccess (markProposed w)).status = .success := by
  simp [markSuccess, markProposed, cas, h]

/-- The guard accepts only the block hash and height the worker was created for, and never
    after expiry — in any status, after any events. -/
theorem workingOn_sound (w : Worker) (evs : List Ev) (hash : Bytes) (ht : Nat) (now : Int)
    (h : workingOn (run w evs) hash ht now = true) :
    hash = w.baseHash ∧ ht = w.castHeight ∧ now ≤ w.expire := by
  obtain ⟨a, b, c⟩ := binding_invariant w evs
  unfold workingOn timeout at h
  simp only [Bool.and_eq_true, beq_iff_eq, Bool.not_eq_true', decide_eq_false_iff_not] at h
  rw [a, b, c] at h
  exact ⟨h.1.1, h.1.2, by omega⟩

/-- non-vacuity: a worker that is working on its block before expiry -/
example : workingOn (run ⟨[1, 2], 7, 100, .prove⟩ [.markProposed, .markSuccess]) [1, 2] 7 100 = true ∧
    (run ⟨[1, 2], 7, 100, .prove⟩ [.markProposed, .markSuccess]).status = .success := by decide

/-- T-gen: constants, CAS arguments and guard expression of vrf_worker.go are what the model transcribes -/
theorem worker_source_facts :
    Generated.C16Sites.workerConsts = ["prove=0", "proposed=1", "success=2"] ∧
    Generated.C16Sites.markProposedCAS = ["prove", "proposed"] ∧
    Generated.C16Sites.markSuccessCAS = ["proposed", "success"] ∧
    Generated.C16Sites.workingOnExpr =
      "bh.Hash == vrf.baseBH.Hash && castHeight == vrf.castHeight && !vrf.timeout()" ∧
    Generated.C16Sites.timeoutExpr = "utility.GetTime().After(vrf.expire)" := by decide

end Rangers.Props.C16Worker
