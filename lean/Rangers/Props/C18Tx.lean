import Rangers.Model.DecimalTx
import Rangers.Props.C18
/-!
# C18 (model growth) — the code around the conversions

Theorems about `Rangers.Model.DecimalTx`: the whole `ContractData` round trip
`eth_tx.ConvertTx` → `contractExecutor.decodeContractData` (value, gas limit, input, with the
two quirks: gas limit 0 becomes the default, an empty payload becomes one zero byte before
Proposal005), `common.ToHex`/`FromHex`, the byte helpers the binding's decimal count travels
through, and the token layer of `AccountDB` (dispatch on the binding, unbound path without
re-scaling, independence of tokens and accounts). Compared with the Go code by the ops
`decode`, `convert`, `world`, `u64b`, `b2u64`, `bbstr`, `rawbal`.
-/
namespace Rangers.Props.C18Tx
open Rangers.Decimal

/-! ## hex -/

/-- one byte survives `hex.EncodeToString` / `hex.DecodeString` (256-row table) -/
theorem hex_byte_roundtrip :
    ∀ b < 256, hexValC (hexDigitC (b / 16)) = some (b / 16) ∧ hexValC (hexDigitC (b % 16)) = some (b % 16) := by
  decide +kernel

/-- `Hex2Bytes(Bytes2Hex(b)) = b` for every byte string. -/
theorem hexDecode_hexEncode (bs : List Nat) (h : ∀ b ∈ bs, b < 256) : hexDecode (hexEncode bs) = bs := by
  induction bs with
  | nil => rfl
  | cons b rest ih =>
    have hb : b < 256 := h b (by simp)
    obtain ⟨h1, h2⟩ := hex_byte_roundtrip b hb
    simp only [hexEncode, hexDecode, h1, h2]
    rw [ih (fun x hx => h x (List.mem_cons_of_mem _ hx))]
    congr 1
    omega

theorem hexEncode_length (bs : List Nat) : (hexEncode bs).length = 2 * bs.length := by
  induction bs with
  | nil => rfl
  | cons b rest ih => simp only [hexEncode, List.length_cons, ih]; omega

/-- **`FromHex(ToHex(b)) = b` for a non-empty byte string**; the empty one comes back as a
    single zero byte (`"0x0"` → `"00"`), which is what Proposal005 special-cases. -/
theorem fromHex_toHex (bs : List Nat) (h : ∀ b ∈ bs, b < 256) :
    fromHex (toHex bs) = if bs = [] then [0] else bs := by
  by_cases he : bs = []
  · subst he; decide
  · rw [if_neg he]
    unfold toHex fromHex
    rw [if_neg he]
    have hl : (hexEncode bs).length = 2 * bs.length := hexEncode_length bs
    have hpos : 0 < bs.length := List.length_pos_iff.mpr he
    simp only [List.length_cons, hl]
    rw [if_pos (by omega)]
    rw [if_neg (by omega)]
    exact hexDecode_hexEncode bs h

example : fromHex (toHex [202, 254]) = [202, 254] ∧ fromHex (toHex []) = [0] ∧
    fromHex "0xcafe0".toList = [12, 175, 224] ∧ fromHex "0xcagfe".toList = [12] ∧ fromHex "f".toList = [] := by
  decide +kernel

/-! ## ConvertTx → decodeContractData -/

theorem parseUint64_toDigits (g : Nat) (h : g < 2 ^ 64) : parseUint64 (Nat.toDigits 10 g) = some g := by
  unfold parseUint64
  rw [if_neg Nat.toDigits_ne_nil]
  have hall : (Nat.toDigits 10 g).all isDig = true := by
    rw [List.all_eq_true]; exact allDig_toDigits g
  rw [hall, Nat.ofDigitChars_ten_toDigits]
  simpa using h

theorem toDigits_eq_zero_iff (g : Nat) : Nat.toDigits 10 g = ['0'] ↔ g = 0 := by
  constructor
  · intro h
    have := Nat.ofDigitChars_ten_toDigits (n := g)
    rw [h] at this
    have e : Nat.ofDigitChars 10 ['0'] 0 = 0 := by decide
    omega
  · rintro rfl; rfl

/-- **The whole wrapped-transaction round trip.** For a value below `2^256`, a gas limit
    below `2^64` and any payload, what `decodeContractData` hands to the EVM from the
    `ContractData` written by `ConvertTx` is: the same value; the same gas limit — except that
    a gas limit of 0 is replaced by the default (6 000 000, or 30 000 000 from Proposal017);
    the same input — except that an empty payload arrives as one zero byte before Proposal005. -/
theorem convert_decode (value gasPrice gas : Nat) (payload : List Nat) (p005 p017 : Bool)
    (hv : value < 2 ^ 256) (hg : gas < 2 ^ 64) (hp : ∀ b ∈ payload, b < 256) :
    decodeContractData p005 p017 (convertTxData value gasPrice gas payload) =
      some (if gas = 0 then (if p017 then 30000000 else 6000000) else gas,
            (value : Int),
            if payload = [] then (if p005 then [] else [0]) else payload) := by
  unfold decodeContractData convertTxData
  simp only []
  have hne : Nat.toDigits 10 gas ≠ [] := Nat.toDigits_ne_nil
  have hpos256 : (0 : Int) < 2 ^ 256 := by positivity
  have hlo : -(2 ^ 256 : Int) < (value : Int) := by omega
  have hhi : (value : Int) < 2 ^ 256 := by exact_mod_cast hv
  have hval : StrToBigInt (BigIntToStr (value : Int)) = .ok (value : Int) :=
    C18.roundtrip_word (value : Int) hlo hhi
  rw [hval]
  simp only [hne, decide_false, Bool.false_or]
  by_cases hg0 : gas = 0
  · subst hg0
    have : Nat.toDigits 10 0 = ['0'] := rfl
    simp only [this, decide_true, if_true]
    by_cases hpe : payload = []
    · subst hpe
      have ht : toHex [] = ['0', 'x', '0'] := rfl
      have hf : fromHex ['0', 'x', '0'] = [0] := by decide
      cases p005 <;> cases p017 <;> simp [ht, hf, defaultGasLimit, p017defaultGasLimit]
    · have hth : toHex payload ≠ ['0', 'x', '0'] := by
        unfold toHex; rw [if_neg hpe]
        intro h
        have h3 := congrArg List.length h
        simp only [List.length_cons, hexEncode_length, List.length_nil] at h3
        have hpos : 0 < payload.length := List.length_pos_iff.mpr hpe
        omega
      have hth2 : toHex payload ≠ [] := by unfold toHex; rw [if_neg hpe]; simp
      simp only [hth, hth2, decide_false, Bool.or_self, Bool.and_false, Bool.false_eq_true, if_false,
        fromHex_toHex payload hp, hpe, defaultGasLimit, p017defaultGasLimit]
  · have hnz : Nat.toDigits 10 gas ≠ ['0'] := fun h => hg0 ((toDigits_eq_zero_iff gas).mp h)
    simp only [hnz, decide_false, Bool.false_eq_true, if_false, parseUint64_toDigits gas hg, hg0]
    by_cases hpe : payload = []
    · subst hpe
      have ht : toHex [] = ['0', 'x', '0'] := rfl
      have hf : fromHex ['0', 'x', '0'] = [0] := by decide
      cases p005 <;> simp [ht, hf]
    · have hth : toHex payload ≠ ['0', 'x', '0'] := by
        unfold toHex; rw [if_neg hpe]
        intro h
        have h3 := congrArg List.length h
        simp only [List.length_cons, hexEncode_length, List.length_nil] at h3
        have hpos : 0 < payload.length := List.length_pos_iff.mpr hpe
        omega
      have hth2 : toHex payload ≠ [] := by unfold toHex; rw [if_neg hpe]; simp
      simp only [hth, hth2, decide_false, Bool.or_self, Bool.and_false, Bool.false_eq_true, if_false,
        fromHex_toHex payload hp, hpe]

example : decodeContractData true true (convertTxData (2 ^ 256 - 1) 1000000000 21000 [202, 254]) =
    some (21000, 2 ^ 256 - 1, [202, 254]) := by decide +kernel

/-- The two quirks, as facts about model and code (corpus `decode`/`convert` lines): a raw
    transaction with gas limit 0 is executed with the default gas limit; before Proposal005 an
    empty payload reaches the EVM as `[0x00]`. Neither touches the value; recorded for C11/C12. -/
theorem convert_decode_quirks :
    decodeContractData true false (convertTxData 5 1 0 []) = some (6000000, 5, []) ∧
    decodeContractData true true (convertTxData 5 1 0 []) = some (30000000, 5, []) ∧
    decodeContractData false true (convertTxData 5 1 7 []) = some (7, 5, [0]) := by decide +kernel

/-- `decodeContractData` fails exactly when the gas limit is neither empty, "0" nor a
    64-bit decimal number, or the transfer value does not parse. -/
theorem decode_error_iff (p005 p017 : Bool) (cd : ContractData) :
    decodeContractData p005 p017 cd = none ↔
      ((cd.gasLimit ≠ [] ∧ cd.gasLimit ≠ ['0'] ∧ parseUint64 cd.gasLimit = none) ∨
       ∀ v, StrToBigInt cd.transferValue ≠ .ok v) := by
  unfold decodeContractData
  by_cases h1 : cd.gasLimit = []
  · simp only [h1, decide_true, Bool.true_or, if_true]
    cases hs : StrToBigInt cd.transferValue <;> simp
  · by_cases h2 : cd.gasLimit = ['0']
    · simp only [h2, decide_true, Bool.or_true, if_true]
      cases hs : StrToBigInt cd.transferValue <;> simp
    · simp only [h1, h2, decide_false, Bool.or_self, Bool.false_eq_true, if_false]
      cases hp : parseUint64 cd.gasLimit with
      | none => simp [h1, h2]
      | some g => cases hs : StrToBigInt cd.transferValue <;> simp

example : decodeContractData true true ⟨[], "1e3".toList, "1.5".toList, []⟩ = none ∧
    decodeContractData true true ⟨[], "21000".toList, "abc".toList, []⟩ = none := by decide +kernel

/-! ## byte helpers -/

/-- `ByteToUInt64(UInt64ToByte(n)) = n`: the binding's decimal count (and slot position)
    survive their storage encoding. -/
theorem uint64_bytes_roundtrip (n : Nat) (h : n < 2 ^ 64) : byteToUInt64 (uint64ToByte n) = n := by
  unfold byteToUInt64 uint64ToByte
  rw [if_neg (by simp)]
  simp only [List.take, beNat, List.foldl]
  omega

/-- fewer than 8 bytes read as 0 (`binary.Read` fails, the error is dropped): an absent
    decimal entry and a recorded 0 are indistinguishable — both mean "0 decimals". -/
theorem byteToUInt64_short (b : List Nat) (h : b.length < 8) : byteToUInt64 b = 0 := by
  unfold byteToUInt64; rw [if_pos h]

example : byteToUInt64 (uint64ToByte 18) = 18 ∧ byteToUInt64 [18] = 0 ∧ byteToUInt64 [] = 0 ∧
    byteToUInt64 [0, 0, 0, 0, 0, 0, 0, 18, 99] = 18 := by decide

/-! ## token layer -/

/-- binding a fresh token name records exactly the decimal count given (`d < 2^64`), and a
    second binding of the same name is refused and changes nothing. -/
theorem world_bind (w : World) (t d : Nat) (hd : d < 2 ^ 64) :
    (w.decimals t = none → (wBind w t d).2 = true ∧ (wBind w t d).1.decimals t = some d) ∧
    (∀ d', w.decimals t = some d' → wBind w t d = (w, false)) := by
  constructor
  · intro h
    unfold wBind
    rw [h]
    refine ⟨rfl, ?_⟩
    simp only [uint64_bytes_roundtrip d hd]
    unfold World.decimals at h ⊢
    simp only [List.find?_append]
    cases hf : w.bind.find? (fun e => e.1 == t) with
    | some e => rw [hf] at h; simp at h
    | none => simp
  · intro d' h
    unfold wBind; rw [h]

example : (wBind World.empty 1 0).1.decimals 1 = some 0 ∧ (wBind (wBind World.empty 1 6).1 1 18) = ((wBind World.empty 1 6).1, false) := by
  decide

/-- **Unbound tokens are stored without any re-scaling**: for `n ≥ 0`, `SetFT` then `GetFT`
    returns `n` for every `n` (no size bound: no conversion is involved). -/
theorem world_unbound_set_get (w : World) (t a : Nat) (n : Int) (hu : w.decimals t = none) (hn : 0 ≤ n) :
    ∃ w', wSet w t a n = some w' ∧ wGet w' t a = .ok n := by
  unfold wSet
  rw [hu]
  refine ⟨_, rfl, ?_⟩
  unfold wGet
  simp only [World.decimals] at hu ⊢
  rw [hu]
  simp only [lookup2, List.find?_cons, beq_self_eq_true]
  congr 1
  omega

example : ∃ w', wSet World.empty 2 0 77 = some w' ∧ wGet w' 2 0 = .ok 77 := ⟨_, rfl, by decide⟩

/-- bound tokens dispatch to the re-scaling path with the recorded decimal count: the
    `World` operations *are* `ftSet`/`ftGet` on the token's slot. -/
theorem world_bound_dispatch (w : World) (t a d : Nat) (n : Int) (hb : w.decimals t = some d) :
    wGet w t a = ftGet d (lookup2 w.slot (t, a)) ∧
    wSet w t a n = (ftSet d n).map (fun v => { w with slot := ((t, a), v) :: w.slot }) := by
  unfold wGet wSet
  rw [hb]
  refine ⟨rfl, ?_⟩
  dsimp only
  cases ftSet (d : Int) n <;> rfl

/-- **Tokens and accounts are independent**: writing the balance of (t, a) leaves the
    balance of every other (token, account) pair unchanged. -/
theorem world_independent (w w' : World) (t a t' a' : Nat) (n : Int) (hne : (t, a) ≠ (t', a'))
    (hs : wSet w t a n = some w') : wGet w' t' a' = wGet w t' a' := by
  unfold wSet at hs
  have hk : ((t, a) == (t', a')) = false := by simpa using hne
  cases hd : w.decimals t with
  | some d =>
    rw [hd] at hs
    dsimp only at hs
    cases hf : ftSet (d : Int) n with
    | none => rw [hf] at hs; simp at hs
    | some v =>
      rw [hf] at hs
      simp only [Option.some.injEq] at hs
      subst hs
      unfold wGet World.decimals
      simp only [lookup2, List.find?_cons, hk]
  | none =>
    rw [hd] at hs
    dsimp only at hs
    simp only [Option.some.injEq] at hs
    subst hs
    unfold wGet World.decimals
    simp only [lookup2, List.find?_cons, hk]

example : ∀ w', wSet World.empty 1 0 5 = some w' → wGet w' 1 1 = wGet World.empty 1 1 :=
  fun w' h => world_independent _ _ 1 0 1 1 5 (by decide) h

/-- a token bound with 18 decimals keeps every balance exactly (via `ft_18_exact`) -/
theorem world_bound_18 (w : World) (t a : Nat) (n : Int) (hb : w.decimals t = some 18) (hn : 0 ≤ n)
    (hn2 : n.natAbs < 2 ^ 509) : ∃ w', wSet w t a n = some w' ∧ wGet w' t a = .ok n := by
  have f := C18.ft_18_exact n.natAbs n hn hn2 hn2
  unfold wSet
  rw [hb]
  dsimp only
  have h1 : ftSet ((18 : ℕ) : Int) n = some n.natAbs := f.1
  rw [h1]
  refine ⟨_, rfl, ?_⟩
  unfold wGet World.decimals
  simp only [World.decimals] at hb
  rw [hb]
  simp only [lookup2, List.find?_cons, beq_self_eq_true]
  have h2 : ftGet ((18 : ℕ) : Int) n.natAbs = .ok (n.natAbs : Int) := f.2.1
  rw [h2]; congr 1; omega

/-! ## what the real code does not guarantee: negative amounts -/

/-- `ft_18_exact` assumes `0 ≤ n`, which the code does not enforce: a negative amount
    written with `SetFT`/`SetBalance` comes back positive, because the slot is written with
    `big.Int.Bytes()` (bound and unbound path alike). Witness replayed on the real code
    (corpus `ft 18 s-5 g`, `world s2:0:-5 g2:0`). Documented quirk, not a C18 violation: the
    re-scaling itself is exact (`erc20_18_id`); balances are not meant to be negative (C06). -/
theorem negative_amount_sign_dropped :
    ftSet 18 (-5) = some 5 ∧ ftGet 18 5 = .ok 5 ∧
    (∃ w', wSet World.empty 2 0 (-5) = some w' ∧ wGet w' 2 0 = .ok 5) := by
  refine ⟨by decide +kernel, by decide +kernel, ⟨_, rfl, by decide⟩⟩

/-! ## GetRawBalance, BigIntBytesToStr -/

/-- `GetRawBalance` prints the balance in base units: after `SetBalance(n)` it is the decimal
    numeral of `n` (`0 ≤ n < 2^509`). -/
theorem rawBalance_exact (n : Int) (hn : 0 ≤ n) (hn2 : n.natAbs < 2 ^ 509) :
    ∃ b, ftSet 18 n = some b ∧ rawBalanceStr b = Nat.toDigits 10 n.natAbs := by
  have f := C18.ft_18_exact n.natAbs n hn hn2 hn2
  refine ⟨n.natAbs, f.1, ?_⟩
  unfold rawBalanceStr
  have h2 : ftGet 18 n.natAbs = .ok (n.natAbs : Int) := f.2.1
  rw [h2]
  dsimp only
  rw [if_neg (by omega), Int.natAbs_natCast, List.nil_append]

/-- `BigIntBytesToStr(b)` reads back (with `StrToBigInt`) as the big-endian value of `b`
    (up to 63 bytes). -/
theorem bigIntBytesToStr_roundtrip (b : List Nat) (h : beNat b < 2 ^ 510) :
    StrToBigInt (bigIntBytesToStr b) = .ok (beNat b : Int) :=
  C18.format_parse_id_exported (beNat b : Int) (by simpa using h)

example : bigIntBytesToStr [13, 224, 182, 179, 167, 100, 0, 0] = "1.000000000000000000".toList := by decide +kernel

end Rangers.Props.C18Tx
