import Rangers.Model.RLPTyped
import Rangers.Proofs.RLPTypedSound
import Rangers.Generated.C08Types
/-!
# C08 — typed coders (`decodeTy` / `encT`): canonicity

`typed_canonical_partial` is proved for every type without a `rlp:"nil"` field; the full
statement is false of model and code (`typed_canonical_counterexample`, known finding
`noncanon:nil-ptr-empty-kind`).  The node's own types come from `Generated/C08Types.lean`
(regenerated from the source on every run): a new `rlp:"nil"` tag, a changed field type or
order breaks `account_plain` / `txdata_nil_fields`.
-/
namespace Rangers.Props.C08
open Rangers Rangers.RLP Rangers.Generated.C08

/-- Typed canonicity: an accepted input is exactly what the encoder writes for the decoded value. -/
def FullStatementTypedCanonical : Prop :=
  ∀ (ty : Ty) (b : Bytes) (v : Val), decodeTy ty b = .ok v → encT ty v = .ok b

theorem typed_canonical_partial (ty : Ty) (b : Bytes) (v : Val) (hp : ty.plain)
    (h : decodeTy ty b = .ok v) : encT ty v = .ok b := by
  unfold decodeTy at h
  cases hd : decT (typedFuel ty b) ty b with
  | error e => rw [hd] at h; cases h
  | ok r =>
    obtain ⟨v', rest⟩ := r
    rw [hd] at h
    simp only at h
    split at h
    · rename_i he
      injection h with h; subst h
      obtain ⟨e, he1, he2⟩ := (typed_sound _).1 ty b v' rest hp hd
      have hr : rest = [] := by simpa using he
      rw [hr, List.append_nil] at he2
      rw [he2]; exact he1
    · cases h

-- non-vacuity: the account record is a plain type and really decodes
example : account_Account.plain := by simp [account_Account, Ty.plain, plainFs]
set_option maxRecDepth 8192 in
example : decodeTy (.struct [(.none, .uint 64), (.none, .barr 2), (.none, .bytes)]) [0xc5, 0x05, 0x82, 0x00, 0x01, 0x80]
    = .ok (.list [.num 5, .bytes [0x00, 0x01], .bytes []]) := by rfl

set_option maxRecDepth 16384 in
/-- The witness: `struct{F *[20]byte "nil"}` accepts `c1 c0`, the encoder writes `c1 80`. -/
theorem typed_canonical_counterexample : ¬ FullStatementTypedCanonical := by
  intro h
  have h1 : decodeTy (.struct [(.nilOK, .ptr (.barr 20))]) [0xc1, 0xc0] = .ok (.list [.nil]) := by rfl
  have h2 := h _ _ _ h1
  have h3 : encT (.struct [(.nilOK, .ptr (.barr 20))]) (.list [.nil]) = .ok [0xc1, 0x80] := by rfl
  rw [h3] at h2
  injection h2 with h2
  have : (0x80 : UInt8) = 0xc0 := by
    have := congrArg (fun l => l.getD 1 0) h2
    simpa using this
  exact absurd this (by decide)

/-- T-gen: the account record has no `rlp:"nil"` field, so typed canonicity applies to it. -/
theorem account_plain : account_Account.plain := by
  simp [account_Account, Ty.plain, plainFs]

theorem account_canonical (b : Bytes) (v : Val) (h : decodeTy account_Account b = .ok v) :
    encT account_Account v = .ok b :=
  typed_canonical_partial _ b v account_plain h

theorem address_hash_canonical (b : Bytes) (v : Val) :
    (decodeTy common_Address b = .ok v → encT common_Address v = .ok b) ∧
    (decodeTy common_Hash b = .ok v → encT common_Hash v = .ok b) ∧
    (decodeTy slice_interface b = .ok v → encT slice_interface v = .ok b) :=
  ⟨typed_canonical_partial _ b v (by simp [common_Address, Ty.plain]),
   typed_canonical_partial _ b v (by simp [common_Hash, Ty.plain]),
   typed_canonical_partial _ b v (by simp [slice_interface, Ty.plain])⟩

/-- positions of `rlp:"nil"` fields of a struct type -/
def nilFields : Ty → List Nat
  | .struct fs => (fs.zipIdx.filter (fun p => p.1.1 = Tag.nilOK)).map (·.2)
  | _ => []

/-- T-gen: `eth_tx.txdata` has exactly one `rlp:"nil"` field, the recipient (index 3); that is the
    field the known finding is about. Any other change of the tags breaks this obligation. -/
theorem txdata_nil_fields : nilFields eth_tx_txdata = [3] := by
  simp [nilFields, eth_tx_txdata, List.zipIdx]

set_option maxRecDepth 16384 in
/-- The known finding on the node's own type: a contract-creation transaction whose recipient is
    written `c0` is accepted and re-encodes with `80`. -/
theorem txdata_two_encodings :
    decodeTy eth_tx_txdata [0xc9, 0x80, 0x80, 0x80, 0xc0, 0x80, 0x80, 0x80, 0x80, 0x80]
      = decodeTy eth_tx_txdata [0xc9, 0x80, 0x80, 0x80, 0x80, 0x80, 0x80, 0x80, 0x80, 0x80] := by rfl

end Rangers.Props.C08
