import Rangers.Generated.C07Admit
/-!
# C07 — every path into the pool goes through `VerifyTransaction` (T-gen)

`Generated.C07.admissionSites` is re-extracted on every run from *all* non-test Go files under
`src/` (`gen/cmd/c07admit`, go/ast): every call of `.received.push(` (the physical insertion),
of `pool.add(`, of `.AddTransaction(`, and of every function found (by fixpoint) to forward
to `AddTransaction` without checking; each with the way a successful `VerifyTransaction`
dominates it inside its function.  A new insertion site, a new caller, a removed or re-ordered
check (the anchors `network/worker_conn.go`, `core/game_executor.go`, or anywhere else)
changes the list and breaks an obligation below.
-/
namespace Rangers.Props.C07Admit
open Rangers.Generated.C07

abbrev Site := String × String × String × String × String
def Site.file (s : Site) := s.1
def Site.base (s : Site) := s.2.2.1
def Site.callee (s : Site) := s.2.2.2.1
def Site.guard (s : Site) := s.2.2.2.2

/-- A site outside the pool's own file is fine when a successful `VerifyTransaction` dominates
    it, or when its function is a pure forwarder: it is itself called somewhere and every call
    of it is dominated by a successful `VerifyTransaction`. -/
def admissionOK (sites : List Site) : Bool :=
  sites.all fun s =>
    s.file == "src/service/transaction_pool.go" || s.guard != "none" ||
      ((sites.any fun t => t.callee == s.base) &&
       (sites.all fun t => t.callee != s.base || t.guard != "none"))

/-- The sites, pinned. Inside the pool: `add` is the only `push`, and `add` is called by
    `AddTransaction` (the admission entry) and `UnMarkExecuted` (re-insertion of the
    transactions of a block that is being removed — they were admitted before). Outside:
    the network handler (guarded `if … nil == err`) and the game executor (three calls of the
    forwarder `sendTransaction`, each after `if err := …VerifyTransaction…; err != nil { …return }`). -/
theorem admission_sites_pinned :
    admissionSites = [
      ("src/core/game_executor.go", "GameExecutor.runWrite", "runWrite", "sendTransaction", "early-return"),
      ("src/core/game_executor.go", "GameExecutor.runWrite", "runWrite", "sendTransaction", "early-return"),
      ("src/core/game_executor.go", "GameExecutor.sendTransaction", "sendTransaction", "AddTransaction", "none"),
      ("src/core/game_executor.go", "GameExecutor.write", "write", "sendTransaction", "early-return"),
      ("src/network/worker_conn.go", "WorkerConn.handleMessage", "handleMessage", "AddTransaction", "if-ok"),
      ("src/service/transaction_pool.go", "TxPool.AddTransaction", "AddTransaction", "add", "none"),
      ("src/service/transaction_pool.go", "TxPool.UnMarkExecuted", "UnMarkExecuted", "add", "none"),
      ("src/service/transaction_pool.go", "TxPool.add", "add", "push", "none")] := rfl

/-- Every path that puts a transaction into the pool from outside the pool's own file goes
    through a successful `VerifyTransaction`. -/
theorem every_admission_path_verified : admissionOK admissionSites = true := by decide

/-- the criterion is not vacuous: an unguarded direct call is flagged -/
example : admissionOK [("src/x.go", "f", "f", "AddTransaction", "none")] = false := by decide
example : admissionOK [("src/x.go", "T.fwd", "fwd", "AddTransaction", "none"),
                       ("src/y.go", "g", "g", "fwd", "none")] = false := by decide

/-- No admission function verifies or inserts inside a goroutine or function literal: the
    verdict is computed and used for the element at hand, sequentially (a parallelised batch
    loop — captured loop variable, detached verdicts — changes this list). -/
theorem admission_is_sequential : admissionGoroutines = [] := rfl

/-- The admission handlers keep no state of their own: the files that contain them declare only
    the eight message-method constants (`worker_conn.go`; `game_executor.go` declares none), and no
    admission function assigns to, or calls a method on, a package-level variable of its package — no
    cache of rejected hashes, no seen-set, no counter. The pool is the only memory, as in
    `hashesAfterSeq`. -/
theorem admission_handlers_stateless :
    admissionFileVars = [
      ("src/network/worker_conn.go", "methodCodeBroadcast"), ("src/network/worker_conn.go", "methodCodeJoinGroup"),
      ("src/network/worker_conn.go", "methodCodeQuitGroup"), ("src/network/worker_conn.go", "methodCodeSend"),
      ("src/network/worker_conn.go", "methodCodeSendToGroup"), ("src/network/worker_conn.go", "methodCodeTxBroadcast"),
      ("src/network/worker_conn.go", "methodSendToManager"), ("src/network/worker_conn.go", "methodSetNetId")] ∧
    admissionStateUses = [] := ⟨rfl, rfl⟩

theorem scanned_whole_tree : admissionFilesScanned ≥ 300 := by decide

end Rangers.Props.C07Admit
