import Rangers.Model.RLPStream
import Rangers.Proofs.RLPStreamInv
/-!
# C08 — totality clauses for the `Stream` decoder

For a stream created by `DecodeBytes(b, …)` / `NewStream(bytes.NewReader(b), limit)` and
*any* sequence of the public methods (`Kind`, `Bytes`, `Raw`, `Uint`/`uintN`, `Bool`, `List`,
`ListEnd`, generic `Decode`), in any order, including after errors:

* `stream_no_wraparound`  every `listpos` on the stack has `pos ≤ size` (the `uint64`
  subtraction `tos.size - tos.pos` never wraps);
* `bounded_reads`         bytes taken from the reader never exceed the declared input;
* `bounded_allocs`        every `make` in `Bytes`/`Raw` is at most the declared input (+ ≤ 9 header bytes in `Raw`).
-/
namespace Rangers.Props.C08
open Rangers Rangers.RLP

/-- The declared input of `newStream b limit`. -/
def declared (b : Bytes) (limit : Nat) : Nat := if limit > 0 then limit else b.length

theorem stream_inv (b : Bytes) (limit : Nat) (ops : List SOp) (hL : declared b limit < 2 ^ 64) :
    SInv (declared b limit) (runOps ops (newStream b limit)) :=
  runOps_inv hL ops _ (newStream_inv b limit)

theorem stream_no_wraparound (b : Bytes) (limit : Nat) (ops : List SOp) (hL : declared b limit < 2 ^ 64) :
    ∀ e ∈ (runOps ops (newStream b limit)).stack, e.1 ≤ e.2 :=
  stackOK_pos_le _ _ (stream_inv b limit ops hL).stk

/-- The in-list bound check computed in `uint64` (`tos.size - tos.pos` with wrap-around) is the
    truncated `Nat` subtraction the model uses, in every reachable state. -/
theorem in_list_check_exact (b : Bytes) (limit : Nat) (ops : List SOp) (hL : declared b limit < 2 ^ 64) :
    ∀ e ∈ (runOps ops (newStream b limit)).stack, (e.2 + 2 ^ 64 - e.1) % 2 ^ 64 = (e.2 - e.1) % 2 ^ 64 := by
  intro e he
  have := stream_no_wraparound b limit ops hL e he
  have h : e.2 + 2 ^ 64 - e.1 = (e.2 - e.1) + 2 ^ 64 := by omega
  rw [h, Nat.add_mod_right]

/-- Why the *form* of the check matters (T-gen `bound_checks_no_addition`): with one byte of a
    9-byte list consumed, an element declaring 2^64-1 bytes is refused by `size > listSize - pos`
    but would pass `pos + size > listSize` evaluated in `uint64`. -/
theorem additive_check_would_wrap :
    (2 ^ 64 - 1 > 9 - 1) ∧ ¬ ((1 + (2 ^ 64 - 1)) % 2 ^ 64 > 9) := by decide

/-- never reads past the declared input -/
theorem bounded_reads (b : Bytes) (limit : Nat) (ops : List SOp) (hL : declared b limit < 2 ^ 64) :
    (runOps ops (newStream b limit)).consumed ≤ declared b limit := by
  have := (stream_inv b limit ops hL).rd
  omega

/-- never allocates beyond the input size -/
theorem bounded_allocs (b : Bytes) (limit : Nat) (ops : List SOp) (hL : declared b limit < 2 ^ 64) :
    ∀ a ∈ (runOps ops (newStream b limit)).allocs, a ≤ declared b limit + 9 :=
  (stream_inv b limit ops hL).al

/-- `DecodeBytes` (limit = `len(b)`): at most `len(b)` bytes read, no allocation above `len(b) + 9`. -/
theorem decodeBytes_bounded (b : Bytes) (ops : List SOp) (hL : b.length < 2 ^ 64) :
    (runOps ops (newStream b b.length)).consumed ≤ b.length ∧
    ∀ a ∈ (runOps ops (newStream b b.length)).allocs, a ≤ b.length + 9 := by
  have hd : declared b b.length = b.length := by unfold declared; split <;> rfl
  have h1 := bounded_reads b b.length ops (by rw [hd]; exact hL)
  have h2 := bounded_allocs b b.length ops (by rw [hd]; exact hL)
  rw [hd] at h1 h2
  exact ⟨h1, h2⟩

-- non-vacuity: a script that really allocates and reads (huge declared size is refused before any allocation)
example : (runOps [.list, .bytes, .listEnd] (newStream [0xc3, 0x82, 0x01, 0x02] 0)).allocs = [2] := by rfl
example : (runOps [.bytes] (newStream [0xbf, 0xff, 0xff, 0xff, 0xff, 0xff, 0xff, 0xff, 0xff] 0)).allocs = [] := by rfl
example : (sBytes (newStream [0xbf, 0xff, 0xff, 0xff, 0xff, 0xff, 0xff, 0xff, 0xff] 0)).1 = .error .valueTooLarge := by rfl

end Rangers.Props.C08
