import Rangers.Model.RLPStream
import Rangers.Proofs.RLPStreamInv
/-!
# C08 — totality clauses for the `Stream` decoder

For a stream created by `DecodeBytes(b, …)` / `NewStream(bytes.NewReader(b), limit)` and
*any* sequence of the public methods (`Kind`, `Bytes`, `Raw`, `Uint`/`uintN`, `Bool`, `List`,
`ListEnd`, generic `Decode`), in any order, including after errors:

* `stream_no_wraparound`  every `listpos` on the stack has `pos ≤ size` (the `uint64`
  subtraction `tos.size - tos.pos` never wraps);
* `bounded_reads`         bytes taken from the reader never exceed the declared input;
* `bounded_allocs`        every `make` in `Bytes`/`Raw` is at most the declared input (+ ≤ 9 header bytes in `Raw`).
-/
namespace Rangers.Props.C08
open Rangers Rangers.RLP

/-- The declared input of `newStream b limit`. -/
def declared (b : Bytes) (limit : Nat) : Nat := if limit > 0 then limit else b.length

theorem stream_inv (b : Bytes) (limit : Nat) (ops : List SOp) (hL : declared b limit < 2 ^ 64) :
    SInv (declared b limit) (runOps ops (newStream b limit)) :=
  runOps_inv hL ops _ (newStream_inv b limit)

theorem stream_no_wraparound (b : Bytes) (limit : Nat) (ops : List SOp) (hL : declared b limit < 2 ^ 64) :
    ∀ e ∈ (runOps ops (newStream b limit)).stack, e.1 ≤ e.2 :=
  stackOK_pos_le _ _ (stream_inv b limit ops hL).stk

/-- The in-list bound check computed in `uint64` (`tos.size - tos.pos` with wrap-around) is the
    truncated `Nat` subtraction the model uses, in every reachable state. -/
theorem in_list_check_exact (b : Bytes) (limit : Nat) (ops : List SOp) (hL : declared b limit < 2 ^ 64) :
    ∀ e ∈ (runOps ops (newStream b limit)).stack, (e.2 + 2 ^ 64 - e.1) % 2 ^ 64 = (e.2 - e.1) % 2 ^ 64 := by
  intro e he
  have := stream_no_wraparound b limit ops hL e he
  have h : e.2 + 2 ^ 64 - e.1 = (e.2 - e.1) + 2 ^ 64 := by omega
  rw [h, Nat.add_mod_right]

/-- Why the *form* of the check matters (T-gen `bound_checks_no_addition`): with one byte of a
    9-byte list consumed, an element declaring 2^64-1 bytes is refused by `size > listSize - pos`
    but would pass `pos + size > listSize` evaluated in `uint64`. -/
theorem additive_check_would_wrap :
    (2 ^ 64 - 1 > 9 - 1) ∧ ¬ ((1 + (2 ^ 64 - 1)) % 2 ^ 64 > 9) := by decide

/-- never reads past the declared input -/
theorem bounded_reads (b : Bytes) (limit : Nat) (ops : List SOp) (hL : declared b limit < 2 ^ 64) :
    (runOps ops (newStream b limit)).consumed ≤ declared b limit := by
  have := (stream_inv b limit ops hL).rd
  omega

/-- never allocates beyond the input size -/
theorem bounded_allocs (b : Bytes) (limit : Nat) (ops : List SOp) (hL : declared b limit < 2 ^ 64) :
    ∀ a ∈ (runOps ops (newStream b limit)).allocs, a ≤ declared b limit + 9 :=
  (stream_inv b limit ops hL).al

/-- `DecodeBytes` (limit = `len(b)`): at most `len(b)` bytes read, no allocation above `len(b) + 9`. -/
theorem decodeBytes_bounded (b : Bytes) (ops : List SOp) (hL : b.length < 2 ^ 64) :
    (runOps ops (newStream b b.length)).consumed ≤ b.length ∧
    ∀ a ∈ (runOps ops (newStream b b.length)).allocs, a ≤ b.length + 9 := by
  have hd : declared b b.length = b.length := by unfold declared; split <;> rfl
  have h1 := bounded_reads b b.length ops (by rw [hd]; exact hL)
  have h2 := bounded_allocs b b.length ops (by rw [hd]; exact hL)
  rw [hd] at h1 h2
  exact ⟨h1, h2⟩

-- non-vacuity: a script that really allocates and reads (huge declared size is refused before any allocation)
example : (runOps [.list, .bytes, .listEnd] (newStream [0xc3, 0x82, 0x01, 0x02] 0)).allocs = [2] := by rfl
example : (runOps [.bytes] (newStream [0xbf, 0xff, 0xff, 0xff, 0xff, 0xff, 0xff, 0xff, 0xff] 0)).allocs = [] := by rfl
example : (sBytes (newStream [0xbf, 0xff, 0xff, 0xff, 0xff, 0xff, 0xff, 0xff, 0xff] 0)).1 = .error .valueTooLarge := by rfl

theorem willRead_kind (s : Stream) (n : Nat) : (willRead s n).2.kind = none := by
  unfold willRead willReadLimit
  simp only
  split <;> (repeat' split) <;> rfl

theorem readFull_kind (s : Stream) (n : Nat) : (readFull s n).2.kind = none := by
  have := willRead_kind s n
  unfold readFull
  cases hw : willRead s n with
  | mk oe s1 =>
    rw [hw] at this
    cases oe with
    | some e => exact this
    | none => simp only; split <;> exact this

theorem readByte_kind (s : Stream) : (readByte s).2.kind = none := by
  have := willRead_kind s 1
  unfold readByte
  cases hw : willRead s 1 with
  | mk oe s1 =>
    rw [hw] at this
    cases oe with
    | some e => exact this
    | none => simp only; split <;> exact this

theorem readUint_kind (s : Stream) (n : Nat) : (readUint s n).2.kind = none := by
  unfold readUint
  split
  · rfl
  · split
    · have := readByte_kind s
      cases hb : readByte s with
      | mk r s1 => rw [hb] at this; cases r <;> exact this
    · have := readFull_kind s n
      cases hb : readFull s n with
      | mk r s1 =>
        rw [hb] at this
        cases r with
        | error e => exact this
        | ok bs => cases bs with
          | nil => exact this
          | cons b0 tl => simp only; split <;> exact this

/-- A successful `Raw()` has consumed its element: `Kind` is re-armed, so the next read starts at the
    next element — for every element, empty strings and empty lists included. -/
theorem raw_rearms_kind (s : Stream) (b : Bytes) (h : (sRaw s).1 = .ok b) : (sRaw s).2.kind = none := by
  unfold sRaw at h ⊢
  cases hr : sKind s with
  | mk r s1 =>
    rw [hr] at h
    cases r with
    | error e => cases h
    | ok ks =>
      obtain ⟨k, size⟩ := ks
      simp only at h ⊢
      have hf := readFull_kind { s1 with allocs := (headsize size + size) :: s1.allocs } size
      cases k with
      | byte => rfl
      | string =>
        simp only at h ⊢
        cases hrr : readFull { s1 with allocs := (headsize size + size) :: s1.allocs } size with
        | mk r2 s2 => (try rw [hrr] at hf); (try rw [hrr] at h); cases r2 with
          | error e => cases h
          | ok c => simp only; split <;> exact hf
      | list =>
        simp only at h ⊢
        cases hrr : readFull { s1 with allocs := (headsize size + size) :: s1.allocs } size with
        | mk r2 s2 => (try rw [hrr] at hf); (try rw [hrr] at h); cases r2 with
          | error e => cases h
          | ok c => simp only; split <;> exact hf

/-- the same for `Bytes()` -/
theorem bytes_rearms_kind (s : Stream) (b : Bytes) (h : (sBytes s).1 = .ok b) : (sBytes s).2.kind = none := by
  unfold sBytes at h ⊢
  cases hr : sKind s with
  | mk r s1 =>
    rw [hr] at h
    cases r with
    | error e => cases h
    | ok ks =>
      obtain ⟨k, size⟩ := ks
      simp only at h ⊢
      cases k with
      | byte => rfl
      | list => cases h
      | string =>
        simp only at h ⊢
        have hf := readFull_kind { s1 with allocs := size :: s1.allocs } size
        cases hrr : readFull { s1 with allocs := size :: s1.allocs } size with
        | mk r2 s2 => (try rw [hrr] at hf); (try rw [hrr] at h); cases r2 with
          | error e => cases h
          | ok c => simp only at h ⊢; split <;> first | exact hf | (rename_i hc; simp [hc] at h)

-- non-vacuity: Raw on an empty string in the middle of a list, then the next element is read
example : (runOps [.list, .raw, .raw] (newStream [0xc2, 0x80, 0x05] 0)).consumed = 3 := by rfl
example : (sRaw (runOps [.list] (newStream [0xc2, 0x80, 0x05] 0))).1 = .ok [0x80] := by rfl

end Rangers.Props.C08
