import Rangers.Proofs.C09Conv
import Rangers.Props.C09
/-!
# C09, part 2 — lossless round trips, the one-pass fixed point, hash stability

`wire_roundtrip` (framing), `convert_roundtrip` (serialization.go converters), their composition
for `MarshalX`/`UnMarshalX`, `hash_stable`, `prove_value_transport`.
-/
namespace Rangers.Props.C09
open Rangers Rangers.Wire Rangers.Json

/-! ## wire_roundtrip: `proto.Unmarshal (proto.Marshal p) = p` -/

theorem varint_roundtrip (n : Nat) (rest : Bytes) (h : n < 2 ^ 64) :
    getVarint (encVarint n ++ rest) = some (n, rest) := getVarint_enc n rest h

theorem wire_roundtrip_raw (rs : List Raw) (h : RawsWF rs) : parseRaw (encRaws rs) = some rs :=
  parseRaw_encRaws rs h

example : RawsWF [.vint 2 18446744073709551615, .len 536870911 [1, 2, 3]] := by
  intro r hr
  simp at hr
  rcases hr with rfl | rfl <;> simp [RawWF]

theorem wire_roundtrip_tx (p : PbTx) (hwf : RawsWF (rawsOfTx p)) (h1 : OptI32OK p.type)
    (h2 : OptI32OK p.extraDataType) (ht : p.type.isSome) : decTx (encTx p) = some p :=
  decTx_encTx p hwf h1 h2 ht

theorem wire_roundtrip_txs (ps : List PbTx) (hlen : ∀ p ∈ ps, (encTx p).length < 2 ^ 64)
    (h : ∀ p ∈ ps, RawsWF (rawsOfTx p) ∧ OptI32OK p.type ∧ OptI32OK p.extraDataType ∧ p.type.isSome) :
    decTxSlice (encTxSlice ps) = some ps := decTxSlice_enc ps hlen h

theorem wire_roundtrip_header (p : PbHeader) (h : PbHeaderWF p) : decHeader (encHeader p) = some p :=
  decHeader_encHeader p h

/-! ## Transactions -/

/-- What one Marshal/UnMarshal pass makes of an arbitrary in-memory transaction. -/
def normTx (t : Tx) : Tx :=
  { t with subTx := normSubTx (some t.subTx),
           subHash := bytesToHash t.subHash, hash := bytesToHash t.hash,
           sign := (match t.sign with
                    | some b => if b.length = 65 then some b else none
                    | none => none),
           socketRequestId := [] }

theorem nonEmpty_getD (b : Bytes) : (nonEmpty b).getD [] = b := by
  unfold nonEmpty
  split <;> simp_all

/-- convert_roundtrip (transactions): `pbToTransaction (transactionToPb t) = norm t`, for every `t`. -/
theorem tx_convert_roundtrip (t : Tx) : pbToTx (txToPb t) = .ok (normTx t) := by
  simp only [pbToTx, txToPb,
    derefStr_safe 1 1 (by decide), derefNat_safe 1 2 (by decide), derefNat_safe 1 11 (by decide),
    derefStr_safe 1 4 (by decide), derefNat_safe 1 8 (by decide), derefStr_safe 1 10 (by decide),
    derefStr_safe 1 12 (by decide), derefStr_safe 1 15 (by decide), derefNat_some, nonEmpty_getD,
    Option.getD_some, Option.getD_none, normSubTx, optHash, normTx]
  rfl

theorem jsonNull_ne_nil : jsonNull ≠ [] := by decide

/-- Decoding and re-rendering the SubTransactions JSON a second time changes nothing. -/
def SubTxStable (x : Bytes) : Prop := normSubTx (some (normSubTx (some x))) = normSubTx (some x)

example : SubTxStable jsonNull := by unfold SubTxStable; decide
example : SubTxStable [] := by unfold SubTxStable; decide
example : SubTxStable (ascii "[{\"address\":7,\"balance\":\"1.5\",\"coin\":{\"b\":\"<\",\"a\":\"1\"},\"Assets\":null}]") := by
  unfold SubTxStable; decide

/-- Full statement of the fixed-point law for transactions. -/
def FullStatement_normTx_idem : Prop := ∀ t : Tx, normTx (normTx t) = normTx t

/-- The fixed-point law: a second pass changes nothing — proved for every transaction whose
    SubTransactions JSON is stable under decode/re-render (`SubTxStable`; it holds for `null`, the empty
    string and, by `decide`, for sample values; the general statement needs the inverse property of the
    JSON string escaper/unquoter and is not proved, nor refuted). -/
theorem normTx_idem_partial (t : Tx) (hs : SubTxStable t.subTx) : normTx (normTx t) = normTx t := by
  cases t with
  | mk source target type time data extraData extraDataType subTx subHash hash sign nonce requestId sock chainId =>
  simp only [SubTxStable] at hs
  simp only [normTx, bytesToHash_id _ (bytesToHash_length _), hs]
  congr 1
  cases sign with
  | none => rfl
  | some b => by_cases hb : b.length = 65 <;> simp [hb]

/-- The bytes `MarshalTransaction` emits fit the 64-bit framing and the int32 fields are int32. -/
def TxFits (t : Tx) : Prop :=
  RawsWF (rawsOfTx (txToPb t)) ∧ t.type < 2 ^ 32 ∧ t.extraDataType < 2 ^ 32

theorem tx_roundtrip (t : Tx) (h : TxFits t) : unmarshalTx (marshalTx t) = .ok (normTx t) := by
  unfold unmarshalTx marshalTx
  have hd := decTx_encTx (txToPb t) h.1
    (by intro v hv; simp only [txToPb, Option.some.injEq] at hv; subst hv; exact h.2.1)
    (by intro v hv; simp only [txToPb, Option.some.injEq] at hv; subst hv; exact h.2.2)
    (by simp [txToPb])
  simp only [hd, tx_convert_roundtrip]

/-- hash_stable (transactions): the codec never touches an input of `Transaction.GenHash`. -/
theorem tx_hash_stable (t : Tx) : txHashInput (normTx t) = txHashInput t := rfl

theorem tx_genhash_stable (t : Tx) (h : TxFits t) :
    ∃ t', unmarshalTx (marshalTx t) = .ok t' ∧ txGenHash t' = txGenHash t :=
  ⟨normTx t, tx_roundtrip t h, by unfold txGenHash; rw [tx_hash_stable]⟩

/-- In-memory transactions the node builds: 32-byte hashes, a 65-byte signature or none,
    `SubTransactions` as json.Marshal renders a value that came out of json.Unmarshal (so decoding and
    re-rendering it gives the same bytes). -/
def TxValid (t : Tx) : Prop :=
  t.hash.length = 32 ∧ t.subHash.length = 32 ∧ normSubTx (some t.subTx) = t.subTx ∧
  ∀ b, t.sign = some b → b.length = 65

theorem normTx_of_valid (t : Tx) (h : TxValid t) : normTx t = { t with socketRequestId := [] } := by
  obtain ⟨h1, h2, h3, h4⟩ := h
  cases t with
  | mk source target type time data extraData extraDataType subTx subHash hash sign nonce requestId sock chainId =>
  simp only at h1 h2 h3 h4
  simp only [normTx, bytesToHash_id _ h1, bytesToHash_id _ h2, h3]
  congr 1
  cases sign with
  | none => rfl
  | some b => simp [h4 b rfl]

/-- Full statement: every valid transaction comes back with the same content. -/
def FullStatement_tx_lossless : Prop :=
  ∀ t : Tx, TxFits t → TxValid t → unmarshalTx (marshalTx t) = .ok t

/-- Proved restriction: … when `SocketRequestId` is empty (transactionToPb never writes that field). -/
theorem tx_lossless_partial (t : Tx) (hf : TxFits t) (hv : TxValid t) (hs : t.socketRequestId = []) :
    unmarshalTx (marshalTx t) = .ok t := by
  rw [tx_roundtrip t hf, normTx_of_valid t hv]
  cases t
  simp_all

def witnessTx : Tx :=
  { source := [], target := [], type := 1, time := [], data := [], extraData := [], extraDataType := 0,
    subTx := jsonNull, subHash := List.replicate 32 0, hash := List.replicate 32 0, sign := none, nonce := 0,
    requestId := 0, socketRequestId := [0x35, 0x30, 0x36], chainId := [] }

instance : DecidablePred RawWF := fun r =>
  match r with
  | .vint n v => inferInstanceAs (Decidable (1 ≤ n ∧ n < 2 ^ 61 ∧ v < 2 ^ 64))
  | .len n b => inferInstanceAs (Decidable (1 ≤ n ∧ n < 2 ^ 61 ∧ b.length < 2 ^ 64))
  | .other _ _ => inferInstanceAs (Decidable False)

instance (rs : List Raw) : Decidable (RawsWF rs) := inferInstanceAs (Decidable (∀ r ∈ rs, RawWF r))

instance (t : Tx) : Decidable (TxFits t) :=
  inferInstanceAs (Decidable (RawsWF (rawsOfTx (txToPb t)) ∧ t.type < 2 ^ 32 ∧ t.extraDataType < 2 ^ 32))

theorem witnessTx_valid : TxValid witnessTx := ⟨rfl, rfl, by decide, by intro b hb; cases hb⟩

example : TxFits witnessTx := by decide

/-- The known finding `tx-roundtrip-socket-request-id-dropped`, as a theorem about the model. -/
theorem tx_lossless_counterexample : ¬ FullStatement_tx_lossless := by
  intro H
  have h := H witnessTx (by decide) witnessTx_valid
  revert h
  decide


/-! ## Block headers -/

/-- What one Marshal/UnMarshal pass makes of an arbitrary in-memory header: hashes are 32 bytes,
    a negative prove value loses its sign (`big.Int.Bytes`), nil `Transactions`/`EvictedTxs`
    become empty slices. -/
def normHeader (h : Header) : Header :=
  { h with hash := bytesToHash h.hash, preHash := bytesToHash h.preHash,
           proveValue := h.proveValue.map (fun v => (v.natAbs : Int)),
           transactions := some ((h.transactions.getD []).map (fun p => (bytesToHash p.1, bytesToHash p.2))),
           txTree := bytesToHash h.txTree, receiptTree := bytesToHash h.receiptTree,
           stateTree := bytesToHash h.stateTree,
           evictedTxs := some ((h.evictedTxs.getD []).map bytesToHash) }

/-- `json.Unmarshal (json.Marshal m) = m` for this RequestIds map. -/
def ReqIdsStable (r : ReqIds) : Prop := decReqIds (encReqIds r) = r

example : ReqIdsStable .nil := by unfold ReqIdsStable; decide
example : ReqIdsStable (.map []) := by unfold ReqIdsStable; decide
example : ReqIdsStable (.map [([0x66, 0x69, 0x78, 0x65, 0x64], 1024)]) := by unfold ReqIdsStable; decide
example : ReqIdsStable (.map [([0x31], 18446744073709551615), ([0x61, 0x62], 0)]) := by unfold ReqIdsStable; decide

/-- Times that `time.MarshalBinary` carries (see `TimeOK`) and a RequestIds map JSON carries. -/
def HeaderOK (h : Header) : Prop := TimeOK h.preTime ∧ TimeOK h.curTime ∧ ReqIdsStable h.requestIds

/-- convert_roundtrip (headers): `PbToBlockHeader (BlockHeaderToPb h) = norm h`. -/
theorem header_convert_roundtrip (h : Header) (ok : HeaderOK h) :
    ∃ p, headerToPb h = some p ∧ pbToHeader p = .ok (normHeader h) := by
  obtain ⟨bp, hbp, hbp'⟩ := binToTime_timeToBin h.preTime ok.1
  obtain ⟨bc, hbc, hbc'⟩ := binToTime_timeToBin h.curTime ok.2.1
  have hr : decReqIds (encReqIds h.requestIds) = h.requestIds := ok.2.2
  refine ⟨_, (by simp only [headerToPb, hbp, hbc]; rfl), ?_⟩
  simp only [pbToHeader, Option.getD_some, hbp', hbc', derefNat_safe 2 2 (by decide), derefNat_safe 2 11 (by decide),
    derefNat_safe 2 6 (by decide), optHash, hr, normHeader, List.map_map, Option.map_map]
  congr 2
  cases h.proveValue with
  | none => rfl
  | some v => simp [beToNat_natToBE]

/-- What the node produces itself (`CastBlock`, `runTransactions`) or obtains by parsing. -/
def Producible (h : Header) : Prop :=
  h.transactions.isSome ∧ h.evictedTxs.isSome ∧ (∀ v, h.proveValue = some v → 0 ≤ v) ∧
  h.hash.length = 32 ∧ h.preHash.length = 32 ∧ h.txTree.length = 32 ∧ h.receiptTree.length = 32 ∧
  h.stateTree.length = 32 ∧ (∀ p ∈ h.transactions.getD [], p.1.length = 32 ∧ p.2.length = 32) ∧
  (∀ x ∈ h.evictedTxs.getD [], x.length = 32)

theorem map_fix {α : Type} (f : α → α) (l : List α) (h : ∀ x ∈ l, f x = x) : l.map f = l := by
  induction l with
  | nil => rfl
  | cons a l ih => simp [h a (by simp), ih (fun x hx => h x (by simp [hx]))]

theorem normHeader_of_producible (h : Header) (hp : Producible h) : normHeader h = h := by
  obtain ⟨h1, h2, h3, h4, h5, h6, h7, h8, h9, h10⟩ := hp
  cases h with
  | mk hash height preHash preTime proveValue totalQN curTime castor groupId signature nonce requestIds
       transactions txTree receiptTree stateTree extraData random evictedTxs =>
  simp only at h1 h2 h3 h4 h5 h6 h7 h8 h9 h10
  simp only [normHeader, bytesToHash_id _ h4, bytesToHash_id _ h5, bytesToHash_id _ h6, bytesToHash_id _ h7,
    bytesToHash_id _ h8]
  congr 1
  · cases proveValue with
    | none => rfl
    | some v => simp [Int.natAbs_of_nonneg (h3 v rfl)]
  · cases transactions with
    | none => simp at h1
    | some l =>
      simp only [Option.getD_some] at h9 ⊢
      congr 1
      exact map_fix _ l (fun p hp => by
        obtain ⟨a, b⟩ := h9 p hp
        simp [bytesToHash_id _ a, bytesToHash_id _ b])
  · cases evictedTxs with
    | none => simp at h2
    | some l =>
      simp only [Option.getD_some] at h10 ⊢
      congr 1
      exact map_fix _ l (fun x hx => bytesToHash_id _ (h10 x hx))

theorem producible_norm (h : Header) : Producible (normHeader h) := by
  refine ⟨rfl, rfl, ?_, bytesToHash_length _, bytesToHash_length _, bytesToHash_length _, bytesToHash_length _,
    bytesToHash_length _, ?_, ?_⟩
  · intro v hv
    simp only [normHeader] at hv
    cases hpv : h.proveValue with
    | none => simp [hpv] at hv
    | some w => simp [hpv] at hv; omega
  · intro p hp
    simp only [normHeader, Option.getD_some, List.mem_map] at hp
    obtain ⟨q, _, rfl⟩ := hp
    exact ⟨bytesToHash_length _, bytesToHash_length _⟩
  · intro x hx
    simp only [normHeader, Option.getD_some, List.mem_map] at hx
    obtain ⟨q, _, rfl⟩ := hx
    exact bytesToHash_length _

/-- The fixed-point law for arbitrary in-memory headers: one pass reaches a fixed point. -/
theorem normHeader_idem (h : Header) : normHeader (normHeader h) = normHeader h :=
  normHeader_of_producible _ (producible_norm h)

/-- hash_stable (headers): for producible headers the pass changes neither content nor hash input. -/
theorem header_hash_stable (h : Header) (hp : Producible h) :
    headerHashInput (normHeader h) = headerHashInput h := by
  rw [normHeader_of_producible h hp]

/-- Everything `MarshalBlockHeader` emits fits the 64-bit framing. -/
def HeaderFits (h : Header) : Prop := ∀ p, headerToPb h = some p → PbHeaderWF p

/-- Marshal then UnMarshal of any in-memory header yields `norm h` (never an error, never nil). -/
theorem header_roundtrip (h : Header) (ok : HeaderOK h) (fits : HeaderFits h) :
    ∃ b, marshalHeader h = some b ∧ unmarshalHeader b = .ok (normHeader h) := by
  obtain ⟨p, hp, hc⟩ := header_convert_roundtrip h ok
  refine ⟨encHeader p, by simp [marshalHeader, hp], ?_⟩
  simp only [unmarshalHeader, decHeader_encHeader p (fits p hp), hc]

/-- The property for headers: a producible header is stored, reloaded or relayed with the same
    content and therefore the same `GenHash`. -/
theorem header_lossless (h : Header) (ok : HeaderOK h) (fits : HeaderFits h) (hp : Producible h) :
    ∃ b, marshalHeader h = some b ∧ unmarshalHeader b = .ok h ∧
      ∀ h', unmarshalHeader b = .ok h' → headerGenHash h' = headerGenHash h := by
  obtain ⟨b, hb, hu⟩ := header_roundtrip h ok fits
  rw [normHeader_of_producible h hp] at hu
  exact ⟨b, hb, hu, fun h' hh => by rw [hu] at hh; cases hh; rfl⟩

/-- producible_of_parsed: whatever `PbToBlockHeader` returns is producible (so a header obtained by
    parsing is a fixed point of the next pass as soon as its times and RequestIds are carried). -/
theorem producible_of_parsed (p : PbHeader) (h : Header) (hh : pbToHeader p = .ok h) : Producible h := by
  simp only [pbToHeader, derefNat_safe 2 2 (by decide), derefNat_safe 2 11 (by decide),
    derefNat_safe 2 6 (by decide)] at hh
  cases hpt : binToTime (p.preTime.getD []) with
  | none => simp [hpt] at hh
  | some pt =>
    cases hct : binToTime (p.curTime.getD []) with
    | none => simp [hpt, hct] at hh
    | some ct =>
      simp only [hpt, hct, Outcome.ok.injEq] at hh
      subst hh
      refine ⟨rfl, rfl, ?_, bytesToHash_length _, bytesToHash_length _, bytesToHash_length _,
        bytesToHash_length _, bytesToHash_length _, ?_, ?_⟩
      · intro v hv
        cases hpv : p.proveValue with
        | none => simp [hpv] at hv
        | some w => simp [hpv] at hv; omega
      · intro q hq
        simp only [Option.getD_some, List.mem_map] at hq
        obtain ⟨t, _, rfl⟩ := hq
        exact ⟨bytesToHash_length _, bytesToHash_length _⟩
      · intro x hx
        simp only [Option.getD_some, List.mem_map] at hx
        obtain ⟨t, _, rfl⟩ := hx
        exact bytesToHash_length _

/-- prove_value_transport: leading zero bytes are dropped by the codec and by nothing else —
    the integer is carried exactly. -/
theorem prove_value_transport (v : Nat) (zeros : Nat) :
    beToNat (natToBE v) = v ∧ beToNat (List.replicate zeros 0 ++ natToBE v) = v := by
  refine ⟨beToNat_natToBE v, ?_⟩
  induction zeros with
  | zero => simpa using beToNat_natToBE v
  | succ n ih => rw [List.replicate_succ, List.cons_append, beToNat_zero_cons]; exact ih

end Rangers.Props.C09
