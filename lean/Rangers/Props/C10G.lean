import Rangers.Proofs.Evm10Mem
import Rangers.Model.Evm10Call
import Rangers.Model.Evm10Cache
import Rangers.Proofs.Evm10Bitmap
/-!
# C10, part 6 — model growth: the call-family memory-size functions

`memoryCall`, `memoryDelegateCall`, `memoryStaticCall`, `memoryAuthCall` (memory_table.go) take
the larger of the input window and the output window, and report overflow if either overflows.
Tied to the code by the T-corr stream `memsize` (the real functions through `vm.VerifC11MemSize`
against `memorySizeOf` on the same stacks) and by the generated table naming them.
-/
namespace Rangers.Props.C10
open Rangers Rangers.Model.Evm10 Rangers.Model.Evm10.U256 Rangers.Proofs.Evm10

/-- the window `[off, off+len)` is covered by `sz` (an empty window needs nothing) -/
def Covers (sz : Nat) (off len : Word) : Prop := lo64 len = 0 ∨ lo64 off + lo64 len ≤ sz

theorem calc_covers {off len : Word} {sz : Nat} (h : calcMemSize64 off len = (sz, false)) :
    Covers sz off len := by
  by_cases h0 : lo64 len = 0
  · exact Or.inl h0
  · exact Or.inr (by have := (calc_two h0 h).1; omega)

/-- STATICCALL / DELEGATECALL (stack: gas, addr, inOff, inSize, retOff, retSize): a non-overflowing
result covers BOTH windows and is exactly the size one of them needs. -/
theorem memoryStaticCall_spec (gas addr inOff inSize retOff retSize : Word) (rest : List Word)
    (sz : Nat)
    (h : memorySizeOf .memoryStaticCall (gas :: addr :: inOff :: inSize :: retOff :: retSize :: rest)
      = .size sz false) :
    Covers sz inOff inSize ∧ Covers sz retOff retSize ∧
    (sz = (calcMemSize64 retOff retSize).1 ∨ sz = (calcMemSize64 inOff inSize).1) := by
  simp only [memorySizeOf, List.getElem?_cons_succ, List.getElem?_cons_zero] at h
  -- x = output window (Back 4, Back 5), y = input window (Back 2, Back 3)
  cases hx : calcMemSize64 retOff retSize with
  | mk x xo =>
    cases hy : calcMemSize64 inOff inSize with
    | mk y yo =>
      simp only [hx, hy] at h
      cases xo <;> cases yo <;> simp at h
      by_cases hgt : x > y
      · simp [hgt] at h; subst h
        have c1 := calc_covers hx
        have c2 := calc_covers hy
        refine ⟨?_, c1, Or.inl rfl⟩
        rcases c2 with c | c
        · exact Or.inl c
        · exact Or.inr (by omega)
      · simp [hgt] at h; subst h
        have c1 := calc_covers hx
        have c2 := calc_covers hy
        refine ⟨c2, ?_, Or.inr rfl⟩
        rcases c1 with c | c
        · exact Or.inl c
        · exact Or.inr (by omega)

example : memorySizeOf .memoryStaticCall [0, 4, 0x20, 0x40, 0x100, 0x20] = .size 0x120 false := by rfl

/-- … and it reports overflow exactly when one of the two windows does. -/
theorem memoryStaticCall_overflow (gas addr inOff inSize retOff retSize : Word) (rest : List Word)
    (sz : Nat) :
    memorySizeOf .memoryStaticCall (gas :: addr :: inOff :: inSize :: retOff :: retSize :: rest)
      = .size sz true ↔
    (sz = 0 ∧ ((calcMemSize64 retOff retSize).2 = true ∨ (calcMemSize64 inOff inSize).2 = true)) := by
  simp only [memorySizeOf, List.getElem?_cons_succ, List.getElem?_cons_zero]
  cases hx : calcMemSize64 retOff retSize with
  | mk x xo =>
    cases hy : calcMemSize64 inOff inSize with
    | mk y yo =>
      cases xo <;> cases yo <;> simp <;> (try (split <;> simp)) <;> omega

example : memorySizeOf .memoryStaticCall [0, 4, 0x20, 0x40, (BitVec.allOnes 256), 0x20] = .size 0 true := by
  rfl

/-- CALL / CALLCODE (stack: gas, addr, value, inOff, inSize, retOff, retSize) -/
theorem memoryCall_spec (gas addr value inOff inSize retOff retSize : Word) (rest : List Word)
    (sz : Nat)
    (h : memorySizeOf .memoryCall (gas :: addr :: value :: inOff :: inSize :: retOff :: retSize :: rest)
      = .size sz false) :
    Covers sz inOff inSize ∧ Covers sz retOff retSize := by
  simp only [memorySizeOf, List.getElem?_cons_succ, List.getElem?_cons_zero] at h
  cases hx : calcMemSize64 retOff retSize with
  | mk x xo =>
    cases hy : calcMemSize64 inOff inSize with
    | mk y yo =>
      simp only [hx, hy] at h
      cases xo <;> cases yo <;> simp at h
      have c1 := calc_covers hx
      have c2 := calc_covers hy
      by_cases hgt : x > y
      · simp [hgt] at h; subst h
        refine ⟨?_, c1⟩
        rcases c2 with c | c
        · exact Or.inl c
        · exact Or.inr (by omega)
      · simp [hgt] at h; subst h
        refine ⟨c2, ?_⟩
        rcases c1 with c | c
        · exact Or.inl c
        · exact Or.inr (by omega)

example : memorySizeOf .memoryCall [0, 4, 0, 0x20, 0x40, 0x100, 0x20] = .size 0x120 false := by rfl

/-- the delegate-call variant is the same function of the same stack positions -/
theorem memoryDelegateCall_eq (st : List Word) :
    memorySizeOf .memoryDelegateCall st = memorySizeOf .memoryStaticCall st := by
  simp [memorySizeOf]


/-! ## CALL / STATICCALL to the identity precompile 0x04: memory and return data

`identityCall` (Model/Evm10Call.lean) follows the code including the aliasing of the returned slice
with caller memory.  Tied by the T-corr stream `idcall` (real EVM: load memory, STATICCALL 0x04,
observe memory and RETURNDATACOPY) against the model on the same windows. -/

/-- general content law of `Memory.Set` : the first `min size len(value)` bytes of the range
receive `value`, everything else is unchanged -/
theorem memSet_getD (m m' v : Bytes) (off size : Nat) (h : Mem.set m off size v = some m') (j : Nat) :
    m'.getD j 0 = if off ≤ j ∧ j < off + min size v.length then v.getD (j - off) 0 else m.getD j 0 := by
  by_cases hs : size = 0
  · subst hs
    rw [set_zero] at h
    have : m' = m := by simpa using h.symm
    rw [this]
    have : ¬ (off ≤ j ∧ j < off + min 0 v.length) := by simp
    rw [if_neg this]
  · obtain ⟨e, hb⟩ := set_eq_splice h hs
    have hlen : (v.take size).length = min size v.length := by simp
    rw [e, splice_getD _ _ _ (by rw [hlen]; omega), hlen]
    by_cases hin : off ≤ j ∧ j < off + min size v.length
    · rw [if_pos hin, if_pos hin]
      simp only [List.getD_eq_getElem?_getD, List.getElem?_take]
      have : j - off < size := by omega
      simp [this]
    · rw [if_neg hin, if_neg hin]

/-- **Memory after the call is as the specification says** (full strength): the output window
receives the first `min retSize inSize` input bytes as they were BEFORE the call, also when the
windows overlap; nothing else changes. -/
theorem identityCall_memory_spec (m m' rd : Bytes) (inOff inSize retOff retSize : Nat)
    (hin : inSize = 0 ∨ inOff + inSize ≤ m.length)
    (h : identityCall m inOff inSize retOff retSize = some (m', rd)) :
    m'.length = m.length ∧
    ∀ j, m'.getD j 0 =
      if retOff ≤ j ∧ j < retOff + min retSize inSize then m.getD (inOff + (j - retOff)) 0
      else m.getD j 0 := by
  unfold identityCall at h
  cases ha : Mem.getPtr m inOff inSize with
  | none => simp [ha] at h
  | some args =>
    simp only [ha] at h
    cases hs : Mem.set m retOff retSize args with
    | none => simp [hs] at h
    | some m1 =>
      simp only [hs] at h
      cases hr : Mem.getPtr m1 inOff inSize with
      | none => simp [hr] at h
      | some rd1 =>
        simp only [hr, Option.some.injEq, Prod.mk.injEq] at h
        obtain ⟨e1, _⟩ := h
        subst e1
        refine ⟨memSet_length hs, ?_⟩
        intro j
        rw [memSet_getD m m1 args retOff retSize hs j]
        -- args is the input window
        have hargs : args = if inSize = 0 then [] else (m.drop inOff).take inSize := by
          unfold Mem.getPtr at ha
          by_cases h0 : inSize = 0
          · simp [h0] at ha ⊢; exact ha
          · have hb : inOff + inSize ≤ m.length := by omega
            have hc : m.length > inOff := by omega
            simp [h0, hb, hc] at ha ⊢; exact ha.symm
        by_cases h0 : inSize = 0
        · have hneg : ¬ (retOff ≤ j ∧ j < retOff + min retSize inSize) := by rw [h0]; simp
          have hneg' : ¬ (retOff ≤ j ∧ j < retOff + min retSize args.length) := by
            rw [hargs]; simp [h0]
          rw [if_neg hneg, if_neg hneg']
        · have hb : inOff + inSize ≤ m.length := by omega
          have hl : args.length = inSize := by rw [hargs]; simp [h0]; omega
          rw [hl]
          by_cases hj : retOff ≤ j ∧ j < retOff + min retSize inSize
          · rw [if_pos hj, if_pos hj, hargs]
            simp only [h0, if_false]
            rw [getD_take_drop]
            have : j - retOff < inSize := by omega
            rw [if_pos this]
          · rw [if_neg hj, if_neg hj]

/-- Full statement for the return data: it is the input that was sent. -/
def FullStatementIdentityReturnData : Prop :=
  ∀ (m m' rd : Bytes) (inOff inSize retOff retSize : Nat),
    identityCall m inOff inSize retOff retSize = some (m', rd) →
    some rd = Mem.getPtr m inOff inSize

/-- **Proved part**: whenever the write-back cannot touch the input window — nothing written
(`retSize = 0` or empty input), or the written range `[retOff, retOff + min retSize inSize)` disjoint
from `[inOff, inOff + inSize)` — the return data is exactly the input sent. -/
theorem identityCall_returndata_partial (m m' rd : Bytes) (inOff inSize retOff retSize : Nat)
    (hin : inSize = 0 ∨ inOff + inSize ≤ m.length)
    (hsafe : retSize = 0 ∨ inSize = 0 ∨ retOff + min retSize inSize ≤ inOff ∨ inOff + inSize ≤ retOff)
    (h : identityCall m inOff inSize retOff retSize = some (m', rd)) :
    some rd = Mem.getPtr m inOff inSize := by
  obtain ⟨hlen, hget⟩ := identityCall_memory_spec m m' rd inOff inSize retOff retSize hin h
  unfold identityCall at h
  cases ha : Mem.getPtr m inOff inSize with
  | none => simp [ha] at h
  | some args =>
    simp only [ha] at h
    cases hs : Mem.set m retOff retSize args with
    | none => simp [hs] at h
    | some m1 =>
      simp only [hs] at h
      cases hr : Mem.getPtr m1 inOff inSize with
      | none => simp [hr] at h
      | some rd1 =>
        simp only [hr, Option.some.injEq, Prod.mk.injEq] at h
        obtain ⟨e1, e2⟩ := h
        subst e1 e2
        by_cases h0 : inSize = 0
        · simp [Mem.getPtr, h0] at ha hr; rw [ha, hr]
        · have hb : inOff + inSize ≤ m.length := by omega
          have hb1 : inOff + inSize ≤ m1.length := by omega
          have hc : m.length > inOff := by omega
          have hc1 : m1.length > inOff := by omega
          simp only [Mem.getPtr, h0, if_false, hc, hc1, if_true, hb, hb1, Option.some.injEq] at ha hr
          rw [← ha, ← hr]
          congr 1
          apply beToNat_eq_of_getD
          · simp; omega
          · intro i
            rw [getD_take_drop, getD_take_drop]
            by_cases hi : i < inSize
            · rw [if_pos hi, if_pos hi, hget]
              have : ¬ (retOff ≤ inOff + i ∧ inOff + i < retOff + min retSize inSize) := by omega
              rw [if_neg this]
            · rw [if_neg hi, if_neg hi]

set_option maxRecDepth 4000 in
example : identityCall (List.replicate 96 7) 0 32 64 32 ≠ none := by decide

set_option maxRecDepth 8000 in
/-- **The full statement is false of model and code** (known finding
`returndata-alias-identity-overlap`): 64 bytes of memory `01..20 00..00`, input window `[0,32)`,
output window `[16,48)` — the return data is `01..10 01..10`, not the `01..20` that was sent.  The
same witness on the real EVM: corpus/C10/precompile.srch, first line. -/
theorem identityCall_returndata_counterexample : ¬ FullStatementIdentityReturnData := by
  intro hfull
  have := hfull
    ([1,2,3,4,5,6,7,8,9,10,11,12,13,14,15,16,17,18,19,20,21,22,23,24,25,26,27,28,29,30,31,32] ++ List.replicate 32 0)
    ([1,2,3,4,5,6,7,8,9,10,11,12,13,14,15,16,1,2,3,4,5,6,7,8,9,10,11,12,13,14,15,16,17,18,19,20,21,22,23,24,25,26,27,28,29,30,31,32] ++ List.replicate 16 0)
    [1,2,3,4,5,6,7,8,9,10,11,12,13,14,15,16,1,2,3,4,5,6,7,8,9,10,11,12,13,14,15,16]
    0 32 16 32 (by decide)
  revert this
  decide


/-! ## `Contract.isCode` with its caches (T-corr stream `jd` through hook `VerifJdSession`) -/

/-- the caches say the truth about THIS contract: its own `analysis`, and the shared entry under
its hash, are the bitmap of its code (what a collision-free code hash guarantees) -/
def Coherent (c : JContract) (jd : JMap) : Prop :=
  (∀ a, c.analysis = some a → a = Bitvec.codeBitmap c.code) ∧
  (∀ h a, c.codeHash = some h → jd.find h = some a → a = Bitvec.codeBitmap c.code)

/-- **With coherent caches `isCode` answers exactly "not PUSH data"**, whichever of its three
branches runs, and leaves the caches coherent. -/
theorem isCode_exact (c : JContract) (jd : JMap) (u : Nat) (hc : Coherent c jd) :
    ((isCodeJ c jd u).1 = true ↔ ¬ InPushData c.code u) ∧
    Coherent (isCodeJ c jd u).2.1 (isCodeJ c jd u).2.2 ∧ (isCodeJ c jd u).2.1.code = c.code := by
  obtain ⟨h1, h2⟩ := hc
  cases ha : c.analysis with
  | some a =>
    have e : isCodeJ c jd u = (Bitvec.codeSegment a u, c, jd) := by simp [isCodeJ, ha]
    have := h1 a ha
    subst this
    rw [e]
    exact ⟨codeSegment_codeBitmap c.code u, ⟨fun a' h' => h1 a' h', h2⟩, rfl⟩
  | none =>
    cases hh : c.codeHash with
    | some h =>
      cases hf : jd.find h with
      | some a =>
        have e : isCodeJ c jd u = (Bitvec.codeSegment a u, { c with analysis := some a }, jd) := by
          simp [isCodeJ, ha, hh, hf]
        have := h2 h a hh hf
        subst this
        rw [e]
        refine ⟨codeSegment_codeBitmap c.code u, ⟨?_, ?_⟩, rfl⟩
        · intro a' h'; simp at h'; exact h'.symm
        · intro h' a' e1 e2; exact h2 h' a' e1 e2
      | none =>
        have e : isCodeJ c jd u = (Bitvec.codeSegment (Bitvec.codeBitmap c.code) u,
            { c with analysis := some (Bitvec.codeBitmap c.code) }, (h, Bitvec.codeBitmap c.code) :: jd) := by
          simp [isCodeJ, ha, hh, hf]
        rw [e]
        refine ⟨codeSegment_codeBitmap c.code u, ⟨?_, ?_⟩, rfl⟩
        · intro a' h'; simp at h'; exact h'.symm
        · intro h' a' e1 e2
          have e1' : c.codeHash = some h' := e1
          rw [hh] at e1'
          have : h = h' := by simpa using e1'
          subst this
          simp [JMap.find] at e2
          exact e2.symm
    | none =>
      have e : isCodeJ c jd u = (Bitvec.codeSegment (Bitvec.codeBitmap c.code) u,
          { c with analysis := some (Bitvec.codeBitmap c.code) }, jd) := by
        simp [isCodeJ, ha, hh]
      rw [e]
      refine ⟨codeSegment_codeBitmap c.code u, ⟨?_, ?_⟩, rfl⟩
      · intro a' h'; simp at h'; exact h'.symm
      · intro h' a' e1 _
        have e1' : c.codeHash = some h' := e1
        rw [hh] at e1'; simp at e1'

example : Coherent ⟨[0x60, 0x5b, 0x5b], some [1], none⟩ [] :=
  ⟨fun _ h => by simp at h, fun _ _ _ h => by simp [JMap.find] at h⟩

/-- **Hash-less init code never writes the shared map** (each piece of CREATE init code gets its
own analysis): the map after the call is the map before. -/
theorem isCode_hashless_private (c : JContract) (jd : JMap) (u : Nat) (h : c.codeHash = none) :
    (isCodeJ c jd u).2.2 = jd := by
  unfold isCodeJ
  cases c.analysis <;> simp [h]

/-- … and a hashed contract changes at most the entry of its own hash. -/
theorem isCode_other_entries_kept (c : JContract) (jd : JMap) (u : Nat) (h' : Bytes)
    (hne : c.codeHash ≠ some h') : (isCodeJ c jd u).2.2.find h' = jd.find h' := by
  cases ha : c.analysis with
  | some a => simp [isCodeJ, ha]
  | none =>
    cases hh : c.codeHash with
    | none => simp [isCodeJ, ha, hh]
    | some h =>
      cases hf : jd.find h with
      | some a => simp [isCodeJ, ha, hh, hf]
      | none =>
        have : ¬ (h == h') = true := by
          intro e; apply hne; rw [hh]; congr 1; simpa using e
        simp [isCodeJ, ha, hh, hf, JMap.find, this]

/-- `validJumpdest` through the caches: inside the code, a 0x5b byte, not PUSH data. -/
theorem validJumpdestJ_iff (c : JContract) (jd : JMap) (dest : Word) (hc : Coherent c jd)
    (hl : c.code.length < 2 ^ 64) :
    (validJumpdestJ c jd dest).1 = true ↔
      dest.toNat < c.code.length ∧ c.code.getD dest.toNat 0 = 0x5b ∧ ¬ InPushData c.code dest.toNat := by
  unfold validJumpdestJ
  by_cases hu : isUint64 dest = true
  · have hlo : lo64 dest = dest.toNat := lo64_of_isUint64 dest hu
    simp only [hu, hlo, Bool.not_true, Bool.false_or, decide_eq_true_eq]
    by_cases hlt : dest.toNat < c.code.length
    · have : ¬ dest.toNat ≥ c.code.length := by omega
      simp only [this, if_false, hlt, true_and]
      by_cases h5 : c.code.getD dest.toNat 0 = 0x5b
      · simp only [h5, bne_self_eq_false, Bool.false_eq_true, if_false, true_and]
        exact (isCode_exact c jd dest.toNat hc).1
      · have : (c.code.getD dest.toNat 0 != 0x5b) = true := by rw [bne_iff_ne]; exact h5
        simp only [this, if_true, Bool.false_eq_true, false_iff]
        intro h; exact h5 h.1
    · have : dest.toNat ≥ c.code.length := by omega
      simp [this, hlt]
  · have hge : ¬ dest.toNat < 2 ^ 64 := by simpa [isUint64] using hu
    have : ¬ dest.toNat < c.code.length := by omega
    simp [hu, this]

end Rangers.Props.C10
