import Rangers.Model.Bls14Pairing
import Rangers.Props.C14
/-!
# C14, part 8 — the pairing inside the model

`Model/Bls14Pairing.lean` is an executable transcription of the optimal-ate pairing of `bn256`
(tower, line functions, Miller loop, final exponentiation), tied to the code layer by layer by the
correspondence run (`pair`, `miller`, `gtmul`, `gtexp`, `gtconj`, `gtfin`, `verifyp`). With it
`VerifySig` is modelled with NO oracle field (`verifyBytesFull`).

General bilinearity / non-degeneracy of this function is NOT proved (it stays the hypothesis of
`Props/C14U`). What is proved here: the decision theorems specialised to the model's own pairing,
and — by kernel evaluation of the model, so each is a statement about ONE concrete input, labelled
`_instance` — that at the generators the pairing is non-trivial, has order dividing `r`, is
bilinear for the scalars 2 and 5 on either side, and that the full BLS verification accepts the
honest signature for `sk = 5` and rejects its negation and the signature of another key.
-/
namespace Rangers.Props.C14
open Rangers Rangers.Model.Bls14

/-- Acceptance of the fully modelled `VerifySig`: exactly when both values are present, the
    signature point is on the curve and the two modelled pairings marshal to the same bytes. -/
theorem verify_full_accept_iff (hm : Pt) (pub : Pub) (sig : Sig) :
    verifySig pairEqModel hm pub sig = .accept ↔
      ∃ s k, sig = .pt s ∧ pub = .pt k ∧ s.onCurve = true ∧
        (pair s g2Gen).marshal = (pair hm k).marshal := by
  rw [verify_accept_iff]
  simp [pairEqModel]

/-- `Pair` with the identity on either side is the unit of GT (the `SetOne` exit of `optimalAte`). -/
theorem pair_identity (p : Pt) (q : Pt2) : pair .inf q = F12.one ∧ pair p .inf = F12.one := by
  constructor
  · rfl
  · cases p <;> rfl

/-- Consequence: under the identity public key the identity signature is accepted for every
    message point (the zero-key behaviour recorded in design/C14.md §6), in the full model. -/
theorem zero_key_accepts_identity (hm : Pt) :
    verifySig pairEqModel hm (.pt .inf) (.pt .inf) = .accept := by
  rw [verify_full_accept_iff]
  exact ⟨.inf, .inf, rfl, rfl, rfl, by rw [(pair_identity hm g2Gen).1, (pair_identity hm .inf).2]⟩

set_option maxRecDepth 100000 in
/-- Instance (kernel-evaluated): `e(g₁, g₂) ≠ 1`. -/
theorem pairing_nondegenerate_instance : pair g1Gen g2Gen ≠ F12.one := by decide +kernel

set_option maxRecDepth 100000 in
/-- Instance: `e(g₁, g₂)` has order dividing the group order `r`. -/
theorem pairing_order_instance : ((pair g1Gen g2Gen).exp R).marshal = F12.one.marshal := by
  decide +kernel

set_option maxRecDepth 100000 in
/-- Instance: `e(2g₁, g₂) = e(g₁, g₂)² = e(g₁, 2g₂)` (compared as `PairIsEuqal` does, on the
    marshalled bytes). -/
theorem pairing_bilinear_instance :
    (pair (Pt.mul g1Gen 2) g2Gen).marshal = (pair g1Gen g2Gen).sq.marshal ∧
    (pair g1Gen (Pt2.mul g2Gen 2)).marshal = (pair g1Gen g2Gen).sq.marshal := by decide +kernel

set_option maxRecDepth 100000 in
/-- Instance: the whole BLS check inside the kernel for `sk = 5`, message point `g₁`: the honest
    signature `5·g₁` is accepted under `pk = 5·g₂`; its negation, the identity, and the signature of
    the key 6 are rejected. -/
theorem bls_verify_instance :
    verifySig pairEqModel g1Gen (.pt (Pt2.mul g2Gen 5)) (.pt (Pt.mul g1Gen 5)) = .accept ∧
    verifySig pairEqModel g1Gen (.pt (Pt2.mul g2Gen 5)) (.pt (Pt.mul g1Gen 5).neg) = .reject ∧
    verifySig pairEqModel g1Gen (.pt (Pt2.mul g2Gen 5)) (.pt .inf) = .reject ∧
    verifySig pairEqModel g1Gen (.pt (Pt2.mul g2Gen 5)) (.pt (Pt.mul g1Gen 6)) = .reject := by
  decide +kernel

end Rangers.Props.C14
