import Mathlib.Data.ZMod.Basic
import Rangers.Model.Vrf
import Rangers.Proofs.C16Bytes
import Rangers.Proofs.C16Vrf
/-!
Property C16, part 1: proof framing, header transport, completeness, determinism,
malleability and output (non-)uniqueness of the VRF.

The theorems are about `Model.Vrf.proveWith` / `verifyWith` — the functions the
driver executes at `ed25519Ops` — for EVERY interface `o` satisfying `Lawful o`
(group laws; for the concrete curve that is the trusted base, see design/C16.md).
-/
namespace Rangers.Props.C16
open Rangers Rangers.Model Rangers.Model.Vrf Rangers.Proofs.C16Bytes Rangers.Proofs.C16Vrf

/-! ### header transport -/

/-- An 80-byte proof stored as the header's big integer and read back
    (`ProveValue.Bytes()`, which drops leading zero bytes) is restored exactly by
    `tryZeroPadding`. -/
theorem transport_roundtrip (pi : Bytes) (h : pi.length = proveSize) :
    tryZeroPadding (ofBig (toBig pi)) = pi := by
  unfold ofBig toBig
  rw [natToBE_beToNat]
  exact pad_strip pi h

/-- non-vacuity: transport really shortens a proof that starts with zero bytes -/
example : (ofBig (toBig (0 :: 0 :: List.replicate 78 7))).length = 78 := by
  unfold ofBig toBig; rw [natToBE_beToNat]; decide

/-- Verification of the transported proof is verification of the original proof. -/
theorem transport_verify {P : Type} (o : Ops P) (pk pi m : Bytes) (h : pi.length = proveSize) :
    verifyWith o pk (ofBig (toBig pi)) m = verifyWith o pk pi m := by
  rw [verifyWith_eq_parts, verifyWith_eq_parts o pk pi, transport_roundtrip pi h,
    pad_of_len_ge pi (by omega)]

/-- `verifyBlockVRF`'s VRF step on the header value equals `ECVRFVerify` on the proposer's proof. -/
theorem header_verify_eq (pk pi m : Bytes) (h : pi.length = proveSize) :
    verifyHeader pk (toBig pi) m = verify pk pi m :=
  transport_verify ed25519Ops pk pi m h

/-- The lottery output survives transport: both the qualification rule
    (`outputOf`) and `VRFProve2Value` (after the fix) read `pi[:32]` of the original proof. -/
theorem output_survives_transport (pi : Bytes) (h : pi.length = proveSize) :
    outputOf (ofBig (toBig pi)) = pi.take 32 ∧
    prove2Value (toBig pi) = some (beToNat (pi.take 32)) := by
  have hl : ¬ pi.length < 32 := by simp [proveSize] at h; omega
  constructor
  · unfold outputOf; rw [transport_roundtrip pi h]
  · unfold prove2Value proof2Hash
    rw [transport_roundtrip pi h]
    simp [hl]

/-- The behaviour before the `fix:` commit (no padding in `VRFProve2Value`) gave a
    different value for a proof with a leading zero byte. -/
theorem prove2Value_unpadded_differs :
    ∃ pi : Bytes, pi.length = proveSize ∧
      prove2ValueUnpadded (toBig pi) ≠ some (beToNat (pi.take 32)) :=
  ⟨0 :: List.replicate 79 1, by decide, by
    unfold prove2ValueUnpadded ofBig toBig; rw [natToBE_beToNat]; decide⟩

/-- The slicing of `decodeProof` can never go out of range: every caller pads first. -/
theorem verify_slices_total (pi : Bytes) : slices (tryZeroPadding pi) ≠ none := by
  rw [slices_of_len (pad_length_ge pi)]; simp

/-- The framing loses nothing: two 80-byte proofs with the same three slices are equal
    (no bit of the proof is ignored by `decodeProof`). -/
theorem slices_injective (p q : Bytes) (hp : p.length = proveSize) (hq : q.length = proveSize)
    (h : slices p = slices q) : p = q := by
  have h80 : proveSize = 80 := rfl
  rw [slices_of_len (by omega), slices_of_len (by omega)] at h
  simp only [Option.some.injEq, Prod.mk.injEq] at h
  obtain ⟨h1, h2, h3⟩ := h
  have e : ∀ r : Bytes, r.length = 80 →
      r = r.take 32 ++ ((r.drop 32).take 16 ++ (r.drop 48).take 32) := by
    intro r hr
    have h48 : r.drop 48 = (r.drop 32).drop 16 := by rw [List.drop_drop]
    have hl : (r.drop 48).length = 32 := by simp [hr]
    calc r = r.take 32 ++ r.drop 32 := (List.take_append_drop 32 r).symm
      _ = r.take 32 ++ ((r.drop 32).take 16 ++ (r.drop 32).drop 16) := by
        rw [List.take_append_drop 16 (r.drop 32)]
      _ = r.take 32 ++ ((r.drop 32).take 16 ++ (r.drop 48).take 32) := by
        have ht : (r.drop 48).take 32 = r.drop 48 := List.take_of_length_le (by omega)
        rw [ht, h48]
  rw [e p (by omega), e q (by omega), h1, h2, h3]

/-! ### completeness and determinism -/

/-- Completeness: an honestly generated proof verifies under the matching public
    key for that message (algebra: `U = sB − cY = kB`, `V = sH − cΓ = kH`). -/
theorem prove_verifies {P : Type} [AddCommGroup P] (o : Ops P) (law : Lawful o) (sk m pi : Bytes)
    (hpk : sk.drop 32 = o.encode (o.smulBase (o.expandSecret sk).1))
    (h : proveWith o sk m = .ok pi) :
    verifyWith o (sk.drop 32) pi m = .ok true := by
  unfold proveWith at h
  split at h
  · cases h
  · rename_i hlen
    have hlen : sk.length = 64 := by simpa using hlen
    have hd : o.decodeStrict (sk.drop 32) = some (o.smulBase (o.expandSecret sk).1) := by
      rw [hpk]; exact law.decode_encode _
    simp only [hd] at h
    injection h with h
    subst h
    have hpl : (sk.drop 32).length = 32 := by simp [hlen]
    have key := verifyParts_shifted o law (sk.drop 32) m (o.expandSecret sk).1
      (o.nonce (o.expandSecret sk).2 (o.hashToCurve m (sk.drop 32))) 0 hpl hpk (by simp)
    simp only [add_zero] at key
    have happ := verifyWith_append o (sk.drop 32) m
      (o.encode (o.smul (o.expandSecret sk).1 (hPt o m (sk.drop 32))))
      (chal o m (sk.drop 32) (o.smul (o.expandSecret sk).1 (hPt o m (sk.drop 32)))
        (o.nonce (o.expandSecret sk).2 (o.hashToCurve m (sk.drop 32))))
      (respond o (chal o m (sk.drop 32) (o.smul (o.expandSecret sk).1 (hPt o m (sk.drop 32)))
        (o.nonce (o.expandSecret sk).2 (o.hashToCurve m (sk.drop 32)))) (o.expandSecret sk).1
        (o.nonce (o.expandSecret sk).2 (o.hashToCurve m (sk.drop 32)))) []
      (law.encode_len _) (law.hash_len _ _ _ _) (natToLE_length _ _)
    rw [List.append_nil] at happ
    rw [← key, ← happ]
    rfl

/-- … and still verifies after being carried as the header's big integer. -/
theorem prove_verifies_after_transport {P : Type} [AddCommGroup P] (o : Ops P) (law : Lawful o)
    (sk m pi : Bytes)
    (hpk : sk.drop 32 = o.encode (o.smulBase (o.expandSecret sk).1))
    (h : proveWith o sk m = .ok pi) :
    verifyWith o (sk.drop 32) (ofBig (toBig pi)) m = .ok true := by
  have hlen : pi.length = proveSize := by
    unfold proveWith at h
    split at h
    · cases h
    · simp only [] at h
      split at h
      · cases h
      · injection h with h
        subst h
        simp [law.encode_len, law.hash_len, natLE, natToLE_length, proveSize]
  rw [transport_verify o _ pi m hlen]
  exact prove_verifies o law sk m pi hpk h

/-- Proof generation is a function of `(sk, m)` only: there is no other input
    (no randomness, no state) in `ECVRFProve`. -/
theorem prove_deterministic {P : Type} (o : Ops P) (sk m pi pi' : Bytes)
    (h : proveWith o sk m = .ok pi) (h' : proveWith o sk m = .ok pi') : pi = pi' := by
  rw [h] at h'; injection h'

end Rangers.Props.C16
