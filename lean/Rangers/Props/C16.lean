import Rangers.Model.Vrf
namespace Rangers.Props.C16
theorem placeholder : Rangers.Model.Vrf.proveSize = 80 := rfl
end Rangers.Props.C16
