import Rangers.Model.Evm11Interp
import Rangers.Generated.Evm11Tables
/-!
# C11 — EVM execution is total and resource-bounded: facts about the generated tables (T-gen)

Every theorem here is about `Rangers.Evm11.Gen.*`, which `gen/cmd/c11facts`
rewrites from the go-rangers working tree on every run (live jump table of all 8
fork combinations, gas constants, source skeleton of the memory-size and gas
functions).  A new opcode, a re-pointed function, a changed constant or stack
bound, a re-ordered `stack.Back(n)` breaks one of these obligations.
The behavioural theorems (termination, gas, stack, memory, depth) are in
`Props/C11B.lean`; they take these facts as their only knowledge of the table.
-/
namespace Rangers.Props.C11
open Rangers.Evm11

/-- the constants the transcription in `Model/Evm11Gas.lean`, `Evm11Interp.lean` uses -/
def expectedConstants : List (String × Nat) := [
  ("StackLimit", 1024), ("CallCreateDepth", 1024), ("MemoryGas", 3), ("QuadCoeffDiv", 512),
  ("CopyGas", 3), ("Sha3WordGas", 6), ("LogGas", 375), ("LogTopicGas", 375), ("LogDataGas", 8),
  ("ExpGas", 10), ("ExpByteFrontier", 10), ("ExpByteEIP158", 50),
  ("CallValueTransferGas", 9000), ("CallNewAccountGas", 25000), ("CallStipend", 2300),
  ("SstoreSetGas", 20000), ("SstoreSetGasEIP2200", 20000),
  ("SelfdestructGasEIP150", 5000), ("CreateBySelfdestructGas", 25000), ("SelfdestructRefundGas", 24000),
  ("CreateDataGas", 200), ("MaxCodeSize", 245760),
  ("ColdAccountAccessCostEIP2929", 2600), ("WarmStorageReadCostEIP2929", 100),
  ("AuthCallValueTransferGas", 6700), ("GasMagnification", 30)]

/-- the gas and limit constants of the source are the ones the model was transcribed with -/
theorem constants_match : Gen.constants = expectedConstants := rfl

def expectedSkeleton : List (String × List String) := [
  ("Run.loopOrder", ["abort-poll", "getop", "lookup", "nil->invalid-opcode", "stack-validation", "read-only", "cost=constantGas", "use-constant-gas", "memory-size", "dynamic-gas", "resize", "execute", "set-return-data", "err/reverts/halts/pc++"]),
  ("Run.readOnlyCheck", ["if $in.readOnly", "if operation.writes || (op == CALL && stack.Back(2).Sign() != 0)", "return nil, nil, ErrWriteProtection"]),
  ("Run.readOnlyEntry", ["if $ro && !$in.readOnly", "$in.readOnly = true", "defer $in.readOnly = false"]),
  ("analysis.codeBitmap", ["bits := make(bitvec, len(code)/8+1+4)", "for pc < uint64(len(code))", "pc := uint64(0)", "op := OpCode(code[pc])", "if op >= PUSH1 && op <= PUSH32", "numbits := op - PUSH1 + 1", "for numbits >= 8", "numbits -= 8", "pc += 8", "for numbits > 0"]),
  ("authCallGas", []),
  ("callGas", []),
  ("contract.AsDelegate", ["parent := $c.caller.(*Contract)", "$c.CallerAddress = parent.CallerAddress", "$c.value = parent.value", "return c"]),
  ("contract.GetByte", ["if n < uint64(len($c.Code))", "return $c.Code[n]", "return 0"]),
  ("contract.GetOp", ["return OpCode($c.GetByte(n))"]),
  ("contract.UseGas", ["if $c.Gas < gas", "return false", "$c.Gas -= gas", "return true"]),
  ("contract.isCode", ["if $c.analysis != nil", "return $c.analysis.codeSegment(udest)", "if $c.CodeHash != (common.Hash{})", "analysis, exist := $c.jumpdests[$c.CodeHash]", "if !exist", "analysis = codeBitmap($c.Code)", "$c.jumpdests[$c.CodeHash] = analysis", "$c.analysis = analysis", "return analysis.codeSegment(udest)", "if $c.analysis == nil", "$c.analysis = codeBitmap($c.Code)", "return $c.analysis.codeSegment(udest)"]),
  ("contract.validJumpdest", ["udest, overflow := dest.Uint64WithOverflow()", "if overflow || udest >= uint64(len($c.Code))", "return false", "if OpCode($c.Code[udest]) != JUMPDEST", "return false", "return $c.isCode(udest)"]),
  ("executor.Execute", ["gasLimit := contractRawData.GasLimit", "if common.IsProposal015()", "if contractRawData.GasLimit < intrinsicGas", "vmCtx.GasLimit = defaultGasLimit", "gasLimitTemp := gasLimit", "if common.IsProposal015()", "if common.IsProposal017() && gasLimit > p017defaultGasLimit", "gasLimit = p017defaultGasLimit", "if common.IsProposal026()", "gasLimit = gasLimitTemp", "if gasLimit > p026defaultGasLimit", "gasLimit = p026defaultGasLimit", "vmCtx.GasLimit = gasLimit - intrinsicGas", "result, contractAddress, leftOverGas, logs, err = vmInstance.Create(caller, input, vmCtx.GasLimit, transferValue)", "if common.IsProposal007()", "result, leftOverGas, logs, err = vmInstance.Call(caller, contractAddress, input, vmCtx.GasLimit, transferValue)", "if common.IsProposal015()", "gasUsed := gasLimit - leftOverGas"]),
  ("executor.IntrinsicGas", ["if contractCreation", "gas = vm.TxGasContractCreation", "gas = vm.TxGas", "if len(data) > 0", "if byt != 0", "if (math.MaxUint64-gas)/nonZeroGas < nz", "return 0, vm.ErrGasUintOverflow", "gas += nz * nonZeroGas", "if (math.MaxUint64-gas)/vm.TxDataZeroGas < z", "return 0, vm.ErrGasUintOverflow", "gas += z * vm.TxDataZeroGas", "if common.IsProposal026()", "return gas * common.GasMagnification, nil", "return gas, nil"]),
  ("executor.gasConstants", ["defaultGasLimit=6000000", "p017defaultGasLimit=30000000", "p026defaultGasLimit=900000000"]),
  ("flags.Call", []),
  ("flags.NewEVMInterpreter", ["Proposal014Block", "Proposal022Block", "Proposal026Block"]),
  ("flags.RunPrecompiledContract", []),
  ("flags.create", ["common.IsSub", "common.IsProposal006", "common.IsProposal007", "common.IsProposal026"]),
  ("frame.AuthCall", ["NewContract(caller, AccountRef(addrCopy), value, gas)", "contract.SetCallCode(&addrCopy, GetCodeHash(addrCopy), code)", "run(evm, contract, input, false)"]),
  ("frame.Call", ["NewContract(caller, AccountRef(addrCopy), value, gas)", "contract.SetCallCode(&addrCopy, GetCodeHash(addrCopy), code)", "run(evm, contract, input, false)"]),
  ("frame.CallCode", ["NewContract(caller, AccountRef(caller.Address()), value, gas)", "contract.SetCallCode(&addrCopy, GetCodeHash(addrCopy), GetCode(addrCopy))", "run(evm, contract, input, false)"]),
  ("frame.DelegateCall", ["AsDelegate", "NewContract(caller, AccountRef(caller.Address()), nil, gas)", "contract.SetCallCode(&addrCopy, GetCodeHash(addrCopy), GetCode(addrCopy))", "run(evm, contract, input, false)"]),
  ("frame.StaticCall", ["NewContract(caller, AccountRef(addrCopy), new(big.Int), gas)", "contract.SetCallCode(&addrCopy, GetCodeHash(addrCopy), GetCode(addrCopy))", "run(evm, contract, input, true)"]),
  ("frame.create", ["NewContract(caller, AccountRef(address), value, gas)", "contract.SetCodeOptionalHash(&address, codeAndHash)", "run(evm, contract, nil, false)"]),
  ("gasAuthCall", ["B3", "B2", "memoryGasCost", "SafeAdd", "authCallGas", "B1", "SafeAdd"]),
  ("gasCall", ["B2", "B1", "memoryGasCost", "SafeAdd", "callGas", "B0", "SafeAdd"]),
  ("gasCallCode", ["memoryGasCost", "B2", "SafeAdd", "callGas", "B0", "SafeAdd"]),
  ("gasCreate2", ["memoryGasCost", "B2", "SafeMul,Sha3WordGas", "toWordSize", "SafeAdd", "IsProposal026", "SafeMul,GasMagnification"]),
  ("gasDelegateCall", ["memoryGasCost", "callGas", "B0", "SafeAdd"]),
  ("gasExpEIP158", ["SafeAdd,ExpGas", "IsProposal026", "rawmul:GasMagnification"]),
  ("gasExpFrontier", ["SafeAdd,ExpGas", "IsProposal026", "rawmul:GasMagnification"]),
  ("gasSStore", ["IsProposal026", "IsProposal015", "rawmul:GasMagnification"]),
  ("gasSStoreEIP2200", ["IsProposal026", "IsProposal015", "rawmul:GasMagnification"]),
  ("gasSelfdestruct", ["B0"]),
  ("gasSha3", ["memoryGasCost", "B1", "SafeMul,Sha3WordGas", "toWordSize", "SafeAdd", "IsProposal026", "SafeMul,GasMagnification"]),
  ("gasStaticCall", ["memoryGasCost", "callGas", "B0", "SafeAdd"]),
  ("makeGasLog", ["B1", "memoryGasCost", "SafeAdd,LogGas", "SafeAdd", "SafeMul,LogDataGas", "SafeAdd", "IsProposal026", "SafeMul,GasMagnification"]),
  ("memoryAuthCall", ["calcMemSize64", "B7", "B8", "calcMemSize64", "B5", "B6"]),
  ("memoryCall", ["calcMemSize64", "B5", "B6", "calcMemSize64", "B3", "B4"]),
  ("memoryCallDataCopy", ["calcMemSize64", "B0", "B2"]),
  ("memoryCodeCopy", ["calcMemSize64", "B0", "B2"]),
  ("memoryCopierGas", ["memoryGasCost", "B(stackpos)", "SafeMul,CopyGas", "toWordSize", "SafeAdd", "IsProposal026", "SafeMul,GasMagnification"]),
  ("memoryCreate", ["calcMemSize64", "B1", "B2"]),
  ("memoryCreate2", ["calcMemSize64", "B1", "B2"]),
  ("memoryDelegateCall", ["calcMemSize64", "B4", "B5", "calcMemSize64", "B2", "B3"]),
  ("memoryExtCodeCopy", ["calcMemSize64", "B1", "B3"]),
  ("memoryGasCost", ["toWordSize", "IsProposal026", "rawmul:GasMagnification"]),
  ("memoryLog", ["calcMemSize64", "B0", "B1"]),
  ("memoryMLoad", ["calcMemSize64WithUint,32", "B0"]),
  ("memoryMStore", ["calcMemSize64WithUint,32", "B0"]),
  ("memoryMStore8", ["calcMemSize64WithUint,1", "B0"]),
  ("memoryMcopy", ["B0", "B1", "B1", "calcMemSize64", "B2"]),
  ("memoryReturn", ["calcMemSize64", "B0", "B1"]),
  ("memoryReturnDataCopy", ["calcMemSize64", "B0", "B2"]),
  ("memoryRevert", ["calcMemSize64", "B0", "B1"]),
  ("memorySha3", ["calcMemSize64", "B0", "B1"]),
  ("memoryStaticCall", ["calcMemSize64", "B4", "B5", "calcMemSize64", "B2", "B3"]),
  ("pkgstate.pools", ["newReturnStack:rStackPool.Get", "newstack:stackPool.Get", "returnRStack:rStackPool.Put", "returnStack:stackPool.Put"]),
  ("pkgstate.writes", ["InitVM:logger", "init:PrecompiledAddresses"]),
  ("pureMemoryGascost", ["memoryGasCost"])
]

/-- which stack positions each memory-size / gas function reads, which helpers it
    calls and with which constants, in source order (go/ast), is what was transcribed;
    in particular the four magnifications that can exceed 2^64 go through `SafeMul`.
    `Run.readOnlyEntry` / `Run.readOnlyCheck` pin the read-only discipline of the loop that the
    model renders by passing `ro` down functionally: the interpreter-wide flag is set only if
    not already set (`$ro && !$in.readOnly`) and reset only by the frame that set it (the
    deferred `$in.readOnly = false` inside that `if`), and the per-iteration write test.
    `Run.loopOrder`: the order of the checks in the loop is the order `stepPre` transcribes —
    table lookup, nil → invalid opcode, **stack validation, then the read-only test** (which reads
    `stack.Back(2)` and is only safe after the validation), constant gas, memory size, dynamic
    gas, resize, execute, return data, err/reverts/halts/pc++.
    `frame.*`: how each of `Call / CallCode / DelegateCall / StaticCall / AuthCall / create` builds
    the callee frame — which address is `self`, **which account's code hash keys the shared
    JUMPDEST-analysis cache** (always the account whose code runs), which code runs, the read-only
    argument of `run`.  `contract.*` / `analysis.codeBitmap`: every condition, assignment and return
    of `validJumpdest` (`udest >= len(code)` refuses the destination *equal* to the code length),
    `isCode` (cache key `CodeHash`), `GetByte`, `UseGas`, `AsDelegate`, and the loop structure of
    the bitmap construction.
    `executor.*`: the gas-limit constants of the contract executor (6·10^6 / 3·10^7 / 9·10^8), every
    condition and assignment of `Execute` that touches the gas limit, and the whole of `IntrinsicGas`
    (`Model.intrinsicGas`, `Model.executorVmGas`).
    `pkgstate.writes` / `pkgstate.pools`: the only package-level variables of `src/vm` any function
    assigns are the logger (`InitVM`) and the precompile address list (`init`); the only shared
    mutable objects on the execution path are the two `sync.Pool`s of stacks (a new package-level
    scratch buffer, cache or flag breaks this obligation).  `flags.*`: the fork-flag reads of
    `create` and `NewEVMInterpreter` are the ones the model's `Ctx` carries. -/
theorem source_skeleton_matches : Gen.sourceSkeleton = expectedSkeleton := rfl

def Exec.isUnknown : Exec → Bool | .unknown => true | _ => false
def MemFn.isUnknown : MemFn → Bool | .unknown => true | _ => false
def DynFn.isUnknown : DynFn → Bool | .unknown => true | _ => false

def entryKnown (o : OpInfo) : Bool :=
  !Exec.isUnknown o.exec && !MemFn.isUnknown o.mem && !DynFn.isUnknown o.dyn

/-- a Boolean check of every defined slot of every fork configuration -/
def allEntries (p : OpInfo → Bool) : Bool :=
  Gen.allTables.all (fun t => t.toList.all (fun e => match e with | none => true | some o => p o))

theorem allEntries_spec {p : OpInfo → Bool} (h : allEntries p = true) :
    ∀ t ∈ Gen.allTables, ∀ o, some o ∈ t.toList → p o = true := by
  intro t ht o ho
  unfold allEntries at h
  rw [List.all_eq_true] at h
  have h1 := h t ht
  rw [List.all_eq_true] at h1
  exact h1 (some o) ho

/-- every defined slot of every fork configuration points at functions the model transcribes -/
theorem table_known : allEntries entryKnown = true := by decide +kernel

def entryStackOk (o : OpInfo) : Bool :=
  o.minStack == o.exec.pops && o.maxStack + o.exec.pushes == 1024 + o.exec.pops

/-- `minStack`/`maxStack` of every entry are `pops` / `1024 + pops − pushes` of the
    transcribed `execute` function -/
theorem table_stack_consistent : allEntries entryStackOk = true := by decide +kernel

/-- all tables have exactly 256 slots (so `GetOp` of any byte indexes inside) -/
theorem table_size : Gen.allTables.all (fun t => t.toList.length == 256) = true := by decide +kernel

/-- stack positions read by the memory-size / dynamic-gas function of an entry lie
    below `minStack`, so `back` never falls back on its default -/
def memArgsBelow (n : Nat) : MemFn → Bool
  | .none | .unknown => true
  | .two o l => o < n && l < n
  | .fixed o _ => o < n
  | .max2 a b c d => a < n && b < n && c < n && d < n
  | .mcopy => 2 < n

def dynArgsBelow (n : Nat) : DynFn → Bool
  | .copier p => p < n
  | .log _ | .sha3 | .expFrontier | .expEIP158 => 1 < n
  | .create2 => 2 < n
  | .call | .callcode => 2 < n
  | .delegatecall | .staticcall | .selfdestruct => 0 < n
  | .authcall => 3 < n
  | _ => true

theorem table_args_in_range : allEntries (fun o => memArgsBelow o.minStack o.mem && dynArgsBelow o.minStack o.dyn) = true := by
  decide +kernel

/-- Every operation that neither halts nor reverts either has a constant gas of at
    least 1, or is EXP / LOGn (whose dynamic gas is at least 10 / 375), or is SSTORE
    (free before Proposal015, but it removes two stack items): the termination
    measure `2·gas + stack height` of `Props.C11B.fuel_suffices` strictly decreases. -/
def entryCosts (o : OpInfo) : Bool :=
  o.halts || o.reverts || decide (o.constGas ≥ 1) ||
    (match o.exec with | .sstore => true | _ => false) ||
    (match o.dyn with | .log _ | .expFrontier | .expEIP158 => true | _ => false)

theorem nonhalting_costs : allEntries entryCosts = true := by decide +kernel

/-- no operation grows the stack by more than one word -/
theorem pushes_at_most_one_more : allEntries (fun o => decide (o.exec.pushes ≤ o.exec.pops + 1)) = true := by
  decide +kernel

/-- operations that move `pc` themselves are exactly JUMP and JUMPI, and cost ≥ 8 -/
def entryJumps (o : OpInfo) : Bool :=
  (o.jumps == (match o.exec with | .jump | .jumpi => true | _ => false)) &&
  (!o.jumps || decide (o.constGas ≥ 8))

theorem jumps_are_jump_jumpi : allEntries entryJumps = true := by decide +kernel

/-- the call family and the creates pay at least 700 / 32000 before forwarding gas -/
def entryCallCosts (o : OpInfo) : Bool :=
  match o.exec with
  | .call _ => decide (o.constGas ≥ 700) && !o.halts && !o.reverts && !o.jumps
  | .create | .create2 => decide (o.constGas ≥ 32000) && !o.halts && !o.reverts && !o.jumps
  | .authcall => decide (o.constGas ≥ 100) && !o.halts && !o.reverts && !o.jumps
  | _ => true

theorem calls_cost : allEntries entryCallCosts = true := by decide +kernel

/-- flags: only REVERT reverts; halting operations are STOP/RETURN/SELFDESTRUCT -/
def entryFlags (o : OpInfo) : Bool :=
  (o.reverts == (match o.exec with | .revert => true | _ => false)) &&
  (o.halts == (match o.exec with | .stop | .ret | .selfdestruct => true | _ => false))

theorem flags_as_transcribed : allEntries entryFlags = true := by decide +kernel

/-- state-modifying operations carry the `writes` flag in every configuration
    (TSTORE checks `readOnly` itself, CALL with value is checked by the loop) -/
def entryWrites (o : OpInfo) : Bool :=
  match o.exec with
  | .sstore | .log _ | .create | .create2 | .selfdestruct => o.writes
  | _ => true

theorem writers_flagged : allEntries entryWrites = true := by decide +kernel

/-- Full statement of "every state-writing operation is refused in a read-only frame by the
    loop's `writes` test": every entry whose `execute` mutates the state carries the flag.
    (TSTORE tests `readOnly` itself and CALL-with-value is tested by the loop: `Props.C11D`.) -/
def entryStaticGuard (o : OpInfo) : Bool :=
  match o.exec with
  | .sstore | .log _ | .create | .create2 | .selfdestruct | .authcall => o.writes
  | _ => true

def FullStatementStaticGuard : Prop := allEntries entryStaticGuard = true

/-- proved part: everything except AUTHCALL (= `writers_flagged`) -/
theorem static_guard_partial :
    allEntries (fun o => match o.exec with | .authcall => true | _ => entryStaticGuard o) = true := by
  decide +kernel

/-- **the full statement is false of the code**: AUTHCALL (0xf7, Proposal014 table) has no `writes`
    flag and is not covered by the loop's value test (which names CALL only), although
    `evm.AuthCall` bumps the authorised account's nonce and transfers the value from the sponsor.
    Replayed on the implementation: known finding `authcall-writes-inside-static`. -/
theorem static_guard_counterexample : ¬ FullStatementStaticGuard := by
  unfold FullStatementStaticGuard
  decide +kernel

/-- DUPn / SWAPn have n ≥ 1 (the transcription's `n = 0` branch is dead) -/
def entryDupSwap (o : OpInfo) : Bool :=
  match o.exec with
  | .dup n | .swap n => decide (1 ≤ n ∧ n ≤ 16)
  | _ => true

theorem dup_swap_range : allEntries entryDupSwap = true := by decide +kernel

/-- the call family is priced by its own gas function (which is what makes the
    2300 stipend smaller than the 9000 paid for the value transfer) -/
def entryCallDyn (o : OpInfo) : Bool :=
  match o.exec with
  | .call .call => o.dyn == .call
  | .call .callcode => o.dyn == .callcode
  | .call .delegatecall => o.dyn == .delegatecall
  | .call .staticcall => o.dyn == .staticcall
  | .authcall => o.dyn == .authcall
  | _ => true

theorem calls_priced_by_their_gas_function : allEntries entryCallDyn = true := by decide +kernel

/-- an operation that names a memory-size function is priced by a gas function that
    charges the memory fee for that size -/
def entryMemPaid (o : OpInfo) : Bool :=
  match o.mem with
  | .none => true
  | _ => match o.dyn with
    | .pureMem | .copier _ | .sha3 | .create2 | .log _ | .call | .callcode | .delegatecall | .staticcall | .authcall => true
    | _ => false

theorem memory_users_pay_memory : allEntries entryMemPaid = true := by decide +kernel

/-- slot 0 (also what `GetOp` returns beyond the end of the code) is STOP: free and halting -/
theorem slot0_is_stop : Gen.allTables.all (fun t => t.toList.head? == some (some ⟨.stop, 0, 0, 1024, .none, .none, true, false, false, false, false⟩)) = true := by
  decide +kernel

end Rangers.Props.C11
