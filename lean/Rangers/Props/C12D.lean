import Rangers.Proofs.Evm12InvInst
/-!
# C12, part D: invariants carried through every frame tree, transaction and block

`run_inv` (Proofs/Evm12Inv) is an induction principle over frame trees: a predicate kept by every primitive
state access and by reverting to a world that satisfied it is kept by every frame body. Two instances:

* `Obs.WF` -- no nonce / code / storage without account object. It was a *hypothesis* of the static theorems
  (`static_no_write_partial`); here it is shown to hold in every world reachable from a well-formed one, so the
  hypothesis is discharged for all reachable worlds (`wf_preserved_by_*`, `static_no_write_reachable`).
* `LogsIndexed` -- `Log.Index` is the position of the log among the surviving logs of the block
  (`log_indices_consecutive_*`): a frame that fails after LOG does not leave the block-wide counter advanced.
  Needs of `RevertToSnapshot` also that it puts `logSize` back (`RevertRestoresLogSize`; generated fact
  `add_log_undo_as_modelled`).

And the refusal clauses (`refused_*_untouched`): an entry point that refuses up-front (depth limit, value above
the balance) hands back the very world it was given -- nonces included; `create` may have bumped the creator's
nonce only when it reports an address collision.
-/
namespace Rangers.Props.C12D
open Rangers.Model.Evm12

/-! ## refused up-front ⇒ untouched -/

/-- the four call entry points: whatever they refuse before running, the world handed back is the one given -/
theorem refused_call_untouched (env : Env) (depth : Nat) (ro : Bool) (self : Addr) (kind : CallKind)
    (target : Addr) (value : Nat) (w w' : World) (e : Err)
    (h : callEnter env depth ro self kind target value w = .fail w' e) : w' = w := by
  have hs := callEnter_snapshot env depth ro self kind target value w
  rw [h] at hs
  exact hs

/-- `AuthCall`: depth and balance are checked before the authorized account's nonce is bumped -/
theorem refused_authcall_untouched (env : Env) (depth : Nat) (ro : Bool) (au target : Addr) (value : Nat)
    (w w' : World) (e : Err) (h : authEnter env depth ro au target value w = .fail w' e) : w' = w := by
  unfold authEnter at h
  by_cases hd : depth > CallCreateDepth
  · simp only [hd, ↓reduceIte] at h; cases h; rfl
  · simp only [hd, ↓reduceIte] at h
    by_cases h1 : (value != 0 && !w.canTransfer env.origin value) = true
    · simp only [h1, ↓reduceIte] at h; cases h; rfl
    · simp only [h1, Bool.false_eq_true, ↓reduceIte] at h
      split at h <;> cases h

/-- `create`: a refusal for depth or balance leaves the world untouched -- in particular the creator's
    nonce; only an address collision is reported after the nonce bump and the access-list insertion -/
theorem refused_create_untouched (env : Env) (depth : Nat) (ro : Bool) (self : Addr) (value : Nat) (addr : Addr)
    (w w' : World) (e : Err) (h : createEnter env depth ro self value addr w = .fail w' e) :
    (e = .collision ∧ w' = (if env.createBumpsNonce then w.setNonce self (w.getNonce self + 1) else w).addAccess addr)
    ∨ ((e = .depth ∨ e = .insufficientBalance) ∧ w' = w) := by
  unfold createEnter at h
  by_cases hd : depth > CallCreateDepth
  · simp only [hd, ↓reduceIte] at h; cases h; exact .inr ⟨.inl rfl, rfl⟩
  · simp only [hd, ↓reduceIte] at h
    by_cases h1 : (!w.canTransfer self value) = true
    · simp only [h1, ↓reduceIte] at h; cases h; exact .inr ⟨.inr rfl, rfl⟩
    · simp only [h1, Bool.false_eq_true, ↓reduceIte] at h
      by_cases hb : env.createBumpsNonce = true
      · simp only [hb, ↓reduceIte] at h ⊢
        split at h
        · cases h; exact .inl ⟨rfl, rfl⟩
        · cases h
      · simp only [hb, Bool.false_eq_true, ↓reduceIte] at h ⊢
        split at h
        · cases h; exact .inl ⟨rfl, rfl⟩
        · cases h

/-- non-vacuity: a CREATE with an endowment above the balance is refused and the creator's nonce stays -/
example :
    let env : Env := { origin := .base 10, rv := restore }
    let w : World := (({} : World).setNonce (.base 20) 3).addBalance (.base 20) 5
    (createFrame env 1 false (.base 20) false 0 6 (.done .stop) w).err = some .insufficientBalance
    ∧ (createFrame env 1 false (.base 20) false 0 6 (.done .stop) w).world.getNonce (.base 20) = 3
    ∧ (createFrame env 1 false (.base 20) false 0 5 (.done .stop) w).world.getNonce (.base 20) = 4 := by
  decide

/-! ## well-formedness is an invariant (the hypothesis `hwf` of the static theorems holds in reachable worlds) -/

theorem wf_preserved_by_frame (env : Env) (hrv : RevertRestoresObs env.rv) (body : Frame) (depth : Nat) (ro : Bool)
    (self : Addr) (w : World) (clogs : List Log) (tr : List Event) (hwf : (obs w).WF) :
    (obs (run env depth ro self w clogs tr body).world).WF :=
  run_inv (wf_prim env hrv) body depth ro self w clogs tr hwf

theorem inv_preserved_by_tx {P : World → Prop} (cfg : Cfg) (rv : World → World → World)
    (hP : ∀ origin, PrimInv (cfg.env rv origin) P) (hprep : ∀ w h i, P w → P (prepare w h i))
    (i : Nat) (w : World) (tx : Tx) (hw : P w) : P (execTx cfg rv i w tx).1 := by
  have h := hP tx.origin
  have hw0 : P (if cfg.p013 = true then prepare w tx.hash i else w) := by
    split
    · exact hprep _ _ _ hw
    · exact hw
  unfold execTx
  simp only
  generalize (if cfg.p013 = true then prepare w tx.hash i else w) = w0 at hw0
  have hfr : P (txFrame cfg rv tx w0).world := by
    unfold txFrame
    cases tx.kind with
    | create =>
      exact createFrameK_inv h 0 false tx.origin false 0 tx.value _
        (fun d r s w1 hw1 => run_inv h tx.body d r s w1 [] [] hw1) w0 hw0
    | call target =>
      simp only
      have h1 : P (if cfg.p007 = true then w0.setNonce tx.origin (w0.getNonce tx.origin + 1) else w0) := by
        split
        · exact h.setNonce _ _ _ hw0
        · exact hw0
      exact callFrameK_inv h 0 false tx.origin .call target tx.value _ _
        (fun d r s w1 hw1 => run_inv h tx.body d r s w1 [] [] hw1) _ h1
  unfold txFinish
  simp only
  have h2 : P (if (txFrame cfg rv tx w0).err.isSome = true then rv w0 (txFrame cfg rv tx w0).world
      else (txFrame cfg rv tx w0).world) := by
    split
    · exact h.revert _ _ hw0
    · exact hfr
  split
  · exact h.setNonce _ _ _ h2
  · exact h2

theorem inv_preserved_by_block {P : World → Prop} (cfg : Cfg) (rv : World → World → World)
    (hP : ∀ origin, PrimInv (cfg.env rv origin) P) (hprep : ∀ w h i, P w → P (prepare w h i)) :
    ∀ (txs : List Tx) (i : Nat) (w : World), P w → P (execBlock cfg rv i w txs).1 := by
  intro txs
  induction txs with
  | nil => intro i w hw; exact hw
  | cons tx rest ih =>
    intro i w hw
    unfold execBlock
    simp only
    exact ih (i + 1) _ (inv_preserved_by_tx cfg rv hP hprep i w tx hw)

/-- every world reached by executing transactions back to back from a well-formed world is well-formed -/
theorem wf_preserved_by_block (cfg : Cfg) (rv : World → World → World) (hrv : RevertRestoresObs rv)
    (txs : List Tx) (i : Nat) (w : World) (hwf : (obs w).WF) : (obs (execBlock cfg rv i w txs).1).WF :=
  inv_preserved_by_block (P := fun w => (obs w).WF) cfg rv (fun o => wf_prim (cfg.env rv o) hrv)
    (fun _ _ _ hw => hw) txs i w hwf

/-- the static clause without the well-formedness hypothesis, for every world reachable from genesis: run any
    block of transactions from the empty state, then any read-only frame: the live observation does not move -/
theorem static_no_write_reachable (cfg : Cfg) (rv : World → World → World) (hrv : RevertRestoresObs rv)
    (txs : List Tx) (env : Env) (henv : RevertRestoresObs env.rv) (body : Frame) (hplain : body.plain = true)
    (depth : Nat) (self : Addr) (clogs : List Log) (tr : List Event) :
    liveObs (run env depth true self (execBlock cfg rv 0 {} txs).1 clogs tr body).world
      = liveObs (execBlock cfg rv 0 {} txs).1 :=
  (static_run env henv body hplain depth self _ clogs tr
    (wf_preserved_by_block cfg rv hrv txs 0 {} (fun _ _ => ⟨rfl, rfl, fun _ => rfl⟩))).1

/-! ## log indices -/

/-- a frame tree keeps the numbering of the block's logs: whatever fails and is reverted in between, the
    surviving logs carry `Index` 0, 1, 2, … -/
theorem log_indices_consecutive_frame (env : Env) (hrv : RevertRestoresObs env.rv)
    (hls : RevertRestoresLogSize env.rv) (body : Frame) (depth : Nat) (ro : Bool) (self : Addr) (w : World)
    (clogs : List Log) (tr : List Event) (hw : LogsIndexed w) :
    LogsIndexed (run env depth ro self w clogs tr body).world :=
  run_inv (logsIndexed_prim env hrv hls) body depth ro self w clogs tr hw

/-- ... and so does a whole block of transactions on one state object: in the final world the i-th log has
    `Index = i`, across transactions, failed transactions and reverted frames included -/
theorem log_indices_consecutive_block (cfg : Cfg) (rv : World → World → World) (hrv : RevertRestoresObs rv)
    (hls : RevertRestoresLogSize rv) (txs : List Tx) (w : World) (hw : LogsIndexed w) :
    let w' := (execBlock cfg rv 0 w txs).1
    w'.logSize = w'.logs.length ∧ ∀ (i : Nat) (h : i < w'.logs.length), (w'.logs[i]).index = i :=
  inv_preserved_by_block (P := LogsIndexed) cfg rv (fun o => logsIndexed_prim (cfg.env rv o) hrv hls)
    (fun _ _ _ hw => hw) txs 0 w hw

example : LogsIndexed {} := ⟨rfl, fun _ h => absurd h (by simp)⟩
example : RevertRestoresObs restore ∧ RevertRestoresLogSize restore := ⟨restore_restoresObs, restore_restoresLogSize⟩

/-- non-vacuity (the shape of seeded change C12-h): the first LOG of a transaction sits in a reverting
    sub-frame, the surviving logs of this and the next transaction are numbered 0 and 1 -/
example :
    let w0 : World := (({} : World).setCode (.base 20) .hosted).setCode (.base 21) .hosted
    let t1 : Tx := { hash := 1, origin := .base 10, kind := .call (.base 20), value := 0,
                     body := .call 1 .call (.base 21) 0 (.log 0 13 (.done .revert)) (.log 0 16 (.done .stop)) }
    let t2 : Tx := { hash := 2, origin := .base 10, kind := .call (.base 21), value := 0, body := .log 1 21 (.done .stop) }
    ((execBlock {} restore 0 w0 [t1, t2]).1.logs.map (fun l => (l.tag, l.index))) = [(16, 0), (21, 1)] := by
  decide

end Rangers.Props.C12D
