import Rangers.Model.BlockExec
import Rangers.Model.ContractPre
import Rangers.Props.C01
/-!
# C01 (continued) — the miner executors and the contract pre-execution functions

Every executor the model interprets is a total function of (transaction, ledger); the theorems
here carry the part of the property that concerns them: a refused transaction leaves the ledger as
it was (so the outcome cannot depend on how far a refused transaction got), a miner transaction of
the block does not change what the trie iterators of this block enumerate, and the pre-execution
functions of the contract executor depend only on what they are given.
-/
namespace Rangers.Props.C01F
open Rangers Rangers.Model.BlockExec Rangers.Model.ContractPre Rangers.Props.C01
open List

/-! ## refused miner transactions leave no trace -/

theorem execApply_refused_unchanged (h : Nat) (tx : Tx) (s : St) :
    (execApply h tx s).2 = false → (execApply h tx s).1 = s := by
  unfold execApply
  dsimp only
  repeat' split
  all_goals first | (intro _; rfl) | (intro hf; simp at hf)

theorem execChangeAccount_refused_unchanged (tx : Tx) (s : St) :
    (execChangeAccount tx s).2 = false → (execChangeAccount tx s).1 = s := by
  unfold execChangeAccount
  dsimp only
  repeat' split
  all_goals first | (intro _; rfl) | (intro hf; simp at hf)

theorem execAddStake_refused_unchanged (tx : Tx) (s : St) :
    (execAddStake tx s).2 = false → (execAddStake tx s).1 = s := by
  unfold execAddStake
  dsimp only
  repeat' split
  all_goals first | (intro _; rfl) | (intro hf; simp at hf)

theorem execRefund_refused_unchanged (h : Nat) (tx : Tx) (s : St) (q : List (Nat × Addr × Nat)) :
    (execRefund h tx s q).2.1 = false → (execRefund h tx s q).1 = s ∧ (execRefund h tx s q).2.2 = q := by
  unfold execRefund
  dsimp only
  repeat' split
  all_goals first | (intro _; exact ⟨rfl, rfl⟩) | (intro hf; simp at hf)

/-- a change of account touches nothing but the registry -/
theorem execChangeAccount_only_registry (tx : Tx) (s : St) :
    (execChangeAccount tx s).1.bal = s.bal ∧ (execChangeAccount tx s).1.nonce = s.nonce
      ∧ (execChangeAccount tx s).1.escrow = s.escrow := by
  unfold execChangeAccount
  dsimp only
  repeat' split
  all_goals exact ⟨rfl, rfl, rfl⟩

/-- an accepted miner-apply moves exactly the stake out of the sender's balance and appends exactly
    one registry entry, which the trie iterators of this block do not enumerate (`inParent = false`) -/
theorem execApply_accepted (h : Nat) (tx : Tx) (s : St) :
    (execApply h tx s).2 = true →
    ∃ r : MinerRec, (execApply h tx s).1.miners = s.miners ++ [r] ∧ r.inParent = false ∧ r.alive = true
      ∧ r.applyHeight = h + Rangers.Generated.NondetSites.cHeightAfterStake
      ∧ (execApply h tx s).1.bal tx.src + Rangers.Model.RewardFloat.float64ToBigInt (Rangers.Model.RewardFloat.ofNat r.stake) = s.bal tx.src := by
  unfold execApply
  dsimp only
  repeat' split
  all_goals first
    | (intro hf; simp at hf; done)
    | (intro _
       refine ⟨_, rfl, rfl, rfl, rfl, ?_⟩
       simp only [subBal, upd, if_true]
       omega)

example : (execApply 100 ⟨1, 0, 0, 2, [], 7, 7, 7, .apply 9 0 400 true true none⟩
    { St.empty with bal := fun a => if a = 7 then 400 * weiPerRpg else 0 }).2 = true := by decide

/-! ## `deductGasFee` -/

theorem deductGasFee_conserves (s : St) (src fee gasUsed : Nat) (hne : src ≠ fee) :
    (deductGasFee s src fee gasUsed).bal src + (deductGasFee s src fee gasUsed).bal fee = s.bal src + s.bal fee := by
  unfold deductGasFee
  dsimp only
  simp only [addBal, subBal, upd]
  by_cases hlt : s.bal src < gasUsed * Rangers.Generated.NondetSites.cGasPrice
  · simp [hlt, hne, Ne.symm hne]; omega
  · simp [hlt, hne, Ne.symm hne]; omega

theorem deductGasFee_capped (s : St) (src fee gasUsed : Nat) (hne : src ≠ fee) :
    (deductGasFee s src fee gasUsed).bal src = s.bal src - gasUsed * Rangers.Generated.NondetSites.cGasPrice := by
  unfold deductGasFee
  dsimp only
  simp only [addBal, subBal, upd]
  by_cases hlt : s.bal src < gasUsed * Rangers.Generated.NondetSites.cGasPrice
  · simp [hlt, hne]; omega
  · simp [hlt, hne]

example : (deductGasFee { St.empty with bal := fun a => if a = 1 then 5 else 0 } 1 2 3).bal 2 = 5 := by decide

/-! ## `IntrinsicGas`, the gas limit -/

theorem count_nonzero_perm {l₁ l₂ : Bytes} (p : l₁ ~ l₂) :
    (l₁.filter (fun b => b != 0)).length = (l₂.filter (fun b => b != 0)).length :=
  (p.filter _).length_eq

/-- the intrinsic gas depends only on how many zero and non-zero bytes the payload has -/
theorem intrinsicGas_perm (d₁ d₂ : Bytes) (c p26 : Bool) (p : d₁ ~ d₂) :
    intrinsicGas d₁ c p26 = intrinsicGas d₂ c p26 := by
  unfold intrinsicGas
  have h1 := count_nonzero_perm p
  have h2 := p.length_eq
  have h3 : d₁.isEmpty = d₂.isEmpty := by
    cases d₁ <;> cases d₂ <;> simp_all
  simp only [h1, h2, h3]

/-- closed form before Proposal026, whenever the overflow guards pass -/
theorem intrinsicGas_formula (d : Bytes) (c : Bool) (g : Nat) (h : intrinsicGas d c false = some g) :
    g = (if c then Rangers.Generated.NondetSites.cTxGasContractCreation else Rangers.Generated.NondetSites.cTxGas)
      + (d.filter (fun b => b != 0)).length * Rangers.Generated.NondetSites.cTxDataNonZeroGas
      + (d.length - (d.filter (fun b => b != 0)).length) * Rangers.Generated.NondetSites.cTxDataZeroGas := by
  unfold intrinsicGas at h
  dsimp only at h
  simp only [Bool.false_eq_true, if_false] at h
  generalize (if c = true then Rangers.Generated.NondetSites.cTxGasContractCreation else Rangers.Generated.NondetSites.cTxGas) = base at *
  generalize hn : (d.filter (fun b => b != 0)).length = nz at *
  by_cases he : d.isEmpty = true
  · have : d = [] := by cases d <;> simp_all
    subst this
    simp at h hn
    subst hn
    simp; omega
  · simp only [he] at h
    by_cases h1 : (Rangers.Model.ContractPre.maxU64 - base) / Rangers.Generated.NondetSites.cTxDataNonZeroGas < nz
    · simp [h1] at h
    · by_cases h2 : (Rangers.Model.ContractPre.maxU64 - (base + nz * Rangers.Generated.NondetSites.cTxDataNonZeroGas)) / Rangers.Generated.NondetSites.cTxDataZeroGas < d.length - nz
      · simp [h1, h2] at h
      · simp [h1, h2] at h; omega

/-- payloads below 2^32 bytes never hit the overflow guards -/
theorem intrinsicGas_total (d : Bytes) (c p26 : Bool) (hlen : d.length < 4294967296) :
    (intrinsicGas d c p26).isSome = true := by
  have hnz : (d.filter (fun b => b != 0)).length ≤ d.length := List.length_filter_le _ _
  unfold intrinsicGas
  dsimp only
  have hb : (if c = true then Rangers.Generated.NondetSites.cTxGasContractCreation else Rangers.Generated.NondetSites.cTxGas) ≤ 53000 := by
    split <;> decide
  generalize (if c = true then Rangers.Generated.NondetSites.cTxGasContractCreation else Rangers.Generated.NondetSites.cTxGas) = base at hb
  generalize (d.filter (fun b => b != 0)).length = nz at *
  by_cases he : d.isEmpty = true
  · simp [he]
  · have h1 : ¬ (Rangers.Model.ContractPre.maxU64 - base) / Rangers.Generated.NondetSites.cTxDataNonZeroGas < nz := by
      simp only [Rangers.Generated.NondetSites.cTxDataNonZeroGas, Rangers.Model.ContractPre.maxU64]; omega
    have h2 : ¬ (Rangers.Model.ContractPre.maxU64 - (base + nz * Rangers.Generated.NondetSites.cTxDataNonZeroGas)) / Rangers.Generated.NondetSites.cTxDataZeroGas < d.length - nz := by
      simp only [Rangers.Generated.NondetSites.cTxDataNonZeroGas, Rangers.Generated.NondetSites.cTxDataZeroGas, Rangers.Model.ContractPre.maxU64]; omega
    simp [he, h1, h2]

example : intrinsicGas [0, 1, 2, 0] true false = some (53000 + 2 * 16 + 2 * 4) := by decide
example : intrinsicGas [] false true = some (21000 * 30) := by decide

theorem parseUint_range (s : Bytes) (v : Nat) (h : parseUint s = some v) : v ≤ Rangers.Model.ContractPre.maxU64 := by
  unfold parseUint at h
  dsimp only at h
  by_cases h0 : s.isEmpty = true
  · simp [h0] at h
  · by_cases h1 : (s.all fun c => decide (48 ≤ c) && decide (c ≤ 57)) = true
    · by_cases h2 : s.foldl (fun acc c => acc * 10 + (c.toNat - 48)) 0 ≤ Rangers.Model.ContractPre.maxU64
      · simp [h0, h1, h2] at h; omega
      · simp [h0, h1, h2] at h
    · simp [h0, h1] at h

/-- `preCheckContractFee` is exactly "balance covers gasLimit·price + value" once Proposal015 is active -/
theorem preCheck_iff (balance raw value : Nat) :
    preCheckContractFee true balance raw value = true ↔ raw * Rangers.Generated.NondetSites.cGasPrice + value ≤ balance := by
  unfold preCheckContractFee
  simp

/-- with Proposal026 active and an intrinsic gas below the cap (any payload under 56 MB) nothing wraps:
    the EVM gets `min(raw, cap) − intrinsic` -/
theorem evmGasLimit_p026 (p017 : Bool) (raw intrinsic g : Nat) (hraw : raw ≤ Rangers.Model.ContractPre.maxU64)
    (hi : intrinsic ≤ Rangers.Generated.NondetSites.cP026GasLimit)
    (h : evmGasLimit true p017 true raw intrinsic = some g) :
    g + intrinsic = min raw Rangers.Generated.NondetSites.cP026GasLimit := by
  unfold evmGasLimit at h
  dsimp only at h
  simp only [Bool.not_true, Bool.false_eq_true, if_false, if_true] at h
  by_cases hlt : raw < intrinsic
  · simp [hlt] at h
  · simp only [hlt, if_false, Option.some.injEq] at h
    simp only [Rangers.Generated.NondetSites.cP026GasLimit, Rangers.Model.ContractPre.maxU64] at *
    by_cases hc : raw > 900000000
    · simp [hc] at h; omega
    · simp [hc] at h; omega

/-- quirk of the code between Proposal017 and Proposal026: the cap is applied to the limit but the
    guard compared the *uncapped* limit with the intrinsic gas, so a payload whose intrinsic gas exceeds
    the cap makes the uint64 subtraction wrap (model witness; needs a payload of about 2 MB) -/
example : evmGasLimit true true false 40000000 31000000 = some (30000000 + 18446744073709551616 - 31000000) := by decide

example : rawGasLimit [] true = some 30000000 ∧ rawGasLimit [48] false = some 6000000 ∧ rawGasLimit [43, 49] true = none := by decide

/-! ## `calcReceiptsTree` -/

/-- the hashed bytes are the receipts' JSON encodings in list order: concatenating lists concatenates them -/
theorem receiptsPreimage_append (h : Nat) (r₁ r₂ : List Receipt) :
    receiptsPreimage h (r₁ ++ r₂) = receiptsPreimage h r₁ ++ receiptsPreimage h r₂ := by
  unfold receiptsPreimage
  simp

/-- the root is a function of height, statuses and transaction hashes in order — nothing else of a
    receipt (message text, source) reaches it -/
theorem receiptsRoot_ignores_msg (h : Nat) (rs : List Receipt) (f : Receipt → Bytes) :
    receiptsRoot h (rs.map (fun r => { r with msg := f r })) = receiptsRoot h rs := by
  unfold receiptsRoot receiptsPreimage
  simp only [List.isEmpty_map, List.map_map]
  congr 2

set_option maxRecDepth 20000 in
/-- …and the order does matter: swapping two receipts changes the hashed bytes -/
theorem receiptsPreimage_order_matters :
    receiptsPreimage 5 [⟨1, false, [], 0⟩, ⟨2, true, [], 0⟩] ≠ receiptsPreimage 5 [⟨2, true, [], 0⟩, ⟨1, false, [], 0⟩] := by
  decide

set_option maxRecDepth 20000 in
example : (receiptJson 7 ⟨255, false, [], 0⟩).length = 207 := by decide

end Rangers.Props.C01F
