import Rangers.Model.Evm11Interp
import Rangers.Generated.Evm11Tables
import Rangers.Props.C11
import Rangers.Props.C11B
/-!
# C11 — EVM execution is total and resource-bounded: the interpreter loop and the frames
-/
namespace Rangers.Props.C11C
open Rangers.Evm11 Rangers.Props.C11 Rangers.Props.C11B

/-! ## `execute` leaves gas alone, pushes what the table says, never resizes memory -/

theorem writeBytes_size (d : BA) (off : Nat) (val : BA) (n : Nat) : (writeBytes d off val n).size = d.size := by
  unfold writeBytes
  generalize List.range n = l
  induction l generalizing d with
  | nil => rfl
  | cons i t ih => simp only [List.foldl_cons]; rw [ih]; exact Array.size_setIfInBounds ..

theorem memWrite_size (m : Mem) (off size : Nat) (val : BA) : (memWrite m off size val).size = m.size := by
  simp [memWrite, Mem.size, writeBytes_size]

theorem memWrite_last (m : Mem) (off size : Nat) (val : BA) : (memWrite m off size val).lastGasCost = m.lastGasCost := rfl

/-- the part of an `Upd` the invariants care about -/
def UpdOk (e : Exec) (fr : Frame) (u : Upd) : Prop :=
  u.push.length = e.pushes ∧ u.mem.size = fr.mem.size ∧ u.mem.lastGasCost = fr.mem.lastGasCost

set_option hygiene false in
macro "exec_cases" : tactic => `(tactic|
  (simp only [execOp, Exec.pops, Exec.pushes] at * <;> (repeat' split at h) <;>
    (first | (cases h; done) | (cases h; simp [memWrite_size, memWrite_last]; done) | skip)))

set_option maxHeartbeats 1000000 in
theorem execOp_upd (cx : Ctx) (ro : Bool) (e : Exec) (fr : Frame) (args : List Word) (g : Global) (cgt : Nat)
    (u : Upd) (hargs : args.length = e.pops) (h : execOp cx ro e fr args g cgt = .upd u) : UpdOk e fr u := by
  unfold UpdOk
  cases e with
  | call k => cases k <;> exec_cases
  | copy o => cases o <;> exec_cases
  | dup n =>
    simp only [execOp, Exec.pops, Exec.pushes] at *
    split at h
    · cases h
    · cases h; simp [hargs]
  | swap n =>
    simp only [execOp, Exec.pops, Exec.pushes] at *
    split at h
    · cases h
    · split at h
      · cases h
      · rename_i hn
        cases h
        simp only [List.length_cons, Nat.add_right_cancel_iff] at hargs
        simp [List.length_take, hargs]
        omega
  | _ => exec_cases

/-! ## one loop iteration up to `execute` -/

/-- everything `stepPre` establishes when it lets the operation run -/
structure PreOk (cx : Ctx) (fr : Frame) (g : Global) (info : OpInfo) (fr1 : Frame) (args : List Word)
    (g1 : Global) (cgt : Nat) : Prop where
  entry : cx.table.getD (fr.code.getD fr.pc 0).toNat none = some info
  minOk : info.minStack ≤ fr.stack.length
  maxOk : fr.stack.length ≤ info.maxStack
  dyn : ∃ memorySize cost m', dynGas cx.gc info.dyn fr.stack fr.mem memorySize (fr.gas - info.constGas) fr.self g
          = .ok cost m' g1 cgt ∧ fr1.gas + info.constGas + cost = fr.gas ∧
          fr1.mem = (if memorySize > 0 then m'.resize memorySize else m') ∧
          (match memSizeFn info.mem fr.stack with
            | none => memorySize = 0
            | some (sz, ov) => ov = false ∧ memorySize = 32 * toWordSize sz ∧ 32 * toWordSize sz < 2 ^ 64)
  stack : fr1.stack = fr.stack.drop info.exec.pops
  argsEq : args = fr.stack.take info.exec.pops
  same : fr1.code = fr.code ∧ fr1.pc = fr.pc ∧ fr1.self = fr.self ∧ fr1.isCode = fr.isCode

theorem stepPre_ok (cx : Ctx) (ro : Bool) (fr : Frame) (g : Global) (info : OpInfo) (fr1 : Frame)
    (args : List Word) (g1 : Global) (cgt : Nat)
    (h : stepPre cx ro fr g = .ok info fr1 args g1 cgt) : PreOk cx fr g info fr1 args g1 cgt := by
  unfold stepPre at h
  simp only at h
  split at h
  · cases h
  · rename_i info' hent
    split at h
    · cases h
    · rename_i hmin
      split at h
      · cases h
      · rename_i hmax
        split at h
        · cases h
        · split at h
          · cases h
          · rename_i gas1 hg1
            have hc := useGas_spec hg1
            split at h
            · cases h
            · rename_i memorySize hms
              split at h
              · cases h
              · cases h
              · rename_i cost m' g' cgt' hdyn
                split at h
                · cases h
                · rename_i gas2 hg2
                  have hc2 := useGas_spec hg2
                  cases h
                  have hgas1 : gas1 = fr.gas - info.constGas := by omega
                  refine ⟨hent, by omega, by omega, ⟨memorySize, cost, m', ?_, ?_, rfl, ?_⟩, rfl, rfl, ⟨rfl, rfl, rfl, rfl⟩⟩
                  · rw [← hgas1]; exact hdyn
                  · simp only; omega
                  · cases hmf : memSizeFn info.mem fr.stack with
                    | none =>
                      simp only [hmf] at hms
                      cases hms; rfl
                    | some p =>
                      obtain ⟨sz, ov⟩ := p
                      simp only [hmf] at hms ⊢
                      split at hms
                      · cases hms
                      · rename_i hov
                        split at hms
                        · cases hms
                        · rename_i hov2
                          cases hms
                          simp only [safeMul, wmul, ge_iff_le, decide_eq_true_eq, Nat.not_le] at hov2 ⊢
                          refine ⟨by simpa using hov, ?_, by omega⟩
                          omega

/-! ## what the proofs know about a jump table: the T-gen facts, per entry -/

def entryAll (o : OpInfo) : Bool :=
  entryKnown o && entryStackOk o && entryCosts o && decide (o.exec.pushes ≤ o.exec.pops + 1) &&
  entryCallCosts o && entryDupSwap o && entryCallDyn o && entryMemPaid o &&
  (memArgsBelow o.minStack o.mem && dynArgsBelow o.minStack o.dyn) && entryFlags o

/-- a table all of whose defined entries satisfy the generated-table facts -/
def TableOk (t : JumpTable) : Prop := ∀ op info, t.getD op none = some info → entryAll info = true

theorem getD_mem {α} (t : Array (Option α)) (i : Nat) (x : α) (h : t.getD i none = some x) : some x ∈ t.toList := by
  unfold Array.getD at h
  split at h
  · rw [← h]; simp
  · cases h

theorem tableOf_mem (a b c : Bool) : Gen.tableOf a b c ∈ Gen.allTables := by
  cases a <;> cases b <;> cases c <;> simp [Gen.tableOf, Gen.allTables]

/-- **every generated table (all 8 fork combinations) satisfies the entry facts** -/
theorem gen_tables_ok (a b c : Bool) : TableOk (Gen.tableOf a b c) := by
  intro op info h
  have hm := getD_mem _ _ _ h
  have ht := tableOf_mem a b c
  unfold entryAll
  simp only [Bool.and_eq_true]
  refine ⟨⟨⟨⟨⟨⟨⟨⟨⟨?_, ?_⟩, ?_⟩, ?_⟩, ?_⟩, ?_⟩, ?_⟩, ?_⟩, ?_⟩, ?_⟩
  · exact allEntries_spec table_known _ ht _ hm
  · exact allEntries_spec table_stack_consistent _ ht _ hm
  · exact allEntries_spec nonhalting_costs _ ht _ hm
  · exact allEntries_spec pushes_at_most_one_more _ ht _ hm
  · exact allEntries_spec calls_cost _ ht _ hm
  · exact allEntries_spec dup_swap_range _ ht _ hm
  · exact allEntries_spec calls_priced_by_their_gas_function _ ht _ hm
  · exact allEntries_spec memory_users_pay_memory _ ht _ hm
  · have := allEntries_spec table_args_in_range _ ht _ hm
    simpa using this
  · exact allEntries_spec flags_as_transcribed _ ht _ hm

/-! ## dynamic gas: lower bounds and the forwarded gas -/

theorem wadd_le (a b : Nat) : wadd a b ≤ a + b := by unfold wadd; exact Nat.mod_le _ _
theorem wadd_lt (a b : Nat) : wadd a b < 2 ^ 64 := by unfold wadd; omega

theorem safeAdd_ok {a b : Nat} (h : (safeAdd a b).2 = false) : (safeAdd a b).1 = a + b := by
  unfold safeAdd wadd at *
  simp only [ge_iff_le, decide_eq_false_iff_not, Nat.not_le] at h
  simp only; omega

theorem magnify_ge {p26 : Bool} {gas r : Nat} (h : magnify p26 gas = some r) : gas ≤ r := by
  unfold magnify safeMul wmul gasMagnification at h
  split at h
  · simp only at h
    split at h
    · cases h
    · rename_i hov
      simp only [ge_iff_le, decide_eq_true_eq, Nat.not_le] at hov
      cases h
      rw [Nat.mod_eq_of_lt hov]; omega
  · cases h; omega

theorem logGas_ge {p26 : Bool} {n : Nat} {m m' : Mem} {ms : Nat} {req r : Nat}
    (h : logGas p26 n m ms req = some (r, m')) : 375 ≤ r := by
  unfold logGas at h
  split at h
  · cases h
  · split at h
    · cases h
    · rename_i gas m1 _
      simp only at h
      split at h
      · cases h
      · rename_i h1
        split at h
        · cases h
        · rename_i h2
          split at h
          · cases h
          · split at h
            · cases h
            · rename_i h4
              split at h
              · cases h
              · rename_i r' hr
                cases h
                have e1 := safeAdd_ok (Bool.eq_false_iff.mpr h1)
                have e2 := safeAdd_ok (Bool.eq_false_iff.mpr h2)
                have e4 := safeAdd_ok (Bool.eq_false_iff.mpr h4)
                have := magnify_ge hr
                omega

theorem bitLen_le (x : Nat) : bitLen (x % W256) ≤ 256 := by
  unfold bitLen
  split
  · omega
  · rename_i h
    have : x % W256 < 2 ^ 256 := Nat.mod_lt _ (by unfold W256; omega)
    have := (Nat.log2_lt h).mpr this
    omega

theorem expGas_ge {p26 : Bool} {per : Nat} {e r : Nat} (hper : per ≤ 50) (h : expGas p26 per e = some r) : 10 ≤ r := by
  unfold expGas at h
  simp only at h
  have hb := bitLen_le e
  have hmul : (bitLen (e % W256) + 7) / 8 * per ≤ 32 * 50 := Nat.mul_le_mul (by omega) hper
  have e0 : wmul ((bitLen (e % W256) + 7) / 8) per = (bitLen (e % W256) + 7) / 8 * per := by unfold wmul; omega
  rw [e0] at h
  split at h
  · cases h
  · rename_i h1
    have e1 := safeAdd_ok (Bool.eq_false_iff.mpr h1)
    rw [e1] at h
    split at h
    · cases h
      unfold wmul gasMagnification
      rw [Nat.mod_eq_of_lt (by omega)]; omega
    · cases h; omega

theorem safeAdd_lt (a b : Nat) : (safeAdd a b).1 < 2 ^ 64 := by unfold safeAdd; exact wadd_lt _ _

/-- the call family: what is charged is the base cost plus the forwarded gas; a value
    transfer adds at least 9000 to the base (which is what pays for the 2300 stipend) -/
theorem dynGas_call (gc : GasCfg) (f : DynFn) (s : List Word) (m m' : Mem) (ms gas self : Nat) (g g' : Global)
    (cost cgt gas2 : Nat) (hgas : gas < 2 ^ 64)
    (h : dynGas gc f s m ms gas self g = .ok cost m' g' cgt) (hu : useGas gas cost = some gas2) :
    (f = .call ∨ f = .callcode → cgt ≤ cost ∧ (back s 2 ≠ 0 → cgt + 9000 ≤ cost)) ∧
    (f = .delegatecall ∨ f = .staticcall → cgt ≤ cost) := by
  constructor
  · intro hf
    rcases hf with rfl | rfl
    · -- gasCall
      unfold dynGas at h
      simp only at h
      split at h
      · cases h
      · rename_i gasv g1 hr
        split at h
        · cases h
        · rename_i memGas m1 hmg
          split at h
          · cases h
          · rename_i hov
            have ea := safeAdd_ok (Bool.eq_false_iff.mpr hov)
            have hfc := finishCall_ok gas _ _ _ _ _ _ _ _ gas2 hgas (safeAdd_lt _ _) h hu
            rw [ea] at hfc
            refine ⟨by omega, ?_⟩
            intro hv
            rw [if_pos hv] at hr
            split at hr
            · rename_i e g2 _
              cases hr
              split at hfc <;> omega
            · cases hr
    · -- gasCallCode
      unfold dynGas at h
      simp only at h
      split at h
      · cases h
      · rename_i memGas m1 hmg
        generalize hbv : (if back s 2 ≠ 0 then 9000 else 0) = bv at h
        split at h
        · cases h
        · rename_i hov
          have ea := safeAdd_ok (Bool.eq_false_iff.mpr hov)
          have hfc := finishCall_ok gas _ _ _ _ _ _ _ _ gas2 hgas (safeAdd_lt _ _) h hu
          rw [ea] at hfc
          refine ⟨by omega, ?_⟩
          intro hv
          rw [if_pos hv] at hbv
          omega
  · intro hf
    rcases hf with rfl | rfl <;>
    · unfold dynGas at h
      simp only at h
      split at h
      · cases h
      · rename_i memGas m1 hmg
        have hmlt : memGas < 2 ^ 64 := by
          unfold memoryGasCost at hmg
          simp only at hmg
          split at hmg
          · cases hmg; omega
          · split at hmg
            · cases hmg
            · split at hmg
              · split at hmg
                · cases hmg; unfold wmul; omega
                · cases hmg; exact wsub_lt _ _
              · cases hmg; omega
        have hfc := finishCall_ok gas _ _ _ _ _ _ _ _ gas2 hgas hmlt h hu
        omega

/-! ## the only `execute` functions that start a new frame -/

def reqGas : Req → Nat
  | .call _ _ _ _ gas _ _ _ => gas
  | .create _ _ _ gas => gas
  | .authcall _ _ _ _ gas _ _ => gas

/-- what an `invoke` can be: a create forwarding all but one 64th (and deducting it),
    or a call forwarding `callGasTemp`, plus the 2300 stipend only for CALL/CALLCODE with value -/
def InvokeOk (e : Exec) (fr : Frame) (args : List Word) (cgt : Nat) (r : Req) (d : Nat) : Prop :=
  ((e = .create ∨ e = .create2) ∧ d = wsub fr.gas (fr.gas / 64) ∧ reqGas r = d ∧ (∃ s v i, r = .create s v i d)) ∨
  (∃ k, e = .call k ∧ d = 0 ∧ (∃ a v i ro rs io, r = .call k a v i (reqGas r) ro rs io) ∧
    (reqGas r = cgt ∨ (reqGas r = wadd cgt 2300 ∧ (k = .call ∨ k = .callcode) ∧ args.getD 2 0 ≠ 0))) ∨
  (e = .authcall ∧ d = 0 ∧ reqGas r = cgt)

set_option hygiene false in
macro "invoke_cases" : tactic => `(tactic|
  (simp only [execOp] at h <;> (repeat' split at h) <;> (first | (cases h; done) | skip)))

def Exec.invokes : Exec → Bool
  | .call _ | .create | .create2 | .authcall => true
  | _ => false

set_option maxHeartbeats 1000000 in
theorem execOp_invoke_other (cx : Ctx) (ro : Bool) (e : Exec) (fr : Frame) (args : List Word) (g : Global) (cgt : Nat)
    (r : Req) (d : Nat) (g' : Global) (he : Exec.invokes e = false)
    (h : execOp cx ro e fr args g cgt = .invoke r d g') : False := by
  cases e with
  | call k => simp [Exec.invokes] at he
  | create => simp [Exec.invokes] at he
  | create2 => simp [Exec.invokes] at he
  | authcall => simp [Exec.invokes] at he
  | copy o => cases o <;> invoke_cases
  | _ => invoke_cases

theorem execOp_invoke_authcall (cx : Ctx) (ro : Bool) (fr : Frame) (args : List Word) (g : Global) (cgt : Nat)
    (r : Req) (d : Nat) (g' : Global) (h : execOp cx ro .authcall fr args g cgt = .invoke r d g') :
    d = 0 ∧ reqGas r = cgt := by
  invoke_cases
  cases h
  exact ⟨rfl, rfl⟩

set_option maxHeartbeats 1000000 in
theorem execOp_invoke_call (cx : Ctx) (ro : Bool) (k : CallKind) (fr : Frame) (args : List Word) (g : Global) (cgt : Nat)
    (r : Req) (d : Nat) (g' : Global) (h : execOp cx ro (.call k) fr args g cgt = .invoke r d g') :
    d = 0 ∧ (∃ a v i ro rs io, r = .call k a v i (reqGas r) ro rs io) ∧
    (reqGas r = cgt ∨ (reqGas r = wadd cgt 2300 ∧ (k = .call ∨ k = .callcode) ∧ args.getD 2 0 ≠ 0)) := by
  cases k <;> invoke_cases
  all_goals (cases h; refine ⟨rfl, ⟨_, _, _, _, _, _, rfl⟩, ?_⟩; simp only [reqGas])
  all_goals (first | (right; simp [*]; done) | (left; exact trivial) | (left; exact rfl))

theorem execOp_invoke_create0 (cx : Ctx) (ro : Bool) (e : Exec) (he : e = .create ∨ e = .create2) (fr : Frame) (args : List Word) (g : Global) (cgt : Nat)
    (r : Req) (d : Nat) (g' : Global) (h : execOp cx ro e fr args g cgt = .invoke r d g') :
    d = wsub fr.gas (fr.gas / 64) ∧ (∃ s v i, r = .create s v i d) := by
  rcases he with rfl | rfl
  · invoke_cases
    cases h
    exact ⟨rfl, _, _, _, rfl⟩
  · invoke_cases
    cases h
    exact ⟨rfl, _, _, _, rfl⟩

theorem execOp_invoke_create (cx : Ctx) (ro : Bool) (e : Exec) (he : e = .create ∨ e = .create2) (fr : Frame) (args : List Word) (g : Global) (cgt : Nat)
    (r : Req) (d : Nat) (g' : Global) (h : execOp cx ro e fr args g cgt = .invoke r d g') :
    d = wsub fr.gas (fr.gas / 64) ∧ reqGas r = d ∧ (∃ s v i, r = .create s v i d) := by
  obtain ⟨h1, s, v, i, h2⟩ := execOp_invoke_create0 cx ro e he fr args g cgt r d g' h
  refine ⟨h1, ?_, s, v, i, h2⟩
  clear h h1
  subst h2
  rfl

theorem execOp_invoke (cx : Ctx) (ro : Bool) (e : Exec) (fr : Frame) (args : List Word) (g : Global) (cgt : Nat)
    (r : Req) (d : Nat) (g' : Global) (h : execOp cx ro e fr args g cgt = .invoke r d g') :
    InvokeOk e fr args cgt r d := by
  unfold InvokeOk
  by_cases he : Exec.invokes e = false
  · exact (execOp_invoke_other cx ro e fr args g cgt r d g' he h).elim
  · by_cases hc : e = .create ∨ e = .create2
    · left
      obtain ⟨h1, h2, h3⟩ := execOp_invoke_create cx ro e hc fr args g cgt r d g' h
      exact ⟨hc, h1, h2, h3⟩
    · right
      cases e with
      | call k =>
        left
        obtain ⟨h1, h2, h3⟩ := execOp_invoke_call cx ro k fr args g cgt r d g' h
        exact ⟨k, rfl, h1, h2, h3⟩
      | authcall =>
        right
        obtain ⟨h1, h2⟩ := execOp_invoke_authcall cx ro fr args g cgt r d g' h
        exact ⟨rfl, h1, h2⟩
      | create => simp at hc
      | create2 => simp at hc
      | _ => simp [Exec.invokes] at he

/-! ## no step invents an out-of-fuel outcome -/

theorem stepPre_fault (cx : Ctx) (ro : Bool) (fr : Frame) (g g' : Global) (e : Fault)
    (h : stepPre cx ro fr g = .fault e g') : e ≠ .outOfFuel ∧ e ≠ .stackBug := by
  unfold stepPre at h
  simp only at h
  repeat' split at h
  all_goals (first | (cases h; done) | (cases h; constructor <;> (intro hh; cases hh)))

set_option hygiene false in
macro "fault_cases" : tactic => `(tactic|
  (simp only [execOp] at h <;> (repeat' split at h) <;>
    (first | (cases h; done) | (cases h; intro hh; cases hh; done) | skip)))

set_option maxHeartbeats 1000000 in
theorem execOp_fault (cx : Ctx) (ro : Bool) (e : Exec) (fr : Frame) (args : List Word) (g : Global) (cgt : Nat)
    (f : Fault) (g' : Global) (h : execOp cx ro e fr args g cgt = .fault f g') : f ≠ .outOfFuel := by
  cases e with
  | call k => cases k <;> fault_cases
  | copy o => cases o <;> fault_cases
  | _ => fault_cases

/-! ## frames: a callee never returns more gas than it was given -/

/-- error predicates that every concrete (non out-of-fuel) outcome satisfies -/
def ErrPred (P : Option Fault → Prop) : Prop := ∀ e, e ≠ some .outOfFuel → P e

/-- a runner that returns no more gas than the frame had, and whose error satisfies `P`,
    on fresh frames (empty stack) holding at most `G` gas -/
def GoodRun (P : Option Fault → Prop) (run : Runner) (G : Nat) : Prop :=
  ∀ d ro fr g, fr.gas ≤ G → fr.stack = [] → (run d ro fr g).gas ≤ fr.gas ∧ P (run d ro fr g).err

def GoodRes (P : Option Fault → Prop) (gas : Nat) (c : CallRes) : Prop := c.gas ≤ gas ∧ P c.err

variable {P : Option Fault → Prop}

theorem runContract_good {run : Runner} {G : Nat} (hP : ErrPred P) (hr : GoodRun P run G) (depth : Nat) (ro : Bool) (fr : Frame)
    (g : Global) (hg : fr.gas ≤ G) (hs : fr.stack = []) :
    (runContract run depth ro fr g).gas ≤ fr.gas ∧ P (runContract run depth ro fr g).err := by
  unfold runContract
  simp only
  split
  · exact ⟨by simp, hP _ (by simp)⟩
  · exact hr _ _ _ _ hg hs

theorem finishCallRes_good (hP : ErrPred P) (snap : String) (ret : BA) (rgas gas : Nat) (err : Option Fault) (g : Global)
    (h : rgas ≤ gas ∧ P err) : GoodRes P gas (finishCallRes snap ret rgas err g) := by
  unfold finishCallRes GoodRes
  obtain ⟨h1, h2⟩ := h
  split
  · exact ⟨h1, h2⟩
  · rename_i e
    split
    · exact ⟨h1, h2⟩
    · split
      · exact ⟨h1, hP _ (by simp)⟩
      · simp only
        constructor
        · split <;> omega
        · exact h2

theorem runPrecompile_good (hP : ErrPred P) (addr : Nat) (input : BA) (gas : Nat) (g : Global) :
    (runPrecompile addr input gas g).gas ≤ gas ∧ P (runPrecompile addr input gas g).err := by
  unfold runPrecompile
  simp only
  repeat' split
  all_goals (first | exact ⟨Nat.zero_le _, hP _ (by simp)⟩ | exact ⟨Nat.sub_le _ _, hP _ (by simp)⟩)

set_option maxHeartbeats 2000000 in
theorem evmCall_good {run : Runner} {G : Nat} (hP : ErrPred P) (hr : GoodRun P run G) (depth : Nat) (ro : Bool) (k : CallKind)
    (cs cc : Nat) (cv : Word) (addr : Nat) (value : Word) (input : BA) (gas : Nat) (g : Global) (hg : gas ≤ G) :
    GoodRes P gas (evmCall run depth ro k cs cc cv addr value input gas g) := by
  unfold evmCall
  simp only
  repeat' split
  all_goals (first
    | (exact ⟨Nat.le_refl _, hP _ (by simp)⟩)
    | (apply finishCallRes_good hP; exact runPrecompile_good hP _ _ _ _)
    | (apply finishCallRes_good hP; exact runContract_good hP hr _ _ _ _ hg rfl))

theorem createDeposit_good (hP : ErrPred P) (p26 : Bool) (address : Nat) (r : RunRes) (gas : Nat)
    (h : r.gas ≤ gas) : GoodRes P gas (createDeposit p26 address r) := by
  unfold createDeposit GoodRes
  simp only
  split
  · rename_i gasLeft hu
    have := useGas_spec hu
    split
    · simp only; exact ⟨by omega, hP _ (by simp)⟩
    · simp only; exact ⟨h, hP _ (by simp)⟩
  · simp only; exact ⟨h, hP _ (by simp)⟩

theorem createRevert_good (hP : ErrPred P) (address : Nat) (snap : String) (tooBig : Bool) (r : RunRes) (gas : Nat)
    (h : r.gas ≤ gas ∧ P r.err) : GoodRes P gas (createRevert address snap tooBig r) := by
  obtain ⟨h1, h2⟩ := h
  unfold createRevert GoodRes
  split
  · simp only; exact ⟨h1, hP _ (by simp)⟩
  · simp only
    constructor
    · split <;> omega
    · split
      · exact hP _ (by simp)
      · exact h2

theorem createFinish_good (hP : ErrPred P) (p26 : Bool) (address : Nat) (snap : String) (r : RunRes) (gas : Nat)
    (h : r.gas ≤ gas ∧ P r.err) : GoodRes P gas (createFinish p26 address snap r) := by
  unfold createFinish
  simp only
  split
  · exact h
  · split
    · exact createDeposit_good hP _ _ _ _ h.1
    · exact createRevert_good hP _ _ _ _ _ h

set_option maxHeartbeats 4000000 in
theorem evmCreate_good {run : Runner} {G : Nat} (hP : ErrPred P) (cx : Ctx) (hr : GoodRun P run G) (depth : Nat) (ro : Bool)
    (cs : Nat) (salt : Option Word) (value : Word) (init : BA) (gas : Nat) (g : Global) (hg : gas ≤ G) :
    GoodRes P gas (evmCreate cx run depth ro cs salt value init gas g) := by
  unfold evmCreate
  simp only
  repeat' split
  all_goals (first
    | (exact ⟨Nat.le_refl _, hP _ (by simp)⟩)
    | (exact ⟨Nat.zero_le _, hP _ (by simp)⟩)
    | (apply createFinish_good hP; exact runContract_good hP hr _ _ _ _ hg rfl))

set_option maxHeartbeats 2000000 in
theorem evmAuthCall_good {run : Runner} {G : Nat} (hP : ErrPred P) (cx : Ctx) (hr : GoodRun P run G) (depth : Nat) (ro : Bool)
    (auth addr : Nat) (value : Word) (input : BA) (gas : Nat) (g : Global) (hg : gas ≤ G) :
    GoodRes P gas (evmAuthCall cx run depth ro auth addr value input gas g) := by
  unfold evmAuthCall
  simp only
  repeat' split
  all_goals (first
    | (exact ⟨Nat.le_refl _, hP _ (by simp)⟩)
    | (apply finishCallRes_good hP; exact runPrecompile_good hP _ _ _ _)
    | (apply finishCallRes_good hP; exact runContract_good hP hr _ _ _ _ hg rfl))

theorem doInvoke_good {run : Runner} {G : Nat} (hP : ErrPred P) (cx : Ctx) (hr : GoodRun P run G) (depth : Nat) (ro : Bool)
    (fr : Frame) (r : Req) (g : Global) (hg : reqGas r ≤ G) :
    GoodRes P (reqGas r) (doInvoke cx run depth ro fr r g) := by
  cases r with
  | call k addr value input gas ro' rs io => exact evmCall_good hP hr _ _ _ _ _ _ _ _ _ _ _ hg
  | create salt value init gas => exact evmCreate_good hP cx hr _ _ _ _ _ _ _ _ hg
  | authcall auth addr value input gas ro' rs => exact evmAuthCall_good hP cx hr _ _ _ _ _ _ _ _ hg

/-! ## the loop: gas only decreases, and `2·gas + stack height + 1` loop iterations suffice -/

/-- what the main induction establishes of a run that started with `gas0` gas -/
def RunOk (fuelOk : Prop) (gas0 : Nat) (r : RunRes) : Prop :=
  r.gas ≤ gas0 ∧ (fuelOk → r.err ≠ some .outOfFuel)

theorem resume_spec (fr : Frame) (r : Req) (cr : CallRes) :
    (resume fr r cr).1.gas = wadd fr.gas cr.gas ∧ (resume fr r cr).1.stack.length = fr.stack.length + 1 := by
  cases r <;> simp [resume]

theorem finishStep_ok (info : OpInfo) (cont : Frame → Global → RunRes) (fr2 : Frame) (res : BA) (g2 : Global)
    (gas0 : Nat) (F : Prop) (hg : fr2.gas ≤ gas0)
    (hc : info.reverts = false → info.halts = false →
      ∀ fr3 g3, fr3.gas = fr2.gas → fr3.stack = fr2.stack → RunOk F gas0 (cont fr3 g3)) :
    RunOk F gas0 (finishStep info cont fr2 res g2) := by
  unfold finishStep
  simp only
  split
  · exact ⟨hg, fun _ => by simp⟩
  · rename_i hrev
    split
    · exact ⟨hg, fun _ => by simp⟩
    · rename_i hhalt
      apply hc (by simpa using hrev) (by simpa using hhalt)
      · split <;> rfl
      · split <;> rfl

/-- the termination measure strictly decreases over a non-halting, non-invoking step -/
theorem phi_decreases (cx : Ctx) (fr : Frame) (g : Global) (info : OpInfo) (fr1 : Frame) (args : List Word)
    (g1 : Global) (cgt : Nat) (hp : PreOk cx fr g info fr1 args g1 cgt) (ha : entryAll info = true)
    (hrev : info.reverts = false) (hhalt : info.halts = false) :
    2 * fr1.gas + (info.exec.pushes + fr1.stack.length) + 1 ≤ 2 * fr.gas + fr.stack.length := by
  unfold entryAll at ha
  simp only [Bool.and_eq_true, decide_eq_true_eq] at ha
  obtain ⟨⟨⟨⟨⟨⟨⟨⟨⟨_, hso⟩, hcost⟩, hgrow⟩, _⟩, _⟩, _⟩, _⟩, _⟩, _⟩ := ha
  unfold entryStackOk at hso
  simp only [Bool.and_eq_true, beq_iff_eq] at hso
  obtain ⟨memorySize, cost, m', hdyn, hgas, _, _⟩ := hp.dyn
  have hmin := hp.minOk
  have hlen : fr1.stack.length = fr.stack.length - info.exec.pops := by rw [hp.stack]; simp
  unfold entryCosts at hcost
  simp only [hrev, hhalt, Bool.false_or, Bool.or_eq_true, decide_eq_true_eq] at hcost
  rcases hcost with (hc | hs) | hd
  · omega
  · -- SSTORE: free before Proposal015, removes two words
    split at hs
    · rename_i hex
      rw [hex] at hgrow hso hlen ⊢
      simp only [Exec.pops, Exec.pushes] at *
      omega
    · cases hs
  · -- EXP / LOGn: the dynamic part is at least 10 / 375
    have hcge : 1 ≤ cost := by
      split at hd
      · rename_i n hdn
        rw [hdn] at hdyn
        unfold dynGas at hdyn
        simp only at hdyn
        split at hdyn
        · cases hdyn
        · rename_i gas mm hl
          cases hdyn
          have := logGas_ge hl; omega
      · rename_i hdn
        rw [hdn] at hdyn
        unfold dynGas at hdyn
        simp only at hdyn
        split at hdyn
        · cases hdyn
        · rename_i gas hl
          cases hdyn
          have := expGas_ge (by omega) hl; omega
      · rename_i hdn
        rw [hdn] at hdyn
        unfold dynGas at hdyn
        simp only at hdyn
        split at hdyn
        · cases hdyn
        · rename_i gas hl
          cases hdyn
          have := expGas_ge (by omega) hl; omega
      · cases hd
    omega

theorem getD_take_lt (s : List Word) (n i : Nat) (h : i < n) : (s.take n).getD i 0 = s.getD i 0 := by
  simp [List.getD_eq_getElem?_getD, h]

/-- AUTHCALL charges its base cost plus the forwarded gas -/
theorem dynGas_authcall_cgt (gc : GasCfg) (s : List Word) (m m' : Mem) (ms gas self : Nat) (g g' : Global)
    (cost cgt : Nat) (h : dynGas gc .authcall s m ms gas self g = .ok cost m' g' cgt) : cgt ≤ cost := by
  simp only [dynGas] at h
  repeat' split at h
  all_goals (first | (cases h; done) | skip)
  all_goals
    rename_i hov
    have := safeAdd_ok (Bool.eq_false_iff.mpr hov)
    simp only [DynRes.ok.injEq] at h
    obtain ⟨hc, _, _, hg⟩ := h
    omega

/-- gas accounting around a nested call / create -/
theorem invoke_gas (cx : Ctx) (fr : Frame) (g : Global) (info : OpInfo) (fr1 : Frame) (args : List Word)
    (g1 : Global) (cgt : Nat) (req : Req) (d : Nat)
    (hp : PreOk cx fr g info fr1 args g1 cgt) (ha : entryAll info = true) (hlt : fr.gas < 2 ^ 64)
    (hi : InvokeOk info.exec fr1 args cgt req d) :
    d ≤ fr1.gas ∧ reqGas req + 100 ≤ fr.gas ∧ (fr1.gas - d) + reqGas req + 100 ≤ fr.gas ∧
    info.exec.pushes = 1 ∧ 3 ≤ info.exec.pops := by
  unfold entryAll at ha
  simp only [Bool.and_eq_true, decide_eq_true_eq] at ha
  obtain ⟨⟨⟨⟨⟨⟨⟨⟨⟨_, _⟩, _⟩, _⟩, hcc⟩, _⟩, hcd⟩, _⟩, _⟩, _⟩ := ha
  obtain ⟨memorySize, cost, m', hdyn, hgas, _, _⟩ := hp.dyn
  have hf1 : fr1.gas < 2 ^ 64 := by omega
  rcases hi with ⟨he, hd, hrg, _⟩ | ⟨k, he, hd, _, hrg⟩ | ⟨he, hd, hrg⟩
  · -- create / create2
    have hw : wsub fr1.gas (fr1.gas / 64) = fr1.gas - fr1.gas / 64 := wsub_exact _ _ hf1 (by omega)
    have hconst : 32000 ≤ info.constGas := by
      unfold entryCallCosts at hcc
      rcases he with he | he <;> (rw [he] at hcc; simp at hcc; exact hcc.1.1.1)
    have hpp : info.exec.pushes = 1 ∧ 3 ≤ info.exec.pops := by
      rcases he with he | he <;> (rw [he]; simp [Exec.pushes, Exec.pops])
    rw [hrg, hd, hw]
    refine ⟨by omega, by omega, by omega, hpp⟩
  · -- the call family
    have hconst : 700 ≤ info.constGas := by
      unfold entryCallCosts at hcc
      rw [he] at hcc; simp at hcc; exact hcc.1.1.1
    have hpp : info.exec.pushes = 1 ∧ 3 ≤ info.exec.pops := by
      rw [he]; cases k <;> simp [Exec.pushes, Exec.pops]
    have hu : useGas (fr.gas - info.constGas) cost = some fr1.gas := by
      unfold useGas; rw [if_neg (by omega)]; congr 1; omega
    have hdynk : (k = .call → info.dyn = .call) ∧ (k = .callcode → info.dyn = .callcode) ∧
        (k = .delegatecall → info.dyn = .delegatecall) ∧ (k = .staticcall → info.dyn = .staticcall) := by
      unfold entryCallDyn at hcd
      rw [he] at hcd
      cases k <;> simp at hcd <;> simp [hcd]
    have hdg := dynGas_call cx.gc info.dyn fr.stack fr.mem m' memorySize (fr.gas - info.constGas) fr.self g g1
      cost cgt fr1.gas (by omega) hdyn hu
    have hargs2 : args.getD 2 0 = back fr.stack 2 := by
      rw [hp.argsEq]; unfold back; exact getD_take_lt _ _ _ (by omega)
    have hcgt : cgt ≤ cost := by
      cases k
      · exact (hdg.1 (Or.inl (hdynk.1 rfl))).1
      · exact (hdg.1 (Or.inr (hdynk.2.1 rfl))).1
      · exact hdg.2 (Or.inl (hdynk.2.2.1 rfl))
      · exact hdg.2 (Or.inr (hdynk.2.2.2 rfl))
    rw [hd]
    rcases hrg with hrg | ⟨hrg, hk, hv⟩
    · rw [hrg]
      refine ⟨by omega, by omega, by omega, hpp⟩
    · have h9 : cgt + 9000 ≤ cost := by
        rw [hargs2] at hv
        rcases hk with hk | hk
        · exact (hdg.1 (Or.inl (hdynk.1 hk))).2 hv
        · exact (hdg.1 (Or.inr (hdynk.2.1 hk))).2 hv
      have := wadd_le cgt 2300
      rw [hrg]
      refine ⟨by omega, by omega, by omega, hpp⟩
  · -- AUTHCALL: no stipend, forwarded gas is part of the dynamic cost
    have hconst : 100 ≤ info.constGas := by
      unfold entryCallCosts at hcc
      rw [he] at hcc; simp at hcc; exact hcc.1.1.1
    have hpp : info.exec.pushes = 1 ∧ 3 ≤ info.exec.pops := by
      rw [he]; simp [Exec.pushes, Exec.pops]
    have hdn : info.dyn = .authcall := by
      unfold entryCallDyn at hcd
      rw [he] at hcd
      simpa using hcd
    rw [hdn] at hdyn
    have hcgt := dynGas_authcall_cgt _ _ _ _ _ _ _ _ _ _ _ hdyn
    rw [hd, hrg]
    refine ⟨by omega, by omega, by omega, hpp⟩

theorem errPred_ne : ErrPred (fun e => e ≠ some .outOfFuel) := fun _ h => h
theorem errPred_true : ErrPred (fun _ => True) := fun _ _ => trivial

theorem isAbortErr_outOfFuel {e : Option Fault} (h : isAbortErr e = false) : e ≠ some .outOfFuel := by
  intro he; subst he; simp [isAbortErr, Fault.isAbort] at h

/-- **The main induction.** For every table satisfying the generated-table facts, every
    fuel, depth, read-only flag, frame and oracle: the run returns no more gas than the
    frame held, and if `2·gas + stack height < fuel` it does not run out of fuel. -/
theorem run_main (cx : Ctx) (ht : TableOk cx.table) :
    ∀ (fuel depth : Nat) (ro : Bool) (fr : Frame) (g : Global), fr.gas < 2 ^ 64 →
      RunOk (2 * fr.gas + fr.stack.length < fuel) fr.gas (runLoop cx fuel depth ro fr g) := by
  intro fuel
  induction fuel with
  | zero =>
    intro depth ro fr g _
    unfold runLoop RunOk
    exact ⟨Nat.le_refl _, fun h => by omega⟩
  | succ fuel ih =>
    intro depth ro fr g hlt
    unfold runLoop
    split
    · -- stepPre fault
      rename_i e g' hpre
      exact ⟨Nat.le_refl _, fun _ => by simp; exact (stepPre_fault _ _ _ _ _ _ hpre).1⟩
    · rename_i info fr1 args g1 cgt hpre
      have hp := stepPre_ok _ _ _ _ _ _ _ _ _ hpre
      have ha := ht _ _ hp.entry
      obtain ⟨memorySize, cost, m', hdyn, hgas, _, _⟩ := hp.dyn
      have hf1 : fr1.gas ≤ fr.gas := by omega
      have hlen : fr1.stack.length = fr.stack.length - info.exec.pops := by rw [hp.stack]; simp
      split
      · -- execute fault
        rename_i e g2 hex
        exact ⟨hf1, fun _ => by simp; exact execOp_fault _ _ _ _ _ _ _ _ _ hex⟩
      · -- ordinary execute
        rename_i u hex
        have hargs : args.length = info.exec.pops := by
          rw [hp.argsEq]
          have hso : info.minStack = info.exec.pops := by
            unfold entryAll entryStackOk at ha
            simp only [Bool.and_eq_true, beq_iff_eq] at ha
            exact ha.1.1.1.1.1.1.1.1.2.1
          have := hp.minOk
          simp; omega
        have hu := execOp_upd _ _ _ _ _ _ _ _ hargs hex
        apply finishStep_ok
        · exact hf1
        · intro hrev hhalt fr3 g3 hg3 hs3
          have hdec := phi_decreases cx fr _ info fr1 args g1 cgt hp ha hrev hhalt
          have := ih depth ro fr3 g3 (by rw [hg3]; simp only; omega)
          unfold RunOk at this ⊢
          rw [hg3, hs3] at this
          simp only [List.length_append] at this
          refine ⟨by omega, fun hF => this.2 ?_⟩
          rw [hu.1]; omega
      · -- nested call / create
        rename_i req deduct g2 hex
        have hi := execOp_invoke _ _ _ _ _ _ _ _ _ _ hex
        obtain ⟨hd, hchild, hback, hpush, hpops⟩ := invoke_gas cx fr _ info fr1 args g1 cgt req deduct hp ha hlt hi
        simp only
        -- the callee returns at most what it was given (whatever the fuel)
        have hrunA : GoodRun (fun _ => True) (runLoop cx fuel) (reqGas req) := by
          intro d ro' fr' g' hg' _
          exact ⟨(ih d ro' fr' g' (by omega)).1, trivial⟩
        have hcrA := doInvoke_good errPred_true cx hrunA depth ro { fr1 with gas := fr1.gas - deduct } req g2 (Nat.le_refl _)
        split
        · -- abort (tie / model artefacts): propagate
          rename_i hab
          refine ⟨by simp only; omega, fun hF => ?_⟩
          have hrunB : GoodRun (fun e => e ≠ some .outOfFuel) (runLoop cx fuel) (reqGas req) := by
            intro d ro' fr' g' hg' hs'
            have := ih d ro' fr' g' (by omega)
            exact ⟨this.1, this.2 (by rw [hs']; simp; omega)⟩
          exact (doInvoke_good errPred_ne cx hrunB depth ro { fr1 with gas := fr1.gas - deduct } req g2 (Nat.le_refl _)).2
        · rename_i hab
          have hrs := resume_spec { fr1 with gas := fr1.gas - deduct } req
            (doInvoke cx (runLoop cx fuel) depth ro { fr1 with gas := fr1.gas - deduct } req g2)
          simp only at hrs
          have hwl := wadd_le (fr1.gas - deduct) (doInvoke cx (runLoop cx fuel) depth ro { fr1 with gas := fr1.gas - deduct } req g2).gas
          have hwlt := wadd_lt (fr1.gas - deduct) (doInvoke cx (runLoop cx fuel) depth ro { fr1 with gas := fr1.gas - deduct } req g2).gas
          have hcg := hcrA.1
          apply finishStep_ok
          · rw [hrs.1]; omega
          · intro hrev hhalt fr3 g3 hg3 hs3
            have := ih depth ro fr3 g3 (by rw [hg3, hrs.1]; exact hwlt)
            unfold RunOk at this ⊢
            rw [hg3, hs3, hrs.1, hrs.2] at this
            refine ⟨by omega, fun hF => this.2 ?_⟩
            omega

/-! ## headline theorems -/

/-- the contexts the driver builds: any of the 8 generated jump tables, any flags, any block context -/
def GenCtx (cx : Ctx) : Prop := ∃ a b c, cx.table = Gen.tableOf a b c

theorem genCtx_tableOk {cx : Ctx} (h : GenCtx cx) : TableOk cx.table := by
  obtain ⟨a, b, c, h⟩ := h
  rw [h]; exact gen_tables_ok a b c

/-- **gas_bounded (frames).** In every fork configuration, for every frame (any code, stack,
    memory, gas below 2^64), every fuel and every behaviour of the state oracle: the gas left
    when the frame ends — normally, by revert or by any fault — is at most the gas it started
    with. (With `run_main` this holds step by step: the remaining run from any intermediate
    frame returns at most that frame's gas, i.e. gas only decreases within a frame.) -/
theorem gas_bounded (cx : Ctx) (hcx : GenCtx cx) (fuel depth : Nat) (ro : Bool) (fr : Frame) (g : Global)
    (hg : fr.gas < 2 ^ 64) : (runLoop cx fuel depth ro fr g).gas ≤ fr.gas :=
  (run_main cx (genCtx_tableOk hcx) fuel depth ro fr g hg).1

/-- **gas_bounded (calls): a callee never returns more than it was given.** `evm.Call`,
    `CallCode`, `DelegateCall`, `StaticCall`, `Create`, `Create2` — nested or top level —
    return `leftOverGas ≤ gas`. -/
theorem callee_returns_at_most (cx : Ctx) (hcx : GenCtx cx) (fuel depth : Nat) (ro : Bool) (fr : Frame) (r : Req)
    (g : Global) (hg : reqGas r < 2 ^ 64) :
    (doInvoke cx (runLoop cx fuel) depth ro fr r g).gas ≤ reqGas r := by
  have hrun : GoodRun (fun _ => True) (runLoop cx fuel) (reqGas r) := by
    intro d ro' fr' g' hg' _
    exact ⟨(run_main cx (genCtx_tableOk hcx) fuel d ro' fr' g' (by omega)).1, trivial⟩
  exact (doInvoke_good errPred_true cx hrun depth ro fr r g (Nat.le_refl _)).1

theorem gas_bounded_topCall (cx : Ctx) (hcx : GenCtx cx) (fuel addr : Nat) (value : Word) (input : BA) (gas : Nat)
    (g : Global) (hg : gas < 2 ^ 64) : (topCall cx fuel addr value input gas g).gas ≤ gas := by
  have hrun : GoodRun (fun _ => True) (runLoop cx fuel) gas := by
    intro d ro' fr' g' hg' _
    exact ⟨(run_main cx (genCtx_tableOk hcx) fuel d ro' fr' g' (by omega)).1, trivial⟩
  exact (evmCall_good errPred_true hrun 0 false .call cx.origin cx.origin 0 addr value input gas g (Nat.le_refl _)).1

theorem gas_bounded_topCreate (cx : Ctx) (hcx : GenCtx cx) (fuel : Nat) (value : Word) (init : BA) (gas : Nat)
    (g : Global) (hg : gas < 2 ^ 64) : (topCreate cx fuel value init gas g).gas ≤ gas := by
  have hrun : GoodRun (fun _ => True) (runLoop cx fuel) gas := by
    intro d ro' fr' g' hg' _
    exact ⟨(run_main cx (genCtx_tableOk hcx) fuel d ro' fr' g' (by omega)).1, trivial⟩
  exact (evmCreate_good errPred_true cx hrun 0 false cx.origin none value init gas g (Nat.le_refl _)).1

/-- **fuel_suffices / terminates.** With the fuel the driver supplies (`2·gas + 2`), no run —
    of any code, call data, value, gas limit below 2^64, fork configuration, oracle — ends in
    the fuel-exhausted branch: the interpreter loop and all nested frames terminate, because
    `2·gas + stack height` strictly decreases at every loop iteration
    (`Props.C11.nonhalting_costs`, `pushes_at_most_one_more`, `calls_cost`). -/
theorem fuel_suffices_call (cx : Ctx) (hcx : GenCtx cx) (addr : Nat) (value : Word) (input : BA) (gas : Nat)
    (g : Global) (hg : gas < 2 ^ 64) :
    (topCall cx (2 * gas + 2) addr value input gas g).err ≠ some .outOfFuel := by
  have hrun : GoodRun (fun e => e ≠ some .outOfFuel) (runLoop cx (2 * gas + 2)) gas := by
    intro d ro' fr' g' hg' hs'
    have := run_main cx (genCtx_tableOk hcx) (2 * gas + 2) d ro' fr' g' (by omega)
    exact ⟨this.1, this.2 (by rw [hs']; simp; omega)⟩
  exact (evmCall_good errPred_ne hrun 0 false .call cx.origin cx.origin 0 addr value input gas g (Nat.le_refl _)).2

theorem fuel_suffices_create (cx : Ctx) (hcx : GenCtx cx) (value : Word) (init : BA) (gas : Nat)
    (g : Global) (hg : gas < 2 ^ 64) :
    (topCreate cx (2 * gas + 2) value init gas g).err ≠ some .outOfFuel := by
  have hrun : GoodRun (fun e => e ≠ some .outOfFuel) (runLoop cx (2 * gas + 2)) gas := by
    intro d ro' fr' g' hg' hs'
    have := run_main cx (genCtx_tableOk hcx) (2 * gas + 2) d ro' fr' g' (by omega)
    exact ⟨this.1, this.2 (by rw [hs']; simp; omega)⟩
  exact (evmCreate_good errPred_ne cx hrun 0 false cx.origin none value init gas g (Nat.le_refl _)).2

/-- per frame: `2·gas + stack height + 1` iterations are enough, whatever the frame -/
theorem terminates (cx : Ctx) (hcx : GenCtx cx) (depth : Nat) (ro : Bool) (fr : Frame) (g : Global)
    (hg : fr.gas < 2 ^ 64) :
    (runLoop cx (2 * fr.gas + fr.stack.length + 1) depth ro fr g).err ≠ some .outOfFuel :=
  (run_main cx (genCtx_tableOk hcx) _ depth ro fr g hg).2 (by omega)

/-- non-vacuity: a generated context exists, and an infinite loop `JUMPDEST PUSH1 0 JUMP`
    with 100000 gas under the newest table ends out of gas, not out of fuel -/
def demoCtx : Ctx := { (default : Ctx) with table := Gen.tableOf true true true, gc := ⟨true, true⟩ }
example : GenCtx demoCtx := ⟨true, true, true, rfl⟩

