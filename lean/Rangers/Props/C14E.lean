import Rangers.Model.Bls14Verify
import Rangers.Model.Bls14Hash
import Rangers.Proofs.Bls14Bytes
import Rangers.Proofs.Bls14Field
import Rangers.Proofs.Bls14Model
/-!
# C14, part 2 — encodings of secret keys, ids and public keys; hash-to-G1; negation

"Secret keys, public keys, signatures and ids survive a serialise/parse round trip unchanged."
(The signature round trip is `Props.C14.sig_roundtrip`.)
-/
namespace Rangers.Props.C14
open Rangers Rangers.Model.Bls14 Rangers.Proofs.Bls14

/-! ## secret keys (`BnInt` = `big.Int`, minimal big-endian bytes) -/

/-- Every secret-key value (any natural number, reduced or not) survives Serialize/Deserialize. -/
theorem scalar_roundtrip (n : Nat) : scalarDeserialize (scalarSerialize n) = n :=
  beToNat_natToBE n

/-- The other direction is not injective on bytes: leading zero bytes are dropped by `SetBytes`
    (so the parse of a byte string is not determined by its value alone — recorded, not claimed
    by the property). -/
theorem scalar_leading_zeros (k : Nat) (b : Bytes) :
    scalarDeserialize (List.replicate k 0 ++ b) = scalarDeserialize b := by
  simp [scalarDeserialize, beToNat_append, beToNat_replicate_zero]

/-- `NewSeckeyFromBigInt` yields a reduced scalar and is idempotent. -/
theorem seckey_reduced (n : Nat) : seckeyFromNat n < R ∧ seckeyFromNat (seckeyFromNat n) = seckeyFromNat n := by
  refine ⟨Nat.mod_lt _ (by decide), ?_⟩
  simp [seckeyFromNat]

/-! ## ids (left-padded to 32 bytes; explicit panic above 2^256) -/

/-- `id_roundtrip`: every id below 2^256 serialises to exactly 32 bytes that parse back to it. -/
theorem id_roundtrip (n : Nat) (h : n < 2 ^ 256) :
    ∃ b, idSerialize n = some b ∧ b.length = 32 ∧ scalarDeserialize b = n := by
  have hle : (natToBE n).length ≤ 32 := natToBE_length_le n 32 (by
    have : (256 : Nat) ^ 32 = 2 ^ 256 := by decide
    omega)
  unfold idSerialize
  simp only [IDL, Generated.Bls14.idLength]
  by_cases h32 : (natToBE n).length = 32
  · refine ⟨natToBE n, by simp [h32], h32, beToNat_natToBE n⟩
  · have hlt : ¬ (natToBE n).length > 32 := by omega
    refine ⟨padLeft 32 (natToBE n), by simp [h32, hlt], padLeft_length 32 _ hle, ?_⟩
    simp [scalarDeserialize, beToNat_padLeft, beToNat_natToBE]

example : (12345 : Nat) < 2 ^ 256 := by decide

/-- The error branch is explicit, not defaulted: `ID.Serialize` panics exactly for values ≥ 2^256
    (reachable only through `Deserialize` of more than 32 bytes / `SetHexString`). -/
theorem id_serialize_panics_iff (n : Nat) : idSerialize n = none ↔ 2 ^ 256 ≤ n := by
  have hpow : (256 : Nat) ^ 32 = 2 ^ 256 := by decide
  unfold idSerialize
  simp only [IDL, Generated.Bls14.idLength]
  constructor
  · intro h
    by_cases h32 : (natToBE n).length = 32
    · simp [h32] at h
    · by_cases hgt : (natToBE n).length > 32
      · -- more than 32 digits: n ≥ 256^32
        by_contra hlt
        have := natToBE_length_le n 32 (by omega)
        omega
      · simp [h32, hgt] at h
  · intro h
    have hlen : (natToBE n).length > 32 := by
      by_contra hle
      have h1 := natToBE_length_lt n
      have : 256 ^ (natToBE n).length ≤ 256 ^ 32 := Nat.pow_le_pow_right (by decide) (by omega)
      omega
    have h32 : (natToBE n).length ≠ 32 := by omega
    simp [h32, hlen]

/-! ## public keys (G2) -/

/-- A short input to `G2.Unmarshal` on a nil receiver leaves a NON-nil infinity behind
    (allocation precedes the length check) — so `Pubkey.Deserialize` with its error ignored
    yields a key that `IsValid()` accepts. `ByteToPublicKey` discards it. -/
theorem g2_unmarshal_short (b : Bytes) (h : b.length < 128) :
    g2Unmarshal .nil b = (.pt .inf, .short) ∧ byteToPublicKey b = .nil := by
  have : g2Unmarshal .nil b = (.pt .inf, .short) := by rw [g2Unmarshal_def]; simp [h]
  exact ⟨this, by simp [byteToPublicKey, this]⟩

/-- `g2_marshal_unmarshal`: a reduced non-identity twist point survives Marshal/Unmarshal. -/
theorem g2_marshal_unmarshal (recv : G2Val) (x y : F2)
    (hr : x.x < P ∧ x.y < P ∧ y.x < P ∧ y.y < P) (hc : onTwistXY x y = true) :
    g2Unmarshal recv (g2Marshal (.aff x y)) = (.pt (.aff x y), .ok []) := by
  obtain ⟨h0, h1, h2, h3⟩ := hr
  have l : ∀ v, (beFixed 32 v).length = 32 := beFixed_length 32
  have v : ∀ a, a < P → beToNat (beFixed 32 a) % P = a := fun a ha => by
    rw [beToNat_beFixed_of_lt 32 a (Nat.lt_trans ha P_lt), Nat.mod_eq_of_lt ha]
  have s0 : slice (g2Marshal (.aff x y)) 0 = beFixed 32 x.x := by
    rw [g2Marshal_aff, slice_zero _ _ (l _)]
  have s1 : slice (g2Marshal (.aff x y)) 1 = beFixed 32 x.y := by
    rw [g2Marshal_aff, slice_succ _ _ 0 (l _), slice_zero _ _ (l _)]
  have s2 : slice (g2Marshal (.aff x y)) 2 = beFixed 32 y.x := by
    rw [g2Marshal_aff, slice_succ _ _ 1 (l _), slice_succ _ _ 0 (l _), slice_zero _ _ (l _)]
  have s3 : slice (g2Marshal (.aff x y)) 3 = beFixed 32 y.y := by
    rw [g2Marshal_aff, slice_succ _ _ 2 (l _), slice_succ _ _ 1 (l _), slice_succ _ _ 0 (l _),
      slice_zero _ _ (l _)]
  have hlen : (g2Marshal (.aff x y)).length = 128 := by simp [g2Marshal_aff, l]
  have hnz : ¬ ((x.isZero && y.isZero) = true) := by
    intro hz
    simp only [F2.isZero, Bool.and_eq_true, beq_iff_eq] at hz
    obtain ⟨⟨a, b⟩, c, d⟩ := hz
    have hx : x = ⟨0, 0⟩ := by cases x; simp_all
    have hy : y = ⟨0, 0⟩ := by cases y; simp_all
    rw [hx, hy] at hc; revert hc; decide
  rw [g2Unmarshal_def, if_neg (by omega), s0, s1, s2, s3, v _ h0, v _ h1, v _ h2, v _ h3]
  have ex : (⟨x.x, x.y⟩ : F2) = x := by cases x; rfl
  have ey : (⟨y.x, y.y⟩ : F2) = y := by cases y; rfl
  rw [ex, ey, if_neg hnz, if_pos hc, List.drop_of_length_le (by omega)]

example : onTwistXY ⟨Generated.Bls14.twistGenXX, Generated.Bls14.twistGenXY⟩
    ⟨Generated.Bls14.twistGenYX, Generated.Bls14.twistGenYY⟩ = true := by decide

/-- `pubkey_roundtrip`: every valid public key (non-identity point of the twist; the image of a
    secret key `sk ≢ 0`) survives `Serialize` / `ByteToPublicKey`. -/
theorem pubkey_roundtrip (x y : F2)
    (hr : x.x < P ∧ x.y < P ∧ y.x < P ∧ y.y < P) (hc : onTwistXY x y = true) :
    byteToPublicKey (Pub.serialize (.pt (.aff x y))) = .pt (.aff x y) := by
  simp [byteToPublicKey, Pub.serialize, g2_marshal_unmarshal .nil x y hr hc]

/-- The identity of G2 (the key of the invalid secret key `0`, `Seckey.IsValid() = false`) is the one
    value that does not come back: `Marshal` writes ONE zero byte, `Unmarshal` wants 128. -/
theorem identity_pubkey_not_roundtrip : byteToPublicKey (Pub.serialize (.pt .inf)) = .nil := by
  decide

/-! ## parse targets that already hold a value -/

/-- **FullStatement**: parsing into an object that already holds something gives what parsing the
    same bytes into a fresh object gives (the object reflects the LAST bytes). -/
def FullStatement_parse_target_reflects_last_bytes : Prop :=
  ∀ (old : Sig) (b : Bytes), (Sig.deserialize old b).1 = deserializeSign b

/-- False of model and code (known finding `stale-value-after-short-parse`): a 1-byte input leaves
    the old, valid signature in place and the setter reports no error. -/
theorem parse_target_reflects_last_bytes_counterexample :
    ¬ FullStatement_parse_target_reflects_last_bytes := by
  intro h
  have := h (.pt g1Gen) [7]
  have e1 : g1Unmarshal (.pt g1Gen) [7] = (.pt g1Gen, .short) := by rw [g1Unmarshal_def]; simp
  have e2 : g1Unmarshal .nil [7] = (.nil, .short) := by rw [g1Unmarshal_def]; simp
  simp [Sig.deserialize, deserializeSign, e1, e2] at this

/-- **`parse_target_reflects_last_bytes_partial`**: for every input of at least 64 bytes — valid,
    off-curve, anything — the old content of the receiver is irrelevant: `G1.Unmarshal`, and hence
    `Signature.Deserialize` / `SetHexString`, overwrite it (an off-curve input leaves an INVALID
    value, never the earlier one). -/
theorem parse_target_reflects_last_bytes_partial (old : Sig) (b : Bytes) (h : 64 ≤ b.length) :
    g1Unmarshal old b = g1Unmarshal .nil b ∧ (Sig.deserialize old b).1 = deserializeSign b := by
  have hl : ¬ b.length < 64 := by omega
  have e : g1Unmarshal old b = g1Unmarshal .nil b := by
    rw [g1Unmarshal_def, g1Unmarshal_def, if_neg hl, if_neg hl]
  refine ⟨e, ?_⟩
  have hne : ¬ (b.length == 0) = true := by
    intro h0
    have : b.length = 0 := by simpa using h0
    omega
  simp [Sig.deserialize, deserializeSign, hne, e]

example : (64 : Nat) ≤ (g1Marshal g1Gen).length := by rw [g1_marshal_length]

/-- The same for public keys: at least 128 bytes overwrite the receiver whatever it held. -/
theorem pubkey_parse_target_reflects_last_bytes (old : Pub) (b : Bytes) (h : 128 ≤ b.length) :
    g2Unmarshal old b = g2Unmarshal .nil b := by
  have hl : ¬ b.length < 128 := by omega
  rw [g2Unmarshal_def, g2Unmarshal_def, if_neg hl, if_neg hl]

/-- A 128-byte encoding is never read as the identity because of its FIRST byte alone: the
    identity needs all four coordinates ≡ 0 (there is no tag byte in this format). -/
theorem g2_unmarshal_identity_iff (b : Bytes) (h : 128 ≤ b.length) :
    (g2Unmarshal .nil b).1 = .pt .inf ↔
      (beToNat (slice b 0) % P = 0 ∧ beToNat (slice b 1) % P = 0 ∧
       beToNat (slice b 2) % P = 0 ∧ beToNat (slice b 3) % P = 0) := by
  have hl : ¬ b.length < 128 := by omega
  rw [g2Unmarshal_def, if_neg hl]
  simp only [F2.isZero, Bool.and_eq_true, beq_iff_eq]
  constructor
  · intro hh
    split at hh
    · next hz => exact ⟨hz.1.1, hz.1.2, hz.2.1, hz.2.2⟩
    · split at hh <;> simp at hh
  · rintro ⟨h0, h1, h2, h3⟩
    simp [h0, h1, h2, h3]

/-! ## hash to G1 -/

/-- Whatever try-and-increment returns is a reduced point on the curve (so `HashToPoint`'s
    final `IsValid` check cannot fail), for every digest; no primality assumption. -/
theorem hashToPoint_onCurve (d : Bytes) (q : Pt) (h : hashToPoint d = some q) :
    q.onCurve = true ∧ q.reduced = true := by
  unfold hashToPoint at h
  generalize 512 = fuel at h
  generalize beToNat d % P = x0 at h
  induction fuel generalizing x0 with
  | zero => simp [hashLoop] at h
  | succ fuel ih =>
    rw [hashLoop] at h
    split at h
    · next y hy =>
      obtain ⟨hsq, hlt⟩ := modSqrt_sq _ _ hy
      have hq : q = .aff (x0 % P) y := by simpa using h.symm
      subst hq
      refine ⟨?_, by simp [Pt.reduced, Nat.mod_lt _ P_pos, hlt]⟩
      simp only [Pt.onCurve, onCurveXY, beq_iff_eq]
      rw [hsq]
      have m : x0 % P ≡ x0 [MOD P] := Nat.mod_modEq _ _
      exact (((m.mul m).mul m).add_right B).symm
    · exact ih _ h

example : (hashLoop 4 1).isSome = true := by decide +kernel

/-- The same for the end-to-end `hashToG1(m)` (SHA-256 inside the model): whatever message is
    hashed, a returned point is valid — so `Sign` never starts from an off-curve point. -/
theorem hashToG1_onCurve (m : Bytes) (q : Pt) (h : hashToG1 m = some q) :
    q.onCurve = true ∧ q.reduced = true :=
  hashToPoint_onCurve _ q h

/-- The postcondition of the UNBOUNDED try-and-increment loop is an affine curve point: `H(m)` is never
    the identity (the loop of the code has no bound and no `SetInfinity` exit — pinned by
    `shape_hashToCurvePointLoop`, `shape_hashToPointCalls`). -/
theorem hashToG1_ne_identity (m : Bytes) (q : Pt) (h : hashToG1 m = some q) : q ≠ .inf := by
  unfold hashToG1 hashToPoint at h
  generalize 512 = fuel at h
  generalize beToNat (Sha.sha256 m) % P = x0 at h
  induction fuel generalizing x0 with
  | zero => simp [hashLoop] at h
  | succ fuel ih =>
    rw [hashLoop] at h
    split at h
    · intro hq; rw [hq] at h; cases h
    · exact ih _ h

/-- The digest is always 32 bytes (eight 32-bit words), so it is read as a 256-bit number. -/
theorem sha256_length (m : Bytes) : (Sha.sha256 m).length = 32 := by
  unfold Sha.sha256
  simp only
  generalize Sha.chunks16 _ _ = cs
  have hsz : ∀ (cs : List (Array UInt32)) (h : Array UInt32), h.size = 8 →
      (cs.foldl Sha.compress h).size = 8 := by
    intro cs
    induction cs with
    | nil => intro h hh; simpa using hh
    | cons c cs ih =>
      intro h hh
      rw [List.foldl_cons]
      apply ih
      simp [Sha.compress]
  have h8 := hsz cs #[0x6a09e667, 0xbb67ae85, 0x3c6ef372, 0xa54ff53a, 0x510e527f, 0x9b05688c, 0x1f83d9ab, 0x5be0cd19] rfl
  generalize List.foldl Sha.compress _ cs = h at h8
  obtain ⟨l⟩ := h
  simp only [List.size_toArray] at h8
  match l, h8 with
  | [a, b, c, d, e, f, g, i], _ => simp [Sha.wordBytes]

/-! ## negation (the `−σ` of the quantifier) -/

/-- `−P` is on the curve when `P` is. -/
theorem neg_onCurve (q : Pt) (hc : q.onCurve = true) (hr : q.reduced = true) :
    q.neg.onCurve = true ∧ q.neg.reduced = true := by
  cases q with
  | inf => exact ⟨rfl, rfl⟩
  | aff x y =>
    simp only [Pt.reduced, Bool.and_eq_true, decide_eq_true_eq] at hr
    simp only [Pt.onCurve, onCurveXY, beq_iff_eq] at hc
    refine ⟨?_, by simp [Pt.neg, Pt.reduced, hr.1, fneg_lt]⟩
    simp only [Pt.neg, Pt.onCurve, onCurveXY, beq_iff_eq]
    rw [neg_sq y hr.2, hc]

/-- `−P ≠ P` for every reduced affine point with `y ≠ 0` (p is odd): the negated signature is a
    different group element, hence (by uniqueness) rejected. -/
theorem neg_ne_self (x y : Nat) (hy : y < P) (h0 : y ≠ 0) : Pt.neg (.aff x y) ≠ .aff x y := by
  simp only [Pt.neg, ne_eq, Pt.aff.injEq, true_and]
  unfold fneg
  rw [Nat.mod_eq_of_lt hy, Nat.mod_eq_of_lt (by omega)]
  have := P_odd
  omega

example : (P - 2) < P ∧ (P - 2) ≠ 0 := by decide

end Rangers.Props.C14
