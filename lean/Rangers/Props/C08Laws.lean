import Rangers.Props.C08
/-!
# C08 — algebraic laws of the item coder that users of RLP rely on

Corollaries of `decode_encode` / `encode_decode` (Props/C08.lean), stated outright because the
callers of the package lean on them directly: the trie hashes `encode node` and treats equal
hashes as equal nodes (injectivity); block/transaction bodies are RLP items laid end to end on one
stream (prefix-freeness, sequence round trip).
-/
namespace Rangers.Props.C08
open Rangers Rangers.RLP

/-- The encoder is injective on everything it can produce: two values with the same bytes are
    the same value. -/
theorem encode_injective (a b : Item) (ha : a.sizeOK) (hb : b.sizeOK) (h : encode a = encode b) :
    a = b := by
  have h1 := decode_encode a [] ha
  have h2 := decode_encode b [] hb
  rw [h] at h1
  rw [h1] at h2
  injection h2 with h2
  exact (Prod.mk.inj h2).1

/-- Prefix-free: an encoding followed by anything determines both the value and what follows,
    so items laid end to end on a stream can be cut apart in exactly one way. -/
theorem encode_prefix_free (a b : Item) (r₁ r₂ : Bytes) (ha : a.sizeOK) (hb : b.sizeOK)
    (h : encode a ++ r₁ = encode b ++ r₂) : a = b ∧ r₁ = r₂ := by
  have h1 := decode_encode a r₁ ha
  have h2 := decode_encode b r₂ hb
  rw [h] at h1
  rw [h1] at h2
  injection h2 with h2
  exact ⟨(Prod.mk.inj h2).1, (Prod.mk.inj h2).2⟩

/-- No encoding is a proper prefix of another encoding. -/
theorem encode_not_proper_prefix (a b : Item) (x : UInt8) (r : Bytes) (ha : a.sizeOK) (hb : b.sizeOK) :
    encode a ++ x :: r ≠ encode b := by
  intro h
  have := encode_prefix_free a b (x :: r) [] ha hb (by simpa using h)
  cases this.2

/-- Decoding is deterministic on the accepted prefix: if `b` is accepted with rest `rest`, then
    replacing the rest by any other bytes is accepted with the same item. -/
theorem decode_rest_irrelevant (b : Bytes) (it : Item) (rest rest' : Bytes) (hs : it.sizeOK)
    (h : decodeItem b = .ok (it, rest)) :
    decodeItem (encode it ++ rest') = .ok (it, rest') ∧ b = encode it ++ rest :=
  ⟨decode_encode it rest' hs, encode_decode b it rest h⟩

/-- Reading `xs` items one after another off a stream that starts with their concatenated
    encodings returns them in order and leaves exactly the rest. -/
def decodeSeq : Nat → Bytes → Except Err (List Item × Bytes)
  | 0, b => .ok ([], b)
  | n + 1, b =>
    match decodeItem b with
    | .error e => .error e
    | .ok (it, rest) =>
      match decodeSeq n rest with
      | .error e => .error e
      | .ok (its, r) => .ok (it :: its, r)

def encodeSeq : List Item → Bytes
  | [] => []
  | it :: its => encode it ++ encodeSeq its

theorem decodeSeq_encodeSeq (xs : List Item) (rest : Bytes) (h : ∀ x ∈ xs, x.sizeOK) :
    decodeSeq xs.length (encodeSeq xs ++ rest) = .ok (xs, rest) := by
  induction xs with
  | nil => simp [decodeSeq, encodeSeq]
  | cons x xs ih =>
    have hx := h x (by simp)
    have hxs : ∀ y ∈ xs, y.sizeOK := fun y hy => h y (by simp [hy])
    simp only [List.length_cons, decodeSeq, encodeSeq, List.append_assoc]
    rw [decode_encode x _ hx]
    simp only
    rw [ih hxs]

/-- … and conversely whatever `decodeSeq` accepts is the concatenation of the canonical
    encodings of what it returned, followed by the rest. -/
theorem encodeSeq_decodeSeq (n : Nat) (b : Bytes) (xs : List Item) (rest : Bytes)
    (h : decodeSeq n b = .ok (xs, rest)) : b = encodeSeq xs ++ rest ∧ xs.length = n := by
  induction n generalizing b xs rest with
  | zero =>
    simp only [decodeSeq] at h
    injection h with h
    obtain ⟨h1, h2⟩ := Prod.mk.inj h
    subst h1; subst h2; simp [encodeSeq]
  | succ n ih =>
    simp only [decodeSeq] at h
    cases hd : decodeItem b with
    | error e => rw [hd] at h; cases h
    | ok r =>
      obtain ⟨it, r1⟩ := r
      rw [hd] at h
      simp only at h
      cases hs : decodeSeq n r1 with
      | error e => rw [hs] at h; cases h
      | ok q =>
        obtain ⟨its, r2⟩ := q
        rw [hs] at h
        simp only at h
        injection h with h
        obtain ⟨h1, h2⟩ := Prod.mk.inj h
        subst h1; subst h2
        obtain ⟨e1, e2⟩ := ih r1 its r2 hs
        have e0 := encode_decode b it r1 hd
        refine ⟨?_, by simp [e2]⟩
        rw [e0, e1]; simp [encodeSeq]

example : decodeSeq 2 [0x05, 0xc1, 0x80, 0xff] = .ok ([.str [0x05], .list [.str []]], [0xff]) := by rfl

end Rangers.Props.C08
