import Rangers.Model.Bls14Verify
namespace Rangers.Props.C14
open Rangers Rangers.Model.Bls14

/-- A nil signature is rejected whatever the pairing says. -/
theorem verify_nil_rejected (pe : PairEq) (hm : Pt) (pub : Pub) :
    verifySig pe hm pub .nil = .reject := by
  simp [verifySig, Sig.isNil]

end Rangers.Props.C14
