import Rangers.Model.Bls14Verify
import Rangers.Proofs.Bls14Bytes
import Rangers.Proofs.Bls14Field
import Rangers.Proofs.Bls14Model
/-!
# C14 — BLS verification accepts exactly the one valid signature; encodings faithful

Part 1 (this file): the decision logic of `VerifySig` (guards, totality, what the verdict
depends on) and the encodings (G1 / G2 / scalar / id round trips, canonicity of `G1.Unmarshal`).
Part 2 (`Props/C14U.lean`): uniqueness of the accepted signature from bilinearity and
non-degeneracy. All statements are about `Rangers.Model.Bls14`, the model `drv_c14` executes.
-/
namespace Rangers.Props.C14
open Rangers Rangers.Model.Bls14 Rangers.Proofs.Bls14

/-! ## 1. `VerifySig`: guards and totality -/

/-- The complete characterisation of acceptance: both values non-nil, the signature point on the
    curve, and the pairing comparison true. Nothing else leads to `accept`. -/
theorem verify_accept_iff (pe : PairEq) (hm : Pt) (pub : Pub) (sig : Sig) :
    verifySig pe hm pub sig = .accept ↔
      ∃ s k, sig = .pt s ∧ pub = .pt k ∧ s.onCurve = true ∧ pe s g2Gen hm k = true := by
  cases sig with
  | nil => simp [verifySig, Sig.isNil]
  | pt s =>
    cases pub with
    | nil =>
      by_cases hc : s.onCurve = true <;>
        simp [verifySig, Sig.isNil, sig_isValid_pt, Pub.isValid, hc]
    | pt k =>
      by_cases hc : s.onCurve = true <;> by_cases hp : pe s g2Gen hm k = true <;>
        simp [verifySig, Sig.isNil, sig_isValid_pt, Pub.isValid, hc, hp]

example : verifySig (fun _ _ _ _ => true) g1Gen (.pt g2Gen) (.pt g1Gen) = .accept := by
  rw [verify_accept_iff]; exact ⟨g1Gen, g2Gen, rfl, rfl, by decide, rfl⟩

/-- `VerifySig` never dereferences a nil pointer: the `IsNil` guard precedes `IsValid`. -/
theorem verify_never_panics (pe : PairEq) (hm : Pt) (pub : Pub) (sig : Sig) :
    verifySig pe hm pub sig ≠ .panic := by
  cases sig with
  | nil => simp [verifySig, Sig.isNil]
  | pt s =>
    cases pub with
    | nil =>
      by_cases hc : s.onCurve = true <;>
        simp [verifySig, Sig.isNil, sig_isValid_pt, Pub.isValid, hc]
    | pt k =>
      by_cases hc : s.onCurve = true <;> by_cases hp : pe s g2Gen hm k = true <;>
        simp [verifySig, Sig.isNil, sig_isValid_pt, Pub.isValid, hc, hp]

/-- Guard clause of the property: a nil signature, a signature point off the curve, or a nil
    public key is rejected, and the verdict does not depend on the pairing at all
    (it is the same for every `pe`, i.e. no pairing result is consulted). -/
theorem verify_guards (pe : PairEq) (hm : Pt) (pub : Pub) (sig : Sig)
    (h : sig = .nil ∨ (∃ s, sig = .pt s ∧ s.onCurve = false) ∨ pub = .nil) :
    verifySig pe hm pub sig = .reject := by
  have hp := verify_never_panics pe hm pub sig
  have ha : verifySig pe hm pub sig ≠ .accept := by
    rw [Ne, verify_accept_iff]
    rintro ⟨s, k, hs, hk, hc, _⟩
    rcases h with h | ⟨s', hs', hc'⟩ | h
    · rw [h] at hs; cases hs
    · rw [hs'] at hs; cases hs; rw [hc] at hc'; cases hc'
    · rw [h] at hk; cases hk
  cases hv : verifySig pe hm pub sig <;> simp_all

example : ∃ s, ((G1Val.pt (Pt.aff 1 3) : Sig) = .pt s ∧ s.onCurve = false) := ⟨_, rfl, by decide⟩

/-- When all guards pass the verdict is exactly the pairing comparison. -/
theorem verify_eq_pairing (pe : PairEq) (hm s : Pt) (k : Pt2) (hc : s.onCurve = true) :
    verifySig pe hm (.pt k) (.pt s) = if pe s g2Gen hm k then .accept else .reject := by
  by_cases hp : pe s g2Gen hm k = true <;>
    simp [verifySig, Sig.isNil, sig_isValid_pt, Pub.isValid, hc, hp]

example : (Pt.aff 1 (P - 2)).onCurve = true := by decide

/-! ## 2. `G1.Unmarshal` / `G1.Marshal` -/

/-- Truncated encodings: fewer than 64 bytes never change the receiver and report `short`. -/
theorem g1_unmarshal_short (recv : G1Val) (b : Bytes) (h : b.length < 64) :
    g1Unmarshal recv b = (recv, .short) := by
  rw [g1Unmarshal_def]; simp [h]

/-- …hence a truncated signature is rejected by `VerifySig` whatever the pairing. -/
theorem verify_truncated_rejected (pe : PairEq) (hm : Pt) (pkb sigb : Bytes) (h : sigb.length < 64) :
    verifyBytes pe hm pkb sigb = .reject := by
  unfold verifyBytes
  apply verify_guards; left
  unfold deserializeSign Sig.deserialize
  split
  · rfl
  · rw [g1_unmarshal_short _ _ h]

example : ([1, 2, 3] : Bytes).length < 64 := by decide

/-- The decoded coordinates of a ≥64-byte input. -/
def rawX (b : Bytes) : Nat := beToNat (b.take 32)
def rawY (b : Bytes) : Nat := beToNat ((b.drop 32).take 32)

/-- Soundness of `Unmarshal`: status `ok` means the receiver holds infinity or a reduced point
    satisfying the curve equation ("points not on the curve" never get status ok), and the rest
    is what follows the first 64 bytes. -/
theorem g1_unmarshal_ok (recv : G1Val) (b rest : Bytes) (v : G1Val)
    (h : g1Unmarshal recv b = (v, .ok rest)) :
    64 ≤ b.length ∧ rest = b.drop 64 ∧
      ∃ q, v = .pt q ∧ q.onCurve = true ∧ q.reduced = true := by
  rw [g1Unmarshal_def] at h
  split at h
  · simp at h
  · next hl =>
    split at h
    · simp only [Prod.mk.injEq, UnmStatus.ok.injEq] at h
      exact ⟨by omega, h.2.symm, .inf, h.1.symm, rfl, rfl⟩
    · split at h
      · next hc =>
        simp only [Prod.mk.injEq, UnmStatus.ok.injEq] at h
        refine ⟨by omega, h.2.symm, _, h.1.symm, hc, ?_⟩
        simp [Pt.reduced, Nat.mod_lt _ P_pos]
      · simp at h

/-- A signature whose coordinates do not satisfy the curve equation is rejected
    without consulting the pairing. -/
theorem verify_offcurve_rejected (pe : PairEq) (hm : Pt) (pkb sigb : Bytes)
    (hl : 64 ≤ sigb.length) (hnz : ¬ (rawX sigb % P = 0 ∧ rawY sigb % P = 0))
    (hoff : onCurveXY (rawX sigb % P) (rawY sigb % P) = false) :
    verifyBytes pe hm pkb sigb = .reject := by
  unfold verifyBytes
  apply verify_guards; right; left
  refine ⟨.aff (rawX sigb % P) (rawY sigb % P), ?_, hoff⟩
  have hl' : ¬ sigb.length < 64 := by omega
  have hne : sigb.length ≠ 0 := by omega
  have hnz' : ¬ ((rawX sigb % P == 0 && rawY sigb % P == 0) = true) := by
    simpa using fun h1 h2 => hnz ⟨h1, h2⟩
  have hoff' : ¬ (onCurveXY (rawX sigb % P) (rawY sigb % P) = true) := by simp [hoff]
  unfold deserializeSign Sig.deserialize
  rw [g1Unmarshal_def]
  simp only [rawX, rawY] at hnz' hoff'
  simp only [rawX, rawY]
  simp [hl', hne, hnz', hoff']

/-- Completeness and the over-long lead in one statement: the canonical encoding of a valid
    point, followed by ANY bytes, decodes to that point with those bytes as `rest`. -/
theorem g1_unmarshal_marshal_append (recv : G1Val) (q : Pt) (rest : Bytes)
    (hc : q.onCurve = true) (hr : q.reduced = true) :
    g1Unmarshal recv (g1Marshal q ++ rest) = (.pt q, .ok rest) := by
  cases q with
  | inf =>
    have hs : (List.replicate 64 (0 : UInt8)) = List.replicate 32 0 ++ List.replicate 32 0 := by
      rw [List.replicate_append_replicate]
    obtain ⟨e1, e2, e3, e4⟩ := split64 (List.replicate 32 (0 : UInt8)) (List.replicate 32 0) rest
      (by simp) (by simp)
    rw [g1Unmarshal_def, g1Marshal_inf, hs, if_neg e4, e1, e2, e3, beToNat_replicate_zero]
    simp
  | aff x y =>
    simp only [Pt.reduced, Bool.and_eq_true, decide_eq_true_eq] at hr
    simp only [Pt.onCurve] at hc
    have hx : x < 256 ^ 32 := Nat.lt_trans hr.1 P_lt
    have hy : y < 256 ^ 32 := Nat.lt_trans hr.2 P_lt
    obtain ⟨e1, e2, e3, e4⟩ := split64 (beFixed 32 x) (beFixed 32 y) rest
      (beFixed_length 32 x) (beFixed_length 32 y)
    have vx : beToNat (beFixed 32 x) % P = x := by
      rw [beToNat_beFixed_of_lt 32 x hx, Nat.mod_eq_of_lt hr.1]
    have vy : beToNat (beFixed 32 y) % P = y := by
      rw [beToNat_beFixed_of_lt 32 y hy, Nat.mod_eq_of_lt hr.2]
    have hnz : ¬ ((x == 0 && y == 0) = true) := by
      simp only [Bool.and_eq_true, beq_iff_eq]
      rintro ⟨rfl, rfl⟩; revert hc; decide
    rw [g1Unmarshal_def, g1Marshal_aff, if_neg e4, e1, e2, e3, vx, vy, if_neg hnz, if_pos hc]

/-- `g1_marshal_unmarshal`: `Unmarshal (Marshal P) = P` for every on-curve point and for infinity. -/
theorem g1_marshal_unmarshal (recv : G1Val) (q : Pt)
    (hc : q.onCurve = true) (hr : q.reduced = true) :
    g1Unmarshal recv (g1Marshal q) = (.pt q, .ok []) := by
  have := g1_unmarshal_marshal_append recv q [] hc hr
  simpa using this

example : g1Gen.onCurve = true ∧ g1Gen.reduced = true := by decide
example : Pt.inf.onCurve = true ∧ Pt.inf.reduced = true := by decide

/-- Signatures survive Serialize/Deserialize unchanged. -/
theorem sig_roundtrip (q : Pt) (hc : q.onCurve = true) (hr : q.reduced = true) :
    deserializeSign (Sig.serialize (.pt q)) = .pt q := by
  have hl : (g1Marshal q).length = 64 := g1_marshal_length q
  simp [deserializeSign, Sig.deserialize, Sig.serialize, hl, g1_marshal_unmarshal .nil q hc hr]

/-- No range check: adding `p` to a coordinate (when it still fits in 32 bytes) does not change
    what `Unmarshal` returns. -/
theorem g1_unmarshal_unreduced (recv : G1Val) (x y : Nat) (rest : Bytes)
    (hx : x + P < 256 ^ 32) :
    g1Unmarshal recv (beFixed 32 (x + P) ++ beFixed 32 y ++ rest) =
      g1Unmarshal recv (beFixed 32 x ++ beFixed 32 y ++ rest) := by
  have hx0 : x < 256 ^ 32 := by omega
  obtain ⟨a1, a2, a3, a4⟩ := split64 (beFixed 32 (x + P)) (beFixed 32 y) rest
    (beFixed_length _ _) (beFixed_length _ _)
  obtain ⟨b1, b2, b3, b4⟩ := split64 (beFixed 32 x) (beFixed 32 y) rest
    (beFixed_length _ _) (beFixed_length _ _)
  rw [g1Unmarshal_def, g1Unmarshal_def, if_neg a4, if_neg b4, a1, a2, a3, b1, b2, b3]
  rw [beToNat_beFixed_of_lt 32 (x + P) hx, beToNat_beFixed_of_lt 32 x hx0, Nat.add_mod_right]

/-- **FullStatement** `g1_unmarshal_canonical`: a byte string that decodes is the canonical
    encoding of what it decodes to. -/
def FullStatement_g1_unmarshal_canonical : Prop :=
  ∀ (b rest : Bytes) (q : Pt), g1Unmarshal .nil b = (.pt q, .ok rest) → g1Marshal q = b

/-- False of the model (and of the code: `corpus/C14/edge.ops`, known findings
    `overlong-sig-accepted`, `unreduced-sig-accepted`): the generator followed by `ff`. -/
theorem g1_unmarshal_canonical_counterexample : ¬ FullStatement_g1_unmarshal_canonical := by
  intro h
  have := h (g1Marshal g1Gen ++ [0xff]) [0xff] g1Gen
    (g1_unmarshal_marshal_append .nil g1Gen [0xff] (by decide) (by decide))
  have hl := congrArg List.length this
  simp [g1_marshal_length] at hl

/-- …and a second, independent witness of exactly 64 bytes: `(1 + p, p − 2)`. -/
theorem g1_unmarshal_canonical_counterexample_unreduced :
    ∃ b : Bytes, b.length = 64 ∧ g1Unmarshal .nil b = (.pt g1Gen, .ok []) ∧ g1Marshal g1Gen ≠ b := by
  refine ⟨beFixed 32 (1 + P) ++ beFixed 32 (P - 2), by simp [beFixed_length], ?_, ?_⟩
  · have h := g1_unmarshal_unreduced .nil 1 (P - 2) [] (by decide)
    simp only [List.append_nil] at h
    rw [h]
    exact g1_marshal_unmarshal .nil g1Gen (by decide) (by decide)
  · intro h
    have h' : beFixed 32 1 ++ beFixed 32 (P - 2) = beFixed 32 (1 + P) ++ beFixed 32 (P - 2) := h
    have := List.append_cancel_right h'
    have := beFixed_inj 32 1 (1 + P) (by decide) (by decide) this
    revert this; decide

/-- An encoding is canonical when it has exactly 64 bytes and both coordinates are `< p`. -/
def Canonical (b : Bytes) : Prop := b.length = 64 ∧ rawX b < P ∧ rawY b < P

/-- `g1_unmarshal_canonical_partial`: on canonical encodings decoding is injective —
    the only ways to alias a point are the two recorded findings. -/
theorem g1_unmarshal_canonical_partial (b rest : Bytes) (q : Pt) (hcan : Canonical b)
    (h : g1Unmarshal .nil b = (.pt q, .ok rest)) : g1Marshal q = b ∧ rest = [] := by
  obtain ⟨hl, hx, hy⟩ := hcan
  have hsplit : b = b.take 32 ++ (b.drop 32).take 32 := by
    have h1 : (b.drop 32).take 32 = b.drop 32 := List.take_of_length_le (by simp [hl])
    rw [h1, List.take_append_drop]
  have l1 : (b.take 32).length = 32 := by simp [hl]
  have l2 : ((b.drop 32).take 32).length = 32 := by simp [hl]
  have f1 : beFixed 32 (rawX b) = b.take 32 := by
    have := beFixed_beToNat (b.take 32); rwa [l1] at this
  have f2 : beFixed 32 (rawY b) = (b.drop 32).take 32 := by
    have := beFixed_beToNat ((b.drop 32).take 32); rwa [l2] at this
  rw [g1Unmarshal_def] at h
  have hl' : ¬ b.length < 64 := by omega
  simp only [hl', if_false] at h
  simp only [rawX, rawY] at hx hy f1 f2
  simp only [Nat.mod_eq_of_lt hx, Nat.mod_eq_of_lt hy] at h
  have hrest : b.drop 64 = [] := List.drop_of_length_le (by omega)
  split at h
  · next hz =>
    simp only [Bool.and_eq_true, beq_iff_eq] at hz
    simp only [Prod.mk.injEq, G1Val.pt.injEq, UnmStatus.ok.injEq] at h
    refine ⟨?_, by rw [← h.2, hrest]⟩
    rw [← h.1]
    have z1 := eq_replicate_of_beToNat_zero (b.take 32) hz.1
    have z2 := eq_replicate_of_beToNat_zero ((b.drop 32).take 32) hz.2
    rw [l1] at z1; rw [l2] at z2
    rw [hsplit, z1, z2, g1Marshal_inf, List.replicate_append_replicate]
  · split at h
    · simp only [Prod.mk.injEq, G1Val.pt.injEq, UnmStatus.ok.injEq] at h
      refine ⟨?_, by rw [← h.2, hrest]⟩
      rw [← h.1, g1Marshal_aff, f1, f2, ← hsplit]
    · simp at h

example : Canonical (g1Marshal g1Gen) := by
  refine ⟨g1_marshal_length _, ?_, ?_⟩ <;> decide

end Rangers.Props.C14
