import Rangers.Props.C07
/-!
# C07 — batches: exactly the authentic elements reach the pool

Statements about `admitBatch`, the model of the admission loops (`WorkerConn.handleMessage`
for `TransactionGotMsg`, `GameExecutor.write` / `runWrite`).  The tie for these handlers is
the admission stage of the check: the real handlers are driven (hooks H11a/H11b) with mixed
honest / forged batches, every batch size 1..4 with the forged element at every position and
larger mixed ones, and an oracle by construction says which elements may reach the pool.
-/
namespace Rangers.Props.C07
open Rangers Rangers.Model.TxAuth

/-- Only verified elements of the batch are admitted — whatever stands before or after them. -/
theorem batch_admits_only_verified (cr : Crypto) (cfg : ChainCfg) (h : Nat) (have_ : List Bytes) (txs : List Tx) :
    ∀ t ∈ admitBatch cr cfg h have_ txs, t ∈ txs ∧ verifyTx cr cfg h t = .ok ∧ t.hash ∉ have_ := by
  induction txs generalizing have_ with
  | nil => intro t ht; simp [admitBatch] at ht
  | cons x rest ih =>
    intro t ht
    unfold admitBatch at ht
    by_cases hx : verifyTx cr cfg h x = .ok ∧ x.hash ∉ have_
    · rw [if_pos hx] at ht
      rcases List.mem_cons.1 ht with rfl | ht
      · exact ⟨List.mem_cons_self .., hx.1, hx.2⟩
      · obtain ⟨a, b, c⟩ := ih (x.hash :: have_) t ht
        exact ⟨List.mem_cons_of_mem _ a, b, fun hm => c (List.mem_cons_of_mem _ hm)⟩
    · rw [if_neg hx] at ht
      obtain ⟨a, b, c⟩ := ih have_ t ht
      exact ⟨List.mem_cons_of_mem _ a, b, c⟩

/-- A forged element is never admitted, at any position of any batch. -/
theorem batch_forged_never_admitted (cr : Crypto) (cfg : ChainCfg) (h : Nat) (have_ : List Bytes)
    (pre post : List Tx) (f : Tx) (hf : verifyTx cr cfg h f ≠ .ok) :
    f ∉ admitBatch cr cfg h have_ (pre ++ f :: post) := by
  intro hm
  exact hf (batch_admits_only_verified cr cfg h have_ _ f hm).2.1

/-- An authentic element whose hash is neither in the pool nor earlier in the batch is admitted,
    whatever else the batch contains (forged neighbours do not push it out). -/
theorem batch_honest_admitted (cr : Crypto) (cfg : ChainCfg) (h : Nat) (have_ : List Bytes)
    (pre post : List Tx) (t : Tx) (hok : verifyTx cr cfg h t = .ok)
    (hfresh : t.hash ∉ have_) (hpre : ∀ p ∈ pre, p.hash ≠ t.hash) :
    t ∈ admitBatch cr cfg h have_ (pre ++ t :: post) := by
  induction pre generalizing have_ with
  | nil =>
    simp only [List.nil_append]
    unfold admitBatch
    rw [if_pos ⟨hok, hfresh⟩]
    exact List.mem_cons_self ..
  | cons x rest ih =>
    simp only [List.cons_append]
    unfold admitBatch
    have hx : x.hash ≠ t.hash := hpre x (List.mem_cons_self ..)
    have hrest : ∀ p ∈ rest, p.hash ≠ t.hash := fun p hp => hpre p (List.mem_cons_of_mem _ hp)
    by_cases hc : verifyTx cr cfg h x = .ok ∧ x.hash ∉ have_
    · rw [if_pos hc]
      exact List.mem_cons_of_mem _ (ih (x.hash :: have_) (by simp [hfresh, Ne.symm hx]) hrest)
    · rw [if_neg hc]
      exact ih have_ hfresh hrest

/-- a forged element (hash changed) in front of an honest one: only the honest one is admitted -/
example : admitBatch toyCrypto toyCfg 0 [] [{ toyNative with hash := List.replicate 32 9 }, toyNative] = [toyNative] := by
  decide

end Rangers.Props.C07
