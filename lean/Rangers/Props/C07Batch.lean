import Rangers.Props.C07
/-!
# C07 — batches: exactly the authentic elements reach the pool

Statements about `admitBatch`, the model of the admission loops (`WorkerConn.handleMessage`
for `TransactionGotMsg`, `GameExecutor.write` / `runWrite`).  The tie for these handlers is
the admission stage of the check: the real handlers are driven (hooks H11a/H11b) with mixed
honest / forged batches, every batch size 1..4 with the forged element at every position and
larger mixed ones, and an oracle by construction says which elements may reach the pool.
-/
namespace Rangers.Props.C07
open Rangers Rangers.Model.TxAuth

/-- Only verified elements of the batch are admitted — whatever stands before or after them. -/
theorem batch_admits_only_verified (cr : Crypto) (cfg : ChainCfg) (h : Nat) (have_ : List Bytes) (txs : List Tx) :
    ∀ t ∈ admitBatch cr cfg h have_ txs, t ∈ txs ∧ verifyTx cr cfg h t = .ok ∧ t.hash ∉ have_ := by
  induction txs generalizing have_ with
  | nil => intro t ht; simp [admitBatch] at ht
  | cons x rest ih =>
    intro t ht
    unfold admitBatch at ht
    by_cases hx : verifyTx cr cfg h x = .ok ∧ x.hash ∉ have_
    · rw [if_pos hx] at ht
      rcases List.mem_cons.1 ht with rfl | ht
      · exact ⟨List.mem_cons_self .., hx.1, hx.2⟩
      · obtain ⟨a, b, c⟩ := ih (x.hash :: have_) t ht
        exact ⟨List.mem_cons_of_mem _ a, b, fun hm => c (List.mem_cons_of_mem _ hm)⟩
    · rw [if_neg hx] at ht
      obtain ⟨a, b, c⟩ := ih have_ t ht
      exact ⟨List.mem_cons_of_mem _ a, b, c⟩

/-- A forged element is never admitted, at any position of any batch. -/
theorem batch_forged_never_admitted (cr : Crypto) (cfg : ChainCfg) (h : Nat) (have_ : List Bytes)
    (pre post : List Tx) (f : Tx) (hf : verifyTx cr cfg h f ≠ .ok) :
    f ∉ admitBatch cr cfg h have_ (pre ++ f :: post) := by
  intro hm
  exact hf (batch_admits_only_verified cr cfg h have_ _ f hm).2.1

/-- An authentic element whose hash is neither in the pool nor earlier in the batch is admitted,
    whatever else the batch contains (forged neighbours do not push it out). -/
theorem batch_honest_admitted (cr : Crypto) (cfg : ChainCfg) (h : Nat) (have_ : List Bytes)
    (pre post : List Tx) (t : Tx) (hok : verifyTx cr cfg h t = .ok)
    (hfresh : t.hash ∉ have_) (hpre : ∀ p ∈ pre, p.hash ≠ t.hash) :
    t ∈ admitBatch cr cfg h have_ (pre ++ t :: post) := by
  induction pre generalizing have_ with
  | nil =>
    simp only [List.nil_append]
    unfold admitBatch
    rw [if_pos ⟨hok, hfresh⟩]
    exact List.mem_cons_self ..
  | cons x rest ih =>
    simp only [List.cons_append]
    unfold admitBatch
    have hx : x.hash ≠ t.hash := hpre x (List.mem_cons_self ..)
    have hrest : ∀ p ∈ rest, p.hash ≠ t.hash := fun p hp => hpre p (List.mem_cons_of_mem _ hp)
    by_cases hc : verifyTx cr cfg h x = .ok ∧ x.hash ∉ have_
    · rw [if_pos hc]
      exact List.mem_cons_of_mem _ (ih (x.hash :: have_) (by simp [hfresh, Ne.symm hx]) hrest)
    · rw [if_neg hc]
      exact ih have_ hfresh hrest

/-! ## sequences of deliveries: what was delivered before does not matter -/

theorem hashesAfter_mono (cr : Crypto) (cfg : ChainCfg) (h : Nat) (have_ : List Bytes) (txs : List Tx) :
    ∀ x ∈ have_, x ∈ hashesAfter cr cfg h have_ txs := by
  induction txs generalizing have_ with
  | nil => intro x hx; exact hx
  | cons t rest ih =>
    intro x hx
    unfold hashesAfter
    split
    · exact ih _ x (List.mem_cons_of_mem _ hx)
    · exact ih _ x hx

/-- Every authentic element of a batch is in the pool afterwards (admitted now, or its hash was
    already there), whatever else the batch contains and wherever it stands. -/
theorem batch_honest_present_after (cr : Crypto) (cfg : ChainCfg) (h : Nat) (have_ : List Bytes) (txs : List Tx)
    (t : Tx) (ht : t ∈ txs) (hok : verifyTx cr cfg h t = .ok) : t.hash ∈ hashesAfter cr cfg h have_ txs := by
  induction txs generalizing have_ with
  | nil => cases ht
  | cons x rest ih =>
    unfold hashesAfter
    rcases List.mem_cons.1 ht with rfl | hr
    · by_cases hc : verifyTx cr cfg h t = .ok ∧ t.hash ∉ have_
      · rw [if_pos hc]
        exact hashesAfter_mono cr cfg h _ rest _ (List.mem_cons_self ..)
      · rw [if_neg hc]
        have : t.hash ∈ have_ := by
          by_cases hm : t.hash ∈ have_
          · exact hm
          · exact absurd ⟨hok, hm⟩ hc
        exact hashesAfter_mono cr cfg h _ rest _ this
    · split
      · exact ih _ hr
      · exact ih _ hr

theorem hashesAfterSeq_mono (cr : Crypto) (cfg : ChainCfg) (h : Nat) (batches : List (List Tx)) :
    ∀ (have_ : List Bytes), ∀ x ∈ have_, x ∈ hashesAfterSeq cr cfg h have_ batches := by
  induction batches with
  | nil => intro _ x hx; exact hx
  | cons b rest ih =>
    intro have_ x hx
    unfold hashesAfterSeq
    rw [List.foldl_cons]
    exact ih _ x (hashesAfter_mono cr cfg h have_ b x hx)

/-- **Order and grouping of deliveries do not matter for an honest transaction**: in any sequence of
    batches — tampered copies carrying its hash delivered before it, after it, in the same or in
    other batches — an authentic transaction that is delivered at all ends up in the pool. The
    handlers keep no memory of rejected hashes (seeded regression C07-j adds one). -/
theorem sequence_honest_present_after (cr : Crypto) (cfg : ChainCfg) (h : Nat) (batches : List (List Tx))
    (have_ : List Bytes) (b : List Tx) (hb : b ∈ batches) (t : Tx) (ht : t ∈ b)
    (hok : verifyTx cr cfg h t = .ok) : t.hash ∈ hashesAfterSeq cr cfg h have_ batches := by
  induction batches generalizing have_ with
  | nil => cases hb
  | cons x rest ih =>
    unfold hashesAfterSeq
    rw [List.foldl_cons]
    rcases List.mem_cons.1 hb with rfl | hr
    · exact hashesAfterSeq_mono cr cfg h rest _ _ (batch_honest_present_after cr cfg h have_ b t ht hok)
    · exact ih _ hr

/-- a copy carrying the honest transaction's hash delivered first in its own batch: the hash is in the pool afterwards -/
example : hashesAfterSeq toyCrypto toyCfg 0 [] [[{ toyNative with data := [57] }], [toyNative]] = [toyNative.hash] := by
  decide

/-- a forged element (hash changed) in front of an honest one: only the honest one is admitted -/
example : admitBatch toyCrypto toyCfg 0 [] [{ toyNative with hash := List.replicate 32 9 }, toyNative] = [toyNative] := by
  decide

end Rangers.Props.C07
