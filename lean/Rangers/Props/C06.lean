import Rangers.Proofs.LedgerExec
/-!
# C06 — native token is conserved by every transaction; balances never go negative

All theorems are about `Rangers.Ledger` (Model/Ledger.lean), the model the driver `drv_c06` executes.
`total b` is the sum of **all** balance slots (the harness compares it with the sum over the token
contract's whole storage).
-/
namespace Rangers.Props.C06
open Rangers.Ledger

/-! ## Primitives -/

/-- `SubFT` returns failure instead of going negative or wrapping: a debit of `n` either is refused and
    changes nothing, or the slot held at least `n` and both the slot and the sum drop by exactly `n`. -/
theorem sub_refuses (b : Bal) (a : Addr) (n : Nat) :
    ((subBal b a n).2 = false ∧ (subBal b a n).1 = b ∧ get b a < n) ∨
    ((subBal b a n).2 = true ∧ n ≤ get b a ∧ total (subBal b a n).1 + n = total b ∧
      get (subBal b a n).1 a + n = get b a) :=
  subBal_refuses b a n

example : (subBal [(1, 5)] 1 7).2 = false ∧ (subBal [(1, 5)] 1 5).2 = true ∧ get (subBal [(1, 5)] 1 5).1 1 = 0 := by decide

/-- Every primitive pair (`Sub`;`Add`) guarded by `CanTransfer` is balanced. -/
theorem transfer_moves_only (b : Bal) (src dst : Addr) (n : Nat) (h : canTransfer b src n = true) :
    total (vmTransfer b src dst n) = total b :=
  total_vmTransfer b src dst n ((canTransfer_nat b src n).1 h)

example : canTransfer [(1, 5)] 1 (5 : Nat) = true ∧ total (vmTransfer [(1, 5)] 1 2 (5 : Nat)) = 5 := by decide

/-- The EVM frame skeleton — any program of CALL / CALLCODE / DELEGATECALL / STATICCALL / CREATE /
    SELFDESTRUCT / AUTHCALL / REVERT / INVALID, any nesting, any gas bound, static or not — conserves
    live balances plus the value burned by contracts self-destructing to themselves. -/
theorem frames_conserve (code : Code) (origin : Addr) (fuel : Nat) (self : Addr) (ro : Bool) (sc : Script) (s : St) :
    total (exec code origin fuel self ro sc s).1.bal + (exec code origin fuel self ro sc s).1.burned
      = total s.bal + s.burned :=
  exec_mass code origin fuel self ro sc s

end Rangers.Props.C06
