import Rangers.Proofs.LedgerTx
/-!
# C06 — native token is conserved by every transaction; balances never go negative

All theorems are about `Rangers.Ledger` (Model/Ledger.lean), the model the driver `drv_c06` executes and the
correspondence harness compares with the real `VMExecutor`. `total b` is the sum of **all** balance slots
(the harness compares it with the sum over the token contract's whole storage).

`mass s = total s.bal + s.burned`, where `burned` only grows in `suicide` when a contract names itself as
beneficiary. Stake locked by a transaction is `lockedBy tx status`.
-/
namespace Rangers.Props.C06
open Rangers.Ledger

/-! ## 1. Primitives: no balance goes negative or wraps -/

/-- `SubFT` returns failure instead of going negative or wrapping: a debit of `n` either is refused and
    changes nothing, or the slot held at least `n` and both the slot and the sum drop by exactly `n`. -/
theorem sub_refuses (b : Bal) (a : Addr) (n : Nat) :
    ((subBal b a n).2 = false ∧ (subBal b a n).1 = b ∧ get b a < n) ∨
    ((subBal b a n).2 = true ∧ n ≤ get b a ∧ total (subBal b a n).1 + n = total b ∧
      get (subBal b a n).1 a + n = get b a) :=
  subBal_refuses b a n

example : (subBal [(1, 5)] 1 7).2 = false ∧ (subBal [(1, 5)] 1 5).2 = true ∧ get (subBal [(1, 5)] 1 5).1 1 = 0 := by decide

/-- A non-negative credit adds exactly its amount, to that slot and to the sum (no absolute-value wrap). -/
theorem add_exact (b : Bal) (a : Addr) (n : Nat) :
    total (addBal b a n) = total b + n ∧ get (addBal b a n) a = get b a + n ∧
    ∀ a', a' ≠ a → get (addBal b a n) a' = get b a' :=
  ⟨total_addBal b a n, get_addBal_same b a n, fun a' h => get_addBal_other b a a' n h⟩

/-- Why the guards matter: the raw primitives do create value when handed a negative amount
    (`AddFT` stores `|slot + amount|`, `SubFT` never refuses a negative amount). -/
theorem unguarded_negative_transfer_mints :
    total (vmTransfer [(1, 5)] 1 2 (-3)) = 11 ∧ total [(1, 5)] = 5 := by decide

/-- `add_guarded`, EVM side: `vm.CanTransfer` refuses every negative amount, so a negative `transferValue`
    reaches neither `SubBalance` nor `AddBalance`: the top-level call/create returns failure with the state
    untouched. -/
theorem add_guarded_contract (code : Code) (jr : Bool) (fuel : Nat) (origin addr : Addr) (v : Int) (init : Script) (s : St)
    (h : v < 0) :
    evmCallTop code jr fuel origin addr v s = (s, false) ∧ evmCreateTop code jr fuel origin v init s = (s, false) := by
  have hc : canTransfer s.bal origin v = false := canTransfer_neg _ _ _ h
  have hv : (v != 0) = true := by
    have : v ≠ 0 := by omega
    simp [this]
  constructor
  · unfold evmCallTop; simp [hc, hv]
  · unfold evmCreateTop; simp [hc]

example : (-1 : Int) < 0 := by decide

/-- `add_guarded`, asset-transfer side: `transferBalance` rejects a negative amount, a parse error and
    an amount above the source balance before anything is credited. -/
theorem add_guarded_transfer (b : Bal) (src tgt : Addr) (v : Int) :
    (v < 0 → transferBalance b src tgt (.val v) = none) ∧
    (((get b src : Nat) : Int) < v → transferBalance b src tgt (.val v) = none) ∧
    transferBalance b src tgt .err = none := by
  refine ⟨?_, ?_, rfl⟩
  · intro h; simp [transferBalance, h]
  · intro h
    by_cases hn : v < 0
    · simp [transferBalance, hn]
    · simp [transferBalance, hn, h]

/-- `add_guarded` for the real parser: whatever string is written as the amount of an asset transfer — `strToBigInt`
    is `utility.StrToBigInt` with the exact `big.ParseFloat`/`Float.Mul`/`Float.Int` semantics — a parse error or a
    negative value is rejected before any credit. -/
theorem add_guarded_transfer_string (b : Bal) (src tgt : Addr) (s : String)
    (h : strToBigInt s = .err ∨ ∃ v, strToBigInt s = .val v ∧ v < 0) :
    transferBalance b src tgt (strToBigInt s) = none := by
  rcases h with h | ⟨v, h, hv⟩
  · rw [h]; rfl
  · rw [h]; exact (add_guarded_transfer b src tgt v).1 hv

example : strToBigInt "-0.5" = .val (-500000000000000000) ∧ strToBigInt "1e" = .err := by decide +kernel

/-- `add_guarded` for the real parser, contract side, under **every** fork configuration: a contract transaction
    (create, call or jsonrpc; any program, any gas oracle) whose `transferValue` string parses to a negative number
    never succeeds. -/
theorem add_guarded_contract_string (fuel : Nat) (w : World) (t : ContractTx) (v : Int)
    (h : strToBigInt t.value = .val v) (hv : v < 0) :
    (execTx fuel w (.contract t)).2 ≠ .success := by
  -- what BeforeExecute can answer
  have before : (∀ st b, contractBefore w.fl w.st.bal t = .inl (st, b) → st ≠ .success) ∧
      (∀ b1 raw v', contractBefore w.fl w.st.bal t = .inr (b1, raw, v') → v' = v) := by
    unfold contractBefore
    simp only
    rw [h]
    constructor
    · intro st b hcb
      split at hcb
      · injection hcb with hcb; injection hcb with h1 _; subst h1; split <;> (intro hh; cases hh)
      · cases hp : processFeeWith (txFeeOf w.fl) w.st.bal t.src with
        | none => rw [hp] at hcb; injection hcb with hcb; injection hcb with h1 _; subst h1; split <;> (intro hh; cases hh)
        | some b1 =>
          rw [hp] at hcb
          simp only at hcb
          split at hcb
          · injection hcb with hcb; injection hcb with h1 _; subst h1; intro hh; cases hh
          · cases hg : parseGasLimit w.fl t.gasLimit with
            | none => rw [hg] at hcb; injection hcb with hcb; injection hcb with h1 _; subst h1; intro hh; cases hh
            | some raw =>
              rw [hg] at hcb
              simp only at hcb
              split at hcb
              · injection hcb with hcb; injection hcb with h1 _; subst h1; intro hh; cases hh
              · cases hcb
    · intro b1 raw v' hcb
      split at hcb
      · cases hcb
      · cases hp : processFeeWith (txFeeOf w.fl) w.st.bal t.src with
        | none => rw [hp] at hcb; cases hcb
        | some b1' =>
          rw [hp] at hcb
          simp only at hcb
          split at hcb
          · cases hcb
          · cases hg : parseGasLimit w.fl t.gasLimit with
            | none => rw [hg] at hcb; cases hcb
            | some raw' =>
              rw [hg] at hcb
              simp only at hcb
              split at hcb
              · cases hcb
              · injection hcb with hcb; injection hcb with _ hcb; injection hcb with _ hcb; exact hcb.symm
  simp only [execTx]
  cases hcb : contractBefore w.fl w.st.bal t with
  | inl p =>
    obtain ⟨status, b⟩ := p
    exact before.1 status b hcb
  | inr p =>
    obtain ⟨b1, raw, v'⟩ := p
    have hv' := before.2 b1 raw v' hcb
    subst hv'
    try simp only
    have hfalse : (contractExecute w.fl w.code fuel t raw v' { w.st with bal := b1 }).2.1 = false := by
      unfold contractExecute
      simp only
      split
      · rfl
      · cases ht : t.target with
        | none =>
          simp only
          rw [(add_guarded_contract w.code w.fl.p002 fuel t.src 0 v' t.init _ hv).2]
          split <;> rfl
        | some a =>
          simp only
          rw [(add_guarded_contract w.code w.fl.p002 fuel t.src a v' t.init _ hv).1]
          split <;> rfl
    rw [hfalse]
    simp

/-- The amount strings of the quantifier, evaluated by the exact `big.Float` model (C18): zero, empty, `Inf`,
    more than 18 decimals, negative, huge, exponent forms incl. the binary `p` exponent, 2000-digit exponents. -/
theorem amount_strings :
    strToBigInt "1p3" = .val 8000000000000000000 ∧ strToBigInt "1e100" = .val (10 ^ 118) ∧ strToBigInt "1e400" ≠ .val (10 ^ 418) ∧
    strToBigInt "1e-400" = .val 0 ∧ strToBigInt "1e99999999999" = .err ∧
    strToBigInt "" = .val 0 ∧ strToBigInt "0" = .val 0 ∧ strToBigInt "Inf" = .val 0 ∧ strToBigInt "-inf" = .val 0 ∧
    strToBigInt "0.0000000000000000019" = .val 1 ∧ strToBigInt "-0.0000000000000000001" = .val 0 ∧
    strToBigInt "-5" = .val (-5000000000000000000) ∧ strToBigInt "1e30" = .val (10 ^ 48) ∧
    strToBigInt "abc" = .err ∧ strToBigInt "1e" = .err ∧ strToBigInt "0x10" = .err := by
  decide +kernel

/-- Every primitive pair (`Sub`;`Add`) guarded by `CanTransfer` is balanced. -/
theorem transfer_moves_only (b : Bal) (src dst : Addr) (n : Nat) (h : canTransfer b src n = true) :
    total (vmTransfer b src dst n) = total b :=
  total_vmTransfer b src dst n ((canTransfer_nat b src n).1 h)

example : canTransfer [(1, 5)] 1 (5 : Nat) = true ∧ total (vmTransfer [(1, 5)] 1 2 (5 : Nat)) = 5 := by decide

/-! ## 2. Asset transfers and fees -/

/-- `transferBalance` (credit target, then debit source with the result dropped) is balanced whenever it
    reports success — including a transfer to oneself. -/
theorem transferBalance_conserves (b b' : Bal) (src tgt : Addr) (a : Amount)
    (h : transferBalance b src tgt a = some b') : total b' = total b :=
  transferBalance_total b b' src tgt a h

example : transferBalance [(1, 5)] 1 1 (.val 5) = some [(1, 5)] := by decide

/-- `ChangeAssets` over any target list (hence any iteration order of the Go map, any duplicates, self-targets):
    success conserves the sum; failure anywhere is reported as `none` and the caller reverts. -/
theorem changeAssets_conserves (src : Addr) (ts : List (Addr × Amount)) (b b' : Bal)
    (h : changeAssets b src ts = some b') : total b' = total b :=
  changeAssets_total src ts b b' h

example : changeAssets [(1, 10)] 1 [(2, .val 4), (1, .val 6), (3, .val 6)] = some [(1, 0), (2, 4), (3, 6)] := by decide
example : changeAssets [(1, 10)] 1 [(2, .val 4), (3, .val 7)] = none := by decide

/-- `ProcessFee` moves exactly the fee to the fee account or changes nothing. -/
theorem processFee_conserves (b b' : Bal) (src : Addr) (h : processFee b src = some b') : total b' = total b :=
  processFee_total b b' src h

/-- Charging gas (`deductGasFee` and the fee step of `contractExecutor.Execute`) never credits more than it
    debits: the fee is clamped to the payer's balance. -/
theorem chargeGas_conserves (b : Bal) (src : Addr) (gasUsed : Nat) : total (chargeGas b src gasUsed) = total b :=
  chargeGas_total b src gasUsed

/-! ## 3. EVM frames -/

/-- Everything the native token can be: live balances, value burned by self-destruct-to-self (ghost), stake held by
    the miner registry, and refunds / rewards waiting in the escrow. -/
def wealth (s : St) : Nat := total s.bal + s.burned + stakeSum s.reg + escrowTotal s.escrow

/-- **frames_conserve**, full statement: no EVM program changes the wealth. -/
def FullStatementFramesConserve : Prop :=
  ∀ (code : Code) (origin : Addr) (fuel : Nat) (self : Addr) (ro : Bool) (sc : Script) (s : St),
    wealth (exec code origin true fuel self ro sc s).1 = wealth s

/-- What holds of model and code: the EVM frame skeleton — any program of CALL / CALLCODE / DELEGATECALL /
    STATICCALL / CREATE(2) / SELFDESTRUCT / AUTHCALL / STAKE / UNSTAKE / UNSTAKEALL / REVERT / INVALID / STOP, any
    nesting, any gas bound `fuel`, static or not, failed frames reverted — changes the wealth only by what the ghost
    counter `excess` records: the wei UNSTAKE escrows for refund beyond the stake it removes. -/
theorem frames_conserve_partial (code : Code) (origin : Addr) (fuel : Nat) (self : Addr) (ro : Bool) (sc : Script) (s : St) :
    wealth (exec code origin true fuel self ro sc s).1 + s.excess = wealth s + (exec code origin true fuel self ro sc s).1.excess := by
  have h := exec_mass code origin fuel self ro sc s
  unfold mass at h
  unfold wealth
  omega

/-- The full statement is false of the model — and of the code (known finding `mint-unstake-refund-exceeds-stake`,
    replayed by the searcher scenario and in the correspondence stream): the contract account 5 of a proposer with
    stake 2500 executes `UNSTAKE(self, 0.5 RPG)`: the stake stays 2500 (whole-token truncation of 0.5 is 0) and
    0.5 RPG is escrowed for the transaction origin. -/
theorem frames_conserve_counterexample : ¬ FullStatementFramesConserve := by
  intro h
  have := h [(5, [.unstake 500000000000000000])] 1 10 5 false [.unstake 500000000000000000]
    { bal := [], dead := [], fresh := 0, burned := 0,
      reg := [{ id := 7, account := 5, stake := 2500, typ := 1, visible := true }] }
  revert this
  decide +kernel

/-- UNSTAKE exactly: the registry loses `refund` whole tokens, the escrow gains `max (refund tokens) v`, of which `v`
    for the origin; `excess` grows by `v - refund tokens` (truncated subtraction). -/
theorem unstake_exact (code : Code) (origin : Addr) (s : St) (self : Addr) (v : Nat) :
    stakeSum (opUnStake code origin s self v).reg + escrowTotal (opUnStake code origin s self v).escrow + s.excess
      = stakeSum s.reg + escrowTotal s.escrow + (opUnStake code origin s self v).excess ∧
    (opUnStake code origin s self v).bal = s.bal := by
  have h := mass_opUnStake code origin s self v
  have hb := bal_opUnStake code origin s self v
  have hbu := burned_opUnStake code origin s self v
  unfold mass at h
  rw [hb, hbu] at h
  exact ⟨by omega, hb⟩

/-- STAKE moves whole tokens from the contract's balance into the registry, nothing else. -/
theorem stake_exact (s : St) (self : Addr) (v : Nat) :
    total (opStake s self v).bal + stakeSum (opStake s self v).reg = total s.bal + stakeSum s.reg := by
  have h := mass_opStake s self v
  have hbu := burned_opStake s self v
  have e1 : (opStake s self v).escrow = s.escrow := by
    unfold opStake; simp only; repeat' split
    all_goals rfl
  have e2 : (opStake s self v).excess = s.excess := by
    unfold opStake; simp only; repeat' split
    all_goals rfl
  unfold mass at h
  rw [hbu, e1, e2] at h
  omega

/-- **Fork configurations.** `frames_never_mint`, `frames_conserve_partial`, `tx_conserves_partial`, `tx_never_mints`,
    `block_conserves`, … hold for every value of the flags 015, 017, 018, 026, 027 (they are fields of `w.fl`,
    universally quantified) and need only `p002 = true`: balance writes are journaled. The statement for *all* fork
    configurations, including heights below Proposal002Block: -/
def FullStatementNeverMintsAllForks : Prop :=
  ∀ (code : Code) (jr : Bool) (fuel : Nat) (origin addr : Addr) (v : Int) (s : St),
    total (evmCallTop code jr fuel origin addr v s).1.bal ≤ total s.bal

/-- …is false of the model and of the code below Proposal002Block (main-net heights < 3 353 000, robin < 2 802 000;
    known finding `pre002-reverted-selfdestruct-mint`, replayed: corpus/C06/09-pre002-revert.ops). There `AddFT`/`SubFT`
    write balance slots with `setData`, bypassing the journal, so a revert restores nothing — except that
    `suicideChange.undo` writes back the balance `Suicide` recorded: contract 4 (balance 5) self-destructs to 9 inside a
    call from contract 2, which then hits INVALID; after the revert 9 keeps the 5 and 4 has its 5 back. -/
theorem never_mints_pre002_counterexample : ¬ FullStatementNeverMintsAllForks := by
  intro h
  have := h [(2, [.call 4 0, .invalid]), (4, [.suicide 9])] false 10 1 2 0
    { bal := [(4, 5)], dead := [], fresh := 0, burned := 0 }
  revert this
  decide +kernel

/-- The proved restriction: from Proposal002Block on (`jr = true`) no top-level call raises the sum. -/
theorem never_mints_from_002_partial (code : Code) (fuel : Nat) (origin addr : Addr) (v : Int) (s : St) :
    total (evmCallTop code true fuel origin addr v s).1.bal ≤ total s.bal :=
  evmCallTop_total_le code fuel origin addr v s

/-- The sum of all balances never grows inside the EVM, whatever the program. -/
theorem frames_never_mint (code : Code) (origin : Addr) (fuel : Nat) (self : Addr) (ro : Bool) (sc : Script) (s : St) :
    total (exec code origin true fuel self ro sc s).1.bal ≤ total s.bal :=
  exec_total_le code origin fuel self ro sc s

/-- SELFDESTRUCT: to another account it moves the balance, to itself it burns exactly the balance. -/
theorem selfdestruct_exact (s : St) (self ben : Addr) :
    total (suicide s self ben).bal + (if ben = self then get s.bal self else 0) = total s.bal ∧
    (suicide s self ben).burned = s.burned + (if ben = self then get s.bal self else 0) ∧
    get (suicide s self ben).bal self = 0 := by
  have hm := mass_suicide s self ben
  have e1 : (suicide s self ben).reg = s.reg := rfl
  have e2 : (suicide s self ben).escrow = s.escrow := rfl
  have e3 : (suicide s self ben).excess = s.excess := rfl
  unfold mass at hm
  rw [e1, e2, e3] at hm
  refine ⟨?_, rfl, ?_⟩
  · have : (suicide s self ben).burned = s.burned + (if ben = self then get s.bal self else 0) := rfl
    omega
  · unfold suicide; simp only; rw [get_put_same]

/-- The self-destruct step is stated per invocation: it does not consult whether the contract was destroyed
    before (`dead`), so a contract that self-destructs, receives value again in the same un-finalised state and
    self-destructs again hands over / burns exactly what it holds at that moment, each time. -/
theorem selfdestruct_per_invocation (s : St) (d : List Addr) (self ben : Addr) :
    (suicide { s with dead := d } self ben).bal = (suicide s self ben).bal ∧
    (suicide { s with dead := d } self ben).burned = (suicide s self ben).burned := ⟨rfl, rfl⟩

/-- driver 7 calls bomb 8 (beneficiary 9) three times, with value on the later calls: 9 receives 0+1+2, nothing is
    duplicated, nothing stays in 8 -/
example : let r := (exec [(7, [.call 8 0, .call 8 1, .call 8 2]), (8, [.suicide 9])] 1 true 20 7 false
            [.call 8 0, .call 8 1, .call 8 2] { bal := [(7, 5), (8, 4)], dead := [], fresh := 0, burned := 0 }).1
          get r.bal 9 = 7 ∧ get r.bal 8 = 0 ∧ get r.bal 7 = 2 ∧ total r.bal = 9 := by decide

example : (exec [(7, [.call 8 3, .suicide 7])] 1 true 10 7 false [.call 8 3, .suicide 7]
            { bal := [(7, 5)], dead := [], fresh := 0, burned := 0 }).1.burned = 2 := by decide

/-! ## 4. Whole transactions -/

/-- **tx_conserves**, the full statement of the property's accounting clause: over every transaction nothing
    appears and nothing vanishes — balances + burned + registry stake + escrow (+ refunds pending in the executor
    context) stay the same. -/
def FullStatementTxConserves : Prop :=
  ∀ (fuel : Nat) (w : World) (tx : Tx), w.fl.p002 = true →
    wealth (execTx fuel w tx).1.st + escrowTotal (execTx fuel w tx).1.ctx.pending
      = wealth w.st + escrowTotal w.ctx.pending

/-- What holds of model and code, for every transaction of every modelled type — asset transfer (any target list,
    any amount strings), contract creation / call / jsonrpc (any gas-limit and value strings, any program incl. the
    stake opcodes, any value of the oracle inputs `gasUsed` / `nonceOk` / `jsonOk`, any `fuel`), miner apply / add
    stake / refund, OperatorNode — from every state, successful, failed or evicted: the wealth changes only by the
    10 RPG a successful OperatorNode debits and credits to nobody (`nodeFeeBy`) and by the UNSTAKE over-refund
    recorded in `excess`. -/
theorem tx_conserves_partial (fuel : Nat) (w : World) (hj : w.fl.p002 = true) (tx : Tx) :
    wealth (execTx fuel w tx).1.st + escrowTotal (execTx fuel w tx).1.ctx.pending
        + nodeFeeBy tx (execTx fuel w tx).2 + w.st.excess
      = wealth w.st + escrowTotal w.ctx.pending + (execTx fuel w tx).1.st.excess := by
  have h := execTx_mass fuel w hj tx
  unfold wmass mass at h
  unfold wealth
  omega

/-- The two known findings are the only leaks: if the transaction is not a successful OperatorNode and the `excess`
    counter did not move, the full equation holds. -/
theorem tx_conserves_except_known (fuel : Nat) (w : World) (hj : w.fl.p002 = true) (tx : Tx)
    (h1 : nodeFeeBy tx (execTx fuel w tx).2 = 0) (h2 : (execTx fuel w tx).1.st.excess = w.st.excess) :
    wealth (execTx fuel w tx).1.st + escrowTotal (execTx fuel w tx).1.ctx.pending
      = wealth w.st + escrowTotal w.ctx.pending := by
  have hm := tx_conserves_partial fuel w hj tx
  omega

example : nodeFeeBy (.operator 1 true []) .success = 0 := rfl

/-- The full statement is false of the model — and of the code (known finding `burn-operator-node-fee`, replayed:
    corpus/C06/06-operator-node-fee.ops): an account holding 20.001 RPG that owns a miner sends an OperatorNode
    transaction; it succeeds, 10 RPG leave its balance and arrive nowhere. -/
theorem tx_conserves_counterexample : ¬ FullStatementTxConserves := by
  intro h
  have := h 0 { st := { bal := [(1, 20001000000000000000)], dead := [], fresh := 0, burned := 0,
                        reg := [{ id := 7, account := 1, stake := 2000, typ := 1, visible := true }] },
                code := [], ctx := { gasUsed := none } } (.node 1 99 true) rfl
  revert this
  decide +kernel

/-- The oracle inputs of the model — the gas the interpreter reports (`gasUsed`), the outcome of the nonce test
    (`nonceOk`), whether the JSON decodes (`jsonOk`) — and the gas bound `fuel` are universally quantified in every
    theorem of this file (they are fields of `t : ContractTx` / an argument). Spelled out: whatever values they take,
    a contract transaction conserves balances + burned, and never raises the sum. -/
theorem conserves_for_every_oracle_value (fuel : Nat) (w : World) (hj : w.fl.p002 = true) (t : ContractTx)
    (gasUsed : Nat) (nonceOk jsonOk : Bool) :
    let t' := { t with gasUsed := gasUsed, nonceOk := nonceOk, jsonOk := jsonOk }
    wealth (execTx fuel w (.contract t')).1.st + w.st.excess
        = wealth w.st + (execTx fuel w (.contract t')).1.st.excess ∧
    total (execTx fuel w (.contract t')).1.st.bal ≤ total w.st.bal := by
  intro t'
  have h1 := execTx_mass_contract fuel w hj t'
  unfold mass at h1
  unfold wealth
  exact ⟨by omega, execTx_total_le fuel w hj (.contract t')⟩

/-- **The sum of all balances never increases** over any transaction of any type, successful or failed
    (full strength; the two known findings do not touch this clause: one destroys value, the other creates it in the
    escrow, from where it reaches balances only through `after_exact`). -/
theorem tx_never_mints (fuel : Nat) (w : World) (hj : w.fl.p002 = true) (tx : Tx) :
    total (execTx fuel w tx).1.st.bal ≤ total w.st.bal :=
  execTx_total_le fuel w hj tx

/-- OperatorNode (`nodeTx = nodeTxWith nodeFee`, `nodeFee` = 10 RPG): a successful one lowers the wealth and the
    sum of balances by exactly the fee (and hands the miner to the new account). -/
theorem node_fee_exact (fee : Nat) (s s2 : St) (src newAcct : Addr) (mainOk : Bool)
    (h : nodeTxWith fee s src newAcct mainOk = some s2) :
    wealth s2 + fee = wealth s ∧ total s2.bal + fee = total s.bal := by
  have hm := mass_nodeTxWith fee s s2 src newAcct mainOk h
  unfold nodeTxWith at h
  split at h
  · cases h
  · rename_i hbal
    cases hby : byAccount s.reg src with
    | none => simp [hby] at h
    | some m =>
      simp only [hby] at h
      cases hg : regGet s.reg m.id with
      | none => simp [hg] at h
      | some m' =>
        simp only [hg] at h
        split at h
        · cases h
        · simp only [Option.some.injEq] at h
          subst h
          have h1 := (subBal_ok_of_le s.bal src fee (by omega)).2.1
          unfold mass at hm
          unfold wealth
          simp only at hm ⊢
          constructor <;> omega

example : nodeTx = nodeTxWith nodeFee := rfl

theorem node_fee_is_ten : strToBigInt "10" = .val nodeFee := by decide +kernel

/-- A whole block at any height (fresh executor context, stale `gasUsed` carried between its transactions, context
    refunds and the block reward `rewards` into the escrow, payout of what is due, commit): the wealth grows by
    exactly the block reward, minus node fees, plus the UNSTAKE over-refund. -/
theorem block_conserves (fuel : Nat) (w : World) (hj : w.fl.p002 = true) (h : Nat) (txs : List Tx) (rewards : Escrow) :
    wealth (execBlock fuel w h txs rewards).1.st + nodeFeeSum txs (execBlock fuel w h txs rewards).2 + w.st.excess
      = wealth w.st + escrowTotal rewards + (execBlock fuel w h txs rewards).1.st.excess := by
  have hm := execBlock_mass fuel w hj h txs rewards
  unfold mass at hm
  unfold wealth
  omega

/-- the escrow as `CheckAndMove` finds it at the end of the block: what was there, plus UNSTAKE refunds of the block,
    plus the context refunds, plus the block reward -/
def escrowAtPayout (fuel : Nat) (w : World) (h : Nat) (txs : List Tx) (rewards : Escrow) : Escrow :=
  let w1 := (execTxs fuel { w with ctx := { gasUsed := none, pending := [] }, st := { w.st with height := h, p014 := w.fl.p014 } } txs).1
  w1.st.escrow ++ (w1.ctx.pending ++ rewards)

/-- Over a block the sum of all balances grows by at most the escrow entries that fall due at this height
    (scheduled block rewards and stake refunds). -/
theorem block_mints_only_due (fuel : Nat) (w : World) (hj : w.fl.p002 = true) (h : Nat) (txs : List Tx) (rewards : Escrow) :
    total (execBlock fuel w h txs rewards).1.st.bal
      ≤ total w.st.bal + ((dueAt (escrowAtPayout fuel w h txs rewards) h).map (·.2)).sum := by
  have h1 := execTxs_total_le fuel txs { w with ctx := { gasUsed := none, pending := [] }, st := { w.st with height := h, p014 := w.fl.p014 } } hj
  unfold execBlock escrowAtPayout
  simp only at h1 ⊢
  generalize execTxs fuel _ txs = r at h1 ⊢
  have h2 := (afterBlock_exact r.1.st.bal r.1.st.escrow h (r.1.ctx.pending ++ rewards)).1
  omega

/-- **failed_tx_only_gas**. A contract transaction that does not succeed (failed or evicted, at any stage:
    fee, decoding, pre-check, intrinsic gas, EVM error, revert) leaves every balance other than the sender's and
    the fee account's exactly as it was, and the sum unchanged. -/
theorem failed_tx_only_gas (fuel : Nat) (w : World) (hj : w.fl.p002 = true) (t : ContractTx)
    (hf : (execTx fuel w (.contract t)).2 ≠ .success) :
    (∀ a, a ≠ t.src → a ≠ feeAccount → get (execTx fuel w (.contract t)).1.st.bal a = get w.st.bal a) ∧
    total (execTx fuel w (.contract t)).1.st.bal ≤ total w.st.bal :=
  ⟨fun a h1 h2 => failed_contract_other fuel w hj t hf a h1 h2, execTx_total_le fuel w hj (.contract t)⟩

/-! ## 5. The two ways the sum may move besides burning -/

/-- Miner apply: a successful one moves exactly `stake` whole tokens from the payer's balance into the registry. -/
theorem apply_exact (s s2 : St) (src : Addr) (id typ stake : Nat) (account : Addr) (keysOk : Bool)
    (h : minerApply s src id typ stake account keysOk = some s2) :
    wealth s2 = wealth s ∧ total s2.bal + toWei stake = total s.bal := by
  have hm := mass_minerApply s s2 src id typ stake account keysOk h
  have hb := burned_minerApply s s2 src id typ stake account keysOk h
  unfold minerApply at h
  repeat' split at h
  all_goals first
    | (simp only [Option.some.injEq] at h
       subst h
       rename_i _ _ _ hbal _ _
       have h1 := (subBal_ok_of_le s.bal src (toWei stake) (by omega)).2.1
       unfold mass at hm
       unfold wealth
       simp only at hm hb ⊢
       constructor <;> omega)
    | cases h

example : (minerApply { bal := [(1, 500000000000000000000)], dead := [], fresh := 0, burned := 0 } 1 7 0 400 1 true).isSome = true
    ∧ (minerApply { bal := [(1, 500000000000000000000)], dead := [], fresh := 0, burned := 0 } 1 7 0 399 1 true).isSome = false := by
  decide +kernel

/-- Miner change-account (type 6): only the registry's account slot changes — wealth, balances and stake stay. -/
theorem change_account_exact (s s2 : St) (src : Addr) (id : Nat) (newAcct : Addr)
    (h : minerChange s src id newAcct = some s2) :
    wealth s2 = wealth s ∧ s2.bal = s.bal ∧ stakeSum s2.reg = stakeSum s.reg := by
  have hm := minerChange_spec s s2 src id newAcct h
  have he : s2.escrow = s.escrow ∧ s2.excess = s.excess := by
    unfold minerChange at h
    cases hg : regGet s.reg id with
    | none => simp [hg] at h
    | some m =>
      simp only [hg] at h
      repeat' split at h
      all_goals first | (simp only [Option.some.injEq] at h; subst h; exact ⟨rfl, rfl⟩) | cases h
  have e1 : escrowTotal s2.escrow = escrowTotal s.escrow := by rw [he.1]
  have e2 := he.2
  have e3 : total s2.bal = total s.bal := by rw [hm.2.2]
  have hb := hm.2.1
  have h1 := hm.1
  unfold mass at h1
  unfold wealth
  refine ⟨by omega, hm.2.2, by omega⟩

example : (minerChange { bal := [], dead := [], fresh := 0, burned := 0, reg := [{ id := 7, account := 1, stake := 400, typ := 0, visible := true }] } 1 7 2).isSome = true := by
  decide

/-- Before Proposal014 the jump table has no STAKE / UNSTAKE / UNSTAKEALL / AUTHCALL: a frame reaching one fails on the
    spot, with nothing changed by that instruction. -/
theorem pre014_opcodes_fail (code : Code) (origin : Addr) (jr : Bool) (f : Nat) (self : Addr) (ro : Bool) (rest : Script)
    (s : St) (h : s.p014 = false) (v : Nat) (to : Addr) :
    exec code origin jr (f + 1) self ro (.stake v :: rest) s = (s, false) ∧
    exec code origin jr (f + 1) self ro (.unstake v :: rest) s = (s, false) ∧
    exec code origin jr (f + 1) self ro (.unstakeAll :: rest) s = (s, false) ∧
    exec code origin jr (f + 1) self ro (.authcall to v :: rest) s = (s, false) := by
  refine ⟨?_, ?_, ?_, ?_⟩ <;> simp [exec, h]

/-- Miner add-stake and miner refund keep the wealth: the first moves balance into the registry, the second moves
    registry stake into the (pending) escrow — by exactly the whole tokens named. -/
theorem add_and_refund_exact (code : Code) (s s2 : St) (src : Addr) (id : Nat) :
    (∀ delta, minerAdd s src id delta = some s2 → wealth s2 = wealth s) ∧
    (∀ amount signed pend, minerRefund code s src id amount signed = some (s2, pend) →
        wealth s2 + escrowTotal pend = wealth s ∧ s2.bal = s.bal) := by
  constructor
  · intro delta h
    have hm := mass_minerAdd s s2 src id delta h
    have hb := burned_minerAdd s s2 src id delta h
    have he : s2.escrow = s.escrow ∧ s2.excess = s.excess := by
      unfold minerAdd at h
      split at h
      · simp only [Option.some.injEq] at h; subst h; exact ⟨rfl, rfl⟩
      · split at h
        · cases h
        · cases hg : regGet s.reg id with
          | none => simp [hg] at h
          | some m => simp only [hg, Option.some.injEq] at h; subst h; exact ⟨rfl, rfl⟩
    have e1 : escrowTotal s2.escrow = escrowTotal s.escrow := by rw [he.1]
    have e2 := he.2
    unfold mass at hm
    unfold wealth
    omega
  · intro amount signed pend h
    have hm := mass_minerRefund code s s2 src id amount signed pend h
    have hb := burned_minerRefund code s s2 src id amount signed pend h
    have hbal := bal_minerRefund code s s2 src id amount signed pend h
    have he : s2.escrow = s.escrow ∧ s2.excess = s.excess := by
      unfold minerRefund at h
      split at h
      · simp only [Option.some.injEq, Prod.mk.injEq] at h; obtain ⟨h1, _⟩ := h; subst h1; exact ⟨rfl, rfl⟩
      · cases amount with
        | none => simp at h
        | some a =>
          simp only at h
          cases hg : getRefundStake s.reg (hasCodeIn code) id src a with
          | none => simp [hg] at h
          | some p =>
            obtain ⟨r', refund, acct⟩ := p
            simp only [hg, Option.some.injEq, Prod.mk.injEq] at h
            obtain ⟨h1, _⟩ := h
            subst h1; exact ⟨rfl, rfl⟩
    have e1 : escrowTotal s2.escrow = escrowTotal s.escrow := by rw [he.1]
    have e2 := he.2
    have e3 : total s2.bal = total s.bal := by rw [hbal]
    unfold mass at hm
    unfold wealth
    exact ⟨by omega, hbal⟩

/-- Stake refund / reward payout (`RefundManager.CheckAndMove`): the sum grows by exactly the escrowed amounts. -/
theorem refund_exact (b : Bal) (l : List (Addr × Nat)) :
    total (refundMove b l) = total b + (l.map (·.2)).sum :=
  refundMove_total l b

/-- End of block (`VMExecutor.after`): the sum of all balances increases by exactly the escrow entries due at this
    height (scheduled block rewards and stake refunds), and balances + escrow increase by exactly what the block
    added to the escrow. -/
theorem after_exact (b : Bal) (e : Escrow) (h : Nat) (added : Escrow) :
    total (afterBlock b e h added).1 = total b + ((dueAt (e ++ added) h).map (·.2)).sum ∧
    total (afterBlock b e h added).1 + escrowTotal (afterBlock b e h added).2
      = total b + escrowTotal e + escrowTotal added :=
  afterBlock_exact b e h added

example : afterBlock [(1, 5)] [(10, 1, 3), (20, 2, 4)] 10 [(10, 2, 6), (30, 1, 1)]
    = ([(1, 8), (2, 6)], [(20, 2, 4), (30, 1, 1)]) := by decide

end Rangers.Props.C06
