import Mathlib.NumberTheory.LegendreSymbol.Basic
import Rangers.Model.VrfCurve
import Rangers.Proofs.C16Pratt
import Rangers.Proofs.C16PrattCert
import Rangers.Proofs.C16Curve
import Rangers.Proofs.C16Group
import Rangers.Proofs.C16Cast
/-!
Property C16, part 9: assumption R1 discharged. `p = 2^255 − 19` is prime (Pratt certificate,
53 primes in the tree, every Lucas step checked by kernel evaluation of modular powers), `d` is a
non-square mod p (Euler's criterion), `SqrtM1² = −1`: the parameters of edwards25519 satisfy the side
conditions of `Proofs/C16Group`, so the points of the CONCRETE curve form a commutative group under
the law the code's `geAdd` computes — with no hypothesis left.
-/
namespace Rangers.Props.C16Prime
open Rangers.Model Rangers.Proofs.C16Pratt Rangers.Proofs.C16PrattCert Rangers.Proofs.C16Curve
  Rangers.Proofs.C16Group Rangers.Proofs.C16Cast

theorem p_value : VrfCurve.p = 57896044618658097711785492504343953926634992332820282019728792003956564819949 := by
  decide +kernel

/-- p = 2^255 − 19 is prime. -/
theorem p25519_prime : Nat.Prime VrfCurve.p := by
  rw [p_value]; exact prime_57896044618658097711785492504343953926634992332820282019728792003956564819949

instance factPrime : Fact (Nat.Prime VrfCurve.p) := ⟨p25519_prime⟩

theorem p_bounds : 1 < VrfCurve.p ∧ VrfCurve.p < 2 ^ 256 := by decide +kernel

/-- Euler value of d, by the kernel-evaluable `powMod` -/
theorem d_powMod : powMod VrfCurve.dConst (VrfCurve.p / 2) VrfCurve.p = VrfCurve.p - 1 := by decide +kernel

/-- d is a non-square modulo p (Euler's criterion): the addition law is complete. -/
theorem d_nonsquare : ¬ IsSquare ((VrfCurve.dConst : ℕ) : ZMod VrfCurve.p) := by
  intro hsq
  have hd0 : ((VrfCurve.dConst : ℕ) : ZMod VrfCurve.p) ≠ 0 := by
    intro h0
    rw [ZMod.natCast_eq_zero_iff] at h0
    have hle := Nat.le_of_dvd (by decide +kernel) h0
    exact absurd hle (by decide +kernel)
  have h1 := (ZMod.euler_criterion (p := VrfCurve.p) hd0).mp hsq
  rw [zmod_pow_eq_one_iff _ _ _ p_bounds.1,
    ← powMod_spec _ _ _ (lt_of_le_of_lt (Nat.div_le_self _ _) p_bounds.2) p_bounds.1, d_powMod] at h1
  exact absurd h1 (by decide +kernel)

theorem sqrtM1_sq : ((VrfCurve.sqrtM1 : ℕ) : ZMod VrfCurve.p) ^ 2 = -1 := by
  have h : VrfCurve.sqrtM1 * VrfCurve.sqrtM1 % VrfCurve.p = VrfCurve.p - 1 := by decide +kernel
  have hc : ((VrfCurve.sqrtM1 * VrfCurve.sqrtM1 % VrfCurve.p : ℕ) : ZMod VrfCurve.p) = ((VrfCurve.p - 1 : ℕ) : ZMod VrfCurve.p) := by
    rw [h]
  rw [ZMod.natCast_mod, Nat.cast_mul, Nat.cast_sub (Nat.le_of_lt p_bounds.1), ZMod.natCast_self] at hc
  rw [pow_two, hc]; simp

theorem two_ne_zero' : (2 : ZMod VrfCurve.p) ≠ 0 := by
  intro h
  have : ((2 : ℕ) : ZMod VrfCurve.p) = 0 := by exact_mod_cast h
  rw [ZMod.natCast_eq_zero_iff] at this
  exact absurd (Nat.le_of_dvd (by decide) this) (by decide +kernel)

/-- the parameters of edwards25519, with every side condition proved -/
noncomputable def edParams25519 : EdParams (ZMod VrfCurve.p) where
  d := (VrfCurve.dConst : ℕ)
  i := (VrfCurve.sqrtM1 : ℕ)
  hi := sqrtM1_sq
  h2 := two_ne_zero'
  hd := d_nonsquare

/-- The points of edwards25519 form a commutative group under the code's addition law —
    unconditionally (no `Fact`, no assumption on d). -/
theorem ed25519_points_form_group (a b c : EdPoint edParams25519) :
    a + b + c = a + (b + c) ∧ a + b = b + a ∧ a + 0 = a ∧ a + -a = 0 :=
  ⟨add_assoc a b c, add_comm a b, add_zero a, add_neg_cancel a⟩

/-- … and the model's `add` computes that law (the `Fact` hypothesis of
    `C16Curve.model_add_is_group_law` is now an instance). -/
theorem model_add_is_group_law_unconditional (a q : VrfCurve.Point)
    (ha : WellFormed a) (hq : WellFormed q)
    (hD1 : 1 + (VrfCurve.dConst : Fp) * affX a * affX q * affY a * affY q ≠ 0)
    (hD2 : 1 - (VrfCurve.dConst : Fp) * affX a * affX q * affY a * affY q ≠ 0) :
    WellFormed (VrfCurve.add a q) ∧
    affX (VrfCurve.add a q) = addX (VrfCurve.dConst : Fp) (affX a) (affY a) (affX q) (affY q) ∧
    affY (VrfCurve.add a q) = addY (VrfCurve.dConst : Fp) (affX a) (affY a) (affX q) (affY q) :=
  model_add_affine a q ha hq hD1 hD2

/-- The model's `sub` (ref10 `GeSub`) computes `a + (−q)` of that group (part of R2). -/
theorem model_sub_is_group_sub (a q : VrfCurve.Point) (ha : WellFormed a) (hq : WellFormed q)
    (hD1 : 1 + (VrfCurve.dConst : Fp) * affX a * (-affX q) * affY a * affY q ≠ 0)
    (hD2 : 1 - (VrfCurve.dConst : Fp) * affX a * (-affX q) * affY a * affY q ≠ 0) :
    WellFormed (VrfCurve.sub a q) ∧
    affX (VrfCurve.sub a q) = addX (VrfCurve.dConst : Fp) (affX a) (affY a) (-affX q) (affY q) ∧
    affY (VrfCurve.sub a q) = addY (VrfCurve.dConst : Fp) (affX a) (affY a) (-affX q) (affY q) :=
  model_sub_affine a q ha hq hD1 hD2

end Rangers.Props.C16Prime
