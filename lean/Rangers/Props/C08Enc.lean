import Rangers.Model.RLPEncbuf
import Rangers.Proofs.RLPEncbuf
/-!
# C08 — the encoder's two-phase buffer refines the recursive encoder

`encodeViaBuf` mirrors `encbuf` of encode.go (string data in `str`, one `listhead{offset,size}` per
list, `lhsize`, `list()`/`listEnd()`/`toBytes()`); the driver executes it for the `encbuf` op.
-/
namespace Rangers.Props.C08
open Rangers Rangers.RLP

/-- What `EncodeToBytes` assembles through `encbuf` is exactly `encode` — so every theorem about
    `encode` (`decode_encode`, `encode_decode`, …) is about the bytes the buffer produces. -/
theorem encbuf_refines_encode (it : Item) : encodeViaBuf it = encode it := encodeViaBuf_eq it

/-- the size bookkeeping of `listEnd`: a list head ends up with the length of its encoded payload,
    and `lhsize` with the total length of all headers -/
theorem encbuf_state (it : Item) :
    wItem it EncBuf.empty = { str := sdata it, lheads := heads it 0, lhsize := hsz it } := by
  have := wItem_spec it EncBuf.empty
  simpa [EncBuf.empty] using this

theorem encbuf_size (it : Item) : (wItem it EncBuf.empty).size = (encode it).length := by
  rw [encbuf_state, enc_len]; rfl

example : encodeViaBuf (.list [.str [1], .list [.str [0x80, 0x81]], .list []]) = [0xc6, 0x01, 0xc3, 0x82, 0x80, 0x81, 0xc0] := by rfl

end Rangers.Props.C08
