import Rangers.Model.Decimal
import Rangers.Generated.C18Facts
/-!
# C18 — facts re-extracted from the source on every run (T-gen)

`Rangers.Generated.C18Facts` is rewritten by `gen/cmd/c18facts` from the go-rangers
working tree before the proofs are checked. The theorems below pin what the Lean
model `Rangers.Model.Decimal` transcribes: a changed constant, rounding mode, an
inserted `SetMode`/`SetPrec`/`Mul`, a wrapper that calls a different member of the
conversion family, a changed end of the wrapped-transaction value path or a new
`FormatDecimalFor*` call site makes one of them fail. (Finite generated tables:
`decide`/`rfl` is the right tool here.) Renaming a local or re-ordering independent
statements changes none of the generated facts.
-/
namespace Rangers.Props.C18Gen
open Rangers.Decimal
open Rangers.Generated

/-- the float precision constant of the source is the model's. -/
theorem gen_prec_eq_model : C18.prec = Rangers.Decimal.prec := rfl

/-- `defaultDecimal` is 18 and `baseNumber` is `10^18`; the model's exported entry
    points use it. -/
theorem gen_default_decimal :
    C18.defaultDecimal = 18 ∧ C18.baseNumber = 10 ^ C18.defaultDecimal ∧
    (∀ s, StrToBigInt s = strToBigInt s (C18.defaultDecimal : Int)) ∧
    (∀ n, n ≠ 0 → BigIntToStr n = bigIntToStr n (C18.defaultDecimal : Int)) := by
  refine ⟨rfl, by decide, fun _ => rfl, fun n hn => ?_⟩
  unfold BigIntToStr; rw [if_neg hn]; rfl

/-- `big.ParseFloat(_, 10, prec, big.AwayFromZero)`: base 10, the `prec` constant,
    away-from-zero — what `scanFloat`/`buildFloat` model. -/
theorem gen_parse_call : C18.parseFloatArgs = ["10", "prec", "big.AwayFromZero"] := by decide

/-- The value of the parsed float is touched by exactly `ParseFloat`, one `Mul`, one
    `Int`, in this order (model: `parseFloat`, `mul .away prec _ (baseFloat d)`, `toInt`). -/
theorem gen_pipeline : C18.strToBigIntPipeline = ["ParseFloat", "Mul", "Int"] := by decide

/-- The wrappers call the members of the conversion family the model says they call. -/
theorem gen_wrappers :
    C18.calls_StrToBigInt = ["strToBigInt/defaultDecimal"] ∧
    C18.calls_BigIntToStr = ["bigIntToStr/defaultDecimal"] ∧
    C18.calls_FormatDecimalForERC20 = ["BigIntToStr", "strToBigInt"] ∧
    C18.calls_FormatDecimalForRocket = ["bigIntToStr", "StrToBigInt"] ∧
    C18.calls_BigIntToStrWithoutDot = ["BigIntToStr"] := by decide

/-- Both ends of the wrapped-transaction value path (`evmValue` in the model). -/
theorem gen_value_path :
    C18.convertTxTransferValue = ["utility.BigIntToStr"] ∧
    C18.decodeTransferValue = ["utility.StrToBigInt"] := by decide

/-- Inventory of the re-scaling call sites ("every balance read/write passes through
    FormatDecimalForRocket/FormatDecimalForERC20"): a new or removed site is flagged. -/
theorem gen_call_sites :
    C18.formatCallSites =
      ["src/storage/account/accountdb.go:setBalance:utility.FormatDecimalForERC20",
       "src/storage/account/accountdb_tuntun.go:AddFT:utility.FormatDecimalForERC20",
       "src/storage/account/accountdb_tuntun.go:GetFT:utility.FormatDecimalForRocket",
       "src/storage/account/accountdb_tuntun.go:SetFT:utility.FormatDecimalForERC20",
       "src/storage/account/accountdb_tuntun.go:SubFT:utility.FormatDecimalForERC20",
       "src/storage/account/accountdb_tuntun.go:SubFT:utility.FormatDecimalForRocket"] := by decide

/-- math/big's `pow5tab` (toolchain the harness is built with) is `5^0 … 5^27`, and
    the model's `pow5` returns exactly its entries on the table range. -/
theorem gen_pow5tab :
    C18.pow5tab = (List.range 28).map (fun n => 5 ^ n) ∧
    ∀ n < 28, pow5 n = BF.fin false (C18.pow5tab[n]?.getD 0) 0 := by
  constructor
  · decide
  · decide

/-- **No shared mutable state.** No function of `data_convert.go` assigns to, increments,
    takes the address of, or calls a (non read-only) method on a package-level variable of
    package `utility` — directly or through a local assigned from one (alias). Hence each
    conversion is a function of its arguments alone: answers cannot depend on earlier calls
    (the history / interleaving / concurrency phases of the harness test the same thing
    dynamically). -/
theorem gen_no_package_state_writes : C18.pkgStateWrites = [] := by decide

/-- The package-level variables of `data_convert.go` are exactly the read-only constants
    `ten` and `tenToAny`; a new one (a cache, a hoisted scale factor) is flagged. -/
theorem gen_package_vars : C18.pkgVars = ["ten", "tenToAny"] := by decide

/-- Fork-configuration reads on the conversion paths: none inside `data_convert.go`,
    `GetFT`/`SetFT`/`ConvertTx`/`transferBalance`/`ChangeAssets`; `AddFT`/`SubFT` read
    Proposal002 (journaled `SetData` vs plain `setData` — same stored value),
    `decodeContractData` reads 017 (default gas limit) and 005 (ABI data) — neither touches the
    transfer value; `GetERC20Binding` reads `IsSub` (slot position 4 vs 3, decimals 18 in both).
    The model is therefore flag-free; the harness runs `ft`/`xfer`/`evmval` on both sides of
    each of these flags (`cfg` op). -/
theorem gen_fork_flag_reads :
    C18.forkFlagReads =
      ["AddFT:common.IsProposal002", "SubFT:common.IsProposal002", "GetERC20Binding:common.IsSub",
       "decodeContractData:common.IsProposal017", "decodeContractData:common.IsProposal005"] := by decide

end Rangers.Props.C18Gen
