import Rangers.Model.Decimal
import Rangers.Model.DecimalTx
import Rangers.Generated.C18Facts
/-!
# C18 — facts re-extracted from the source on every run (T-gen)

`Rangers.Generated.C18Facts` is rewritten by `gen/cmd/c18facts` from the go-rangers
working tree before the proofs are checked. The theorems below pin what the Lean
model `Rangers.Model.Decimal` transcribes: a changed constant, rounding mode, an
inserted `SetMode`/`SetPrec`/`Mul`, a wrapper that calls a different member of the
conversion family, a changed end of the wrapped-transaction value path or a new
`FormatDecimalFor*` call site makes one of them fail. (Finite generated tables:
`decide`/`rfl` is the right tool here.) Renaming a local or re-ordering independent
statements changes none of the generated facts.
-/
namespace Rangers.Props.C18Gen
open Rangers.Decimal
open Rangers.Generated

/-- the float precision constant of the source is the model's. -/
theorem gen_prec_eq_model : C18.prec = Rangers.Decimal.prec := rfl

/-- `defaultDecimal` is 18 and `baseNumber` is `10^18`; the model's exported entry
    points use it. -/
theorem gen_default_decimal :
    C18.defaultDecimal = 18 ∧ C18.baseNumber = 10 ^ C18.defaultDecimal ∧
    (∀ s, StrToBigInt s = strToBigInt s (C18.defaultDecimal : Int)) ∧
    (∀ n, n ≠ 0 → BigIntToStr n = bigIntToStr n (C18.defaultDecimal : Int)) := by
  refine ⟨rfl, by decide, fun _ => rfl, fun n hn => ?_⟩
  unfold BigIntToStr; rw [if_neg hn]; rfl

/-- `big.ParseFloat(_, 10, prec, big.AwayFromZero)`: base 10, the `prec` constant,
    away-from-zero — what `scanFloat`/`buildFloat` model. -/
theorem gen_parse_call : C18.parseFloatArgs = ["10", "prec", "big.AwayFromZero"] := by decide

/-- The value of the parsed float is touched by exactly `ParseFloat`, one `Mul`, one
    `Int`, in this order (model: `parseFloat`, `mul .away prec _ (baseFloat d)`, `toInt`). -/
theorem gen_pipeline : C18.strToBigIntPipeline = ["ParseFloat", "Mul", "Int"] := by decide

/-- The wrappers call the members of the conversion family the model says they call. -/
theorem gen_wrappers :
    C18.calls_StrToBigInt = ["strToBigInt/defaultDecimal"] ∧
    C18.calls_BigIntToStr = ["bigIntToStr/defaultDecimal"] ∧
    C18.calls_FormatDecimalForERC20 = ["BigIntToStr", "strToBigInt"] ∧
    C18.calls_FormatDecimalForRocket = ["bigIntToStr", "StrToBigInt"] ∧
    C18.calls_BigIntToStrWithoutDot = ["BigIntToStr"] := by decide

/-- Both ends of the wrapped-transaction value path (`evmValue` in the model). -/
theorem gen_value_path :
    C18.convertTxTransferValue = ["utility.BigIntToStr"] ∧
    C18.decodeTransferValue = ["utility.StrToBigInt"] := by decide

/-- Inventory of the re-scaling call sites ("every balance read/write passes through
    FormatDecimalForRocket/FormatDecimalForERC20"): a new or removed site is flagged. -/
theorem gen_call_sites :
    C18.formatCallSites =
      ["src/storage/account/accountdb.go:setBalance:utility.FormatDecimalForERC20",
       "src/storage/account/accountdb_tuntun.go:AddFT:utility.FormatDecimalForERC20",
       "src/storage/account/accountdb_tuntun.go:GetFT:utility.FormatDecimalForRocket",
       "src/storage/account/accountdb_tuntun.go:SetFT:utility.FormatDecimalForERC20",
       "src/storage/account/accountdb_tuntun.go:SubFT:utility.FormatDecimalForERC20",
       "src/storage/account/accountdb_tuntun.go:SubFT:utility.FormatDecimalForRocket"] := by decide

/-- math/big's `pow5tab` (toolchain the harness is built with) is `5^0 … 5^27`, and
    the model's `pow5` returns exactly its entries on the table range. -/
theorem gen_pow5tab :
    C18.pow5tab = (List.range 28).map (fun n => 5 ^ n) ∧
    ∀ n < 28, pow5 n = BF.fin false (C18.pow5tab[n]?.getD 0) 0 := by
  constructor
  · decide
  · decide

/-- **No shared mutable state.** No function of `data_convert.go` assigns to, increments,
    takes the address of, or calls a (non read-only) method on a package-level variable of
    package `utility` — directly or through a local assigned from one (alias). Hence each
    conversion is a function of its arguments alone: answers cannot depend on earlier calls
    (the history / interleaving / concurrency phases of the harness test the same thing
    dynamically). -/
theorem gen_no_package_state_writes : C18.pkgStateWrites = [] := by decide

/-- The package-level variables of `data_convert.go` are exactly the read-only constants
    `ten` and `tenToAny`; a new one (a cache, a hoisted scale factor) is flagged. -/
theorem gen_package_vars : C18.pkgVars = ["ten", "tenToAny"] := by decide

/-- Fork-configuration reads on the conversion paths: none inside `data_convert.go`,
    `GetFT`/`SetFT`/`ConvertTx`/`transferBalance`/`ChangeAssets`; `AddFT`/`SubFT` read
    Proposal002 (journaled `SetData` vs plain `setData` — same stored value),
    `decodeContractData` reads 017 (default gas limit) and 005 (ABI data) — neither touches the
    transfer value; `GetERC20Binding` reads `IsSub` (slot position 4 vs 3, decimals 18 in both).
    The model is therefore flag-free; the harness runs `ft`/`xfer`/`evmval` on both sides of
    each of these flags (`cfg` op). -/
theorem gen_fork_flag_reads :
    C18.forkFlagReads =
      ["AddFT:common.IsProposal002", "SubFT:common.IsProposal002", "GetERC20Binding:common.IsSub",
       "decodeContractData:common.IsProposal017", "decodeContractData:common.IsProposal005"] := by decide

/-- gas-limit defaults of contract_executor.go are the model's. -/
theorem gen_gas_defaults : C18.gasDefaults = [defaultGasLimit, p017defaultGasLimit] := by decide

/-- Guards of `decodeContractData` in source order (JSON error; gas limit empty or "0" →
    default, chosen by Proposal017; `ParseUint(_, 10, 64)` error; `StrToBigInt` error;
    Proposal005 ∧ ABI data empty or "0x0" → no input) — the branch structure of the model's
    `decodeContractData`. -/
theorem gen_decode_guards :
    C18.decodeConds = ["_ != nil", "_.GasLimit == \"\" || _.GasLimit == \"0\"", "common.IsProposal017()", "_ != nil",
      "_ != nil", "common.IsProposal005() && (_.AbiData == \"\" || _.AbiData == \"0x0\")"] ∧
    C18.decodeParseUint = ["strconv.ParseUint(_.GasLimit, 10, 64)"] := by decide

/-- What `ConvertTx` writes into each `ContractData` field (model: `convertTxData`). -/
theorem gen_convert_fields :
    C18.convertFields = ["AbiData = common.ToHex(_.Data())", "TransferValue = utility.BigIntToStr(_)",
      "GasPrice = _.GasPrice().String()", "GasLimit = strconv.FormatUint(_.Gas(), 10)"] := by decide

/-- Guards of `common.FromHex` / `ToHex` and the byte order of the uint64 helpers
    (model: `fromHex`, `toHex`, `uint64ToByte`, `byteToUInt64`). -/
theorem gen_hex_and_bytes :
    C18.fromHexConds = ["len(_) > 1", "_[0:2] == \"0x\" || _[0:2] == \"0X\"", "len(_) % 2 == 1"] ∧
    C18.toHexConds = ["len(_) == 0"] ∧
    C18.byteHelperCalls = ["UInt64ToByte:binary.Write(_, binary.BigEndian, _)",
      "ByteToUInt64:binary.Read(_, binary.BigEndian, &_)"] := by decide

/-- Every guard of the token layer (`AccountDB.GetFT/SetFT/AddFT/SubFT`, the account-object
    FT functions of the unbound path, `GetERC20Binding`, `AddERC20Binding`) and of
    `transferBalance`: the comparison operators and nil / zero tests the `World` model and
    `gameTransfer` transcribe. -/
theorem gen_token_layer_guards :
    C18.tokenLayerConds = ["AccountDB.GetFT: _",
      "AccountDB.GetFT: _ == nil",
      "AccountDB.SetFT: nil == _",
      "AccountDB.SetFT: _",
      "AccountDB.AddFT: nil == _",
      "AccountDB.AddFT: _",
      "AccountDB.AddFT: common.IsProposal002()",
      "AccountDB.SubFT: nil == _",
      "AccountDB.SubFT: _",
      "AccountDB.SubFT: _.Cmp(_) < 0",
      "AccountDB.SubFT: common.IsProposal002()",
      "accountObject.getFT: nil == _ || 0 == len(_)",
      "accountObject.AddFT: _.Sign() == 0",
      "accountObject.AddFT: _.empty()",
      "accountObject.AddFT: nil == _",
      "accountObject.SubFT: _.Sign() == 0",
      "accountObject.SubFT: nil == _",
      "accountObject.SubFT: nil == _ || _.Cmp(_) == -1",
      "accountObject.SetFT: nil == _",
      "GetERC20Binding: 0 == _.Compare(_, common.BLANCE_NAME)",
      "GetERC20Binding: 0 == _.Compare(_.Bytes(), ?.Bytes())",
      "GetERC20Binding: common.IsSub()",
      "GetERC20Binding: !_.Exist(_)",
      "AddERC20Binding: _.Exist(_)"] ∧
    C18.transferBalanceConds = ["_ != nil", "_.Sign() == -1", "_.Cmp(_) == -1"] := by decide

end Rangers.Props.C18Gen
