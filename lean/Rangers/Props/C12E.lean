import Rangers.Props.C12B
import Rangers.Proofs.Evm12InvInst
/-!
# C12, part E: the transaction and the block as a whole

* `failed_tx_leaves_only_nonce` -- a contract transaction that fails (for whatever reason, at whatever depth)
  changes nothing observable except the source account's nonce (Proposal007) -- the block loop's own
  `RevertToSnapshot(snapshot)` plus the nonce bump.
* `block_receipts_partition` -- in a block of transactions with pairwise distinct, unused hashes (Proposal013)
  the receipts partition the logs the block added: the world's log list grows by exactly the concatenation of
  the receipts' logs, in order -- no receipt carries a log of an earlier or later transaction, none is lost.
* scratch state: `transient_get_set`, `prepare_keeps_transient` (the recorded defect, as a positive statement
  about what `Prepare` does), `access_list_fresh_per_tx`.
-/
namespace Rangers.Props.C12E
open Rangers.Model.Evm12

/-- `SetNonce` is a function of the observation: equal observations stay equal -/
theorem obs_setNonce_congr {x y : World} (h : obs x = obs y) (a : Addr) (n : Nat) :
    obs (x.setNonce a n) = obs (y.setNonce a n) := by
  have he : x.exists? = y.exists? := congrArg Obs.exist h
  have hn : x.getNonce = y.getNonce := congrArg Obs.nonce h
  have hb : x.getBalance = y.getBalance := congrArg Obs.bal h
  have hc : x.getCode = y.getCode := congrArg Obs.code h
  have hs : x.getState = y.getState := congrArg Obs.stor h
  have hl : x.logs = y.logs := congrArg Obs.logs h
  have hk : x.getStake = y.getStake := congrArg Obs.stake h
  have hu : x.hasSuicided = y.hasSuicided := congrArg Obs.sui h
  have tx := touchNew_getters x a
  have ty := touchNew_getters y a
  have e1 : (x.setNonce a n).exists? = (y.setNonce a n).exists? := by
    funext b
    show (x.touchNew a).exists? b = (y.touchNew a).exists? b
    rw [exists_touchNew, exists_touchNew, he]
  have e2 : (x.setNonce a n).getNonce = (y.setNonce a n).getNonce := by
    funext b
    show AMap.get (AMap.set (x.touchNew a).nonce a n) 0 b = AMap.get (AMap.set (y.touchNew a).nonce a n) 0 b
    rw [AMap.get_set, AMap.get_set]
    have h1 : AMap.get (x.touchNew a).nonce 0 b = (x.touchNew a).getNonce b := rfl
    have h2 : AMap.get (y.touchNew a).nonce 0 b = (y.touchNew a).getNonce b := rfl
    rw [h1, h2, tx.1, ty.1, hn]
  have same : ∀ (w : World), (w.setNonce a n).getBalance = w.getBalance ∧ (w.setNonce a n).getCode = w.getCode
      ∧ (w.setNonce a n).getState = w.getState ∧ (w.setNonce a n).logs = w.logs
      ∧ (w.setNonce a n).getStake = w.getStake ∧ (w.setNonce a n).hasSuicided = w.hasSuicided := by
    intro w
    unfold World.setNonce World.touchNew
    split <;> exact ⟨rfl, rfl, rfl, rfl, rfl, rfl⟩
  obtain ⟨x1, x2, x3, x4, x5, x6⟩ := same x
  obtain ⟨y1, y2, y3, y4, y5, y6⟩ := same y
  simp only [obs, e1, e2, x1, x2, x3, x4, x5, x6, y1, y2, y3, y4, y5, y6, hb, hc, hs, hl, hk, hu]

/-- a failed transaction leaves no trace but the source nonce: the observation after it is the observation of
    the state the block loop snapshotted, with the source nonce bumped when Proposal007 is active -/
theorem failed_tx_leaves_only_nonce (cfg : Cfg) (rv : World → World → World) (hrv : RevertRestoresObs rv)
    (i : Nat) (w : World) (tx : Tx) (hfail : (execTx cfg rv i w tx).2.failed = true) :
    let w0 := txStartWorld cfg i w tx
    obs (execTx cfg rv i w tx).1 =
      obs (if cfg.p007 then w0.setNonce tx.origin (w0.getNonce tx.origin + 1) else w0) := by
  unfold execTx at hfail ⊢
  simp only [txStartWorld] at hfail ⊢
  generalize (if cfg.p013 = true then prepare w tx.hash i else w) = w0 at hfail ⊢
  unfold txFinish
  simp only [hfail, ↓reduceIte, Bool.and_true]
  have hn : (rv w0 (txFrame cfg rv tx w0).world).getNonce = w0.getNonce := congrArg Obs.nonce (hrv _ _)
  cases cfg.p007
  · simp only [Bool.false_eq_true, ↓reduceIte]; exact hrv _ _
  · simp only [↓reduceIte]
    rw [hn]
    exact obs_setNonce_congr (hrv _ _) _ _

/-- non-vacuity: a transaction whose callee writes, logs, creates and then hits an invalid opcode -/
example :
    let w0 : World := ((({} : World).setCode (.base 20) .hosted).addBalance (.base 10) 100)
    let tx : Tx := { hash := 1, origin := .base 10, kind := .call (.base 20), value := 7,
                     body := .sstore 1 7 (.log 1 5 (.create 1 false 0 0 (.done (.retCode 1)) (.done .invalid))) }
    (execTx {} restore 0 w0 tx).2.failed = true
    ∧ (execTx {} restore 0 w0 tx).1.getState (.base 20) 1 = 0
    ∧ (execTx {} restore 0 w0 tx).1.getBalance (.base 10) = 100
    ∧ (execTx {} restore 0 w0 tx).1.getNonce (.base 10) = 1 := by
  decide

/-! ## the receipts of a block partition its logs -/

/-- hashes of the transactions are pairwise distinct and none has logs in `w` yet -/
def FreshHashes (w : World) : List Tx → Prop
  | [] => True
  | tx :: rest => w.getLogs tx.hash = [] ∧ (∀ t ∈ rest, t.hash ≠ tx.hash) ∧ FreshHashes w rest

theorem getLogs_append_other (w : World) (new : List Log) (h h' : Nat) (hne : h' ≠ h)
    (hall : ∀ l ∈ new, l.txh = h) (hw : (w.logs.filter (fun l => l.txh == h')) = []) :
    ((w.logs ++ new).filter (fun l => l.txh == h')) = [] := by
  rw [List.filter_append, hw, List.nil_append]
  apply List.filter_eq_nil_iff.mpr
  intro l hl
  have := hall l hl
  simp [this, Ne.symm hne]

theorem block_receipts_partition (cfg : Cfg) (h13 : cfg.p013 = true) (rv : World → World → World)
    (hrv : RevertRestoresObs rv) (hkc : RevertKeepsTxContext rv) :
    ∀ (txs : List Tx) (i : Nat) (w : World), FreshHashes w txs →
      (execBlock cfg rv i w txs).1.logs = w.logs ++ ((execBlock cfg rv i w txs).2.map (·.logs)).flatten := by
  intro txs
  induction txs with
  | nil => intro i w _; simp [execBlock]
  | cons tx rest ih =>
    intro i w hf
    obtain ⟨hfresh, hdist, hrest⟩ := hf
    obtain ⟨h1, h2⟩ := C12B.receipt_logs_exact cfg h13 rv hrv hkc i w tx hfresh
    have hf' : FreshHashes (execTx cfg rv i w tx).1 rest := by
      clear ih
      induction rest with
      | nil => trivial
      | cons t ts iht =>
        obtain ⟨g1, g2, g3⟩ := hrest
        refine ⟨?_, g2, iht (fun x hx => hdist x (List.mem_cons_of_mem _ hx)) g3⟩
        unfold World.getLogs at g1 ⊢
        rw [h1]
        exact getLogs_append_other w _ tx.hash t.hash (hdist t (List.mem_cons_self)) h2 g1
    have := ih (i + 1) (execTx cfg rv i w tx).1 hf'
    unfold execBlock
    simp only [List.map_cons, List.flatten_cons]
    rw [this, h1, List.append_assoc]

/-- non-vacuity: three transactions, the middle one fails after a LOG, one has a reverted sub-frame -/
example :
    let w0 : World := (({} : World).setCode (.base 20) .hosted).setCode (.base 21) .hosted
    let t1 : Tx := { hash := 1, origin := .base 10, kind := .call (.base 20), value := 0, body := .log 1 11 (.done .stop) }
    let t2 : Tx := { hash := 2, origin := .base 10, kind := .call (.base 21), value := 0, body := .log 0 12 (.done .invalid) }
    let t3 : Tx := { hash := 3, origin := .base 10, kind := .call (.base 21), value := 0,
                     body := .call 1 .call (.base 20) 0 (.log 0 13 (.done .revert)) (.log 0 31 (.done .stop)) }
    FreshHashes w0 [t1, t2, t3]
    ∧ ((execBlock {} restore 0 w0 [t1, t2, t3]).2.map (fun r => r.logs.map (·.tag))) = [[11], [], [31]] := by
  refine ⟨⟨rfl, by decide, rfl, by decide, rfl, by decide, trivial⟩, by decide⟩

/-! ## scratch state -/

/-- `transientStorage.Set/Get`: a slot reads what was last written (zero deletes: reads zero), others are untouched -/
theorem transient_get_set (w : World) (a b : Addr) (k k' v : Nat) :
    (w.setTransient a k v).getTransient b k' = if a = b ∧ k = k' then v else w.getTransient b k' := by
  simp [World.setTransient, World.getTransient, SMap.get_set]

/-- what `Prepare` does to the scratch state, positively: transient storage is carried over unchanged (the
    recorded defect `tx-scratch:transient-not-reset`), the access list is emptied, the observation is untouched -/
theorem prepare_keeps_transient (w : World) (h i : Nat) :
    (prepare w h i).getTransient = w.getTransient ∧ (prepare w h i).access = [] ∧ obs (prepare w h i) = obs w :=
  ⟨rfl, rfl, rfl⟩

/-- under Proposal013 every transaction of a block starts with an empty access list, whatever the earlier ones did -/
theorem access_list_fresh_per_tx (cfg : Cfg) (h13 : cfg.p013 = true) (rv : World → World → World)
    (txs : List Tx) (i : Nat) (w : World) (tx : Tx) :
    (txStartWorld cfg (i + txs.length) (execBlock cfg rv i w txs).1 tx).access = [] := by
  simp [txStartWorld, h13, prepare]

end Rangers.Props.C12E
