import Rangers.Model.MinerRefundHeight
/-!
# C20 (continued) — the release height of a refund under every fork configuration

Theorems about `refundHeightOf` (Model/MinerRefundHeight.lean), the model of `RefundManager.getRefundHeight` that the
correspondence stream `rheight` runs next to the real function (reached through the exported `GetRefundStake`, stub group chain).
"Tokens scheduled for refund" are paid by `CheckAndMove` at exactly this height, so a refund is only ever paid if the
height lies in the future of the block that schedules it.
-/
namespace Rangers.Props.C20C
open Rangers Rangers.Miner

/-- From Proposal012 on the release height is `now + 36000`, whatever the type, stake, groups and other flags. -/
theorem refundHeight_post012 (fl : RefundFlags) (now left typ : Nat) (ds : List Nat) (h : fl.p012 = true) :
    refundHeightOf fl now left typ ds = now + refundDelay := by
  simp [refundHeightOf, h]

theorem refundHeight_post012_future (fl : RefundFlags) (now left typ : Nat) (ds : List Nat) (h : fl.p012 = true) :
    now < refundHeightOf fl now left typ ds := by
  rw [refundHeight_post012 fl now left typ ds h]; unfold refundDelay; omega

example : refundHeightOf ⟨true, true, true⟩ 100 0 0 [5, 7] = 36100 := by decide

theorem nextRewardHeight_ge (now : Nat) : now ≤ nextRewardHeight now ∧ nextRewardHeight now < now + rewardBlocks := by
  unfold nextRewardHeight rewardBlocks; omega

/-- Before Proposal012 a proposer (any non-validator type) waits for the next reward height plus 50 blocks: in the
    future, less than one reward period plus 50 away (outside the one block `Proposal011Block`, and away from 2^64). -/
theorem refundHeight_proposer_pre012 (fl : RefundFlags) (now left typ : Nat) (ds : List Nat) (h12 : fl.p012 = false)
    (ht : typ ≠ typeValidator) (h11 : fl.p011Now = false) (hb : now + rewardBlocks + refundBlocks < 2 ^ 64) :
    refundHeightOf fl now left typ ds = nextRewardHeight now + refundBlocks ∧
      now < refundHeightOf fl now left typ ds ∧ refundHeightOf fl now left typ ds < now + rewardBlocks + refundBlocks := by
  have hn := nextRewardHeight_ge now
  have hm : (nextRewardHeight now + refundBlocks) % 2 ^ 64 = nextRewardHeight now + refundBlocks :=
    Nat.mod_eq_of_lt (by omega)
  have hne : nextRewardHeight now + refundBlocks ≠ 0 := by unfold refundBlocks; omega
  have : refundHeightOf fl now left typ ds = nextRewardHeight now + refundBlocks := by
    unfold refundHeightOf
    simp only [h12, ht, h11, hm, if_false, Bool.false_eq_true]
    rw [if_neg (fun h => hne h.2)]
  rw [this]
  unfold refundBlocks at *
  omega

example : refundHeightOf ⟨false, true, false⟩ 36001 0 1 [] = 72050 := by decide

theorem mem_insertNat (a k : Nat) (l : List Nat) : a ∈ insertNat k l ↔ a = k ∨ a ∈ l := by
  induction l with
  | nil => simp [insertNat]
  | cons b l ih =>
    unfold insertNat
    split
    · simp
    · simp only [List.mem_cons, ih]
      constructor
      · rintro (h | h | h) <;> simp [h]
      · rintro (h | h | h) <;> simp [h]

theorem mem_sortNat (a : Nat) (l : List Nat) : a ∈ sortNat l ↔ a ∈ l := by
  induction l with
  | nil => simp [sortNat]
  | cons b l ih => simp [sortNat, mem_insertNat, ih]

theorem length_insertNat (k : Nat) (l : List Nat) : (insertNat k l).length = l.length + 1 := by
  induction l with
  | nil => rfl
  | cons b l ih =>
    unfold insertNat
    split
    · rfl
    · simp [ih]

theorem length_sortNat (l : List Nat) : (sortNat l).length = l.length := by
  induction l with
  | nil => rfl
  | cons b l ih => simp [sortNat, length_insertNat, ih]

theorem sorted_insertNat (k : Nat) (l : List Nat) (h : l.Pairwise (· ≤ ·)) : (insertNat k l).Pairwise (· ≤ ·) := by
  induction l with
  | nil => simp [insertNat]
  | cons b l ih =>
    have hb := List.pairwise_cons.mp h
    unfold insertNat
    split
    · rename_i hk
      refine List.pairwise_cons.mpr ⟨?_, h⟩
      intro x hx
      rcases List.mem_cons.mp hx with rfl | hx
      · exact hk
      · exact Nat.le_trans hk (hb.1 x hx)
    · rename_i hk
      refine List.pairwise_cons.mpr ⟨?_, ih hb.2⟩
      intro x hx
      rcases (mem_insertNat x k l).mp hx with rfl | hx
      · omega
      · exact hb.1 x hx

/-- `sort.Sort(DismissHeightList)` really sorts (ascending) and keeps exactly the given heights. -/
theorem sortNat_sorted (l : List Nat) : (sortNat l).Pairwise (· ≤ ·) := by
  induction l with
  | nil => simp [sortNat]
  | cons b l ih => exact sorted_insertNat b _ ih

/-- Before Proposal012 a validator whose remaining stake no longer pays for all its groups waits for a dismiss height
    of one of those groups (the `delta`-th earliest, `delta` = groups − `left / 400`) plus 50 blocks — or gets 0 when that
    group never dismisses (`MaxUint64`). -/
theorem baseHeight_is_a_dismiss_height (left : Nat) (ds : List Nat) (hlt : left / validatorStake < ds.length) :
    ∃ b ∈ ds, b = (sortNat ds).getD (ds.length - left / validatorStake - 1) 0 ∧
      baseHeight left typeValidator ds = (if b ≠ maxU64 then (b + refundBlocks) % 2 ^ 64 else 0) := by
  have hidx : ds.length - left / validatorStake - 1 < (sortNat ds).length := by
    rw [length_sortNat]
    generalize left / validatorStake = q at hlt
    omega
  refine ⟨(sortNat ds).getD (ds.length - left / validatorStake - 1) 0, ?_, rfl, ?_⟩
  · rw [← mem_sortNat]
    have : (sortNat ds).getD (ds.length - left / validatorStake - 1) 0 = (sortNat ds)[ds.length - left / validatorStake - 1] := by
      simp [List.getD, List.getElem?_eq_getElem hidx]
    rw [this]
    exact List.getElem_mem hidx
  · simp [baseHeight, hlt]

/-- … and a validator whose remaining stake still pays for every group it is in has nothing to wait for: base 0, which
    Proposal004 turns into `now + 5000`. -/
theorem refundHeight_validator_enough_stake (fl : RefundFlags) (now left : Nat) (ds : List Nat) (h12 : fl.p012 = false)
    (h4 : fl.p004 = true) (h11 : fl.p011Now = false) (hle : ds.length ≤ left / validatorStake) :
    refundHeightOf fl now left typeValidator ds = (now + refundBlocks * 100) % 2 ^ 64 := by
  have : ¬ ds.length > left / validatorStake := by omega
  simp [refundHeightOf, h12, h4, h11, baseHeight, this]

/-- When every group the validator is in dismisses after `now` (and below 2^64 − 50), the release height is in the future. -/
theorem refundHeight_validator_future (fl : RefundFlags) (now left : Nat) (ds : List Nat) (h12 : fl.p012 = false)
    (h4 : fl.p004 = true) (h11 : fl.p011Now = false) (hnow : now + refundBlocks * 100 < 2 ^ 64)
    (hds : ∀ d ∈ ds, now < d ∧ d + refundBlocks < 2 ^ 64) :
    now < refundHeightOf fl now left typeValidator ds := by
  by_cases hlt : left / validatorStake < ds.length
  · obtain ⟨b, hb, _, hbase⟩ := baseHeight_is_a_dismiss_height left ds hlt
    have hd := hds b hb
    have hbm : b ≠ maxU64 := by unfold maxU64; unfold refundBlocks at hd; omega
    have hv : baseHeight left typeValidator ds = b + refundBlocks := by
      rw [hbase, if_pos hbm]; exact Nat.mod_eq_of_lt hd.2
    have hne : b + refundBlocks ≠ 0 := by unfold refundBlocks; omega
    have : refundHeightOf fl now left typeValidator ds = b + refundBlocks := by
      unfold refundHeightOf
      simp only [h12, h11, hv, if_false, if_true, Bool.false_eq_true]
      rw [if_neg (fun h => hne h.2)]
    rw [this]; omega
  · rw [refundHeight_validator_enough_stake fl now left ds h12 h4 h11 (by omega), Nat.mod_eq_of_lt hnow]
    unfold refundBlocks; omega

example : refundHeightOf ⟨false, true, false⟩ 1000 400 0 [9000, 3000, 5000] = 5050 ∧
    refundHeightOf ⟨false, true, false⟩ 1000 1200 0 [9000, 3000, 5000] = 6000 := by decide

/-- "Every scheduled refund has a release height after the block that schedules it." -/
def FullStatementRefundHeightFuture : Prop :=
  ∀ fl now left typ ds, now < 2 ^ 63 → (∀ d ∈ ds, now < d ∧ d < 2 ^ 63) → now < refundHeightOf fl now left typ ds

/-- False of the code in two historical corners (replayed by the `rheight` stream, model = code): before Proposal004 a
    validator with enough remaining stake gets height 0 (swept once by `CheckAndMove(0)` at `Proposal004Block`), and at
    the single block `Proposal011Block` 50 is subtracted after the fact (below height 50 the `uint64` wraps). -/
theorem refundHeight_future_counterexample : ¬ FullStatementRefundHeightFuture := by
  intro h
  have := h ⟨false, false, false⟩ 1000 800 typeValidator [5000] (by decide) (by decide)
  exact absurd this (by decide)

example : refundHeightOf ⟨false, false, true⟩ 10 0 typeValidator [] = 2 ^ 64 - 50 := by decide

end Rangers.Props.C20C
