import Rangers.Generated.C09Facts
/-!
# C09, part 6 — the parsers' call sites (T-gen): "never crashes the process" tied where the bytes arrive

`parse_total_*` show that the parsers themselves return an object or an error. These obligations pin
what the *callers* outside package `types` do with that answer, re-read from the source on every run:
a new call site, a dropped error check or a new unchecked use changes the generated list and breaks one.
-/
namespace Rangers.Props.C09
open Rangers.Generated.C09

/-- On the p2p receive path (network/, core/msg_handler.go, core/sync_msg.go) every `UnMarshalX` call tests
    its error before using the result (`TransactionGotMsg`, `newBlockHandler`). -/
theorem p2p_unmarshal_sites_check_error :
    (parserCallSites.filter (fun s => s.1 == 1 && s.2.1 < 10)).all (fun s => s.2.2 == 0) = true := by decide

/-- There *are* such sites (the obligation above is not vacuous). -/
theorem p2p_unmarshal_sites_present :
    (parserCallSites.filter (fun s => s.1 == 1 && s.2.1 < 10)).length = 2 := by decide

/-- The consensus decoders (`consensus/net/msg_decode.go`) use converter results as they come; they are only
    entered through `MessageHandler.Handle`, which defers a `recover()`. -/
theorem consensus_entry_recovers : consensusHandlerRecovers = true := by decide

/-- Inventory of the raw converter calls (`PbToX`, no error result) on the p2p receive path. All four sit in
    core/sync_msg.go (chain-piece, block-response, group-response decoders) and use the result unchecked:
    `PbToBlockHeader`/`PbToBlock` may return a nil header there for a message whose times do not decode.
    Pinned so that a new unchecked use (or a repair) is noticed; see design/C09.md, "leads not replayed". -/
theorem p2p_converter_sites_inventory :
    parserCallSites.filter (fun s => s.1 == 1 && s.2.1 > 10) = [(1, 11, 2), (1, 11, 2), (1, 12, 2), (1, 13, 2)] := by
  decide

/-- Local storage / rpc callers: the only discarded errors are the three known ones
    (transaction_pool.GetTransaction, ensureChainConsistency ×2); everything else tests the error. -/
theorem local_sites_discarded_errors :
    (parserCallSites.filter (fun s => s.2.2 == 1)).length = 3 ∧
    (parserCallSites.filter (fun s => s.1 == 3 && s.2.2 == 2)).length = 0 := by decide

/-- The codec and the identifying hashes read no fork configuration: their behaviour is the same under
    every proposal schedule and block height (so the dev-config harness run covers mainnet/robin too). -/
theorem codec_reads_no_fork_flags : forkFlagReads = 0 := by decide

/-- The conversions are sequential: no function on the codec path starts a goroutine, so a returned list
    is complete when the call returns (the model's converters are plain structural recursions over the list,
    proved for every length; a "parallel for speed" rewrite has to come back through this obligation). -/
theorem codec_starts_no_goroutines : goStatements = 0 := by decide

end Rangers.Props.C09
