import Rangers.Props.C09B
/-!
# C09, part 3 — values obtained by parsing; where the full statements fail (known findings)
-/
namespace Rangers.Props.C09
open Rangers Rangers.Wire Rangers.Json

/-- Full statement for values obtained by parsing: the next Marshal/UnMarshal pass is the identity. -/
def passIsIdentity (h : Header) : Bool :=
  match marshalHeader h with
  | some b => unmarshalHeader b == .ok h
  | none => false

def FullStatement_parsed_fixed_point : Prop :=
  ∀ (bs : Bytes) (h : Header), unmarshalHeader bs = .ok h → passIsIdentity h = true

/-- Proved restriction: … when the parsed times are ones `time.MarshalBinary` carries and the
    RequestIds JSON is in the class `encoding/json` reads back verbatim. -/
theorem parsed_fixed_point_partial (bs : Bytes) (h : Header) (hu : unmarshalHeader bs = .ok h)
    (ok : HeaderOK h) (fits : HeaderFits h) :
    ∃ b, marshalHeader h = some b ∧ unmarshalHeader b = .ok h ∧ headerGenHash h = headerGenHash h := by
  have hp : Producible h := by
    unfold unmarshalHeader at hu
    cases hd : decHeader bs with
    | none => simp [hd] at hu
    | some p =>
      simp only [hd] at hu
      cases hph : pbToHeader p with
      | ok h' =>
        simp only [hph, Outcome.ok.injEq] at hu
        subst hu
        exact producible_of_parsed p h' hph
      | err => simp [hph] at hu
      | nilObj => simp [hph] at hu; split at hu <;> cases hu
      | panic s => simp [hph] at hu
  obtain ⟨b, hb, hub, _⟩ := header_lossless h ok fits hp
  exact ⟨b, hb, hub, rfl⟩

/-- A header message whose PreTime is a version-2 time with zone offset -56 min +36 s. -/
def witnessNegSec : Bytes :=
  [0x22, 0x10, 0x02, 0, 0, 0, 0x0e, 0xd9, 0x58, 0xa9, 0x29, 0, 0, 0, 0, 0xff, 0xc8, 0x24,
   0x3a, 0x0f, 0x01, 0, 0, 0, 0x0e, 0xd9, 0x58, 0xa9, 0x29, 0, 0, 0, 0, 0xff, 0xff]

def witnessNegSecHeader : Header :=
  match unmarshalHeader witnessNegSec with
  | .ok h => h
  | _ => default

theorem witnessNegSec_parses : unmarshalHeader witnessNegSec = .ok witnessNegSecHeader := by decide

set_option maxRecDepth 8000 in
/-- Known finding `parsed-header-roundtrip-time-zone-negative-seconds`: the parsed header has zone
    -3324 s; re-marshalled and re-parsed it has zone -3068 s (Go reads the seconds byte unsigned). -/
theorem parsed_fixed_point_counterexample : ¬ FullStatement_parsed_fixed_point := by
  intro H
  have h := H witnessNegSec witnessNegSecHeader witnessNegSec_parses
  revert h
  decide

set_option maxRecDepth 4000 in
example : witnessNegSecHeader.preTime.zone = some (-3324) := by decide
set_option maxRecDepth 4000 in
example : (match marshalHeader witnessNegSecHeader with
    | some b => (match unmarshalHeader b with | .ok h => h.preTime.zone | _ => none)
    | none => none) = some (-3068) := by decide

/-- Known finding `parsed-header-roundtrip-time-zone-not-marshalable`: zone offset -90 s parses,
    but `MarshalBlockHeader` of the parsed header returns (nil, nil). -/
def witnessM1 : Bytes :=
  [0x22, 0x10, 0x02, 0, 0, 0, 0x0e, 0xd9, 0x58, 0xa9, 0x29, 0, 0, 0, 0, 0xff, 0xfe, 0x1e,
   0x3a, 0x0f, 0x01, 0, 0, 0, 0x0e, 0xd9, 0x58, 0xa9, 0x29, 0, 0, 0, 0, 0xff, 0xff]

theorem parsed_not_marshalable_witness :
    (match unmarshalHeader witnessM1 with
     | .ok h => marshalHeader h == none && h.preTime.zone == some (-90)
     | _ => false) = true := by decide

/-- Why `Producible` is needed in `header_hash_stable`: a header with nil `Transactions` renders
    `"Transactions":null` before and `"Transactions":[]` after the pass. -/
def FullStatement_hash_stable_all : Prop :=
  ∀ h : Header, HeaderOK h → headerHashInput (normHeader h) = headerHashInput h

def witnessNilTxs : Header :=
  { hash := List.replicate 32 0, height := 1, preHash := List.replicate 32 0, preTime := ⟨63776008489, 0, none⟩,
    proveValue := none, totalQN := 0, curTime := ⟨63776008490, 5, some 28800⟩, castor := none, groupId := none,
    signature := none, nonce := 0, requestIds := .nil, transactions := none, txTree := List.replicate 32 0,
    receiptTree := List.replicate 32 0, stateTree := List.replicate 32 0, extraData := none, random := none,
    evictedTxs := some [] }

theorem witnessNilTxs_ok : HeaderOK witnessNilTxs := by
  refine ⟨⟨by decide, by decide, by decide, trivial⟩, ⟨by decide, by decide, by decide, ?_⟩, ?_⟩
  · show (-32768 ≤ Int.tdiv 28800 60 ∧ Int.tdiv 28800 60 ≤ 32767 ∧ Int.tdiv 28800 60 ≠ -1 ∧ 0 ≤ Int.tmod 28800 60)
    decide
  · unfold ReqIdsStable; decide

set_option maxRecDepth 8000 in
theorem hash_stable_all_counterexample : ¬ FullStatement_hash_stable_all := by
  intro H
  have h := H witnessNilTxs witnessNilTxs_ok
  revert h
  decide

/-- Non-vacuity of `header_lossless`: a concrete producible header satisfies every hypothesis. -/
def sampleHeader : Header :=
  { witnessNilTxs with
    transactions := some [(List.replicate 32 1, List.replicate 32 2)]
    proveValue := some 5
    requestIds := .map [([0x66, 0x69, 0x78, 0x65, 0x64], 1024)] }

example : HeaderOK sampleHeader := by
  refine ⟨⟨by decide, by decide, by decide, trivial⟩, ⟨by decide, by decide, by decide, ?_⟩, ?_⟩
  · show (-32768 ≤ Int.tdiv 28800 60 ∧ Int.tdiv 28800 60 ≤ 32767 ∧ Int.tdiv 28800 60 ≠ -1 ∧ 0 ≤ Int.tmod 28800 60)
    decide
  · unfold ReqIdsStable; decide

set_option maxRecDepth 8000 in
example : passIsIdentity sampleHeader = true := by decide

end Rangers.Props.C09
