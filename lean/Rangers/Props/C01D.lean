import Rangers.Model.BlockExec
import Rangers.Props.C01
/-!
# C01 (continued) — the reward inputs computed from the miner registry

`rewardInOf` derives the three loop inputs of `calculateRewardPerBlock` from the registry with
bit-exact float64 arithmetic.  The validator list it produces has pairwise distinct accounts (it
is built like the Go map `membersDetail`), so `exec_deterministic` applies without any hypothesis
about the reward inputs.
-/
namespace Rangers.Props.C01D
open Rangers Rangers.Model.BlockExec Rangers.Props.C01
open List

theorem mergeStake_keys (l : List (Addr × Nat)) (a : Addr) (v : Nat) (x : Addr) :
    x ∈ (mergeStake l a v).map Prod.fst ↔ x = a ∨ x ∈ l.map Prod.fst := by
  induction l with
  | nil => simp [mergeStake]
  | cons e l ih =>
    obtain ⟨i, w⟩ := e
    simp only [mergeStake]
    split
    · rename_i h
      subst h
      simp only [map_cons, mem_cons]
      constructor
      · rintro (h | h)
        · exact Or.inl h
        · exact Or.inr (Or.inr h)
      · rintro (h | h | h)
        · exact Or.inl h
        · exact Or.inl h
        · exact Or.inr h
    · simp only [map_cons, mem_cons, ih]
      constructor
      · rintro (h | h | h)
        · exact Or.inr (Or.inl h)
        · exact Or.inl h
        · exact Or.inr (Or.inr h)
      · rintro (h | h | h)
        · exact Or.inr (Or.inl h)
        · exact Or.inl h
        · exact Or.inr (Or.inr h)

theorem mergeStake_nodup (l : List (Addr × Nat)) (a : Addr) (v : Nat) (h : (l.map Prod.fst).Nodup) :
    ((mergeStake l a v).map Prod.fst).Nodup := by
  induction l with
  | nil => simp [mergeStake]
  | cons e l ih =>
    obtain ⟨i, w⟩ := e
    simp only [map_cons, nodup_cons] at h
    simp only [mergeStake]
    split
    · simp only [map_cons, nodup_cons]; exact h
    · rename_i hne
      simp only [map_cons, nodup_cons]
      refine ⟨?_, ih h.2⟩
      rw [mergeStake_keys]
      rintro (h1 | h1)
      · exact hne h1
      · exact h.1 h1

theorem merged_nodup (s : St) (members : List Nat) (acc : List (Addr × Nat)) (h : (acc.map Prod.fst).Nodup) :
    ((members.foldl (fun acc id =>
        let st := stakeOf s id 0
        if st = 0 then acc else mergeStake acc (accountOf s id 0) st) acc).map Prod.fst).Nodup := by
  induction members generalizing acc with
  | nil => exact h
  | cons m ms ih =>
    simp only [foldl_cons]
    apply ih
    split
    · exact h
    · exact mergeStake_nodup _ _ _ h

/-- the validator inputs computed from the registry have pairwise distinct accounts -/
theorem rewardInOf_validators_nodup (c : RewardCfg) (height : Nat) (s : St) (vs : List (Addr × Nat))
    (h : (rewardInOf c height s).validators = some vs) : (vs.map Prod.fst).Nodup := by
  unfold rewardInOf at h
  simp only at h
  cases hg : c.group with
  | none => simp [hg] at h
  | some members =>
    simp only [hg, Option.map_some, Option.some.injEq] at h
    subst h
    split
    · exact Pairwise.nil
    · rw [map_map]
      exact merged_nodup s members [] Pairwise.nil

/-- **exec_deterministic for the registry-driven reward**: no hypothesis left about the reward. -/
theorem exec_deterministic_registry (ρ₁ ρ₂ : Orders) (v₁ : OrdersValid ρ₁) (v₂ : OrdersValid ρ₂) (env : Env) (f : Flags)
    (hd : Header) (c : RewardCfg) (ids : List Addr) (s : St) (txs : List Tx) :
    execBlock ρ₁ env f hd (fun s' => some (rewardInOf c hd.height s')) ids s txs
      = execBlock ρ₂ env f hd (fun s' => some (rewardInOf c hd.height s')) ids s txs := by
  apply exec_deterministic ρ₁ ρ₂ v₁ v₂
  intro s' r vs h1 h2
  simp only [Option.some.injEq] at h1
  subst h1
  exact rewardInOf_validators_nodup c hd.height s' vs h2

def regEx : St := { St.empty with miners := [
  ⟨1, 1, 2000, 10, true, 0, 0, 0, true, true⟩, ⟨2, 1, 6000, 11, true, 0, 0, 0, true, true⟩,
  ⟨3, 0, 400, 12, true, 0, 0, 0, true, true⟩, ⟨4, 0, 800, 12, true, 0, 0, 0, true, true⟩] }
/-- 0x3FF0000000000000 = 1.0 as total reward: proposer shares 0.25·0.5 and 0.75·0.5 RPG, the two
    validators share one account and are merged -/
example : (rewardInOf ⟨0x3FF0000000000000, 7200, 2, some [3, 4]⟩ 100 regEx).proposers
    = [(10, 125000000000000000), (11, 375000000000000000)] := by decide
example : ((rewardInOf ⟨0x3FF0000000000000, 7200, 2, some [3, 4]⟩ 100 regEx).validators.map (·.map Prod.fst)) = some [12] := by decide

end Rangers.Props.C01D
